/-
  C06 — non-interference by simulation: two histories that agree on a closed set of handles, run in
  lockstep under the "copies everywhere" configuration, render the same tokens for the ops of that set,
  as long as neither run ever writes an exposed slot (`Quiet`).
-/
import GormModel.Lemmas.Heap
import GormModel.Lemmas.HeapQuiet
namespace Gorm.Heap


/-! ## deep values: what a cell denotes, array identities quotiented away -/

inductive Val where
  | bot
  | atom (n : Nat)
  | orc (len : Nat) (l : List Val)
  | andc (len : Nat) (l : List Val)
  | notc (len : Nat) (l : List Val)

def den : Nat → Heap → Cell → Val
  | 0, _, _ => .bot
  | _ + 1, _, .atom n => .atom n
  | f + 1, H, .orc s => .orc s.len ((readS H s).map (den f H))
  | f + 1, H, .andc s => .andc s.len ((readS H s).map (den f H))
  | f + 1, H, .notc s => .notc s.len ((readS H s).map (den f H))

def dl (f : Nat) (H : Heap) (s : Slice) : List Val := (readS H s).map (den f H)

def cellOK (H : Heap) : Cell → Prop
  | .atom _ => True
  | .orc s | .andc s | .notc s => s.validIn H

/-- every slice stored in a cell of the heap lies inside the initialised part of its array -/
def HeapOK (H : Heap) : Prop := ∀ a c, c ∈ H.cells a → cellOK H c

/-- a heap transition that only grows a well-formed heap into a well-formed heap -/
structure Tr (H H' : Heap) : Prop where
  ok : HeapOK H
  g : Grows H H'
  ok' : HeapOK H'

/-- two lists of cells (in two heaps) denote the same values -/
structure LEq (H1 : Heap) (l1 : List Cell) (H2 : Heap) (l2 : List Cell) : Prop where
  ok1 : ∀ c ∈ l1, cellOK H1 c
  ok2 : ∀ c ∈ l2, cellOK H2 c
  eq : ∀ f, l1.map (den f H1) = l2.map (den f H2)

/-- two valid slices (in two heaps) denote the same values -/
structure VEq (H1 : Heap) (s1 : Slice) (H2 : Heap) (s2 : Slice) : Prop where
  v1 : s1.validIn H1
  v2 : s2.validIn H2
  eq : ∀ f, dl f H1 s1 = dl f H2 s2

def OEq (H1 H2 : Heap) : Option Slice → Option Slice → Prop
  | none, none => True
  | some a, some b => VEq H1 a H2 b
  | _, _ => False

def GEq (H1 H2 : Heap) : Option (Slice × Slice) → Option (Slice × Slice) → Prop
  | none, none => True
  | some a, some b => VEq H1 a.1 H2 b.1 ∧ VEq H1 a.2 H2 b.2
  | _, _ => False

def REq (H1 H2 : Heap) : Option (Option Slice) → Option (Option Slice) → Prop
  | none, none => True
  | some a, some b => OEq H1 H2 a b
  | _, _ => False

/-- two statements (in two heaps) are field-wise equivalent -/
structure StEq (H1 : Heap) (a : Stmt) (H2 : Heap) (b : Stmt) : Prop where
  wher : OEq H1 H2 a.wher b.wher
  order : OEq H1 H2 a.order b.order
  group : GEq H1 H2 a.group b.group
  ret : REq H1 H2 a.ret b.ret
  limit : a.limit = b.limit
  lock : a.lock = b.lock
  selects : VEq H1 a.selects H2 b.selects
  omits : VEq H1 a.omits H2 b.omits
  joins : VEq H1 a.joins H2 b.joins
  scopes : VEq H1 a.scopes H2 b.scopes
  distinct : a.distinct = b.distinct
  unscoped : a.unscoped = b.unscoped
  table : a.table = b.table

/-- two handles (in two heaps) are equivalent -/
def HEq (H1 : Heap) (h1 : Handle) (H2 : Heap) (h2 : Handle) : Prop :=
  h1.clone = h2.clone ∧ StEq H1 h1.st H2 h2.st

/-- single-run well-formedness: the heap is well-formed and every slice of every handle is valid
    (`HEq` on the diagonal says exactly that) -/
structure SOK (S : State) : Prop where
  heap : HeapOK S.heap
  env : ∀ i, HEq S.heap (S.handle i) S.heap (S.handle i)

/-! ## basic facts -/

theorem readS_length {H : Heap} {s : Slice} (v : s.validIn H) : (readS H s).length = s.len := by
  unfold readS; simp only [List.length_take, List.length_drop]; have := v.1; omega

theorem mem_readS {H : Heap} {s : Slice} {c : Cell} (h : c ∈ readS H s) : c ∈ H.cells s.arr :=
  List.mem_of_mem_drop (List.mem_of_mem_take h)

theorem cells_oob {H : Heap} {a : Nat} (h : ¬ a < H.arrs.length) : H.cells a = [] := by
  simp [Heap.cells, List.getD_eq_getElem?_getD, List.getElem?_eq_none (Nat.le_of_not_lt h)]

theorem validIn_mono {H H' : Heap} (g : Grows H H') {s : Slice} (v : s.validIn H) : s.validIn H' := by
  refine ⟨?_, fun h => Nat.lt_of_lt_of_le (v.2 h) g.1⟩
  by_cases ha : s.arr < H.arrs.length
  · obtain ⟨t, e⟩ := g.2 _ ha
    rw [e]; simp only [List.length_append]; have := v.1; omega
  · have h0 := v.1; rw [cells_oob ha] at h0; simp at h0; omega

theorem cellOK_mono {H H' : Heap} (g : Grows H H') {c : Cell} (v : cellOK H c) : cellOK H' c := by
  cases c <;> simp only [cellOK] at * <;> exact validIn_mono g v

theorem nil_valid (H : Heap) : Slice.nil.validIn H := ⟨by simp [Slice.nil], by simp [Slice.nil]⟩

theorem readS_nil (H : Heap) : readS H Slice.nil = [] := by simp [readS, Slice.nil]

theorem den_frozen {H H' : Heap} (g : Grows H H') (ok : HeapOK H) : ∀ f c, cellOK H c → den f H' c = den f H c := by
  intro f
  induction f with
  | zero => intros; rfl
  | succ f ih =>
    intro c hc
    have key : ∀ s : Slice, s.validIn H → (readS H' s).map (den f H') = (readS H s).map (den f H) := by
      intro s v; rw [readS_of_grows g s v]
      exact List.map_congr_left (fun c hc => ih c (ok _ _ (mem_readS hc)))
    cases c with
    | atom n => rfl
    | orc s => show Val.orc s.len _ = Val.orc s.len _; rw [key s hc]
    | andc s => show Val.andc s.len _ = Val.andc s.len _; rw [key s hc]
    | notc s => show Val.notc s.len _ = Val.notc s.len _; rw [key s hc]

theorem dl_frozen {H H' : Heap} (t : Tr H H') {s : Slice} (v : s.validIn H) (f : Nat) : dl f H' s = dl f H s := by
  unfold dl; rw [readS_of_grows t.g s v]
  exact List.map_congr_left (fun c hc => den_frozen t.g t.ok f c (t.ok _ _ (mem_readS hc)))

theorem Tr.refl {H : Heap} (ok : HeapOK H) : Tr H H := ⟨ok, Grows.refl H, ok⟩
theorem Tr.trans {A B C : Heap} (h1 : Tr A B) (h2 : Tr B C) : Tr A C := ⟨h1.ok, Grows.trans h1.g h2.g, h2.ok'⟩

theorem LEq.mono {H1 H1' H2 H2' : Heap} (t1 : Tr H1 H1') (t2 : Tr H2 H2') {l1 l2 : List Cell} (e : LEq H1 l1 H2 l2) :
    LEq H1' l1 H2' l2 := by
  refine ⟨fun c hc => cellOK_mono t1.g (e.ok1 c hc), fun c hc => cellOK_mono t2.g (e.ok2 c hc), fun f => ?_⟩
  rw [List.map_congr_left (fun c hc => den_frozen t1.g t1.ok f c (e.ok1 c hc)),
      List.map_congr_left (fun c hc => den_frozen t2.g t2.ok f c (e.ok2 c hc))]
  exact e.eq f

theorem VEq.mono {H1 H1' H2 H2' : Heap} (t1 : Tr H1 H1') (t2 : Tr H2 H2') {s1 s2 : Slice} (e : VEq H1 s1 H2 s2) :
    VEq H1' s1 H2' s2 :=
  ⟨validIn_mono t1.g e.v1, validIn_mono t2.g e.v2, fun f => by rw [dl_frozen t1 e.v1, dl_frozen t2 e.v2]; exact e.eq f⟩

theorem VEq.len {H1 H2 : Heap} {s1 s2 : Slice} (e : VEq H1 s1 H2 s2) : s1.len = s2.len := by
  have h := congrArg List.length (e.eq 0)
  simp only [dl, List.length_map] at h
  rw [readS_length e.v1, readS_length e.v2] at h; exact h

theorem VEq.toL {H1 H2 : Heap} (ok1 : HeapOK H1) (ok2 : HeapOK H2) {s1 s2 : Slice} (e : VEq H1 s1 H2 s2) :
    LEq H1 (readS H1 s1) H2 (readS H2 s2) :=
  ⟨fun c hc => ok1 _ _ (mem_readS hc), fun c hc => ok2 _ _ (mem_readS hc), e.eq⟩

theorem VEq.nil (H1 H2 : Heap) : VEq H1 Slice.nil H2 Slice.nil :=
  ⟨nil_valid H1, nil_valid H2, fun f => by simp [dl, readS_nil]⟩

theorem LEq.nil (H1 H2 : Heap) : LEq H1 [] H2 [] := ⟨by simp, by simp, fun _ => rfl⟩

theorem LEq.append {H1 H2 : Heap} {a1 b1 a2 b2 : List Cell} (ea : LEq H1 a1 H2 a2) (eb : LEq H1 b1 H2 b2) :
    LEq H1 (a1 ++ b1) H2 (a2 ++ b2) := by
  refine ⟨fun c hc => ?_, fun c hc => ?_, fun f => by rw [List.map_append, List.map_append, ea.eq f, eb.eq f]⟩
  · rcases List.mem_append.mp hc with h | h; exact ea.ok1 c h; exact eb.ok1 c h
  · rcases List.mem_append.mp hc with h | h; exact ea.ok2 c h; exact eb.ok2 c h

theorem LEq.one {H1 H2 : Heap} {c1 c2 : Cell} (o1 : cellOK H1 c1) (o2 : cellOK H2 c2) (e : ∀ f, den f H1 c1 = den f H2 c2) :
    LEq H1 [c1] H2 [c2] :=
  ⟨by simpa using o1, by simpa using o2, fun f => by simp [e f]⟩

theorem LEq.atoms (H1 H2 : Heap) (l : List Nat) : LEq H1 (l.map .atom) H2 (l.map .atom) := by
  refine ⟨?_, ?_, fun f => ?_⟩
  · intro c hc; obtain ⟨n, _, rfl⟩ := List.mem_map.mp hc; trivial
  · intro c hc; obtain ⟨n, _, rfl⟩ := List.mem_map.mp hc; trivial
  · simp only [List.map_map]; apply List.map_congr_left; intro n _; cases f <;> rfl

theorem den_orc {H1 H2 : Heap} {s1 s2 : Slice} (e : VEq H1 s1 H2 s2) (f : Nat) : den f H1 (.orc s1) = den f H2 (.orc s2) := by
  cases f with
  | zero => rfl
  | succ f => show Val.orc _ _ = Val.orc _ _; rw [e.len]; exact congrArg _ (e.eq f)
theorem den_andc {H1 H2 : Heap} {s1 s2 : Slice} (e : VEq H1 s1 H2 s2) (f : Nat) : den f H1 (.andc s1) = den f H2 (.andc s2) := by
  cases f with
  | zero => rfl
  | succ f => show Val.andc _ _ = Val.andc _ _; rw [e.len]; exact congrArg _ (e.eq f)
theorem den_notc {H1 H2 : Heap} {s1 s2 : Slice} (e : VEq H1 s1 H2 s2) (f : Nat) : den f H1 (.notc s1) = den f H2 (.notc s2) := by
  cases f with
  | zero => rfl
  | succ f => show Val.notc _ _ = Val.notc _ _; rw [e.len]; exact congrArg _ (e.eq f)

/-! ## alloc -/

theorem alloc_cells_new (H : Heap) (l : List Cell) (cap : Nat) : (alloc H l cap).1.cells H.arrs.length = l := by
  simp [alloc, Heap.cells, List.getD_eq_getElem?_getD]

theorem alloc_cells_old (H : Heap) (l : List Cell) (cap : Nat) {a : Nat} (h : a < H.arrs.length) :
    (alloc H l cap).1.cells a = H.cells a := cells_append_lt H.arrs l H.writes a h

theorem readS_alloc (H : Heap) (l : List Cell) (cap : Nat) : readS (alloc H l cap).1 (alloc H l cap).2 = l := by
  unfold readS; rw [show (alloc H l cap).2.arr = H.arrs.length from rfl, alloc_cells_new]
  simp [alloc]

theorem alloc_valid (H : Heap) (l : List Cell) (cap : Nat) : (alloc H l cap).2.validIn (alloc H l cap).1 := by
  refine ⟨?_, fun _ => ?_⟩
  · rw [show (alloc H l cap).2.arr = H.arrs.length from rfl, alloc_cells_new]; simp [alloc]
  · simp [alloc]

theorem alloc_grows (H : Heap) (l : List Cell) (cap : Nat) : Grows H (alloc H l cap).1 := (alloc_ext H l cap).2 rfl

theorem alloc_tr {H : Heap} (ok : HeapOK H) {l : List Cell} (hl : ∀ c ∈ l, cellOK H c) (cap : Nat) : Tr H (alloc H l cap).1 := by
  refine ⟨ok, alloc_grows H l cap, fun a c hc => ?_⟩
  by_cases h1 : a < H.arrs.length
  · rw [alloc_cells_old H l cap h1] at hc; exact cellOK_mono (alloc_grows H l cap) (ok a c hc)
  · by_cases h2 : a = H.arrs.length
    · subst h2; rw [alloc_cells_new] at hc; exact cellOK_mono (alloc_grows H l cap) (hl c hc)
    · rw [cells_oob (by simp [alloc]; omega)] at hc; simp at hc

/-- the result of two computations that each return a heap and a slice -/
structure SOut (H1 : Heap) (p1 : Heap × Slice) (H2 : Heap) (p2 : Heap × Slice) : Prop where
  t1 : Tr H1 p1.1
  t2 : Tr H2 p2.1
  e : VEq p1.1 p1.2 p2.1 p2.2

theorem alloc_rel {H1 H2 : Heap} (ok1 : HeapOK H1) (ok2 : HeapOK H2) {l1 l2 : List Cell} (e : LEq H1 l1 H2 l2) (c1 c2 : Nat) :
    SOut H1 (alloc H1 l1 c1) H2 (alloc H2 l2 c2) := by
  have t1 := alloc_tr ok1 e.ok1 c1
  have t2 := alloc_tr ok2 e.ok2 c2
  refine ⟨t1, t2, alloc_valid _ _ _, alloc_valid _ _ _, fun f => ?_⟩
  unfold dl; rw [readS_alloc, readS_alloc]; exact (e.mono t1 t2).eq f

theorem makeCopy_rel {H1 H2 : Heap} (ok1 : HeapOK H1) (ok2 : HeapOK H2) {s1 s2 : Slice} (e : VEq H1 s1 H2 s2) :
    SOut H1 (makeCopy H1 s1) H2 (makeCopy H2 s2) := alloc_rel ok1 ok2 (e.toL ok1 ok2) 0 0

theorem SOut.pre {H1 A1 H2 A2 : Heap} {p1 p2 : Heap × Slice} (t1 : Tr H1 A1) (t2 : Tr H2 A2) (o : SOut A1 p1 A2 p2) :
    SOut H1 p1 H2 p2 := ⟨t1.trans o.t1, t2.trans o.t2, o.e⟩

theorem SOut.refl {H1 H2 : Heap} (ok1 : HeapOK H1) (ok2 : HeapOK H2) {s1 s2 : Slice} (e : VEq H1 s1 H2 s2) :
    SOut H1 (H1, s1) H2 (H2, s2) := ⟨Tr.refl ok1, Tr.refl ok2, e⟩

theorem LEq.length {H1 H2 : Heap} {l1 l2 : List Cell} (e : LEq H1 l1 H2 l2) : l1.length = l2.length := by
  have := congrArg List.length (e.eq 0); simpa using this

/-! ## append -/

theorem appendS_full (H : Heap) (s : Slice) (cs : List Cell) (h : s.cap ≤ s.len) :
    appendS H s cs = if cs.isEmpty then (H, s) else alloc H (readS H s ++ cs) (growCap s.cap (s.len + cs.length)) := by
  unfold appendS
  split
  · rfl
  · rename_i hne
    rw [if_neg]
    intro hfit
    have : cs.length = 0 := by omega
    simp [List.length_eq_zero_iff.mp this] at hne

theorem appendS_one_spec {H : Heap} {s : Slice} {c : Cell} (ok : HeapOK H) (v : s.validIn H) (hc : cellOK H c)
    (q : (appendS H s [c]).1.writes = H.writes) :
    Tr H (appendS H s [c]).1 ∧ (appendS H s [c]).2.validIn (appendS H s [c]).1 ∧
      readS (appendS H s [c]).1 (appendS H s [c]).2 = readS H s ++ [c] := by
  by_cases hfit : s.len + 1 ≤ s.cap
  · have e : appendS H s [c] = (writeAt H s.arr (s.off + s.len) c, { s with len := s.len + 1 }) := by
      simp [appendS, hfit, writeFrom]
    rw [e] at q ⊢; simp only at q ⊢
    have g : Grows H (writeAt H s.arr (s.off + s.len) c) := (writeAt_ext _ _ _ _).2 q
    have hf : s.off + s.len = (H.cells s.arr).length ∧ s.arr < H.arrs.length := by
      unfold writeAt at q
      split at q
      · simp at q
      · split at q
        · assumption
        · simp at q
    have hcells : (writeAt H s.arr (s.off + s.len) c).cells s.arr = H.cells s.arr ++ [c] := by
      unfold writeAt; rw [if_neg (by omega), if_pos hf]
      simp [Heap.cells, List.getD_eq_getElem?_getD, hf.2]
    have hother : ∀ b, b ≠ s.arr → (writeAt H s.arr (s.off + s.len) c).cells b = H.cells b := by
      intro b hb
      unfold writeAt; rw [if_neg (by omega), if_pos hf]
      simp [Heap.cells, List.getD_eq_getElem?_getD, List.getElem?_set_ne (Ne.symm hb)]
    refine ⟨⟨ok, g, fun b c' hc' => ?_⟩, ⟨?_, fun _ => Nat.lt_of_lt_of_le hf.2 g.1⟩, ?_⟩
    · by_cases hb : b = s.arr
      · subst hb; rw [hcells] at hc'
        rcases List.mem_append.mp hc' with h | h
        · exact cellOK_mono g (ok _ _ h)
        · simp at h; subst h; exact cellOK_mono g hc
      · rw [hother b hb] at hc'; exact cellOK_mono g (ok _ _ hc')
    · show s.off + (s.len + 1) ≤ _
      rw [hcells]; simp only [List.length_append, List.length_singleton]; omega
    · unfold readS; simp only; rw [hcells, List.drop_append_of_le_length (by omega)]
      have hl : ((H.cells s.arr).drop s.off).length = s.len := by simp only [List.length_drop]; omega
      rw [List.take_of_length_le (by simp only [List.length_append, List.length_singleton]; omega),
          List.take_of_length_le (by omega)]
  · have e : appendS H s [c] = alloc H (readS H s ++ [c]) (growCap s.cap (s.len + 1)) := by
      simp [appendS, hfit]
    rw [e]
    refine ⟨alloc_tr ok (fun c' hc' => ?_) _, alloc_valid _ _ _, readS_alloc _ _ _⟩
    rcases List.mem_append.mp hc' with h | h
    · exact ok _ _ (mem_readS h)
    · simp at h; subst h; exact hc

theorem appendS_one_rel {H1 H2 : Heap} (ok1 : HeapOK H1) (ok2 : HeapOK H2) {s1 s2 : Slice} {c1 c2 : Cell}
    (e : VEq H1 s1 H2 s2) (ec : LEq H1 [c1] H2 [c2])
    (q1 : (appendS H1 s1 [c1]).1.writes = H1.writes) (q2 : (appendS H2 s2 [c2]).1.writes = H2.writes) :
    SOut H1 (appendS H1 s1 [c1]) H2 (appendS H2 s2 [c2]) := by
  obtain ⟨t1, v1, r1⟩ := appendS_one_spec ok1 e.v1 (ec.ok1 c1 (by simp)) q1
  obtain ⟨t2, v2, r2⟩ := appendS_one_spec ok2 e.v2 (ec.ok2 c2 (by simp)) q2
  have L := ((e.toL ok1 ok2).append ec).mono t1 t2
  exact ⟨t1, t2, v1, v2, fun f => by unfold dl; rw [r1, r2]; exact L.eq f⟩

theorem appendFold_rel (l : List Nat) : ∀ (p1 p2 : Heap × Slice), HeapOK p1.1 → HeapOK p2.1 → VEq p1.1 p1.2 p2.1 p2.2 →
    (l.foldl (fun (p : Heap × Slice) b => appendS p.1 p.2 [.atom b]) p1).1.writes = p1.1.writes →
    (l.foldl (fun (p : Heap × Slice) b => appendS p.1 p.2 [.atom b]) p2).1.writes = p2.1.writes →
    SOut p1.1 (l.foldl (fun (p : Heap × Slice) b => appendS p.1 p.2 [.atom b]) p1) p2.1
      (l.foldl (fun (p : Heap × Slice) b => appendS p.1 p.2 [.atom b]) p2) := by
  induction l with
  | nil => intro p1 p2 ok1 ok2 e _ _; exact SOut.refl ok1 ok2 e
  | cons b l ih =>
    intro p1 p2 ok1 ok2 e q1 q2
    simp only [List.foldl_cons] at q1 q2 ⊢
    have a1 := appendS_ext p1.1 p1.2 [.atom b]
    have a2 := appendS_ext p2.1 p2.2 [.atom b]
    have f1 := appendFold_ext l (appendS p1.1 p1.2 [.atom b])
    have f2 := appendFold_ext l (appendS p2.1 p2.2 [.atom b])
    have w1 : (appendS p1.1 p1.2 [.atom b]).1.writes = p1.1.writes := by have := a1.1; have := f1.1; omega
    have w2 : (appendS p2.1 p2.2 [.atom b]).1.writes = p2.1.writes := by have := a2.1; have := f2.1; omega
    have r := appendS_one_rel ok1 ok2 e (LEq.atoms p1.1 p2.1 [b]) w1 w2
    exact SOut.pre r.t1 r.t2 (ih _ _ r.t1.ok' r.t2.ok' r.e (by rw [q1, w1]) (by rw [q2, w2]))

/-! ## merges -/

theorem mergeSlices_rel {H1 H2 : Heap} (ok1 : HeapOK H1) (ok2 : HeapOK H2) {o1 o2 n1 n2 : Slice}
    (eo : VEq H1 o1 H2 o2) (en : VEq H1 n1 H2 n2) :
    SOut H1 (mergeSlices .makeCopy H1 o1 n1) H2 (mergeSlices .makeCopy H2 o2 n2) := by
  have m := makeCopy_rel ok1 ok2 eo
  have L := (en.mono m.t1 m.t2).toL m.t1.ok' m.t2.ok'
  show SOut H1 (appendS (makeCopy H1 o1).1 (makeCopy H1 o1).2 (readS (makeCopy H1 o1).1 n1)) H2
    (appendS (makeCopy H2 o2).1 (makeCopy H2 o2).2 (readS (makeCopy H2 o2).1 n2))
  rw [appendS_full _ _ _ (makeCopy_cap H1 o1), appendS_full _ _ _ (makeCopy_cap H2 o2)]
  have hl := L.length
  by_cases h : (readS (makeCopy H1 o1).1 n1) = []
  · have h2 : (readS (makeCopy H2 o2).1 n2) = [] := by
      rw [h] at hl; exact List.length_eq_zero_iff.mp hl.symm
    rw [h, h2]; exact m
  · have h2 : ¬ (readS (makeCopy H2 o2).1 n2) = [] := by
      intro h2; rw [h2] at hl; exact h (List.length_eq_zero_iff.mp hl)
    rw [if_neg (by simpa using h), if_neg (by simpa using h2)]
    exact SOut.pre m.t1 m.t2 (alloc_rel m.t1.ok' m.t2.ok' ((m.e.toL m.t1.ok' m.t2.ok').append L) _ _)

theorem mergeWhere_rel {H1 H2 : Heap} (ok1 : HeapOK H1) (ok2 : HeapOK H2) {o1 o2 : Option Slice} {n1 n2 : Slice}
    (eo : OEq H1 H2 o1 o2) (en : VEq H1 n1 H2 n2) :
    SOut H1 (mergeWhere .makeCopy H1 o1 n1) H2 (mergeWhere .makeCopy H2 o2 n2) := by
  cases o1 <;> cases o2 <;> simp only [OEq] at eo
  · exact SOut.refl ok1 ok2 en
  · exact alloc_rel ok1 ok2 ((eo.toL ok1 ok2).append (en.toL ok1 ok2)) 0 0

/-! ## statements -/

theorem OEq.mono {H1 H1' H2 H2' : Heap} (t1 : Tr H1 H1') (t2 : Tr H2 H2') {a b : Option Slice} (e : OEq H1 H2 a b) :
    OEq H1' H2' a b := by
  cases a <;> cases b <;> simp only [OEq] at e ⊢
  exact e.mono t1 t2

theorem StEq.mono {H1 H1' H2 H2' : Heap} (t1 : Tr H1 H1') (t2 : Tr H2 H2') {a b : Stmt} (e : StEq H1 a H2 b) :
    StEq H1' a H2' b where
  wher := e.wher.mono t1 t2
  order := e.order.mono t1 t2
  group := by
    have h := e.group
    cases ha : a.group <;> cases hb : b.group <;> rw [ha, hb] at h <;> simp only [GEq] at h ⊢
    exact ⟨h.1.mono t1 t2, h.2.mono t1 t2⟩
  ret := by
    have h := e.ret
    cases ha : a.ret <;> cases hb : b.ret <;> rw [ha, hb] at h <;> simp only [REq] at h ⊢
    exact h.mono t1 t2
  limit := e.limit
  lock := e.lock
  selects := e.selects.mono t1 t2
  omits := e.omits.mono t1 t2
  joins := e.joins.mono t1 t2
  scopes := e.scopes.mono t1 t2
  distinct := e.distinct
  unscoped := e.unscoped
  table := e.table

theorem HEq.mono {H1 H1' H2 H2' : Heap} (t1 : Tr H1 H1') (t2 : Tr H2 H2') {h1 h2 : Handle} (e : HEq H1 h1 H2 h2) :
    HEq H1' h1 H2' h2 := ⟨e.1, e.2.mono t1 t2⟩

theorem StEq.default (H1 H2 : Heap) : StEq H1 {} H2 {} where
  wher := trivial
  order := trivial
  group := trivial
  ret := trivial
  limit := rfl
  lock := rfl
  selects := VEq.nil _ _
  omits := VEq.nil _ _
  joins := VEq.nil _ _
  scopes := VEq.nil _ _
  distinct := rfl
  unscoped := rfl
  table := rfl

/-- the result of two computations that each return a heap and a statement -/
structure TOut (H1 : Heap) (p1 : Heap × Stmt) (H2 : Heap) (p2 : Heap × Stmt) : Prop where
  t1 : Tr H1 p1.1
  t2 : Tr H2 p2.1
  e : StEq p1.1 p1.2 p2.1 p2.2

theorem TOut.pre {H1 A1 H2 A2 : Heap} {p1 p2 : Heap × Stmt} (t1 : Tr H1 A1) (t2 : Tr H2 A2) (o : TOut A1 p1 A2 p2) :
    TOut H1 p1 H2 p2 := ⟨t1.trans o.t1, t2.trans o.t2, o.e⟩

theorem TOut.refl {H1 H2 : Heap} (ok1 : HeapOK H1) (ok2 : HeapOK H2) {s1 s2 : Stmt} (e : StEq H1 s1 H2 s2) :
    TOut H1 (H1, s1) H2 (H2, s2) := ⟨Tr.refl ok1, Tr.refl ok2, e⟩

theorem addWhere_rel {H1 H2 : Heap} (ok1 : HeapOK H1) (ok2 : HeapOK H2) {st1 st2 : Stmt} {n1 n2 : Slice}
    (e : StEq H1 st1 H2 st2) (en : VEq H1 n1 H2 n2) :
    TOut H1 (addWhere cfgSafe.mg H1 st1 n1) H2 (addWhere cfgSafe.mg H2 st2 n2) := by
  have m := mergeWhere_rel ok1 ok2 e.wher en
  exact ⟨m.t1, m.t2, { e.mono m.t1 m.t2 with wher := m.e }⟩

theorem addOrder_rel {H1 H2 : Heap} (ok1 : HeapOK H1) (ok2 : HeapOK H2) {st1 st2 : Stmt} {n1 n2 : Slice}
    (e : StEq H1 st1 H2 st2) (en : VEq H1 n1 H2 n2) :
    TOut H1 (addOrder cfgSafe.mg H1 st1 n1) H2 (addOrder cfgSafe.mg H2 st2 n2) := by
  have h := e.order
  unfold addOrder
  cases ha : st1.order <;> cases hb : st2.order <;> rw [ha, hb] at h <;> simp only [OEq] at h ⊢
  · exact ⟨Tr.refl ok1, Tr.refl ok2, { e with order := en }⟩
  · have m := mergeSlices_rel ok1 ok2 h en
    exact ⟨m.t1, m.t2, { e.mono m.t1 m.t2 with order := m.e }⟩

theorem addGroup_rel {H1 H2 : Heap} (ok1 : HeapOK H1) (ok2 : HeapOK H2) {st1 st2 : Stmt} {c1 c2 v1 v2 : Slice}
    (e : StEq H1 st1 H2 st2) (ec : VEq H1 c1 H2 c2) (ev : VEq H1 v1 H2 v2) :
    TOut H1 (addGroup cfgSafe.mg H1 st1 c1 v1) H2 (addGroup cfgSafe.mg H2 st2 c2 v2) := by
  have h := e.group
  unfold addGroup
  cases ha : st1.group <;> cases hb : st2.group <;> rw [ha, hb] at h <;> simp only [GEq] at h ⊢
  · exact ⟨Tr.refl ok1, Tr.refl ok2, { e with group := ⟨ec, ev⟩ }⟩
  · have m := mergeSlices_rel ok1 ok2 h.1 ec
    have m2 := mergeSlices_rel m.t1.ok' m.t2.ok' (h.2.mono m.t1 m.t2) (ev.mono m.t1 m.t2)
    exact ⟨m.t1.trans m2.t1, m.t2.trans m2.t2,
      { e.mono (m.t1.trans m2.t1) (m.t2.trans m2.t2) with group := ⟨m.e.mono m2.t1 m2.t2, m2.e⟩ }⟩

theorem addRet_rel {H1 H2 : Heap} (ok1 : HeapOK H1) (ok2 : HeapOK H2) {st1 st2 : Stmt} {n1 n2 : Option Slice}
    (e : StEq H1 st1 H2 st2) (en : OEq H1 H2 n1 n2) :
    TOut H1 (addRet cfgSafe.mg H1 st1 n1) H2 (addRet cfgSafe.mg H2 st2 n2) := by
  have h := e.ret
  have base : TOut H1 (H1, { st1 with ret := some n1 }) H2 (H2, { st2 with ret := some n2 }) :=
    ⟨Tr.refl ok1, Tr.refl ok2, { e with ret := en }⟩
  have star : TOut H1 (H1, { st1 with ret := some none }) H2 (H2, { st2 with ret := some none }) :=
    ⟨Tr.refl ok1, Tr.refl ok2, { e with ret := trivial }⟩
  unfold addRet
  cases ha : st1.ret <;> cases hb : st2.ret <;> rw [ha, hb] at h <;> simp only [REq] at h
  · exact base
  · rename_i x y
    cases x <;> cases y <;> simp only [OEq] at h <;> cases n1 <;> cases n2 <;> simp only [OEq] at en
    · exact base
    · dsimp only; rw [en.len]; split
      · exact star
      · exact base
    · exact base
    · dsimp only; rw [en.len]; split
      · have m := mergeSlices_rel ok1 ok2 h en
        exact ⟨m.t1, m.t2, { e.mono m.t1 m.t2 with ret := m.e }⟩
      · exact base

theorem addLimit_rel {H1 H2 : Heap} {st1 st2 : Stmt} (e : StEq H1 st1 H2 st2) (l : Option Nat) (o : Nat) :
    StEq H1 (addLimit st1 l o) H2 (addLimit st2 l o) := by
  have h := e.limit
  unfold addLimit
  rw [h]
  cases st2.limit with
  | none => exact { e with limit := rfl }
  | some p => exact { e with limit := rfl }

/-! ## conditions -/

theorem cell_shape {H1 H2 : Heap} {c1 c2 : Cell} (h : ∀ f, den f H1 c1 = den f H2 c2) :
    (∃ n, c1 = .atom n ∧ c2 = .atom n) ∨
    (∃ s1 s2, c1 = .orc s1 ∧ c2 = .orc s2 ∧ s1.len = s2.len ∧ ∀ f, dl f H1 s1 = dl f H2 s2) ∨
    (∃ s1 s2, c1 = .andc s1 ∧ c2 = .andc s2 ∧ s1.len = s2.len ∧ ∀ f, dl f H1 s1 = dl f H2 s2) ∨
    (∃ s1 s2, c1 = .notc s1 ∧ c2 = .notc s2 ∧ s1.len = s2.len ∧ ∀ f, dl f H1 s1 = dl f H2 s2) := by
  cases c1 <;> cases c2 <;> try (exfalso; have h1 := h 1; simp [den] at h1; done)
  · rename_i n m
    have h1 := h 1; simp only [den, Val.atom.injEq] at h1
    exact Or.inl ⟨n, rfl, by rw [h1]⟩
  · rename_i a b
    exact Or.inr (Or.inl ⟨a, b, rfl, rfl, (Val.orc.inj (h 1)).1, fun f => (Val.orc.inj (h (f + 1))).2⟩)
  · rename_i a b
    exact Or.inr (Or.inr (Or.inl ⟨a, b, rfl, rfl, (Val.andc.inj (h 1)).1, fun f => (Val.andc.inj (h (f + 1))).2⟩))
  · rename_i a b
    exact Or.inr (Or.inr (Or.inr ⟨a, b, rfl, rfl, (Val.notc.inj (h 1)).1, fun f => (Val.notc.inj (h (f + 1))).2⟩))

theorem list_shape {H1 H2 : Heap} {l1 l2 : List Cell} (L : LEq H1 l1 H2 l2) :
    (l1 = [] ∧ l2 = []) ∨ (∃ c1 c2, l1 = [c1] ∧ l2 = [c2] ∧ ∀ f, den f H1 c1 = den f H2 c2) ∨
    (∃ x y r x' y' r', l1 = x :: y :: r ∧ l2 = x' :: y' :: r') := by
  have hl := L.length
  rcases l1 with _ | ⟨c1, _ | ⟨d1, r1⟩⟩ <;> rcases l2 with _ | ⟨c2, _ | ⟨d2, r2⟩⟩ <;> simp at hl
  · exact Or.inl ⟨rfl, rfl⟩
  · exact Or.inr (Or.inl ⟨c1, c2, rfl, rfl, fun f => by simpa using L.eq f⟩)
  · exact Or.inr (Or.inr ⟨_, _, _, _, _, _, rfl, rfl⟩)

def OCEq (H1 H2 : Heap) : Option Cell → Option Cell → Prop
  | none, none => True
  | some a, some b => LEq H1 [a] H2 [b]
  | _, _ => False

theorem andOf_rel {H1 H2 : Heap} (ok1 : HeapOK H1) (ok2 : HeapOK H2) {s1 s2 : Slice} (e : VEq H1 s1 H2 s2) :
    OCEq H1 H2 (andOf H1 s1) (andOf H2 s2) := by
  have L := e.toL ok1 ok2
  have A : LEq H1 [.andc s1] H2 [.andc s2] := LEq.one e.v1 e.v2 (den_andc e)
  unfold andOf
  rcases list_shape L with ⟨h1, h2⟩ | ⟨c1, c2, h1, h2, hc⟩ | ⟨x, y, r, x', y', r', h1, h2⟩
  · rw [h1, h2]; trivial
  · rw [h1, h2] at L ⊢
    rcases cell_shape hc with ⟨n, rfl, rfl⟩ | ⟨a, b, rfl, rfl, _⟩ | ⟨a, b, rfl, rfl, _⟩ | ⟨a, b, rfl, rfl, _⟩
    · exact L
    · exact A
    · exact L
    · exact L
  · rw [h1, h2]; exact A

/-- the result of two computations that each return a heap and an optional slice -/
structure OOut (H1 : Heap) (p1 : Heap × Option Slice) (H2 : Heap) (p2 : Heap × Option Slice) : Prop where
  t1 : Tr H1 p1.1
  t2 : Tr H2 p2.1
  e : OEq p1.1 p2.1 p1.2 p2.2

/-- the And-unpack of `Not(conds...)` / `Where.Build` -/
def andTarget (l : List Cell) (d : Slice) : Slice :=
  match l with
  | [.andc s] => s
  | _ => d

theorem target_rel {H1 H2 : Heap} {l1 l2 : List Cell} {d1 d2 : Slice} (ed : VEq H1 d1 H2 d2) (L : LEq H1 l1 H2 l2) :
    VEq H1 (andTarget l1 d1) H2 (andTarget l2 d2) := by
  rcases list_shape L with ⟨h1, h2⟩ | ⟨c1, c2, h1, h2, hc⟩ | ⟨x, y, r, x', y', r', h1, h2⟩
  · subst h1; subst h2; exact ed
  · subst h1; subst h2
    rcases cell_shape hc with ⟨n, rfl, rfl⟩ | ⟨a, b, rfl, rfl, _⟩ | ⟨a, b, rfl, rfl, _, hab⟩ | ⟨a, b, rfl, rfl, _⟩
    · exact ed
    · exact ed
    · exact ⟨L.ok1 (.andc a) (by simp), L.ok2 (.andc b) (by simp), hab⟩
    · exact ed
  · subst h1; subst h2; cases x <;> cases x' <;> exact ed

theorem wrapCond_not (H : Heap) (kind : Nat) (conds : Slice) (h0 : ¬ conds.len = 0) (hk0 : ¬ kind = 0) (hk1 : ¬ kind = 1) :
    wrapCond H kind conds = ((alloc H [.notc (andTarget (readS H conds) conds)] 1).1,
      some (alloc H [.notc (andTarget (readS H conds) conds)] 1).2) := by
  unfold wrapCond andTarget
  rw [if_neg h0, if_neg hk0, if_neg hk1]
  rfl

theorem wrapCond_rel {H1 H2 : Heap} (ok1 : HeapOK H1) (ok2 : HeapOK H2) (kind : Nat) {c1 c2 : Slice} (e : VEq H1 c1 H2 c2) :
    OOut H1 (wrapCond H1 kind c1) H2 (wrapCond H2 kind c2) := by
  unfold wrapCond
  rw [e.len]
  by_cases h0 : c2.len = 0
  · rw [if_pos h0, if_pos h0]; exact ⟨Tr.refl ok1, Tr.refl ok2, trivial⟩
  rw [if_neg h0, if_neg h0]
  by_cases hk0 : kind = 0
  · rw [if_pos hk0, if_pos hk0]; exact ⟨Tr.refl ok1, Tr.refl ok2, e⟩
  rw [if_neg hk0, if_neg hk0]
  by_cases hk1 : kind = 1
  · rw [if_pos hk1, if_pos hk1]
    have a := andOf_rel ok1 ok2 e
    cases h1 : andOf H1 c1 <;> cases h2 : andOf H2 c2 <;> rw [h1, h2] at a <;> simp only [OCEq] at a
    · exact ⟨Tr.refl ok1, Tr.refl ok2, trivial⟩
    · have m1 := alloc_rel ok1 ok2 a 1 1
      have m2 := alloc_rel m1.t1.ok' m1.t2.ok' (LEq.one (c1 := .orc _) (c2 := .orc _) m1.e.v1 m1.e.v2 (den_orc m1.e)) 1 1
      exact ⟨m1.t1.trans m2.t1, m1.t2.trans m2.t2, m2.e⟩
  · rw [if_neg hk1, if_neg hk1]
    have h0' : ¬ c1.len = 0 := by rw [e.len]; exact h0
    have w1 := wrapCond_not H1 kind c1 h0' hk0 hk1
    have w2 := wrapCond_not H2 kind c2 h0 hk0 hk1
    unfold wrapCond at w1 w2
    rw [if_neg h0', if_neg hk0, if_neg hk1] at w1
    rw [if_neg h0, if_neg hk0, if_neg hk1] at w2
    rw [w1, w2]
    have tg := target_rel e (e.toL ok1 ok2)
    have m := alloc_rel ok1 ok2 (LEq.one (c1 := .notc _) (c2 := .notc _) tg.v1 tg.v2 (den_notc tg)) 1 1
    exact ⟨m.t1, m.t2, m.e⟩

/-- the rewrite of a single Or into an And on a fresh one-element slice -/
def orcUnwrap (H : Heap) (w : Slice) : Heap × Slice :=
  match readS H w with
  | [.orc o] => alloc H [.andc o] 1
  | _ => (H, w)

theorem buildCondGroup_true (H : Heap) (arg : Stmt) : buildCondGroup true H arg =
    match arg.wher with
    | none => alloc H [] 4
    | some w => (match andOf (orcUnwrap H w).1 (orcUnwrap H w).2 with
      | none => alloc (orcUnwrap H w).1 [] 4
      | some c => alloc (orcUnwrap H w).1 [c] 4) := by
  unfold buildCondGroup orcUnwrap
  cases arg.wher with
  | none => rfl
  | some w => rfl

theorem orcUnwrap_rel {H1 H2 : Heap} (ok1 : HeapOK H1) (ok2 : HeapOK H2) {w1 w2 : Slice} (e : VEq H1 w1 H2 w2) :
    SOut H1 (orcUnwrap H1 w1) H2 (orcUnwrap H2 w2) := by
  have L := e.toL ok1 ok2
  unfold orcUnwrap
  rcases list_shape L with ⟨h1, h2⟩ | ⟨c1, c2, h1, h2, hc⟩ | ⟨x, y, r, x', y', r', h1, h2⟩
  · rw [h1, h2]; exact SOut.refl ok1 ok2 e
  · rw [h1, h2] at L ⊢
    rcases cell_shape hc with ⟨n, rfl, rfl⟩ | ⟨a, b, rfl, rfl, _, hab⟩ | ⟨a, b, rfl, rfl, _⟩ | ⟨a, b, rfl, rfl, _⟩
    · exact SOut.refl ok1 ok2 e
    · have v : VEq H1 a H2 b := ⟨L.ok1 (.orc a) (by simp), L.ok2 (.orc b) (by simp), hab⟩
      exact alloc_rel ok1 ok2 (LEq.one (c1 := .andc a) (c2 := .andc b) v.v1 v.v2 (den_andc v)) 1 1
    · exact SOut.refl ok1 ok2 e
    · exact SOut.refl ok1 ok2 e
  · rw [h1, h2]; cases x <;> cases x' <;> exact SOut.refl ok1 ok2 e

theorem buildCondGroup_rel {H1 H2 : Heap} (ok1 : HeapOK H1) (ok2 : HeapOK H2) {a1 a2 : Stmt} (e : StEq H1 a1 H2 a2) :
    SOut H1 (buildCondGroup true H1 a1) H2 (buildCondGroup true H2 a2) := by
  rw [buildCondGroup_true, buildCondGroup_true]
  have h := e.wher
  cases ha : a1.wher <;> cases hb : a2.wher <;> rw [ha, hb] at h <;> simp only [OEq] at h
  · exact alloc_rel ok1 ok2 (LEq.nil _ _) 4 4
  · have u := orcUnwrap_rel ok1 ok2 h
    have a := andOf_rel u.t1.ok' u.t2.ok' u.e
    simp only []
    generalize orcUnwrap H1 _ = p1 at u a ⊢
    generalize orcUnwrap H2 _ = p2 at u a ⊢
    cases h1 : andOf p1.1 p1.2 <;> cases h2 : andOf p2.1 p2.2 <;> rw [h1, h2] at a <;> simp only [OCEq] at a
    · exact SOut.pre u.t1 u.t2 (alloc_rel u.t1.ok' u.t2.ok' (LEq.nil _ _) 4 4)
    · exact SOut.pre u.t1 u.t2 (alloc_rel u.t1.ok' u.t2.ok' a 4 4)

/-! ## clone / getInstance -/

theorem cloneField_rel {H1 H2 : Heap} (ok1 : HeapOK H1) (ok2 : HeapOK H2) {s1 s2 : Slice} (e : VEq H1 s1 H2 s2) :
    SOut H1 (cloneField .makeCopy H1 s1) H2 (cloneField .makeCopy H2 s2) := by
  simp only [cloneField]; rw [e.len]
  by_cases h : s2.len > 0
  · rw [if_pos h, if_pos h]; exact makeCopy_rel ok1 ok2 e
  · rw [if_neg h, if_neg h]; exact SOut.refl ok1 ok2 (VEq.nil _ _)

theorem cloneStmt_safe (H : Heap) (st : Stmt) : cloneStmt cfgSafe.cl H st =
    ((cloneField .makeCopy (cloneField .makeCopy H st.joins).1 st.scopes).1,
      { st with joins := (cloneField .makeCopy H st.joins).2,
                scopes := (cloneField .makeCopy (cloneField .makeCopy H st.joins).1 st.scopes).2 }) := rfl

theorem cloneStmt_rel {H1 H2 : Heap} (ok1 : HeapOK H1) (ok2 : HeapOK H2) {s1 s2 : Stmt} (e : StEq H1 s1 H2 s2) :
    TOut H1 (cloneStmt cfgSafe.cl H1 s1) H2 (cloneStmt cfgSafe.cl H2 s2) := by
  rw [cloneStmt_safe, cloneStmt_safe]
  have m1 := cloneField_rel ok1 ok2 e.joins
  have m2 := cloneField_rel m1.t1.ok' m1.t2.ok' (e.scopes.mono m1.t1 m1.t2)
  exact ⟨m1.t1.trans m2.t1, m1.t2.trans m2.t2,
    { e.mono (m1.t1.trans m2.t1) (m1.t2.trans m2.t2) with joins := m1.e.mono m2.t1 m2.t2, scopes := m2.e }⟩

theorem getInstance_clone (H : Heap) (h : Handle) : (getInstance cfgSafe.cl H h).2.clone = 0 := by
  unfold getInstance
  split
  · assumption
  · split
    · rfl
    · rfl

theorem getInstance_rel {H1 H2 : Heap} (ok1 : HeapOK H1) (ok2 : HeapOK H2) {h1 h2 : Handle} (e : HEq H1 h1 H2 h2) :
    TOut H1 ((getInstance cfgSafe.cl H1 h1).1, (getInstance cfgSafe.cl H1 h1).2.st) H2
      ((getInstance cfgSafe.cl H2 h2).1, (getInstance cfgSafe.cl H2 h2).2.st) := by
  unfold getInstance; rw [e.1]
  by_cases c0 : h2.clone = 0
  · rw [if_pos c0, if_pos c0]; exact TOut.refl ok1 ok2 e.2
  rw [if_neg c0, if_neg c0]
  by_cases c1 : h2.clone = 1
  · rw [if_pos c1, if_pos c1]; exact TOut.refl ok1 ok2 (StEq.default _ _)
  rw [if_neg c1, if_neg c1]
  exact cloneStmt_rel ok1 ok2 e.2

/-! ## scopes, First -/

theorem atoms_list_eq {H1 H2 : Heap} : ∀ l1 l2 : List Cell, l1.map (den 1 H1) = l2.map (den 1 H2) →
    l1.filterMap (fun c => match c with | .atom n => some n | _ => none) =
    l2.filterMap (fun c => match c with | .atom n => some n | _ => none) := by
  intro l1
  induction l1 with
  | nil => intro l2 h; cases l2 with
    | nil => rfl
    | cons _ _ => simp at h
  | cons c1 r1 ih =>
    intro l2 h
    cases l2 with
    | nil => simp at h
    | cons c2 r2 =>
      simp only [List.map_cons, List.cons.injEq] at h
      have := ih r2 h.2
      have h1 := h.1
      cases c1 <;> cases c2 <;> simp [den] at h1 <;> simp [this, h1]

theorem atomsOf_rel {H1 H2 : Heap} {s1 s2 : Slice} (e : VEq H1 s1 H2 s2) : atomsOf H1 s1 = atomsOf H2 s2 :=
  atoms_list_eq _ _ (e.eq 1)

theorem scopesFold_rel (l : List Nat) : ∀ (p1 p2 : Heap × Stmt), HeapOK p1.1 → HeapOK p2.1 → StEq p1.1 p1.2 p2.1 p2.2 →
    TOut p1.1 (l.foldl (fun (p : Heap × Stmt) a => addWhere cfgSafe.mg (condAtom p.1 a).1 p.2 (condAtom p.1 a).2) p1) p2.1
      (l.foldl (fun (p : Heap × Stmt) a => addWhere cfgSafe.mg (condAtom p.1 a).1 p.2 (condAtom p.1 a).2) p2) := by
  induction l with
  | nil => intro p1 p2 ok1 ok2 e; exact TOut.refl ok1 ok2 e
  | cons a l ih =>
    intro p1 p2 ok1 ok2 e
    simp only [List.foldl_cons]
    have c : SOut p1.1 (condAtom p1.1 a) p2.1 (condAtom p2.1 a) := alloc_rel ok1 ok2 (LEq.atoms _ _ [a]) 1 1
    have w := addWhere_rel c.t1.ok' c.t2.ok' (e.mono c.t1 c.t2) c.e
    exact TOut.pre (c.t1.trans w.t1) (c.t2.trans w.t2) (ih _ _ w.t1.ok' w.t2.ok' w.e)

theorem execScopes_rel {H1 H2 : Heap} (ok1 : HeapOK H1) (ok2 : HeapOK H2) {s1 s2 : Stmt} (e : StEq H1 s1 H2 s2) :
    TOut H1 (execScopes cfgSafe.mg H1 s1) H2 (execScopes cfgSafe.mg H2 s2) := by
  unfold execScopes
  rw [atomsOf_rel e.scopes]
  exact scopesFold_rel _ (H1, _) (H2, _) ok1 ok2 { e with scopes := VEq.nil _ _ }

theorem groupArgStmt_rel {H1 H2 : Heap} (ok1 : HeapOK H1) (ok2 : HeapOK H2) {a1 a2 : Handle} (e : HEq H1 a1 H2 a2) :
    TOut H1 (groupArgStmt cfgSafe.cl cfgSafe.mg true H1 a1) H2 (groupArgStmt cfgSafe.cl cfgSafe.mg true H2 a2) := by
  unfold groupArgStmt; rw [e.2.scopes.len]
  by_cases h : a2.st.scopes.len = 0
  · rw [if_pos h, if_pos h]; exact TOut.refl ok1 ok2 e.2
  · rw [if_neg h, if_neg h, if_pos rfl, if_pos rfl]
    have c := cloneStmt_rel ok1 ok2 e.2
    exact TOut.pre c.t1 c.t2 (execScopes_rel c.t1.ok' c.t2.ok' c.e)

theorem firstPrep_rel {H1 H2 : Heap} (ok1 : HeapOK H1) (ok2 : HeapOK H2) (fin : Nat) {s1 s2 : Stmt} (e : StEq H1 s1 H2 s2) :
    TOut H1 (firstPrep cfgSafe.mg fin H1 s1) H2 (firstPrep cfgSafe.mg fin H2 s2) := by
  unfold firstPrep
  by_cases h : fin = 1
  · rw [if_pos h, if_pos h]
    have a := alloc_rel ok1 ok2 (LEq.atoms H1 H2 [0]) 1 1
    exact TOut.pre a.t1 a.t2 (addOrder_rel a.t1.ok' a.t2.ok' ((addLimit_rel e _ _).mono a.t1 a.t2) a.e)
  · rw [if_neg h, if_neg h]; exact TOut.refl ok1 ok2 e

/-! ## caller slices -/

theorem initHeap_atoms (sl : List (List Nat × Nat)) {a : Nat} {c : Cell} (h : c ∈ (initHeap sl).cells a) : ∃ n, c = .atom n := by
  simp only [initHeap, Heap.cells, List.getD_eq_getElem?_getD, List.getElem?_map] at h
  cases hs : sl[a]? with
  | none => rw [hs] at h; simp at h
  | some p =>
    rw [hs] at h; simp only [Option.map_some, Option.getD_some] at h
    obtain ⟨n, _, rfl⟩ := List.mem_map.mp h
    exact ⟨n, rfl⟩

theorem den_atom_indep (H1 H2 : Heap) (n f : Nat) : den f H1 (.atom n) = den f H2 (.atom n) := by cases f <;> rfl

theorem callerSlice_valid (sl : List (List Nat × Nat)) (i k : Nat) : (callerSlice sl i k).validIn (initHeap sl) := by
  unfold callerSlice
  cases hs : sl[i]? with
  | none => exact nil_valid _
  | some p =>
    obtain ⟨cs, cap⟩ := p
    have hi : i < sl.length := by
      by_cases h : i < sl.length
      · exact h
      · rw [List.getElem?_eq_none (Nat.le_of_not_lt h)] at hs; cases hs
    refine ⟨?_, fun _ => by simpa [initHeap] using hi⟩
    simp only [initHeap, Heap.cells, List.getD_eq_getElem?_getD, List.getElem?_map, hs, Option.map_some,
      Option.getD_some, List.length_map]
    omega

theorem callerSlice_rel (sl : List (List Nat × Nat)) {H1 H2 : Heap} (g1 : Grows (initHeap sl) H1) (g2 : Grows (initHeap sl) H2)
    (i k : Nat) : VEq H1 (callerSlice sl i k) H2 (callerSlice sl i k) := by
  have v := callerSlice_valid sl i k
  refine ⟨validIn_mono g1 v, validIn_mono g2 v, fun f => ?_⟩
  unfold dl
  rw [readS_of_grows g1 _ v, readS_of_grows g2 _ v]
  apply List.map_congr_left
  intro c hc
  obtain ⟨n, rfl⟩ := initHeap_atoms sl (mem_readS hc)
  exact den_atom_indep _ _ _ _

/-! ## chain methods -/

def whereTail (st : Stmt) (r : Heap × Option Slice) : Heap × Stmt :=
  match r with
  | (H2, some w) => addWhere cfgSafe.mg H2 st w
  | (H2, none) => (H2, st)

theorem whereTail_rel {H1 H2 : Heap} {st1 st2 : Stmt} (e : StEq H1 st1 H2 st2) {A1 A2 : Heap} (t1 : Tr H1 A1) (t2 : Tr H2 A2)
    {r1 r2 : Heap × Option Slice} (w : OOut A1 r1 A2 r2) : TOut H1 (whereTail st1 r1) H2 (whereTail st2 r2) := by
  obtain ⟨B1, o1⟩ := r1
  obtain ⟨B2, o2⟩ := r2
  have he := w.e
  have u1 : Tr H1 B1 := t1.trans w.t1
  have u2 : Tr H2 B2 := t2.trans w.t2
  cases o1 <;> cases o2 <;> simp only [OEq] at he
  · exact ⟨u1, u2, e.mono u1 u2⟩
  · exact TOut.pre u1 u2 (addWhere_rel u1.ok' u2.ok' (e.mono u1 u2) he)

theorem chainOn_rel (sl : List (List Nat × Nat)) (S1 S2 : State) {H1 H2 : Heap} (ok1 : HeapOK H1) (ok2 : HeapOK H2)
    (g1 : Grows (initHeap sl) H1) (g2 : Grows (initHeap sl) H2)
    {st1 st2 : Stmt} (e : StEq H1 st1 H2 st2) (op : Op)
    (ha : ∀ a ∈ op.args, HEq H1 (S1.handle a) H2 (S2.handle a))
    (q1 : (chainOn cfgSafe sl S1 H1 st1 op).1.writes = H1.writes)
    (q2 : (chainOn cfgSafe sl S2 H2 st2 op).1.writes = H2.writes) :
    TOut H1 (chainOn cfgSafe sl S1 H1 st1 op) H2 (chainOn cfgSafe sl S2 H2 st2 op) := by
  have R := TOut.refl ok1 ok2 e
  cases op
  case session => exact R
  case newdb => exact R
  case ctx => exact R
  case begin => exact R
  case render => exact R
  case skip => exact R
  case cond kind _ a =>
    have c : SOut H1 (condAtom H1 a) H2 (condAtom H2 a) := alloc_rel ok1 ok2 (LEq.atoms _ _ [a]) 1 1
    have w := wrapCond_rel c.t1.ok' c.t2.ok' kind c.e
    exact whereTail_rel e c.t1 c.t2 w
  case condG kind _ arg =>
    have g := groupArgStmt_rel ok1 ok2 (ha arg (by simp [Op.args]))
    have b := buildCondGroup_rel g.t1.ok' g.t2.ok' g.e
    have w := wrapCond_rel b.t1.ok' b.t2.ok' kind b.e
    exact whereTail_rel e (g.t1.trans b.t1) (g.t2.trans b.t2) w
  case order _ a =>
    have c := alloc_rel ok1 ok2 (LEq.atoms H1 H2 [a]) 1 1
    exact TOut.pre c.t1 c.t2 (addOrder_rel c.t1.ok' c.t2.ok' (e.mono c.t1 c.t2) c.e)
  case orderC _ i k => exact addOrder_rel ok1 ok2 e (callerSlice_rel sl g1 g2 i k)
  case group _ a =>
    have c := alloc_rel ok1 ok2 (LEq.atoms H1 H2 [a]) 1 1
    exact TOut.pre c.t1 c.t2 (addGroup_rel c.t1.ok' c.t2.ok' (e.mono c.t1 c.t2) c.e (VEq.nil _ _))
  case having _ a =>
    have c : SOut H1 (condAtom H1 a) H2 (condAtom H2 a) := alloc_rel ok1 ok2 (LEq.atoms _ _ [a]) 1 1
    exact TOut.pre c.t1 c.t2 (addGroup_rel c.t1.ok' c.t2.ok' (e.mono c.t1 c.t2) (VEq.nil _ _) c.e)
  case havingG _ arg =>
    have g := groupArgStmt_rel ok1 ok2 (ha arg (by simp [Op.args]))
    have b := buildCondGroup_rel g.t1.ok' g.t2.ok' g.e
    have u1 := g.t1.trans b.t1
    have u2 := g.t2.trans b.t2
    exact TOut.pre u1 u2 (addGroup_rel u1.ok' u2.ok' (e.mono u1 u2) (VEq.nil _ _) b.e)
  case ret _ cols =>
    have c := alloc_rel ok1 ok2 (LEq.atoms H1 H2 cols) cols.length cols.length
    exact TOut.pre c.t1 c.t2 (addRet_rel c.t1.ok' c.t2.ok' (e.mono c.t1 c.t2) (n1 := some _) (n2 := some _) c.e)
  case retStar => exact addRet_rel ok1 ok2 e (n1 := none) (n2 := none) trivial
  case limit _ n => exact TOut.refl ok1 ok2 (addLimit_rel e _ _)
  case offset _ n => exact TOut.refl ok1 ok2 (addLimit_rel e _ _)
  case select _ cols =>
    cases cols with
    | nil => exact R
    | cons a rest =>
      have c := alloc_rel ok1 ok2 (LEq.atoms H1 H2 [a]) 1 1
      have f := appendFold_rel rest _ _ c.t1.ok' c.t2.ok' c.e q1 q2
      exact ⟨c.t1.trans f.t1, c.t2.trans f.t2, { e.mono (c.t1.trans f.t1) (c.t2.trans f.t2) with selects := f.e }⟩
  case selectS _ i k extra =>
    have c := makeCopy_rel ok1 ok2 (callerSlice_rel sl g1 g2 i k)
    have f := appendFold_rel extra _ _ c.t1.ok' c.t2.ok' c.e q1 q2
    exact ⟨c.t1.trans f.t1, c.t2.trans f.t2, { e.mono (c.t1.trans f.t1) (c.t2.trans f.t2) with selects := f.e }⟩
  case «omit» _ cols =>
    have c := alloc_rel ok1 ok2 (LEq.atoms H1 H2 cols) cols.length cols.length
    exact ⟨c.t1, c.t2, { e.mono c.t1 c.t2 with omits := c.e }⟩
  case joins _ a =>
    have c := appendS_one_rel ok1 ok2 e.joins (LEq.atoms H1 H2 [a]) q1 q2
    exact ⟨c.t1, c.t2, { e.mono c.t1 c.t2 with joins := c.e }⟩
  case scopes _ a =>
    have c := appendS_one_rel ok1 ok2 e.scopes (LEq.atoms H1 H2 [a]) q1 q2
    exact ⟨c.t1, c.t2, { e.mono c.t1 c.t2 with scopes := c.e }⟩
  case distinct => exact TOut.refl ok1 ok2 { e with distinct := rfl }
  case table _ a => exact TOut.refl ok1 ok2 { e with table := rfl }
  case unscoped => exact TOut.refl ok1 ok2 { e with unscoped := rfl }
  case lock _ a => exact TOut.refl ok1 ok2 { e with lock := rfl }

/-! ## rendering depends on the denotation only -/

theorem isSingleOr_eq {H1 H2 : Heap} {c1 c2 : Cell} (h : ∀ f, den f H1 c1 = den f H2 c2) : isSingleOr c1 = isSingleOr c2 := by
  rcases cell_shape h with ⟨n, rfl, rfl⟩ | ⟨a, b, rfl, rfl, hl, _⟩ | ⟨a, b, rfl, rfl, _⟩ | ⟨a, b, rfl, rfl, _⟩ <;>
    simp [isSingleOr, *]

theorem buildList_eq {H1 H2 : Heap} (b1 b2 : Cell → List Tok)
    (hb : ∀ c1 c2, (∀ f, den f H1 c1 = den f H2 c2) → b1 c1 = b2 c2) :
    ∀ (l1 l2 : List Cell) (join : Tok) (first : Bool), (∀ f, l1.map (den f H1) = l2.map (den f H2)) →
      buildList b1 l1 join first = buildList b2 l2 join first := by
  intro l1
  induction l1 with
  | nil => intro l2 j fi h; cases l2 with
    | nil => rfl
    | cons _ _ => have := h 0; simp at this
  | cons c1 r1 ih =>
    intro l2 j fi h
    cases l2 with
    | nil => have := h 0; simp at this
    | cons c2 r2 =>
      have hc : ∀ f, den f H1 c1 = den f H2 c2 := fun f => (List.cons.inj (h f)).1
      have hr : ∀ f, r1.map (den f H1) = r2.map (den f H2) := fun f => (List.cons.inj (h f)).2
      simp only [buildList]; rw [isSingleOr_eq hc, hb c1 c2 hc, ih r2 j false hr]

theorem buildNotList_eq {H1 H2 : Heap} (b1 b2 : Cell → List Tok)
    (hb : ∀ c1 c2, (∀ f, den f H1 c1 = den f H2 c2) → b1 c1 = b2 c2) :
    ∀ (l1 l2 : List Cell) (first : Bool), (∀ f, l1.map (den f H1) = l2.map (den f H2)) →
      buildNotList b1 l1 first = buildNotList b2 l2 first := by
  intro l1
  induction l1 with
  | nil => intro l2 fi h; cases l2 with
    | nil => rfl
    | cons _ _ => have := h 0; simp at this
  | cons c1 r1 ih =>
    intro l2 fi h
    cases l2 with
    | nil => have := h 0; simp at this
    | cons c2 r2 =>
      have hc : ∀ f, den f H1 c1 = den f H2 c2 := fun f => (List.cons.inj (h f)).1
      have hr : ∀ f, r1.map (den f H1) = r2.map (den f H2) := fun f => (List.cons.inj (h f)).2
      have hh := hb c1 c2 hc
      rcases cell_shape hc with ⟨n, rfl, rfl⟩ | ⟨a, b, rfl, rfl, _⟩ | ⟨a, b, rfl, rfl, _⟩ | ⟨a, b, rfl, rfl, _⟩ <;>
        (simp only [buildNotList]; rw [hh, ih r2 false hr])

theorem buildCell_eq (H1 H2 : Heap) : ∀ fuel c1 c2, (∀ f, den f H1 c1 = den f H2 c2) →
    buildCell fuel H1 c1 = buildCell fuel H2 c2 := by
  intro fuel
  induction fuel with
  | zero => intros; rfl
  | succ fuel ih =>
    intro c1 c2 h
    rcases cell_shape h with ⟨n, rfl, rfl⟩ | ⟨a, b, rfl, rfl, hl, hab⟩ | ⟨a, b, rfl, rfl, hl, hab⟩ | ⟨a, b, rfl, rfl, hl, hab⟩
    · rfl
    · simp only [buildCell]; rw [hl, buildList_eq _ _ ih _ _ _ _ hab]
    · simp only [buildCell]; rw [hl, buildList_eq _ _ ih _ _ _ _ hab]
    · simp only [buildCell]; rw [hl, buildNotList_eq _ _ ih _ _ _ hab]

theorem buildExprs_eq {H1 H2 : Heap} (fuel : Nat) {l1 l2 : List Cell} (h : ∀ f, l1.map (den f H1) = l2.map (den f H2))
    (join : Tok) (first : Bool) : buildExprs fuel H1 l1 join first = buildExprs fuel H2 l2 join first :=
  buildList_eq _ _ (buildCell_eq H1 H2 fuel) _ _ _ _ h

theorem firstNonOr_eq {H1 H2 : Heap} : ∀ (l1 l2 : List Cell) (i : Nat), (∀ f, l1.map (den f H1) = l2.map (den f H2)) →
    firstNonOr l1 i = firstNonOr l2 i := by
  intro l1
  induction l1 with
  | nil => intro l2 i h; cases l2 with
    | nil => rfl
    | cons _ _ => have := h 0; simp at this
  | cons c1 r1 ih =>
    intro l2 i h
    cases l2 with
    | nil => have := h 0; simp at this
    | cons c2 r2 =>
      have hc : ∀ f, den f H1 c1 = den f H2 c2 := fun f => (List.cons.inj (h f)).1
      have hr : ∀ f, r1.map (den f H1) = r2.map (den f H2) := fun f => (List.cons.inj (h f)).2
      simp only [firstNonOr]; rw [isSingleOr_eq hc, ih r2 (i + 1) hr]

theorem swapped_eq {H1 H2 : Heap} {l1 l2 : List Cell} (h : ∀ f, l1.map (den f H1) = l2.map (den f H2)) (i f : Nat) :
    (swapped l1 i).map (den f H1) = (swapped l2 i).map (den f H2) := by
  have hd : den f H1 default = den f H2 default := den_atom_indep H1 H2 _ f
  have g : ∀ (H : Heap) (l : List Cell) (j : Nat), den f H (l.getD j default) = (l.map (den f H)).getD j (den f H default) := by
    intro H l j; simp [List.getD_eq_getElem?_getD, List.getElem?_map]
  simp only [swapped, List.map_set, g]
  rw [h f, hd]

/-- the tokens of `Where.Build` on a copy, as a function of the (And-unpacked) list -/
def wbToks (fuel : Nat) (H : Heap) (cs : List Cell) : List Tok :=
  (match firstNonOr cs 0 with
   | some (i + 1) => (H, buildExprs fuel H (swapped cs i) .and true)
   | _ => (H, buildExprs fuel H cs .and true) : Heap × List Tok).2

theorem whereBuild_true (fuel : Nat) (H : Heap) (w : Slice) :
    (whereBuild true fuel H w).2 = wbToks fuel H (readS H (andTarget (readS H w) w)) := rfl

theorem wbToks_eq {H1 H2 : Heap} (fuel : Nat) {l1 l2 : List Cell} (h : ∀ f, l1.map (den f H1) = l2.map (den f H2)) :
    wbToks fuel H1 l1 = wbToks fuel H2 l2 := by
  unfold wbToks
  rw [firstNonOr_eq l1 l2 0 h]
  cases firstNonOr l2 0 with
  | none => exact buildExprs_eq fuel h _ _
  | some n =>
    cases n with
    | zero => exact buildExprs_eq fuel h _ _
    | succ i => exact buildExprs_eq fuel (swapped_eq h i) _ _

theorem whereBuild_eq {H1 H2 : Heap} (ok1 : HeapOK H1) (ok2 : HeapOK H2) (fuel : Nat) {w1 w2 : Slice} (e : VEq H1 w1 H2 w2) :
    (whereBuild true fuel H1 w1).2 = (whereBuild true fuel H2 w2).2 := by
  rw [whereBuild_true, whereBuild_true]
  exact wbToks_eq fuel (target_rel e (e.toL ok1 ok2)).eq

theorem whereToks_true_heap (fuel : Nat) (H : Heap) (st : Stmt) : (whereToks true fuel H st).1 = H := by
  unfold whereToks; split
  · exact whereBuild_copies_heap _ _ _
  · rfl

theorem groupToks_true_heap (fuel : Nat) (H : Heap) (st : Stmt) : (groupToks true fuel H st).1 = H := by
  unfold groupToks; split
  · split
    · exact whereBuild_copies_heap _ _ _
    · rfl
  · rfl

theorem whereToks_eq {H1 H2 : Heap} (ok1 : HeapOK H1) (ok2 : HeapOK H2) (fuel : Nat) {s1 s2 : Stmt} (e : StEq H1 s1 H2 s2) :
    (whereToks true fuel H1 s1).2 = (whereToks true fuel H2 s2).2 := by
  have h := e.wher
  unfold whereToks
  cases ha : s1.wher <;> cases hb : s2.wher <;> rw [ha, hb] at h <;> simp only [OEq] at h <;> try rfl
  simp only []; rw [whereBuild_eq ok1 ok2 fuel h]

theorem groupToks_eq {H1 H2 : Heap} (ok1 : HeapOK H1) (ok2 : HeapOK H2) (fuel : Nat) {s1 s2 : Stmt} (e : StEq H1 s1 H2 s2) :
    (groupToks true fuel H1 s1).2 = (groupToks true fuel H2 s2).2 := by
  have h := e.group
  unfold groupToks
  cases ha : s1.group <;> cases hb : s2.group <;> rw [ha, hb] at h <;> simp only [GEq] at h <;> try rfl
  simp only []; rw [h.2.len, atomsOf_rel h.1, whereBuild_eq ok1 ok2 fuel h.2]
  split <;> rfl

theorem headToks_eq {H1 H2 : Heap} {s1 s2 : Stmt} (e : StEq H1 s1 H2 s2) (fin : Nat) :
    headToks H1 s1 fin = headToks H2 s2 fin := by
  unfold headToks
  rw [atomsOf_rel e.selects, atomsOf_rel e.omits, atomsOf_rel e.joins, e.distinct, e.table]

theorem tailToks_eq {H1 H2 : Heap} {s1 s2 : Stmt} (e : StEq H1 s1 H2 s2) (fin : Nat) :
    tailToks H1 s1 fin = tailToks H2 s2 fin := by
  have h := e.order
  have hg : (s1.group = none) = (s2.group = none) := by
    have h := e.group
    cases ha : s1.group <;> cases hb : s2.group <;> rw [ha, hb] at h <;> simp only [GEq] at h <;> simp
  unfold tailToks
  rw [e.limit, e.lock]
  cases ha : s1.order <;> cases hb : s2.order <;> rw [ha, hb] at h <;> simp only [OEq] at h <;> try rfl
  simp only []; rw [h.len, atomsOf_rel h]; simp only [hg]

theorem retToks_eq {H1 H2 : Heap} {s1 s2 : Stmt} (e : StEq H1 s1 H2 s2) : retToks H1 s1 = retToks H2 s2 := by
  have h := e.ret
  unfold retToks
  cases ha : s1.ret <;> cases hb : s2.ret <;> rw [ha, hb] at h <;> simp only [REq] at h <;> try rfl
  rename_i x y
  cases x <;> cases y <;> simp only [OEq] at h <;> try rfl
  simp only []; rw [h.len, atomsOf_rel h]

theorem renderStmt_heap (fuel : Nat) (H : Heap) (st : Stmt) (fin : Nat) :
    (renderStmt cfgSafe.mg true fuel H st fin).1 =
      (firstPrep cfgSafe.mg fin (execScopes cfgSafe.mg H st).1 (execScopes cfgSafe.mg H st).2).1 := by
  unfold renderStmt
  simp only [whereToks_true_heap, groupToks_true_heap]
  split <;> rfl

theorem renderStmt_rel {H1 H2 : Heap} (ok1 : HeapOK H1) (ok2 : HeapOK H2) (fuel fin : Nat) {s1 s2 : Stmt} (e : StEq H1 s1 H2 s2) :
    Tr H1 (renderStmt cfgSafe.mg true fuel H1 s1 fin).1 ∧ Tr H2 (renderStmt cfgSafe.mg true fuel H2 s2 fin).1 ∧
    (renderStmt cfgSafe.mg true fuel H1 s1 fin).2 = (renderStmt cfgSafe.mg true fuel H2 s2 fin).2 := by
  have x := execScopes_rel ok1 ok2 e
  have p := firstPrep_rel x.t1.ok' x.t2.ok' fin x.e
  rw [renderStmt_heap, renderStmt_heap]
  refine ⟨x.t1.trans p.t1, x.t2.trans p.t2, ?_⟩
  unfold renderStmt
  simp only [whereToks_true_heap, groupToks_true_heap]
  have o1 := p.t1.ok'
  have o2 := p.t2.ok'
  have pe := p.e
  generalize firstPrep cfgSafe.mg fin (execScopes cfgSafe.mg H1 s1).1 (execScopes cfgSafe.mg H1 s1).2 = P1 at o1 pe ⊢
  generalize firstPrep cfgSafe.mg fin (execScopes cfgSafe.mg H2 s2).1 (execScopes cfgSafe.mg H2 s2).2 = P2 at o2 pe ⊢
  split
  · simp only []; rw [pe.table, whereToks_eq o1 o2 fuel pe, retToks_eq pe]
  · simp only []; rw [headToks_eq pe, whereToks_eq o1 o2 fuel pe, groupToks_eq o1 o2 fuel pe, tailToks_eq pe]

/-! ## one step of both runs -/

theorem envAfter_safe' (S : State) (op : Op) : envAfter cfgSafe S op = S.env := by
  have key : ∀ a, (if a < S.env.length ∧ (S.handle a).st.scopes.len ≠ 0 then
      S.env.set a (argAfter true (S.handle a)) else S.env) = S.env := by
    intro a
    split
    · rename_i h
      show S.env.set a (S.handle a) = S.env
      have : S.handle a = S.env[a]'h.1 := by
        simp [State.handle, List.getD_eq_getElem?_getD, List.getElem?_eq_getElem h.1]
      rw [this]; exact List.set_getElem_self h.1
    · rfl
  cases op <;> first | rfl | exact key _

theorem HEq.default (H1 H2 : Heap) : HEq H1 ⟨{}, 1⟩ H2 ⟨{}, 1⟩ := ⟨rfl, StEq.default _ _⟩

theorem chainStep_rel (sl : List (List Nat × Nat)) (S1 S2 : State) (op : Op) (ok1 : SOK S1) (ok2 : SOK S2)
    (g1 : Grows (initHeap sl) S1.heap) (g2 : Grows (initHeap sl) S2.heap)
    (q1 : (chainOn cfgSafe sl S1 (getInstance cfgSafe.cl S1.heap (S1.handle op.src)).1
      (getInstance cfgSafe.cl S1.heap (S1.handle op.src)).2.st op).1.writes = S1.heap.writes)
    (q2 : (chainOn cfgSafe sl S2 (getInstance cfgSafe.cl S2.heap (S2.handle op.src)).1
      (getInstance cfgSafe.cl S2.heap (S2.handle op.src)).2.st op).1.writes = S2.heap.writes)
    (hs : HEq S1.heap (S1.handle op.src) S2.heap (S2.handle op.src))
    (ha : ∀ a ∈ op.args, HEq S1.heap (S1.handle a) S2.heap (S2.handle a)) :
    TOut S1.heap (chainOn cfgSafe sl S1 (getInstance cfgSafe.cl S1.heap (S1.handle op.src)).1
      (getInstance cfgSafe.cl S1.heap (S1.handle op.src)).2.st op) S2.heap
      (chainOn cfgSafe sl S2 (getInstance cfgSafe.cl S2.heap (S2.handle op.src)).1
      (getInstance cfgSafe.cl S2.heap (S2.handle op.src)).2.st op) := by
  have gi := getInstance_rel ok1.heap ok2.heap hs
  have c := chainOn_rel sl S1 S2 gi.t1.ok' gi.t2.ok' (Grows.trans g1 gi.t1.g) (Grows.trans g2 gi.t2.g) gi.e op
    (fun a m => (ha a m).mono gi.t1 gi.t2)
    (by rw [q1]; exact (getInstance_writes _ _ _).symm) (by rw [q2]; exact (getInstance_writes _ _ _).symm)
  exact TOut.pre gi.t1 gi.t2 c

theorem step_rel (sl : List (List Nat × Nat)) (fuel : Nat) (S1 S2 : State) (op : Op) (ok1 : SOK S1) (ok2 : SOK S2)
    (g1 : Grows (initHeap sl) S1.heap) (g2 : Grows (initHeap sl) S2.heap)
    (q1 : (step cfgSafe sl fuel S1 op).heap.writes = S1.heap.writes)
    (q2 : (step cfgSafe sl fuel S2 op).heap.writes = S2.heap.writes)
    (hs : HEq S1.heap (S1.handle op.src) S2.heap (S2.handle op.src))
    (ha : ∀ a ∈ op.args, HEq S1.heap (S1.handle a) S2.heap (S2.handle a)) :
    Tr S1.heap (step cfgSafe sl fuel S1 op).heap ∧ Tr S2.heap (step cfgSafe sl fuel S2 op).heap ∧
    (∃ h1 h2, (step cfgSafe sl fuel S1 op).env = S1.env ++ [h1] ∧ (step cfgSafe sl fuel S2 op).env = S2.env ++ [h2] ∧
      HEq (step cfgSafe sl fuel S1 op).heap h1 (step cfgSafe sl fuel S2 op).heap h2) ∧
    (∀ s f, op = .render s f → ∃ t, (step cfgSafe sl fuel S1 op).outs = S1.outs ++ [t] ∧
      (step cfgSafe sl fuel S2 op).outs = S2.outs ++ [t]) := by
  have o1 := ok1.heap
  have o2 := ok2.heap
  cases op
  case skip =>
    exact ⟨Tr.refl o1, Tr.refl o2, ⟨_, _, rfl, rfl, HEq.default _ _⟩, fun s f h => Op.noConfusion h⟩
  case session src =>
    exact ⟨Tr.refl o1, Tr.refl o2, ⟨_, _, rfl, rfl, ⟨rfl, hs.2⟩⟩, fun s f h => Op.noConfusion h⟩
  case newdb src =>
    exact ⟨Tr.refl o1, Tr.refl o2, ⟨_, _, rfl, rfl, ⟨rfl, hs.2⟩⟩, fun s f h => Op.noConfusion h⟩
  case ctx src =>
    have c := cloneStmt_rel o1 o2 hs.2
    exact ⟨c.t1, c.t2, ⟨_, _, rfl, rfl, ⟨rfl, c.e⟩⟩, fun s f h => Op.noConfusion h⟩
  case begin src =>
    have gi := getInstance_rel o1 o2 hs
    have c := cloneStmt_rel gi.t1.ok' gi.t2.ok' gi.e
    have hc : (if (S1.handle src).clone = 1 then 1 else 2) = (if (S2.handle src).clone = 1 then 1 else 2) := by
      have h1 : (S1.handle src).clone = (S2.handle src).clone := hs.1
      rw [h1]
    exact ⟨gi.t1.trans c.t1, gi.t2.trans c.t2, ⟨_, _, rfl, rfl, ⟨hc, c.e⟩⟩, fun s f h => Op.noConfusion h⟩
  case render src fin =>
    have gi := getInstance_rel o1 o2 hs
    have r := renderStmt_rel gi.t1.ok' gi.t2.ok' fuel fin gi.e
    refine ⟨gi.t1.trans r.1, gi.t2.trans r.2.1, ⟨_, _, rfl, rfl, ⟨rfl, gi.e.mono r.1 r.2.1⟩⟩, fun s f _ => ⟨_, rfl, ?_⟩⟩
    exact congrArg (fun t => S2.outs ++ [t]) r.2.2.symm
  all_goals (
    have c := chainStep_rel sl S1 S2 _ ok1 ok2 g1 g2 q1 q2 hs ha
    exact ⟨c.t1, c.t2, ⟨_, _, congrArg (· ++ [_]) (envAfter_safe' S1 _), congrArg (· ++ [_]) (envAfter_safe' S2 _),
      ⟨rfl, c.e⟩⟩, fun s f h => Op.noConfusion h⟩)

/-! ## single-run well-formedness is the diagonal of the relation -/

theorem getD_append_one {α : Type} (l : List α) (h d : α) (i : Nat) :
    (l ++ [h]).getD i d = if i < l.length then l.getD i d else if i = l.length then h else d := by
  by_cases h1 : i < l.length
  · simp [h1, List.getD_eq_getElem?_getD, List.getElem?_append_left h1]
  · rw [if_neg h1]
    by_cases h2 : i = l.length
    · subst h2; simp [List.getD_eq_getElem?_getD]
    · rw [if_neg h2]
      simp only [List.getD_eq_getElem?_getD]
      rw [List.getElem?_eq_none (by simp only [List.length_append, List.length_singleton]; omega)]
      rfl

theorem handle_oob {S : State} {i : Nat} (h : S.env.length ≤ i) : S.handle i = ⟨{}, 1⟩ := by
  simp [State.handle, List.getD_eq_getElem?_getD, List.getElem?_eq_none h]

/-- how the related handles look after both sides pushed one handle -/
theorem rel_push {S1 S1' S2 S2' : State} {h1 h2 : Handle} (t1 : Tr S1.heap S1'.heap) (t2 : Tr S2.heap S2'.heap)
    (e1 : S1'.env = S1.env ++ [h1]) (e2 : S2'.env = S2.env ++ [h2]) (hl : S1.env.length = S2.env.length)
    (i : Nat) (hold : i < S1.env.length → HEq S1.heap (S1.handle i) S2.heap (S2.handle i))
    (hnew : i = S1.env.length → HEq S1'.heap h1 S2'.heap h2) :
    HEq S1'.heap (S1'.handle i) S2'.heap (S2'.handle i) := by
  unfold State.handle at *
  rw [e1, e2, getD_append_one, getD_append_one, ← hl]
  by_cases c1 : i < S1.env.length
  · rw [if_pos c1, if_pos c1]; exact (hold c1).mono t1 t2
  · rw [if_neg c1, if_neg c1]
    by_cases c2 : i = S1.env.length
    · rw [if_pos c2, if_pos c2]; exact hnew c2
    · rw [if_neg c2, if_neg c2]; exact HEq.default _ _

theorem step_ok (sl : List (List Nat × Nat)) (fuel : Nat) (S : State) (op : Op) (ok : SOK S)
    (g : Grows (initHeap sl) S.heap) (q : (step cfgSafe sl fuel S op).heap.writes = S.heap.writes) :
    SOK (step cfgSafe sl fuel S op) ∧ Tr S.heap (step cfgSafe sl fuel S op).heap ∧
      ∃ h, (step cfgSafe sl fuel S op).env = S.env ++ [h] := by
  obtain ⟨t, _, ⟨h1, h2, e1, e2, he⟩, _⟩ := step_rel sl fuel S S op ok ok g g q q (ok.env _) (fun a _ => ok.env a)
  have hh : h1 = h2 := by
    have := e1.symm.trans e2
    simpa using this
  subst hh
  exact ⟨⟨t.ok', fun i => rel_push t t e1 e1 rfl i (fun _ => ok.env i) (fun _ => he)⟩, t, h1, e1⟩

/-! ## the statement of the simulation -/

/-- `R` = a set of handle indices closed under "the op that created the handle, its source and its
    arguments" (as far as they exist when the op runs), on which the two op lists agree -/
structure Agree (ops1 ops2 : List Op) (R : Nat → Bool) : Prop where
  same : ∀ j, R (j + 1) = true → ops1[j]? = ops2[j]?
  closed : ∀ j op, R (j + 1) = true → ops1[j]? = some op →
    (op.src ≤ j → R op.src = true) ∧ ∀ a ∈ op.args, a ≤ j → R a = true


/-! ## the lockstep simulation -/

theorem runFrom_take_succ (sl : List (List Nat × Nat)) (fuel : Nat) (S : State) (ops : List Op) (n : Nat) (op : Op)
    (h : ops[n]? = some op) :
    runFrom cfgSafe sl fuel S (ops.take (n + 1)) = step cfgSafe sl fuel (runFrom cfgSafe sl fuel S (ops.take n)) op := by
  rw [List.take_add_one, h]
  simp [runFrom, List.foldl_append]

theorem SOK_init (sl : List (List Nat × Nat)) : SOK (initState sl) := by
  refine ⟨fun a c hc => ?_, fun i => ?_⟩
  · obtain ⟨n, rfl⟩ := initHeap_atoms sl hc; trivial
  · by_cases h : i = 0
    · subst h; exact HEq.default _ _
    · rw [handle_oob (by simp [initState]; omega)]; exact HEq.default _ _

/-- the lockstep invariant after `n` ops of both runs -/
structure SimInv (sl : List (List Nat × Nat)) (R : Nat → Bool) (n : Nat) (S1 S2 : State) : Prop where
  ok1 : SOK S1
  ok2 : SOK S2
  g1 : Grows (initHeap sl) S1.heap
  g2 : Grows (initHeap sl) S2.heap
  l1 : S1.env.length = n + 1
  l2 : S2.env.length = n + 1
  rel : ∀ i, R i = true → HEq S1.heap (S1.handle i) S2.heap (S2.handle i)

theorem SimInv_init (sl : List (List Nat × Nat)) (R : Nat → Bool) : SimInv sl R 0 (initState sl) (initState sl) :=
  ⟨SOK_init sl, SOK_init sl, Grows.refl _, Grows.refl _, rfl, rfl, fun i _ => (SOK_init sl).env i⟩

theorem SimInv_step (sl : List (List Nat × Nat)) (fuel : Nat) (R : Nat → Bool) (n : Nat) (S1 S2 : State) (op1 op2 : Op)
    (inv : SimInv sl R n S1 S2)
    (q1 : (step cfgSafe sl fuel S1 op1).heap.writes = S1.heap.writes)
    (q2 : (step cfgSafe sl fuel S2 op2).heap.writes = S2.heap.writes)
    (same : R (n + 1) = true → op1 = op2)
    (closed : R (n + 1) = true → (op1.src ≤ n → R op1.src = true) ∧ ∀ a ∈ op1.args, a ≤ n → R a = true) :
    SimInv sl R (n + 1) (step cfgSafe sl fuel S1 op1) (step cfgSafe sl fuel S2 op2) ∧
    (R (n + 1) = true → ∀ s f, op1 = .render s f → ∃ t, (step cfgSafe sl fuel S1 op1).outs = S1.outs ++ [t] ∧
      (step cfgSafe sl fuel S2 op2).outs = S2.outs ++ [t]) := by
  obtain ⟨k1, t1, h1, e1⟩ := step_ok sl fuel S1 op1 inv.ok1 inv.g1 q1
  obtain ⟨k2, t2, h2, e2⟩ := step_ok sl fuel S2 op2 inv.ok2 inv.g2 q2
  have hl : S1.env.length = S2.env.length := by rw [inv.l1, inv.l2]
  have relOf : ∀ j, (j ≤ n → R j = true) → HEq S1.heap (S1.handle j) S2.heap (S2.handle j) := by
    intro j hj
    by_cases c : j ≤ n
    · exact inv.rel j (hj c)
    · rw [handle_oob (by rw [inv.l1]; omega), handle_oob (by rw [inv.l2]; omega)]; exact HEq.default _ _
  by_cases hR : R (n + 1) = true
  · have hop := same hR
    subst hop
    obtain ⟨cs, ca⟩ := closed hR
    obtain ⟨_, _, ⟨a1, a2, f1, f2, he⟩, ho⟩ := step_rel sl fuel S1 S2 op1 inv.ok1 inv.ok2 inv.g1 inv.g2 q1 q2
      (relOf _ cs) (fun a m => relOf a (ca a m))
    have ha1 : a1 = h1 := by have := f1.symm.trans e1; simpa using this
    have ha2 : a2 = h2 := by have := f2.symm.trans e2; simpa using this
    subst ha1; subst ha2
    refine ⟨⟨k1, k2, Grows.trans inv.g1 t1.g, Grows.trans inv.g2 t2.g, by rw [e1]; simp [inv.l1], by rw [e2]; simp [inv.l2],
      fun i hi => rel_push t1 t2 e1 e2 hl i (fun _ => inv.rel i hi) (fun _ => he)⟩, fun _ => ho⟩
  · refine ⟨⟨k1, k2, Grows.trans inv.g1 t1.g, Grows.trans inv.g2 t2.g, by rw [e1]; simp [inv.l1], by rw [e2]; simp [inv.l2],
      fun i hi => rel_push t1 t2 e1 e2 hl i (fun _ => inv.rel i hi) (fun c => ?_)⟩, fun h => absurd h hR⟩
    exfalso; rw [c, inv.l1] at hi; exact hR hi


/-! ## the model's own "replayed alone": `sliceFor` -/

theorem depMask_length : ∀ (pre : List Op) (idx : Nat) (need : List Nat), (depMask pre idx need).length = pre.length := by
  intro pre
  induction pre with
  | nil => intros; rfl
  | cons o b ih => intro idx need; simp only [depMask]; split <;> simp [ih]

/-- a handle that is needed when the walk reaches its creating op gets marked -/
theorem depMask_fires : ∀ (pre : List Op) (idx : Nat) (need : List Nat) (p : Nat), p < pre.length → p ≤ idx →
    (idx - p + 1) ∈ need → (depMask pre idx need)[p]? = some true := by
  intro pre
  induction pre with
  | nil => intro _ _ p h; simp at h
  | cons o b ih =>
    intro idx need p hp hle hm
    cases p with
    | zero =>
      have : idx + 1 ∈ need := by simpa using hm
      simp [depMask, this]
    | succ q =>
      have e : idx - 1 - q + 1 = idx - (q + 1) + 1 := by omega
      simp only [depMask]
      split
      · simp only [List.getElem?_cons_succ]
        exact ih (idx - 1) _ q (by simpa using hp) (by omega) (by rw [e]; simp [hm])
      · simp only [List.getElem?_cons_succ]
        exact ih (idx - 1) _ q (by simpa using hp) (by omega) (by rw [e]; exact hm)

/-- the source and the arguments of a marked op are marked (when they are created below it) -/
theorem depMask_closed : ∀ (pre : List Op) (idx : Nat) (need : List Nat) (p p' : Nat) (op : Op) (h : Nat),
    (depMask pre idx need)[p]? = some true → pre[p]? = some op → (h = op.src ∨ h ∈ op.args) → p < p' → p' < pre.length →
    p' ≤ idx → h = idx - p' + 1 → (depMask pre idx need)[p']? = some true := by
  intro pre
  induction pre with
  | nil => intro _ _ _ p' _ _ _ _ _ _ h; simp at h
  | cons o b ih =>
    intro idx need p p' op h hm hop hh hlt hlen hle heq
    cases p' with
    | zero => omega
    | succ q =>
      have e : idx - 1 - q + 1 = idx - (q + 1) + 1 := by omega
      cases p with
      | zero =>
        simp only [List.getElem?_cons_zero, Option.some.injEq] at hop; subst hop
        by_cases c : idx + 1 ∈ need
        · simp only [depMask, List.contains_eq_mem, c, decide_true, if_true, List.getElem?_cons_succ]
          apply depMask_fires b (idx - 1) _ q (by simpa using hlen) (by omega)
          rw [e, ← heq]
          rcases hh with hh | hh
          · simp [hh]
          · simp [hh]
        · simp [depMask, c] at hm
      | succ p0 =>
        simp only [List.getElem?_cons_succ] at hop
        by_cases c : idx + 1 ∈ need
        · simp only [depMask, List.contains_eq_mem, c, decide_true, if_true, List.getElem?_cons_succ] at hm ⊢
          exact ih (idx - 1) _ p0 q op h hm hop hh (by omega) (by simpa using hlen) (by omega) (by omega)
        · simp only [depMask, List.contains_eq_mem, c, decide_false, Bool.false_eq_true, if_false, List.getElem?_cons_succ] at hm ⊢
          exact ih (idx - 1) _ p0 q op h hm hop hh (by omega) (by simpa using hlen) (by omega) (by omega)

/-- NON-INTERFERENCE (core simulation).  Two histories that agree on a set `R` of handles closed under
    "source and arguments of the op that created the handle", both quiet: a rendering op of `R` produces
    the same tokens in both runs. -/
theorem sim_render (sl : List (List Nat × Nat)) (fuel : Nat) (ops1 ops2 : List Op) (R : Nat → Bool) (ha : Agree ops1 ops2 R)
    (q1 : Quiet sl fuel ops1) (q2 : Quiet sl fuel ops2)
    (k src fin : Nat) (hk : ops1[k]? = some (.render src fin)) (hR : R (k + 1) = true) :
    (runFrom cfgSafe sl fuel (initState sl) (ops1.take (k + 1))).outs.getLast? =
    (runFrom cfgSafe sl fuel (initState sl) (ops2.take (k + 1))).outs.getLast? := by
  have hk2 : ops2[k]? = some (.render src fin) := by rw [← ha.same k hR]; exact hk
  have len1 : k < ops1.length := by
    by_cases h : k < ops1.length
    · exact h
    · rw [List.getElem?_eq_none (Nat.le_of_not_lt h)] at hk; cases hk
  have len2 : k < ops2.length := by
    by_cases h : k < ops2.length
    · exact h
    · rw [List.getElem?_eq_none (Nat.le_of_not_lt h)] at hk2; cases hk2
  -- one lockstep step at position n ≤ k
  have stepAt : ∀ n, n ≤ k → ∀ o1 o2, ops1[n]? = some o1 → ops2[n]? = some o2 →
      SimInv sl R n (runFrom cfgSafe sl fuel (initState sl) (ops1.take n)) (runFrom cfgSafe sl fuel (initState sl) (ops2.take n)) →
      SimInv sl R (n + 1) (runFrom cfgSafe sl fuel (initState sl) (ops1.take (n + 1)))
        (runFrom cfgSafe sl fuel (initState sl) (ops2.take (n + 1))) ∧
      (R (n + 1) = true → ∀ s f, o1 = .render s f → ∃ t,
        (runFrom cfgSafe sl fuel (initState sl) (ops1.take (n + 1))).outs =
          (runFrom cfgSafe sl fuel (initState sl) (ops1.take n)).outs ++ [t] ∧
        (runFrom cfgSafe sl fuel (initState sl) (ops2.take (n + 1))).outs =
          (runFrom cfgSafe sl fuel (initState sl) (ops2.take n)).outs ++ [t]) := by
    intro n _ o1 o2 h1 h2 inv
    rw [runFrom_take_succ sl fuel _ ops1 n o1 h1, runFrom_take_succ sl fuel _ ops2 n o2 h2]
    apply SimInv_step sl fuel R n _ _ o1 o2 inv
    · have a := q1 (n + 1); have b := q1 n
      rw [runFrom_take_succ sl fuel _ ops1 n o1 h1] at a; rw [a, b]
    · have a := q2 (n + 1); have b := q2 n
      rw [runFrom_take_succ sl fuel _ ops2 n o2 h2] at a; rw [a, b]
    · intro hr
      have := ha.same n hr
      rw [h1, h2] at this; exact Option.some.inj this
    · intro hr
      exact ha.closed n o1 hr h1
  have invAt : ∀ n, n ≤ k →
      SimInv sl R n (runFrom cfgSafe sl fuel (initState sl) (ops1.take n)) (runFrom cfgSafe sl fuel (initState sl) (ops2.take n)) := by
    intro n
    induction n with
    | zero => intro _; exact SimInv_init sl R
    | succ n ih =>
      intro hn
      have i1 : n < ops1.length := by omega
      have i2 : n < ops2.length := by omega
      exact (stepAt n (by omega) _ _ (List.getElem?_eq_getElem i1) (List.getElem?_eq_getElem i2) (ih (by omega))).1
  obtain ⟨t, e1, e2⟩ := (stepAt k (Nat.le_refl k) _ _ hk hk2 (invAt k (Nat.le_refl k))).2 hR src fin rfl
  rw [e1, e2]; simp

/-- NON-INTERFERENCE against the model's own "replayed alone": in a quiet history whose dependency slice
    is quiet too, rendering op `k` prints exactly what the same chain prints when replayed alone. -/
theorem sim_slice (sl : List (List Nat × Nat)) (fuel : Nat) (ops : List Op) (k src fin : Nat)
    (hk : ops[k]? = some (.render src fin))
    (q1 : Quiet sl fuel ops) (q2 : Quiet sl fuel (sliceFor ⟨sl, ops⟩ k).ops) :
    (run cfgSafe fuel ⟨sl, ops.take (k + 1)⟩).outs.getLast? = (run cfgSafe fuel (sliceFor ⟨sl, ops⟩ k)).outs.getLast? := by
  have hlen : k < ops.length := by
    by_cases h : k < ops.length
    · exact h
    · rw [List.getElem?_eq_none (Nat.le_of_not_lt h)] at hk; cases hk
  generalize hops1 : ops.take (k + 1) = ops1 at *
  have l1 : ops1.length = k + 1 := by rw [← hops1, List.length_take]; omega
  have hk1 : ops1[k]? = some (.render src fin) := by rw [← hops1, List.getElem?_take]; simp [hk]
  generalize hdm : depMask ops1.reverse k [k + 1] = dm at *
  have ldm : dm.length = k + 1 := by rw [← hdm, depMask_length]; simp [l1]
  have hops2 : (sliceFor ⟨sl, ops⟩ k).ops = List.zipWith (fun op b => if b then op else Op.skip) ops1 dm.reverse := by
    simp only [sliceFor, hops1, hdm]
  rw [hops2] at q2
  have mi : ∀ j, j ≤ k → dm.reverse[j]? = dm[k - j]? := by
    intro j hj
    rw [List.getElem?_reverse (by omega), ldm]
    congr 1
  have pi : ∀ p, p ≤ k → ops1.reverse[p]? = ops1[k - p]? := by
    intro p hp
    rw [List.getElem?_reverse (by omega), l1]
    congr 1
  have top : dm[0]? = some true := by
    rw [← hdm]; exact depMask_fires _ k _ 0 (by simp [l1]) (Nat.zero_le _) (by simp)
  let R : Nat → Bool := fun i => i == 0 || dm.reverse.getD (i - 1) false
  have Rsucc : ∀ j, R (j + 1) = true → j ≤ k ∧ dm.reverse[j]? = some true := by
    intro j hr
    have hr' : dm.reverse.getD j false = true := by simpa [R] using hr
    rw [List.getD_eq_getElem?_getD] at hr'
    by_cases hj : j ≤ k
    · refine ⟨hj, ?_⟩
      have : j < dm.reverse.length := by simp [ldm]; omega
      rw [List.getElem?_eq_getElem this] at hr' ⊢
      simpa using hr'
    · rw [List.getElem?_eq_none (by simp [ldm]; omega)] at hr'; simp at hr'
  have agree : Agree ops1 (List.zipWith (fun op b => if b then op else Op.skip) ops1 dm.reverse) R := by
    refine ⟨fun j hr => ?_, fun j op hr hop => ?_⟩
    · obtain ⟨hj, hm⟩ := Rsucc j hr
      have : j < ops1.length := by omega
      simp [List.getElem?_zipWith, hm, List.getElem?_eq_getElem this]
    · obtain ⟨hj, hm⟩ := Rsucc j hr
      have key : ∀ h, (h = op.src ∨ h ∈ op.args) → h ≤ j → R h = true := by
        intro h hh hle
        by_cases h0 : h = 0
        · simp [R, h0]
        · have hm' : dm[k - j]? = some true := by rw [← mi j hj]; exact hm
          have hp : ops1.reverse[k - j]? = some op := by
            rw [pi (k - j) (by omega)]
            have : k - (k - j) = j := by omega
            rw [this]; exact hop
          have := depMask_closed ops1.reverse k [k + 1] (k - j) (k - (h - 1)) op h (by rw [hdm]; exact hm') hp hh
            (by omega) (by simp [l1]; omega) (by omega) (by omega)
          rw [hdm, ← mi (h - 1) (by omega)] at this
          have hlt : h - 1 < dm.reverse.length := by simp [ldm]; omega
          rw [List.getElem?_eq_getElem hlt] at this
          have hv : dm.reverse[h - 1] = true := by simpa using this
          simp [R, List.getD_eq_getElem?_getD, List.getElem?_eq_getElem hlt, hv]
      exact ⟨fun h => key _ (Or.inl rfl) h, fun a ha h => key a (Or.inr ha) h⟩
  have hR : R (k + 1) = true := by
    have h0 : dm.reverse[k]? = some true := by rw [mi k (Nat.le_refl k)]; simpa using top
    have hlt : k < dm.reverse.length := by simp [ldm]
    rw [List.getElem?_eq_getElem hlt] at h0
    have hv : dm.reverse[k] = true := by simpa using h0
    simp [R, List.getD_eq_getElem?_getD, List.getElem?_eq_getElem hlt, hv]
  have q1' : Quiet sl fuel ops1 := by
    intro n
    rw [← hops1, List.take_take]
    exact q1 _
  have main := sim_render sl fuel ops1 _ R agree q1' q2 k src fin hk1 hR
  have t1 : ops1.take (k + 1) = ops1 := List.take_of_length_le (by omega)
  have t2 : (List.zipWith (fun op b => if b then op else Op.skip) ops1 dm.reverse).take (k + 1) =
      List.zipWith (fun op b => if b then op else Op.skip) ops1 dm.reverse :=
    List.take_of_length_le (by simp [l1, ldm])
  rw [t1, t2] at main
  show (runFrom cfgSafe sl fuel (initState sl) ops1).outs.getLast? =
    (runFrom cfgSafe sl fuel (initState sl) (sliceFor ⟨sl, ops⟩ k).ops).outs.getLast?
  rw [hops2]; exact main

end Gorm.Heap
