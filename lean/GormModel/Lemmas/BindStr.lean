/-
  C01 — facts about the `strconv.Atoi` transcription of Model/BindStr.lean (`atoi`, `isKeyString`):
  the digit loop computes the decimal value, digit strings are ASCII (byte length = length), every signed decimal
  string of at most 18 digits is accepted on both Atoi paths, and the exact characterisation of the accepted strings
  (`atoi_isSome_iff`: optional sign, non-empty all-digit rest, value in the int64 range).
  Core Lean only.
-/
import GormModel.Model.BindStr
namespace Gorm.Bind

/-- value of a digit string, most significant first -/
def natVal (ds : List Char) : Nat := ds.foldl (fun a c => a * 10 + digitVal c) 0

/-! ### characters -/

theorem isDigit_iff (c : Char) : isDigit c = true ↔ 48 ≤ c.toNat ∧ c.toNat ≤ 57 := by
  have h0 : '0'.toNat = 48 := rfl
  have h9 : '9'.toNat = 57 := rfl
  simp [isDigit, h0, h9]

theorem digitVal_le_of_isDigit {c : Char} (h : isDigit c = true) : digitVal c ≤ 9 := by
  have h0 : '0'.toNat = 48 := rfl
  have := (isDigit_iff c).1 h
  unfold digitVal
  omega

theorem utf8Size_of_toNat_le {c : Char} (h : c.toNat ≤ 127) : c.utf8Size = 1 := by
  rw [Char.utf8Size_eq_one_iff, UInt32.le_iff_toNat_le]
  exact h

theorem utf8Size_of_isDigit {c : Char} (h : isDigit c = true) : c.utf8Size = 1 := by
  have := (isDigit_iff c).1 h
  exact utf8Size_of_toNat_le (by omega)

theorem ne_minus_of_isDigit {c : Char} (h : isDigit c = true) : c ≠ '-' := by
  intro e; subst e; revert h; decide

theorem ne_plus_of_isDigit {c : Char} (h : isDigit c = true) : c ≠ '+' := by
  intro e; subst e; revert h; decide

/-! ### the digit loop -/

theorem foldl_val (ds : List Char) (a : Nat) :
    ds.foldl (fun a c => a * 10 + digitVal c) a = a * 10 ^ ds.length + natVal ds := by
  induction ds generalizing a with
  | nil => simp [natVal]
  | cons c cs ih =>
    simp only [natVal, List.foldl_cons, List.length_cons]
    rw [ih (a * 10 + digitVal c), ih (0 * 10 + digitVal c)]
    rw [Nat.pow_succ, Nat.add_mul, Nat.zero_mul, Nat.zero_add, Nat.mul_assoc, Nat.mul_comm 10 (10 ^ cs.length),
      Nat.add_assoc]

theorem natVal_cons (c : Char) (cs : List Char) : natVal (c :: cs) = digitVal c * 10 ^ cs.length + natVal cs := by
  show (c :: cs).foldl (fun a c => a * 10 + digitVal c) 0 = _
  rw [List.foldl_cons, foldl_val]
  simp

theorem digitsVal_isSome_iff (ds : List Char) (acc : Nat) :
    (digitsVal ds acc).isSome = true ↔ ds.all isDigit = true := by
  induction ds generalizing acc with
  | nil => simp [digitsVal]
  | cons c cs ih =>
    by_cases hc : isDigit c = true
    · simp [digitsVal, hc, ih]
    · simp [digitsVal, hc]

theorem digitsVal_of_all (ds : List Char) (acc : Nat) (h : ds.all isDigit = true) :
    digitsVal ds acc = some (acc * 10 ^ ds.length + natVal ds) := by
  induction ds generalizing acc with
  | nil => simp [digitsVal, natVal]
  | cons c cs ih =>
    simp only [List.all_cons, Bool.and_eq_true] at h
    simp only [digitsVal, h.1, if_true]
    rw [ih _ h.2, natVal_cons, List.length_cons, Nat.pow_succ, Nat.add_mul, Nat.mul_assoc,
      Nat.mul_comm 10 (10 ^ cs.length), Nat.add_assoc]

theorem digitsVal_none_of_not_all (ds : List Char) (acc : Nat) (h : ¬ ds.all isDigit = true) :
    digitsVal ds acc = none := by
  have := fun hh => h ((digitsVal_isSome_iff ds acc).1 hh)
  cases hd : digitsVal ds acc with
  | none => rfl
  | some n => simp [hd] at this

theorem natVal_lt (ds : List Char) (h : ds.all isDigit = true) : natVal ds < 10 ^ ds.length := by
  induction ds with
  | nil => simp [natVal]
  | cons c cs ih =>
    simp only [List.all_cons, Bool.and_eq_true] at h
    have h1 := digitVal_le_of_isDigit h.1
    have h2 := ih h.2
    have h3 : digitVal c * 10 ^ cs.length ≤ 9 * 10 ^ cs.length := Nat.mul_le_mul_right _ h1
    rw [natVal_cons, List.length_cons, Nat.pow_succ]
    omega

theorem byteLen_nil : byteLen [] = 0 := rfl
theorem byteLen_cons (c : Char) (cs : List Char) : byteLen (c :: cs) = c.utf8Size + byteLen cs := by
  simp [byteLen]

theorem byteLen_of_digits (ds : List Char) (h : ds.all isDigit = true) : byteLen ds = ds.length := by
  induction ds with
  | nil => rfl
  | cons c cs ih =>
    simp only [List.all_cons, Bool.and_eq_true] at h
    rw [byteLen_cons, utf8Size_of_isDigit h.1, ih h.2, List.length_cons]
    omega

theorem length_le_byteLen (s : List Char) : s.length ≤ byteLen s := by
  induction s with
  | nil => simp [byteLen]
  | cons c cs ih =>
    have := Char.utf8Size_pos c
    rw [byteLen_cons, List.length_cons]
    omega

/-! ### the sign -/

theorem stripSign_cases (s : List Char) :
    (stripSign s = (false, s)) ∨ (∃ r, s = '-' :: r ∧ stripSign s = (true, r)) ∨
      (∃ r, s = '+' :: r ∧ stripSign s = (false, r)) := by
  unfold stripSign
  split
  · exact Or.inr (Or.inl ⟨_, rfl, rfl⟩)
  · exact Or.inr (Or.inr ⟨_, rfl, rfl⟩)
  · exact Or.inl rfl

theorem stripSign_of_digit (c : Char) (cs : List Char) (h : isDigit c = true) :
    stripSign (c :: cs) = (false, c :: cs) := by
  have h1 := ne_minus_of_isDigit h
  have h2 := ne_plus_of_isDigit h
  unfold stripSign
  split
  · rename_i heq; injection heq with e _; exact absurd e h1
  · rename_i heq; injection heq with e _; exact absurd e h2
  · rfl

/-- what `stripSign` leaves is a suffix at most one (ASCII) byte shorter -/
theorem byteLen_stripSign (s : List Char) {neg : Bool} {ds : List Char} (hs : stripSign s = (neg, ds)) :
    byteLen ds ≤ byteLen s ∧ byteLen s ≤ byteLen ds + 1 := by
  rcases stripSign_cases s with h | ⟨r, e, h⟩ | ⟨r, e, h⟩
  · rw [h] at hs; injection hs with _ e; subst e; omega
  · rw [h] at hs; injection hs with _ e'; subst e'; subst e
    have : '-'.utf8Size = 1 := rfl
    rw [byteLen_cons]; omega
  · rw [h] at hs; injection hs with _ e'; subst e'; subst e
    have : '+'.utf8Size = 1 := rfl
    rw [byteLen_cons]; omega

theorem ne_nil_of_stripSign (s : List Char) {neg : Bool} {ds : List Char} (hs : stripSign s = (neg, ds))
    (hne : ds ≠ []) : s ≠ [] := by
  intro e; subst e
  have : stripSign [] = (false, []) := rfl
  rw [this] at hs; injection hs with _ e; exact hne e.symm

/-! ### Atoi -/

/-- the int64 bound of ParseInt for the given sign -/
def bound (neg : Bool) : Nat := if neg then 2 ^ 63 else 2 ^ 63 - 1

def signed (neg : Bool) (n : Nat) : Int := if neg then -(n : Int) else (n : Int)

theorem atoi_none_of_rest_nil (s : List Char) (h : (stripSign s).2 = []) : atoi s = none := by
  unfold atoi
  cases hs : stripSign s with
  | mk neg ds =>
    rw [hs] at h; simp only at h; subst h
    simp

theorem atoi_none_of_not_all (s : List Char) (h : ¬ (stripSign s).2.all isDigit = true) : atoi s = none := by
  unfold atoi
  cases hs : stripSign s with
  | mk neg ds =>
    rw [hs] at h; simp only at h
    simp [digitsVal_none_of_not_all ds 0 h]

/-- Atoi on a string whose unsigned rest is a non-empty digit string: only the int64 range test remains (the fast
    path never fails it: at most 18 digits) -/
theorem atoi_of_digits (s : List Char) {neg : Bool} {ds : List Char} (hs : stripSign s = (neg, ds))
    (hne : ds ≠ []) (hd : ds.all isDigit = true) :
    atoi s = if natVal ds ≤ bound neg then some (signed neg (natVal ds)) else none := by
  have hsne := ne_nil_of_stripSign s hs hne
  have hb := byteLen_stripSign s hs
  have hbl := byteLen_of_digits ds hd
  have hlt := natVal_lt ds hd
  have hv := digitsVal_of_all ds 0 hd
  simp only [Nat.zero_mul, Nat.zero_add] at hv
  have hpos : 0 < byteLen s := by
    have : 0 < ds.length := List.length_pos_iff.2 hne
    omega
  unfold atoi
  simp only [hs, hv, hpos, true_and]
  have he : ds.isEmpty = false := by cases ds with | nil => exact absurd rfl hne | cons _ _ => rfl
  have hse : s.isEmpty = false := by cases s with | nil => exact absurd rfl hsne | cons _ _ => rfl
  by_cases hfast : byteLen s < 19
  · have hlen : ds.length ≤ 18 := by omega
    have hp : 10 ^ ds.length ≤ 10 ^ 18 := Nat.pow_le_pow_right (by omega) hlen
    have hle : natVal ds ≤ bound neg := by
      have : (10 : Nat) ^ 18 ≤ 2 ^ 63 - 1 := by decide
      unfold bound
      split <;> omega
    simp [hfast, he, hle, signed]
  · simp only [hfast, hse, he, if_false, Bool.false_eq_true]
    cases neg with
    | false =>
      simp only [bound, signed, Bool.false_eq_true, if_false]
      by_cases h1 : natVal ds ≥ 2 ^ 64
      · have : ¬ natVal ds ≤ 2 ^ 63 - 1 := by omega
        simp [h1, this]
      · by_cases h2 : natVal ds ≥ 2 ^ 63
        · have : ¬ natVal ds ≤ 2 ^ 63 - 1 := by omega
          simp [h1, h2, this]
        · have : natVal ds ≤ 2 ^ 63 - 1 := by omega
          simp [h1, h2, this]
    | true =>
      simp only [bound, signed, if_true]
      by_cases h1 : natVal ds ≥ 2 ^ 64
      · have : ¬ natVal ds ≤ 2 ^ 63 := by omega
        simp [h1, this]
      · by_cases h2 : natVal ds > 2 ^ 63
        · have : ¬ natVal ds ≤ 2 ^ 63 := by omega
          simp [h1, h2, this]
        · have : natVal ds ≤ 2 ^ 63 := by omega
          simp [h1, h2, this]

/-- every signed decimal string of at most 18 digits is a key string (both Atoi paths) -/
theorem atoi_signed_short (sign ds : List Char) (hs : sign = [] ∨ sign = ['+'] ∨ sign = ['-'])
    (hne : ds ≠ []) (hd : ds.all isDigit = true) (hlen : ds.length ≤ 18) :
    atoi (sign ++ ds) = some (if sign = ['-'] then -(natVal ds : Int) else (natVal ds : Int)) := by
  have hlt := natVal_lt ds hd
  have hp : 10 ^ ds.length ≤ 10 ^ 18 := Nat.pow_le_pow_right (by omega) hlen
  have h18 : (10 : Nat) ^ 18 ≤ 2 ^ 63 - 1 := by decide
  rcases hs with e | e | e
  · subst e
    cases ds with
    | nil => exact absurd rfl hne
    | cons c cs =>
      have hc : isDigit c = true := by
        simp only [List.all_cons, Bool.and_eq_true] at hd; exact hd.1
      have hss : stripSign ([] ++ c :: cs) = (false, c :: cs) := stripSign_of_digit c cs hc
      rw [atoi_of_digits _ hss hne hd]
      have : natVal (c :: cs) ≤ bound false := by unfold bound; simp only [Bool.false_eq_true, if_false]; omega
      simp [this, signed]
  · subst e
    have hss : stripSign (['+'] ++ ds) = (false, ds) := rfl
    rw [atoi_of_digits _ hss hne hd]
    have : natVal ds ≤ bound false := by unfold bound; simp only [Bool.false_eq_true, if_false]; omega
    simp [this, signed]
  · subst e
    have hss : stripSign (['-'] ++ ds) = (true, ds) := rfl
    rw [atoi_of_digits _ hss hne hd]
    have : natVal ds ≤ bound true := by unfold bound; simp only [if_true]; omega
    simp [this, signed]

/-- exact characterisation of the strings Atoi accepts -/
def SignedDecimal (s : List Char) : Prop :=
  ∃ neg ds, stripSign s = (neg, ds) ∧ ds ≠ [] ∧ ds.all isDigit = true ∧
    natVal ds ≤ (if neg then 2 ^ 63 else 2 ^ 63 - 1)

theorem atoi_isSome_iff (s : List Char) : (atoi s).isSome = true ↔ SignedDecimal s := by
  constructor
  · intro h
    cases hs : stripSign s with
    | mk neg ds =>
      by_cases hne : ds = []
      · have : atoi s = none := atoi_none_of_rest_nil s (by rw [hs]; exact hne)
        rw [this] at h; simp at h
      · by_cases hd : ds.all isDigit = true
        · refine ⟨neg, ds, hs, hne, hd, ?_⟩
          rw [atoi_of_digits s hs hne hd] at h
          by_cases hb : natVal ds ≤ bound neg
          · exact hb
          · simp [hb] at h
        · have : atoi s = none := atoi_none_of_not_all s (by rw [hs]; exact hd)
          rw [this] at h; simp at h
  · rintro ⟨neg, ds, hs, hne, hd, hb⟩
    rw [atoi_of_digits s hs hne hd]
    have : natVal ds ≤ bound neg := hb
    simp [this]

/-- the value Atoi returns on an accepted string -/
theorem atoi_eq_of_signedDecimal (s : List Char) {neg : Bool} {ds : List Char} (hs : stripSign s = (neg, ds))
    (hne : ds ≠ []) (hd : ds.all isDigit = true) (hb : natVal ds ≤ (if neg then 2 ^ 63 else 2 ^ 63 - 1)) :
    atoi s = some (if neg then -(natVal ds : Int) else (natVal ds : Int)) := by
  rw [atoi_of_digits s hs hne hd]
  have : natVal ds ≤ bound neg := hb
  simp [this, signed]

theorem isKeyString_iff (s : List Char) : isKeyString s = true ↔ SignedDecimal s := atoi_isSome_iff s

theorem atoi_none_of_nondigit (s : List Char) (c : Char) (hc : c ∈ (stripSign s).2) (hnd : isDigit c = false) :
    atoi s = none := by
  apply atoi_none_of_not_all
  intro h
  rw [List.all_eq_true] at h
  have := h c hc
  rw [hnd] at this
  exact Bool.noConfusion this

/-- an unsigned string (first char a digit or anything but a sign) is a key string iff it is a non-empty digit string
    whose value fits int64 -/
theorem isKeyString_unsigned_iff (s : List Char) (hs : stripSign s = (false, s)) :
    isKeyString s = true ↔ s ≠ [] ∧ s.all isDigit = true ∧ natVal s ≤ 2 ^ 63 - 1 := by
  rw [isKeyString_iff]
  constructor
  · rintro ⟨neg, ds, h, hne, hd, hb⟩
    rw [hs] at h; injection h with e1 e2; subst e1; subst e2
    exact ⟨hne, hd, hb⟩
  · rintro ⟨hne, hd, hb⟩
    exact ⟨false, s, hs, hne, hd, hb⟩

/-! ### non-vacuity -/

example : SignedDecimal "-5".toList := ⟨true, ['5'], rfl, by decide, by decide, by decide⟩
example : atoi "+7".toList = some 7 := by decide
example : atoi "00501".toList = some 501 := by decide
example : atoi " 5".toList = none := by decide
example : atoi "9223372036854775808".toList = none := by decide
example : atoi "-9223372036854775808".toList = some (-9223372036854775808) := by decide
example : atoi "9223372036854775807".toList = some 9223372036854775807 := by decide
example : atoi "-".toList = none := by decide
example : atoi "".toList = none := by decide
example : atoi "+-5".toList = none := by decide
example : atoi "-000000000000000000000012".toList = some (-12) := by decide

end Gorm.Bind
