/-
  C16 (round 3) — helper lemmas about Model.UpsertKeys (composite-key tables, key-preserving updates).
-/
import GormModel.Model.UpsertKeys
namespace Gorm.UpsertK

theorem pkCond_of_nonzero : ∀ (vk rk : List Nat), hasZero vk = false → pkCond vk rk = (vk == rk)
  | [], [] => by simp [pkCond]
  | [], _ :: _ => by simp [pkCond]
  | _ :: _, [] => by simp [pkCond]
  | a :: as, b :: bs => by
    intro h
    have ha : a ≠ 0 := by
      intro h0; simp [hasZero, h0] at h
    have hr : hasZero as = false := by
      simp only [hasZero, List.any_cons, Bool.or_eq_false_iff] at h ⊢; exact h.2
    simp only [pkCond, pkCond_of_nonzero as bs hr, List.cons_beq_cons]
    have : (a == 0) = false := by simpa using ha
    simp [this]

theorem get_key {t : Tbl} {k : List Nat} {r : KRow} (h : t.get k = some r) : r.key = k := by
  unfold Tbl.get at h
  have := List.find?_some h
  simpa using this

theorem get_mem {t : Tbl} {k : List Nat} {r : KRow} (h : t.get k = some r) : r ∈ t := by
  unfold Tbl.get at h
  exact List.mem_of_find?_eq_some h

/-- a key-preserving rewrite of rows commutes with lookup -/
theorem get_map (f : KRow → KRow) (hf : ∀ r, (f r).key = r.key) (k : List Nat) :
    ∀ t : Tbl, Tbl.get (t.map f) k = (Tbl.get t k).map f
  | [] => rfl
  | r :: rest => by
    have ih := get_map f hf k rest
    unfold Tbl.get at ih ⊢
    simp only [List.map_cons, List.find?_cons, hf]
    cases h : r.key == k <;> simp [ih]

theorem has_eq_get (t : Tbl) (k : List Nat) : t.has k = (t.get k).isSome := by
  unfold Tbl.has Tbl.get
  induction t with
  | nil => rfl
  | cons r rest ih =>
    simp only [List.any_cons, List.find?_cons]
    cases h : r.key == k <;> simp [ih]

theorem get_append_of_ne (t : Tbl) (v : KRow) (k : List Nat) (h : k ≠ v.key) : Tbl.get (t ++ [v]) k = Tbl.get t k := by
  unfold Tbl.get
  induction t with
  | nil =>
    have : (v.key == k) = false := by
      simp only [beq_eq_false_iff_ne, ne_eq]; exact fun e => h e.symm
    simp [this]
  | cons r rest ih =>
    simp only [List.cons_append, List.find?_cons]
    cases hr : r.key == k <;> simp [ih]

theorem get_append_new (t : Tbl) (v : KRow) (h : t.has v.key = false) : Tbl.get (t ++ [v]) v.key = some v := by
  unfold Tbl.get
  induction t with
  | nil => simp
  | cons r rest ih =>
    simp only [Tbl.has, List.any_cons, Bool.or_eq_false_iff] at h
    simp only [List.cons_append, List.find?_cons, h.1]
    exact ih (by simpa [Tbl.has] using h.2)

/-- in a table with distinct keys the row found under a key is the only row with that key -/
theorem wf_unique : ∀ {t : Tbl}, Tbl.wf t → ∀ {r0 r1 : KRow}, Tbl.get t r1.key = some r0 → r1 ∈ t → r1 = r0
  | [], _, _, _, h, _ => by simp [Tbl.get] at h
  | r :: rest, hw, r0, r1, hg, hm => by
    obtain ⟨hn, hw'⟩ := hw
    unfold Tbl.get at hg
    simp only [List.find?_cons] at hg
    cases hk : r.key == r1.key
    · rw [hk] at hg
      rcases List.mem_cons.mp hm with e | e
      · subst e; simp at hk
      · exact wf_unique hw' (by unfold Tbl.get; exact hg) e
    · rw [hk] at hg
      have e0 : r = r0 := by simpa using hg
      rcases List.mem_cons.mp hm with e | e
      · rw [e, e0]
      · -- r1 ∈ rest with the key of r: contradicts wf
        have hk' : r.key = r1.key := by simpa using hk
        have : Tbl.has rest r.key = true := by
          unfold Tbl.has
          exact List.any_eq_true.mpr ⟨r1, e, by simp [hk']⟩
        rw [this] at hn; cases hn

theorem setAt_length (l : List Nat) (i v : Nat) : (setAt l i v).length = l.length := by
  induction l generalizing i with
  | nil => rfl
  | cons x xs ih => cases i <;> simp [setAt, ih]

/-- assignments to payload columns leave the key alone -/
theorem setAll_key : ∀ (as : List (Nat × Nat)) (r : KRow), (∀ a ∈ as, r.key.length ≤ a.1) → (r.setAll as).key = r.key
  | [], _, _ => rfl
  | a :: rest, r, h => by
    have ha : r.key.length ≤ a.1 := h a (List.mem_cons_self ..)
    have h1 : (r.setCol a.1 a.2).key = r.key := by
      unfold KRow.setCol
      simp [Nat.not_lt.mpr ha]
    show ((r.setCol a.1 a.2).setAll rest).key = r.key
    rw [setAll_key rest (r.setCol a.1 a.2) (by
      intro b hb; rw [h1]; exact h b (List.mem_cons_of_mem _ hb)), h1]

end Gorm.UpsertK
