/-
  Lemmas for the read-path shaping model (Model/ReadPaths.lean): the sort is a permutation that puts a
  least element first (for a total, transitive comparison), `ordLe` is such a comparison, and the
  Limit(1)/Order(pk) shaping of First/Last/Take.
-/
import GormModel.Model.ReadPaths
import GormModel.Lemmas.Batches
namespace Gorm

/-! ### insertion sort -/

theorem insertBy_length (le : Nat → Nat → Bool) (x : Nat) (l : List Nat) :
    (insertBy le x l).length = l.length + 1 := by
  induction l with
  | nil => rfl
  | cons y l ih => simp only [insertBy]; split <;> simp [ih]

theorem isort_length (le : Nat → Nat → Bool) (l : List Nat) : (isort le l).length = l.length := by
  induction l with
  | nil => rfl
  | cons x l ih => simp [isort, insertBy_length, ih]

theorem mem_insertBy (le : Nat → Nat → Bool) (x a : Nat) (l : List Nat) :
    a ∈ insertBy le x l ↔ a = x ∨ a ∈ l := by
  induction l with
  | nil => simp [insertBy]
  | cons y l ih =>
    simp only [insertBy]; split
    · simp
    · simp [ih]; constructor
      · rintro (h | h | h) <;> simp [h]
      · rintro (h | h | h) <;> simp [h]

theorem mem_isort (le : Nat → Nat → Bool) (a : Nat) (l : List Nat) : a ∈ isort le l ↔ a ∈ l := by
  induction l with
  | nil => simp [isort]
  | cons x l ih => simp [isort, mem_insertBy, ih]

/-- for a total and transitive comparison the head of the sorted list is a least element -/
theorem isort_head_le (le : Nat → Nat → Bool)
    (total : ∀ a b, le a b = true ∨ le b a = true)
    (trans : ∀ a b c, le a b = true → le b c = true → le a c = true)
    (l : List Nat) (r : Nat) (hr : (isort le l).head? = some r) : ∀ k ∈ l, le r k = true := by
  induction l generalizing r with
  | nil => intro k hk; simp at hk
  | cons x l ih =>
    simp only [isort] at hr
    cases hS : isort le l with
    | nil =>
      have hl : l = [] := by
        have := isort_length le l; rw [hS] at this; exact List.eq_nil_of_length_eq_zero this.symm
      subst hl
      simp [isort, insertBy] at hr; subst hr
      intro k hk; simp at hk; subst hk
      rcases total k k with h | h <;> exact h
    | cons h S =>
      rw [hS] at hr
      have ihh := ih h (by rw [hS]; rfl)
      simp only [insertBy] at hr
      by_cases hxh : le x h = true
      · simp [hxh] at hr; subst hr
        intro k hk
        rcases List.mem_cons.mp hk with rfl | hk
        · rcases total k k with h' | h' <;> exact h'
        · exact trans _ _ _ hxh (ihh k hk)
      · simp [hxh] at hr; subst hr
        intro k hk
        rcases List.mem_cons.mp hk with rfl | hk
        · rcases total k h with h' | h'
          · exact absurd h' hxh
          · exact h'
        · exact ihh k hk

/-- sorting a strictly increasing list by the key, descending, reverses it -/
theorem insertBy_last (le : Nat → Nat → Bool) (x : Nat) (l : List Nat) (h : ∀ y ∈ l, le x y = false) :
    insertBy le x l = l ++ [x] := by
  induction l with
  | nil => rfl
  | cons y l ih =>
    simp only [insertBy, h y (by simp)]
    simp [ih (fun z hz => h z (by simp [hz]))]

theorem isort_pkDesc (l : List Nat) (hs : l.Pairwise (· < ·)) : isort (ordLe [pkDesc]) l = l.reverse := by
  induction l with
  | nil => rfl
  | cons x l ih =>
    rw [List.pairwise_cons] at hs
    simp only [isort, ih hs.2, List.reverse_cons]
    apply insertBy_last
    intro y hy
    have := hs.1 y (by simpa using hy)
    simp [ordLe, pkDesc]
    omega

theorem isort_pkAsc (l : List Nat) (hs : l.Pairwise (· < ·)) : isort (ordLe [pkAsc]) l = l :=
  isort_sorted _ _ (by simpa [KeyMonotone] using keyMonotone_nil l hs)

/-! ### `ordLe` is a total preorder -/

theorem ordLe_total (cs : List OrdCol) (a b : Nat) : ordLe cs a b = true ∨ ordLe cs b a = true := by
  induction cs with
  | nil => simp [ordLe]
  | cons c cs ih =>
    simp only [ordLe]
    by_cases h : c.key a = c.key b
    · simp [h, ih]
    · have h' : ¬ c.key b = c.key a := fun e => h e.symm
      simp only [h, h', if_false]
      cases c.desc <;> simp <;> omega

theorem ordLe_trans (cs : List OrdCol) (a b c : Nat) :
    ordLe cs a b = true → ordLe cs b c = true → ordLe cs a c = true := by
  induction cs with
  | nil => simp [ordLe]
  | cons col cs ih =>
    simp only [ordLe]
    generalize col.key a = ka
    generalize col.key b = kb
    generalize col.key c = kc
    intro hab hbc
    by_cases h1 : ka = kb
    · subst h1
      by_cases h2 : ka = kc
      · subst h2
        simp only [if_true] at hab hbc ⊢
        exact ih hab hbc
      · simp only [h2, if_false] at hbc ⊢
        exact hbc
    · by_cases h2 : kb = kc
      · subst h2
        simp only [h1, if_false] at hab ⊢
        exact hab
      · simp only [h1, if_false] at hab
        simp only [h2, if_false] at hbc
        cases hd : col.desc <;> simp [hd] at hab hbc
        · have h3 : ¬ ka = kc := by omega
          simp [h3]; omega
        · have h3 : ¬ ka = kc := by omega
          simp [h3]; omega

/-! ### Limit(1) on top of the chain's LIMIT clause -/

theorem effLimit_limit1 (lim : Option Limit) :
    effLimitOf (some ((LimCall.limit 1).toLimit.merge lim)) = some 1 := by
  cases lim with
  | none => simp [Limit.merge, LimCall.toLimit, effLimitOf, Limit.effLimit]
  | some v => simp [Limit.merge, LimCall.toLimit, effLimitOf, Limit.effLimit]

theorem effOffset_limit1 (lim : Option Limit) :
    effOffsetOf (some ((LimCall.limit 1).toLimit.merge lim)) = effOffsetOf lim := by
  cases lim with
  | none => simp [Limit.merge, LimCall.toLimit, effOffsetOf, Limit.effOffset]
  | some v =>
    simp only [Limit.merge, LimCall.toLimit, effOffsetOf, Limit.effOffset, Option.bind]
    by_cases h : 0 < v.offset <;> simp [h]

/-- number of rows the user's OFFSET skips -/
def offNat (lim : Option Limit) : Nat :=
  match effOffsetOf lim with
  | some o => o.toNat
  | none => 0

theorem window_one (r : List Nat) (lim : Option Limit) :
    window r (some 1) (effOffsetOf lim) = (r.drop (offNat lim)).take 1 := by
  unfold window offNat
  cases effOffsetOf lim <;> simp

theorem run_limit1 (tbl : List Nat) (c : Chain) (extra : List OrdCol) :
    ({ (c.limit 1) with order := c.order ++ extra } : Chain).run tbl
      = ((isort (ordLe (c.order ++ extra)) (c.matching tbl)).drop (offNat c.lim)).take 1 := by
  simp only [Chain.run, Chain.limit, queryW, effLimit_limit1, effOffset_limit1, window_one]
  rfl

end Gorm

namespace Gorm

theorem first_run (tbl : List Nat) (c : Chain) :
    ((c.limit 1).orderBy pkAsc).run tbl
      = ((isort (ordLe (c.order ++ [pkAsc])) (c.matching tbl)).drop (offNat c.lim)).take 1 :=
  run_limit1 tbl c [pkAsc]

theorem last_run (tbl : List Nat) (c : Chain) :
    ((c.limit 1).orderBy pkDesc).run tbl
      = ((isort (ordLe (c.order ++ [pkDesc])) (c.matching tbl)).drop (offNat c.lim)).take 1 :=
  run_limit1 tbl c [pkDesc]

theorem take_run (tbl : List Nat) (c : Chain) :
    (c.limit 1).run tbl = ((isort (ordLe c.order) (c.matching tbl)).drop (offNat c.lim)).take 1 := by
  have := run_limit1 tbl c []
  simpa [Chain.limit] using this

theorem take1_eq_head (l : List Nat) : l.take 1 = l.head?.toList := by
  cases l <;> simp

theorem single_rows (r : List Nat) : (single (r.take 1)).rows = r.take 1 := by
  simp [single, List.take_take]

theorem single_notFound (S : List Nat) (n : Nat) :
    (single ((S.drop n).take 1)).notFound = true ↔ S.length ≤ n := by
  simp only [single, List.isEmpty_iff]
  constructor
  · intro h
    have : ((S.drop n).take 1).length = 0 := by rw [h]; rfl
    simp [List.length_take, List.length_drop] at this
    omega
  · intro h
    rw [List.drop_of_length_le h]; rfl

theorem matching_sorted (tbl : List Nat) (c : Chain) (hs : tbl.Pairwise (· < ·)) :
    (c.matching tbl).Pairwise (· < ·) :=
  List.Pairwise.sublist List.filter_sublist hs

theorem window_length_isort (le : Nat → Nat → Bool) (M : List Nat) (lim off : Option Int) :
    (window (isort le M) lim off).length = (window M lim off).length := by
  unfold window
  cases off <;> cases lim <;> simp [List.length_take, List.length_drop, isort_length]

end Gorm
