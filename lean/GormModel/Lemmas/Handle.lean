/-
  Lemmas for Model/Handle.lean: the symbolic run of `Session()` depends only on the flags its guards
  test, so a statement about ALL flag valuations reduces to the finitely many sub-lists of
  `progFlags` (which `decide` enumerates over the regenerated program).
-/
import GormModel.Model.Handle
namespace Gorm

theorem CCond.eval_congr (fl fl' : SessFlags) :
    ∀ c : CCond, (∀ f ∈ c.flags, fl f = fl' f) → c.eval fl = c.eval fl'
  | .flag f, h => by simp [CCond.eval, SessFlags.get, h f (by simp [CCond.flags])]
  | .unknown, _ => rfl
  | .not c, h => by simp [CCond.eval, CCond.eval_congr fl fl' c (by simpa [CCond.flags] using h)]
  | .and a b, h => by
    have ha := CCond.eval_congr fl fl' a (fun f hf => h f (by simp [CCond.flags, hf]))
    have hb := CCond.eval_congr fl fl' b (fun f hf => h f (by simp [CCond.flags, hf]))
    simp [CCond.eval, ha, hb]
  | .or a b, h => by
    have ha := CCond.eval_congr fl fl' a (fun f hf => h f (by simp [CCond.flags, hf]))
    have hb := CCond.eval_congr fl fl' b (fun f hf => h f (by simp [CCond.flags, hf]))
    simp [CCond.eval, ha, hb]

theorem evalCPath_congr (fl fl' : SessFlags) :
    ∀ p : List CCond, (∀ f ∈ pathFlags p, fl f = fl' f) → evalCPath fl p = evalCPath fl' p
  | [], _ => rfl
  | c :: cs, h => by
    have hc := CCond.eval_congr fl fl' c (fun f hf => h f (by simp [pathFlags, hf]))
    have hr := evalCPath_congr fl fl' cs (fun f hf => h f (by simp [pathFlags, hf]))
    simp [evalCPath, hc, hr]

theorem runSess_congr (fl fl' : SessFlags) (prog : List (List CCond × SAct))
    (h : ∀ f ∈ progFlags prog, fl f = fl' f) : runSess prog fl = runSess prog fl' := by
  unfold runSess
  generalize ({} : SessState) = st
  induction prog generalizing st with
  | nil => rfl
  | cons ga rest ih =>
    simp only [List.foldl_cons]
    rw [evalCPath_congr fl fl' ga.1 (fun f hf => h f (by simp [progFlags, hf]))]
    exact ih (fun f hf => h f (by simp [progFlags, hf])) _

theorem hasContext_mem_progFlags : ∀ prog, SessFlag.hasContext ∈ progFlags prog
  | [] => by simp [progFlags]
  | _ :: rest => by simp [progFlags, hasContext_mem_progFlags rest]

theorem filter_mem_subsets (p : SessFlag → Bool) : ∀ l : List SessFlag, l.filter p ∈ flagSubsets l
  | [] => by simp [flagSubsets]
  | f :: fs => by
    have ih := filter_mem_subsets p fs
    by_cases hp : p f = true
    · rw [List.filter_cons_of_pos hp]; simp only [flagSubsets]
      exact List.mem_append_right _ (List.mem_map.mpr ⟨_, ih, rfl⟩)
    · rw [List.filter_cons_of_neg hp]; simp only [flagSubsets]
      exact List.mem_append_left _ ih

/-- the run under ANY flag valuation equals the run under the valuation that switches on exactly
    the tested flags that are on -/
theorem runSess_restrict (prog : List (List CCond × SAct)) (fl : SessFlags) :
    runSess prog fl = runSess prog (SessFlags.ofList ((progFlags prog).filter fl)) := by
  apply runSess_congr
  intro f hf
  by_cases hv : fl f = true
  · have : f ∈ (progFlags prog).filter fl := List.mem_filter.mpr ⟨hf, hv⟩
    simp [SessFlags.ofList, hv, this]
  · have : f ∉ (progFlags prog).filter fl := fun hm => hv (List.mem_filter.mp hm).2
    simp [SessFlags.ofList, this]
    simpa using hv

/-- reduction: a predicate that holds for every sub-list valuation (containing / not containing
    `hasContext` as required) holds for every valuation -/
theorem forall_flags_of_subsets (prog : List (List CCond × SAct)) (P : SessState → Prop) (b : Bool)
    (hall : ∀ S ∈ flagSubsets (progFlags prog), S.contains SessFlag.hasContext = b → P (runSess prog (SessFlags.ofList S)))
    (fl : SessFlags) (hb : fl .hasContext = b) : P (runSess prog fl) := by
  rw [runSess_restrict]
  apply hall _ (filter_mem_subsets fl _)
  cases b with
  | true =>
    have : SessFlag.hasContext ∈ (progFlags prog).filter fl := List.mem_filter.mpr ⟨hasContext_mem_progFlags prog, hb⟩
    simpa using this
  | false =>
    have : SessFlag.hasContext ∉ (progFlags prog).filter fl := fun hm => by
      have := (List.mem_filter.mp hm).2; simp [hb] at this
    simpa using this

end Gorm
