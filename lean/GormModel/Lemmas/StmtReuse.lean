/-
  Statement reuse (Model/Where.lean `stmtStep` / `stmtRun`): what the finishers of one handle leave in the shared
  `Statement.Clauses`, and the invariants every later finisher can rely on.  Also home of the regrouping lemmas of
  `softDeleteModify` (used by Props/C08 and Props/C09).
-/
import GormModel.Lemmas.Where
namespace Gorm

theorem mkAnd_isSome (es : List Ex) (h : es ≠ []) : (mkAnd es).isSome = true := by
  cases es with
  | nil => exact absurd rfl h
  | cons e r => cases r <;> simp [mkAnd] <;> split <;> rfl


/-- the user's conditions after the regrouping step -/
def regroup (es : List Ex) : List Ex := if es.any Ex.isSingleOr then (mkAnd es).toList else es

theorem softDeleteModify_exprs (f : Atom) (s : WhereState) (h : s.softEnabled = false) :
    (softDeleteModify false f s).exprs = some (regroup (s.exprs.getD []) ++ [.atom f]) := by
  simp [softDeleteModify, h, regroup]

theorem regroup_noSingleOr (es : List Ex) : noSingleOr (regroup es) = true := by
  unfold regroup
  by_cases h : es.any Ex.isSingleOr = true
  · simp only [h, if_true]
    cases es with
    | nil => simp [mkAnd, noSingleOr]
    | cons e r =>
      cases r with
      | nil =>
        simp only [mkAnd]
        by_cases ho : e.isOr = true
        · simp [ho, noSingleOr, Ex.isSingleOr]
        · -- impossible: the only member is a single-member Or, hence an Or
          simp only [List.any_cons, List.any_nil, Bool.or_false] at h
          cases e <;> simp_all [Ex.isSingleOr, Ex.isOr]
      | cons e2 r2 => simp [mkAnd, noSingleOr, Ex.isSingleOr]
  · have h' : es.any Ex.isSingleOr = false := by simpa using h
    simp only [h', Bool.false_eq_true, if_false]
    simp only [noSingleOr, List.all_eq_true, Bool.not_eq_true']
    intro e he
    have := List.any_eq_false.mp h' e he
    simpa using this

theorem whereExprs_with_filter (es : List Ex) (f : Atom) :
    whereExprs (regroup es ++ [.atom f]) = regroup es ++ [.atom f] := by
  have hn := regroup_noSingleOr es
  cases hr : regroup es with
  | nil => simp [whereExprs, unwrapSingleAnd, swapFirst, firstNonSingleOr, Ex.isSingleOr]
  | cons e r =>
    rw [hr] at hn
    have he : e.isSingleOr = false := by
      simp only [noSingleOr, List.all_cons, Bool.and_eq_true, Bool.not_eq_true'] at hn; exact hn.1
    cases r with
    | nil =>
      show swapFirst (unwrapSingleAnd [e, .atom f]) = _
      rw [unwrapSingleAnd_of_two, swapFirst_of_head _ _ he]; rfl
    | cons e2 r2 =>
      show swapFirst (unwrapSingleAnd (e :: e2 :: (r2 ++ [.atom f]))) = _
      rw [unwrapSingleAnd_of_two, swapFirst_of_head _ _ he]; rfl

theorem regroup_length_pos (es : List Ex) (h : es ≠ []) : (regroup es).length ≥ 1 := by
  unfold regroup
  by_cases ha : es.any Ex.isSingleOr = true
  · simp only [ha, if_true]
    have := mkAnd_isSome es h
    cases hm : mkAnd es with
    | none => rw [hm] at this; simp at this
    | some x => simp
  · have h' : es.any Ex.isSingleOr = false := by simpa using ha
    simp only [h', Bool.false_eq_true, if_false]
    cases es with
    | nil => exact absurd rfl h
    | cons e r => simp


/-! ### the statement machine -/

theorem chainStep_eq_append (es : List Ex) (op : ChainOp) (f : Form) :
    chainStep es op f = es ++ chainStep [] op f := by
  unfold chainStep
  cases f.cond with
  | none => simp
  | some c => cases op <;> simp

theorem chainStep_nil_ne_nil (op : ChainOp) (f : Form) (h : f.cond.isSome = true) : chainStep [] op f ≠ [] := by
  unfold chainStep
  cases hc : f.cond with
  | none => rw [hc] at h; simp at h
  | some c =>
    cases op with
    | where_ => simp
    | not_ =>
      have : (mkNot [c]).isSome = true := by cases c <;> simp [mkNot]
      cases hn : mkNot [c] with
      | none => rw [hn] at this; simp at this
      | some x => simp [hn]
    | or_ =>
      have h1 : (mkAnd [c]).isSome = true := mkAnd_isSome _ (by simp)
      cases ha : mkAnd [c] with
      | none => rw [ha] at h1; simp at h1
      | some x => simp [ha, mkOr]

theorem chainStep_nil_of_none (op : ChainOp) (f : Form) (h : f.cond.isSome = false) : chainStep [] op f = [] := by
  unfold chainStep
  cases hc : f.cond with
  | none => rfl
  | some c => rw [hc] at h; simp at h

/-- the filter sits in the WHERE entry at the boundary between what was there when the modifier ran (regrouped) and
    what was added later -/
def Installed (f : Atom) (w : WhereState) : Prop :=
  ∃ es post, w.exprs = some (regroup es ++ .atom f :: post)

/-- marker ⇒ filter (soft-delete model); a plain model never gets the marker -/
def MarkerInv (cfg : StmtCfg) (s : StmtState) : Prop :=
  match cfg.soft with
  | none => s.w.softEnabled = false
  | some f => s.w.softEnabled = true → Installed f s.w

/-! helpers: the WHERE state alone -/

theorem modifyBy_none (cfg : StmtCfg) (un : Bool) (w : WhereState) (h : cfg.soft = none) : modifyBy cfg un w = w := by
  simp [modifyBy, h]

theorem modifyBy_some (cfg : StmtCfg) (un : Bool) (w : WhereState) (f : Atom) (h : cfg.soft = some f) :
    modifyBy cfg un w = softDeleteModify un f w := by
  simp [modifyBy, h]

theorem softDeleteModify_of_marker (un : Bool) (f : Atom) (w : WhereState) (h : w.softEnabled = true) :
    softDeleteModify un f w = w := by
  simp [softDeleteModify, h]

theorem softDeleteModify_unscoped (f : Atom) (w : WhereState) : softDeleteModify true f w = w := by
  simp [softDeleteModify]

theorem softDeleteModify_marker (f : Atom) (w : WhereState) : (softDeleteModify false f w).softEnabled = true := by
  cases hw : w.softEnabled <;> simp [softDeleteModify, hw]

/-- `MarkerInv` on the WHERE state -/
def WInv (soft : Option Atom) (w : WhereState) : Prop :=
  match soft with
  | none => w.softEnabled = false
  | some f => w.softEnabled = true → Installed f w

theorem markerInv_iff (cfg : StmtCfg) (s : StmtState) : MarkerInv cfg s ↔ WInv cfg.soft s.w := by
  unfold MarkerInv WInv
  cases cfg.soft <;> exact Iff.rfl

theorem installed_addWhere (f : Atom) (w : WhereState) (new : List Ex) (h : Installed f w) :
    Installed f (addWhere w new) := by
  obtain ⟨es, post, he⟩ := h
  exact ⟨es, post ++ new, by simp [addWhere, he]⟩

theorem installed_modify (f : Atom) (un : Bool) (w : WhereState) (h : w.softEnabled = true → Installed f w) :
    (softDeleteModify un f w).softEnabled = true → Installed f (softDeleteModify un f w) := by
  cases hw : w.softEnabled with
  | true =>
    rw [softDeleteModify_of_marker un f w hw]
    exact h
  | false =>
    cases un with
    | true =>
      rw [softDeleteModify_unscoped]
      intro hs; rw [hw] at hs; cases hs
    | false =>
      intro _
      exact ⟨w.exprs.getD [], [], softDeleteModify_exprs f w hw⟩

theorem winv_addWhere (soft : Option Atom) (w : WhereState) (new : List Ex) (h : WInv soft w) :
    WInv soft (addWhere w new) := by
  cases soft with
  | none => exact h
  | some f => exact fun hs => installed_addWhere f w new (h hs)

theorem winv_modifyBy (cfg : StmtCfg) (un : Bool) (w : WhereState) (h : WInv cfg.soft w) :
    WInv cfg.soft (modifyBy cfg un w) := by
  cases hc : cfg.soft with
  | none => rw [modifyBy_none cfg un w hc]; rw [hc] at h; exact h
  | some f =>
    rw [modifyBy_some cfg un w f hc]; rw [hc] at h
    exact installed_modify f un w h

/-- whatever `addWhere` and the modifier preserve, a finisher preserves -/
theorem finWhere_preserve (P : WhereState → Prop) (cfg : StmtCfg) (s : StmtState) (k : FinKind) (vk : List Atom)
    (same : Bool) (h : P s.w) (hadd : ∀ w new, P w → P (addWhere w new))
    (hmod : ∀ w, P w → P (modifyBy cfg s.unscoped w)) : P (finWhere cfg s k vk same) := by
  cases k <;> simp only [finWhere]
  case update =>
    split
    · exact hmod _ h
    · exact hadd _ _ (hmod _ h)
  case delete =>
    apply hmod
    split
    · exact h
    · exact hadd _ _ h
  all_goals exact hmod _ h

theorem stmtStep_cond_w (cfg : StmtCfg) (s : StmtState) (o : ChainOp) (f : Form) :
    (stmtStep cfg s (.cond o f)).w =
      if (chainStep [] o f).isEmpty then s.w else addWhere s.w (chainStep [] o f) := by
  simp only [stmtStep]; split <;> rfl

/-- … and so does every call on the handle -/
theorem stmtStep_preserve (P : WhereState → Prop) (cfg : StmtCfg) (s : StmtState) (op : StmtOp) (h : P s.w)
    (hadd : ∀ w new, P w → P (addWhere w new))
    (hmod : ∀ w, P w → P (modifyBy cfg s.unscoped w)) : P (stmtStep cfg s op).w := by
  cases op with
  | cond o f =>
    rw [stmtStep_cond_w]
    split
    · exact h
    · exact hadd _ _ h
  | clauseWhere es => exact hadd _ _ h
  | unscoped => exact h
  | fin k vk same => exact finWhere_preserve P cfg s k vk same h hadd hmod

theorem markerInv_fresh (cfg : StmtCfg) : MarkerInv cfg StmtState.fresh := by
  unfold MarkerInv
  cases cfg.soft with
  | none => rfl
  | some f => intro h; cases h

theorem stmtStep_markerInv (cfg : StmtCfg) (s : StmtState) (op : StmtOp) (h : MarkerInv cfg s) :
    MarkerInv cfg (stmtStep cfg s op) := by
  rw [markerInv_iff] at h ⊢
  exact stmtStep_preserve (WInv cfg.soft) cfg s op h (fun w new hw => winv_addWhere _ w new hw)
    (fun w hw => winv_modifyBy cfg _ w hw)

theorem stmtRun_markerInv (cfg : StmtCfg) (s : StmtState) (ops : List StmtOp) (h : MarkerInv cfg s) :
    MarkerInv cfg (stmtRun cfg s ops) := by
  induction ops generalizing s with
  | nil => exact h
  | cons op r ih => exact ih _ (stmtStep_markerInv cfg s op h)

/-- a finisher issued while the statement is not Unscoped executes with the marker set and the filter installed,
    whatever ran on the statement before -/
theorem finWhere_scoped_filtered (cfg : StmtCfg) (f : Atom) (hf : cfg.soft = some f) (s : StmtState)
    (hinv : MarkerInv cfg s) (hu : s.unscoped = false) (k : FinKind) (vk : List Atom) (same : Bool) :
    (finWhere cfg s k vk same).softEnabled = true ∧ Installed f (finWhere cfg s k vk same) := by
  rw [markerInv_iff, hf] at hinv
  have hinv' : s.w.softEnabled = true → Installed f s.w := hinv
  have hadd : ∀ w new, (w.softEnabled = true → Installed f w) →
      ((addWhere w new).softEnabled = true → Installed f (addWhere w new)) :=
    fun w new hw hs => installed_addWhere f w new (hw hs)
  have hmod : ∀ w, (w.softEnabled = true → Installed f w) →
      (modifyBy cfg s.unscoped w).softEnabled = true ∧ Installed f (modifyBy cfg s.unscoped w) := by
    intro w hw
    rw [modifyBy_some cfg _ w f hf, hu]
    have hm := softDeleteModify_marker f w
    exact ⟨hm, installed_modify f false w hw hm⟩
  cases k <;> simp only [finWhere]
  case update =>
    split
    · exact hmod _ hinv'
    · have := hmod _ hinv'
      exact ⟨this.1, installed_addWhere f _ _ this.2⟩
  case delete =>
    apply hmod
    split
    · exact hinv'
    · exact hadd _ _ hinv'
  all_goals exact hmod _ hinv'

theorem modifyBy_marker_mono (cfg : StmtCfg) (un : Bool) (w : WhereState) (h : w.softEnabled = true) :
    (modifyBy cfg un w).softEnabled = true := by
  cases hc : cfg.soft with
  | none => rw [modifyBy_none cfg un w hc]; exact h
  | some f => rw [modifyBy_some cfg un w f hc, softDeleteModify_of_marker un f w h]; exact h

/-- the marker never disappears, and Unscoped is never switched off again -/
theorem stmtStep_marker_mono (cfg : StmtCfg) (s : StmtState) (op : StmtOp) (h : s.w.softEnabled = true) :
    (stmtStep cfg s op).w.softEnabled = true :=
  stmtStep_preserve (fun w => w.softEnabled = true) cfg s op h (fun _ _ hw => hw)
    (fun w hw => modifyBy_marker_mono cfg _ w hw)

/-! ### the guard on a reused statement -/

/-- calls that supply no condition: empty condition forms, Unscoped, finishers whose value carries no key -/
def opBare : StmtOp → Bool
  | .cond _ f => !f.cond.isSome
  | .clauseWhere _ => false
  | .unscoped => true
  | .fin _ vk _ => vk.isEmpty

/-- states reachable through condition-free calls: nothing at all, or exactly the filter with its marker -/
def Bare (cfg : StmtCfg) (s : StmtState) : Prop :=
  s.w = { exprs := none, softEnabled := false } ∨
  (∃ f, cfg.soft = some f ∧ s.w = { exprs := some [.atom f], softEnabled := true })

/-- `Bare` on the WHERE state -/
def BareW (cfg : StmtCfg) (w : WhereState) : Prop :=
  w = { exprs := none, softEnabled := false } ∨
  (∃ f, cfg.soft = some f ∧ w = { exprs := some [.atom f], softEnabled := true })

theorem writeKeys_nil (cfg : StmtCfg) (hk : cfg.modelKey = []) (k : FinKind) (same : Bool) :
    writeKeys cfg k [] same = [] := by
  cases k <;> simp [writeKeys, hk]

theorem finWhere_of_nokeys (cfg : StmtCfg) (s : StmtState) (k : FinKind) (vk : List Atom) (same : Bool)
    (h : writeKeys cfg k vk same = []) : finWhere cfg s k vk same = modifyBy cfg s.unscoped s.w := by
  cases k <;> simp [finWhere, h]

theorem modifyBy_bare (cfg : StmtCfg) (un : Bool) (w : WhereState) (hb : BareW cfg w) :
    BareW cfg (modifyBy cfg un w) := by
  rcases hb with h1 | ⟨f, hf, h2⟩
  · subst h1
    cases hc : cfg.soft with
    | none => rw [modifyBy_none cfg un _ hc]; exact Or.inl rfl
    | some f =>
      rw [modifyBy_some cfg un _ f hc]
      cases un with
      | true => rw [softDeleteModify_unscoped]; exact Or.inl rfl
      | false => exact Or.inr ⟨f, hc, by simp [softDeleteModify]⟩
  · subst h2
    rw [modifyBy_some cfg un _ f hf, softDeleteModify_of_marker un f _ rfl]
    exact Or.inr ⟨f, hf, rfl⟩

theorem finWhere_bare (cfg : StmtCfg) (hk : cfg.modelKey = []) (s : StmtState) (hb : Bare cfg s) (k : FinKind)
    (same : Bool) : BareW cfg (finWhere cfg s k [] same) := by
  rw [finWhere_of_nokeys cfg s k [] same (writeKeys_nil cfg hk k same)]
  exact modifyBy_bare cfg _ _ hb

theorem stmtStep_bare (cfg : StmtCfg) (hk : cfg.modelKey = []) (s : StmtState) (op : StmtOp)
    (hb : Bare cfg s) (ho : opBare op = true) : Bare cfg (stmtStep cfg s op) := by
  cases op with
  | cond o f =>
    have hn : f.cond.isSome = false := by simpa [opBare] using ho
    have : stmtStep cfg s (.cond o f) = s := by
      simp [stmtStep, chainStep_nil_of_none o f hn]
    rw [this]; exact hb
  | clauseWhere es => simp [opBare] at ho
  | unscoped => exact hb
  | fin k vk same =>
    have hv : vk = [] := by simpa [opBare] using ho
    subst hv
    exact finWhere_bare cfg hk s hb k same

theorem stmtRun_bare (cfg : StmtCfg) (hk : cfg.modelKey = []) (s : StmtState) (ops : List StmtOp)
    (hb : Bare cfg s) (ho : ∀ op ∈ ops, opBare op = true) : Bare cfg (stmtRun cfg s ops) := by
  induction ops generalizing s with
  | nil => exact hb
  | cons op r ih =>
    exact ih _ (stmtStep_bare cfg hk s op hb (ho op List.mem_cons_self))
      (fun o h => ho o (List.mem_cons_of_mem _ h))

theorem bare_rejected (ce : Bool) (cfg : StmtCfg) (hk : cfg.modelKey = []) (hag : cfg.allowGlobal = false) (s : StmtState)
    (hb : Bare cfg s) (k : FinKind) (hw : k.isWrite = true) (same : Bool) :
    finRejected ce cfg s k [] same = true := by
  have hb' := finWhere_bare cfg hk s hb k same
  unfold finRejected
  rw [hw, hag]
  rcases hb' with h1 | ⟨f, _, h2⟩
  · rw [h1]; simp [missingWhere]
  · rw [h2]; simp [missingWhere]

/-! #### the same with `Clauses(clause.Where{})` among the condition-free calls (guard that counts expressions) -/

/-- calls that supply no condition — INCLUDING a `clause.Where` that holds no expression -/
def opCondFree : StmtOp → Bool
  | .cond _ f => !f.cond.isSome
  | .clauseWhere es => es.isEmpty
  | .unscoped => true
  | .fin _ vk _ => vk.isEmpty

/-- WHERE states reachable through such calls: no entry or an EMPTY entry (no marker), or exactly the filter with its
    marker -/
def BareEW (cfg : StmtCfg) (w : WhereState) : Prop :=
  (w.softEnabled = false ∧ (w.exprs = none ∨ w.exprs = some [])) ∨
  (∃ f, cfg.soft = some f ∧ w = { exprs := some [.atom f], softEnabled := true })

theorem bareEW_fresh (cfg : StmtCfg) : BareEW cfg StmtState.fresh.w := Or.inl ⟨rfl, Or.inl rfl⟩

theorem addWhere_nil_bareEW (cfg : StmtCfg) (w : WhereState) (hb : BareEW cfg w) : BareEW cfg (addWhere w []) := by
  rcases hb with ⟨hm, hn | he⟩ | ⟨f, hf, h2⟩
  · exact Or.inl ⟨hm, Or.inr (by simp [addWhere, hn])⟩
  · exact Or.inl ⟨hm, Or.inr (by simp [addWhere, he])⟩
  · subst h2; exact Or.inr ⟨f, hf, by simp [addWhere]⟩

theorem modifyBy_bareEW (cfg : StmtCfg) (un : Bool) (w : WhereState) (hb : BareEW cfg w) :
    BareEW cfg (modifyBy cfg un w) := by
  rcases hb with ⟨hm, hx⟩ | ⟨f, hf, h2⟩
  · cases hc : cfg.soft with
    | none => rw [modifyBy_none cfg un _ hc]; exact Or.inl ⟨hm, hx⟩
    | some f =>
      rw [modifyBy_some cfg un _ f hc]
      cases un with
      | true => rw [softDeleteModify_unscoped]; exact Or.inl ⟨hm, hx⟩
      | false =>
        refine Or.inr ⟨f, hc, ?_⟩
        rcases hx with hn | he
        · simp [softDeleteModify, hm, hn]
        · simp [softDeleteModify, hm, he]
  · subst h2
    rw [modifyBy_some cfg un _ f hf, softDeleteModify_of_marker un f _ rfl]
    exact Or.inr ⟨f, hf, rfl⟩

theorem stmtStep_bareEW (cfg : StmtCfg) (hk : cfg.modelKey = []) (s : StmtState) (op : StmtOp)
    (hb : BareEW cfg s.w) (ho : opCondFree op = true) : BareEW cfg (stmtStep cfg s op).w := by
  cases op with
  | cond o f =>
    have hn : f.cond.isSome = false := by simpa [opCondFree] using ho
    have : stmtStep cfg s (.cond o f) = s := by
      simp [stmtStep, chainStep_nil_of_none o f hn]
    rw [this]; exact hb
  | clauseWhere es =>
    have he : es = [] := by simpa [opCondFree] using ho
    subst he
    exact addWhere_nil_bareEW cfg s.w hb
  | unscoped => exact hb
  | fin k vk same =>
    have hv : vk = [] := by simpa [opCondFree] using ho
    subst hv
    show BareEW cfg (finWhere cfg s k [] same)
    rw [finWhere_of_nokeys cfg s k [] same (writeKeys_nil cfg hk k same)]
    exact modifyBy_bareEW cfg _ _ hb

theorem stmtRun_bareEW (cfg : StmtCfg) (hk : cfg.modelKey = []) (s : StmtState) (ops : List StmtOp)
    (hb : BareEW cfg s.w) (ho : ∀ op ∈ ops, opCondFree op = true) : BareEW cfg (stmtRun cfg s ops).w := by
  induction ops generalizing s with
  | nil => exact hb
  | cons op r ih =>
    exact ih _ (stmtStep_bareEW cfg hk s op hb (ho op List.mem_cons_self))
      (fun o h => ho o (List.mem_cons_of_mem _ h))

/-- a guard that counts expressions rejects a key-less write in every such state -/
theorem bareEW_rejected (cfg : StmtCfg) (hk : cfg.modelKey = []) (hag : cfg.allowGlobal = false) (s : StmtState)
    (hb : BareEW cfg s.w) (k : FinKind) (hw : k.isWrite = true) (same : Bool) :
    finRejected true cfg s k [] same = true := by
  have hb' : BareEW cfg (finWhere cfg s k [] same) := by
    rw [finWhere_of_nokeys cfg s k [] same (writeKeys_nil cfg hk k same)]
    exact modifyBy_bareEW cfg _ _ hb
  unfold finRejected
  rw [hw, hag]
  rcases hb' with ⟨hm, hn | he⟩ | ⟨f, _, h2⟩
  · simp [missingWhere, hn]
  · simp [missingWhere, he, hm]
  · rw [h2]; simp [missingWhere]

/-- states in which a condition is present: the entry exists, is non-empty, and holds more than the filter -/
def Rich (s : StmtState) : Prop :=
  ∃ es, s.w.exprs = some es ∧ es ≠ [] ∧ (s.w.softEnabled = true → es.length ≥ 2)

/-- calls that supply a condition -/
def opEffective : StmtOp → Bool
  | .cond _ f => f.cond.isSome
  | .clauseWhere es => !es.isEmpty
  | _ => false

/-- marker ⇒ the entry holds at least the filter (a consequence of `MarkerInv` on soft-delete models) -/
def MarkerNonempty (s : StmtState) : Prop :=
  s.w.softEnabled = true → ∃ es, s.w.exprs = some es ∧ es.length ≥ 1

/-- `Rich` / `MarkerNonempty` on the WHERE state -/
def RichW (w : WhereState) : Prop :=
  ∃ es, w.exprs = some es ∧ es ≠ [] ∧ (w.softEnabled = true → es.length ≥ 2)

def MNW (w : WhereState) : Prop :=
  w.softEnabled = true → ∃ es, w.exprs = some es ∧ es.length ≥ 1

theorem addWhere_rich (w : WhereState) (new : List Ex) (h : RichW w) : RichW (addWhere w new) := by
  obtain ⟨es, he, hne, hl⟩ := h
  refine ⟨es ++ new, by simp [addWhere, he], by simp [hne], fun hs => ?_⟩
  have := hl hs
  simp only [List.length_append]; omega

theorem addWhere_rich_of_mn (w : WhereState) (new : List Ex) (h : MNW w) (hn : new ≠ []) : RichW (addWhere w new) := by
  have hlen : new.length ≥ 1 := by
    cases new with
    | nil => exact absurd rfl hn
    | cons _ _ => simp
  refine ⟨w.exprs.getD [] ++ new, rfl, by simp [hn], fun hs => ?_⟩
  obtain ⟨es, he, hl⟩ := h hs
  simp only [he, Option.getD_some, List.length_append]; omega

theorem modifyBy_rich (cfg : StmtCfg) (un : Bool) (w : WhereState) (h : RichW w) : RichW (modifyBy cfg un w) := by
  cases hc : cfg.soft with
  | none => rw [modifyBy_none cfg un w hc]; exact h
  | some f =>
    rw [modifyBy_some cfg un w f hc]
    cases hw : w.softEnabled with
    | true => rw [softDeleteModify_of_marker un f w hw]; exact h
    | false =>
      cases un with
      | true => rw [softDeleteModify_unscoped]; exact h
      | false =>
        obtain ⟨es, he, hne, _⟩ := h
        have hx := softDeleteModify_exprs f w hw
        rw [he] at hx
        have hp := regroup_length_pos es hne
        refine ⟨_, hx, by simp, fun _ => ?_⟩
        simp only [Option.getD_some, List.length_append, List.length_singleton]; omega

theorem modifyBy_mn (cfg : StmtCfg) (un : Bool) (w : WhereState) (h : MNW w) : MNW (modifyBy cfg un w) := by
  cases hc : cfg.soft with
  | none => rw [modifyBy_none cfg un w hc]; exact h
  | some f =>
    rw [modifyBy_some cfg un w f hc]
    cases hw : w.softEnabled with
    | true => rw [softDeleteModify_of_marker un f w hw]; exact h
    | false =>
      cases un with
      | true => rw [softDeleteModify_unscoped]; exact h
      | false =>
        intro _
        exact ⟨_, softDeleteModify_exprs f w hw, by simp⟩

theorem missingWhere_rich (ce ag : Bool) (w : WhereState) (h : RichW w) : missingWhere ce ag w = false := by
  obtain ⟨es, he, hne, hl⟩ := h
  unfold missingWhere
  cases ag with
  | true => rfl
  | false =>
    simp only [Bool.false_eq_true, if_false, he]
    cases hs : w.softEnabled with
    | false =>
      have : es.isEmpty = false := by cases es with | nil => exact absurd rfl hne | cons _ _ => rfl
      simp [this]
    | true => have := hl hs; simp; omega

theorem markerInv_nonempty (cfg : StmtCfg) (s : StmtState) (h : MarkerInv cfg s) : MarkerNonempty s := by
  rw [markerInv_iff] at h
  intro hs
  cases hc : cfg.soft with
  | none => rw [hc] at h; have h' : s.w.softEnabled = false := h; rw [h'] at hs; cases hs
  | some f =>
    rw [hc] at h
    obtain ⟨es, post, he⟩ := (h : s.w.softEnabled = true → Installed f s.w) hs
    exact ⟨_, he, by simp only [List.length_append, List.length_cons]; omega⟩

theorem stmtStep_effective_rich (cfg : StmtCfg) (s : StmtState) (op : StmtOp) (hm : MarkerNonempty s)
    (ho : opEffective op = true) : Rich (stmtStep cfg s op) := by
  cases op with
  | cond o f =>
    have hne := chainStep_nil_ne_nil o f ho
    show RichW (stmtStep cfg s (.cond o f)).w
    rw [stmtStep_cond_w]
    have : (chainStep [] o f).isEmpty = false := by
      cases hcs : chainStep [] o f with
      | nil => exact absurd hcs hne
      | cons _ _ => rfl
    rw [this]
    exact addWhere_rich_of_mn s.w _ hm hne
  | clauseWhere es =>
    have hne : es ≠ [] := by
      intro h; subst h; simp [opEffective] at ho
    exact addWhere_rich_of_mn s.w es hm hne
  | unscoped => simp [opEffective] at ho
  | fin k vk same => simp [opEffective] at ho

theorem stmtStep_rich (cfg : StmtCfg) (s : StmtState) (op : StmtOp) (h : Rich s) : Rich (stmtStep cfg s op) :=
  stmtStep_preserve RichW cfg s op h (fun w new hw => addWhere_rich w new hw) (fun w hw => modifyBy_rich cfg _ w hw)

theorem stmtRun_rich (cfg : StmtCfg) (s : StmtState) (ops : List StmtOp) (h : Rich s) : Rich (stmtRun cfg s ops) := by
  induction ops generalizing s with
  | nil => exact h
  | cons op r ih => exact ih _ (stmtStep_rich cfg s op h)

theorem rich_admitted (ce : Bool) (cfg : StmtCfg) (s : StmtState) (h : Rich s) (k : FinKind) (vk : List Atom) (same : Bool) :
    finRejected ce cfg s k vk same = false := by
  have hr : RichW (finWhere cfg s k vk same) :=
    finWhere_preserve RichW cfg s k vk same h (fun w new hw => addWhere_rich w new hw)
      (fun w hw => modifyBy_rich cfg _ w hw)
  unfold finRejected
  rw [missingWhere_rich _ _ _ hr, Bool.and_false]

/-- a write whose value (or Model) carries a key is admitted from every state in which marker ⇒ non-empty entry
    (except an Update that reuses the SET entry an earlier soft delete left on the statement: it adds no key) -/
theorem keyed_admitted (ce : Bool) (cfg : StmtCfg) (s : StmtState) (hm : MarkerNonempty s) (k : FinKind) (vk : List Atom) (same : Bool)
    (hkeys : writeKeys cfg k vk same ≠ []) (hset : k = .update → s.keys.contains "SET" = false) :
    finRejected ce cfg s k vk same = false := by
  have hmap : (writeKeys cfg k vk same).map Ex.atom ≠ [] := by simpa using hkeys
  have hemp : ((writeKeys cfg k vk same).map Ex.atom).isEmpty = false := by
    cases hx : (writeKeys cfg k vk same).map Ex.atom with
    | nil => exact absurd hx hmap
    | cons _ _ => rfl
  cases k with
  | update =>
    have hs := hset rfl
    have hr : RichW (finWhere cfg s .update vk same) := by
      simp only [finWhere, hemp, hs, Bool.or_self, Bool.false_eq_true, if_false]
      exact addWhere_rich_of_mn _ _ (modifyBy_mn cfg _ _ hm) hmap
    unfold finRejected
    rw [missingWhere_rich _ _ _ hr, Bool.and_false]
  | delete =>
    have hr : RichW (finWhere cfg s .delete vk same) := by
      simp only [finWhere, hemp, Bool.false_eq_true, if_false]
      exact modifyBy_rich cfg _ _ (addWhere_rich_of_mn _ _ hm hmap)
    unfold finRejected
    rw [missingWhere_rich _ _ _ hr, Bool.and_false]
  | _ => simp [finRejected, FinKind.isWrite]

end Gorm
