/-
  Statement reuse (Model/Where.lean `stmtStep` / `stmtRun`): what the finishers of one handle leave in the shared
  `Statement.Clauses`, and the invariants every later finisher can rely on.  Also home of the regrouping lemmas of
  `softDeleteModify` (used by Props/C08 and Props/C09).
-/
import GormModel.Lemmas.Where
namespace Gorm

theorem mkAnd_isSome (es : List Ex) (h : es ≠ []) : (mkAnd es).isSome = true := by
  cases es with
  | nil => exact absurd rfl h
  | cons e r => cases r <;> simp [mkAnd] <;> split <;> rfl


/-- the user's conditions after the regrouping step -/
def regroup (es : List Ex) : List Ex := if es.any Ex.isSingleOr then (mkAnd es).toList else es

theorem softDeleteModify_exprs (f : Atom) (s : WhereState) (h : s.softEnabled = false) :
    (softDeleteModify false f s).exprs = some (regroup (s.exprs.getD []) ++ [.atom f]) := by
  simp [softDeleteModify, h, regroup]

theorem regroup_noSingleOr (es : List Ex) : noSingleOr (regroup es) = true := by
  unfold regroup
  by_cases h : es.any Ex.isSingleOr = true
  · simp only [h, if_true]
    cases es with
    | nil => simp [mkAnd, noSingleOr]
    | cons e r =>
      cases r with
      | nil =>
        simp only [mkAnd]
        by_cases ho : e.isOr = true
        · simp [ho, noSingleOr, Ex.isSingleOr]
        · -- impossible: the only member is a single-member Or, hence an Or
          simp only [List.any_cons, List.any_nil, Bool.or_false] at h
          cases e <;> simp_all [Ex.isSingleOr, Ex.isOr]
      | cons e2 r2 => simp [mkAnd, noSingleOr, Ex.isSingleOr]
  · have h' : es.any Ex.isSingleOr = false := by simpa using h
    simp only [h', Bool.false_eq_true, if_false]
    simp only [noSingleOr, List.all_eq_true, Bool.not_eq_true']
    intro e he
    have := List.any_eq_false.mp h' e he
    simpa using this

theorem whereExprs_with_filter (es : List Ex) (f : Atom) :
    whereExprs (regroup es ++ [.atom f]) = regroup es ++ [.atom f] := by
  have hn := regroup_noSingleOr es
  cases hr : regroup es with
  | nil => simp [whereExprs, unwrapSingleAnd, swapFirst, firstNonSingleOr, Ex.isSingleOr]
  | cons e r =>
    rw [hr] at hn
    have he : e.isSingleOr = false := by
      simp only [noSingleOr, List.all_cons, Bool.and_eq_true, Bool.not_eq_true'] at hn; exact hn.1
    cases r with
    | nil =>
      show swapFirst (unwrapSingleAnd [e, .atom f]) = _
      rw [unwrapSingleAnd_of_two, swapFirst_of_head _ _ he]; rfl
    | cons e2 r2 =>
      show swapFirst (unwrapSingleAnd (e :: e2 :: (r2 ++ [.atom f]))) = _
      rw [unwrapSingleAnd_of_two, swapFirst_of_head _ _ he]; rfl

theorem regroup_length_pos (es : List Ex) (h : es ≠ []) : (regroup es).length ≥ 1 := by
  unfold regroup
  by_cases ha : es.any Ex.isSingleOr = true
  · simp only [ha, if_true]
    have := mkAnd_isSome es h
    cases hm : mkAnd es with
    | none => rw [hm] at this; simp at this
    | some x => simp
  · have h' : es.any Ex.isSingleOr = false := by simpa using ha
    simp only [h', Bool.false_eq_true, if_false]
    cases es with
    | nil => exact absurd rfl h
    | cons e r => simp


/-! ### the statement machine -/

theorem chainStep_eq_append (es : List Ex) (op : ChainOp) (f : Form) :
    chainStep es op f = es ++ chainStep [] op f := by
  sorry

/-- the filter sits in the WHERE entry at the boundary between what was there when the modifier ran (regrouped) and
    what was added later -/
def Installed (f : Atom) (w : WhereState) : Prop :=
  ∃ es post, w.exprs = some (regroup es ++ .atom f :: post)

/-- marker ⇒ filter (soft-delete model); a plain model never gets the marker -/
def MarkerInv (cfg : StmtCfg) (s : StmtState) : Prop :=
  match cfg.soft with
  | none => s.w.softEnabled = false
  | some f => s.w.softEnabled = true → Installed f s.w

theorem markerInv_fresh (cfg : StmtCfg) : MarkerInv cfg StmtState.fresh := by
  sorry

theorem stmtStep_markerInv (cfg : StmtCfg) (s : StmtState) (op : StmtOp) (h : MarkerInv cfg s) :
    MarkerInv cfg (stmtStep cfg s op) := by
  sorry

theorem stmtRun_markerInv (cfg : StmtCfg) (s : StmtState) (ops : List StmtOp) (h : MarkerInv cfg s) :
    MarkerInv cfg (stmtRun cfg s ops) := by
  sorry

/-- a finisher issued while the statement is not Unscoped executes with the marker set and the filter installed,
    whatever ran on the statement before -/
theorem finWhere_scoped_filtered (cfg : StmtCfg) (f : Atom) (hf : cfg.soft = some f) (s : StmtState)
    (hinv : MarkerInv cfg s) (hu : s.unscoped = false) (k : FinKind) (vk : List Atom) (same : Bool) :
    (finWhere cfg s k vk same).softEnabled = true ∧ Installed f (finWhere cfg s k vk same) := by
  sorry

/-- the marker never disappears, and Unscoped is never switched off again -/
theorem stmtStep_marker_mono (cfg : StmtCfg) (s : StmtState) (op : StmtOp) (h : s.w.softEnabled = true) :
    (stmtStep cfg s op).w.softEnabled = true := by
  sorry

/-! ### the guard on a reused statement -/

/-- calls that supply no condition: empty condition forms, Unscoped, finishers whose value carries no key -/
def opBare : StmtOp → Bool
  | .cond _ f => !f.cond.isSome
  | .clauseWhere _ => false
  | .unscoped => true
  | .fin _ vk _ => vk.isEmpty

/-- states reachable through condition-free calls: nothing at all, or exactly the filter with its marker -/
def Bare (cfg : StmtCfg) (s : StmtState) : Prop :=
  s.w = { exprs := none, softEnabled := false } ∨
  (∃ f, cfg.soft = some f ∧ s.w = { exprs := some [.atom f], softEnabled := true })

theorem stmtStep_bare (cfg : StmtCfg) (hk : cfg.modelKey = []) (s : StmtState) (op : StmtOp)
    (hb : Bare cfg s) (ho : opBare op = true) : Bare cfg (stmtStep cfg s op) := by
  sorry

theorem stmtRun_bare (cfg : StmtCfg) (hk : cfg.modelKey = []) (s : StmtState) (ops : List StmtOp)
    (hb : Bare cfg s) (ho : ∀ op ∈ ops, opBare op = true) : Bare cfg (stmtRun cfg s ops) := by
  sorry

theorem bare_rejected (cfg : StmtCfg) (hk : cfg.modelKey = []) (hag : cfg.allowGlobal = false) (s : StmtState)
    (hb : Bare cfg s) (k : FinKind) (hw : k.isWrite = true) (same : Bool) :
    finRejected cfg s k [] same = true := by
  sorry

/-- states in which a condition is present: the entry exists, is non-empty, and holds more than the filter -/
def Rich (s : StmtState) : Prop :=
  ∃ es, s.w.exprs = some es ∧ es ≠ [] ∧ (s.w.softEnabled = true → es.length ≥ 2)

/-- calls that supply a condition -/
def opEffective : StmtOp → Bool
  | .cond _ f => f.cond.isSome
  | .clauseWhere es => !es.isEmpty
  | _ => false

/-- marker ⇒ the entry holds at least the filter (a consequence of `MarkerInv` on soft-delete models) -/
def MarkerNonempty (s : StmtState) : Prop :=
  s.w.softEnabled = true → ∃ es, s.w.exprs = some es ∧ es.length ≥ 1

theorem markerInv_nonempty (cfg : StmtCfg) (s : StmtState) (h : MarkerInv cfg s) : MarkerNonempty s := by
  sorry

theorem stmtStep_effective_rich (cfg : StmtCfg) (s : StmtState) (op : StmtOp) (hm : MarkerNonempty s)
    (ho : opEffective op = true) : Rich (stmtStep cfg s op) := by
  sorry

theorem stmtStep_rich (cfg : StmtCfg) (s : StmtState) (op : StmtOp) (h : Rich s) : Rich (stmtStep cfg s op) := by
  sorry

theorem stmtRun_rich (cfg : StmtCfg) (s : StmtState) (ops : List StmtOp) (h : Rich s) : Rich (stmtRun cfg s ops) := by
  sorry

theorem rich_admitted (cfg : StmtCfg) (s : StmtState) (h : Rich s) (k : FinKind) (vk : List Atom) (same : Bool) :
    finRejected cfg s k vk same = false := by
  sorry

/-- a write whose value (or Model) carries a key is admitted from every state in which marker ⇒ non-empty entry
    (except an Update that reuses the SET entry an earlier soft delete left on the statement: it adds no key) -/
theorem keyed_admitted (cfg : StmtCfg) (s : StmtState) (hm : MarkerNonempty s) (k : FinKind) (vk : List Atom) (same : Bool)
    (hkeys : writeKeys cfg k vk same ≠ []) (hset : k = .update → s.keys.contains "SET" = false) :
    finRejected cfg s k vk same = false := by
  sorry

end Gorm
