import GormModel.Model.Migrate

/-
  Ordering theorems about the executable model of migrator/migrator.go `ReorderModels`
  (`Gorm.Mig.reorderModels`, GormModel/Model/Migrate.lean).
-/
namespace Gorm.Mig

def tablesOf (g : List ModelDeps) : List Str := g.map (·.table)
def depsOf (g : List ModelDeps) (n : Str) : List Str :=
  match findDeps g n with | some d => d.depends | none => []

/-- `a` transitively depends on `b` -/
inductive Reach (g : List ModelDeps) : Str → Str → Prop
  | step {a b} : b ∈ depsOf g a → Reach g a b
  | trans {a b c} : b ∈ depsOf g a → Reach g b c → Reach g a c

theorem Reach.snoc {g : List ModelDeps} {a b c : Str} (h : Reach g a b) (hc : c ∈ depsOf g b) : Reach g a c := by
  induction h with
  | step h => exact Reach.trans h (Reach.step hc)
  | trans h _ ih => exact Reach.trans h (ih hc)

/-! ### generic fold lemmas -/

theorem foldl_rel {α β : Type _} (f : β → α → β) (R : β → β → Prop) (hrefl : ∀ b, R b b)
    (htrans : ∀ {a b c}, R a b → R b c → R a c) (l : List α) (h : ∀ b, ∀ a ∈ l, R b (f b a)) :
    ∀ b, R b (l.foldl f b) := by
  induction l with
  | nil => intro b; exact hrefl b
  | cons a l ih =>
    intro b
    simp only [List.foldl_cons]
    exact htrans (h b a (List.mem_cons_self ..))
      (ih (fun b a' ha' => h b a' (List.mem_cons_of_mem _ ha')) (f b a))

theorem foldl_inv {α β : Type _} (f : β → α → β) (P : β → Prop) (l : List α)
    (h : ∀ b, P b → ∀ a ∈ l, P (f b a)) : ∀ b, P b → P (l.foldl f b) := by
  induction l with
  | nil => intro b hb; exact hb
  | cons a l ih =>
    intro b hb
    simp only [List.foldl_cons]
    exact ih (fun b hb a' ha' => h b hb a' (List.mem_cons_of_mem _ ha')) (f b a)
      (h b hb a (List.mem_cons_self ..))

theorem foldl_inv_mem {α β : Type _} (f : β → α → β) (P : β → Prop) (Q : α → β → Prop) (l : List α)
    (h : ∀ b, P b → ∀ a ∈ l, P (f b a) ∧ Q a (f b a))
    (hQ : ∀ b, P b → ∀ a ∈ l, ∀ a', Q a' b → Q a' (f b a)) :
    ∀ b, P b → P (l.foldl f b) ∧ ∀ a ∈ l, Q a (l.foldl f b) := by
  induction l with
  | nil => intro b hb; exact ⟨hb, fun a ha => by cases ha⟩
  | cons a l ih =>
    intro b hb
    simp only [List.foldl_cons]
    have h1 := h b hb a (List.mem_cons_self ..)
    have ih' := ih (fun b hb a' ha' => h b hb a' (List.mem_cons_of_mem _ ha'))
      (fun b hb a' ha' => hQ b hb a' (List.mem_cons_of_mem _ ha')) (f b a) h1.1
    refine ⟨ih'.1, ?_⟩
    intro x hx
    rcases List.mem_cons.1 hx with rfl | hx
    · -- `Q x` holds after the first step and is preserved by the remaining ones
      have : ∀ (l' : List α), (∀ a ∈ l', a ∈ l) → ∀ b, P b → Q x b → Q x (l'.foldl f b) := by
        intro l'
        induction l' with
        | nil => intro _ b _ hq; exact hq
        | cons c l' ih2 =>
          intro hsub b hb hq
          simp only [List.foldl_cons]
          have hc : c ∈ l := hsub c (List.mem_cons_self ..)
          exact ih2 (fun a ha => hsub a (List.mem_cons_of_mem _ ha)) (f b c)
            (h b hb c (List.mem_cons_of_mem _ hc)).1 (hQ b hb c (List.mem_cons_of_mem _ hc) x hq)
      exact this l (fun _ h => h) (f b x) h1.1 h1.2
    · exact ih'.2 x hx

/-- pigeonhole: a duplicate-free list all of whose elements lie in `l` is not longer than `l` -/
theorem nodup_length_le {α : Type _} [DecidableEq α] : ∀ (st l : List α), st.Nodup → (∀ x ∈ st, x ∈ l) →
    st.length ≤ l.length
  | [], _, _, _ => Nat.zero_le _
  | a :: t, l, hnd, hsub => by
    have ha : a ∈ l := hsub a (List.mem_cons_self ..)
    have hnd' := List.nodup_cons.1 hnd
    have hsub' : ∀ x ∈ t, x ∈ l.erase a := by
      intro x hx
      have hne : x ≠ a := by intro h; subst h; exact hnd'.1 hx
      exact (List.mem_erase_of_ne hne).2 (hsub x (List.mem_cons_of_mem _ hx))
    have ih := nodup_length_le t (l.erase a) hnd'.2 hsub'
    have hl := List.length_erase_of_mem ha
    have hpos : 0 < l.length := List.length_pos_of_mem ha
    simp only [List.length_cons]
    omega

/-! ### `findDeps` -/

theorem findDeps_some_mem {g : List ModelDeps} {t : Str} {d : ModelDeps} (h : findDeps g t = some d) :
    t ∈ tablesOf g := by
  unfold findDeps at h
  have h1 := List.mem_of_find?_eq_some h
  have h2 := List.find?_some h
  simp only [decide_eq_true_eq] at h2
  exact List.mem_map.2 ⟨d, h1, h2⟩

theorem findDeps_of_mem {g : List ModelDeps} {t : Str} (h : t ∈ tablesOf g) : ∃ d, findDeps g t = some d := by
  obtain ⟨m, hm, hmt⟩ := List.mem_map.1 h
  cases hf : findDeps g t with
  | some d => exact ⟨d, rfl⟩
  | none =>
    unfold findDeps at hf
    have := List.find?_eq_none.1 hf m hm
    simp [hmt] at this

theorem depsOf_some {g : List ModelDeps} {t : Str} {d : ModelDeps} (h : findDeps g t = some d) :
    depsOf g t = d.depends := by
  simp [depsOf, h]

theorem depsOf_none {g : List ModelDeps} {t : Str} (h : findDeps g t = none) : depsOf g t = [] := by
  simp [depsOf, h]

/-! ### `parseDependence` -/

/-- the state update `parseDependence` performs for a not yet parsed model -/
def parseStep (s : RState) (t : Str) (b : Bool) : RState :=
  { s with parsed := t :: s.parsed, values := if t ∈ s.values then s.values else t :: s.values,
           names := if b then s.names ++ [t] else s.names }

/-- induction principle: every reflexive transitive relation that contains the single state update
    relates the input and the output of `parseDependence` -/
theorem parse_rel {g : List ModelDeps} {autoAdd : Bool} (R : RState → RState → Prop) (hrefl : ∀ s, R s s)
    (htrans : ∀ {a b c}, R a b → R b c → R a c)
    (hstep : ∀ s t d (b : Bool), (b = true ∨ b = autoAdd) → t ∉ s.parsed → findDeps g t = some d →
      R s (parseStep s t b)) :
    ∀ fuel t b s, (b = true ∨ b = autoAdd) → R s (parseDependence g autoAdd fuel t b s) := by
  intro fuel
  induction fuel with
  | zero => intro t b s _; unfold parseDependence; exact hrefl s
  | succ fuel ih =>
    intro t b s hb
    unfold parseDependence
    split
    · exact hrefl s
    · rename_i hnp
      split
      · exact hrefl s
      · rename_i d hd
        refine htrans (hstep s t d b hb hnp hd) ?_
        apply foldl_rel _ R hrefl htrans
        intro s' j _
        cases hj : j.1 with
        | none => simp only; exact ih _ _ _ (Or.inr rfl)
        | some fs =>
          simp only
          exact htrans (ih fs autoAdd s' (Or.inr rfl)) (ih _ _ _ (Or.inr rfl))

/-- facts about one `parseDependence` call that hold for every `autoAdd` -/
structure PRel (s r : RState) : Prop where
  parsed_mono : ∀ x ∈ s.parsed, x ∈ r.parsed
  names_mono : ∀ x ∈ s.names, x ∈ r.names
  values_mono : ∀ x ∈ s.values, x ∈ r.values
  ordered_eq : r.ordered = s.ordered
  orderedSet_eq : r.orderedSet = s.orderedSet
  pv : (∀ x ∈ s.parsed, x ∈ s.values) → ∀ x ∈ r.parsed, x ∈ r.values

theorem PRel.refl (s : RState) : PRel s s := ⟨fun _ h => h, fun _ h => h, fun _ h => h, rfl, rfl, fun h => h⟩

theorem PRel.trans {a b c : RState} (h1 : PRel a b) (h2 : PRel b c) : PRel a c :=
  ⟨fun x h => h2.parsed_mono x (h1.parsed_mono x h), fun x h => h2.names_mono x (h1.names_mono x h),
   fun x h => h2.values_mono x (h1.values_mono x h), h2.ordered_eq.trans h1.ordered_eq,
   h2.orderedSet_eq.trans h1.orderedSet_eq, fun h => h2.pv (h1.pv h)⟩

theorem PRel.step (s : RState) (t : Str) (b : Bool) : PRel s (parseStep s t b) := by
  refine ⟨?_, ?_, ?_, rfl, rfl, ?_⟩
  · intro x hx; exact List.mem_cons_of_mem _ hx
  · intro x hx; unfold parseStep; cases b <;> simp [hx]
  · intro x hx; unfold parseStep; simp only; split
    · exact hx
    · exact List.mem_cons_of_mem _ hx
  · intro h x hx
    unfold parseStep at hx ⊢
    simp only at hx ⊢
    rcases List.mem_cons.1 hx with rfl | hx
    · split
      · assumption
      · exact List.mem_cons_self ..
    · split
      · exact h x hx
      · exact List.mem_cons_of_mem _ (h x hx)

theorem parse_prel (g : List ModelDeps) (autoAdd : Bool) (fuel : Nat) (t : Str) (b : Bool) (s : RState)
    (hb : b = true ∨ b = autoAdd) : PRel s (parseDependence g autoAdd fuel t b s) :=
  parse_rel PRel PRel.refl PRel.trans (fun s t _ b _ _ _ => PRel.step s t b) fuel t b s hb

/-- with at least one unit of fuel a model known to the graph is parsed afterwards -/
theorem parse_parsed (g : List ModelDeps) (autoAdd : Bool) (fuel : Nat) (t : Str) (b : Bool) (s : RState)
    {d : ModelDeps} (hd : findDeps g t = some d) : t ∈ (parseDependence g autoAdd (fuel + 1) t b s).parsed := by
  unfold parseDependence
  split
  · assumption
  · simp only [hd]
    have := foldl_rel (fun s (j : Option Str × Str) =>
        let s := match j.1 with
          | some fs => parseDependence g autoAdd fuel fs autoAdd s
          | none => s
        parseDependence g autoAdd fuel j.2 autoAdd s) (fun s r : RState => ∀ x ∈ s.parsed, x ∈ r.parsed)
        (fun _ _ h => h) (fun h1 h2 x hx => h2 x (h1 x hx)) d.joins (by
          intro s' j _ x hx
          cases hj : j.1 with
          | none => simp only; exact (parse_prel g autoAdd fuel _ _ _ (Or.inr rfl)).parsed_mono x hx
          | some fs =>
            simp only
            exact (parse_prel g autoAdd fuel _ _ _ (Or.inr rfl)).parsed_mono x
              ((parse_prel g autoAdd fuel _ _ _ (Or.inr rfl)).parsed_mono x hx))
        (parseStep s t b)
    exact this t (List.mem_cons_self ..)

/-- with `autoAdd = true` every parsed model is put on the list of model names -/
theorem parse_names_true (g : List ModelDeps) (fuel : Nat) (t : Str) (s : RState)
    (h : ∀ x ∈ s.parsed, x ∈ s.names) : ∀ x ∈ (parseDependence g true fuel t true s).parsed,
      x ∈ (parseDependence g true fuel t true s).names := by
  refine parse_rel (g := g) (autoAdd := true)
    (fun s r => (∀ x ∈ s.parsed, x ∈ s.names) → ∀ x ∈ r.parsed, x ∈ r.names)
    (fun _ h => h) (fun h1 h2 h => h2 (h1 h)) ?_ fuel t true s (Or.inl rfl) h
  intro s t _ b hb _ _ h x hx
  have hb' : b = true := by rcases hb with h | h <;> exact h
  subst hb'
  unfold parseStep at hx ⊢
  simp only at hx ⊢
  rcases List.mem_cons.1 hx with rfl | hx
  · simp
  · simp [h x hx]

/-! ### `insertOrdered`: T1 -/

/-- what one `insertOrdered` call does to `ordered` / `orderedSet`: it appends a duplicate-free block of
    names that were not in the set before and adds exactly these names to the set -/
def Ext (s r : RState) : Prop :=
  ∃ new, r.ordered = s.ordered ++ new ∧ new.Nodup ∧ (∀ x ∈ new, x ∉ s.orderedSet) ∧
    ∀ x, x ∈ r.orderedSet ↔ x ∈ s.orderedSet ∨ x ∈ new

theorem Ext.refl (s : RState) : Ext s s := ⟨[], by simp, List.nodup_nil, by simp, by simp⟩

theorem Ext.trans {a b c : RState} (h1 : Ext a b) (h2 : Ext b c) : Ext a c := by
  obtain ⟨n1, ho1, hn1, hd1, hs1⟩ := h1
  obtain ⟨n2, ho2, hn2, hd2, hs2⟩ := h2
  refine ⟨n1 ++ n2, by rw [ho2, ho1, List.append_assoc], ?_, ?_, ?_⟩
  · refine List.nodup_append.2 ⟨hn1, hn2, ?_⟩
    intro x hx1 y hy2 hxy
    subst hxy
    exact hd2 x hy2 ((hs1 x).2 (Or.inr hx1))
  · intro x hx
    rcases List.mem_append.1 hx with hx | hx
    · exact hd1 x hx
    · intro hxa; exact hd2 x hx ((hs1 x).2 (Or.inl hxa))
  · intro x
    rw [hs2, hs1, List.mem_append, or_assoc]

theorem Ext.of_eq {s r : RState} (h1 : r.ordered = s.ordered) (h2 : r.orderedSet = s.orderedSet) : Ext s r :=
  ⟨[], by simp [h1], List.nodup_nil, by simp, by simp [h2]⟩

theorem Ext.mono {s r : RState} (h : Ext s r) : ∀ x ∈ s.orderedSet, x ∈ r.orderedSet := by
  obtain ⟨n, _, _, _, hs⟩ := h
  intro x hx; exact (hs x).2 (Or.inl hx)

/-- the part of `insertOrdered` between adding `name` to the set and appending it to the list -/
def insertMid (g : List ModelDeps) (autoAdd : Bool) (fuel : Nat) (name : Str) (s : RState) : RState :=
  if autoAdd then
    match findDeps g name with
    | none => s
    | some d =>
      if name ∈ s.values then
        d.depends.foldl (fun s dep =>
          let s := if dep ∈ s.values then s else parseDependence g autoAdd (g.length + 1) dep autoAdd s
          insertOrdered g autoAdd fuel dep s) s
      else s
  else s

theorem insertOrdered_succ (g : List ModelDeps) (autoAdd : Bool) (fuel : Nat) (name : Str) (s : RState) :
    insertOrdered g autoAdd (fuel + 1) name s =
      if name ∈ s.orderedSet then s else
        { insertMid g autoAdd fuel name { s with orderedSet := name :: s.orderedSet } with
          ordered := (insertMid g autoAdd fuel name { s with orderedSet := name :: s.orderedSet }).ordered ++ [name] } := by
  rw [insertOrdered]; rfl

theorem insertMid_ext (g : List ModelDeps) (autoAdd : Bool) (fuel : Nat)
    (ih : ∀ name s, Ext s (insertOrdered g autoAdd fuel name s)) (name : Str) (s : RState) :
    Ext s (insertMid g autoAdd fuel name s) := by
  unfold insertMid
  split
  · split
    · exact Ext.refl _
    · split
      · apply foldl_rel _ Ext Ext.refl Ext.trans
        intro b dep _
        refine Ext.trans ?_ (ih dep _)
        split
        · exact Ext.refl b
        · have := parse_prel g autoAdd (g.length + 1) dep autoAdd b (Or.inr rfl)
          exact Ext.of_eq this.ordered_eq this.orderedSet_eq
      · exact Ext.refl _
  · exact Ext.refl _

theorem insert_ext (g : List ModelDeps) (autoAdd : Bool) : ∀ fuel name s, Ext s (insertOrdered g autoAdd fuel name s) := by
  intro fuel
  induction fuel with
  | zero => intro name s; unfold insertOrdered; exact Ext.refl s
  | succ fuel ih =>
    intro name s
    rw [insertOrdered_succ]
    split
    · exact Ext.refl s
    · rename_i hns
      have hr := insertMid_ext g autoAdd fuel ih name { s with orderedSet := name :: s.orderedSet }
      obtain ⟨n, ho, hn, hd, hs⟩ := hr
      simp only at ho hd hs
      refine ⟨n ++ [name], by simp [ho], ?_, ?_, ?_⟩
      · refine List.nodup_append.2 ⟨hn, by simp, ?_⟩
        intro x hx y hy hxy
        simp only [List.mem_singleton] at hy
        subst hy; subst hxy
        exact hd x hx (List.mem_cons_self ..)
      · intro x hx
        rcases List.mem_append.1 hx with hx | hx
        · intro hxs; exact hd x hx (List.mem_cons_of_mem _ hxs)
        · simp only [List.mem_singleton] at hx; subst hx; exact hns
      · intro x
        simp only [hs, List.mem_cons, List.mem_append, List.not_mem_nil, or_false]
        constructor
        · rintro ((h | h) | h)
          · exact Or.inr (Or.inr h)
          · exact Or.inl h
          · exact Or.inr (Or.inl h)
        · rintro (h | h | h)
          · exact Or.inl (Or.inr h)
          · exact Or.inr h
          · exact Or.inl (Or.inl h)

/-- with at least one unit of fuel the inserted name is in the set afterwards -/
theorem insert_mem (g : List ModelDeps) (autoAdd : Bool) (fuel : Nat) (name : Str) (s : RState) :
    name ∈ (insertOrdered g autoAdd (fuel + 1) name s).orderedSet := by
  rw [insertOrdered_succ]
  split
  · assumption
  · exact (insertMid_ext g autoAdd fuel (insert_ext g autoAdd fuel) name
      { s with orderedSet := name :: s.orderedSet }).mono name (List.mem_cons_self ..)

/-- top level invariant of the second phase -/
def TopInv (s : RState) : Prop := s.ordered.Nodup ∧ ∀ x, x ∈ s.orderedSet ↔ x ∈ s.ordered

theorem TopInv.ext {s r : RState} (h : TopInv s) (he : Ext s r) : TopInv r := by
  obtain ⟨n, ho, hn, hd, hs⟩ := he
  refine ⟨?_, ?_⟩
  · rw [ho]
    refine List.nodup_append.2 ⟨h.1, hn, ?_⟩
    intro x hx y hy hxy
    subst hxy
    exact hd x hy ((h.2 x).2 hx)
  · intro x; rw [hs, ho, List.mem_append, h.2]

/-- state after the first phase -/
def phase1 (g : List ModelDeps) (values : List Str) (autoAdd : Bool) : RState :=
  values.foldl (fun s v => parseDependence g autoAdd (g.length + 1) v true s)
    { parsed := [], values := [], names := [], ordered := [], orderedSet := [] }

/-- state after the second phase -/
def phase2 (g : List ModelDeps) (values : List Str) (autoAdd : Bool) : RState :=
  (phase1 g values autoAdd).names.foldl (fun s n => insertOrdered g autoAdd (g.length + 1) n s)
    (phase1 g values autoAdd)

theorem reorderModels_eq (g : List ModelDeps) (values : List Str) (autoAdd : Bool) :
    reorderModels g values autoAdd = (phase2 g values autoAdd).ordered := rfl

theorem phase1_ordered (g : List ModelDeps) (values : List Str) (autoAdd : Bool) :
    (phase1 g values autoAdd).ordered = [] ∧ (phase1 g values autoAdd).orderedSet = [] := by
  unfold phase1
  apply foldl_inv _ (fun s : RState => s.ordered = [] ∧ s.orderedSet = [])
  · intro b hb v _
    have := parse_prel g autoAdd (g.length + 1) v true b (Or.inl rfl)
    exact ⟨this.ordered_eq.trans hb.1, this.orderedSet_eq.trans hb.2⟩
  · exact ⟨rfl, rfl⟩

theorem phase1_topInv (g : List ModelDeps) (values : List Str) (autoAdd : Bool) : TopInv (phase1 g values autoAdd) := by
  have := phase1_ordered g values autoAdd
  refine ⟨by rw [this.1]; exact List.nodup_nil, ?_⟩
  intro x; rw [this.1, this.2]

theorem phase2_topInv (g : List ModelDeps) (values : List Str) (autoAdd : Bool) : TopInv (phase2 g values autoAdd) := by
  unfold phase2
  apply foldl_inv _ TopInv
  · intro b hb n _
    exact hb.ext (insert_ext g autoAdd _ n b)
  · exact phase1_topInv g values autoAdd

/-- T1: every model is listed at most once -/
theorem reorder_nodup : ∀ g values autoAdd, (reorderModels g values autoAdd).Nodup := by
  intro g values autoAdd
  rw [reorderModels_eq]
  exact (phase2_topInv g values autoAdd).1

/-! ### T2 -/

theorem phase1_names_of (g : List ModelDeps) (values : List Str) (autoAdd : Bool)
    (hp : ∀ t (s : RState), (∀ x ∈ s.parsed, x ∈ s.names) →
      ∀ x ∈ (parseDependence g autoAdd (g.length + 1) t true s).parsed,
        x ∈ (parseDependence g autoAdd (g.length + 1) t true s).names) :
    ∀ v ∈ values, v ∈ tablesOf g → v ∈ (phase1 g values autoAdd).names := by
  unfold phase1
  refine (foldl_inv_mem _ (fun s : RState => ∀ x ∈ s.parsed, x ∈ s.names)
    (fun v (s : RState) => v ∈ tablesOf g → v ∈ s.names) values ?_ ?_ _ ?_).2
  · intro b hb v _
    have hp := hp v b hb
    refine ⟨hp, ?_⟩
    intro hv
    obtain ⟨d, hd⟩ := findDeps_of_mem hv
    exact hp v (parse_parsed g autoAdd g.length v true b hd)
  · intro b _ v _ v' hq hv'
    exact (parse_prel g autoAdd (g.length + 1) v true b (Or.inl rfl)).names_mono v' (hq hv')
  · intro x hx; cases hx

theorem phase1_names (g : List ModelDeps) (values : List Str) :
    ∀ v ∈ values, v ∈ tablesOf g → v ∈ (phase1 g values true).names :=
  phase1_names_of g values true (fun t s h => parse_names_true g (g.length + 1) t s h)

/-- without many2many join tables every parsed model is put on the list of model names, whatever `autoAdd` is -/
theorem parse_names_nojoin (g : List ModelDeps) (autoAdd : Bool) (hj : ∀ m ∈ g, m.joins = []) (fuel : Nat) (t : Str)
    (s : RState) (h : ∀ x ∈ s.parsed, x ∈ s.names) :
    ∀ x ∈ (parseDependence g autoAdd fuel t true s).parsed, x ∈ (parseDependence g autoAdd fuel t true s).names := by
  cases fuel with
  | zero => unfold parseDependence; exact h
  | succ fuel =>
    unfold parseDependence
    split
    · exact h
    · split
      · exact h
      · rename_i d hd
        have hdj : d.joins = [] := hj d (List.mem_of_find?_eq_some hd)
        simp only [hdj, List.foldl_nil, if_true]
        intro x hx
        rcases List.mem_cons.1 hx with rfl | hx
        · simp
        · simp [h x hx]

theorem phase2_mem (g : List ModelDeps) (values : List Str) (autoAdd : Bool) :
    ∀ n ∈ (phase1 g values autoAdd).names, n ∈ (phase2 g values autoAdd).ordered := by
  intro n hn
  have h := foldl_inv_mem (fun s n => insertOrdered g autoAdd (g.length + 1) n s) TopInv
    (fun n (s : RState) => n ∈ s.orderedSet) (phase1 g values autoAdd).names
    (fun b hb n _ => ⟨hb.ext (insert_ext g autoAdd _ n b), insert_mem g autoAdd g.length n b⟩)
    (fun b _ n _ n' hq => (insert_ext g autoAdd _ n b).mono n' hq)
    (phase1 g values autoAdd) (phase1_topInv g values autoAdd)
  exact (h.1.2 n).1 (h.2 n hn)

/-- T2: with `autoAdd = true` (AutoMigrate) every requested model of the graph is in the result -/
theorem reorder_complete : ∀ g values, ∀ v ∈ values, v ∈ tablesOf g → v ∈ reorderModels g values true := by
  intro g values v hv hvg
  rw [reorderModels_eq]
  exact phase2_mem g values true v (phase1_names g values v hv hvg)

/-- T2 for every `autoAdd`, for graphs without many2many join tables -/
theorem reorder_complete_nojoin : ∀ g values autoAdd, (∀ m ∈ g, m.joins = []) →
    ∀ v ∈ values, v ∈ tablesOf g → v ∈ reorderModels g values autoAdd := by
  intro g values autoAdd hj v hv hvg
  rw [reorderModels_eq]
  exact phase2_mem g values autoAdd v
    (phase1_names_of g values autoAdd (fun t s h => parse_names_nojoin g autoAdd hj _ t s h) v hv hvg)

/-! ### T3: dependencies come first -/

/-- ordering property of the list built so far, relative to the ghost call stack `st`: every dependency of a listed
    model is listed or still on the stack, and it is listed earlier unless it transitively depends on the model -/
def Good (g : List ModelDeps) (l st : List Str) : Prop :=
  ∀ n ∈ l, ∀ d ∈ depsOf g n,
    (d ∈ l ∨ d ∈ st) ∧ ((d ∈ l ∧ List.idxOf d l < List.idxOf n l) ∨ Reach g d n)

/-- invariant of `insertOrdered` relative to the ghost call stack `st` (names in the set but not yet in the list) -/
structure OInv (g : List ModelDeps) (s : RState) (st : List Str) : Prop where
  nodup : s.ordered.Nodup
  set_iff : ∀ x, x ∈ s.orderedSet ↔ x ∈ s.ordered ∨ x ∈ st
  disj : ∀ x ∈ st, x ∉ s.ordered
  good : Good g s.ordered st
  pv : ∀ x ∈ s.parsed, x ∈ s.values

theorem OInv.push {g : List ModelDeps} {s : RState} {st : List Str} (h : OInv g s st) (name : Str)
    (hn : name ∉ s.orderedSet) : OInv g { s with orderedSet := name :: s.orderedSet } (name :: st) := by
  refine ⟨h.nodup, ?_, ?_, ?_, h.pv⟩
  · intro x
    simp only [List.mem_cons, h.set_iff]
    constructor
    · rintro (h | h | h)
      · exact Or.inr (Or.inl h)
      · exact Or.inl h
      · exact Or.inr (Or.inr h)
    · rintro (h | h | h)
      · exact Or.inr (Or.inl h)
      · exact Or.inl h
      · exact Or.inr (Or.inr h)
  · intro x hx
    rcases List.mem_cons.1 hx with rfl | hx
    · intro hxo; exact hn ((h.set_iff x).2 (Or.inl hxo))
    · exact h.disj x hx
  · intro n hnl d hd
    obtain ⟨h1, h2⟩ := h.good n hnl d hd
    exact ⟨h1.imp id (List.mem_cons_of_mem _), h2⟩

theorem OInv.parse {g : List ModelDeps} {s r : RState} {st : List Str} (h : OInv g s st) (hr : PRel s r) :
    OInv g r st := by
  refine ⟨by rw [hr.ordered_eq]; exact h.nodup, ?_, ?_, ?_, hr.pv h.pv⟩
  · intro x; rw [hr.ordered_eq, hr.orderedSet_eq]; exact h.set_iff x
  · rw [hr.ordered_eq]; exact h.disj
  · rw [hr.ordered_eq]; exact h.good

theorem OInv.pop {g : List ModelDeps} {r : RState} {st : List Str} {n : Str} (h : OInv g r (n :: st))
    (hnd : (n :: st).Nodup) (hchain : ∀ x ∈ st, Reach g x n) (hdeps : ∀ d ∈ depsOf g n, d ∈ r.orderedSet) :
    OInv g { r with ordered := r.ordered ++ [n] } st := by
  have hnl : n ∉ r.ordered := h.disj n (List.mem_cons_self ..)
  have hnd' := List.nodup_cons.1 hnd
  refine ⟨?_, ?_, ?_, ?_, h.pv⟩
  · refine List.nodup_append.2 ⟨h.nodup, by simp, ?_⟩
    intro x hx y hy hxy
    simp only [List.mem_singleton] at hy
    subst hy; subst hxy
    exact hnl hx
  · intro x
    simp only [h.set_iff, List.mem_cons, List.mem_append, List.not_mem_nil, or_false, or_assoc]
  · intro x hx hxo
    simp only [List.mem_append, List.mem_cons, List.not_mem_nil, or_false] at hxo
    rcases hxo with hxo | rfl
    · exact h.disj x (List.mem_cons_of_mem _ hx) hxo
    · exact hnd'.1 hx
  · intro m hm d hd
    simp only [List.mem_append, List.mem_cons, List.not_mem_nil, or_false] at hm
    rcases hm with hm | rfl
    · obtain ⟨h1, h2⟩ := h.good m hm d hd
      refine ⟨?_, ?_⟩
      · rcases h1 with h1 | h1
        · exact Or.inl (List.mem_append_left _ h1)
        · rcases List.mem_cons.1 h1 with rfl | h1
          · exact Or.inl (List.mem_append_right _ (List.mem_cons_self ..))
          · exact Or.inr h1
      · rcases h2 with ⟨hdl, hlt⟩ | h2
        · refine Or.inl ⟨List.mem_append_left _ hdl, ?_⟩
          rw [List.idxOf_append, List.idxOf_append, if_pos hdl, if_pos hm]
          exact hlt
        · exact Or.inr h2
    · have hdo := (h.set_iff d).1 (hdeps d hd)
      rcases hdo with hdl | hdst
      · refine ⟨Or.inl (List.mem_append_left _ hdl), Or.inl ⟨List.mem_append_left _ hdl, ?_⟩⟩
        rw [List.idxOf_append, List.idxOf_append, if_pos hdl, if_neg hnl]
        have := List.idxOf_lt_length_iff.2 hdl
        omega
      · rcases List.mem_cons.1 hdst with rfl | hdst
        · exact ⟨Or.inl (List.mem_append_right _ (List.mem_cons_self ..)), Or.inr (Reach.step hd)⟩
        · exact ⟨Or.inr hdst, Or.inr (hchain d hdst)⟩

theorem insertMid_none {g : List ModelDeps} {fuel : Nat} {name : Str} {s : RState} (h : findDeps g name = none) :
    insertMid g true fuel name s = s := by
  unfold insertMid; simp [h]

theorem insertMid_some {g : List ModelDeps} {fuel : Nat} {name : Str} {s : RState} {d : ModelDeps}
    (h : findDeps g name = some d) (hv : name ∈ s.values) :
    insertMid g true fuel name s = d.depends.foldl (fun s dep =>
      insertOrdered g true fuel dep
        (if dep ∈ s.values then s else parseDependence g true (g.length + 1) dep true s)) s := by
  unfold insertMid; rw [if_pos rfl]; simp only [h]; rw [if_pos hv]

/-- main lemma: relative to a ghost stack that is a duplicate-free dependency chain of graph tables ending in
    `name`, and with enough fuel left for the rest of the graph, `insertOrdered` keeps the invariant and really
    inserts `name` -/
theorem insert_oinv (g : List ModelDeps) : ∀ fuel name s st, st.Nodup → (∀ x ∈ st, x ∈ tablesOf g) →
    (∀ x ∈ st, Reach g x name) → g.length + 1 ≤ fuel + st.length → OInv g s st →
    (∀ d, findDeps g name = some d → name ∈ s.values) →
    OInv g (insertOrdered g true fuel name s) st ∧ name ∈ (insertOrdered g true fuel name s).orderedSet := by
  intro fuel
  induction fuel with
  | zero =>
    intro name s st hnd htab _ hfuel _ _
    have := nodup_length_le st (tablesOf g) hnd htab
    simp only [tablesOf, List.length_map] at this
    omega
  | succ fuel ih =>
    intro name s st hnd htab hchain hfuel hinv hval
    rw [insertOrdered_succ]
    split
    · rename_i hns; exact ⟨hinv, hns⟩
    · rename_i hns
      have hnst : name ∉ st := fun h => hns ((hinv.set_iff name).2 (Or.inr h))
      have hnd' : (name :: st).Nodup := List.nodup_cons.2 ⟨hnst, hnd⟩
      have hpush := hinv.push name hns
      have hmono := (insertMid_ext g true fuel (insert_ext g true fuel) name
        { s with orderedSet := name :: s.orderedSet }).mono name (List.mem_cons_self ..)
      refine ⟨?_, hmono⟩
      suffices hmid : OInv g (insertMid g true fuel name { s with orderedSet := name :: s.orderedSet }) (name :: st) ∧
          ∀ d ∈ depsOf g name, d ∈ (insertMid g true fuel name { s with orderedSet := name :: s.orderedSet }).orderedSet from
        hmid.1.pop hnd' hchain hmid.2
      cases hfd : findDeps g name with
      | none =>
        rw [insertMid_none hfd, depsOf_none hfd]
        exact ⟨hpush, fun d hd => by cases hd⟩
      | some md =>
        have hv : name ∈ ({ s with orderedSet := name :: s.orderedSet } : RState).values := hval md hfd
        rw [insertMid_some hfd hv, depsOf_some hfd]
        have htab' : ∀ x ∈ name :: st, x ∈ tablesOf g := by
          intro x hx
          rcases List.mem_cons.1 hx with rfl | hx
          · exact findDeps_some_mem hfd
          · exact htab x hx
        refine foldl_inv_mem _ (fun b => OInv g b (name :: st)) (fun dep (b : RState) => dep ∈ b.orderedSet)
          md.depends ?_ ?_ _ hpush
        · intro b hb dep hdep
          have hdep' : dep ∈ depsOf g name := by rw [depsOf_some hfd]; exact hdep
          have hb' : OInv g (if dep ∈ b.values then b else parseDependence g true (g.length + 1) dep true b) (name :: st) ∧
              ∀ d', findDeps g dep = some d' →
                dep ∈ (if dep ∈ b.values then b else parseDependence g true (g.length + 1) dep true b).values := by
            split
            · rename_i hdv; exact ⟨hb, fun _ _ => hdv⟩
            · have hp := parse_prel g true (g.length + 1) dep true b (Or.inl rfl)
              refine ⟨hb.parse hp, ?_⟩
              intro d' hd'
              exact hp.pv hb.pv dep (parse_parsed g true g.length dep true b hd')
          refine ih dep _ (name :: st) hnd' htab' ?_ ?_ hb'.1 hb'.2
          · intro x hx
            rcases List.mem_cons.1 hx with rfl | hx
            · exact Reach.step hdep'
            · exact (hchain x hx).snoc hdep'
          · simp only [List.length_cons]; omega
        · intro b _ dep _ dep' hq
          refine (insert_ext g true fuel dep _).mono dep' ?_
          split
          · exact hq
          · rw [(parse_prel g true (g.length + 1) dep true b (Or.inl rfl)).orderedSet_eq]; exact hq

theorem insert_values_mono (g : List ModelDeps) (autoAdd : Bool) : ∀ fuel name s, ∀ x ∈ s.values,
    x ∈ (insertOrdered g autoAdd fuel name s).values := by
  intro fuel
  induction fuel with
  | zero => intro name s x hx; unfold insertOrdered; exact hx
  | succ fuel ih =>
    intro name s x hx
    rw [insertOrdered_succ]
    split
    · exact hx
    · simp only
      unfold insertMid
      split
      · split
        · exact hx
        · split
          · refine foldl_rel _ (fun s r : RState => ∀ x ∈ s.values, x ∈ r.values) (fun _ _ h => h)
              (fun h1 h2 x hx => h2 x (h1 x hx)) _ ?_ _ x hx
            intro b dep _ y hy
            apply ih
            split
            · exact hy
            · exact (parse_prel g autoAdd (g.length + 1) dep autoAdd b (Or.inr rfl)).values_mono y hy
          · exact hx
      · exact hx

theorem phase1_pv (g : List ModelDeps) (values : List Str) (autoAdd : Bool) :
    (∀ x ∈ (phase1 g values autoAdd).parsed, x ∈ (phase1 g values autoAdd).values) ∧
    ∀ x ∈ (phase1 g values autoAdd).names, x ∈ (phase1 g values autoAdd).values := by
  unfold phase1
  apply foldl_inv _ (fun s : RState => (∀ x ∈ s.parsed, x ∈ s.values) ∧ ∀ x ∈ s.names, x ∈ s.values)
  · intro b hb v _
    exact parse_rel (g := g) (autoAdd := autoAdd)
      (fun s r : RState => ((∀ x ∈ s.parsed, x ∈ s.values) ∧ ∀ x ∈ s.names, x ∈ s.values) →
        ((∀ x ∈ r.parsed, x ∈ r.values) ∧ ∀ x ∈ r.names, x ∈ r.values))
      (fun _ h => h) (fun h1 h2 h => h2 (h1 h))
      (by
        intro s t _ b _ _ _ h
        refine ⟨(PRel.step s t b).pv h.1, ?_⟩
        intro x hx
        have hmono := (PRel.step s t b).values_mono
        have ht : t ∈ (parseStep s t b).values := by
          unfold parseStep; simp only; split
          · assumption
          · exact List.mem_cons_self ..
        unfold parseStep at hx; simp only at hx
        cases b with
        | false => exact hmono x (h.2 x (by simpa using hx))
        | true =>
          simp only [if_true, List.mem_append, List.mem_cons, List.not_mem_nil, or_false] at hx
          rcases hx with hx | rfl
          · exact hmono x (h.2 x hx)
          · exact ht)
      (g.length + 1) v true b (Or.inl rfl) hb
  · exact ⟨fun x hx => (by cases hx), fun x hx => (by cases hx)⟩

theorem phase2_oinv (g : List ModelDeps) (values : List Str) : OInv g (phase2 g values true) [] := by
  have h1 := phase1_ordered g values true
  have h2 := phase1_pv g values true
  -- besides the invariant, `names ⊆ values` of the first phase is kept (values only grow)
  have := foldl_inv (fun s n => insertOrdered g true (g.length + 1) n s)
    (fun s : RState => OInv g s [] ∧ ∀ x ∈ (phase1 g values true).names, x ∈ s.values)
    (phase1 g values true).names
    (by
      intro b hb n hn
      have hr := insert_oinv g (g.length + 1) n b [] List.nodup_nil (fun x hx => by cases hx)
        (fun x hx => by cases hx) (by simp) hb.1 (fun _ _ => hb.2 n hn)
      refine ⟨hr.1, ?_⟩
      intro x hx
      exact insert_values_mono g true _ n b x (hb.2 x hx))
    (phase1 g values true)
    ⟨⟨(by rw [h1.1]; exact List.nodup_nil), (by intro x; rw [h1.1, h1.2]; simp), (fun x hx => (by cases hx)),
      (by rw [h1.1]; intro n hn; cases hn), h2.1⟩, h2.2⟩
  exact this.1

/-- T3: with `autoAdd = true` every dependency of a listed model is listed too and comes before it, unless the
    dependency transitively depends on the model (a dependency cycle) -/
theorem reorder_deps_first (g : List ModelDeps) (values : List Str) :
    ∀ n ∈ reorderModels g values true, ∀ d ∈ depsOf g n,
      d ∈ reorderModels g values true ∧
      (List.idxOf d (reorderModels g values true) < List.idxOf n (reorderModels g values true) ∨ Reach g d n) := by
  intro n hn d hd
  rw [reorderModels_eq] at hn ⊢
  obtain ⟨h1, h2⟩ := (phase2_oinv g values).good n hn d hd
  refine ⟨?_, ?_⟩
  · rcases h1 with h1 | h1
    · exact h1
    · cases h1
  · rcases h2 with ⟨_, h2⟩ | h2
    · exact Or.inl h2
    · exact Or.inr h2

/-! ### non-vacuity: chain a → b → c, cycle e ↔ f, isolated x -/

def exGraph : List ModelDeps :=
  [ { table := ['a'], depends := [['b']], joins := [] },
    { table := ['b'], depends := [['c']], joins := [] },
    { table := ['c'], depends := [], joins := [] },
    { table := ['e'], depends := [['f']], joins := [] },
    { table := ['f'], depends := [['e']], joins := [] },
    { table := ['x'], depends := [], joins := [] } ]

/-- `a` pulls in `b` and `c` (auto-added, dependencies first); the cycle `e ↔ f` is broken at `e` -/
example : reorderModels exGraph [['a'], ['e'], ['x']] true = [['c'], ['b'], ['a'], ['f'], ['e'], ['x']] := by decide

/-- requesting in the "wrong" order still yields dependencies first -/
example : reorderModels exGraph [['c'], ['a'], ['b']] true = [['c'], ['b'], ['a']] := by decide

/-- without `autoAdd` the dependency walk is skipped altogether (it sits under `if autoAdd`): nothing is pulled in
    and the request order is kept, so T3 really needs `autoAdd = true` -/
example : reorderModels exGraph [['a'], ['c'], ['b']] false = [['a'], ['c'], ['b']] := by decide

end Gorm.Mig
