/-
  Values pass through gorm's transaction API unchanged (Model/Tx.lean):
    * the result of a block after a function that did not return nil IS the function's result (error value or panic
      payload), whatever the deferred ROLLBACK / ROLLBACK TO does;
    * a panic result always comes from a `panic` outcome of the program itself (mutual induction over program trees);
    * what the top-level branch returns after a function that returned nil is the value of COMMIT.
-/
import GormModel.Lemmas.Tx
import GormModel.Lemmas.TxRefine
namespace Gorm.Tx

theorem resOf_ne_panic (e : Err) (p : Nat) : resOf e ≠ .panic p := by
  unfold resOf; split <;> simp

/-- a panic at the end of the user function is the panic of a `must` child or the block's own `panic` outcome -/
theorem fnEnd_panic (h : Handle) (r : Res) (out : Out) (tag : Nat) (db : DB) (p : Nat)
    (hf : (fnEnd h r out tag db).2 = .panic p) : r = .panic p ∨ (r = .ok ∧ out = .panic ∧ tag = p) := by
  cases r <;> cases out <;> simp_all [fnEnd, outRes]

/-! ### a function result other than nil is handed through unchanged -/

theorem finishRoot_res_fail (o : Oracle) (h : Handle) (out : Out) (tag : Nat) (db : DB) (tx : Handle) (r : Res)
    (hne : (fnEnd tx r out tag db).2 ≠ .ok) :
    (finishRoot o h out tag (db, tx, r)).2.2 = (fnEnd tx r out tag db).2 := by
  unfold finishRoot
  dsimp only
  generalize fnEnd tx r out tag db = fe at hne
  obtain ⟨db1, r1⟩ := fe
  cases r1 with
  | ok => exact absurd rfl hne
  | err e => rfl
  | panic t => rfl

theorem finishNested_res_fail (o : Oracle) (h1 : Handle) (name : SpName) (out : Out) (tag : Nat) (db : DB) (tx : Handle)
    (r : Res) (hne : (fnEnd tx r out tag db).2 ≠ .ok) :
    (finishNested o h1 name out tag (db, tx, r)).2.2 = (fnEnd tx r out tag db).2 := by
  rw [finishNested_fail o h1 name out tag db tx r hne]

theorem finishDis_res (h : Handle) (out : Out) (tag : Nat) (db : DB) (tx : Handle) (r : Res) :
    (finishDis h out tag (db, tx, r)).2.2 = (fnEnd tx r out tag db).2 := rfl

theorem finishMan_res_fail (o : Oracle) (h : Handle) (fin : Fin) (db : DB) (tx : Handle) (r : Res) (hne : r ≠ .ok) :
    (finishMan o h fin (db, tx, r)).2.2 = r := by
  unfold finishMan
  cases r with
  | ok => exact absurd rfl hne
  | err e => rfl
  | panic t => rfl

/-- after a function that returned nil the top-level branch returns nil or an error — never a panic -/
theorem finishRoot_res_ok (o : Oracle) (h : Handle) (out : Out) (tag : Nat) (db : DB) (tx : Handle) (r : Res)
    (hok : (fnEnd tx r out tag db).2 = .ok) :
    (finishRoot o h out tag (db, tx, r)).2.2 =
      if (gormCommit o tx (fnEnd tx r out tag db).1).2.err ≠ [] then .err (gormCommit o tx (fnEnd tx r out tag db).1).2.err
      else .ok := by
  unfold finishRoot
  dsimp only
  generalize fnEnd tx r out tag db = fe at hok
  obtain ⟨db1, r1⟩ := fe
  dsimp only at hok ⊢
  subst hok
  dsimp only
  split <;> rfl

theorem finishRoot_eq_ok (o : Oracle) (h : Handle) (out : Out) (tag : Nat) (db : DB) (tx : Handle) (r : Res)
    (hok : (fnEnd tx r out tag db).2 = .ok) :
    finishRoot o h out tag (db, tx, r) =
      if (gormCommit o tx (fnEnd tx r out tag db).1).2.err ≠ [] then
        ((gormRollback (gormCommit o tx (fnEnd tx r out tag db).1).2 (gormCommit o tx (fnEnd tx r out tag db).1).1).1, h,
          .err (gormCommit o tx (fnEnd tx r out tag db).1).2.err)
      else ((gormCommit o tx (fnEnd tx r out tag db).1).1, h, .ok) := by
  unfold finishRoot
  dsimp only
  generalize fnEnd tx r out tag db = fe at hok
  obtain ⟨db1, r1⟩ := fe
  dsimp only at hok ⊢
  subst hok
  rfl

/-! ### no panic is invented -/

theorem finishRoot_panic (o : Oracle) (h : Handle) (out : Out) (tag : Nat) (x : DB × Handle × Res) (p : Nat)
    (hp : (finishRoot o h out tag x).2.2 = .panic p) : (fnEnd x.2.1 x.2.2 out tag x.1).2 = .panic p := by
  obtain ⟨db, tx, r⟩ := x
  dsimp only
  by_cases hok : (fnEnd tx r out tag db).2 = .ok
  · rw [finishRoot_res_ok o h out tag db tx r hok] at hp
    split at hp <;> simp at hp
  · rw [finishRoot_res_fail o h out tag db tx r hok] at hp
    exact hp

theorem finishNested_panic (o : Oracle) (h1 : Handle) (name : SpName) (out : Out) (tag : Nat) (x : DB × Handle × Res) (p : Nat)
    (hp : (finishNested o h1 name out tag x).2.2 = .panic p) : (fnEnd x.2.1 x.2.2 out tag x.1).2 = .panic p := by
  obtain ⟨db, tx, r⟩ := x
  dsimp only
  by_cases hok : (fnEnd tx r out tag db).2 = .ok
  · rw [finishNested_ok o h1 name out tag db tx r hok] at hp
    simp at hp
  · rw [finishNested_res_fail o h1 name out tag db tx r hok] at hp
    exact hp

theorem finishDis_panic (h : Handle) (out : Out) (tag : Nat) (x : DB × Handle × Res) (p : Nat)
    (hp : (finishDis h out tag x).2.2 = .panic p) : (fnEnd x.2.1 x.2.2 out tag x.1).2 = .panic p := hp

theorem finishMan_panic (o : Oracle) (h : Handle) (fin : Fin) (x : DB × Handle × Res) (p : Nat)
    (hp : (finishMan o h fin x).2.2 = .panic p) : x.2.2 = .panic p := by
  obtain ⟨db, tx, r⟩ := x
  dsimp only
  cases r with
  | ok =>
    exfalso
    unfold finishMan at hp
    dsimp only at hp
    split at hp <;> exact resOf_ne_panic _ _ hp
  | err e => rw [finishMan_res_fail o h fin db tx _ (by simp)] at hp; exact hp
  | panic t => rw [finishMan_res_fail o h fin db tx _ (by simp)] at hp; exact hp

theorem blk_panic_mem (body : List Prog) (out : Out) (tag q : Nat) (x : DB × Handle × Res)
    (hf : (fnEnd x.2.1 x.2.2 out tag x.1).2 = .panic q) (ih : x.2.2 = .panic q → q ∈ panicTagsBody body) :
    q ∈ (if out = .panic then [tag] else []) ++ panicTagsBody body := by
  rcases fnEnd_panic _ _ _ _ _ _ hf with h | ⟨_, h2, h3⟩
  · exact List.mem_append_right _ (ih h)
  · subst h2 h3; simp

/- a program that ends in a panic ends with the payload of one of its own `panic` outcomes: a `.panic p` result comes from
   `outRes .panic tag` of some block or from a child; the finishers never produce a panic that was not in their input;
   `resOf` (statements, SavePoint, RollbackTo, Rollback) never produces one -/
mutual
theorem runChild_panic (c : Cfg) (o : Oracle) : ∀ (p : Prog) (h : Handle) (db : DB) (q : Nat),
    (runChild c o h p db).2.2 = .panic q → q ∈ panicTagsChild p
  | .write w m, h, db, q, hr => by
    unfold runChild at hr; exact absurd hr (resOf_ne_panic _ _)
  | .read m, h, db, q, hr => by
    unfold runChild at hr; exact absurd hr (resOf_ne_panic _ _)
  | .sp n m, h, db, q, hr => by
    unfold runChild at hr; exact absurd hr (resOf_ne_panic _ _)
  | .rb n m, h, db, q, hr => by
    unfold runChild at hr; exact absurd hr (resOf_ne_panic _ _)
  | .endtx m, h, db, q, hr => by
    unfold runChild at hr; exact absurd hr (resOf_ne_panic _ _)
  | .blk body out tag m, h, db, q, hr => by
    rw [panicTagsChild]
    by_cases hp : h.pool.isCommitter = true
    · cases hd : (c.dis || h.dis)
      · rw [runChild_blk_nested c o h body out tag m db hp hd] at hr
        split at hr
        · simp at hr
        · exact blk_panic_mem body out tag q _ (finishNested_panic o _ _ out tag _ q hr) (runBody_panic c o body _ _ q)
      · rw [runChild_blk_dis c o h body out tag m db hp hd] at hr
        exact blk_panic_mem body out tag q _ (finishDis_panic h out tag _ q hr) (runBody_panic c o body _ _ q)
    · rw [runChild_blk_top c o h body out tag m db (by simpa using hp)] at hr
      split at hr
      · simp at hr
      · exact blk_panic_mem body out tag q _ (finishRoot_panic o h out tag _ q hr) (runBody_panic c o body _ _ q)
  | .man body fin m, h, db, q, hr => by
    rw [panicTagsChild]
    rw [runChild_man_eq c o h body fin m db] at hr
    split at hr
    · simp at hr
    · exact runBody_panic c o body _ _ q (finishMan_panic o h fin _ q hr)
  | .dv k body m, h, db, q, hr => by
    rw [panicTagsChild]
    unfold runChild at hr
    exact runBody_panic c o body (derive k h) (markStale h db) q hr
  | .fh src body m, h, db, q, hr => by
    rw [panicTagsChild]
    unfold runChild at hr
    exact runBody_panic c o body (failH o src h (markStale h db)).2 (failH o src h (markStale h db)).1 q hr
theorem runBody_panic (c : Cfg) (o : Oracle) : ∀ (ps : List Prog) (h : Handle) (db : DB) (q : Nat),
    (runBody c o h ps db).2.2 = .panic q → q ∈ panicTagsBody ps
  | [], h, db, q, hr => by
    unfold runBody at hr; simp at hr
  | p :: ps, h, db, q, hr => by
    rw [panicTagsBody]
    rw [runBody_cons] at hr
    split at hr
    · exact List.mem_append_left _ (runChild_panic c o p h db q hr)
    · exact List.mem_append_right _ (runBody_panic c o ps _ _ q hr)
end

/-! ### the value of COMMIT is what the top-level branch returns -/

theorem addError_nil_left (e : Err) : addError [] e = e := by
  unfold addError; split
  · rename_i h; exact h.symm
  · rfl

theorem gormRollback_tx_none (h : Handle) (db : DB) (hd : db.tx = none) : (gormRollback h db).1.tx = none := by
  rw [gormRollback_closed h db hd]; exact hd

theorem drvCommit_closed (o : Oracle) (db : DB) (hd : db.tx = none) : drvCommit o db = (db, [.txDone]) := by
  unfold drvCommit; rw [hd]

end Gorm.Tx
