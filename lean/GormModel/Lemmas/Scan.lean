/-
  Helper lemmas for C03 (Model.Scan): integer wrap, back-fill loops, rowid model, batch slicing.
-/
import GormModel.Model.Scan
namespace Gorm.Scan

/-! ### integer wrap -/

theorem wrapS_id (w : W) (n : Int) (h1 : -w.half ≤ n) (h2 : n < w.half) : wrapS w n = n := by
  cases w <;> simp only [wrapS, W.half, W.pow] at * <;> omega

theorem wrapU_id (w : W) (n : Int) (h1 : 0 ≤ n) (h2 : n < w.pow) : wrapU w n = n := by
  cases w <;> simp only [wrapU, W.pow] at * <;> omega

theorem wrapS_range (w : W) (x : Int) : -w.half ≤ wrapS w x ∧ wrapS w x < w.half := by
  cases w <;> simp only [wrapS, W.half, W.pow] <;> omega

theorem wrapU_range (w : W) (x : Int) : 0 ≤ wrapU w x ∧ wrapU w x < w.pow := by
  cases w <;> simp only [wrapU, W.pow] <;> omega

theorem half_le_half64 (w : W) : w.half ≤ W.half .w64 := by
  cases w <;> simp [W.half]

/-! ### ascending / descending id runs -/

/-- `[s, s+1, …, s+n-1]` -/
def up : Int → Nat → List Int
  | _, 0 => []
  | s, n + 1 => s :: up (s + 1) n

/-- `[s, s-1, …, s-n+1]` -/
def down : Int → Nat → List Int
  | _, 0 => []
  | s, n + 1 => s :: down (s - 1) n

theorem up_length (s : Int) (n : Nat) : (up s n).length = n := by
  induction n generalizing s with
  | zero => rfl
  | succ n ih => simp [up, ih]

theorem up_snoc (s : Int) (n : Nat) : up s n ++ [s + n] = up s (n + 1) := by
  induction n generalizing s with
  | zero => simp [up]
  | succ n ih =>
    have := ih (s + 1)
    simp only [up, List.cons_append, List.cons.injEq, true_and]
    rw [show s + ((n : Nat) + 1 : Nat) = s + 1 + (n : Int) by omega]
    simpa [up] using this

theorem down_reverse (s : Int) (n : Nat) : (down s n).reverse = up (s - n + 1) n := by
  induction n generalizing s with
  | zero => simp [down, up]
  | succ n ih =>
    simp only [down, List.reverse_cons, ih]
    have h := up_snoc (s - 1 - n + 1) n
    rw [show s - 1 - (n : Int) + 1 + n = s by omega] at h
    rw [h]
    congr 1
    omega

theorem up_getLast (s : Int) (n : Nat) : (up s (n + 1)).getLast? = some (s + n) := by
  rw [← up_snoc]; simp

/-! ### the loops on all-zero / all-preset key lists -/

def AllZero (ks : List Key) : Prop := ∀ k ∈ ks, k = 0
def AllPreset (ks : List Key) : Prop := ∀ k ∈ ks, k ≠ 0
/-- the pattern of finding F9: the batch mixes zero-key and preset-key elements -/
def Mixed (ks : List Key) : Prop := (∃ k ∈ ks, k = 0) ∧ (∃ k ∈ ks, k ≠ 0)

instance (ks : List Key) : Decidable (AllZero ks) := by unfold AllZero; infer_instance
instance (ks : List Key) : Decidable (AllPreset ks) := by unfold AllPreset; infer_instance
instance (ks : List Key) : Decidable (Mixed ks) := by unfold Mixed; infer_instance

theorem not_mixed (ks : List Key) (h : ¬ Mixed ks) : AllZero ks ∨ AllPreset ks := by
  by_cases hz : ∃ k ∈ ks, k = 0
  · left
    intro k hk
    by_cases hk0 : k = 0
    · exact hk0
    · exact absurd ⟨hz, ⟨k, hk, hk0⟩⟩ h
  · right
    intro k hk hk0
    exact hz ⟨k, hk, hk0⟩

theorem backfillFwd_zero (ks : List Key) (id : Int) (h : AllZero ks) :
    backfillFwd 1 ks id = up id ks.length := by
  induction ks generalizing id with
  | nil => rfl
  | cons k ks ih =>
    have hk : k = 0 := h k (by simp)
    have hr : AllZero ks := fun x hx => h x (by simp [hx])
    simp [backfillFwd, hk, up, ih _ hr]

theorem backfillDown_zero (ks : List Key) (id : Int) (h : AllZero ks) :
    backfillDown 1 ks id = down id ks.length := by
  induction ks generalizing id with
  | nil => rfl
  | cons k ks ih =>
    have hk : k = 0 := h k (by simp)
    have hr : AllZero ks := fun x hx => h x (by simp [hx])
    simp [backfillDown, hk, down, ih _ hr]

theorem backfillRev_zero (ks : List Key) (id : Int) (h : AllZero ks) :
    backfillRev 1 ks id = up (id - ks.length + 1) ks.length := by
  have hr : AllZero ks.reverse := fun x hx => h x (by simpa using hx)
  unfold backfillRev
  rw [backfillDown_zero _ _ hr, down_reverse]
  simp

theorem backfillFwd_preset (inc : Int) (ks : List Key) (id : Int) (h : AllPreset ks) :
    backfillFwd inc ks id = ks := by
  induction ks generalizing id with
  | nil => rfl
  | cons k ks ih =>
    have hk : k ≠ 0 := h k (by simp)
    have hr : AllPreset ks := fun x hx => h x (by simp [hx])
    simp [backfillFwd, hk, ih _ hr]

theorem backfillDown_preset (inc : Int) (ks : List Key) (id : Int) (h : AllPreset ks) :
    backfillDown inc ks id = ks := by
  induction ks generalizing id with
  | nil => rfl
  | cons k ks ih =>
    have hk : k ≠ 0 := h k (by simp)
    have hr : AllPreset ks := fun x hx => h x (by simp [hx])
    simp [backfillDown, hk, ih _ hr]

theorem backfillRev_preset (inc : Int) (ks : List Key) (id : Int) (h : AllPreset ks) :
    backfillRev inc ks id = ks := by
  have hr : AllPreset ks.reverse := fun x hx => h x (by simpa using hx)
  unfold backfillRev
  rw [backfillDown_preset _ _ _ hr]; simp

/-! ### the rowid model -/

theorem dbInsert_length (m : Int) (ks : List Key) : (dbInsert m ks).1.length = ks.length := by
  induction ks generalizing m with
  | nil => rfl
  | cons k ks ih => simp [dbInsert, ih]

theorem dbInsert_mono (m : Int) (ks : List Key) : m ≤ (dbInsert m ks).2 := by
  induction ks generalizing m with
  | nil => simp [dbInsert]
  | cons k ks ih =>
    simp only [dbInsert]
    refine Int.le_trans ?_ (ih _)
    split <;> omega

theorem dbInsert_append (m : Int) (a b : List Key) :
    dbInsert m (a ++ b) = ((dbInsert m a).1 ++ (dbInsert (dbInsert m a).2 b).1, (dbInsert (dbInsert m a).2 b).2) := by
  induction a generalizing m with
  | nil => simp [dbInsert]
  | cons k a ih => simp [dbInsert, ih]

theorem dbInsert_zero (m : Int) (ks : List Key) (h : AllZero ks) :
    dbInsert m ks = (up (m + 1) ks.length, m + ks.length) := by
  induction ks generalizing m with
  | nil => simp [dbInsert, up]
  | cons k ks ih =>
    have hk : k = 0 := h k (by simp)
    have hr : AllZero ks := fun x hx => h x (by simp [hx])
    simp only [dbInsert, hk, if_true, ih _ hr, up, List.length_cons]
    have : m + 1 > m := by omega
    simp [this]
    omega

theorem dbInsert_preset (m : Int) (ks : List Key) (h : AllPreset ks) : (dbInsert m ks).1 = ks := by
  induction ks generalizing m with
  | nil => rfl
  | cons k ks ih =>
    have hk : k ≠ 0 := h k (by simp)
    have hr : AllPreset ks := fun x hx => h x (by simp [hx])
    simp [dbInsert, hk, ih _ hr]

/-! ### RETURNING scan -/

theorem scanUpdate_same_length (ks rows : List Key) (h : rows.length = ks.length) : scanUpdate ks rows = rows := by
  induction ks generalizing rows with
  | nil => cases rows <;> simp_all [scanUpdate]
  | cons k ks ih =>
    cases rows with
    | nil => simp at h
    | cons r rs => simp [scanUpdate, ih rs (by simpa using h)]

/-- element `i` receives row `i` -/
theorem scanUpdate_get (ks rows : List Key) (i : Nat) (h : i < rows.length) (h2 : i < ks.length) :
    (scanUpdate ks rows)[i]? = rows[i]? := by
  induction ks generalizing rows i with
  | nil => simp at h2
  | cons k ks ih =>
    cases rows with
    | nil => simp at h
    | cons r rs =>
      cases i with
      | zero => simp [scanUpdate]
      | succ i => simpa [scanUpdate] using ih rs i (by simpa using h) (by simpa using h2)

/-! ### one Create on a slice -/

theorem createSlice_returning (m : Int) (ks : List Key) :
    (createSlice true m ks).1 = (dbInsert m ks).1 ∧ (createSlice true m ks).2 = dbInsert m ks := by
  constructor
  · simp [createSlice, scanUpdate_same_length _ _ (dbInsert_length m ks)]
  · simp [createSlice]

theorem createSlice_lastid (m : Int) (ks : List Key) (hm : 0 ≤ m) (h : AllZero ks ∨ AllPreset ks) :
    (createSlice false m ks).1 = (dbInsert m ks).1 ∧ (createSlice false m ks).2 = dbInsert m ks := by
  refine ⟨?_, by simp [createSlice]⟩
  have e : (createSlice false m ks).1 =
      createBackfillSlice true true 1 ks ⟨(dbInsert m ks).1.length, lastRowId (dbInsert m ks).1⟩ := by
    simp [createSlice]
  rw [e]
  simp only [createBackfillSlice]
  rcases h with hz | hp
  · cases ks with
    | nil => simp [dbInsert, lastRowId]
    | cons k ks =>
      rw [dbInsert_zero m _ hz]
      have hlen : (k :: ks).length = ks.length + 1 := rfl
      simp only [up_length, hlen, lastRowId, up_getLast]
      have h1 : ¬ (((ks.length + 1 : Nat) : Int) = 0) := by omega
      have h2 : ¬ (m + 1 + (ks.length : Int) ≤ 0) := by omega
      simp only [h1, h2, if_false]
      rw [← hlen, backfillRev_zero _ _ hz]
      simp only [hlen, Bool.not_true, Bool.false_eq_true, if_false, if_true]
      congr 1
      push_cast
      omega
  · rw [dbInsert_preset m ks hp]
    split
    · rfl
    · split
      · rfl
      · split
        · rfl
        · simp [backfillRev_preset _ _ _ hp]

theorem backfillMaps_go_present (sp : Bool) (n : Nat) (s : Int) :
    backfillMaps.go sp (List.replicate n (some 0)) s = (up s n).map some := by
  induction n generalizing s with
  | zero => simp [backfillMaps.go, up]
  | succ n ih => simp [List.replicate_succ, backfillMaps.go, up, ih]

/-- maps without key entries receive consecutive ids, whatever the loop does with preset keys -/
theorem backfillMaps_go_zero (sp : Bool) (ks : List Key) (s : Int) (h : AllZero ks) :
    backfillMaps.go sp (ks.map some) s = (up s ks.length).map some := by
  induction ks generalizing s with
  | nil => simp [backfillMaps.go, up]
  | cons k ks ih =>
    have hk : k = 0 := h k (by simp)
    have hr : AllZero ks := fun x hx => h x (by simp [hx])
    simp [backfillMaps.go, up, hk, ih _ hr]

/-- the repaired loop leaves maps that carry their own key alone -/
theorem backfillMaps_go_preset (ks : List Key) (s : Int) (h : AllPreset ks) :
    backfillMaps.go true (ks.map some) s = ks.map some := by
  induction ks generalizing s with
  | nil => simp [backfillMaps.go]
  | cons k ks ih =>
    have hk : k ≠ 0 := h k (by simp)
    have hr : AllPreset ks := fun x hx => h x (by simp [hx])
    simp [backfillMaps.go, hk, ih _ hr]

/-- `Create(&maps)` without RETURNING, repaired loop: uniform batches (no map carries a key / every map carries one) leave
    every map with the key of its row -/
theorem createMapsKeys_uniform (m : Int) (ks : List Key) (hm : 0 ≤ m) (h : AllZero ks ∨ AllPreset ks) :
    (createMapsKeys true m ks).1 = (dbInsert m ks).1.map some := by
  have e : (createMapsKeys true m ks).1 =
      createBackfillMaps true true true (ks.map some) ⟨(dbInsert m ks).1.length, lastRowId (dbInsert m ks).1⟩ := by
    simp [createMapsKeys]
  rw [e]
  simp only [createBackfillMaps]
  rcases h with hz | hp
  · cases ks with
    | nil => simp [dbInsert]
    | cons k ks =>
      rw [dbInsert_zero m _ hz]
      have hlen : (k :: ks).length = ks.length + 1 := rfl
      simp only [up_length, hlen, lastRowId, up_getLast]
      have h1 : ¬ (((ks.length + 1 : Nat) : Int) = 0) := by omega
      have h2 : ¬ (m + 1 + (ks.length : Int) ≤ 0) := by omega
      simp only [h1, h2, if_false, Bool.not_true, Bool.false_eq_true, backfillMaps, if_true, List.length_map, hlen]
      rw [backfillMaps_go_zero _ _ _ hz, hlen]
      congr 2
      push_cast
      omega
  · rw [dbInsert_preset m ks hp]
    split
    · rfl
    · split
      · rfl
      · split
        · rfl
        · simp [backfillMaps, backfillMaps_go_preset _ _ hp]

/-! ### batches -/

theorem createBatchesAux_spec (returning : Bool) (bs : List (List Key)) (m : Int)
    (hs : ∀ b ∈ bs, ∀ m', m ≤ m' → (createSlice returning m' b).1 = (dbInsert m' b).1) :
    (createBatchesAux returning m bs).1 = (dbInsert m bs.flatten).1 ∧
    (createBatchesAux returning m bs).2 = dbInsert m bs.flatten := by
  induction bs generalizing m with
  | nil => simp [createBatchesAux, dbInsert]
  | cons b bs ih =>
    have hb := hs b (by simp) m (Int.le_refl _)
    have hmono := dbInsert_mono m b
    have ih' := ih (dbInsert m b).2 (fun b' hb' m' hm' => hs b' (by simp [hb']) m' (Int.le_trans hmono hm'))
    simp only [createBatchesAux, List.flatten_cons, dbInsert_append]
    have hc : (createSlice returning m b).2 = dbInsert m b := by cases returning <;> simp [createSlice]
    have hc1 : (createSlice returning m b).2.1 = (dbInsert m b).1 := by rw [hc]
    have hc2 : (createSlice returning m b).2.2 = (dbInsert m b).2 := by rw [hc]
    simp only [hb, hc1, hc2, ih'.1, ih'.2, and_self]

theorem batchBounds_flatten {α : Type} (l : List α) (b : Nat) (hb : 0 < b) (fuel i : Nat)
    (hf : l.length - i ≤ fuel) :
    ((batchBounds l.length b fuel i).map (fun (p : Nat × Nat) => (l.drop p.1).take (p.2 - p.1))).flatten = l.drop i := by
  induction fuel generalizing i with
  | zero =>
    have : l.length ≤ i := by omega
    simp [batchBounds, List.drop_eq_nil_of_le this]
  | succ fuel ih =>
    unfold batchBounds
    by_cases hi : i < l.length
    · simp only [hi, if_true, List.map_cons, List.flatten_cons]
      rw [ih (i + b) (by omega)]
      by_cases he : i + b > l.length
      · simp only [he, if_true]
        rw [List.drop_eq_nil_of_le (by omega : l.length ≤ i + b), List.append_nil]
        apply List.take_of_length_le
        simp
      · simp only [he, if_false]
        rw [show i + b - i = b by omega]
        have e : List.drop (i + b) l = List.drop b (List.drop i l) := by simp [List.drop_drop]
        rw [e]
        exact List.take_append_drop b (l.drop i)
    · have : l.length ≤ i := by omega
      simp [hi, List.drop_eq_nil_of_le this]

theorem batchBounds_sizes (n b : Nat) (hb : 0 < b) (fuel i : Nat) :
    ∀ p ∈ batchBounds n b fuel i, p.1 < p.2 ∧ p.2 ≤ n ∧ p.2 - p.1 ≤ b := by
  induction fuel generalizing i with
  | zero => simp [batchBounds]
  | succ fuel ih =>
    unfold batchBounds
    by_cases hi : i < n
    · simp only [hi, if_true, List.mem_cons]
      rintro p (rfl | hp)
      · by_cases he : i + b > n <;> simp [he] <;> omega
      · exact ih _ p hp
    · simp [hi]

/-! ### column ↔ field resolution -/

section Lookup
variable {α : Type} [DecidableEq α]

theorem assoc_cons {β : Type} (k k' : α) (v : β) (l : List (α × β)) :
    assoc k ((k', v) :: l) = if k = k' then some v else assoc k l := rfl

theorem regStepName_byDB (st : Reg α) (e : Ent α) : (regStepName st e).byDB = st.byDB := by
  unfold regStepName
  cases assoc e.2.name st.byName with
  | none => rfl
  | some o => by_cases h : o.2.ignored = true <;> simp [h]

/-- the column map after one step: unchanged, or the field's own column bound to the field -/
theorem regStep_byDB (st : Reg α) (e : Ent α) :
    (regStep st e).byDB = st.byDB ∨ ∃ c, e.2.dbName = some c ∧ (regStep st e).byDB = (c, e) :: st.byDB := by
  unfold regStep
  rw [regStepName_byDB]
  unfold regStepDB
  cases hd : e.2.dbName with
  | none => exact Or.inl rfl
  | some c =>
    simp only
    cases assoc c st.byDB with
    | none => exact Or.inr ⟨c, rfl, rfl⟩
    | some v =>
      simp only
      by_cases h : (e.2.perm && decide (e.2.depth < v.2.depth)) = true
      · rw [if_pos h]; exact Or.inr ⟨c, rfl, rfl⟩
      · rw [if_neg h]; exact Or.inl rfl

/-- a field's column is registered after its step -/
theorem regStep_has (st : Reg α) (e : Ent α) (c : α) (h : e.2.dbName = some c) :
    (assoc c (regStep st e).byDB).isSome = true := by
  unfold regStep
  rw [regStepName_byDB]
  unfold regStepDB
  rw [h]
  simp only
  cases ha : assoc c st.byDB with
  | none => simp [assoc_cons]
  | some v =>
    simp only
    by_cases hc : (e.2.perm && decide (e.2.depth < v.2.depth)) = true
    · rw [if_pos hc]; simp [assoc_cons]
    · rw [if_neg hc]; simp [ha]

/-- every binding of the column map is (index, field) of `fs`, below `k`, and the field HAS that column -/
def InvA (fs : List (PField α)) (k : Nat) (st : Reg α) : Prop :=
  ∀ c e, assoc c st.byDB = some e → e.1 < k ∧ fs[e.1]? = some e.2 ∧ e.2.dbName = some c
/-- every column of the fields below `k` is bound -/
def InvB (fs : List (PField α)) (k : Nat) (st : Reg α) : Prop :=
  ∀ j f c, j < k → fs[j]? = some f → f.dbName = some c → (assoc c st.byDB).isSome = true

theorem regStep_inv (fs : List (PField α)) (k : Nat) (f : PField α) (st : Reg α) (hk : fs[k]? = some f)
    (hA : InvA fs k st) (hB : InvB fs k st) :
    InvA fs (k + 1) (regStep st (k, f)) ∧ InvB fs (k + 1) (regStep st (k, f)) := by
  constructor
  · intro c e he
    rcases regStep_byDB st (k, f) with h | ⟨c', hc', h⟩
    · rw [h] at he
      obtain ⟨h1, h2, h3⟩ := hA c e he
      exact ⟨by omega, h2, h3⟩
    · rw [h, assoc_cons] at he
      by_cases hcc : c = c'
      · rw [if_pos hcc] at he
        cases he
        exact ⟨by simp, hk, by rw [hcc]; exact hc'⟩
      · rw [if_neg hcc] at he
        obtain ⟨h1, h2, h3⟩ := hA c e he
        exact ⟨by omega, h2, h3⟩
  · intro j g c hj hg hc
    by_cases hjk : j = k
    · subst hjk
      rw [hk] at hg
      cases hg
      exact regStep_has st (j, f) c hc
    · have := hB j g c (by omega) hg hc
      rcases regStep_byDB st (k, f) with h | ⟨c', _, h⟩
      · rw [h]; exact this
      · rw [h, assoc_cons]
        by_cases hcc : c = c'
        · simp [hcc]
        · simp [hcc, this]

theorem regFrom_inv (fs : List (PField α)) :
    ∀ (rest : List (PField α)) (k : Nat) (st : Reg α), (∀ j, rest[j]? = fs[k + j]?) → InvA fs k st → InvB fs k st →
      InvA fs (k + rest.length) (regFrom k rest st) ∧ InvB fs (k + rest.length) (regFrom k rest st) := by
  intro rest
  induction rest with
  | nil => intro k st _ hA hB; exact ⟨hA, hB⟩
  | cons f rest ih =>
    intro k st hr hA hB
    have hk : fs[k]? = some f := by have := hr 0; simpa using this.symm
    obtain ⟨hA', hB'⟩ := regStep_inv fs k f st hk hA hB
    have := ih (k + 1) (regStep st (k, f)) (fun j => by have := hr (j + 1); simpa [Nat.add_assoc, Nat.add_comm 1 j] using this) hA' hB'
    simpa [regFrom, Nat.add_assoc, Nat.add_comm 1 rest.length] using this

theorem parseReg_inv (fs : List (PField α)) : InvA fs fs.length (parseReg fs) ∧ InvB fs fs.length (parseReg fs) := by
  have := regFrom_inv fs fs 0 {} (fun j => by simp) (fun c e h => by simp [assoc] at h) (fun j f c h => by omega)
  simpa [parseReg] using this

/-- sharper form of `regStep_byDB`: WHY the column map changed or did not change -/
theorem regStep_byDB' (st : Reg α) (e : Ent α) :
    ((regStep st e).byDB = st.byDB ∧
      ∀ c, e.2.dbName = some c → ∃ v, assoc c st.byDB = some v ∧ ¬ (e.2.perm = true ∧ e.2.depth < v.2.depth)) ∨
    ∃ c, e.2.dbName = some c ∧ (regStep st e).byDB = (c, e) :: st.byDB ∧
      (assoc c st.byDB = none ∨ ∃ v, assoc c st.byDB = some v ∧ e.2.perm = true ∧ e.2.depth < v.2.depth) := by
  unfold regStep
  rw [regStepName_byDB]
  unfold regStepDB
  cases hd : e.2.dbName with
  | none => exact Or.inl ⟨rfl, fun c hc => by cases hc⟩
  | some c =>
    simp only
    cases ha : assoc c st.byDB with
    | none => exact Or.inr ⟨c, rfl, rfl, Or.inl ha⟩
    | some v =>
      simp only
      by_cases h : (e.2.perm && decide (e.2.depth < v.2.depth)) = true
      · rw [if_pos h]
        simp only [Bool.and_eq_true, decide_eq_true_eq] at h
        exact Or.inr ⟨c, rfl, rfl, Or.inr ⟨v, ha, h.1, h.2⟩⟩
      · rw [if_neg h]
        simp only [Bool.and_eq_true, decide_eq_true_eq] at h
        refine Or.inl ⟨rfl, fun c' hc' => ?_⟩
        cases hc'
        exact ⟨v, ha, h⟩

/-- the owner of a column is STRICTLY SHALLOWER than every other permitted claimant seen so far, or equally deep and
    declared no later -/
def InvC (fs : List (PField α)) (k : Nat) (st : Reg α) : Prop :=
  ∀ c e, assoc c st.byDB = some e → ∀ j g, j < k → fs[j]? = some g → g.dbName = some c → g.perm = true →
    e.2.depth < g.depth ∨ (e.2.depth = g.depth ∧ e.1 ≤ j)

theorem regStep_invC (fs : List (PField α)) (k : Nat) (f : PField α) (st : Reg α) (hk : fs[k]? = some f)
    (hA : InvA fs k st) (hB : InvB fs k st) (hC : InvC fs k st) : InvC fs (k + 1) (regStep st (k, f)) := by
  intro c e he j g hj hg hc hp
  rcases regStep_byDB' st (k, f) with ⟨h, hkeep⟩ | ⟨c', hc', h, hwhy⟩
  · -- map unchanged
    rw [h] at he
    by_cases hjk : j = k
    · subst hjk
      rw [hk] at hg; cases hg
      obtain ⟨v, hv, hn⟩ := hkeep c hc
      rw [hv] at he; cases he
      have hlt := (hA c e hv).1
      have : ¬ (f.depth < e.2.depth) := fun hh => hn ⟨hp, hh⟩
      rcases Nat.lt_or_ge e.2.depth f.depth with h1 | h1
      · exact Or.inl h1
      · exact Or.inr ⟨by omega, by omega⟩
    · exact hC c e he j g (by omega) hg hc hp
  · rw [h, assoc_cons] at he
    by_cases hcc : c = c'
    · rw [if_pos hcc] at he
      cases he
      subst hcc
      by_cases hjk : j = k
      · subst hjk
        rw [hk] at hg; cases hg
        exact Or.inr ⟨rfl, Nat.le_refl _⟩
      · have hjk' : j < k := by omega
        rcases hwhy with hnone | ⟨v, hv, _, hlt⟩
        · have := hB j g c hjk' hg hc
          rw [hnone] at this; cases this
        · rcases hC c v hv j g hjk' hg hc hp with h1 | ⟨h1, _⟩
          · exact Or.inl (by simp only at hlt ⊢; omega)
          · exact Or.inl (by simp only at hlt ⊢; omega)
    · rw [if_neg hcc] at he
      by_cases hjk : j = k
      · subst hjk
        rw [hk] at hg; cases hg
        rw [hc'] at hc; cases hc
        exact absurd rfl hcc
      · exact hC c e he j g (by omega) hg hc hp

theorem regFrom_invC (fs : List (PField α)) :
    ∀ (rest : List (PField α)) (k : Nat) (st : Reg α), (∀ j, rest[j]? = fs[k + j]?) → InvA fs k st → InvB fs k st →
      InvC fs k st → InvC fs (k + rest.length) (regFrom k rest st) := by
  intro rest
  induction rest with
  | nil => intro k st _ _ _ hC; exact hC
  | cons f rest ih =>
    intro k st hr hA hB hC
    have hk : fs[k]? = some f := by have := hr 0; simpa using this.symm
    obtain ⟨hA', hB'⟩ := regStep_inv fs k f st hk hA hB
    have hC' := regStep_invC fs k f st hk hA hB hC
    have := ih (k + 1) (regStep st (k, f)) (fun j => by have := hr (j + 1); simpa [Nat.add_assoc, Nat.add_comm 1 j] using this) hA' hB' hC'
    simpa [regFrom, Nat.add_assoc, Nat.add_comm 1 rest.length] using this

theorem parseReg_invC (fs : List (PField α)) : InvC fs fs.length (parseReg fs) := by
  have := regFrom_invC fs fs 0 {} (fun j => by simp) (fun c e h => by simp [assoc] at h) (fun j f c h => by omega)
    (fun c e h => by simp [assoc] at h)
  simpa [parseReg] using this

end Lookup

/-! ### pooled holders -/

theorem scanLoop_renew {σ δ : Type} (merge : σ → δ → σ) (proto : σ) (ds : List δ) :
    ∀ h, scanLoop merge proto true h ds = match ds with | [] => [] | d :: t => merge h d :: t.map (merge proto) := by
  induction ds with
  | nil => intro h; rfl
  | cons d t ih =>
    intro h
    simp only [scanLoop, if_true]
    rw [ih proto]
    cases t <;> rfl

end Gorm.Scan
