/-
  Lemmas about `Model/ChainRows.lean` (C10 round 6): appending the key condition to the flat WHERE list.
-/
import GormModel.Model.ChainRows
namespace Gorm.ChainRows

/-- a key condition that holds changes nothing -/
theorem evalFlat_append_true (ts : List Term) (run : Bool) :
    evalFlat (ts ++ [(false, true)]) run = evalFlat ts run := by
  induction ts generalizing run with
  | nil => simp [evalFlat]
  | cons t ts ih =>
    obtain ⟨o, v⟩ := t
    cases o <;> simp [evalFlat, ih]

/-- without a later Or entry the key condition is a conjunct of the whole WHERE -/
theorem evalFlat_append_noOr (ts : List Term) (run key : Bool) (h : ts.all (fun t => !t.1) = true) :
    evalFlat (ts ++ [(false, key)]) run = (evalFlat ts run && key) := by
  induction ts generalizing run with
  | nil => simp [evalFlat]
  | cons t ts ih =>
    obtain ⟨o, v⟩ := t
    cases o with
    | true => simp at h
    | false =>
      have h' : ts.all (fun t => !t.1) = true := by
        simp only [List.all_cons, Bool.and_eq_true] at h
        exact h.2
      simp [evalFlat, ih _ h']

/-- a key condition that fails can only remove rows of the LAST AND-run: the WHERE with the key appended never holds
    where the chain does not -/
theorem evalFlat_append_le (ts : List Term) (run key : Bool) (h : evalFlat (ts ++ [(false, key)]) run = true) :
    evalFlat ts run = true := by
  induction ts generalizing run with
  | nil =>
    simp [evalFlat] at h
    simp [evalFlat, h.1]
  | cons t ts ih =>
    obtain ⟨o, v⟩ := t
    cases o with
    | true =>
      simp only [List.cons_append, evalFlat, Bool.or_eq_true] at h ⊢
      exact h.imp id (ih _)
    | false =>
      simp only [List.cons_append, evalFlat] at h ⊢
      exact ih _ h

end Gorm.ChainRows
