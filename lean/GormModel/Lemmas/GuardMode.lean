/-
  C09 (round 4) — the guard decides the same in every mode (Model/GuardMode.lean).
-/
import GormModel.Model.GuardMode
import GormModel.Lemmas.StmtReuse
namespace Gorm

/-- checkMissingWhereConditions as it is in /repo now: one `if`, switched off by AllowGlobalUpdate or a pending error only -/
theorem C09_guard_outer_conds :
    Gen.guardBodyIsSingleIf = true ∧ Gen.guardOuterConds = ["!db.AllowGlobalUpdate", "db.Error == nil"] := by
  decide

/-- … and it reads nothing else of the handle: no DryRun / PrepareStmt / SkipHooks / SkipDefaultTransaction / ConnPool -/
theorem C09_guard_reads :
    ∀ r ∈ Gen.guardReads, r ∈ ["db.AddError", "db.AllowGlobalUpdate", "db.Error", "db.Statement.Clauses"] := by
  decide

/-- its only error is ErrMissingWhereClause, added exactly when no condition was found -/
theorem C09_guard_errors : Gen.guardErrors = [{ arg := "gorm.ErrMissingWhereClause", guards := ["!withCondition"] }] := by
  decide

/-- the guard's test runs in EVERY mode (AllowGlobalUpdate off, no pending error) -/
theorem C09_guard_runs_in_every_mode (m : Mode) : guardRuns Gen.guardOuterConds m false false = true := by
  have h : Gen.guardOuterConds = ["!db.AllowGlobalUpdate", "db.Error == nil"] := C09_guard_outer_conds.2
  rw [h]
  simp [guardRuns, condHolds]

/-- … so the decision in mode `m` is the mode-free decision of the statement machine -/
theorem C09_rejected_in_every_mode (m : Mode) (ce : Bool) (cfg : StmtCfg) (s : StmtState) (k : FinKind) (vk : List Atom)
    (same : Bool) (hag : cfg.allowGlobal = false) :
    rejectedIn Gen.guardOuterConds m ce cfg s k vk same = finRejected ce cfg s k vk same := by
  unfold rejectedIn
  rw [hag, C09_guard_runs_in_every_mode m]
  have : ({ cfg with allowGlobal := false } : StmtCfg) = cfg := by
    cases cfg; simp_all
  rw [this]; simp

/-- with AllowGlobalUpdate the guard never fires, in any mode -/
theorem C09_allow_global_in_every_mode (m : Mode) (ce : Bool) (cfg : StmtCfg) (s : StmtState) (k : FinKind) (vk : List Atom)
    (same : Bool) (hag : cfg.allowGlobal = true) :
    rejectedIn Gen.guardOuterConds m ce cfg s k vk same = false := by
  have h : Gen.guardOuterConds = ["!db.AllowGlobalUpdate", "db.Error == nil"] := C09_guard_outer_conds.2
  simp [rejectedIn, guardRuns, h, hag, condHolds]

/-- BLOCKS in every mode: DryRun session/config, ToSQL, PrepareStmt, SkipHooks, SkipDefaultTransaction, inside transactions —
    after any sequence of condition-free calls a write on a key-less model value is rejected -/
theorem C09_blocks_in_every_mode (m : Mode) (cfg : StmtCfg) (hk : cfg.modelKey = []) (hag : cfg.allowGlobal = false)
    (ops : List StmtOp) (ho : ∀ op ∈ ops, opCondFree op = true) (k : FinKind) (hw : k.isWrite = true) (same : Bool) :
    rejectedIn Gen.guardOuterConds m true cfg (stmtRun cfg StmtState.fresh ops) k [] same = true := by
  rw [C09_rejected_in_every_mode m true cfg _ k [] same hag]
  exact bareEW_rejected cfg hk hag _ (stmtRun_bareEW cfg hk _ ops (bareEW_fresh cfg) ho) k hw same

/-- COUNTEREXAMPLE for a guard gated on the mode (`… && !db.DryRun && …`): under DryRun its test does not run, a
    condition-less write comes back without ErrMissingWhereClause -/
theorem C09_guard_mode_gate_counterexample :
    let dry : Mode := { dryRun := true, prepareStmt := false, skipHooks := false, skipDefaultTx := false, inTx := false }
    let cfg : StmtCfg := { soft := none, modelKey := [], allowGlobal := false }
    guardRuns ["!db.AllowGlobalUpdate", "!db.DryRun", "db.Error == nil"] dry false false = false ∧
    rejectedIn ["!db.AllowGlobalUpdate", "!db.DryRun", "db.Error == nil"] dry true cfg StmtState.fresh .update [] false = false ∧
    rejectedIn ["!db.AllowGlobalUpdate", "db.Error == nil"] dry true cfg StmtState.fresh .update [] false = true := by
  decide

end Gorm
