import GormModel.Model.SharedCell
/-! C07 (round 2): lemmas about the shared-cell protocol and the lock/map discipline — all schedules, any number of goroutines. -/

namespace Gorm.SharedCell

/-- on a private copy no step writes the shared cell -/
theorem step_private_cell (s : St) (t : Nat) : (step false s t).cell = s.cell := by
  unfold step
  split
  · simp
  · split <;> simp

theorem run_private_cell (s : St) (sched : List Nat) : (run false s sched).cell = s.cell := by
  induction sched generalizing s with
  | nil => rfl
  | cons t rest ih =>
    show (run false (step false s t) rest).cell = s.cell
    rw [ih, step_private_cell]

/-- invariant of overlap-free executions: the cell holds the handle's own value and nobody is mid-protocol -/
def Quiet (s : St) : Prop := s.cell = 0 ∧ ∀ i, (s.ths i).pc ≠ 1

theorem quiet_init : Quiet init := ⟨rfl, fun _ => by simp [init]⟩

theorem quiet_pair (s : St) (t : Nat) (h : Quiet s) : Quiet (step true (step true s t) t) := by
  obtain ⟨hc, hp⟩ := h
  by_cases h0 : (s.ths t).pc = 0
  · -- swap, then restore
    have e1 : step true s t = { cell := t + 1, ths := upd s.ths t ⟨1, s.cell⟩ } := by simp [step, h0]
    rw [e1]
    refine ⟨?_, ?_⟩
    · simp [step, upd, hc]
    · intro i
      by_cases hi : i = t
      · subst hi; simp [step, upd]
      · have := hp i; simp [step, upd, hi]; exact this
  · have h1 : (s.ths t).pc ≠ 1 := hp t
    have e1 : step true s t = s := by simp [step, h0, h1]
    rw [e1, e1]
    exact ⟨hc, hp⟩

theorem quiet_serial (s : St) (ts : List Nat) (h : Quiet s) : Quiet (run true s (serialSched ts)) := by
  induction ts generalizing s with
  | nil => exact h
  | cons t rest ih =>
    have : run true s (serialSched (t :: rest)) = run true (step true (step true s t) t) (serialSched rest) := by
      simp [serialSched, run, List.flatMap_cons]
    rw [this]
    exact ih _ (quiet_pair s t h)

end Gorm.SharedCell

namespace Gorm.LockMap

/-- whoever is in its critical section holds its lock -/
def Inv (acc : Nat → Acc) (s : St) : Prop := ∀ t, s.inCS t = true → s.held (acc t).lock = some t

theorem inv_init (acc : Nat → Acc) : Inv acc init := by intro t h; simp [init] at h

theorem inv_step (acc : Nat → Acc) (s : St) (t : Nat) (h : Inv acc s) : Inv acc (step acc s t) := by
  unfold step
  by_cases hin : s.inCS t = true
  · -- Unlock
    simp only [hin, if_true]
    intro i hi
    by_cases hit : i = t
    · subst hit; simp at hi
    · simp [hit] at hi
      have hi' := h i hi
      have ht' := h t hin
      have hl : (acc i).lock ≠ (acc t).lock := by
        intro e; rw [e, ht'] at hi'; exact hit (Option.some.inj hi').symm
      simp [hl, hi']
  · simp only [hin]
    cases hh : s.held (acc t).lock with
    | some o => simpa [hh] using h
    | none =>
      simp only []
      intro i hi
      by_cases hit : i = t
      · subst hit; simp
      · simp [hit] at hi
        have hi' := h i hi
        have hl : (acc i).lock ≠ (acc t).lock := by
          intro e; rw [e, hh] at hi'; cases hi'
        simp [hl, hi']

theorem inv_run (acc : Nat → Acc) (s : St) (sched : List Nat) (h : Inv acc s) : Inv acc (run acc s sched) := by
  induction sched generalizing s with
  | nil => exact h
  | cons t rest ih => exact ih _ (inv_step acc s t h)

end Gorm.LockMap
