/-
  Lemmas about `Model/FieldZero.lean` (C10 round 5): the per-kind zero test, the index-path walk, `nzOf`.
-/
import GormModel.Model.FieldZero
import GormModel.Lemmas.WriteSet
namespace Gorm.FieldZero
open Gorm.WriteSet

theorem allZero_eq_all (xs : List GoVal) : allZero xs = xs.all GoVal.isZero := by
  induction xs with
  | nil => simp [allZero]
  | cons x xs ih => simp [allZero, ih]

theorem struct_isZero (fs : List GoVal) : (GoVal.struct fs).isZero = fs.all GoVal.isZero := by
  simp [GoVal.isZero, allZero_eq_all]

theorem array_isZero (xs : List GoVal) : (GoVal.array xs).isZero = xs.all GoVal.isZero := by
  simp [GoVal.isZero, allZero_eq_all]

/-- the index-path loop over a concatenated path -/
theorem walk_append (p q : List Step) (v : GoVal) : walk (p ++ q) v = (walk p v).bind (walk q) := by
  induction p generalizing v with
  | nil => simp [walk]
  | cons st p ih =>
    cases st with
    | field i => simp [walk, ih]
    | ptrField i =>
      simp only [List.cons_append, walk]
      cases fieldAt v i <;> simp [ih]

/-- access lists in which a Go field name identifies the field (holds for every parsed schema: `FieldsByName`) -/
def NamesDistinct (accs : List Access) : Prop := ∀ a ∈ accs, ∀ b ∈ accs, a.name = b.name → a = b

theorem mem_nzOf {accs : List Access} {r : GoVal} {n : Col} :
    n ∈ nzOf accs r ↔ ∃ a ∈ accs, valueOfZero a r = false ∧ a.name = n := by
  simp [nzOf, List.mem_map, List.mem_filter, and_assoc]

theorem nzOf_contains {accs : List Access} (hd : NamesDistinct accs) {a : Access} (ha : a ∈ accs) (r : GoVal) :
    (nzOf accs r).contains a.name = !valueOfZero a r := by
  cases hz : valueOfZero a r with
  | false =>
    simp only [Bool.not_false, List.contains_iff_mem]
    exact mem_nzOf.2 ⟨a, ha, hz, rfl⟩
  | true =>
    simp only [Bool.not_true]
    cases hc : (nzOf accs r).contains a.name with
    | false => rfl
    | true =>
      have hm : a.name ∈ nzOf accs r := List.contains_iff_mem.1 hc
      obtain ⟨b, hb, hbz, hbn⟩ := mem_nzOf.1 hm
      have : b = a := hd b hb a ha hbn
      subst this
      rw [hz] at hbz
      cases hbz

end Gorm.FieldZero
