/-
  C07 (round 2): theorems over the regenerated Gen/SharedConfig.lean — who writes the handle-wide Config, whether a lock
  guards the map it is constructed with, what the scan-holder pools hand out.  Each is a `decide` over a table the extractor
  regenerates from /repo on every run: a new write / construction site re-states the theorem.
-/
import GormModel.Gen.SharedConfig
import GormModel.Model.SharedCell
namespace Gorm
open Gorm.Gen

/-- configuration-time API: building a handle (gorm.Open) and registering a plugin (db.Use) are not "operations issued
  concurrently through one shared handle" -/
def c07CfgConfigTimeFns : List String := ["Open", "DB.Use"]

/-- Every assignment to a field of Config (Logger, ConnPool, Dialector, NowFunc, callbacks, flags, …) or to the Config pointer
  of a *DB that can reach a Config the function did not allocate itself happens in a configuration-time function.  All other
  writes (Session's flag copies, Scan's logger swap, the migrator's DryRun session) go to a private copy. -/
theorem C07_config_written_only_privately :
    ∀ s ∈ cfgWriteSites, s.priv = false → s.fn ∈ c07CfgConfigTimeFns := by decide

/-- DB.Scan's save / replace / restore of the logger runs on a private Config -/
theorem C07_scan_logger_swap_private :
    ∀ s ∈ cfgWriteSites, s.fn = "DB.Scan" → s.priv = true := by decide

/-- a site pairs the map with its lock: an EXISTING map (field of `owner`) only together with the lock of the same owner;
  otherwise the map is new (fresh / nil / absent) or left alone — an arbitrary expression as map is not accepted -/
def lockGuardsMap (s : LockMapSite) : Bool :=
  if s.mapKind == "from" then s.muxKind == "from" && s.muxOwner == s.mapOwner
  else s.mapKind == "fresh" || s.mapKind == "nil" || s.mapKind == "absent" || s.mapKind == "unchanged"

/-- a lock taken over from an existing owner comes with that owner's map (no lock is re-used for a different map) -/
def lockKeepsMap (s : LockMapSite) : Bool :=
  if s.muxKind == "from" then s.mapKind == "from" && s.muxOwner == s.mapOwner
  else s.muxKind == "fresh" || s.muxKind == "absent" || s.muxKind == "unchanged"

/-- Wherever a struct holding a mutex and a map is constructed (or has one of the two assigned), a map that already exists is
  only ever combined with the lock of the SAME existing value: two PreparedStmtDB values that share `Stmts` share `Mux`. -/
theorem C07_lock_guards_its_map : ∀ s ∈ lockMapSites, lockGuardsMap s = true ∧ lockKeepsMap s = true := by decide

/-- Session{PrepareStmt}: either it builds its own PreparedStmtDB struct and then that struct takes BOTH the map and the lock from
  the registered cache (the sharing site — non-vacuity of the `from` branch; trees before the F14a/F14d repair), or it
  constructs no struct that holds a lock and a map at all and hands out the registered cache itself (trees with the repair).
  Same statement on both trees. -/
theorem C07_session_shares_map_and_lock :
    (∃ s ∈ lockMapSites, s.fn = "DB.Session" ∧ s.strct = "PreparedStmtDB" ∧ s.mapKind = "from" ∧ s.muxKind = "from" ∧ s.mapOwner = s.muxOwner) ∨
    (∀ s ∈ lockMapSites, s.fn ≠ "DB.Session") := by
  decide

/-- The holders a scan pool creates share nothing but the read-only *Field descriptor: every other part of a new holder is
  allocated inside the pool's New function (in particular the serializer instance a value is decoded into). -/
theorem C07_pool_new_shares_only_field_descriptor :
    ∀ s ∈ poolNewSites, ∀ c ∈ s.captured, c = "Field" := by decide

/-- non-vacuity: the tables are populated (a Logger write in Scan, the serializer pool, the plain pool) -/
example : (∃ s ∈ cfgWriteSites, s.fn = "DB.Scan" ∧ s.field = "Logger") ∧ (∃ s ∈ cfgWriteSites, s.fn = "DB.Session") ∧
    (∃ s ∈ poolNewSites, s.fn = "Field.setupNewValuePool") ∧ (∃ s ∈ poolNewSites, s.file = "schema/pool.go") ∧
    "Logger" ∈ configFields ∧ "ConnPool" ∈ configFields := by decide

end Gorm
