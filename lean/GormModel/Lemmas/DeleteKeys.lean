/-
  The two copies of the delete key blocks (Model/DeleteKeys.lean) against the single `writeKeys` of the statement
  machine (Model/Where.lean), tied to today's source by the regenerated facts Gen/DeleteKeyFacts.lean
  (extract/gen_c09_keys.go): callbacks/delete.go `Delete` and soft_delete.go `SoftDeleteDeleteClause.ModifyStatement`
  each contain block (V) (key of `<stmt>.ReflectValue`) and block (M) (key of `reflect.ValueOf(<stmt>.Model)` under
  `<stmt>.ReflectValue.CanAddr() && <stmt>.Dest != <stmt>.Model && <stmt>.Model != nil`).
-/
import GormModel.Model.DeleteKeys
import GormModel.Lemmas.StmtReuse
import GormModel.Gen.DeleteKeyFacts
import GormModel.Gen.GuardWhereFacts
namespace Gorm

open DeleteCopy (full)

/-! ### both copies complete ⇒ `writeKeys` summarises both -/

theorem deleteKeysOf_full (vk mk : List Atom) (same : Bool) :
    deleteKeysOf full vk mk same = vk ++ (if same then [] else mk) := by
  cases same <;> simp [deleteKeysOf, full]

/-- with block (V) and block (M) present in callbacks/delete.go `Delete` AND in soft_delete.go
    `SoftDeleteDeleteClause.ModifyStatement`, whichever copy runs (plain or soft-delete model, scoped or Unscoped) adds
    exactly the key conditions of Model/Where.lean `writeKeys … .delete` -/
theorem C09_delete_copies_agree_keys (cfg : StmtCfg) (soft unscoped : Bool) (vk : List Atom) (same : Bool) :
    deleteKeys full full soft unscoped vk cfg.modelKey same = writeKeys cfg .delete vk same := by
  unfold deleteKeys
  cases deletePath soft unscoped <;> simp only [deleteKeysOf_full, writeKeys]

theorem C09_delete_copies_agree_finWhere (cfg : StmtCfg) (s : StmtState) (k : FinKind) (vk : List Atom) (same : Bool) :
    finWhereWith full full cfg s k vk same = finWhere cfg s k vk same := by
  cases k <;> simp only [finWhereWith]
  case delete => simp only [finWhere, C09_delete_copies_agree_keys]

theorem C09_delete_copies_agree_finRejected (ce : Bool) (cfg : StmtCfg) (s : StmtState) (k : FinKind) (vk : List Atom)
    (same : Bool) : finRejectedWith ce full full cfg s k vk same = finRejected ce cfg s k vk same := by
  simp only [finRejectedWith, finRejected, C09_delete_copies_agree_finWhere]

/-- the single `writeKeys` used by the statement machine is a faithful summary of BOTH copies — key conditions, the WHERE
    state the finisher executes with, and the guard's verdict, for every state and every finisher -/
theorem C09_delete_copies_agree :
    (∀ (cfg : StmtCfg) (soft unscoped : Bool) (vk : List Atom) (same : Bool),
      deleteKeys full full soft unscoped vk cfg.modelKey same = writeKeys cfg .delete vk same) ∧
    (∀ (cfg : StmtCfg) (s : StmtState) (k : FinKind) (vk : List Atom) (same : Bool),
      finWhereWith full full cfg s k vk same = finWhere cfg s k vk same) ∧
    (∀ (ce : Bool) (cfg : StmtCfg) (s : StmtState) (k : FinKind) (vk : List Atom) (same : Bool),
      finRejectedWith ce full full cfg s k vk same = finRejected ce cfg s k vk same) :=
  ⟨C09_delete_copies_agree_keys, C09_delete_copies_agree_finWhere, C09_delete_copies_agree_finRejected⟩

/-! ### today's source: the regenerated facts -/

/-- callbacks/delete.go `Delete` and soft_delete.go `SoftDeleteDeleteClause.ModifyStatement` EACH contain exactly one
    block (M) (found, adds `WHERE … IN`, under a `Dest != Model` conjunct, before the Build call) and exactly one block (V) -/
theorem C09_delete_key_facts :
    Gen.hardDeleteModelKeyBlock = true ∧ Gen.softDeleteModelKeyBlock = true ∧
    Gen.hardDeleteValueKeyBlock = true ∧ Gen.softDeleteValueKeyBlock = true := by
  decide

/-- the key blocks recorded for one site -/
def siteKeyBlocks (site : String) : List Gen.KeyBlock := Gen.deleteKeyBlocks.filter (fun b => b.site == site)

/-- guards of the site's SQL-build block (`<stmt>.Build(…)`): hard `stmt.SQL.Len() == 0`, soft additionally
    `!stmt.Statement.Unscoped` — the prefix the two sites do NOT share -/
def siteBuildGuards (site : String) : List String :=
  match Gen.deleteBuildSites.find? (fun b => b.site == site) with
  | some b => b.guards
  | none => []

def dropPrefix : List String → List String → Option (List String)
  | l, [] => some l
  | [], _ :: _ => none
  | a :: l, b :: p => if a == b then dropPrefix l p else none

/-- a site's blocks relative to its build block: (source, found, addsWhere, guards beyond the build block's; `none` = the
    block is not inside the build block) -/
def siteRelBlocks (site : String) : List (String × Bool × Bool × Option (List String)) :=
  (siteKeyBlocks site).map (fun b => (b.source, b.found, b.addsWhere, dropPrefix b.guards (siteBuildGuards site)))

/-- "the two copies contain the same blocks under the same conditions": relative to the block that builds the statement,
    both sites have block (V) under `stmt.Schema != nil` ONLY, then block (M) under `stmt.Schema != nil` and exactly the
    three conjuncts `stmt.ReflectValue.CanAddr()`, `stmt.Dest != stmt.Model`, `stmt.Model != nil`; each adds its WHERE -/
theorem C09_delete_sites_same_blocks :
    siteRelBlocks "hard-delete" = siteRelBlocks "soft-delete" ∧
    siteRelBlocks "hard-delete" =
      [("value", true, true, some ["stmt.Schema != nil"]),
       ("model", true, true, some ["stmt.Schema != nil", "stmt.ReflectValue.CanAddr()", "stmt.Dest != stmt.Model",
                                   "stmt.Model != nil"])] := by
  decide

/-- the sites' build blocks: found, key blocks inside and before the Build call; the soft copy runs only when the statement
    is not yet built AND not Unscoped, the hard copy whenever the statement is not yet built (Model/DeleteKeys.lean
    `deletePath`) -/
theorem C09_delete_build_sites :
    Gen.deleteBuildSites =
      [{ site := "hard-delete", found := true, guards := ["stmt.SQL.Len() == 0"], keysBeforeBuild := true },
       { site := "soft-delete", found := true, guards := ["stmt.SQL.Len() == 0", "!stmt.Statement.Unscoped"],
         keysBeforeBuild := true }] := by
  decide

/-- non-vacuity: four delete entries, all found -/
theorem C09_delete_key_blocks_found :
    ((siteKeyBlocks "hard-delete" ++ siteKeyBlocks "soft-delete").map (fun b => (b.site, b.source, b.found))) =
      [("hard-delete", "value", true), ("hard-delete", "model", true),
       ("soft-delete", "value", true), ("soft-delete", "model", true)] := by
  decide

/-- callbacks/update.go `ConvertToAssignments`: under `!updatingValue.CanAddr() || stmt.Dest != stmt.Model`, the struct case
    loops over `stmt.Schema.PrimaryFields` and adds `clause.Where{… clause.Eq …}` for every non-zero key field of
    `stmt.ReflectValue` (Model/Where.lean `writeKeys … .update`) -/
theorem C09_update_key_block :
    { site := "update", source := "value", found := true, addsWhere := true,
      guards := ["!updatingValue.CanAddr() || stmt.Dest != stmt.Model",
                 "switch stmt.ReflectValue.Kind() case reflect.Struct"] : Gen.KeyBlock } ∈ Gen.deleteKeyBlocks := by
  decide

/-- what today's source says each copy contains: both blocks -/
theorem hardCopy_full : (⟨Gen.hardDeleteValueKeyBlock, Gen.hardDeleteModelKeyBlock⟩ : DeleteCopy) = full := by decide
theorem softCopy_full : (⟨Gen.softDeleteValueKeyBlock, Gen.softDeleteModelKeyBlock⟩ : DeleteCopy) = full := by decide

/-! ### a keyed Delete is never rejected — on either path -/

/-- `Model(&keyed).Delete(&T{})` (`cfg.modelKey ≠ []`, `Dest != Model`) is NEVER rejected by the guard: on the
    callbacks/delete.go path AND on the soft_delete.go path (plain or soft-delete model, scoped or Unscoped), after any
    history of calls on the handle, with either transcription of the guard (`ce`).  The copies are the ones today's source
    contains (regenerated facts) -/
theorem C09_admits_model_key_delete (ce : Bool) (cfg : StmtCfg) (ops : List StmtOp) (vk : List Atom)
    (hk : cfg.modelKey ≠ []) :
    finRejectedWith ce ⟨Gen.hardDeleteValueKeyBlock, Gen.hardDeleteModelKeyBlock⟩
      ⟨Gen.softDeleteValueKeyBlock, Gen.softDeleteModelKeyBlock⟩ cfg (stmtRun cfg StmtState.fresh ops) .delete vk false
      = false := by
  rw [hardCopy_full, softCopy_full, C09_delete_copies_agree_finRejected]
  refine keyed_admitted ce cfg _ (markerInv_nonempty cfg _ (stmtRun_markerInv cfg _ ops (markerInv_fresh cfg)))
    .delete vk false ?_ (fun h => by cases h)
  simp [writeKeys, hk]

/-- `Delete(&keyed)` (`vk ≠ []`) is never rejected either, whether or not the value is the statement's Model -/
theorem C09_admits_value_key_delete (ce : Bool) (cfg : StmtCfg) (ops : List StmtOp) (vk : List Atom) (same : Bool)
    (hv : vk ≠ []) :
    finRejectedWith ce ⟨Gen.hardDeleteValueKeyBlock, Gen.hardDeleteModelKeyBlock⟩
      ⟨Gen.softDeleteValueKeyBlock, Gen.softDeleteModelKeyBlock⟩ cfg (stmtRun cfg StmtState.fresh ops) .delete vk same
      = false := by
  rw [hardCopy_full, softCopy_full, C09_delete_copies_agree_finRejected]
  refine keyed_admitted ce cfg _ (markerInv_nonempty cfg _ (stmtRun_markerInv cfg _ ops (markerInv_fresh cfg)))
    .delete vk same ?_ (fun h => by cases h)
  simp [writeKeys, hv]

/-- the same for the very guard today's source has (`Gen.guardRejectsEmptyWhere` selects the transcription) -/
theorem C09_admits_keyed_delete_today (cfg : StmtCfg) (ops : List StmtOp) (vk : List Atom) (same : Bool)
    (h : vk ≠ [] ∨ (cfg.modelKey ≠ [] ∧ same = false)) :
    finRejectedWith Gen.guardRejectsEmptyWhere ⟨Gen.hardDeleteValueKeyBlock, Gen.hardDeleteModelKeyBlock⟩
      ⟨Gen.softDeleteValueKeyBlock, Gen.softDeleteModelKeyBlock⟩ cfg (stmtRun cfg StmtState.fresh ops) .delete vk same
      = false := by
  rcases h with hv | ⟨hk, hs⟩
  · exact C09_admits_value_key_delete _ cfg ops vk same hv
  · subst hs; exact C09_admits_model_key_delete _ cfg ops vk hk

/-- non-vacuity: the hypotheses are satisfiable on both paths, and without a key the same Delete IS rejected -/
example :
    let key : Atom := { col := "`id`", kind := .inK, val := .list 1, id := 1 }
    let f : Atom := { col := "`deleted_at`", kind := .eq, val := .nil, id := 0 }
    let plain : StmtCfg := { soft := none, modelKey := [key], allowGlobal := false }
    let softM : StmtCfg := { soft := some f, modelKey := [key], allowGlobal := false }
    plain.modelKey ≠ [] ∧
    deletePath plain.soft.isSome false = .hardCopy ∧ deletePath softM.soft.isSome false = .softCopy ∧
    deletePath softM.soft.isSome true = .hardCopy ∧
    finRejectedWith false full full { softM with modelKey := [] } StmtState.fresh .delete [] false = true ∧
    finRejectedWith false full full { plain with modelKey := [] } StmtState.fresh .delete [] false = true := by
  refine ⟨by simp, ?_, ?_, ?_, ?_, ?_⟩ <;> decide

/-! ### what the regenerated facts exclude -/

/-- soft_delete.go `SoftDeleteDeleteClause.ModifyStatement` WITHOUT its block (M) (`softC = ⟨true, false⟩`; the
    callbacks/delete.go copy complete): on a soft-delete model `db.Model(&User{ID: 3}).Delete(&User{})` — a key IS given —
    adds no key condition, the statement holds only the `deleted_at IS NULL` filter and the guard REJECTS it.  The same
    statement once Unscoped (callbacks/delete.go path) is admitted: the defect sits in one copy only. -/
theorem C09_soft_copy_without_model_block_counterexample :
    let key : Atom := { col := "`id`", kind := .inK, val := .list 1, id := 1 }
    let f : Atom := { col := "`deleted_at`", kind := .eq, val := .nil, id := 0 }
    let cfg : StmtCfg := { soft := some f, modelKey := [key], allowGlobal := false }
    let softC : DeleteCopy := ⟨true, false⟩
    finRejectedWith false full softC cfg StmtState.fresh .delete [] false = true ∧
    finRejectedWith true full softC cfg StmtState.fresh .delete [] false = true ∧
    finRejectedWith false full softC cfg (stmtRun cfg StmtState.fresh [.unscoped]) .delete [] false = false ∧
    finRejectedWith false full full cfg StmtState.fresh .delete [] false = false := by
  decide

/-- callbacks/delete.go `Delete` WITHOUT its block (M) (`hard = ⟨true, false⟩`; the soft_delete.go copy complete): on a
    plain model — and on a soft-delete model once Unscoped — the keyed `Model(&keyed).Delete(&T{})` is rejected, while the
    scoped soft delete (soft_delete.go path) is admitted -/
theorem C09_hard_copy_without_model_block_counterexample :
    let key : Atom := { col := "`id`", kind := .inK, val := .list 1, id := 1 }
    let f : Atom := { col := "`deleted_at`", kind := .eq, val := .nil, id := 0 }
    let plain : StmtCfg := { soft := none, modelKey := [key], allowGlobal := false }
    let softM : StmtCfg := { soft := some f, modelKey := [key], allowGlobal := false }
    let hard : DeleteCopy := ⟨true, false⟩
    finRejectedWith false hard full plain StmtState.fresh .delete [] false = true ∧
    finRejectedWith true hard full plain StmtState.fresh .delete [] false = true ∧
    finRejectedWith false hard full softM (stmtRun softM StmtState.fresh [.unscoped]) .delete [] false = true ∧
    finRejectedWith false hard full softM StmtState.fresh .delete [] false = false ∧
    finRejectedWith false full full plain StmtState.fresh .delete [] false = false := by
  decide

/-- a copy without block (V): `Delete(&keyed)` with no `Model(..)` is rejected on that copy's path -/
theorem C09_copy_without_value_block_counterexample :
    let key : Atom := { col := "`id`", kind := .inK, val := .list 1, id := 1 }
    let f : Atom := { col := "`deleted_at`", kind := .eq, val := .nil, id := 0 }
    let plain : StmtCfg := { soft := none, modelKey := [], allowGlobal := false }
    let softM : StmtCfg := { soft := some f, modelKey := [], allowGlobal := false }
    finRejectedWith false ⟨false, true⟩ full plain StmtState.fresh .delete [key] true = true ∧
    finRejectedWith false full ⟨false, true⟩ softM StmtState.fresh .delete [key] true = true ∧
    finRejectedWith false full full plain StmtState.fresh .delete [key] true = false ∧
    finRejectedWith false full full softM StmtState.fresh .delete [key] true = false := by
  decide

end Gorm
