import GormModel.Model.MigrateOpts
import GormModel.Lemmas.MigrateReorder

/-
  Which tables `ReorderModels(values, true)` (the call AutoMigrate makes) puts on its result list: everything the
  requested models need — the join tables of their many2many relations (phase 1, `parseDependence`'s deferred calls),
  and from there every reference schema of an owned constraint, transitively (phase 2, `insertIntoOrderedList`).
  Lifted to the relation-level view under the configuration switches (`Model/MigrateOpts.lean`): the set does not depend
  on `DisableForeignKeyConstraintWhenMigrating`; under `IgnoreRelationshipsWhenMigrating` nothing is added.
-/
namespace Gorm.Mig

/-- tables parsed in phase 1 (`for _, value := range values { parseDependence(value, true) }`): the requested models
    and, from a parsed model, the join table of each many2many relation and the far side when it is parsed first -/
inductive JReach (g : List ModelDeps) (values : List Str) : Str → Prop
  | value {v} : v ∈ values → v ∈ tablesOf g → JReach g values v
  | join {t d j} : JReach g values t → findDeps g t = some d → j ∈ d.joins → j.2 ∈ tablesOf g → JReach g values j.2
  | far {t d j fs} : JReach g values t → findDeps g t = some d → j ∈ d.joins → j.1 = some fs → fs ∈ tablesOf g →
      JReach g values fs

/-- tables the requested models need: phase-1 tables, closed under `Depends` -/
inductive Needs (g : List ModelDeps) (values : List Str) : Str → Prop
  | base {t} : JReach g values t → Needs g values t
  | dep {n d} : Needs g values n → d ∈ depsOf g n → Needs g values d

/-! ### bare graphs: nothing is added -/

theorem parse_bare_names (g : List ModelDeps) (autoAdd : Bool) (hj : ∀ m ∈ g, m.joins = []) (fuel : Nat) (t : Str)
    (b : Bool) (s : RState) :
    ∀ x ∈ (parseDependence g autoAdd fuel t b s).names, x ∈ s.names ∨ x = t := by
  cases fuel with
  | zero => unfold parseDependence; exact fun x hx => Or.inl hx
  | succ fuel =>
    unfold parseDependence
    split
    · exact fun x hx => Or.inl hx
    · split
      · exact fun x hx => Or.inl hx
      · rename_i d hd
        have hdj : d.joins = [] := hj d (List.mem_of_find?_eq_some hd)
        simp only [hdj, List.foldl_nil]
        intro x hx
        cases b with
        | false => exact Or.inl (by simpa using hx)
        | true =>
          simp only [if_true, List.mem_append, List.mem_cons, List.not_mem_nil, or_false] at hx
          exact hx

theorem insert_bare_ordered (g : List ModelDeps) (autoAdd : Bool) (hd : ∀ m ∈ g, m.depends = []) (fuel : Nat)
    (name : Str) (s : RState) :
    ∀ x ∈ (insertOrdered g autoAdd fuel name s).ordered, x ∈ s.ordered ∨ x = name := by
  cases fuel with
  | zero => unfold insertOrdered; exact fun x hx => Or.inl hx
  | succ fuel =>
    rw [insertOrdered_succ]
    split
    · exact fun x hx => Or.inl hx
    · have hmid : insertMid g autoAdd fuel name { s with orderedSet := name :: s.orderedSet } =
          { s with orderedSet := name :: s.orderedSet } := by
        unfold insertMid
        split
        · split
          · rfl
          · rename_i d hfd
            have hdd : d.depends = [] := hd d (List.mem_of_find?_eq_some hfd)
            split
            · rw [hdd]; rfl
            · rfl
        · rfl
      rw [hmid]
      intro x hx
      simp only [List.mem_append, List.mem_cons, List.not_mem_nil, or_false] at hx
      exact hx

/-- (3) on a graph without constraints and join tables (what `IgnoreRelationshipsWhenMigrating` leaves) only
    requested models are listed -/
theorem reorder_bare (g : List ModelDeps) (values : List Str) (autoAdd : Bool)
    (h : ∀ m ∈ g, m.depends = [] ∧ m.joins = []) :
    ∀ t ∈ reorderModels g values autoAdd, t ∈ values := by
  have h1 : ∀ x ∈ (phase1 g values autoAdd).names, x ∈ values := by
    unfold phase1
    apply foldl_inv _ (fun s : RState => ∀ x ∈ s.names, x ∈ values)
    · intro b hb v hv x hx
      rcases parse_bare_names g autoAdd (fun m hm => (h m hm).2) _ v true b x hx with hx | rfl
      · exact hb x hx
      · exact hv
    · intro x hx; cases hx
  have h2 : ∀ x ∈ (phase2 g values autoAdd).ordered, x ∈ (phase1 g values autoAdd).names := by
    unfold phase2
    apply foldl_inv _ (fun s : RState => ∀ x ∈ s.ordered, x ∈ (phase1 g values autoAdd).names)
    · intro b hb n hn x hx
      rcases insert_bare_ordered g autoAdd (fun m hm => (h m hm).1) _ n b x hx with hx | rfl
      · exact hb x hx
      · exact hn
    · intro x hx; rw [(phase1_ordered g values autoAdd).1] at hx; cases hx
  intro t ht
  rw [reorderModels_eq] at ht
  exact h1 t (h2 t ht)

/-! ### relation level: what the configuration switches change -/

/-- (4) looking a table up in the extracted graph = looking the model up and extracting -/
theorem findDeps_map_relDeps (o : MigOpts) (ms : List ModelRels) (t : Str) :
    findDeps (ms.map (relDeps o)) t = (ms.find? (fun m => m.table = t)).map (relDeps o) := by
  unfold findDeps
  rw [List.find?_map]
  rfl

/-- (4) `ReorderModels` does not read `DisableForeignKeyConstraintWhenMigrating` -/
theorem reorderModelsOpt_disableFK (o : MigOpts) (ms : List ModelRels) (values : List Str) (autoAdd : Bool) :
    reorderModelsOpt o ms values autoAdd = reorderModelsOpt { o with disableFK := false } ms values autoAdd := rfl

/-! ### phase 1: fuel sufficiency and closure under join tables -/

/-- the join targets of `x` that are tables of the graph are all in `P` -/
def Closed (g : List ModelDeps) (P : List Str) (x : Str) : Prop :=
  ∀ d, findDeps g x = some d → ∀ j ∈ d.joins,
    (j.2 ∈ tablesOf g → j.2 ∈ P) ∧ (∀ fs, j.1 = some fs → fs ∈ tablesOf g → fs ∈ P)

theorem Closed.mono {g : List ModelDeps} {P P' : List Str} {x : Str} (h : Closed g P x)
    (hsub : ∀ y ∈ P, y ∈ P') : Closed g P' x := by
  intro d hd j hj
  obtain ⟨h1, h2⟩ := h d hd j hj
  exact ⟨fun hx => hsub _ (h1 hx), fun fs hfs hx => hsub _ (h2 fs hfs hx)⟩

/-- invariant of `parseDependence` with `fuel` units left, relative to the tables `st` whose calls are still running:
    the parsed tables are distinct tables of the graph (so there are at most `g.length`), every parsed table whose call
    has returned is closed, and the fuel suffices for the tables not parsed yet -/
structure PInv (g : List ModelDeps) (fuel : Nat) (st : List Str) (s : RState) : Prop where
  nodup : s.parsed.Nodup
  sub : ∀ x ∈ s.parsed, x ∈ tablesOf g
  closed : ∀ x ∈ s.parsed, x ∉ st → Closed g s.parsed x
  fuel : g.length + 1 ≤ fuel + s.parsed.length

theorem parse_succ_some {g : List ModelDeps} {autoAdd : Bool} {fuel : Nat} {t : Str} {b : Bool} {s : RState}
    {d : ModelDeps} (h1 : t ∉ s.parsed) (h2 : findDeps g t = some d) :
    parseDependence g autoAdd (fuel + 1) t b s =
      d.joins.foldl (fun s (j : Option Str × Str) =>
        parseDependence g autoAdd fuel j.2 autoAdd
          (match j.1 with
            | some fs => parseDependence g autoAdd fuel fs autoAdd s
            | none => s)) (parseStep s t b) := by
  rw [parseDependence, if_neg h1]; simp only [h2]; rfl

theorem parse_pinv (g : List ModelDeps) (autoAdd : Bool) : ∀ fuel t b s st, PInv g fuel st s →
    PInv g fuel st (parseDependence g autoAdd fuel t b s) ∧
    (t ∈ tablesOf g → t ∈ (parseDependence g autoAdd fuel t b s).parsed) := by
  intro fuel
  induction fuel with
  | zero =>
    intro t b s st h
    have := nodup_length_le s.parsed (tablesOf g) h.nodup h.sub
    have hf := h.fuel
    simp only [tablesOf, List.length_map] at this
    omega
  | succ fuel ih =>
    intro t b s st h
    by_cases htp : t ∈ s.parsed
    · have : parseDependence g autoAdd (fuel + 1) t b s = s := by rw [parseDependence, if_pos htp]
      rw [this]; exact ⟨h, fun _ => htp⟩
    · cases hfd : findDeps g t with
      | none =>
        have : parseDependence g autoAdd (fuel + 1) t b s = s := by
          rw [parseDependence, if_neg htp]; simp only [hfd]
        rw [this]
        refine ⟨h, fun ht => ?_⟩
        obtain ⟨d, hd⟩ := findDeps_of_mem ht
        rw [hfd] at hd; cases hd
      | some d =>
        refine ⟨?_, fun _ => parse_parsed g autoAdd fuel t b s hfd⟩
        rw [parse_succ_some htp hfd]
        -- state after marking `t` parsed, `t` on the stack
        have h0 : PInv g fuel (t :: st) (parseStep s t b) := by
          refine ⟨List.nodup_cons.2 ⟨htp, h.nodup⟩, ?_, ?_, ?_⟩
          · intro x hx
            rcases List.mem_cons.1 hx with rfl | hx
            · exact findDeps_some_mem hfd
            · exact h.sub x hx
          · intro x hx hxst
            rcases List.mem_cons.1 hx with rfl | hx
            · exact absurd (List.mem_cons_self ..) hxst
            · exact (h.closed x hx (fun hc => hxst (List.mem_cons_of_mem _ hc))).mono
                (fun y hy => List.mem_cons_of_mem _ hy)
          · have := h.fuel
            show g.length + 1 ≤ fuel + (t :: s.parsed).length
            simp only [List.length_cons]; omega
        have hfold := foldl_inv_mem
          (fun s (j : Option Str × Str) =>
            parseDependence g autoAdd fuel j.2 autoAdd
              (match j.1 with
                | some fs => parseDependence g autoAdd fuel fs autoAdd s
                | none => s))
          (PInv g fuel (t :: st))
          (fun (j : Option Str × Str) (r : RState) =>
            (j.2 ∈ tablesOf g → j.2 ∈ r.parsed) ∧ (∀ fs, j.1 = some fs → fs ∈ tablesOf g → fs ∈ r.parsed))
          d.joins
          (by
            intro r hr j _
            cases hj : j.1 with
            | none =>
              simp only
              have := ih j.2 autoAdd r (t :: st) hr
              exact ⟨this.1, this.2, fun fs hfs => by cases hfs⟩
            | some fs =>
              simp only
              have h1 := ih fs autoAdd r (t :: st) hr
              have h2 := ih j.2 autoAdd _ (t :: st) h1.1
              refine ⟨h2.1, h2.2, ?_⟩
              intro fs' hfs' hx
              cases hfs'
              exact (parse_prel g autoAdd fuel j.2 autoAdd _ (Or.inr rfl)).parsed_mono _ (h1.2 hx))
          (by
            intro r _ j _ j' hq
            have hmono : ∀ x ∈ r.parsed, x ∈ (parseDependence g autoAdd fuel j.2 autoAdd
                (match j.1 with
                  | some fs => parseDependence g autoAdd fuel fs autoAdd r
                  | none => r)).parsed := by
              intro x hx
              apply (parse_prel g autoAdd fuel j.2 autoAdd _ (Or.inr rfl)).parsed_mono
              cases j.1 with
              | none => exact hx
              | some fs => exact (parse_prel g autoAdd fuel fs autoAdd r (Or.inr rfl)).parsed_mono x hx
            exact ⟨fun hx => hmono _ (hq.1 hx), fun fs hfs hx => hmono _ (hq.2 fs hfs hx)⟩)
          (parseStep s t b) h0
        obtain ⟨hP, hQ⟩ := hfold
        refine ⟨hP.nodup, hP.sub, ?_, by have := hP.fuel; omega⟩
        intro x hx hxst
        by_cases hxt : x = t
        · subst hxt
          intro d' hd' j hj
          rw [hfd] at hd'; cases hd'
          exact hQ j hj
        · exact hP.closed x hx (fun hc => by
            rcases List.mem_cons.1 hc with hc | hc
            · exact hxt hc
            · exact hxst hc)

/-- after phase 1 (every `autoAdd`): the parsed tables are closed under join targets and contain the requested
    tables of the graph -/
theorem phase1_closed (g : List ModelDeps) (values : List Str) (autoAdd : Bool) :
    (∀ x ∈ (phase1 g values autoAdd).parsed, Closed g (phase1 g values autoAdd).parsed x) ∧
    ∀ v ∈ values, v ∈ tablesOf g → v ∈ (phase1 g values autoAdd).parsed := by
  unfold phase1
  have := foldl_inv_mem (fun s v => parseDependence g autoAdd (g.length + 1) v true s)
    (PInv g (g.length + 1) []) (fun v (s : RState) => v ∈ tablesOf g → v ∈ s.parsed) values
    (fun b hb v _ => parse_pinv g autoAdd (g.length + 1) v true b [] hb)
    (fun b _ v _ v' hq hv' =>
      (parse_prel g autoAdd (g.length + 1) v true b (Or.inl rfl)).parsed_mono v' (hq hv'))
    { parsed := [], values := [], names := [], ordered := [], orderedSet := [] }
    ⟨List.nodup_nil, (fun x hx => (by cases hx)), (fun x hx => (by cases hx)), (by simp)⟩
  exact ⟨fun x hx => this.1.closed x hx (fun h => by cases h), this.2⟩

theorem phase1_parsed_names (g : List ModelDeps) (values : List Str) :
    ∀ x ∈ (phase1 g values true).parsed, x ∈ (phase1 g values true).names := by
  unfold phase1
  apply foldl_inv _ (fun s : RState => ∀ x ∈ s.parsed, x ∈ s.names)
  · intro b hb v _
    exact parse_names_true g (g.length + 1) v b hb
  · intro x hx; cases hx

theorem phase1_jreach_parsed (g : List ModelDeps) (values : List Str) (autoAdd : Bool) :
    ∀ t, JReach g values t → t ∈ (phase1 g values autoAdd).parsed := by
  have hc := phase1_closed g values autoAdd
  intro t ht
  induction ht with
  | value hv hg => exact hc.2 _ hv hg
  | join _ hd hj hg ih => exact ((hc.1 _ ih) _ hd _ hj).1 hg
  | far _ hd hj hfs hg ih => exact ((hc.1 _ ih) _ hd _ hj).2 _ hfs hg

/-- (1) every table reachable from a requested model through join tables is on the list of model names after phase 1:
    the fuel `g.length + 1` of the model never runs out before an unparsed table of the graph is reached -/
theorem phase1_jreach (g : List ModelDeps) (values : List Str) :
    ∀ t, JReach g values t → t ∈ (phase1 g values true).names :=
  fun t ht => phase1_parsed_names g values t (phase1_jreach_parsed g values true t ht)

/-- (2) everything the requested models need is in the result of `ReorderModels(values, true)` -/
theorem reorder_needs (g : List ModelDeps) (values : List Str) :
    ∀ t, Needs g values t → t ∈ reorderModels g values true := by
  intro t ht
  induction ht with
  | base hj =>
    rw [reorderModels_eq]
    exact phase2_mem g values true _ (phase1_jreach g values _ hj)
  | dep _ hd ih => exact (reorder_deps_first g values _ ih _ hd).1

/-! ### relation level: what is added -/

theorem relDepends_mem {t n p : Str} {r : RelDecl} : ∀ {rs : List RelDecl}, r ∈ rs → r.con = some (n, t, p) → p ≠ t →
    p ∈ relDepends t rs
  | [], h, _, _ => by cases h
  | r' :: rs, h, hc, hp => by
    rcases List.mem_cons.1 h with rfl | h
    · unfold relDepends
      simp only [hc]
      split
      · exact List.mem_cons_self ..
      · rename_i hne
        exact absurd ⟨trivial, fun e => hp e.symm⟩ hne
    · have ih := relDepends_mem (rs := rs) h hc hp
      unfold relDepends
      split
      · split
        · exact List.mem_cons_of_mem _ ih
        · exact ih
      · exact ih

theorem relJoinsFwd_mem {be : List Str} {j : Str} {r : RelDecl} : ∀ {rs : List RelDecl}, r ∈ rs → r.join = some j →
    ∃ x, (x, j) ∈ relJoinsFwd be rs
  | [], h, _ => by cases h
  | r' :: rs, h, hj => by
    rcases List.mem_cons.1 h with rfl | h
    · unfold relJoinsFwd
      simp only [hj]
      exact ⟨_, List.mem_cons_self ..⟩
    · obtain ⟨x, ih⟩ := relJoinsFwd_mem (be := be) (rs := rs) h hj
      unfold relJoinsFwd
      split
      · exact ⟨x, List.mem_cons_of_mem _ ih⟩
      · exact ⟨x, ih⟩

theorem mem_relVisited {o : MigOpts} (ho : o.ignoreRel = false) {m : ModelRels} {r : RelDecl} (hr : r ∈ m.rels)
    (hi : r.ignoreMigration = false) : r ∈ relVisited o m := by
  unfold relVisited
  rw [ho]
  simp [hr, hi]

theorem findDeps_relDeps_of_find {o : MigOpts} {ms : List ModelRels} {m : ModelRels}
    (hm : ms.find? (fun x => x.table = m.table) = some m) :
    findDeps (ms.map (relDeps o)) m.table = some (relDeps o m) := by
  rw [findDeps_map_relDeps, hm]; rfl

theorem tablesOf_map_relDeps (o : MigOpts) (ms : List ModelRels) :
    tablesOf (ms.map (relDeps o)) = ms.map (·.table) := by
  unfold tablesOf
  rw [List.map_map]
  rfl

/-- (4) the parent of a belongs-to style constraint owned by a requested model is added, whatever
    `DisableForeignKeyConstraintWhenMigrating` says -/
theorem reorderOpt_parent_added (o : MigOpts) (ho : o.ignoreRel = false) (ms : List ModelRels) (values : List Str)
    (m : ModelRels) (hm : ms.find? (fun x => x.table = m.table) = some m) (hv : m.table ∈ values)
    (r : RelDecl) (hr : r ∈ m.rels) (hi : r.ignoreMigration = false) (n p : Str)
    (hc : r.con = some (n, m.table, p)) (hp : p ≠ m.table) :
    p ∈ reorderModelsOpt o ms values true := by
  unfold reorderModelsOpt
  have hfd := findDeps_relDeps_of_find (o := o) hm
  apply reorder_needs
  refine Needs.dep (n := m.table) (Needs.base (JReach.value hv (findDeps_some_mem hfd))) ?_
  rw [depsOf_some hfd]
  exact relDepends_mem (mem_relVisited ho hr hi) hc hp

/-- (4) the join table of a many2many relation of a requested model is added together with everything it depends on -/
theorem reorderOpt_join_added (o : MigOpts) (ho : o.ignoreRel = false) (ms : List ModelRels) (values : List Str)
    (m : ModelRels) (hm : ms.find? (fun x => x.table = m.table) = some m) (hv : m.table ∈ values)
    (r : RelDecl) (hr : r ∈ m.rels) (hi : r.ignoreMigration = false) (j : Str) (hj : r.join = some j)
    (hjm : j ∈ ms.map (·.table)) :
    j ∈ reorderModelsOpt o ms values true ∧
    ∀ d ∈ depsOf (ms.map (relDeps o)) j, d ∈ reorderModelsOpt o ms values true := by
  unfold reorderModelsOpt
  have hfd := findDeps_relDeps_of_find (o := o) hm
  obtain ⟨x, hx⟩ := relJoinsFwd_mem (be := beDependedOn (relVisited o m)) (mem_relVisited ho hr hi) hj
  have hx' : (x, j) ∈ (relDeps o m).joins := by
    show (x, j) ∈ relJoins (relVisited o m)
    unfold relJoins
    exact List.mem_reverse.2 hx
  have hjr : JReach (ms.map (relDeps o)) values j :=
    JReach.join (j := (x, j)) (JReach.value hv (findDeps_some_mem hfd)) hfd hx'
      (by rw [tablesOf_map_relDeps]; exact hjm)
  exact ⟨reorder_needs _ _ _ (Needs.base hjr), fun d hd => reorder_needs _ _ _ (Needs.dep (Needs.base hjr) hd)⟩

/-- (4) under `IgnoreRelationshipsWhenMigrating` nothing is added -/
theorem reorderOpt_ignore (o : MigOpts) (ho : o.ignoreRel = true) (ms : List ModelRels) (values : List Str) (autoAdd : Bool) :
    ∀ t ∈ reorderModelsOpt o ms values autoAdd, t ∈ values := by
  unfold reorderModelsOpt
  apply reorder_bare
  intro d hd
  obtain ⟨m, _, rfl⟩ := List.mem_map.1 hd
  have : relVisited o m = [] := by unfold relVisited; rw [ho]; rfl
  constructor
  · show relDepends m.table (relVisited o m) = []
    rw [this]; rfl
  · show relJoins (relVisited o m) = []
    rw [this]; rfl

/-! ### non-vacuity -/

def exArticle : Str := "article".toList
def exAuthor : Str := "author".toList
def exTag : Str := "tag".toList
def exArticleTags : Str := "article_tags".toList

/-- article belongs to author and has many2many tags through article_tags; the join table owns two constraints -/
def exRels : List ModelRels :=
  [ { table := exArticle, rels :=
        [ { kind := .belongsTo, target := exAuthor, ignoreMigration := false,
            con := some ("fk_article_author".toList, exArticle, exAuthor), join := none },
          { kind := .many2many, target := exTag, ignoreMigration := false, con := none,
            join := some exArticleTags } ] },
    { table := exAuthor, rels := [] },
    { table := exTag, rels := [] },
    { table := exArticleTags, rels :=
        [ { kind := .belongsTo, target := exArticle, ignoreMigration := false,
            con := some ("fk_article_tags_article".toList, exArticleTags, exArticle), join := none },
          { kind := .belongsTo, target := exTag, ignoreMigration := false,
            con := some ("fk_article_tags_tag".toList, exArticleTags, exTag), join := none } ] } ]

/-- with foreign-key constraints switched off the parent, the join table and the far side are still added -/
theorem exRels_disableFK :
    reorderModelsOpt { disableFK := true, ignoreRel := false } exRels [exArticle] true =
      [exAuthor, exArticle, exTag, exArticleTags] := by decide

/-- with the relationship scan switched off nothing is added -/
theorem exRels_ignoreRel :
    reorderModelsOpt { disableFK := true, ignoreRel := true } exRels [exArticle] true = [exArticle] := by decide

def exThing : Str := "thing".toList
def exOwner : Str := "owner".toList
def exOwnerTags : Str := "owner_tags".toList
def exTags : Str := "tags".toList

/-- thing depends on owner; owner has a many2many relation through owner_tags, which depends on owner and tags -/
def exQuirk : List ModelDeps :=
  [ { table := exThing, depends := [exOwner], joins := [] },
    { table := exOwner, depends := [], joins := [(none, exOwnerTags)] },
    { table := exOwnerTags, depends := [exOwner, exTags], joins := [] },
    { table := exTags, depends := [], joins := [] } ]

/-- quirk of the real code: `for _, name := range modelNames` evaluates the slice once, so a join table discovered
    while a DEPENDENCY is auto-added in phase 2 is parsed but never listed (`owner_tags` is not in `Needs`: `JReach`
    starts at the requested models only) -/
theorem reorder_join_behind_dependency_not_added :
    reorderModels exQuirk [exThing] true = [exOwner, exThing] := by decide

/-- requested directly, owner does bring its join table and the far side -/
theorem reorder_join_of_requested_added :
    reorderModels exQuirk [exOwner] true = [exOwner, exTags, exOwnerTags] := by decide

end Gorm.Mig
