import GormModel.Model.Callbacks
namespace Gorm

theorem getRIndex_go_none_iff (l : List String) (s : String) (i : Nat) (acc : Option Nat) :
    getRIndex.go s l i acc = none ↔ (acc = none ∧ s ∉ l) := by
  induction l generalizing i acc with
  | nil => simp [getRIndex.go]
  | cons x xs ih =>
    simp only [getRIndex.go]
    rw [ih]
    by_cases hx : x = s
    · subst hx; simp
    · simp [hx]
      intro _ _ h; exact hx h.symm

theorem getRIndex_none_iff (l : List String) (s : String) : getRIndex l s = none ↔ s ∉ l := by
  unfold getRIndex
  rw [getRIndex_go_none_iff]
  simp


/-! ### `sorted` stays duplicate-free -/

theorem nodup_cons_of_getRIndex (l : List String) (s : String)
    (h : l.Nodup) (hn : (getRIndex l s).isNone = true) : (s :: l).Nodup := by
  have : s ∉ l := (getRIndex_none_iff l s).mp (by simpa [Option.isNone_iff_eq_none] using hn)
  exact List.nodup_cons.mpr ⟨this, h⟩

theorem nodup_append_single (l : List String) (s : String)
    (h : l.Nodup) (hn : s ∉ l) : (l ++ [s]).Nodup := by
  rw [List.nodup_append]
  refine ⟨h, by simp, ?_⟩
  intro a ha b hb
  simp at hb
  subst hb
  intro hab; subst hab; exact hn ha

theorem nodup_insert_mid (l : List String) (s : String) (k : Nat)
    (h : l.Nodup) (hn : s ∉ l) : (l.take k ++ [s] ++ l.drop k).Nodup := by
  have hsplit : l = l.take k ++ l.drop k := (List.take_append_drop k l).symm
  have hnd : (l.take k ++ l.drop k).Nodup := by rw [← hsplit]; exact h
  rw [List.nodup_append] at hnd
  obtain ⟨h1, h2, h3⟩ := hnd
  have hs1 : s ∉ l.take k := fun hm => hn (List.mem_of_mem_take hm)
  have hs2 : s ∉ l.drop k := fun hm => hn (List.mem_of_mem_drop hm)
  rw [List.append_assoc, List.nodup_append]
  refine ⟨h1, ?_, ?_⟩
  · simp only [List.singleton_append]
    exact List.nodup_cons.mpr ⟨hs2, h2⟩
  · intro a ha b hb
    simp at hb
    rcases hb with hb | hb
    · subst hb; intro hab; subst hab; exact hs1 ha
    · exact h3 a ha b hb

theorem not_mem_of_isNone (l : List String) (s : String) (h : (getRIndex l s).isNone = true) : s ∉ l :=
  (getRIndex_none_iff l s).mp (by simpa [Option.isNone_iff_eq_none] using h)

theorem beforeBlock_nodup (names : List String) (i : Nat) (st : SortSt)
    (h : st.sorted.Nodup) : (beforeBlock names i st).1.sorted.Nodup := by
  unfold beforeBlock
  simp only
  split
  · split
    · split
      · rename_i hn
        exact nodup_cons_of_getRIndex _ _ h hn
      · exact h
    · split
      · split
        · rename_i hn
          exact nodup_insert_mid _ _ _ h ((getRIndex_none_iff _ _).mp hn)
        · split <;> exact h
      · split <;> exact h
  · exact h

theorem afterBlock_nodup (recur : Nat → SortSt → SortRes) (names : List String) (i : Nat) (st : SortSt)
    (hrec : ∀ j s, s.sorted.Nodup → (recur j s).1.sorted.Nodup)
    (h : st.sorted.Nodup) : (afterBlock recur names i st).1.sorted.Nodup := by
  unfold afterBlock
  simp only
  split
  · split
    · split
      · rename_i hn
        exact nodup_append_single _ _ h (not_mem_of_isNone _ _ hn)
      · exact h
    · split
      · split
        · rename_i hn
          exact nodup_append_single _ _ h ((getRIndex_none_iff _ _).mp hn)
        · split <;> exact h
      · split
        · rename_i idx _
          -- recursive calls
          have h0 : (if (st.cs[idx]!).before = "" then
              ({ st with cs := setBefore st.cs idx (st.cs[i]!).name } : SortSt) else st).sorted.Nodup := by
            split <;> exact h
          have h1 := hrec idx _ h0
          split
          · rename_i st1 e heq
            rw [heq] at h1; exact h1
          · rename_i st1 heq
            rw [heq] at h1
            exact hrec i st1 h1
        · exact h
  · exact h

theorem finalBlock_nodup (cname : String) (st : SortSt)
    (h : st.sorted.Nodup) : (finalBlock cname st).1.sorted.Nodup := by
  unfold finalBlock
  split
  · rename_i hn
    exact nodup_append_single _ _ h (not_mem_of_isNone _ _ hn)
  · exact h

theorem sortCallback_nodup (names : List String) (fuel i : Nat) (st : SortSt)
    (h : st.sorted.Nodup) : (sortCallback names fuel i st).1.sorted.Nodup := by
  induction fuel generalizing i st with
  | zero => simpa [sortCallback] using h
  | succ fuel ih =>
    unfold sortCallback
    simp only
    have h1 := beforeBlock_nodup names i st h
    split
    · rename_i st1 e heq
      rw [heq] at h1; exact h1
    · rename_i st1 heq
      rw [heq] at h1
      have h2 := afterBlock_nodup (sortCallback names fuel) names i st1 (fun j s hs => ih j s hs) h1
      split
      · rename_i st2 e heq2
        rw [heq2] at h2; exact h2
      · rename_i st2 heq2
        rw [heq2] at h2
        exact finalBlock_nodup _ _ h2

theorem sortLoop_nodup (names : List String) (fuel k i : Nat) (st : SortSt)
    (h : st.sorted.Nodup) : (sortLoop names fuel k i st).1.sorted.Nodup := by
  induction k generalizing i st with
  | zero => simpa [sortLoop] using h
  | succ k ih =>
    unfold sortLoop
    have h1 := sortCallback_nodup names fuel i st h
    split
    · rename_i st1 e heq
      rw [heq] at h1; exact h1
    · rename_i st1 heq
      rw [heq] at h1
      exact ih (i+1) st1 h1

theorem sortCallbacks_nodup (cs : List Cb) : (sortCallbacks cs).sorted.Nodup := by
  unfold sortCallbacks
  simp only
  have h := sortLoop_nodup ((stableSortCbs cs).map (·.name)) (sortFuel (stableSortCbs cs).length)
    (stableSortCbs cs).length 0 { cs := (stableSortCbs cs).toArray, sorted := [] } (by simp)
  split
  · rename_i st e heq
    rw [heq] at h; exact h
  · rename_i st heq
    rw [heq] at h; exact h

end Gorm
