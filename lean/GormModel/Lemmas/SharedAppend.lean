import GormModel.Model.SliceAlias
import GormModel.Gen.SharedAppend
import GormModel.Gen.CloneFacts
/-! C07 (round 5): appends through derived statements — the slice model (all heaps, all values, any growth policy) and the
  regenerated append / clone / logger facts. -/
namespace Gorm.SliceAlias

theorem cells_append_left (h : Heap) (x : List Nat) (a : Nat) (ha : a < h.length) : cells (h ++ [x]) a = cells h a := by
  simp [cells, List.getD, List.getElem?_append_left ha]

theorem cells_set_ne (h : Heap) (i a : Nat) (x : List Nat) (hne : a ≠ i) : cells (h.set i x) a = cells h a := by
  simp [cells, List.getD, List.getElem?_set_ne (Ne.symm hne)]

/-- invariant of a derived chain relative to the heap `n` arrays long it started from: its array is a later one -/
def Priv (n : Nat) (p : Heap × Sl) : Prop := n ≤ p.2.arr ∧ p.2.arr < p.1.length ∧ n ≤ p.1.length

theorem append_priv (grow : Nat → Nat) (n : Nat) (p : Heap × Sl) (v : Nat) (hp : Priv n p) :
    Priv n (append grow p.1 p.2 v) ∧ ∀ a, a < n → cells (append grow p.1 p.2 v).1 a = cells p.1 a := by
  obtain ⟨h1, h2, h3⟩ := hp
  unfold append
  split
  · refine ⟨⟨h1, by simpa using h2, by simpa using h3⟩, ?_⟩
    intro a ha
    exact cells_set_ne _ _ _ _ (by omega)
  · refine ⟨⟨by simpa using h3, by simp, by simp; omega⟩, ?_⟩
    intro a ha
    exact cells_append_left _ _ _ (by omega)

theorem foldl_priv (grow : Nat → Nat) (n : Nat) (vs : List Nat) (p : Heap × Sl) (hp : Priv n p) :
    ∀ a, a < n → cells (vs.foldl (fun p v => append grow p.1 p.2 v) p).1 a = cells p.1 a := by
  induction vs generalizing p with
  | nil => intro a _; rfl
  | cons v rest ih =>
    intro a ha
    have h := append_priv grow n p v hp
    simp only [List.foldl_cons]
    rw [ih _ h.1 a ha, h.2 a ha]

theorem copyExact_priv (h : Heap) (s : Sl) : Priv h.length (copyExact h s) := by
  simp [Priv, copyExact]

theorem copyExact_cells (h : Heap) (s : Sl) (a : Nat) (ha : a < h.length) : cells (copyExact h s).1 a = cells h a :=
  cells_append_left _ _ _ ha

/-- a chain that starts from clone's private exactly-sized copy never writes a cell of any array that existed before — whatever
  the handle's list length and capacity, however many values are appended, whatever the growth policy -/
theorem derive_copied_keeps_heap (grow : Nat → Nat) (h : Heap) (s : Sl) (vs : List Nat) (a : Nat) (ha : a < h.length) :
    cells (derive true grow h s vs).1 a = cells h a := by
  unfold derive
  simp only [if_true]
  rw [foldl_priv grow h.length vs _ (copyExact_priv h s) a ha, copyExact_cells h s a ha]

end Gorm.SliceAlias

namespace Gorm
open Gorm.Gen

/-- how Statement.clone treats a field: `makeCopy` (private exactly-sized copy), else whatever the literal says -/
def c07CloneCopies (f : String) : Bool := cloneLater.contains (f, "makeCopy")

/-- an append site is safe on a per-call instance if the same call allocated the list, or clone hands out a private copy -/
def c07AppendSafe (s : AppendSite) : Bool := s.fresh || c07CloneCopies s.field

/-- does the tree's clone copy the lists the chain methods append to (the mode the slice model runs in) -/
def c07ChainAppendsCopied : Bool :=
  (stmtAppendSites.filter (fun s => s.file == "chainable_api.go")).all c07AppendSafe

end Gorm
