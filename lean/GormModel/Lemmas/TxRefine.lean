/-
  Refinement lemmas about Model/Tx.lean:
    * `Mono`: the call counter and the ghost flags `stale` / `rbFault` never go back, for every operation and program;
    * the save-point stack discipline (`StackExt`): push or truncate-to-a-found-entry, fresh auto names;
    * `nested_local`: a failing nested block restores exactly its entry snapshot;
    * `run_refines`: on rb-free programs, in runs without stale use and without ROLLBACK TO faults, `run` = `spec`.
-/
import GormModel.Lemmas.Tx
namespace Gorm.Tx

/-! ### monotone ghosts -/

def Mono (db db' : DB) : Prop :=
  db.calls ≤ db'.calls ∧ (db.stale = true → db'.stale = true) ∧ (db.rbFault = true → db'.rbFault = true)

theorem Mono.refl (db : DB) : Mono db db := ⟨Nat.le_refl _, id, id⟩
theorem Mono.trans {a b c : DB} (h1 : Mono a b) (h2 : Mono b c) : Mono a c :=
  ⟨Nat.le_trans h1.1 h2.1, fun h => h2.2.1 (h1.2.1 h), fun h => h2.2.2 (h1.2.2 h)⟩

theorem markStale_mono (h : Handle) (db : DB) : Mono db (markStale h db) := by
  unfold markStale; split
  · exact Mono.refl db
  · exact ⟨Nat.le_refl _, fun _ => rfl, id⟩

theorem markStale_clean (h : Handle) (db : DB) (he : h.err = []) : markStale h db = db := by
  unfold markStale; simp [he]

theorem markStale_poisoned (h : Handle) (db : DB) (he : h.err ≠ []) : (markStale h db).stale = true := by
  unfold markStale; simp [he]

theorem markStale_idem (h : Handle) (db : DB) : markStale h (markStale h db) = markStale h db := by
  unfold markStale; split <;> simp_all

theorem drvBegin_mono (o : Oracle) (db : DB) : Mono db (drvBegin o db).1 := by
  unfold drvBegin tick Mono; dsimp only; split <;> simp
theorem drvExecPool_mono (o : Oracle) (w : Write) (db : DB) : Mono db (drvExecPool o w db).1 := by
  unfold drvExecPool tick Mono; dsimp only; split
  · simp
  · split <;> simp
theorem drvExecTx_mono (o : Oracle) (w : Write) (db : DB) : Mono db (drvExecTx o w db).1 := by
  unfold drvExecTx tick Mono; split
  · simp
  · dsimp only; split
    · simp
    · split <;> simp
theorem drvQueryPool_mono (o : Oracle) (cond : List Nat) (db : DB) : Mono db (drvQueryPool o cond db).1 := by
  unfold drvQueryPool tick Mono; dsimp only; split <;> simp
theorem drvQueryTx_mono (o : Oracle) (cond : List Nat) (db : DB) : Mono db (drvQueryTx o cond db).1 := by
  unfold drvQueryTx tick Mono; split
  · simp
  · dsimp only; split <;> simp
theorem drvSavepoint_mono (o : Oracle) (n : SpName) (db : DB) : Mono db (drvSavepoint o n db).1 := by
  unfold drvSavepoint tick Mono; split
  · simp
  · dsimp only; split <;> simp
theorem drvRollbackTo_mono (o : Oracle) (n : SpName) (db : DB) : Mono db (drvRollbackTo o n db).1 := by
  unfold drvRollbackTo tick Mono; split
  · simp
  · dsimp only; split
    · simp
    · split <;> simp
theorem drvCommit_mono (o : Oracle) (db : DB) : Mono db (drvCommit o db).1 := by
  unfold drvCommit tick Mono; split
  · simp
  · dsimp only; split <;> simp
theorem drvRollback_mono (db : DB) : Mono db (drvRollback db).1 := by
  unfold drvRollback tickR Mono; split <;> simp

theorem drvBeginOrphan_mono (o : Oracle) (db : DB) : Mono db (drvBeginOrphan o db).1 := by
  unfold drvBeginOrphan tick Mono; dsimp only; split <;> simp
theorem drvBeginVia_mono (o : Oracle) (h : Handle) (db : DB) : Mono db (drvBeginVia o h db).1 := by
  unfold drvBeginVia; split
  · exact drvBegin_mono o db
  · exact drvBeginOrphan_mono o db

theorem gormBegin_mono (g : Bool) (o : Oracle) (h : Handle) (db : DB) : Mono db (gormBegin g o h db).1 := by
  unfold gormBegin; split
  · exact Mono.refl db
  · split
    · exact drvBeginVia_mono o h db
    · exact drvBeginVia_mono o h db
    · exact Mono.refl db

theorem tick_mono (o : Oracle) (k : K) (db : DB) : Mono db (tick o k db).1 := by
  unfold tick Mono; simp
theorem gormMiss_mono (o : Oracle) (h : Handle) (db : DB) : Mono db (gormMiss o h db).1 := by
  rcases gormMiss_tick o h db with h1 | h1 <;> rw [h1]
  · exact Mono.refl db
  · exact tick_mono o .Q db
theorem failH_mono (o : Oracle) (src : FailSrc) (h : Handle) (db : DB) : Mono db (failH o src h db).1 := by
  cases src
  · exact Mono.refl db
  · exact gormMiss_mono o h db
theorem gormCommit_mono (o : Oracle) (h : Handle) (db : DB) : Mono db (gormCommit o h db).1 := by
  unfold gormCommit; split
  · exact drvCommit_mono o db
  · exact drvCommit_mono o db
  · exact Mono.refl db
theorem gormRollback_mono (h : Handle) (db : DB) : Mono db (gormRollback h db).1 := by
  unfold gormRollback; split
  · exact drvRollback_mono db
  · exact drvRollback_mono db
  · exact Mono.refl db
theorem execRawTx_mono (h : Handle) (call : DB → DB × Err) (db : DB) (hc : ∀ d, Mono d (call d).1) :
    Mono db (execRawTx h call db).1 := by
  unfold execRawTx; split
  · exact hc db
  · exact Mono.refl db
theorem gormSavePoint_mono (o : Oracle) (h : Handle) (n : SpName) (db : DB) : Mono db (gormSavePoint o h n db).1 := by
  unfold gormSavePoint; exact execRawTx_mono h _ db (drvSavepoint_mono o n)
theorem gormRollbackTo_mono (o : Oracle) (h : Handle) (n : SpName) (db : DB) : Mono db (gormRollbackTo o h n db).1 := by
  unfold gormRollbackTo; exact execRawTx_mono h _ db (drvRollbackTo_mono o n)

theorem gormWrite_mono (c : Cfg) (o : Oracle) (h : Handle) (w : Write) (db : DB) : Mono db (gormWrite c o h w db).1 := by
  unfold gormWrite
  dsimp only
  split
  · exact Mono.refl db
  · split
    · exact drvExecTx_mono o _ db
    · split
      · exact drvExecPool_mono o _ db
      · have hb := gormBegin_mono c.beginGuard o h db
        generalize gormBegin c.beginGuard o h db = b at hb
        obtain ⟨db1, tx⟩ := b
        dsimp only at hb ⊢
        split
        · exact hb
        · have he := drvExecTx_mono o (effWrite h.effCond w) db1
          generalize drvExecTx o (effWrite h.effCond w) db1 = e at he
          obtain ⟨db2, e⟩ := e
          dsimp only at he ⊢
          split
          · exact (hb.trans he).trans (gormRollback_mono tx db2)
          · exact (hb.trans he).trans (gormCommit_mono o tx db2)

theorem gormQuery_mono (o : Oracle) (h : Handle) (db : DB) : Mono db (gormQuery o h db).1 := by
  unfold gormQuery; split
  · exact Mono.refl db
  · split
    · exact drvQueryTx_mono o _ db
    · exact drvQueryPool_mono o _ db

theorem fnEnd_mono (h : Handle) (r : Res) (out : Out) (tag : Nat) (db : DB) : Mono db (fnEnd h r out tag db).1 := by
  unfold fnEnd; split
  · dsimp only; split
    · exact markStale_mono h db
    · exact Mono.refl db
  · exact Mono.refl db

theorem finishRoot_mono (o : Oracle) (h : Handle) (out : Out) (tag : Nat) (x : DB × Handle × Res) :
    Mono x.1 (finishRoot o h out tag x).1 := by
  obtain ⟨db, tx, r⟩ := x
  unfold finishRoot
  dsimp only
  have hf := fnEnd_mono tx r out tag db
  generalize fnEnd tx r out tag db = fe at hf
  obtain ⟨db1, r1⟩ := fe
  dsimp only at hf ⊢
  split
  · split
    · exact (hf.trans (gormCommit_mono o tx db1)).trans (gormRollback_mono _ _)
    · exact hf.trans (gormCommit_mono o tx db1)
  · exact hf.trans (gormRollback_mono _ _)

theorem finishNested_mono (o : Oracle) (h1 : Handle) (name : SpName) (out : Out) (tag : Nat) (x : DB × Handle × Res) :
    Mono x.1 (finishNested o h1 name out tag x).1 := by
  obtain ⟨db, inner, r⟩ := x
  unfold finishNested
  dsimp only
  have hf := fnEnd_mono inner r out tag db
  generalize fnEnd inner r out tag db = fe at hf
  obtain ⟨db1, r1⟩ := fe
  dsimp only at hf ⊢
  split
  · exact hf
  · exact hf.trans (gormRollbackTo_mono o h1 name db1)

theorem finishDis_mono (h : Handle) (out : Out) (tag : Nat) (x : DB × Handle × Res) :
    Mono x.1 (finishDis h out tag x).1 := by
  obtain ⟨db, inner, r⟩ := x
  unfold finishDis
  exact fnEnd_mono inner r out tag db

theorem finishMan_mono (o : Oracle) (h : Handle) (fin : Fin) (x : DB × Handle × Res) :
    Mono x.1 (finishMan o h fin x).1 := by
  obtain ⟨db, tx, r⟩ := x
  unfold finishMan
  dsimp only
  split
  · split
    · exact (markStale_mono tx db).trans (gormCommit_mono o tx _)
    · exact (markStale_mono tx db).trans (gormRollback_mono tx _)
  · exact gormRollback_mono _ _

mutual
theorem runChild_mono (c : Cfg) (o : Oracle) : ∀ (p : Prog) (h : Handle) (db : DB), Mono db (runChild c o h p db).1
  | .write w m, h, db => by
    unfold runChild
    exact (markStale_mono h db).trans (gormWrite_mono c o h w _)
  | .read m, h, db => by
    unfold runChild
    exact (markStale_mono h db).trans (gormQuery_mono o h _)
  | .sp n m, h, db => by
    unfold runChild
    exact (markStale_mono h db).trans (gormSavePoint_mono o h _ _)
  | .rb n m, h, db => by
    unfold runChild
    exact (markStale_mono h db).trans (gormRollbackTo_mono o h _ _)
  | .endtx m, h, db => by
    unfold runChild
    exact (markStale_mono h db).trans (gormRollback_mono h _)
  | .blk body out tag m, h, db => by
    unfold runChild
    dsimp only
    have h0 := markStale_mono h db
    split
    · split
      · have hs := gormSavePoint_mono o h (SpName.auto (markStale h db).calls) (markStale h db)
        split
        · exact h0.trans hs
        · exact (h0.trans hs).trans ((runBody_mono c o body _ _).trans (finishNested_mono o _ _ out tag _))
      · exact h0.trans ((runBody_mono c o body _ _).trans (finishDis_mono h out tag _))
    · have hb := gormBegin_mono c.beginGuard o h (markStale h db)
      split
      · exact h0.trans hb
      · exact (h0.trans hb).trans ((runBody_mono c o body _ _).trans (finishRoot_mono o h out tag _))
  | .man body fin m, h, db => by
    unfold runChild
    dsimp only
    have h0 := markStale_mono h db
    have hb := gormBegin_mono c.beginGuard o h (markStale h db)
    split
    · exact h0.trans hb
    · exact (h0.trans hb).trans ((runBody_mono c o body _ _).trans (finishMan_mono o h fin _))
  | .dv k body m, h, db => by
    have ih := runBody_mono c o body (derive k h) (markStale h db)
    unfold runChild
    generalize runBody c o (derive k h) body (markStale h db) = r at ih
    obtain ⟨db1, h1, r1⟩ := r
    exact (markStale_mono h db).trans ih
  | .fh src body m, h, db => by
    have ih := runBody_mono c o body (failH o src h (markStale h db)).2 (failH o src h (markStale h db)).1
    unfold runChild
    generalize runBody c o (failH o src h (markStale h db)).2 body (failH o src h (markStale h db)).1 = r at ih
    obtain ⟨db1, h1, r1⟩ := r
    exact ((markStale_mono h db).trans (failH_mono o src h _)).trans ih
theorem runBody_mono (c : Cfg) (o : Oracle) : ∀ (ps : List Prog) (h : Handle) (db : DB), Mono db (runBody c o h ps db).1
  | [], h, db => by unfold runBody; exact Mono.refl db
  | p :: ps, h, db => by
    have ih1 := runChild_mono c o p h db
    unfold runBody
    generalize runChild c o h p db = r1 at ih1
    obtain ⟨db1, h1, r⟩ := r1
    dsimp only at ih1 ⊢
    have ih2 := runBody_mono c o ps h1 db1
    split
    · exact ih1.trans ih2
    · split
      · exact ih1
      · exact ih1.trans ih2
end

/-- inside a transaction every program is covered by the model -/
theorem wf_true_aux : ∀ (n : Nat), (∀ p : Prog, sizeOf p ≤ n → wfChild true p = true) ∧
    (∀ ps : List Prog, sizeOf ps ≤ n → wfBody true ps = true) := by
  intro n
  induction n with
  | zero =>
    refine ⟨fun p hp => ?_, fun ps hps => ?_⟩
    · cases p <;> simp at hp <;> omega
    · cases ps <;> simp at hps
  | succ n ih =>
    refine ⟨fun p hp => ?_, fun ps hps => ?_⟩
    · cases p <;> simp [wfChild] <;> simp at hp <;> exact ih.2 _ (by omega)
    · cases ps with
      | nil => rfl
      | cons p ps =>
        simp at hps
        simp [wfBody]
        exact ⟨ih.1 _ (by omega), ih.2 _ (by omega)⟩

theorem wfChild_true (p : Prog) : wfChild true p = true := (wf_true_aux (sizeOf p)).1 p (Nat.le_refl _)
theorem wfBody_true (ps : List Prog) : wfBody true ps = true := (wf_true_aux (sizeOf ps)).2 ps (Nat.le_refl _)

/-! ### the save-point stack: push, or truncate to a found entry -/

/-- every auto-generated name in `l` was generated at call number ≥ `n` -/
def Fresh (n : Nat) (l : List (SpName × Store)) : Prop := ∀ k s, (SpName.auto k, s) ∈ l → n ≤ k

theorem Fresh.mono {n m : Nat} {l : List (SpName × Store)} (h : Fresh m l) (hnm : n ≤ m) : Fresh n l :=
  fun k s hk => Nat.le_trans hnm (h k s hk)
theorem Fresh.nil (n : Nat) : Fresh n [] := fun _ _ h => by cases h
theorem Fresh.append {n : Nat} {a b : List (SpName × Store)} (ha : Fresh n a) (hb : Fresh n b) : Fresh n (a ++ b) :=
  fun k s h => by
    rcases List.mem_append.mp h with h | h
    · exact ha k s h
    · exact hb k s h

/-- `cur` = some new entries (with fresh auto names) on top of a suffix of `base` -/
def StackExt (n : Nat) (base cur : List (SpName × Store)) : Prop :=
  ∃ new suf, cur = new ++ suf ∧ suf <:+ base ∧ Fresh n new

theorem StackExt.refl (n : Nat) (l : List (SpName × Store)) : StackExt n l l :=
  ⟨[], l, rfl, List.suffix_refl l, Fresh.nil n⟩

theorem StackExt.trans {n m : Nat} {a b c : List (SpName × Store)}
    (h1 : StackExt n a b) (h2 : StackExt m b c) (hnm : n ≤ m) : StackExt n a c := by
  obtain ⟨new1, suf1, rfl, hs1, hf1⟩ := h1
  obtain ⟨new2, suf2, rfl, hs2, hf2⟩ := h2
  obtain ⟨pre, hpre⟩ := hs2
  rcases List.append_eq_append_iff.mp hpre with ⟨a', h1, h2⟩ | ⟨c', _, h2⟩
  · subst h2
    refine ⟨new2 ++ a', suf1, by simp, hs1, Fresh.append (hf2.mono hnm) ?_⟩
    intro k s hk
    exact hf1 k s (by rw [h1]; exact List.mem_append_right _ hk)
  · refine ⟨new2, suf2, rfl, ?_, hf2.mono hnm⟩
    exact List.IsSuffix.trans ⟨c', h2.symm⟩ hs1

theorem findSp_some {name : SpName} : ∀ {l : List (SpName × Store)} {s : Store} {sv : List (SpName × Store)},
    findSp name l = some (s, sv) → sv <:+ l ∧ ∃ rest, sv = (name, s) :: rest
  | [], _, _, h => by simp [findSp] at h
  | (n, s0) :: rest, s, sv, h => by
    unfold findSp at h
    split at h
    · rename_i hn
      simp only [Option.some.injEq, Prod.mk.injEq] at h
      obtain ⟨rfl, rfl⟩ := h
      exact ⟨List.suffix_refl _, rest, by rw [hn]⟩
    · have ih := findSp_some h
      exact ⟨List.IsSuffix.trans ih.1 (List.suffix_cons _ _), ih.2⟩

theorem findSp_append {name : SpName} : ∀ (new l : List (SpName × Store)), (∀ s, (name, s) ∉ new) →
    findSp name (new ++ l) = findSp name l
  | [], _, _ => rfl
  | (n, s0) :: rest, l, h => by
    have hne : n ≠ name := fun he => h s0 (by rw [he]; exact List.mem_cons_self ..)
    simp only [List.cons_append, findSp, hne, if_false]
    exact findSp_append rest l (fun s hs => h s (List.mem_cons_of_mem _ hs))

theorem findSp_none {name : SpName} : ∀ (l : List (SpName × Store)), (∀ s, (name, s) ∉ l) → findSp name l = none
  | [], _ => rfl
  | (n, s0) :: rest, h => by
    have hne : n ≠ name := fun he => h s0 (by rw [he]; exact List.mem_cons_self ..)
    simp only [findSp, hne, if_false]
    exact findSp_none rest (fun s hs => h s (List.mem_cons_of_mem _ hs))

@[simp] theorem findSp_self (name : SpName) (v : Store) (S : List (SpName × Store)) :
    findSp name ((name, v) :: S) = some (v, (name, v) :: S) := by
  simp [findSp]

/-- one step of a function body on the open transaction: it stays open; its save-point stack is extended / truncated -/
def TxStep (db db' : DB) : Prop :=
  ∀ t, db.tx = some t → ∃ t', db'.tx = some t' ∧ StackExt db.calls t.saves t'.saves

theorem TxStep.of_tx_eq {db db' : DB} (h : db'.tx = db.tx) : TxStep db db' :=
  fun t ht => ⟨t, by rw [h, ht], StackExt.refl _ _⟩
theorem TxStep.refl (db : DB) : TxStep db db := TxStep.of_tx_eq rfl
theorem TxStep.trans {a b c : DB} (h1 : TxStep a b) (hm : a.calls ≤ b.calls) (h2 : TxStep b c) : TxStep a c := by
  intro t ht
  obtain ⟨t1, ht1, he1⟩ := h1 t ht
  obtain ⟨t2, ht2, he2⟩ := h2 t1 ht1
  exact ⟨t2, ht2, he1.trans he2 hm⟩

theorem markStale_step (h : Handle) (db : DB) : TxStep db (markStale h db) := TxStep.of_tx_eq (by simp)

theorem drvExecTx_step (o : Oracle) (w : Write) (db : DB) : TxStep db (drvExecTx o w db).1 := by
  intro t ht
  obtain ⟨cur, hc⟩ := drvExecTx_saves o w db t ht
  exact ⟨_, hc, StackExt.refl _ _⟩

theorem drvQueryTx_tx (o : Oracle) (cond : List Nat) (db : DB) : (drvQueryTx o cond db).1.tx = db.tx := by
  unfold drvQueryTx tick; split
  · rfl
  · rename_i t ht; dsimp only; split <;> simp [ht]

theorem drvSavepoint_step (o : Oracle) (name : SpName) (db : DB) (hn : ∀ k, name = .auto k → db.calls ≤ k) :
    TxStep db (drvSavepoint o name db).1 := by
  intro t ht
  unfold drvSavepoint tick
  rw [ht]; dsimp only
  split
  · exact ⟨t, by simp [ht], StackExt.refl _ _⟩
  · refine ⟨_, rfl, [(name, t.cur)], t.saves, rfl, List.suffix_refl _, ?_⟩
    intro k s hk
    simp only [List.mem_singleton, Prod.mk.injEq] at hk
    exact hn k hk.1.symm

theorem drvRollbackTo_step (o : Oracle) (name : SpName) (db : DB) : TxStep db (drvRollbackTo o name db).1 := by
  intro t ht
  unfold drvRollbackTo tick
  rw [ht]; dsimp only
  split
  · exact ⟨t, by simp [ht], StackExt.refl _ _⟩
  · split
    · exact ⟨t, by simp [ht], StackExt.refl _ _⟩
    · rename_i s sv hf
      exact ⟨_, rfl, [], sv, rfl, (findSp_some hf).1, Fresh.nil _⟩

theorem execRawTx_step (h : Handle) (call : DB → DB × Err) (db : DB) (hc : TxStep db (call db).1) :
    TxStep db (execRawTx h call db).1 := by
  unfold execRawTx; split
  · exact hc
  · exact TxStep.refl db

theorem gormSavePoint_step (o : Oracle) (h : Handle) (name : SpName) (db : DB) (hn : ∀ k, name = .auto k → db.calls ≤ k) :
    TxStep db (gormSavePoint o h name db).1 := by
  unfold gormSavePoint; exact execRawTx_step h _ db (drvSavepoint_step o name db hn)
theorem gormRollbackTo_step (o : Oracle) (h : Handle) (name : SpName) (db : DB) :
    TxStep db (gormRollbackTo o h name db).1 := by
  unfold gormRollbackTo; exact execRawTx_step h _ db (drvRollbackTo_step o name db)

theorem gormWrite_step (c : Cfg) (o : Oracle) (h : Handle) (w : Write) (db : DB) (hp : h.pool.isCommitter = true) :
    TxStep db (gormWrite c o h w db).1 := by
  unfold gormWrite
  dsimp only
  split
  · exact TxStep.refl db
  · exact drvExecTx_step o _ db

theorem gormQuery_step (o : Oracle) (h : Handle) (db : DB) (hp : h.pool.isCommitter = true) :
    TxStep db (gormQuery o h db).1 := by
  unfold gormQuery
  split
  · exact TxStep.refl db
  · exact TxStep.of_tx_eq (drvQueryTx_tx o _ db)

theorem failH_step (o : Oracle) (src : FailSrc) (h : Handle) (db : DB) : TxStep db (failH o src h db).1 :=
  TxStep.of_tx_eq (by simp)

theorem fnEnd_calls (h : Handle) (r : Res) (out : Out) (tag : Nat) (db : DB) : (fnEnd h r out tag db).1.calls = db.calls := by
  unfold fnEnd; split
  · dsimp only; split <;> simp
  · rfl

theorem finishNested_step (o : Oracle) (h1 : Handle) (name : SpName) (out : Out) (tag : Nat) (x : DB × Handle × Res) :
    TxStep x.1 (finishNested o h1 name out tag x).1 := by
  obtain ⟨db, inner, r⟩ := x
  unfold finishNested
  dsimp only
  have hf : TxStep db (fnEnd inner r out tag db).1 := TxStep.of_tx_eq (by simp)
  have hc := fnEnd_calls inner r out tag db
  generalize fnEnd inner r out tag db = fe at hf hc
  obtain ⟨db1, r1⟩ := fe
  dsimp only at hf hc ⊢
  split
  · exact hf
  · exact hf.trans (Nat.le_of_eq hc.symm) (gormRollbackTo_step o h1 name db1)

theorem finishDis_step (h : Handle) (out : Out) (tag : Nat) (x : DB × Handle × Res) :
    TxStep x.1 (finishDis h out tag x).1 := by
  obtain ⟨db, inner, r⟩ := x
  unfold finishDis
  exact TxStep.of_tx_eq (by simp)

/- THE STACK DISCIPLINE: whatever a statement / a body does on a transaction handle (nested blocks of any depth and any
    outcome, manual save points and rollbacks, derived handles, faults anywhere), the driver transaction stays open and its
    save-point stack is: entries pushed since (auto names generated at a call number ≥ the entry counter) on top of a suffix
    of the stack at entry. -/
mutual
theorem runChild_step (c : Cfg) (o : Oracle) : ∀ (p : Prog) (h : Handle) (db : DB),
    h.pool.isCommitter = true → noEndChild p = true → TxStep db (runChild c o h p db).1
  | .endtx m, h, db, _, hne => by simp [noEndChild] at hne
  | .write w m, h, db, hp, _ => by
    unfold runChild
    exact (markStale_step h db).trans (markStale_mono h db).1 (gormWrite_step c o h w _ hp)
  | .read m, h, db, hp, _ => by
    unfold runChild
    exact (markStale_step h db).trans (markStale_mono h db).1 (gormQuery_step o h _ hp)
  | .sp n m, h, db, _, _ => by
    unfold runChild
    exact (markStale_step h db).trans (markStale_mono h db).1 (gormSavePoint_step o h _ _ (fun k hk => by cases hk))
  | .rb n m, h, db, _, _ => by
    unfold runChild
    exact (markStale_step h db).trans (markStale_mono h db).1 (gormRollbackTo_step o h _ _)
  | .blk body out tag m, h, db, hp, hne => by
    have hnb : noEndBody body = true := by rw [noEndChild_blk] at hne; exact hne
    unfold runChild
    dsimp only
    simp only [hp, if_true]
    have h0 := markStale_step h db
    have m0 := (markStale_mono h db).1
    split
    · have hs := gormSavePoint_step o h (SpName.auto (markStale h db).calls) (markStale h db)
        (fun k hk => by cases hk; exact Nat.le_refl _)
      have ms := (gormSavePoint_mono o h (SpName.auto (markStale h db).calls) (markStale h db)).1
      split
      · exact h0.trans m0 hs
      · have ih := runBody_step c o body
          (nestH (gormSavePoint o h (SpName.auto (markStale h db).calls) (markStale h db)).2)
          (gormSavePoint o h (SpName.auto (markStale h db).calls) (markStale h db)).1 (by simpa using hp) hnb
        have mb := (runBody_mono c o body
          (nestH (gormSavePoint o h (SpName.auto (markStale h db).calls) (markStale h db)).2)
          (gormSavePoint o h (SpName.auto (markStale h db).calls) (markStale h db)).1).1
        exact (h0.trans m0 hs).trans (Nat.le_trans m0 ms)
          (ih.trans mb (finishNested_step o _ _ out tag _))
    · have ih := runBody_step c o body (nestH h) (markStale h db) (by simpa using hp) hnb
      have mb := (runBody_mono c o body (nestH h) (markStale h db)).1
      exact h0.trans m0 (ih.trans mb (finishDis_step h out tag _))
  | .man body fin m, h, db, hp, _ => by
    unfold runChild
    dsimp only
    have hb := gormBegin_committer c.beginGuard o h (markStale h db) hp
    rw [if_pos hb.2, hb.1]
    exact markStale_step h db
  | .dv k body m, h, db, hp, hne => by
    have hnb : noEndBody body = true := by rw [noEndChild_dv] at hne; exact hne
    have ih := runBody_step c o body (derive k h) (markStale h db) (by rw [derive_isCommitter]; exact hp) hnb
    unfold runChild
    generalize runBody c o (derive k h) body (markStale h db) = r at ih
    obtain ⟨db1, h1, r1⟩ := r
    exact (markStale_step h db).trans (markStale_mono h db).1 ih
  | .fh src body m, h, db, hp, hne => by
    have hnb : noEndBody body = true := by rw [noEndChild_fh] at hne; exact hne
    have ih := runBody_step c o body (failH o src h (markStale h db)).2 (failH o src h (markStale h db)).1
      (by rw [failH_pool]; exact hp) hnb
    unfold runChild
    generalize runBody c o (failH o src h (markStale h db)).2 body (failH o src h (markStale h db)).1 = r at ih
    obtain ⟨db1, h1, r1⟩ := r
    exact ((markStale_step h db).trans (markStale_mono h db).1 (failH_step o src h _)).trans
      ((markStale_mono h db).trans (failH_mono o src h _)).1 ih
theorem runBody_step (c : Cfg) (o : Oracle) : ∀ (ps : List Prog) (h : Handle) (db : DB),
    h.pool.isCommitter = true → noEndBody ps = true → TxStep db (runBody c o h ps db).1
  | [], h, db, _, _ => by unfold runBody; exact TxStep.refl db
  | p :: ps, h, db, hp, hne => by
    have hnn : noEndChild p = true ∧ noEndBody ps = true := by simpa [noEndBody_cons] using hne
    have ih1 := runChild_step c o p h db hp hnn.1
    have m1 := (runChild_mono c o p h db).1
    have hpool := (runChild_frame c o p h db (by rw [hp]; exact wfChild_true p)).1
    unfold runBody
    generalize runChild c o h p db = r1 at ih1 m1 hpool
    obtain ⟨db1, h1, r⟩ := r1
    dsimp only at ih1 m1 hpool ⊢
    have ih2 := runBody_step c o ps h1 db1 (by rw [hpool]; exact hp) hnn.2
    split
    · exact ih1.trans m1 ih2
    · split
      · exact ih1
      · exact ih1.trans m1 ih2
end

/-! ### A. a failing nested block restores exactly its entry snapshot -/

theorem handle_eta (h : Handle) (he : h.err = []) : { h with err := spErr h [] } = h := by
  rw [spErr_nil h he]; cases h; simp_all

theorem spErr_ne_nil (h : Handle) (e : Err) (he : e ≠ []) : spErr h e ≠ [] := by
  unfold spErr; exact addError_ne_nil _ _ he

/-- `SAVEPOINT` issued through a clean transaction handle -/
theorem gormSavePoint_clean (o : Oracle) (h : Handle) (name : SpName) (db : DB) (t : TxSt)
    (he : h.err = []) (ht : db.tx = some t) :
    (gormSavePoint o h name db).1.calls = db.calls + 1 ∧
    (gormSavePoint o h name db).1.committed = db.committed ∧
    (o db.calls = true → (gormSavePoint o h name db).1.tx = some t ∧
        (gormSavePoint o h name db).2.err = spErr h [.inj db.calls]) ∧
    (o db.calls = false → (gormSavePoint o h name db).1.tx = some { cur := t.cur, saves := (name, t.cur) :: t.saves } ∧
        (gormSavePoint o h name db).2 = h) := by
  unfold gormSavePoint execRawTx drvSavepoint tick
  simp only [he, if_true, ht]
  cases ho : o db.calls
  · simp [handle_eta h he]
  · simp [ht]

/-- `ROLLBACK TO` issued through a clean transaction handle, no fault injected into it -/
theorem gormRollbackTo_clean (o : Oracle) (h : Handle) (name : SpName) (db : DB) (t : TxSt)
    (he : h.err = []) (ht : db.tx = some t) (hf : (gormRollbackTo o h name db).1.rbFault = false) :
    (gormRollbackTo o h name db).1.calls = db.calls + 1 ∧
    (gormRollbackTo o h name db).1.committed = db.committed ∧
    (∀ s sv, findSp name t.saves = some (s, sv) →
        (gormRollbackTo o h name db).1.tx = some { cur := s, saves := sv } ∧ (gormRollbackTo o h name db).2 = h) ∧
    (findSp name t.saves = none →
        (gormRollbackTo o h name db).1.tx = some t ∧ (gormRollbackTo o h name db).2.err = spErr h [.noSavepoint]) := by
  revert hf
  unfold gormRollbackTo execRawTx drvRollbackTo tick
  simp only [he, if_true, ht]
  split
  · intro hf; simp at hf
  · intro _
    cases hfs : findSp name t.saves with
    | none => simp [ht]
    | some x => obtain ⟨s, sv⟩ := x; simp [handle_eta h he]

theorem runChild_blk_nested (c : Cfg) (o : Oracle) (h : Handle) (body : List Prog) (out : Out) (tag : Nat) (must : Bool) (db : DB)
    (hp : h.pool.isCommitter = true) (hd : (c.dis || h.dis) = false) :
    runChild c o h (.blk body out tag must) db =
      if (gormSavePoint o h (.auto (markStale h db).calls) (markStale h db)).2.err ≠ [] then
        ((gormSavePoint o h (.auto (markStale h db).calls) (markStale h db)).1,
         (gormSavePoint o h (.auto (markStale h db).calls) (markStale h db)).2,
         .err (gormSavePoint o h (.auto (markStale h db).calls) (markStale h db)).2.err)
      else finishNested o (gormSavePoint o h (.auto (markStale h db).calls) (markStale h db)).2
             (.auto (markStale h db).calls) out tag
             (runBody c o (nestH (gormSavePoint o h (.auto (markStale h db).calls) (markStale h db)).2) body
               (gormSavePoint o h (.auto (markStale h db).calls) (markStale h db)).1) := by
  unfold runChild
  simp only [hp, hd, if_true, Bool.not_false]

theorem runChild_blk_dis (c : Cfg) (o : Oracle) (h : Handle) (body : List Prog) (out : Out) (tag : Nat) (must : Bool) (db : DB)
    (hp : h.pool.isCommitter = true) (hd : (c.dis || h.dis) = true) :
    runChild c o h (.blk body out tag must) db = finishDis h out tag (runBody c o (nestH h) body (markStale h db)) := by
  unfold runChild
  simp only [hp, hd, if_true, Bool.not_true, Bool.false_eq_true, if_false]

theorem finishNested_ok (o : Oracle) (h1 : Handle) (name : SpName) (out : Out) (tag : Nat) (db : DB) (inner : Handle) (r : Res)
    (hok : (fnEnd inner r out tag db).2 = .ok) :
    finishNested o h1 name out tag (db, inner, r) = ((fnEnd inner r out tag db).1, h1, .ok) := by
  unfold finishNested
  dsimp only
  generalize fnEnd inner r out tag db = fe at hok
  obtain ⟨db1, r1⟩ := fe
  dsimp only at hok ⊢
  subst hok
  rfl

theorem finishNested_fail (o : Oracle) (h1 : Handle) (name : SpName) (out : Out) (tag : Nat) (db : DB) (inner : Handle) (r : Res)
    (hne : (fnEnd inner r out tag db).2 ≠ .ok) :
    finishNested o h1 name out tag (db, inner, r) =
      ((gormRollbackTo o h1 name (fnEnd inner r out tag db).1).1, (gormRollbackTo o h1 name (fnEnd inner r out tag db).1).2,
       (fnEnd inner r out tag db).2) := by
  unfold finishNested
  dsimp only
  generalize fnEnd inner r out tag db = fe at hne
  obtain ⟨db1, r1⟩ := fe
  dsimp only at hne ⊢
  cases r1 with
  | ok => exact absurd rfl hne
  | err e => rfl
  | panic t => rfl

/-- what the deferred `RollbackTo` of a nested block finds: the block's own save point, unless the body truncated the stack below it -/
theorem findSp_own (n : Nat) (v : Store) (S saves : List (SpName × Store))
    (hS : ∀ k s, (SpName.auto k, s) ∈ S → k < n) (hext : StackExt (n + 1) ((SpName.auto n, v) :: S) saves) :
    findSp (.auto n) saves = some (v, (SpName.auto n, v) :: S) ∨ findSp (.auto n) saves = none := by
  obtain ⟨new, suf, rfl, hsuf, hfresh⟩ := hext
  rw [findSp_append new suf (fun s hs => by have := hfresh n s hs; omega)]
  rcases List.suffix_cons_iff.mp hsuf with rfl | hsuf
  · left; simp
  · right
    apply findSp_none
    intro s hs
    have := hS n s (hsuf.subset hs)
    omega

/-- A. NESTED BLOCK LOCALITY. On a clean transaction handle with nested transactions enabled, a nested `Transaction` block
    (any body, any depth, any outcome, any oracle) that does not return nil, whose deferred ROLLBACK TO received no injected
    fault, and that hands the enclosing transaction's handle back clean (= its SAVEPOINT succeeded and its own save point was
    still on the stack at the end of the function): the working store is exactly the store at entry, the save-point stack is
    the entry stack plus the block's own save point, the handle is the one passed in, nothing reached the committed store. -/
theorem nested_local (c : Cfg) (o : Oracle) (h : Handle) (hp : h.pool.isCommitter = true) (he : h.err = [])
    (hdis : (c.dis || h.dis) = false) (db : DB) (v : Store) (S : List (SpName × Store))
    (ht : db.tx = some { cur := v, saves := S }) (hS : ∀ k s, (SpName.auto k, s) ∈ S → k < db.calls)
    (body : List Prog) (out : Out) (tag : Nat) (must : Bool) (hnb : noEndBody body = true)
    (hr : (runChild c o h (.blk body out tag must) db).2.2 ≠ .ok)
    (hf : (runChild c o h (.blk body out tag must) db).1.rbFault = false)
    (hh : (runChild c o h (.blk body out tag must) db).2.1.err = []) :
    (runChild c o h (.blk body out tag must) db).1.tx = some { cur := v, saves := (SpName.auto db.calls, v) :: S } ∧
    (runChild c o h (.blk body out tag must) db).2.1 = h ∧
    (runChild c o h (.blk body out tag must) db).1.committed = db.committed := by
  rw [runChild_blk_nested c o h body out tag must db hp hdis, markStale_clean h db he] at hr hf hh ⊢
  obtain ⟨hc1, hcm1, hsT, hsF⟩ := gormSavePoint_clean o h (.auto db.calls) db _ he ht
  cases ho : o db.calls
  · obtain ⟨htx1, hh1⟩ := hsF ho
    generalize gormSavePoint o h (.auto db.calls) db = sp at *
    obtain ⟨db1, h1⟩ := sp
    dsimp only at hc1 hcm1 htx1 hh1 hr hf hh ⊢
    subst hh1
    have hne : ¬ (h1.err ≠ []) := by simp [he]
    rw [if_neg hne] at hr hf hh ⊢
    have hpn : (nestH h1).pool.isCommitter = true := by simpa using hp
    obtain ⟨t2, ht2, hext⟩ := runBody_step c o body (nestH h1) db1 hpn hnb _ htx1
    have hcm2 := ((runBody_frame c o body (nestH h1) db1 (by rw [hpn]; exact wfBody_true body)).2.1 hpn).1
    generalize runBody c o (nestH h1) body db1 = b at *
    obtain ⟨db2, inner, r2⟩ := b
    dsimp only at ht2 hcm2
    by_cases hok : (fnEnd inner r2 out tag db2).2 = .ok
    · rw [finishNested_ok o h1 _ out tag db2 inner r2 hok] at hr
      exact absurd rfl hr
    · rw [finishNested_fail o h1 _ out tag db2 inner r2 hok] at hf hh ⊢
      dsimp only at hf hh ⊢
      obtain ⟨_, hcm4, hfound, hmissing⟩ :=
        gormRollbackTo_clean o h1 (.auto db.calls) (fnEnd inner r2 out tag db2).1 t2 he (by simpa using ht2) hf
      rw [hc1] at hext
      rcases findSp_own db.calls v S t2.saves hS hext with hfs | hfs
      · obtain ⟨a, b⟩ := hfound _ _ hfs
        exact ⟨a, b, by rw [hcm4, fnEnd_committed, hcm2, hcm1]⟩
      · have := (hmissing hfs).2
        rw [this] at hh; exact absurd hh (spErr_ne_nil h1 _ (by simp))
  · have herr := (hsT ho).2
    have hne := spErr_ne_nil h [.inj db.calls] (by simp)
    rw [if_pos (by rw [herr]; exact hne)] at hh
    dsimp only at hh
    rw [herr] at hh; exact absurd hh hne

/-- the complementary case: the block's SAVEPOINT is failed by the oracle — the function is not run, nothing changes in the
    transaction, but the enclosing handle comes back poisoned (finding F18) -/
theorem nested_savepoint_fault (c : Cfg) (o : Oracle) (h : Handle) (hp : h.pool.isCommitter = true) (he : h.err = [])
    (hdis : (c.dis || h.dis) = false) (db : DB) (t : TxSt) (ht : db.tx = some t) (ho : o db.calls = true)
    (body : List Prog) (out : Out) (tag : Nat) (must : Bool) :
    (runChild c o h (.blk body out tag must) db).1.tx = some t ∧
    (runChild c o h (.blk body out tag must) db).2.1.err = spErr h [.inj db.calls] ∧
    (runChild c o h (.blk body out tag must) db).2.2 = .err (spErr h [.inj db.calls]) ∧
    spErr h [.inj db.calls] ≠ [] ∧
    (runChild c o h (.blk body out tag must) db).1.committed = db.committed := by
  rw [runChild_blk_nested c o h body out tag must db hp hdis, markStale_clean h db he]
  obtain ⟨_, hcm1, hsT, _⟩ := gormSavePoint_clean o h (.auto db.calls) db _ he ht
  obtain ⟨htx, herr⟩ := hsT ho
  have hne := spErr_ne_nil h [.inj db.calls] (by simp)
  rw [if_pos (by rw [herr]; exact hne)]
  exact ⟨htx, herr, by rw [herr], hne, hcm1⟩

/-! ### B. refinement of the functional reference on rb-free programs -/

mutual
/-- the fragment the reference covers: no `RollbackTo` node anywhere (`SavePoint` is allowed) -/
def noRb : Prog → Bool
  | .rb _ _ => false
  | .blk body _ _ _ => noRbs body
  | .man body _ _ => noRbs body
  | .dv _ body _ => noRbs body
  | .fh _ body _ => noRbs body
  | .write _ _ => true
  | .read _ => true
  | .sp _ _ => true
  | .endtx _ => true
def noRbs : List Prog → Bool
  | [] => true
  | p :: ps => noRb p && noRbs ps
end

/-- what the reference knows about a handle -/
def envOf (c : Cfg) (h : Handle) : Env :=
  { inTx := h.pool.isCommitter, skip := c.skip || h.skip, dis := c.dis || h.dis, cond := h.cond, clone := h.clone }

theorem envOf_derive (c : Cfg) (k : Derive) (h : Handle) : envOf c (derive k h) = specDerive k (envOf c h) := by
  unfold envOf specDerive
  rw [derive_isCommitter]
  simp [derive, Bool.or_assoc]

theorem envOf_nest (c : Cfg) (h : Handle) : envOf c (nestH h) = (envOf c h).nest := rfl

theorem envOf_effCond (c : Cfg) (h : Handle) : (envOf c h).effCond = h.effCond := rfl

theorem envOf_beginH (c : Cfg) (h : Handle) (p : Pool) (e : Err) (hp : p.isCommitter = true) :
    envOf c (beginH h p e) = (envOf c h).begin := by
  simp [envOf, beginH, Env.begin, hp]

theorem spErr_spec (c : Cfg) (h : Handle) (n : Nat) (he : h.err = []) :
    spErr h [.inj n] = spErrSpec (envOf c h) n := by
  unfold spErr spErrSpec envOf addError
  cases h.clone <;> simp [he]

/-- result of the user function -/
def fnRes (r : Res) (out : Out) (tag : Nat) : Res :=
  match r with
  | .ok => outRes out tag
  | r => r

theorem specFnOut_eq (out : Out) (tag : Nat) (y : Store × Nat × Res) :
    specFnOut out tag y = (y.1, y.2.1, fnRes y.2.2 out tag) := by
  obtain ⟨s, n, r⟩ := y
  cases r <;> rfl

theorem fnEnd_res (h : Handle) (r : Res) (out : Out) (tag : Nat) (db : DB) : (fnEnd h r out tag db).2 = fnRes r out tag := by
  cases r <;> rfl

theorem fnRes_ok {r : Res} {out : Out} {tag : Nat} (h : fnRes r out tag = .ok) : r = .ok ∧ out = .retNil := by
  cases r <;> cases out <;> simp_all [fnRes, outRes]

theorem fnEnd_db_ok (h : Handle) (r : Res) (out : Out) (tag : Nat) (db : DB) (hok : fnRes r out tag = .ok) :
    (fnEnd h r out tag db).1 = markStale h db := by
  obtain ⟨rfl, rfl⟩ := fnRes_ok hok
  rfl

theorem fnEnd_db_fail (h : Handle) (r : Res) (out : Out) (tag : Nat) (db : DB) (hne : fnRes r out tag ≠ .ok) :
    (fnEnd h r out tag db).1 = db := by
  cases r <;> cases out <;> simp_all [fnRes, outRes, fnEnd]

def nestFin (v : Store) (y : Store × Nat × Res) : Store × Nat × Res :=
  if y.2.2 = .ok then (y.1, y.2.1, .ok) else (v, y.2.1 + 1, y.2.2)

def rootFin (o : Oracle) (v : Store) (y : Store × Nat × Res) : Store × Nat × Res :=
  if y.2.2 = .ok then (if o y.2.1 then (v, y.2.1 + 1, .err [.inj y.2.1]) else (y.1, y.2.1 + 1, .ok))
  else (v, y.2.1 + 1, y.2.2)

def manFin (o : Oracle) (fin : Fin) (v : Store) (y : Store × Nat × Res) : Store × Nat × Res :=
  if y.2.2 = .ok then
    (match fin with
     | .commit => if o y.2.1 then (v, y.2.1 + 1, .err [.inj y.2.1]) else (y.1, y.2.1 + 1, .ok)
     | .rollback => (v, y.2.1 + 1, .ok))
  else (v, y.2.1 + 1, y.2.2)

theorem specChild_blk_dis (o : Oracle) (e : Env) (body : List Prog) (out : Out) (tag : Nat) (m : Bool) (v : Store) (n : Nat)
    (h1 : e.inTx = true) (h2 : e.dis = true) :
    specChild o e (.blk body out tag m) v n = specFnOut out tag (specBody o e.nest body v n) := by
  unfold specChild; simp only [h1, h2, if_true]

theorem specChild_blk_nested (o : Oracle) (e : Env) (body : List Prog) (out : Out) (tag : Nat) (m : Bool) (v : Store) (n : Nat)
    (h1 : e.inTx = true) (h2 : e.dis = false) :
    specChild o e (.blk body out tag m) v n =
      if o n then (v, n + 1, .err (spErrSpec e n)) else nestFin v (specFnOut out tag (specBody o e.nest body v (n + 1))) := by
  unfold specChild; simp only [h1, h2, if_true, Bool.false_eq_true, if_false]
  split
  · rfl
  · generalize specFnOut out tag (specBody o e.nest body v (n + 1)) = y
    obtain ⟨s, n', r⟩ := y
    cases r <;> simp [nestFin]

theorem specChild_blk_root (o : Oracle) (e : Env) (body : List Prog) (out : Out) (tag : Nat) (m : Bool) (v : Store) (n : Nat)
    (h1 : e.inTx = false) :
    specChild o e (.blk body out tag m) v n =
      if o n then (v, n + 1, .err [.inj n])
      else rootFin o v (specFnOut out tag (specBody o e.begin body v (n + 1))) := by
  unfold specChild; simp only [h1, Bool.false_eq_true, if_false]
  split
  · rfl
  · generalize specFnOut out tag (specBody o e.begin body v (n + 1)) = y
    obtain ⟨s, n', r⟩ := y
    cases r <;> simp [rootFin]

theorem specChild_man_root (o : Oracle) (e : Env) (body : List Prog) (fin : Fin) (m : Bool) (v : Store) (n : Nat)
    (h1 : e.inTx = false) :
    specChild o e (.man body fin m) v n =
      if o n then (v, n + 1, .err [.inj n])
      else manFin o fin v (specBody o e.begin body v (n + 1)) := by
  unfold specChild; simp only [h1, Bool.false_eq_true, if_false]
  split
  · rfl
  · generalize specBody o e.begin body v (n + 1) = y
    obtain ⟨s, n', r⟩ := y
    cases r <;> cases fin <;> simp [manFin]

theorem runBody_cons (c : Cfg) (o : Oracle) (h : Handle) (p : Prog) (ps : List Prog) (db : DB) :
    runBody c o h (p :: ps) db =
      if (runChild c o h p db).2.2 ≠ .ok ∧ p.must = true then runChild c o h p db
      else runBody c o (runChild c o h p db).2.1 ps (runChild c o h p db).1 := by
  rw [runBody]
  generalize runChild c o h p db = x
  obtain ⟨db1, h1, r⟩ := x
  cases r <;> cases p.must <;> simp

theorem specBody_cons (o : Oracle) (e : Env) (p : Prog) (ps : List Prog) (v : Store) (n : Nat) :
    specBody o e (p :: ps) v n =
      if (specChild o e p v n).2.2 ≠ .ok ∧ p.must = true then specChild o e p v n
      else specBody o e ps (specChild o e p v n).1 (specChild o e p v n).2.1 := by
  rw [specBody]
  generalize specChild o e p v n = x
  obtain ⟨v1, n1, r⟩ := x
  cases r <;> cases p.must <;> simp

/-! a poisoned handle: any further statement is a stale use -/

theorem runChild_markStale (c : Cfg) (o : Oracle) (h : Handle) (p : Prog) (db : DB) :
    runChild c o h p (markStale h db) = runChild c o h p db := by
  cases p <;> (unfold runChild; simp only [markStale_idem])

theorem runChild_poisoned (c : Cfg) (o : Oracle) (h : Handle) (p : Prog) (db : DB) (he : h.err ≠ []) :
    (runChild c o h p db).1.stale = true := by
  rw [← runChild_markStale]
  exact (runChild_mono c o p h (markStale h db)).2.1 (markStale_poisoned h db he)

theorem runBody_poisoned (c : Cfg) (o : Oracle) (h : Handle) (ps : List Prog) (db : DB) (he : h.err ≠ [])
    (hs : (runBody c o h ps db).1.stale = false) : ps = [] := by
  cases ps with
  | nil => rfl
  | cons p ps =>
    exfalso
    have h1 := runChild_poisoned c o h p db he
    rw [runBody_cons] at hs
    split at hs
    · rw [h1] at hs; exact absurd hs (by simp)
    · have := (runBody_mono c o ps (runChild c o h p db).2.1 (runChild c o h p db).1).2.1 h1
      rw [this] at hs; exact absurd hs (by simp)

/-! statements inside a transaction -/

theorem gormWrite_tx (c : Cfg) (o : Oracle) (h : Handle) (w : Write) (db : DB) (t : TxSt)
    (hp : h.pool.isCommitter = true) (he : h.err = []) (ht : db.tx = some t) :
    (gormWrite c o h w db).1.tx = some { cur := (specWrite o (effWrite h.effCond w) t.cur db.calls).1, saves := t.saves } ∧
    (gormWrite c o h w db).1.calls = (specWrite o (effWrite h.effCond w) t.cur db.calls).2.1 ∧
    (gormWrite c o h w db).1.committed = db.committed ∧
    resOf (gormWrite c o h w db).2 = (specWrite o (effWrite h.effCond w) t.cur db.calls).2.2 := by
  unfold gormWrite drvExecTx tick specWrite
  simp only [he, ne_eq, not_true_eq_false, if_false, hp, if_true, ht]
  cases ho : o db.calls
  · simp only [Bool.false_eq_true, if_false]
    cases hw : (effWrite h.effCond w).apply t.cur <;> simp [resOf, ht]
  · simp [resOf, ht]

theorem gormQuery_tx (o : Oracle) (h : Handle) (db : DB) (t : TxSt)
    (hp : h.pool.isCommitter = true) (he : h.err = []) (ht : db.tx = some t) :
    (gormQuery o h db).1.tx = some t ∧ (gormQuery o h db).1.calls = db.calls + 1 ∧
    (gormQuery o h db).1.committed = db.committed ∧
    resOf (gormQuery o h db).2 = if o db.calls then .err [.inj db.calls] else .ok := by
  unfold gormQuery drvQueryTx tick
  simp only [he, ne_eq, not_true_eq_false, if_false, hp, if_true, ht]
  cases ho : o db.calls <;> simp [resOf, ht]

theorem gormBegin_committer_err (g : Bool) (o : Oracle) (h : Handle) (db : DB) (hp : h.pool.isCommitter = true) (he : h.err = []) :
    (gormBegin g o h db).2.err = [.invalidTx] := by
  rw [gormBegin_clean g o h db he]
  unfold gormBegin; cases hpool : h.pool <;> simp_all [Pool.isCommitter, addError, beginH]

/-- the simulation inside a transaction -/
def SimTx (h : Handle) (db : DB) (t : TxSt) (x : DB × Handle × Res) (s : Store × Nat × Res) : Prop :=
  x.1.committed = db.committed ∧ x.1.calls = s.2.1 ∧ x.2.2 = s.2.2 ∧
  (∃ new, x.1.tx = some { cur := s.1, saves := new ++ t.saves } ∧ Fresh db.calls new) ∧
  (x.2.1 = h ∨ (x.2.1.err ≠ [] ∧ x.2.1.pool = h.pool))

theorem fresh_singleton_auto (n : Nat) (v : Store) : Fresh n [(SpName.auto n, v)] := by
  intro k s hk
  simp only [List.mem_singleton, Prod.mk.injEq, SpName.auto.injEq] at hk
  omega

theorem fresh_singleton_manual (n m : Nat) (v : Store) : Fresh n [(SpName.manual m, v)] := by
  intro k s hk
  simp at hk

theorem findSp_fresh (n : Nat) (v : Store) (new S : List (SpName × Store)) (hf : Fresh (n + 1) new) :
    findSp (.auto n) (new ++ (SpName.auto n, v) :: S) = some (v, (SpName.auto n, v) :: S) := by
  rw [findSp_append new _ (fun s hs => by have := hf n s hs; omega)]
  simp

theorem noFailBody_cons (p : Prog) (ps : List Prog) : noFailBody (p :: ps) = (noFailChild p && noFailBody ps) := by
  rw [noFailBody]
theorem noFailChild_blk (body : List Prog) (out : Out) (tag : Nat) (m : Bool) :
    noFailChild (.blk body out tag m) = noFailBody body := by rw [noFailChild]
theorem noFailChild_man (body : List Prog) (fin : Fin) (m : Bool) :
    noFailChild (.man body fin m) = noFailBody body := by rw [noFailChild]
theorem noFailChild_dv (k : Derive) (body : List Prog) (m : Bool) :
    noFailChild (.dv k body m) = noFailBody body := by rw [noFailChild]
theorem noFailChild_fh (src : FailSrc) (body : List Prog) (m : Bool) :
    noFailChild (.fh src body m) = false := by rw [noFailChild]

mutual
theorem runChild_simTx (c : Cfg) (o : Oracle) : ∀ (p : Prog) (h : Handle) (db : DB) (t : TxSt),
    h.pool.isCommitter = true → h.err = [] → db.tx = some t → noRb p = true → noEndChild p = true →
    noFailChild p = true →
    (runChild c o h p db).1.stale = false → (runChild c o h p db).1.rbFault = false →
    SimTx h db t (runChild c o h p db) (specChild o (envOf c h) p t.cur db.calls)
  | .endtx m, h, db, t, _, _, _, _, hne, _, _, _ => by simp [noEndChild] at hne
  | .fh src body m, h, db, t, _, _, _, _, _, hnf, _, _ => by simp [noFailChild] at hnf
  | .write w m, h, db, t, hp, he, ht, _, _, _, _, _ => by
    have hw := gormWrite_tx c o h w db t hp he ht
    unfold runChild specChild
    rw [markStale_clean h db he]
    rw [envOf_effCond]
    simp only [envOf, hp, Bool.true_or, if_true]
    exact ⟨hw.2.2.1, hw.2.1, hw.2.2.2, ⟨[], hw.1, Fresh.nil _⟩, Or.inl rfl⟩
  | .read m, h, db, t, hp, he, ht, _, _, _, _, _ => by
    have hq := gormQuery_tx o h db t hp he ht
    unfold runChild specChild
    rw [markStale_clean h db he]
    refine ⟨hq.2.2.1, ?_, ?_, ⟨[], ?_, Fresh.nil _⟩, Or.inl rfl⟩
    · rw [hq.2.1]; split <;> rfl
    · dsimp only; rw [hq.2.2.2]; split <;> rfl
    · dsimp only; rw [hq.1]; split <;> rfl
  | .sp n m, h, db, t, hp, he, ht, _, _, _, _, _ => by
    obtain ⟨hc, hcm, hT, hF⟩ := gormSavePoint_clean o h (.manual n) db t he ht
    unfold runChild specChild
    rw [markStale_clean h db he]
    dsimp only
    cases ho : o db.calls
    · obtain ⟨htx, hh⟩ := hF ho
      simp only [Bool.false_eq_true, if_false]
      refine ⟨hcm, hc, by rw [hh, he]; rfl, ⟨[(.manual n, t.cur)], htx, fresh_singleton_manual _ _ _⟩, Or.inl hh⟩
    · obtain ⟨htx, hh⟩ := hT ho
      have hne := spErr_ne_nil h [.inj db.calls] (by simp)
      simp only [if_true]
      refine ⟨hcm, hc, ?_, ⟨[], htx, Fresh.nil _⟩, Or.inr ⟨by rw [hh]; exact hne, rfl⟩⟩
      rw [hh, ← spErr_spec c h db.calls he]
      simp [resOf, hne]
  | .rb n m, h, db, t, _, _, _, hn, _, _, _, _ => by simp [noRb] at hn
  | .man body fin m, h, db, t, hp, he, ht, _, _, _, _, _ => by
    have hb := gormBegin_committer c.beginGuard o h (markStale h db) hp
    have hbe := gormBegin_committer_err c.beginGuard o h (markStale h db) hp he
    unfold runChild specChild
    dsimp only
    rw [if_pos hb.2, hb.1, hbe, markStale_clean h db he]
    simp only [envOf, hp, if_true]
    exact ⟨rfl, rfl, rfl, ⟨[], by rw [ht]; rfl, Fresh.nil _⟩, Or.inl rfl⟩
  | .dv k body m, h, db, t, hp, he, ht, hn, hne, hnf, hs, hf => by
    have hnb : noRbs body = true := by simpa [noRb] using hn
    have hneb : noEndBody body = true := by rw [noEndChild_dv] at hne; exact hne
    have hnfb : noFailBody body = true := by rw [noFailChild_dv] at hnf; exact hnf
    have hrun : runChild c o h (.dv k body m) db =
        ((runBody c o (derive k h) body db).1, h, (runBody c o (derive k h) body db).2.2) := by
      rw [runChild, markStale_clean h db he]
    rw [hrun] at hs hf ⊢
    have ih := runBody_simTx c o body (derive k h) db t (by rw [derive_isCommitter]; exact hp)
      (by rw [derive_err]; exact he) ht hnb hneb hnfb hs hf
    rw [envOf_derive] at ih
    unfold specChild
    exact ⟨ih.1, ih.2.1, ih.2.2.1, ih.2.2.2.1, Or.inl rfl⟩
  | .blk body out tag m, h, db, t, hp, he, ht, hn, hne, hnf, hs, hf => by
    have hnb : noRbs body = true := by simpa [noRb] using hn
    have hneb : noEndBody body = true := by rw [noEndChild_blk] at hne; exact hne
    have hnfb : noFailBody body = true := by rw [noFailChild_blk] at hnf; exact hnf
    cases hd : (c.dis || h.dis)
    · -- nested: SAVEPOINT / ROLLBACK TO
      rw [runChild_blk_nested c o h body out tag m db hp hd, markStale_clean h db he] at hs hf ⊢
      rw [specChild_blk_nested o (envOf c h) body out tag m t.cur db.calls hp hd]
      obtain ⟨hc1, hcm1, hsT, hsF⟩ := gormSavePoint_clean o h (.auto db.calls) db t he ht
      cases ho : o db.calls
      · obtain ⟨htx1, hh1⟩ := hsF ho
        have hne : ¬ ((gormSavePoint o h (.auto db.calls) db).2.err ≠ []) := by rw [hh1]; simp [he]
        rw [if_neg hne] at hs hf ⊢
        rw [hh1] at hs hf ⊢
        simp only [Bool.false_eq_true, if_false]
        have mfin := finishNested_mono o h (.auto db.calls) out tag
          (runBody c o (nestH h) body (gormSavePoint o h (.auto db.calls) db).1)
        have hsb : (runBody c o (nestH h) body (gormSavePoint o h (.auto db.calls) db).1).1.stale = false := by
          cases hx : (runBody c o (nestH h) body (gormSavePoint o h (.auto db.calls) db).1).1.stale
          · rfl
          · rw [mfin.2.1 hx] at hs; exact absurd hs (by simp)
        have hfb : (runBody c o (nestH h) body (gormSavePoint o h (.auto db.calls) db).1).1.rbFault = false := by
          cases hx : (runBody c o (nestH h) body (gormSavePoint o h (.auto db.calls) db).1).1.rbFault
          · rfl
          · rw [mfin.2.2 hx] at hf; exact absurd hf (by simp)
        have ih := runBody_simTx c o body (nestH h) (gormSavePoint o h (.auto db.calls) db).1 _ (by simpa using hp)
          (by simpa using he) htx1 hnb hneb hnfb hsb hfb
        rw [envOf_nest] at ih
        rw [hc1] at ih
        dsimp only at ih
        rw [specFnOut_eq]
        generalize specBody o (envOf c h).nest body t.cur (db.calls + 1) = y at ih ⊢
        generalize runBody c o (nestH h) body (gormSavePoint o h (.auto db.calls) db).1 = b at ih hs hf ⊢
        obtain ⟨db2, inner, r2⟩ := b
        obtain ⟨v2, n2, rs2⟩ := y
        obtain ⟨icm, icalls, ires, ⟨new, itx, ifresh⟩, ihand⟩ := ih
        dsimp only at icm icalls ires itx ifresh ihand ⊢
        rw [hc1] at ifresh
        subst ires
        by_cases hok : fnRes r2 out tag = .ok
        · rw [finishNested_ok o h _ out tag db2 inner r2 (by rw [fnEnd_res]; exact hok)]
          simp only [nestFin, hok, if_true]
          refine ⟨by rw [fnEnd_committed, icm, hcm1], by rw [fnEnd_calls]; exact icalls, rfl,
            ⟨new ++ [(.auto db.calls, t.cur)], by rw [fnEnd_tx, itx]; simp, ?_⟩, Or.inl rfl⟩
          exact Fresh.append (ifresh.mono (Nat.le_succ _)) (fresh_singleton_auto _ _)
        · have hne' : (fnEnd inner r2 out tag db2).2 ≠ .ok := by rw [fnEnd_res]; exact hok
          rw [finishNested_fail o h _ out tag db2 inner r2 hne'] at hs hf ⊢
          rw [fnEnd_db_fail inner r2 out tag db2 hok] at hs hf ⊢
          dsimp only at hs hf ⊢
          obtain ⟨hc4, hcm4, hfound, _⟩ := gormRollbackTo_clean o h (.auto db.calls) db2 _ he itx hf
          obtain ⟨a, b⟩ := hfound _ _ (findSp_fresh db.calls t.cur new t.saves ifresh)
          simp only [nestFin, hok, if_false]
          refine ⟨by rw [hcm4, icm, hcm1], by rw [hc4, icalls], by rw [fnEnd_res],
            ⟨[(.auto db.calls, t.cur)], by rw [a]; rfl, fresh_singleton_auto _ _⟩, Or.inl b⟩
      · obtain ⟨htx1, herr⟩ := hsT ho
        have hne := spErr_ne_nil h [.inj db.calls] (by simp)
        rw [if_pos (by rw [herr]; exact hne)]
        simp only [if_true]
        exact ⟨hcm1, hc1, by rw [herr, spErr_spec c h db.calls he], ⟨[], htx1, Fresh.nil _⟩,
          Or.inr ⟨by rw [herr]; exact hne, rfl⟩⟩
    · -- DisableNestedTransaction
      rw [runChild_blk_dis c o h body out tag m db hp hd, markStale_clean h db he] at hs hf ⊢
      rw [specChild_blk_dis o (envOf c h) body out tag m t.cur db.calls hp hd, specFnOut_eq]
      have mfin := finishDis_mono h out tag (runBody c o (nestH h) body db)
      have hsb : (runBody c o (nestH h) body db).1.stale = false := by
        cases hx : (runBody c o (nestH h) body db).1.stale
        · rfl
        · rw [mfin.2.1 hx] at hs; exact absurd hs (by simp)
      have hfb : (runBody c o (nestH h) body db).1.rbFault = false := by
        cases hx : (runBody c o (nestH h) body db).1.rbFault
        · rfl
        · rw [mfin.2.2 hx] at hf; exact absurd hf (by simp)
      have ih := runBody_simTx c o body (nestH h) db t (by simpa using hp) (by simpa using he) ht hnb hneb hnfb hsb hfb
      rw [envOf_nest] at ih
      generalize specBody o (envOf c h).nest body t.cur db.calls = y at ih ⊢
      generalize runBody c o (nestH h) body db = b at ih ⊢
      obtain ⟨db2, inner, r2⟩ := b
      obtain ⟨v2, n2, rs2⟩ := y
      obtain ⟨icm, icalls, ires, ⟨new, itx, ifresh⟩, _⟩ := ih
      dsimp only at icm icalls ires itx ifresh ⊢
      subst ires
      unfold finishDis
      dsimp only
      exact ⟨by rw [fnEnd_committed, icm], by rw [fnEnd_calls]; exact icalls, fnEnd_res _ _ _ _ _,
        ⟨new, by rw [fnEnd_tx, itx], ifresh⟩, Or.inl rfl⟩
theorem runBody_simTx (c : Cfg) (o : Oracle) : ∀ (ps : List Prog) (h : Handle) (db : DB) (t : TxSt),
    h.pool.isCommitter = true → h.err = [] → db.tx = some t → noRbs ps = true → noEndBody ps = true →
    noFailBody ps = true →
    (runBody c o h ps db).1.stale = false → (runBody c o h ps db).1.rbFault = false →
    SimTx h db t (runBody c o h ps db) (specBody o (envOf c h) ps t.cur db.calls)
  | [], h, db, t, _, _, ht, _, _, _, _, _ => by
    unfold runBody specBody
    exact ⟨rfl, rfl, rfl, ⟨[], by rw [ht]; rfl, Fresh.nil _⟩, Or.inl rfl⟩
  | p :: ps, h, db, t, hp, he, ht, hn, hne, hnf, hs, hf => by
    have hnn : noRb p = true ∧ noRbs ps = true := by simpa [noRbs] using hn
    have hee : noEndChild p = true ∧ noEndBody ps = true := by simpa [noEndBody_cons] using hne
    have hff : noFailChild p = true ∧ noFailBody ps = true := by simpa [noFailBody_cons] using hnf
    have m2 := runBody_mono c o ps (runChild c o h p db).2.1 (runChild c o h p db).1
    rw [runBody_cons] at hs hf ⊢
    rw [specBody_cons]
    have hs1 : (runChild c o h p db).1.stale = false := by
      cases hx : (runChild c o h p db).1.stale
      · rfl
      · split at hs
        · rw [hx] at hs; exact absurd hs (by simp)
        · rw [m2.2.1 hx] at hs; exact absurd hs (by simp)
    have hf1 : (runChild c o h p db).1.rbFault = false := by
      cases hx : (runChild c o h p db).1.rbFault
      · rfl
      · split at hf
        · rw [hx] at hf; exact absurd hf (by simp)
        · rw [m2.2.2 hx] at hf; exact absurd hf (by simp)
    have ih1 := runChild_simTx c o p h db t hp he ht hnn.1 hee.1 hff.1 hs1 hf1
    have m1 := (runChild_mono c o p h db).1
    generalize specChild o (envOf c h) p t.cur db.calls = y at ih1 ⊢
    generalize runChild c o h p db = x at ih1 hs hf m1 ⊢
    obtain ⟨db1, h1, r1⟩ := x
    obtain ⟨v1, n1, rs1⟩ := y
    obtain ⟨icm, icalls, ires, ⟨new, itx, ifresh⟩, ihand⟩ := ih1
    dsimp only at icm icalls ires itx ifresh ihand hs hf m1 ⊢
    subst ires
    by_cases hstop : r1 ≠ .ok ∧ p.must = true
    · rw [if_pos hstop, if_pos hstop]
      exact ⟨icm, icalls, rfl, ⟨new, itx, ifresh⟩, ihand⟩
    · rw [if_neg hstop] at hs hf ⊢
      rw [if_neg hstop]
      rcases ihand with rfl | ⟨hpe, hpp⟩
      · have ih2 := runBody_simTx c o ps h1 db1 _ hp he itx hnn.2 hee.2 hff.2 hs hf
        rw [icalls] at ih2
        obtain ⟨jcm, jcalls, jres, ⟨new2, jtx, jfresh⟩, jhand⟩ := ih2
        refine ⟨jcm.trans icm, jcalls, jres, ⟨new2 ++ new, by rw [jtx]; simp, ?_⟩, jhand⟩
        exact Fresh.append (jfresh.mono (by omega)) ifresh
      · have := runBody_poisoned c o h1 ps db1 hpe hs
        subst this
        unfold runBody specBody
        exact ⟨icm, icalls, rfl, ⟨new, itx, ifresh⟩, Or.inr ⟨hpe, hpp⟩⟩
end

/-! statements at the top level (pool handle, no transaction open) -/

theorem pool_top (h : Handle) (hp : h.pool.isCommitter = false) : h.pool = .sqlDB ∨ h.pool = .prepDB := by
  cases hpool : h.pool <;> simp_all [Pool.isCommitter]

theorem gormBegin_top (c : Cfg) (g : Bool) (o : Oracle) (h : Handle) (db : DB) (hp : h.pool.isCommitter = false) (he : h.err = []) :
    (gormBegin g o h db).1.calls = db.calls + 1 ∧ (gormBegin g o h db).1.committed = db.committed ∧
    (o db.calls = true → (gormBegin g o h db).1.tx = db.tx ∧ (gormBegin g o h db).2.err = [.inj db.calls]) ∧
    (o db.calls = false → (gormBegin g o h db).1.tx = some { cur := db.committed, saves := [] } ∧
       (gormBegin g o h db).2.err = [] ∧ (gormBegin g o h db).2.pool.isCommitter = true ∧
       envOf c (gormBegin g o h db).2 = (envOf c h).begin) := by
  rw [gormBegin_clean g o h db he]
  unfold gormBegin drvBeginVia drvBegin tick
  rcases pool_top h hp with hq | hq <;> simp only [hq] <;> cases ho : o db.calls <;>
    simp [addError, he, Pool.isCommitter, beginH] <;> simp [envOf, Env.begin, Pool.isCommitter]

theorem gormCommit_clean (o : Oracle) (h : Handle) (db : DB) (t : TxSt)
    (hp : h.pool.isCommitter = true) (he : h.err = []) (ht : db.tx = some t) :
    (gormCommit o h db).1.calls = db.calls + 1 ∧ (gormCommit o h db).1.tx = none ∧
    (o db.calls = true → (gormCommit o h db).1.committed = db.committed ∧ (gormCommit o h db).2.err = [.inj db.calls]) ∧
    (o db.calls = false → (gormCommit o h db).1.committed = t.cur ∧ (gormCommit o h db).2.err = []) := by
  unfold gormCommit drvCommit tick
  cases hpool : h.pool <;> simp_all [Pool.isCommitter] <;> cases ho : o db.calls <;> simp [addError]

theorem gormRollback_open (h : Handle) (db : DB) (t : TxSt) (hp : h.pool.isCommitter = true) (ht : db.tx = some t) :
    (gormRollback h db).1.calls = db.calls + 1 ∧ (gormRollback h db).1.tx = none ∧
    (gormRollback h db).1.committed = db.committed ∧ (gormRollback h db).2.err = h.err := by
  unfold gormRollback drvRollback tickR
  cases hpool : h.pool <;> simp_all [Pool.isCommitter, addError]

theorem gormRollback_closed (h : Handle) (db : DB) (hd : db.tx = none) : (gormRollback h db).1 = db := by
  unfold gormRollback drvRollback
  cases hpool : h.pool <;> simp [hd]

theorem finishRoot_fail (o : Oracle) (h : Handle) (out : Out) (tag : Nat) (db : DB) (tx : Handle) (r : Res)
    (hne : fnRes r out tag ≠ .ok) :
    finishRoot o h out tag (db, tx, r) = ((gormRollback tx db).1, h, fnRes r out tag) := by
  have h1 := fnEnd_res tx r out tag db
  have h2 := fnEnd_db_fail tx r out tag db hne
  unfold finishRoot
  dsimp only
  generalize fnEnd tx r out tag db = fe at h1 h2
  obtain ⟨db1, r1⟩ := fe
  dsimp only at h1 h2 ⊢
  subst h1 h2
  cases hfr : fnRes r out tag with
  | ok => exact absurd hfr hne
  | err e => rfl
  | panic t => rfl

theorem finishRoot_ok (o : Oracle) (h : Handle) (out : Out) (tag : Nat) (db : DB) (tx : Handle) (r : Res)
    (hok : fnRes r out tag = .ok) :
    finishRoot o h out tag (db, tx, r) =
      if (gormCommit o tx (markStale tx db)).2.err ≠ [] then
        ((gormRollback (gormCommit o tx (markStale tx db)).2 (gormCommit o tx (markStale tx db)).1).1, h,
          .err (gormCommit o tx (markStale tx db)).2.err)
      else ((gormCommit o tx (markStale tx db)).1, h, .ok) := by
  have h1 := fnEnd_res tx r out tag db
  have h2 := fnEnd_db_ok tx r out tag db hok
  unfold finishRoot
  dsimp only
  generalize fnEnd tx r out tag db = fe at h1 h2
  obtain ⟨db1, r1⟩ := fe
  dsimp only at h1 h2 ⊢
  rw [hok] at h1
  subst h1 h2
  rfl

theorem stale_false_of_mono {a b : DB} (m : Mono a b) (hs : b.stale = false) : a.stale = false := by
  cases hx : a.stale
  · rfl
  · rw [m.2.1 hx] at hs; exact absurd hs (by simp)

theorem rbFault_false_of_mono {a b : DB} (m : Mono a b) (hs : b.rbFault = false) : a.rbFault = false := by
  cases hx : a.rbFault
  · rfl
  · rw [m.2.2 hx] at hs; exact absurd hs (by simp)

theorem finishRoot_sim (o : Oracle) (h : Handle) (out : Out) (tag : Nat) (db2 : DB) (tx' : Handle) (r2 : Res) (t2 : TxSt)
    (hp : tx'.pool.isCommitter = true) (ht : db2.tx = some t2)
    (hs : (finishRoot o h out tag (db2, tx', r2)).1.stale = false) :
    (finishRoot o h out tag (db2, tx', r2)).1.tx = none ∧
    (finishRoot o h out tag (db2, tx', r2)).1.committed = (rootFin o db2.committed (t2.cur, db2.calls, fnRes r2 out tag)).1 ∧
    (finishRoot o h out tag (db2, tx', r2)).1.calls = (rootFin o db2.committed (t2.cur, db2.calls, fnRes r2 out tag)).2.1 ∧
    (finishRoot o h out tag (db2, tx', r2)).2.2 = (rootFin o db2.committed (t2.cur, db2.calls, fnRes r2 out tag)).2.2 ∧
    (finishRoot o h out tag (db2, tx', r2)).2.1 = h := by
  by_cases hok : fnRes r2 out tag = .ok
  · have hclean : tx'.err = [] := by
      cases hte : tx'.err with
      | nil => rfl
      | cons a l =>
        exfalso
        have hne : tx'.err ≠ [] := by rw [hte]; simp
        have m := finishRoot_mono o h out tag (db2, tx', r2)
        have hfe : (fnEnd tx' r2 out tag db2).1.stale = true := by
          rw [fnEnd_db_ok tx' r2 out tag db2 hok]; exact markStale_poisoned tx' db2 hne
        have m' : Mono (fnEnd tx' r2 out tag db2).1 (finishRoot o h out tag (db2, tx', r2)).1 := by
          rw [finishRoot_ok o h out tag db2 tx' r2 hok, fnEnd_db_ok tx' r2 out tag db2 hok]
          split
          · exact (gormCommit_mono o tx' _).trans (gormRollback_mono _ _)
          · exact gormCommit_mono o tx' _
        rw [m'.2.1 hfe] at hs; exact absurd hs (by simp)
    rw [finishRoot_ok o h out tag db2 tx' r2 hok, markStale_clean tx' db2 hclean]
    obtain ⟨cc, ctx, cT, cF⟩ := gormCommit_clean o tx' db2 t2 hp hclean ht
    cases ho : o db2.calls
    · obtain ⟨ccm, cerr⟩ := cF ho
      have hr : rootFin o db2.committed (t2.cur, db2.calls, fnRes r2 out tag) = (t2.cur, db2.calls + 1, .ok) := by
        simp [rootFin, hok, ho]
      rw [if_neg (by rw [cerr]; simp), hr]
      exact ⟨ctx, ccm, cc, rfl, rfl⟩
    · obtain ⟨ccm, cerr⟩ := cT ho
      have hr : rootFin o db2.committed (t2.cur, db2.calls, fnRes r2 out tag) =
          (db2.committed, db2.calls + 1, .err [.inj db2.calls]) := by
        simp [rootFin, hok, ho]
      rw [if_pos (by rw [cerr]; simp), gormRollback_closed _ _ ctx, cerr, hr]
      exact ⟨ctx, ccm, cc, rfl, rfl⟩
  · rw [finishRoot_fail o h out tag db2 tx' r2 hok]
    obtain ⟨rc, rtx, rcm, _⟩ := gormRollback_open tx' db2 t2 hp ht
    have hr : rootFin o db2.committed (t2.cur, db2.calls, fnRes r2 out tag) =
        (db2.committed, db2.calls + 1, fnRes r2 out tag) := by
      simp [rootFin, hok]
    rw [hr]
    exact ⟨rtx, rcm, rc, rfl, rfl⟩

theorem finishMan_sim (o : Oracle) (h : Handle) (fin : Fin) (db2 : DB) (tx' : Handle) (r2 : Res) (t2 : TxSt)
    (hp : tx'.pool.isCommitter = true) (ht : db2.tx = some t2)
    (hs : (finishMan o h fin (db2, tx', r2)).1.stale = false) :
    (finishMan o h fin (db2, tx', r2)).1.tx = none ∧
    (finishMan o h fin (db2, tx', r2)).1.committed = (manFin o fin db2.committed (t2.cur, db2.calls, r2)).1 ∧
    (finishMan o h fin (db2, tx', r2)).1.calls = (manFin o fin db2.committed (t2.cur, db2.calls, r2)).2.1 ∧
    (finishMan o h fin (db2, tx', r2)).2.2 = (manFin o fin db2.committed (t2.cur, db2.calls, r2)).2.2 ∧
    (finishMan o h fin (db2, tx', r2)).2.1 = h := by
  cases r2 with
  | ok =>
    have hclean : tx'.err = [] := by
      cases hte : tx'.err with
      | nil => rfl
      | cons a l =>
        exfalso
        have hne : tx'.err ≠ [] := by rw [hte]; simp
        have hst := markStale_poisoned tx' db2 hne
        have m' : Mono (markStale tx' db2) (finishMan o h fin (db2, tx', .ok)).1 := by
          unfold finishMan
          dsimp only
          split
          · exact gormCommit_mono o tx' _
          · exact gormRollback_mono tx' _
        rw [m'.2.1 hst] at hs; exact absurd hs (by simp)
    unfold finishMan
    dsimp only
    rw [markStale_clean tx' db2 hclean]
    cases fin with
    | commit =>
      obtain ⟨cc, ctx, cT, cF⟩ := gormCommit_clean o tx' db2 t2 hp hclean ht
      dsimp only
      cases ho : o db2.calls
      · obtain ⟨ccm, cerr⟩ := cF ho
        have hr : manFin o .commit db2.committed (t2.cur, db2.calls, .ok) = (t2.cur, db2.calls + 1, .ok) := by
          simp [manFin, ho]
        rw [hr]
        exact ⟨ctx, ccm, cc, by rw [cerr]; rfl, rfl⟩
      · obtain ⟨ccm, cerr⟩ := cT ho
        have hr : manFin o .commit db2.committed (t2.cur, db2.calls, .ok) =
            (db2.committed, db2.calls + 1, .err [.inj db2.calls]) := by
          simp [manFin, ho]
        rw [hr]
        exact ⟨ctx, ccm, cc, by rw [cerr]; rfl, rfl⟩
    | rollback =>
      obtain ⟨rc, rtx, rcm, rerr⟩ := gormRollback_open tx' db2 t2 hp ht
      dsimp only
      have hr : manFin o .rollback db2.committed (t2.cur, db2.calls, .ok) = (db2.committed, db2.calls + 1, .ok) := by
        simp [manFin]
      rw [hr]
      exact ⟨rtx, rcm, rc, by rw [rerr, hclean]; rfl, rfl⟩
  | err e =>
    obtain ⟨rc, rtx, rcm, _⟩ := gormRollback_open tx' db2 t2 hp ht
    have hr : manFin o fin db2.committed (t2.cur, db2.calls, .err e) = (db2.committed, db2.calls + 1, .err e) := by
      simp [manFin]
    rw [hr]
    unfold finishMan
    exact ⟨rtx, rcm, rc, rfl, rfl⟩
  | panic k =>
    obtain ⟨rc, rtx, rcm, _⟩ := gormRollback_open tx' db2 t2 hp ht
    have hr : manFin o fin db2.committed (t2.cur, db2.calls, .panic k) = (db2.committed, db2.calls + 1, .panic k) := by
      simp [manFin]
    rw [hr]
    unfold finishMan
    exact ⟨rtx, rcm, rc, rfl, rfl⟩

theorem resOf_ok_iff (e : Err) : resOf e = .ok ↔ e = [] := by
  unfold resOf; split <;> simp_all

theorem drvExecPool_spec (o : Oracle) (w : Write) (db : DB) :
    (drvExecPool o w db).1.tx = db.tx ∧
    (drvExecPool o w db).1.committed = (specWrite o w db.committed db.calls).1 ∧
    (drvExecPool o w db).1.calls = (specWrite o w db.committed db.calls).2.1 ∧
    resOf (drvExecPool o w db).2 = (specWrite o w db.committed db.calls).2.2 := by
  unfold drvExecPool tick specWrite
  dsimp only
  cases ho : o db.calls
  · simp only [Bool.false_eq_true, if_false]
    cases hw : w.apply db.committed <;> simp [resOf]
  · simp [resOf]

theorem drvExecTx_spec (o : Oracle) (w : Write) (db : DB) (t : TxSt) (ht : db.tx = some t) :
    (drvExecTx o w db).1.tx = some { cur := (specWrite o w t.cur db.calls).1, saves := t.saves } ∧
    (drvExecTx o w db).1.calls = db.calls + 1 ∧
    (drvExecTx o w db).1.committed = db.committed ∧
    resOf (drvExecTx o w db).2 = (specWrite o w t.cur db.calls).2.2 := by
  unfold drvExecTx tick specWrite
  simp only [ht]
  cases ho : o db.calls
  · simp only [Bool.false_eq_true, if_false]
    cases hw : w.apply t.cur <;> simp [resOf, ht]
  · simp [resOf, ht]

theorem specChild_write_top (o : Oracle) (e : Env) (w : Write) (m : Bool) (v : Store) (n : Nat)
    (h1 : e.inTx = false) (h2 : e.skip = false) :
    specChild o e (.write w m) v n =
      if o n then (v, n + 1, .err [.inj n])
      else if (specWrite o (effWrite e.effCond w) v (n + 1)).2.2 = .ok then
        (if o (n + 2) then (v, n + 3, .err [.inj (n + 2)]) else ((specWrite o (effWrite e.effCond w) v (n + 1)).1, n + 3, .ok))
      else (v, n + 3, (specWrite o (effWrite e.effCond w) v (n + 1)).2.2) := by
  unfold specChild
  simp only [h1, h2, Bool.or_self, Bool.false_eq_true, if_false]
  split
  · rfl
  · generalize specWrite o (effWrite e.effCond w) v (n + 1) = y
    obtain ⟨s, n', r⟩ := y
    cases r <;> simp

theorem specChild_write_direct (o : Oracle) (e : Env) (w : Write) (m : Bool) (v : Store) (n : Nat)
    (h : (e.inTx || e.skip) = true) :
    specChild o e (.write w m) v n = specWrite o (effWrite e.effCond w) v n := by
  unfold specChild
  simp only [h, if_true]

theorem gormWrite_top_eq (c : Cfg) (o : Oracle) (h : Handle) (w : Write) (db : DB)
    (hp : h.pool.isCommitter = false) (he : h.err = []) (hsk : (c.skip || h.skip) = false) :
    gormWrite c o h w db =
      if (gormBegin c.beginGuard o h db).2.err ≠ [] then ((gormBegin c.beginGuard o h db).1, (gormBegin c.beginGuard o h db).2.err)
      else if (drvExecTx o (effWrite h.effCond w) (gormBegin c.beginGuard o h db).1).2 ≠ [] then
        ((gormRollback (gormBegin c.beginGuard o h db).2 (drvExecTx o (effWrite h.effCond w) (gormBegin c.beginGuard o h db).1).1).1,
         (drvExecTx o (effWrite h.effCond w) (gormBegin c.beginGuard o h db).1).2)
      else ((gormCommit o (gormBegin c.beginGuard o h db).2 (drvExecTx o (effWrite h.effCond w) (gormBegin c.beginGuard o h db).1).1).1,
            (gormCommit o (gormBegin c.beginGuard o h db).2 (drvExecTx o (effWrite h.effCond w) (gormBegin c.beginGuard o h db).1).1).2.err) := by
  unfold gormWrite
  simp only [he, hp, hsk, ne_eq, not_true_eq_false, if_false, Bool.false_eq_true]

theorem gormWrite_top (c : Cfg) (o : Oracle) (h : Handle) (w : Write) (m : Bool) (db : DB)
    (hp : h.pool.isCommitter = false) (he : h.err = []) (hd : db.tx = none) :
    (gormWrite c o h w db).1.tx = none ∧
    (gormWrite c o h w db).1.committed = (specChild o (envOf c h) (.write w m) db.committed db.calls).1 ∧
    (gormWrite c o h w db).1.calls = (specChild o (envOf c h) (.write w m) db.committed db.calls).2.1 ∧
    resOf (gormWrite c o h w db).2 = (specChild o (envOf c h) (.write w m) db.committed db.calls).2.2 := by
  cases hsk : (c.skip || h.skip)
  · rw [specChild_write_top o (envOf c h) w m db.committed db.calls hp hsk, envOf_effCond,
      gormWrite_top_eq c o h w db hp he hsk]
    obtain ⟨bc, bcm, bT, bF⟩ := gormBegin_top c c.beginGuard o h db hp he
    cases ho : o db.calls
    · obtain ⟨btx, berr, bpool, _⟩ := bF ho
      obtain ⟨xtx, xc, xcm, xres⟩ := drvExecTx_spec o (effWrite h.effCond w) (gormBegin c.beginGuard o h db).1 _ btx
      rw [bc] at xres xtx xc
      dsimp only at xres xtx
      rw [if_neg (by rw [berr]; simp)]
      simp only [Bool.false_eq_true, if_false]
      by_cases hee : (drvExecTx o (effWrite h.effCond w) (gormBegin c.beginGuard o h db).1).2 = []
      · have hok : (specWrite o (effWrite h.effCond w) db.committed (db.calls + 1)).2.2 = .ok := by
          rw [← xres]; exact (resOf_ok_iff _).2 hee
        rw [if_neg (by simp [hee]), if_pos hok]
        obtain ⟨cc, ctx, cT, cF⟩ := gormCommit_clean o (gormBegin c.beginGuard o h db).2 _ _ bpool berr xtx
        rw [xc] at cc cT cF
        cases ho2 : o (db.calls + 2)
        · obtain ⟨ccm, cerr⟩ := cF ho2
          simp only [Bool.false_eq_true, if_false]
          exact ⟨ctx, ccm, cc, by rw [cerr]; rfl⟩
        · obtain ⟨ccm, cerr⟩ := cT ho2
          simp only [if_true]
          exact ⟨ctx, by rw [ccm, xcm, bcm], cc, by rw [cerr]; rfl⟩
      · have hnok : ¬ (specWrite o (effWrite h.effCond w) db.committed (db.calls + 1)).2.2 = .ok := by
          rw [← xres]; exact fun hc => hee ((resOf_ok_iff _).1 hc)
        rw [if_pos hee, if_neg hnok]
        obtain ⟨rc, rtx, rcm, _⟩ := gormRollback_open (gormBegin c.beginGuard o h db).2 _ _ bpool xtx
        exact ⟨rtx, by rw [rcm, xcm, bcm], by rw [rc, xc], xres⟩
    · obtain ⟨btx, berr⟩ := bT ho
      rw [if_pos (by rw [berr]; simp)]
      simp only [if_true]
      exact ⟨by rw [btx]; exact hd, bcm, bc, by rw [berr]; rfl⟩
  · rw [specChild_write_direct o (envOf c h) w m db.committed db.calls (by simp [envOf, hsk]), envOf_effCond]
    have hx := drvExecPool_spec o (effWrite h.effCond w) db
    have : gormWrite c o h w db = drvExecPool o (effWrite h.effCond w) db := by
      unfold gormWrite
      simp only [he, hp, hsk, ne_eq, not_true_eq_false, if_false, Bool.false_eq_true, if_true]
    rw [this]
    exact ⟨by rw [hx.1]; exact hd, hx.2.1, hx.2.2.1, hx.2.2.2⟩

theorem gormQuery_top (o : Oracle) (h : Handle) (db : DB) (hp : h.pool.isCommitter = false) (he : h.err = []) :
    (gormQuery o h db).1.tx = db.tx ∧ (gormQuery o h db).1.calls = db.calls + 1 ∧
    (gormQuery o h db).1.committed = db.committed ∧
    resOf (gormQuery o h db).2 = if o db.calls then .err [.inj db.calls] else .ok := by
  unfold gormQuery drvQueryPool tick
  simp only [he, ne_eq, not_true_eq_false, if_false, hp, Bool.false_eq_true]
  cases ho : o db.calls <;> simp [resOf]


theorem runChild_blk_top (c : Cfg) (o : Oracle) (h : Handle) (body : List Prog) (out : Out) (tag : Nat) (must : Bool) (db : DB)
    (hp : h.pool.isCommitter = false) :
    runChild c o h (.blk body out tag must) db =
      if (gormBegin c.beginGuard o h (markStale h db)).2.err ≠ [] then
        ((gormBegin c.beginGuard o h (markStale h db)).1, h, .err (gormBegin c.beginGuard o h (markStale h db)).2.err)
      else finishRoot o h out tag (runBody c o (gormBegin c.beginGuard o h (markStale h db)).2 body (gormBegin c.beginGuard o h (markStale h db)).1) := by
  unfold runChild
  simp only [hp, Bool.false_eq_true, if_false]

theorem runChild_man_eq (c : Cfg) (o : Oracle) (h : Handle) (body : List Prog) (fin : Fin) (must : Bool) (db : DB) :
    runChild c o h (.man body fin must) db =
      if (gormBegin c.beginGuard o h (markStale h db)).2.err ≠ [] then
        ((gormBegin c.beginGuard o h (markStale h db)).1, h, .err (gormBegin c.beginGuard o h (markStale h db)).2.err)
      else finishMan o h fin (runBody c o (gormBegin c.beginGuard o h (markStale h db)).2 body (gormBegin c.beginGuard o h (markStale h db)).1) := by
  rw [runChild]

/-- the simulation at the top level -/
def SimTop (h : Handle) (x : DB × Handle × Res) (s : Store × Nat × Res) : Prop :=
  x.1.tx = none ∧ x.1.committed = s.1 ∧ x.1.calls = s.2.1 ∧ x.2.2 = s.2.2 ∧ x.2.1 = h

mutual
theorem runChild_simTop (c : Cfg) (o : Oracle) : ∀ (p : Prog) (h : Handle) (db : DB),
    h.pool.isCommitter = false → h.err = [] → db.tx = none → wfChild false p = true → noRb p = true →
    noEndChild p = true → noFailChild p = true →
    (runChild c o h p db).1.stale = false → (runChild c o h p db).1.rbFault = false →
    SimTop h (runChild c o h p db) (specChild o (envOf c h) p db.committed db.calls)
  | .endtx m, h, db, _, _, _, _, _, hne, _, _, _ => by simp [noEndChild] at hne
  | .fh src body m, h, db, _, _, _, _, _, _, hnf, _, _ => by simp [noFailChild] at hnf
  | .write w m, h, db, hp, he, hd, _, _, _, _, _, _ => by
    have hw := gormWrite_top c o h w m db hp he hd
    rw [runChild, markStale_clean h db he]
    exact ⟨hw.1, hw.2.1, hw.2.2.1, hw.2.2.2, rfl⟩
  | .read m, h, db, hp, he, hd, _, _, _, _, _, _ => by
    have hq := gormQuery_top o h db hp he
    rw [runChild, markStale_clean h db he]
    unfold specChild
    refine ⟨by rw [hq.1]; exact hd, ?_, ?_, ?_, rfl⟩
    · rw [hq.2.2.1]; split <;> rfl
    · rw [hq.2.1]; split <;> rfl
    · dsimp only; rw [hq.2.2.2]; split <;> rfl
  | .sp n m, h, db, _, _, _, hwf, _, _, _, _, _ => by simp [wfChild] at hwf
  | .rb n m, h, db, _, _, _, hwf, _, _, _, _, _ => by simp [wfChild] at hwf
  | .dv k body m, h, db, hp, he, hd, hwf, hn, hne, hnf, hs, hf => by
    have hnb : noRbs body = true := by simpa [noRb] using hn
    have hneb : noEndBody body = true := by rw [noEndChild_dv] at hne; exact hne
    have hnfb : noFailBody body = true := by rw [noFailChild_dv] at hnf; exact hnf
    have hwb : wfBody false body = true := by simpa [wfChild] using hwf
    have hrun : runChild c o h (.dv k body m) db =
        ((runBody c o (derive k h) body db).1, h, (runBody c o (derive k h) body db).2.2) := by
      rw [runChild, markStale_clean h db he]
    rw [hrun] at hs hf ⊢
    have ih := runBody_simTop c o body (derive k h) db (by rw [derive_isCommitter]; exact hp)
      (by rw [derive_err]; exact he) hd hwb hnb hneb hnfb hs hf
    rw [envOf_derive] at ih
    unfold specChild
    exact ⟨ih.1, ih.2.1, ih.2.2.1, ih.2.2.2.1, rfl⟩
  | .blk body out tag m, h, db, hp, he, hd, _, hn, hne, hnf, hs, hf => by
    have hnb : noRbs body = true := by simpa [noRb] using hn
    have hneb : noEndBody body = true := by rw [noEndChild_blk] at hne; exact hne
    have hnfb : noFailBody body = true := by rw [noFailChild_blk] at hnf; exact hnf
    rw [runChild_blk_top c o h body out tag m db hp, markStale_clean h db he] at hs hf ⊢
    rw [specChild_blk_root o (envOf c h) body out tag m db.committed db.calls hp]
    obtain ⟨bc, bcm, bT, bF⟩ := gormBegin_top c c.beginGuard o h db hp he
    cases ho : o db.calls
    · obtain ⟨btx, berr, bpool, benv⟩ := bF ho
      have hne : ¬ ((gormBegin c.beginGuard o h db).2.err ≠ []) := by rw [berr]; simp
      rw [if_neg hne] at hs hf ⊢
      simp only [Bool.false_eq_true, if_false]
      have mfin := finishRoot_mono o h out tag (runBody c o (gormBegin c.beginGuard o h db).2 body (gormBegin c.beginGuard o h db).1)
      have ih := runBody_simTx c o body (gormBegin c.beginGuard o h db).2 (gormBegin c.beginGuard o h db).1 _ bpool berr btx hnb hneb hnfb
        (stale_false_of_mono mfin hs) (rbFault_false_of_mono mfin hf)
      have hpool := (runBody_frame c o body (gormBegin c.beginGuard o h db).2 (gormBegin c.beginGuard o h db).1
        (by rw [bpool]; exact wfBody_true body)).1
      rw [benv, bc] at ih
      dsimp only at ih
      rw [specFnOut_eq]
      generalize specBody o (envOf c h).begin body db.committed (db.calls + 1) = y at ih ⊢
      generalize runBody c o (gormBegin c.beginGuard o h db).2 body (gormBegin c.beginGuard o h db).1 = b at ih hs hf hpool ⊢
      obtain ⟨db2, tx', r2⟩ := b
      obtain ⟨v2, n2, rs2⟩ := y
      obtain ⟨icm, icalls, ires, ⟨new, itx, _⟩, _⟩ := ih
      dsimp only at icm icalls ires itx hpool ⊢
      subst ires
      have fs := finishRoot_sim o h out tag db2 tx' r2 _ (by rw [hpool]; exact bpool) itx hs
      rw [icm, bcm, icalls] at fs
      exact fs
    · obtain ⟨btx, berr⟩ := bT ho
      rw [if_pos (by rw [berr]; simp)]
      simp only [if_true]
      exact ⟨by rw [btx]; exact hd, bcm, bc, by rw [berr], rfl⟩
  | .man body fin m, h, db, hp, he, hd, _, hn, hne, hnf, hs, hf => by
    have hnb : noRbs body = true := by simpa [noRb] using hn
    have hneb : noEndBody body = true := by rw [noEndChild_man] at hne; exact hne
    have hnfb : noFailBody body = true := by rw [noFailChild_man] at hnf; exact hnf
    rw [runChild_man_eq c o h body fin m db, markStale_clean h db he] at hs hf ⊢
    rw [specChild_man_root o (envOf c h) body fin m db.committed db.calls hp]
    obtain ⟨bc, bcm, bT, bF⟩ := gormBegin_top c c.beginGuard o h db hp he
    cases ho : o db.calls
    · obtain ⟨btx, berr, bpool, benv⟩ := bF ho
      have hne : ¬ ((gormBegin c.beginGuard o h db).2.err ≠ []) := by rw [berr]; simp
      rw [if_neg hne] at hs hf ⊢
      simp only [Bool.false_eq_true, if_false]
      have mfin := finishMan_mono o h fin (runBody c o (gormBegin c.beginGuard o h db).2 body (gormBegin c.beginGuard o h db).1)
      have ih := runBody_simTx c o body (gormBegin c.beginGuard o h db).2 (gormBegin c.beginGuard o h db).1 _ bpool berr btx hnb hneb hnfb
        (stale_false_of_mono mfin hs) (rbFault_false_of_mono mfin hf)
      have hpool := (runBody_frame c o body (gormBegin c.beginGuard o h db).2 (gormBegin c.beginGuard o h db).1
        (by rw [bpool]; exact wfBody_true body)).1
      rw [benv, bc] at ih
      dsimp only at ih
      generalize specBody o (envOf c h).begin body db.committed (db.calls + 1) = y at ih ⊢
      generalize runBody c o (gormBegin c.beginGuard o h db).2 body (gormBegin c.beginGuard o h db).1 = b at ih hs hf hpool ⊢
      obtain ⟨db2, tx', r2⟩ := b
      obtain ⟨v2, n2, rs2⟩ := y
      obtain ⟨icm, icalls, ires, ⟨new, itx, _⟩, _⟩ := ih
      dsimp only at icm icalls ires itx hpool ⊢
      subst ires
      have fs := finishMan_sim o h fin db2 tx' r2 _ (by rw [hpool]; exact bpool) itx hs
      rw [icm, bcm, icalls] at fs
      exact fs
    · obtain ⟨btx, berr⟩ := bT ho
      rw [if_pos (by rw [berr]; simp)]
      simp only [if_true]
      exact ⟨by rw [btx]; exact hd, bcm, bc, by rw [berr], rfl⟩
theorem runBody_simTop (c : Cfg) (o : Oracle) : ∀ (ps : List Prog) (h : Handle) (db : DB),
    h.pool.isCommitter = false → h.err = [] → db.tx = none → wfBody false ps = true → noRbs ps = true →
    noEndBody ps = true → noFailBody ps = true →
    (runBody c o h ps db).1.stale = false → (runBody c o h ps db).1.rbFault = false →
    SimTop h (runBody c o h ps db) (specBody o (envOf c h) ps db.committed db.calls)
  | [], h, db, _, _, hd, _, _, _, _, _, _ => by
    unfold runBody specBody
    exact ⟨hd, rfl, rfl, rfl, rfl⟩
  | p :: ps, h, db, hp, he, hd, hwf, hn, hne, hnf, hs, hf => by
    have hnn : noRb p = true ∧ noRbs ps = true := by simpa [noRbs] using hn
    have hee : noEndChild p = true ∧ noEndBody ps = true := by simpa [noEndBody_cons] using hne
    have hff : noFailChild p = true ∧ noFailBody ps = true := by simpa [noFailBody_cons] using hnf
    have hww : wfChild false p = true ∧ wfBody false ps = true := by simpa [wfBody] using hwf
    have m2 := runBody_mono c o ps (runChild c o h p db).2.1 (runChild c o h p db).1
    rw [runBody_cons] at hs hf ⊢
    rw [specBody_cons]
    have hs1 : (runChild c o h p db).1.stale = false := by
      split at hs
      · exact hs
      · exact stale_false_of_mono m2 hs
    have hf1 : (runChild c o h p db).1.rbFault = false := by
      split at hf
      · exact hf
      · exact rbFault_false_of_mono m2 hf
    have ih1 := runChild_simTop c o p h db hp he hd hww.1 hnn.1 hee.1 hff.1 hs1 hf1
    generalize specChild o (envOf c h) p db.committed db.calls = y at ih1 ⊢
    generalize runChild c o h p db = x at ih1 hs hf ⊢
    obtain ⟨db1, h1, r1⟩ := x
    obtain ⟨v1, n1, rs1⟩ := y
    obtain ⟨itx, icm, icalls, ires, ihand⟩ := ih1
    dsimp only at itx icm icalls ires ihand hs hf ⊢
    subst ires ihand
    by_cases hstop : r1 ≠ .ok ∧ p.must = true
    · rw [if_pos hstop, if_pos hstop]
      exact ⟨itx, icm, icalls, rfl, rfl⟩
    · rw [if_neg hstop] at hs hf ⊢
      rw [if_neg hstop]
      have ih2 := runBody_simTop c o ps h1 db1 hp he itx hww.2 hnn.2 hee.2 hff.2 hs hf
      rw [icm, icalls] at ih2
      exact ih2
end

/-- B. REFINEMENT. For every configuration, oracle and well-formed program without `RollbackTo` nodes, run from a database
    with no open transaction: if the run exhibits no stale use of a poisoned handle (the pattern of finding F18) and no fault
    was injected into a ROLLBACK TO, then the committed store and the result are exactly those of the functional reference
    (started at the same committed store and call counter); no transaction is left open. -/
theorem run_refines_gen (c : Cfg) (o : Oracle) (ps : List Prog) (db : DB)
    (hwf : wfBody false ps = true) (hn : noRbs ps = true) (hne : noEndBody ps = true) (hnf : noFailBody ps = true)
    (hd : db.tx = none)
    (hs : (run c o ps db).1.stale = false) (hf : (run c o ps db).1.rbFault = false) :
    (run c o ps db).1.tx = none ∧
    (run c o ps db).1.committed = (specBody o { inTx := false, skip := c.skip, dis := c.dis } ps db.committed db.calls).1 ∧
    (run c o ps db).1.calls = (specBody o { inTx := false, skip := c.skip, dis := c.dis } ps db.committed db.calls).2.1 ∧
    (run c o ps db).2 = (specBody o { inTx := false, skip := c.skip, dis := c.dis } ps db.committed db.calls).2.2 := by
  have hroot : c.root.pool.isCommitter = false := by
    unfold Cfg.root; cases c.prep <;> rfl
  have henv : envOf c c.root = { inTx := false, skip := c.skip, dis := c.dis } := by
    unfold envOf; rw [hroot]; simp [Cfg.root]
  unfold run at hs hf ⊢
  have sim := runBody_simTop c o ps c.root db hroot rfl hd hwf hn hne hnf hs hf
  rw [henv] at sim
  exact ⟨sim.1, sim.2.1, sim.2.2.1, sim.2.2.2.1⟩

theorem run_refines (c : Cfg) (o : Oracle) (ps : List Prog) (db : DB)
    (hwf : wfBody false ps = true) (hn : noRbs ps = true) (hne : noEndBody ps = true) (hnf : noFailBody ps = true)
    (hd : db.tx = none) (hc : db.calls = 0)
    (hs : (run c o ps db).1.stale = false) (hf : (run c o ps db).1.rbFault = false) :
    (run c o ps db).1.committed = (spec c o ps db.committed).1 ∧ (run c o ps db).2 = (spec c o ps db.committed).2 := by
  have h := run_refines_gen c o ps db hwf hn hne hnf hd hs hf
  rw [hc] at h
  unfold spec
  exact ⟨h.2.1, h.2.2.2⟩

end Gorm.Tx
