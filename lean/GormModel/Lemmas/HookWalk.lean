/-
  C13 (round 5) — lemmas about the `callMethod` walk with explicit `CurDestIndex` (Model/HookWalk.lean). Core Lean only.
-/
import GormModel.Model.HookWalk
namespace Gorm

/-- started with register = loop variable, an advancing loop keeps them equal and stays inside the slice -/
theorem walkLoop_aligned (addr : List Bool) (i : Nat) :
    ∀ k ∈ (walkLoop true addr i i).1, k.cur = k.elem ∧ i ≤ k.elem ∧ k.elem < i + addr.length := by
  induction addr generalizing i with
  | nil => intro k hk; simp [walkLoop] at hk
  | cons a rest ih =>
    intro k hk
    cases a with
    | false => simp [walkLoop] at hk
    | true =>
      simp only [walkLoop, if_true, List.mem_cons] at hk
      rcases hk with rfl | hk
      · simp
      · have := ih (i + 1) k hk
        simp only [List.length_cons]
        omega

/-- the register a loop leaves behind: one step per completed iteration -/
theorem walkLoop_final (n i cur : Nat) :
    (walkLoop true (List.replicate n true) i cur).2 = cur + n := by
  induction n generalizing i cur with
  | zero => simp [walkLoop]
  | succ n ih => simp only [List.replicate_succ, walkLoop, if_true]; rw [ih]; omega

/-- the first invocation of a walk over a non-empty addressable slice runs with the register the walk started from -/
theorem walkLoop_head (adv : Bool) (rest : List Bool) (i cur : Nat) :
    (walkLoop adv (true :: rest) i cur).1.head? = some ⟨i, cur⟩ := by
  simp [walkLoop]

/-- the elements the closure is called for are exactly those of `callSlice` (Model/Hooks.lean), whatever the register does -/
theorem walkLoop_calls (adv : Bool) (addr : List Bool) (i cur : Nat) :
    callSlice addr i =
      (walkLoop adv addr i cur).1.map (fun k => CallOut.call k.elem) ++ (if addr.all id then [] else [CallOut.invalidValue]) := by
  induction addr generalizing i cur with
  | nil => simp [callSlice, walkLoop]
  | cons a rest ih =>
    cases a with
    | false => simp [callSlice, walkLoop]
    | true =>
      simp only [callSlice, walkLoop, if_true, List.map_cons, List.cons_append, List.all_cons, id, Bool.true_and]
      rw [ih (i + 1) (if adv then cur + 1 else cur)]

/-- SetColumn per element: hooks writing `f i` for element `i` through an aligned advancing loop fill positions
    i, i+1, … with f i, f (i+1), … and leave the rest alone -/
theorem walkSet_loop {α : Type} (f : Nat → α) (n i : Nat) (vals : List α) (hl : i + n ≤ vals.length) :
    ∃ r, walkSet f (walkLoop true (List.replicate n true) i i).1 vals = some r ∧ r.length = vals.length ∧
      (∀ j, i ≤ j → j < i + n → r[j]? = some (f j)) ∧ (∀ j, j < i ∨ i + n ≤ j → r[j]? = vals[j]?) := by
  induction n generalizing i vals with
  | zero => exact ⟨vals, by simp [walkLoop, walkSet], rfl, by intro j h1 h2; omega, by intro j _; rfl⟩
  | succ n ih =>
    have hlt : i < vals.length := by omega
    obtain ⟨r, hr, hlen, hin, hout⟩ := ih (i + 1) (vals.set i (f i)) (by simp; omega)
    refine ⟨r, ?_, by simpa using hlen, ?_, ?_⟩
    · simp only [List.replicate_succ, walkLoop, if_true, walkSet, setColumnAt, hlt, Option.bind_some]
      exact hr
    · intro j h1 h2
      by_cases hj : j = i
      · subst hj
        rw [hout j (Or.inl (by omega))]
        simp [hlt]
      · exact hin j (by omega) (by omega)
    · intro j hj
      rw [hout j (by omega)]
      rw [List.getElem?_set_ne (by omega)]

end Gorm
