/-
  Lemmas about the ghost `DB.leaked` of Model/Tx.lean (driver transactions begun through a handle that already carried an
  error — finding F27): nothing but an unrepaired `Begin` on such a handle OUTSIDE a transaction ever increases it.
-/
import GormModel.Model.Tx
import GormModel.Lemmas.Tx
namespace Gorm.Tx

@[simp] theorem markStale_leaked (h : Handle) (db : DB) : (markStale h db).leaked = db.leaked := by
  unfold markStale; split <;> rfl
@[simp] theorem tick_leaked (o : Oracle) (k : K) (db : DB) : (tick o k db).1.leaked = db.leaked := rfl
@[simp] theorem tickR_leaked (db : DB) : (tickR db).leaked = db.leaked := rfl

@[simp] theorem drvBegin_leaked (o : Oracle) (db : DB) : (drvBegin o db).1.leaked = db.leaked := by
  unfold drvBegin tick; dsimp only; split <;> rfl
@[simp] theorem drvExecPool_leaked (o : Oracle) (w : Write) (db : DB) : (drvExecPool o w db).1.leaked = db.leaked := by
  unfold drvExecPool tick; dsimp only; split
  · rfl
  · split <;> rfl
@[simp] theorem drvExecTx_leaked (o : Oracle) (w : Write) (db : DB) : (drvExecTx o w db).1.leaked = db.leaked := by
  unfold drvExecTx tick; split
  · rfl
  · dsimp only; split
    · rfl
    · split <;> rfl
@[simp] theorem drvQueryPool_leaked (o : Oracle) (cond : List Nat) (db : DB) : (drvQueryPool o cond db).1.leaked = db.leaked := by
  unfold drvQueryPool tick; dsimp only; split <;> rfl
@[simp] theorem drvQueryTx_leaked (o : Oracle) (cond : List Nat) (db : DB) : (drvQueryTx o cond db).1.leaked = db.leaked := by
  unfold drvQueryTx tick; split
  · rfl
  · dsimp only; split <;> rfl
@[simp] theorem drvSavepoint_leaked (o : Oracle) (n : SpName) (db : DB) : (drvSavepoint o n db).1.leaked = db.leaked := by
  unfold drvSavepoint tick; split
  · rfl
  · dsimp only; split <;> rfl
@[simp] theorem drvRollbackTo_leaked (o : Oracle) (n : SpName) (db : DB) : (drvRollbackTo o n db).1.leaked = db.leaked := by
  unfold drvRollbackTo tick; split
  · rfl
  · dsimp only; split
    · rfl
    · split <;> rfl
@[simp] theorem drvCommit_leaked (o : Oracle) (db : DB) : (drvCommit o db).1.leaked = db.leaked := by
  unfold drvCommit tick; split
  · rfl
  · dsimp only; split <;> rfl
@[simp] theorem drvRollback_leaked (db : DB) : (drvRollback db).1.leaked = db.leaked := by
  unfold drvRollback tickR; split <;> rfl

@[simp] theorem gormCommit_leaked (o : Oracle) (h : Handle) (db : DB) : (gormCommit o h db).1.leaked = db.leaked := by
  unfold gormCommit; cases hpool : h.pool <;> simp
@[simp] theorem gormRollback_leaked (h : Handle) (db : DB) : (gormRollback h db).1.leaked = db.leaked := by
  unfold gormRollback; cases hpool : h.pool <;> simp
@[simp] theorem gormSavePoint_leaked (o : Oracle) (h : Handle) (n : SpName) (db : DB) :
    (gormSavePoint o h n db).1.leaked = db.leaked := by
  show (execRawTx h (drvSavepoint o n) db).1.leaked = db.leaked
  unfold execRawTx; split <;> simp
@[simp] theorem gormRollbackTo_leaked (o : Oracle) (h : Handle) (n : SpName) (db : DB) :
    (gormRollbackTo o h n db).1.leaked = db.leaked := by
  show (execRawTx h (drvRollbackTo o n) db).1.leaked = db.leaked
  unfold execRawTx; split <;> simp
@[simp] theorem gormQuery_leaked (o : Oracle) (h : Handle) (db : DB) : (gormQuery o h db).1.leaked = db.leaked := by
  unfold gormQuery; split
  · rfl
  · split <;> simp
@[simp] theorem gormMiss_leaked (o : Oracle) (h : Handle) (db : DB) : (gormMiss o h db).1.leaked = db.leaked := by
  rcases gormMiss_tick o h db with h1 | h1 <;> rw [h1] <;> rfl
@[simp] theorem failH_leaked (o : Oracle) (src : FailSrc) (h : Handle) (db : DB) : (failH o src h db).1.leaked = db.leaked := by
  cases src <;> simp [failH]
@[simp] theorem fnEnd_leaked (h : Handle) (r : Res) (out : Out) (tag : Nat) (db : DB) : (fnEnd h r out tag db).1.leaked = db.leaked := by
  unfold fnEnd; split
  · dsimp only; split <;> simp
  · rfl

/-- Begin does not add an orphan when the handle is clean, when it is a transaction handle, or when Begin has the early return -/
theorem gormBegin_leaked (g : Bool) (o : Oracle) (h : Handle) (db : DB)
    (hh : h.err = [] ∨ h.pool.isCommitter = true ∨ g = true) : (gormBegin g o h db).1.leaked = db.leaked := by
  by_cases he : h.err = []
  · unfold gormBegin drvBeginVia
    simp only [he, ne_eq, not_true_eq_false, and_false, if_false, if_true]
    cases hpool : h.pool <;> simp
  · rcases hh with h1 | h1 | h1
    · exact absurd h1 he
    · rw [(gormBegin_committer g o h db h1).1]
    · unfold gormBegin; rw [if_pos ⟨h1, he⟩]

/-- … and it DOES add one otherwise: an unrepaired Begin reaches `BeginTx` through a handle that carries an error; unless the
    oracle fails that very BEGIN, a driver transaction is open that nothing will ever end -/
theorem gormBegin_orphan (o : Oracle) (h : Handle) (db : DB) (he : h.err ≠ []) (hp : h.pool.isCommitter = false)
    (ho : o db.calls = false) : (gormBegin false o h db).1.leaked = db.leaked + 1 := by
  unfold gormBegin drvBeginVia drvBeginOrphan tick
  cases hpool : h.pool <;> simp_all [Pool.isCommitter]

theorem gormWrite_leaked (c : Cfg) (o : Oracle) (h : Handle) (w : Write) (db : DB) :
    (gormWrite c o h w db).1.leaked = db.leaked := by
  unfold gormWrite
  dsimp only
  split
  · rfl
  · rename_i he
    have he' : h.err = [] := by simpa using he
    split
    · simp
    · split
      · simp
      · have hb := gormBegin_leaked c.beginGuard o h db (Or.inl he')
        generalize gormBegin c.beginGuard o h db = b at hb
        obtain ⟨db1, tx⟩ := b
        dsimp only at hb ⊢
        split
        · exact hb
        · generalize hx : drvExecTx o (effWrite h.effCond w) db1 = e
          have hl : e.1.leaked = db1.leaked := by rw [← hx]; simp
          obtain ⟨db2, e⟩ := e
          dsimp only at hl ⊢
          split
          · simp [hl, hb]
          · simp [hl, hb]

theorem finishRoot_leaked (o : Oracle) (h : Handle) (out : Out) (tag : Nat) (x : DB × Handle × Res) :
    (finishRoot o h out tag x).1.leaked = x.1.leaked := by
  obtain ⟨db, tx, r⟩ := x
  unfold finishRoot
  dsimp only
  have h1 : (fnEnd tx r out tag db).1.leaked = db.leaked := by simp
  generalize fnEnd tx r out tag db = fe at h1
  obtain ⟨db1, r1⟩ := fe
  dsimp only at h1 ⊢
  split
  · split <;> simp [h1]
  · simp [h1]

theorem finishNested_leaked (o : Oracle) (h1 : Handle) (name : SpName) (out : Out) (tag : Nat) (x : DB × Handle × Res) :
    (finishNested o h1 name out tag x).1.leaked = x.1.leaked := by
  obtain ⟨db, inner, r⟩ := x
  unfold finishNested
  dsimp only
  have h1 : (fnEnd inner r out tag db).1.leaked = db.leaked := by simp
  generalize fnEnd inner r out tag db = fe at h1
  obtain ⟨db1, r1⟩ := fe
  dsimp only at h1 ⊢
  split <;> simp [h1]

theorem finishDis_leaked (h : Handle) (out : Out) (tag : Nat) (x : DB × Handle × Res) :
    (finishDis h out tag x).1.leaked = x.1.leaked := by
  obtain ⟨db, inner, r⟩ := x
  unfold finishDis
  simp

theorem finishMan_leaked (o : Oracle) (h : Handle) (fin : Fin) (x : DB × Handle × Res) :
    (finishMan o h fin x).1.leaked = x.1.leaked := by
  obtain ⟨db, tx, r⟩ := x
  unfold finishMan
  dsimp only
  split
  · split <;> simp
  · simp

theorem safeBody_cons (f : Bool) (p : Prog) (ps : List Prog) : safeBody f (p :: ps) = (safeChild f p && safeBody f ps) := by
  rw [safeBody]
theorem safeChild_blk (f : Bool) (body : List Prog) (out : Out) (tag : Nat) (m : Bool) :
    safeChild f (.blk body out tag m) = !f := by rw [safeChild]
theorem safeChild_man (f : Bool) (body : List Prog) (fin : Fin) (m : Bool) :
    safeChild f (.man body fin m) = !f := by rw [safeChild]
theorem safeChild_dv (f : Bool) (k : Derive) (body : List Prog) (m : Bool) :
    safeChild f (.dv k body m) = safeBody f body := by rw [safeChild]
theorem safeChild_fh (f : Bool) (src : FailSrc) (body : List Prog) (m : Bool) :
    safeChild f (.fh src body m) = safeBody true body := by rw [safeChild]

/-- Who may add an orphan. On a TRANSACTION handle: nothing, ever. On a pool handle with no transaction open: nothing, provided
    Begin has the early return (`c.beginGuard`) OR the program never invokes Transaction / Begin on a handle that carries an
    error (`safe failed`, where `failed` over-approximates "the handle carries an error"). -/
def LeakFrame (c : Cfg) (safe : Bool → Bool) (h : Handle) (db : DB) (r : DB × Handle × Res) : Prop :=
  (h.pool.isCommitter = true → r.1.leaked = db.leaked) ∧
  (h.pool.isCommitter = false → db.tx = none → ∀ failed : Bool, (h.err ≠ [] → failed = true) →
      (c.beginGuard = true ∨ safe failed = true) → r.1.leaked = db.leaked)

mutual
theorem runChild_leak (c : Cfg) (o : Oracle) : ∀ (p : Prog) (h : Handle) (db : DB),
    wfChild h.pool.isCommitter p = true → LeakFrame c (fun f => safeChild f p) h db (runChild c o h p db)
  | .write w m, h, db, _ => by
    unfold runChild
    have : (gormWrite c o h w (markStale h db)).1.leaked = db.leaked := by rw [gormWrite_leaked]; simp
    exact ⟨fun _ => this, fun _ _ _ _ _ => this⟩
  | .read m, h, db, _ => by
    unfold runChild
    exact ⟨fun _ => by simp, fun _ _ _ _ _ => by simp⟩
  | .sp n m, h, db, _ => by
    unfold runChild
    exact ⟨fun _ => by simp, fun _ _ _ _ _ => by simp⟩
  | .rb n m, h, db, _ => by
    unfold runChild
    exact ⟨fun _ => by simp, fun _ _ _ _ _ => by simp⟩
  | .endtx m, h, db, _ => by
    unfold runChild
    exact ⟨fun _ => by simp, fun _ _ _ _ _ => by simp⟩
  | .blk body out tag m, h, db, hwf => by
    have hwb : wfBody true body = true := by simpa [wfChild] using hwf
    unfold runChild
    dsimp only
    by_cases hp : h.pool.isCommitter = true
    · simp only [hp, if_true]
      refine ⟨fun _ => ?_, fun hf => by simp [hp] at hf⟩
      split
      · split
        · simp
        · have ih := runBody_leak c o body
            (nestH (gormSavePoint o h (SpName.auto (markStale h db).calls) (markStale h db)).2)
            (gormSavePoint o h (SpName.auto (markStale h db).calls) (markStale h db)).1 (by simpa [hp] using hwb)
          rw [finishNested_leaked, ih.1 (by simpa using hp)]; simp
      · have ih := runBody_leak c o body (nestH h) (markStale h db) (by simpa [hp] using hwb)
        rw [finishDis_leaked, ih.1 (by simpa using hp)]; simp
    · have hp' : h.pool.isCommitter = false := by simpa using hp
      simp only [hp', Bool.false_eq_true, if_false]
      refine ⟨fun hf => by simp [hp'] at hf, fun _ _ failed hfl hs => ?_⟩
      have hcond : h.err = [] ∨ h.pool.isCommitter = true ∨ c.beginGuard = true := by
        rcases hs with hg | hs
        · exact Or.inr (Or.inr hg)
        · dsimp only at hs; rw [safeChild_blk] at hs
          by_cases he : h.err = []
          · exact Or.inl he
          · have := hfl he; simp [this] at hs
      have hb := gormBegin_leaked c.beginGuard o h (markStale h db) hcond
      split
      · rw [hb]; simp
      · rename_i hne
        have he : h.err = [] := by
          by_cases he : h.err = []
          · exact he
          · exact absurd (gormBegin_failed c.beginGuard o h (markStale h db) he).1 hne
        have hr := gormBegin_root c.beginGuard o h (markStale h db) hp' he
        have ih := runBody_leak c o body (gormBegin c.beginGuard o h (markStale h db)).2 (gormBegin c.beginGuard o h (markStale h db)).1
          (by simpa [hr.1] using hwb)
        rw [finishRoot_leaked, ih.1 hr.1, hb]; simp
  | .man body fin m, h, db, hwf => by
    have hwb : wfBody true body = true := by simpa [wfChild] using hwf
    unfold runChild
    dsimp only
    refine ⟨fun hp => ?_, fun hp _ failed hfl hs => ?_⟩
    · have hb := gormBegin_committer c.beginGuard o h (markStale h db) hp
      rw [if_pos hb.2, hb.1]; simp
    · have hcond : h.err = [] ∨ h.pool.isCommitter = true ∨ c.beginGuard = true := by
        rcases hs with hg | hs
        · exact Or.inr (Or.inr hg)
        · dsimp only at hs; rw [safeChild_man] at hs
          by_cases he : h.err = []
          · exact Or.inl he
          · have := hfl he; simp [this] at hs
      have hb := gormBegin_leaked c.beginGuard o h (markStale h db) hcond
      split
      · rw [hb]; simp
      · rename_i hne
        have he : h.err = [] := by
          by_cases he : h.err = []
          · exact he
          · exact absurd (gormBegin_failed c.beginGuard o h (markStale h db) he).1 hne
        have hr := gormBegin_root c.beginGuard o h (markStale h db) hp he
        have ih := runBody_leak c o body (gormBegin c.beginGuard o h (markStale h db)).2 (gormBegin c.beginGuard o h (markStale h db)).1
          (by simpa [hr.1] using hwb)
        rw [finishMan_leaked, ih.1 hr.1, hb]; simp
  | .dv k body m, h, db, hwf => by
    have hwb : wfBody (derive k h).pool.isCommitter body = true := by
      rw [derive_isCommitter]; simpa [wfChild] using hwf
    have ih := runBody_leak c o body (derive k h) (markStale h db) hwb
    unfold runChild
    generalize runBody c o (derive k h) body (markStale h db) = r at ih
    obtain ⟨db1, h1, r1⟩ := r
    dsimp only at ih ⊢
    refine ⟨fun hp => by rw [ih.1 (by rw [derive_isCommitter]; exact hp)]; simp, fun hp hd failed hfl hs => ?_⟩
    rw [ih.2 (by rw [derive_isCommitter]; exact hp) (by simpa using hd) failed (by rw [derive_err]; exact hfl)
      (by dsimp only at hs; rw [safeChild_dv] at hs; exact hs)]
    simp
  | .fh src body m, h, db, hwf => by
    have hwb : wfBody (failH o src h (markStale h db)).2.pool.isCommitter body = true := by
      rw [failH_pool]; simpa [wfChild] using hwf
    have ih := runBody_leak c o body (failH o src h (markStale h db)).2 (failH o src h (markStale h db)).1 hwb
    unfold runChild
    generalize runBody c o (failH o src h (markStale h db)).2 body (failH o src h (markStale h db)).1 = r at ih
    obtain ⟨db1, h1, r1⟩ := r
    dsimp only at ih ⊢
    refine ⟨fun hp => by rw [ih.1 (by rw [failH_pool]; exact hp)]; simp, fun hp hd _ _ hs => ?_⟩
    rw [ih.2 (by rw [failH_pool]; exact hp) (by simpa using hd) true (fun _ => rfl)
      (by dsimp only at hs; rw [safeChild_fh] at hs; exact hs)]
    simp
theorem runBody_leak (c : Cfg) (o : Oracle) : ∀ (ps : List Prog) (h : Handle) (db : DB),
    wfBody h.pool.isCommitter ps = true → LeakFrame c (fun f => safeBody f ps) h db (runBody c o h ps db)
  | [], h, db, _ => by
    unfold runBody
    exact ⟨fun _ => rfl, fun _ _ _ _ _ => rfl⟩
  | p :: ps, h, db, hwf => by
    have hw : wfChild h.pool.isCommitter p = true ∧ wfBody h.pool.isCommitter ps = true := by
      simpa [wfBody] using hwf
    have fr := runChild_frame c o p h db hw.1
    have ih1 := runChild_leak c o p h db hw.1
    unfold runBody
    generalize runChild c o h p db = r1 at ih1 fr
    obtain ⟨db1, h1, r⟩ := r1
    dsimp only at ih1 fr ⊢
    have ih2 := runBody_leak c o ps h1 db1 (by rw [fr.1]; exact hw.2)
    have comp : LeakFrame c (fun f => safeBody f (p :: ps)) h db (runBody c o h1 ps db1) := by
      refine ⟨fun hp => (ih2.1 (by rw [fr.1]; exact hp)).trans (ih1.1 hp), fun hp hd failed hfl hs => ?_⟩
      have a := fr.2.2 hp hd
      have hs1 : c.beginGuard = true ∨ safeChild failed p = true := by
        rcases hs with hg | hs
        · exact Or.inl hg
        · dsimp only at hs; rw [safeBody_cons] at hs; simp at hs; exact Or.inr hs.1
      have hs2 : c.beginGuard = true ∨ safeBody failed ps = true := by
        rcases hs with hg | hs
        · exact Or.inl hg
        · dsimp only at hs; rw [safeBody_cons] at hs; simp at hs; exact Or.inr hs.2
      have hfl1 : h1.err ≠ [] → failed = true := fun hne => hfl (fun he => hne (a.2 he))
      exact (ih2.2 (by rw [fr.1]; exact hp) a.1 failed hfl1 hs2).trans (ih1.2 hp hd failed hfl hs1)
    have first : LeakFrame c (fun f => safeBody f (p :: ps)) h db (db1, h1, r) := by
      refine ⟨ih1.1, fun hp hd failed hfl hs => ih1.2 hp hd failed hfl ?_⟩
      rcases hs with hg | hs
      · exact Or.inl hg
      · dsimp only at hs; rw [safeBody_cons] at hs; simp at hs; exact Or.inr hs.1
    split
    · exact comp
    · split
      · exact first
      · exact comp
end

end Gorm.Tx
