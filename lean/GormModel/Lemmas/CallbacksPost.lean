import GormModel.Model.Callbacks
import GormModel.Lemmas.Callbacks
import GormModel.Lemmas.CallbacksReach
/-!
  Post-conditions of a SUCCESSFUL `sortCallback` call (no error returned):
  the visited callback is placed, and every `after` field that was rewritten now names a placed callback.
-/
namespace Gorm.CbL
open Gorm

/-- every `after` field is unchanged or names a callback that is placed in the new state -/
def D (a b : SortSt) : Prop :=
  ∀ j : Nat, (b.cs[j]!).after = (a.cs[j]!).after ∨ (b.cs[j]!).after ∈ b.sorted

theorem D.refl (a : SortSt) : D a a := fun _ => Or.inl rfl

theorem D.trans {a b c : SortSt} (h1 : D a b) (h2 : D b c) (hs : ∀ s ∈ b.sorted, s ∈ c.sorted) : D a c := by
  intro j
  rcases h2 j with h | h
  · rcases h1 j with h' | h'
    · left; rw [h, h']
    · right; rw [h]; exact hs _ h'
  · right; exact h

theorem beforeBlock_aft (names : List String) (i : Nat) (st : SortSt) (j : Nat) :
    ((beforeBlock names i st).1.cs[j]!).after = (st.cs[j]!).after ∨
    ((beforeBlock names i st).1.cs[j]!).after = (st.cs[i]!).name := by
  unfold beforeBlock
  simp only
  split
  · split
    · split <;> exact Or.inl rfl
    · split
      · split
        · exact Or.inl rfl
        · split <;> exact Or.inl rfl
      · split
        · simp only [setAfter_get]
          split
          · right; rfl
          · left; rfl
        · exact Or.inl rfl
  · exact Or.inl rfl

theorem finalBlock_mem (cname : String) (st : SortSt) : cname ∈ (finalBlock cname st).1.sorted := by
  unfold finalBlock
  split
  · simp
  · rename_i hn
    cases h : getRIndex st.sorted cname with
    | none => simp [h] at hn
    | some k => exact getRIndex_some_mem _ _ _ h

theorem finalBlock_cs (cname : String) (st : SortSt) : (finalBlock cname st).1.cs = st.cs := by
  unfold finalBlock; split <;> rfl

theorem finalBlock_ok (cname : String) (st : SortSt) : (finalBlock cname st).2 = none := by
  unfold finalBlock; split <;> rfl

theorem afterBlock_post (recur : Nat → SortSt → SortRes) (names : List String) (i : Nat) (st : SortSt)
    (hreach : ∀ j s, WF names s → j < s.cs.size → Reach names s (recur j s).1)
    (hrec : ∀ j s, WF names s → j < s.cs.size → (recur j s).2 = none →
        (s.cs[j]!).name ∈ (recur j s).1.sorted ∧ D s (recur j s).1)
    (hw : WF names st) (hi : i < st.cs.size) :
    (afterBlock recur names i st).2 = none → D st (afterBlock recur names i st).1 := by
  unfold afterBlock
  simp only
  split
  · rename_i hne
    split
    · split <;> (intro _; exact (fun _ => Or.inl rfl))
    · split
      · split
        · intro _; exact (fun _ => Or.inl rfl)
        · split
          · intro h; cases h
          · intro _; exact (fun _ => Or.inl rfl)
      · split
        · rename_i idx hg
          have hidx : idx < st.cs.size := by
            have := (getRIndex_some _ _ _ hg).1
            rw [hw.1] at this; exact this
          have h0 : Reach names st (if (st.cs[idx]!).before = "" then
              ({ st with cs := setBefore st.cs idx (st.cs[i]!).name } : SortSt) else st) := by
            split
            · exact Reach.one (Atomic.setBefore st i idx hi hne hg)
            · exact Reach.refl _
          have hd0 : D st (if (st.cs[idx]!).before = "" then
              ({ st with cs := setBefore st.cs idx (st.cs[i]!).name } : SortSt) else st) := by
            split
            · intro j; left; simp only [setBefore_get]; split <;> rfl
            · exact (fun _ => Or.inl rfl)
          have hw0 := reach_wf h0 hw
          have hs0 := reach_size h0
          have hr1 := hreach idx _ hw0 (by rw [hs0]; exact hidx)
          have hp1 := hrec idx _ hw0 (by rw [hs0]; exact hidx)
          split
          · intro h; cases h
          · rename_i st1 heq
            rw [heq] at hr1 hp1
            have h01 := h0.trans hr1
            have hw1 := reach_wf h01 hw
            have hi1 : i < st1.cs.size := by rw [reach_size h01]; exact hi
            have hr2 := hreach i st1 hw1 hi1
            have hp2 := hrec i st1 hw1 hi1
            intro hok
            have hd01 : D st st1 := D.trans hd0 (hp1 rfl).2 (fun s hs => (reach_sub hr1).subset hs)
            exact D.trans hd01 (hp2 hok).2 (fun s hs => (reach_sub hr2).subset hs)
        · intro _; exact (fun _ => Or.inl rfl)
  · intro _; exact (fun _ => Or.inl rfl)

theorem sortCallback_post (names : List String) (fuel i : Nat) (st : SortSt)
    (hw : WF names st) (hi : i < st.cs.size) :
    (sortCallback names fuel i st).2 = none →
      (st.cs[i]!).name ∈ (sortCallback names fuel i st).1.sorted ∧ D st (sortCallback names fuel i st).1 := by
  induction fuel generalizing i st with
  | zero => intro h; simp [sortCallback] at h
  | succ fuel ih =>
    unfold sortCallback
    simp only
    have hmem := hw.name_mem hi
    have h1 := beforeBlock_reach names i st hw hi
    have ha1 := beforeBlock_aft names i st
    split
    · intro h; cases h
    · rename_i st1 heq
      rw [heq] at h1 ha1
      have hw1 := reach_wf h1 hw
      have hi1 : i < st1.cs.size := by rw [reach_size h1]; exact hi
      have h2 := afterBlock_reach (sortCallback names fuel) names i st1
        (fun j s hs hj => sortCallback_reach names fuel j s hs hj) hw1 hi1
      have hp2 := afterBlock_post (sortCallback names fuel) names i st1
        (fun j s hs hj => sortCallback_reach names fuel j s hs hj) (fun j s hs hj => ih j s hs hj) hw1 hi1
      split
      · intro h; cases h
      · rename_i st2 heq2
        rw [heq2] at h2 hp2
        intro _
        have hm := finalBlock_mem (st.cs[i]!).name st2
        refine ⟨hm, ?_⟩
        have hr3 := finalBlock_reach names (st.cs[i]!).name st2 hmem
        intro j
        rw [finalBlock_cs]
        rcases hp2 rfl j with h | h
        · rcases ha1 j with h' | h'
          · left; rw [h, h']
          · right; rw [h, h']; exact hm
        · right; exact (reach_sub hr3).subset h

/-- main loop: after `k` successful iterations starting at `i`, the callbacks `i .. i+k-1` are placed -/
theorem sortLoop_post (names : List String) (fuel k i : Nat) (st : SortSt)
    (hw : WF names st) (hi : i + k ≤ st.cs.size) :
    (sortLoop names fuel k i st).2 = none →
      ∀ j, i ≤ j → j < i + k → (st.cs[j]!).name ∈ (sortLoop names fuel k i st).1.sorted := by
  induction k generalizing i st with
  | zero => intro _ j h1 h2; omega
  | succ k ih =>
    unfold sortLoop
    have h1 := sortCallback_reach names fuel i st hw (by omega)
    have hp1 := sortCallback_post names fuel i st hw (by omega)
    split
    · intro h; cases h
    · rename_i st1 heq
      rw [heq] at h1 hp1
      have hw1 := reach_wf h1 hw
      have hr2 := sortLoop_reach names fuel k (i+1) st1 hw1 (by rw [reach_size h1]; omega)
      intro hok j hj1 hj2
      by_cases hji : j = i
      · subst hji
        exact (reach_sub hr2).subset (hp1 rfl).1
      · have := ih (i+1) st1 hw1 (by rw [reach_size h1]; omega) hok j (by omega) (by omega)
        rwa [reach_name h1] at this

end Gorm.CbL
