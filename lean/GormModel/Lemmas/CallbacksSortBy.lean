import GormModel.Model.Callbacks
import GormModel.Lemmas.Callbacks
import GormModel.Lemmas.CallbacksTable
import GormModel.Lemmas.CallbacksFuel
/-!
  The `sort.SliceStable` pre-pass for an arbitrary comparator (`stableSortBy`), the closed form of the
  repaired pre-pass (F19: comparator `!star(cs[i]) && star(cs[j])`), and its agreement with the original
  comparator on every table that does not hold both kinds of '*' records.
-/
namespace Gorm.CbL
open Gorm

theorem mem_insertBackBy (less : Cb → Cb → Bool) (x : Cb) (l : List Cb) (y : Cb) :
    y ∈ insertBackBy less x l ↔ y = x ∨ y ∈ l := by
  induction l with
  | nil => simp [insertBackBy]
  | cons z zs ih =>
    unfold insertBackBy
    split
    · simp only [List.mem_cons, ih]
      constructor
      · rintro (h | h | h)
        · exact Or.inr (Or.inl h)
        · exact Or.inl h
        · exact Or.inr (Or.inr h)
      · rintro (h | h | h)
        · exact Or.inr (Or.inl h)
        · exact Or.inl h
        · exact Or.inr (Or.inr h)
    · simp

theorem mem_foldl_insertBackBy (less : Cb → Cb → Bool) (l acc : List Cb) (y : Cb) :
    y ∈ l.foldl (fun acc x => insertBackBy less x acc) acc ↔ y ∈ l ∨ y ∈ acc := by
  induction l generalizing acc with
  | nil => simp
  | cons x xs ih =>
    simp only [List.foldl_cons, ih, mem_insertBackBy, List.mem_cons]
    constructor
    · rintro (h | h | h)
      · exact Or.inl (Or.inr h)
      · exact Or.inl (Or.inl h)
      · exact Or.inr h
    · rintro ((h | h) | h)
      · exact Or.inr (Or.inl h)
      · exact Or.inl h
      · exact Or.inr (Or.inr h)

theorem mem_stableSortBy (less : Cb → Cb → Bool) (l : List Cb) (y : Cb) : y ∈ stableSortBy less l ↔ y ∈ l := by
  simp [stableSortBy, mem_foldl_insertBackBy]

theorem length_insertBackBy (less : Cb → Cb → Bool) (x : Cb) (l : List Cb) :
    (insertBackBy less x l).length = l.length + 1 := by
  induction l with
  | nil => simp [insertBackBy]
  | cons z zs ih => unfold insertBackBy; split <;> simp [ih]

theorem length_stableSortBy (less : Cb → Cb → Bool) (l : List Cb) : (stableSortBy less l).length = l.length := by
  have key : ∀ (l acc : List Cb),
      (l.foldl (fun acc x => insertBackBy less x acc) acc).length = l.length + acc.length := by
    intro l
    induction l with
    | nil => intro acc; simp
    | cons x xs ih => intro acc; simp only [List.foldl_cons, ih, length_insertBackBy, List.length_cons]; omega
  simp [stableSortBy, key]

/-- the insertion sort only looks at the comparator on the elements it sorts -/
theorem insertBackBy_congr (l1 l2 : Cb → Cb → Bool) (x : Cb) (l : List Cb)
    (h : ∀ y ∈ l, l1 x y = l2 x y) : insertBackBy l1 x l = insertBackBy l2 x l := by
  induction l with
  | nil => rfl
  | cons z zs ih =>
    unfold insertBackBy
    rw [h z (by simp), ih (fun y hy => h y (by simp [hy]))]

theorem foldl_insertBackBy_congr (l1 l2 : Cb → Cb → Bool) (l acc : List Cb)
    (h : ∀ x, x ∈ l ∨ x ∈ acc → ∀ y, y ∈ l ∨ y ∈ acc → l1 x y = l2 x y) :
    l.foldl (fun acc x => insertBackBy l1 x acc) acc = l.foldl (fun acc x => insertBackBy l2 x acc) acc := by
  induction l generalizing acc with
  | nil => rfl
  | cons x xs ih =>
    simp only [List.foldl_cons]
    rw [insertBackBy_congr l1 l2 x acc (fun y hy => h x (by simp) y (Or.inr hy))]
    apply ih
    intro a ha b hb
    apply h
    · rcases ha with ha | ha
      · exact Or.inl (by simp [ha])
      · rcases (mem_insertBackBy l2 x acc a).mp ha with rfl | ha
        · exact Or.inl (by simp)
        · exact Or.inr ha
    · rcases hb with hb | hb
      · exact Or.inl (by simp [hb])
      · rcases (mem_insertBackBy l2 x acc b).mp hb with rfl | hb
        · exact Or.inl (by simp)
        · exact Or.inr hb

theorem stableSortBy_congr (l1 l2 : Cb → Cb → Bool) (l : List Cb)
    (h : ∀ x ∈ l, ∀ y ∈ l, l1 x y = l2 x y) : stableSortBy l1 l = stableSortBy l2 l := by
  unfold stableSortBy
  rw [foldl_insertBackBy_congr l1 l2 l [] (by
    intro x hx y hy
    simp only [List.not_mem_nil, or_false] at hx hy
    exact h x hx y hy)]

theorem insertBackBy_cbLess (x : Cb) (l : List Cb) : insertBackBy cbLess x l = insertBack x l := by
  induction l with
  | nil => rfl
  | cons z zs ih => unfold insertBackBy insertBack; rw [ih]

/-- the original pre-pass is the generic insertion sort with the original comparator -/
theorem stableSortBy_cbLess (l : List Cb) : stableSortBy cbLess l = stableSortCbs l := by
  unfold stableSortBy stableSortCbs insertionSortRev
  congr 1
  congr 1
  funext acc x
  exact insertBackBy_cbLess x acc

/-! ### the repaired comparator: closed form -/

theorem insertBackBy_skip (less : Cb → Cb → Bool) (x : Cb) (A B : List Cb)
    (hA : ∀ y ∈ A, less x y = true) (hB : ∀ y ∈ B.head?, less x y = false) :
    insertBackBy less x (A ++ B) = A ++ x :: B := by
  induction A with
  | nil =>
    cases B with
    | nil => rfl
    | cons b bs =>
      simp only [List.nil_append]
      unfold insertBackBy
      rw [hB b (by simp)]
      simp
  | cons a as ih =>
    simp only [List.cons_append]
    unfold insertBackBy
    rw [hA a (by simp)]
    simp only [if_true]
    rw [ih (fun y hy => hA y (by simp [hy]))]

/-- invariant of the insertion sort with the repaired comparator: the processed prefix is (reversed) its
    non-'*' records followed by its '*' records, each group in input order -/
theorem foldl_starLess (l pre : List Cb) :
    l.foldl (fun acc x => insertBackBy starLess x acc)
        ((pre.filter (·.star)).reverse ++ (pre.filter (fun c => !c.star)).reverse) =
      (((pre ++ l).filter (·.star)).reverse ++ ((pre ++ l).filter (fun c => !c.star)).reverse) := by
  induction l generalizing pre with
  | nil => simp
  | cons x xs ih =>
    simp only [List.foldl_cons]
    have hstep : insertBackBy starLess x
        ((pre.filter (·.star)).reverse ++ (pre.filter (fun c => !c.star)).reverse) =
        (((pre ++ [x]).filter (·.star)).reverse ++ ((pre ++ [x]).filter (fun c => !c.star)).reverse) := by
      cases hx : x.star with
      | true =>
        -- a '*' record stays where it is appended
        have h := insertBackBy_skip starLess x []
          ((pre.filter (·.star)).reverse ++ (pre.filter (fun c => !c.star)).reverse)
          (by intro y hy; cases hy) (by intro y _; simp [starLess, hx])
        simp only [List.nil_append] at h
        rw [h]
        simp [List.filter_append, hx]
      | false =>
        -- a non-'*' record moves in front of every '*' record
        have h := insertBackBy_skip starLess x (pre.filter (·.star)).reverse
          (pre.filter (fun c => !c.star)).reverse
          (by
            intro y hy
            have : y.star = true := by
              have := List.mem_reverse.mp hy
              exact (List.mem_filter.mp this).2
            simp [starLess, hx, this])
          (by
            intro y hy
            have hm : y ∈ (pre.filter (fun c => !c.star)).reverse := by
              cases hl : (pre.filter (fun c => !c.star)).reverse with
              | nil => rw [hl] at hy; cases hy
              | cons b bs =>
                rw [hl] at hy
                simp at hy
                subst hy
                simp
            have : (!y.star) = true := (List.mem_filter.mp (List.mem_reverse.mp hm)).2
            have hy' : y.star = false := by simpa using this
            simp [starLess, hy'])
        rw [h]
        simp [List.filter_append, hx]
    rw [hstep]
    have := ih (pre ++ [x])
    simpa [List.append_assoc] using this

/-- CLOSED FORM of the repaired pre-pass: the records that carry no '*' request, then the '*' records, each
    group in registration order (a stable partition: the result does not depend on the sorting algorithm) -/
theorem stableSortBy_starLess (l : List Cb) :
    stableSortBy starLess l = l.filter (fun c => !c.star) ++ l.filter (·.star) := by
  have h := foldl_starLess l []
  simp only [List.filter_nil, List.reverse_nil, List.append_nil, List.nil_append] at h
  unfold stableSortBy
  rw [h]
  simp

/-- the repaired pre-pass is idempotent: a second compile does not reorder `p.callbacks` -/
theorem stableSortBy_starLess_idem (l : List Cb) :
    stableSortBy starLess (stableSortBy starLess l) = stableSortBy starLess l := by
  rw [stableSortBy_starLess (stableSortBy starLess l), stableSortBy_starLess l]
  have h1 : (l.filter (fun c => !c.star)).filter (fun c => !c.star) = l.filter (fun c => !c.star) :=
    List.filter_eq_self.mpr (fun a ha => (List.mem_filter.mp ha).2)
  have h2 : (l.filter (·.star)).filter (fun c => !c.star) = [] :=
    List.filter_eq_nil_iff.mpr (fun a ha => by
      have := (List.mem_filter.mp ha).2
      simp [this])
  have h3 : (l.filter (fun c => !c.star)).filter (·.star) = [] :=
    List.filter_eq_nil_iff.mpr (fun a ha => by
      have := (List.mem_filter.mp ha).2
      simp at this
      simp [this])
  have h4 : (l.filter (·.star)).filter (·.star) = l.filter (·.star) :=
    List.filter_eq_self.mpr (fun a ha => (List.mem_filter.mp ha).2)
  rw [List.filter_append, List.filter_append, h1, h2, h3, h4]
  simp

/-- on a table without After("*") records -- or without Before("*") records -- the original comparator and the
    repaired one agree, hence so do the two pre-passes: the repair changes the pre-pass only on tables that
    hold both kinds, exactly where the original comparator is not a strict weak order -/
theorem stableSortCbs_eq_starLess (l : List Cb)
    (h : (∀ c ∈ l, c.after ≠ "*") ∨ (∀ c ∈ l, c.before ≠ "*")) :
    stableSortCbs l = stableSortBy starLess l := by
  rw [← stableSortBy_cbLess]
  apply stableSortBy_congr
  intro x hx y hy
  rcases h with h | h
  · have h1 := h x hx
    have h2 := h y hy
    simp [cbLess, starLess, Cb.star, h1, h2]
    exact Bool.and_comm _ _
  · have h1 := h x hx
    have h2 := h y hy
    simp [cbLess, starLess, Cb.star, h1, h2]
    exact Bool.and_comm _ _

/-! ### the pre-pass of the tree under check -/

theorem mem_prepass (r : CbRepairs) (l : List Cb) (y : Cb) : y ∈ prepass r l ↔ y ∈ l := by
  unfold prepass
  split
  · exact mem_stableSortBy _ _ _
  · exact mem_stableSortCbs _ _

theorem length_prepass (r : CbRepairs) (l : List Cb) : (prepass r l).length = l.length := by
  unfold prepass
  split
  · exact length_stableSortBy _ _
  · exact length_stableSortCbs _

end Gorm.CbL
