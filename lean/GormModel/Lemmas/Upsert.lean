/-
  C16 — helper lemmas about Model.Upsert (handles / derivations part and store part).
-/
import GormModel.Model.Upsert
namespace Gorm.Upsert

/-! ### handles -/

/-- `clone()` carries clauses, attrs and assigns over -/
def CloneCfg.full (cfg : CloneCfg) : Prop := cfg.clauses = true ∧ cfg.attrs = true ∧ cfg.assigns = true

/-- no attrs/assigns on the statement -/
def Stmt.plain (st : Stmt) : Prop := st.attrs = none ∧ st.assigns = none

/-- handles with `clone = 1` (gorm.Open / NewDB sessions) carry an empty statement -/
def Handle.Inv (h : Handle) : Prop := h.clone = 1 → h.stmt = Stmt.empty

theorem cloneStmt_full {cfg : CloneCfg} (hf : cfg.full) (st : Stmt) : cloneStmt cfg st = st := by
  obtain ⟨h1, h2, h3⟩ := hf
  simp [cloneStmt, h1, h2, h3]

theorem cloneStmt_plain {cfg : CloneCfg} (hc : cfg.clauses = true) {st : Stmt} (hp : st.plain) :
    cloneStmt cfg st = st := by
  obtain ⟨h2, h3⟩ := hp
  cases st with
  | mk conds oc attrs assigns =>
    simp only at h2 h3
    subst h2; subst h3
    simp [cloneStmt, hc]

/-- when `clone()` is the identity on the statement, `getInstance` only resets the clone flag -/
theorem getInstance_eq {cfg : CloneCfg} {h : Handle} (hid : cloneStmt cfg h.stmt = h.stmt) (hi : h.Inv) :
    getInstance cfg h = { clone := 0, stmt := h.stmt } := by
  unfold getInstance
  by_cases h0 : h.clone = 0
  · simp [h0]; cases h; simp_all
  · by_cases h1 : h.clone = 1
    · simp [h1, hi h1]
    · simp [h0, h1, hid]

theorem base_inv : Handle.base.Inv := fun _ => rfl

theorem step_inv (cfg : CloneCfg) (h : Handle) (st : Step) : (h.step cfg st).Inv := by
  have g : (getInstance cfg h).clone = 0 := by
    unfold getInstance
    by_cases h0 : h.clone = 0
    · simp [h0]
    · by_cases h1 : h.clone = 1 <;> simp [h0, h1]
  cases st <;> simp [Handle.step, Handle.Inv, g]

theorem run_inv (cfg : CloneCfg) (steps : List Step) : ∀ h : Handle, h.Inv → (h.run cfg steps).Inv := by
  induction steps with
  | nil => intro h hi; exact hi
  | cons st rest ih => intro h _; exact ih _ (step_inv cfg h st)

/-- the effect of a step on the statement when `clone()` loses nothing -/
def stmtStep (st : Stmt) : Step → Stmt
  | .where_ cs => { st with conds := st.conds ++ cs }
  | .onConflict r => { st with oc := some r }
  | .attrs a => { st with attrs := a }
  | .assign a => { st with assigns := a }
  | .session => st
  | .withCtx => st

theorem step_stmt_full {cfg : CloneCfg} (hf : cfg.full) {h : Handle} (hi : h.Inv) (st : Step) :
    (h.step cfg st).stmt = stmtStep h.stmt st := by
  have g := getInstance_eq (cloneStmt_full hf h.stmt) hi
  cases st <;> simp [Handle.step, stmtStep, g, cloneStmt_full hf]

theorem run_stmt_full {cfg : CloneCfg} (hf : cfg.full) (steps : List Step) :
    ∀ h : Handle, h.Inv → (h.run cfg steps).stmt = steps.foldl stmtStep h.stmt := by
  induction steps with
  | nil => intro h _; rfl
  | cons st rest ih =>
    intro h hi
    show ((h.step cfg st).run cfg rest).stmt = _
    rw [ih _ (step_inv cfg h st), step_stmt_full hf hi]
    rfl

theorem foldl_insertAt (st : Stmt) (i : Nat) (d : Step) (hd : d.isDeriv = true) (steps : List Step) :
    (insertAt i d steps).foldl stmtStep st = steps.foldl stmtStep st := by
  have hid : ∀ s : Stmt, stmtStep s d = s := by
    intro s; cases d <;> simp_all [stmtStep, Step.isDeriv]
  unfold insertAt
  rw [List.foldl_append, List.foldl_cons, hid, ← List.foldl_append, List.take_append_drop]

/-- the finisher read off the statement alone -/
def finishS (sch : Schema) (s : Store) (st : Stmt) : Fin → Out
  | .save v => save sch s v
  | .create v => insertRow sch s st.oc v
  | .createFrom src v => insertFrom sch s st.oc src v
  | .firstOrInit inl => firstOrInit sch s (st.conds ++ inl) st.attrs st.assigns
  | .firstOrCreate inl => firstOrCreate sch s (st.conds ++ inl) st.conds st.attrs st.assigns

theorem finish_eq_finishS {cfg : CloneCfg} (sch : Schema) (s : Store) {h : Handle}
    (hid : cloneStmt cfg h.stmt = h.stmt) (hi : h.Inv) (f : Fin) :
    finish cfg sch s h f = finishS sch s h.stmt f := by
  have g := getInstance_eq hid hi
  have g2 : getInstance cfg (h.step cfg .session) = { clone := 0, stmt := h.stmt } := by
    simp [Handle.step, getInstance, hid]
  cases f <;> simp [finish, finishS, g, g2]

/-- two handles with the same (attrs/assigns-free) statement behave alike from the next step on -/
theorem step_agree {cfg : CloneCfg} (hc : cfg.clauses = true) {h h' : Handle} (hs : h.stmt = h'.stmt)
    (hp : h.stmt.plain) (hi : h.Inv) (hi' : h'.Inv) (st : Step) : h.step cfg st = h'.step cfg st := by
  have g := getInstance_eq (cloneStmt_plain hc hp) hi
  have g' := getInstance_eq (cloneStmt_plain hc (hs ▸ hp)) hi'
  cases st <;> simp [Handle.step, g, g', hs]

theorem finish_agree {cfg : CloneCfg} (hc : cfg.clauses = true) (sch : Schema) (s : Store) {h h' : Handle}
    (hs : h.stmt = h'.stmt) (hp : h.stmt.plain) (hi : h.Inv) (hi' : h'.Inv) (f : Fin) :
    finish cfg sch s h f = finish cfg sch s h' f := by
  rw [finish_eq_finishS sch s (cloneStmt_plain hc hp) hi, finish_eq_finishS sch s (cloneStmt_plain hc (hs ▸ hp)) hi', hs]

theorem getInstance_plain (cfg : CloneCfg) {h : Handle} (hp : h.stmt.plain) : (getInstance cfg h).stmt.plain := by
  obtain ⟨h2, h3⟩ := hp
  unfold getInstance
  by_cases h0 : h.clone = 0
  · simp [h0, Stmt.plain, h2, h3]
  · by_cases h1 : h.clone = 1
    · simp [h1, Stmt.plain, Stmt.empty]
    · simp [h0, h1, Stmt.plain, cloneStmt, h2, h3]

theorem step_plain (cfg : CloneCfg) {h : Handle} (hp : h.stmt.plain) {st : Step} (hs : st.setsInit = false) :
    (h.step cfg st).stmt.plain := by
  have g := getInstance_plain cfg hp
  obtain ⟨g2, g3⟩ := g
  obtain ⟨h2, h3⟩ := hp
  cases st with
  | where_ cs => simp [Handle.step, Stmt.plain, g2, g3]
  | onConflict r => simp [Handle.step, Stmt.plain, g2, g3]
  | attrs a => cases a <;> simp_all [Handle.step, Stmt.plain, Step.setsInit]
  | assign a => cases a <;> simp_all [Handle.step, Stmt.plain, Step.setsInit]
  | session => simp [Handle.step, Stmt.plain, h2, h3]
  | withCtx => simp [Handle.step, Stmt.plain, cloneStmt, h2, h3]

theorem run_plain (cfg : CloneCfg) (steps : List Step) :
    ∀ h : Handle, h.stmt.plain → (∀ st ∈ steps, st.setsInit = false) → (h.run cfg steps).stmt.plain := by
  induction steps with
  | nil => intro h hp _; exact hp
  | cons st rest ih =>
    intro h hp hall
    exact ih _ (step_plain cfg hp (hall st (by simp))) (fun x hx => hall x (by simp [hx]))

theorem run_append (cfg : CloneCfg) (h : Handle) (a b : List Step) :
    h.run cfg (a ++ b) = (h.run cfg a).run cfg b := by
  simp [Handle.run, List.foldl_append]

/-! ### store -/

/-- well-formed table: the key column holds the key, keys are positive and below `next` -/
def Store.WF (s : Store) : Prop :=
  1 ≤ s.next ∧ ∀ k r, s.rows k = some r → r 0 = k ∧ 1 ≤ k ∧ k < s.next

/-- column 0 is the primary key and the only one -/
def Schema.WF (sch : Schema) : Prop := 1 ≤ sch.ncols ∧ ∀ c, sch.kind c = .pk ↔ c = 0

/-- agreement of two rows outside the tracked timestamps -/
def tsEq (sch : Schema) (a b : Row) : Prop := ∀ c, isTracked sch c = false → a c = b c

def storeTsEq (sch : Schema) (s t : Store) : Prop :=
  s.next = t.next ∧ ∀ k, (s.rows k = none ∧ t.rows k = none) ∨ (∃ a b, s.rows k = some a ∧ t.rows k = some b ∧ tsEq sch a b)

theorem findFrom_some {sch : Schema} {rows : Nat → Option Row} {cs : List Cond} :
    ∀ (fuel k : Nat) {r : Row}, findFrom sch rows cs fuel k = some r →
      ∃ j, k ≤ j ∧ j < k + fuel ∧ rows j = some r ∧ visible sch r = true ∧ holdsAll r cs = true ∧
        ∀ i r', k ≤ i → i < j → rows i = some r' → (visible sch r' && holdsAll r' cs) = false := by
  intro fuel
  induction fuel with
  | zero => intro k r h; simp [findFrom] at h
  | succ f ih =>
    intro k r h
    unfold findFrom at h
    cases hk : rows k with
    | none =>
      rw [hk] at h
      obtain ⟨j, h1, h2, h3, h4, h5, h6⟩ := ih (k + 1) h
      refine ⟨j, by omega, by omega, h3, h4, h5, ?_⟩
      intro i r' hi1 hi2 hr
      by_cases hik : i = k
      · subst hik; rw [hk] at hr; cases hr
      · exact h6 i r' (by omega) hi2 hr
    | some r0 =>
      rw [hk] at h
      by_cases hm : (visible sch r0 && holdsAll r0 cs) = true
      · simp [hm] at h
        subst h
        simp only [Bool.and_eq_true] at hm
        exact ⟨k, by omega, by omega, hk, hm.1, hm.2, fun i r' a b => by omega⟩
      · simp [hm] at h
        obtain ⟨j, h1, h2, h3, h4, h5, h6⟩ := ih (k + 1) h
        refine ⟨j, by omega, by omega, h3, h4, h5, ?_⟩
        intro i r' hi1 hi2 hr
        by_cases hik : i = k
        · subst hik; rw [hk] at hr; cases hr; simpa using hm
        · exact h6 i r' (by omega) hi2 hr

theorem findFrom_none {sch : Schema} {rows : Nat → Option Row} {cs : List Cond} :
    ∀ (fuel k : Nat), findFrom sch rows cs fuel k = none →
      ∀ i r', k ≤ i → i < k + fuel → rows i = some r' → (visible sch r' && holdsAll r' cs) = false := by
  intro fuel
  induction fuel with
  | zero => intro k _ i r' a b; omega
  | succ f ih =>
    intro k h i r' hi1 hi2 hr
    unfold findFrom at h
    cases hk : rows k with
    | none =>
      rw [hk] at h
      by_cases hik : i = k
      · subst hik; rw [hk] at hr; cases hr
      · exact ih (k + 1) h i r' (by omega) (by omega) hr
    | some r0 =>
      rw [hk] at h
      by_cases hm : (visible sch r0 && holdsAll r0 cs) = true
      · simp [hm] at h
      · simp [hm] at h
        by_cases hik : i = k
        · subst hik; rw [hk] at hr; cases hr; simpa using hm
        · exact ih (k + 1) h i r' (by omega) (by omega) hr

/-! ### inserts -/

/-- the row a fresh INSERT of `v` stores (client defaults, tracked times, database defaults, next rowid) -/
def insertedRow (sch : Schema) (next : Nat) (v : Row) : Row := proposed sch next (fillCreate sch v)

/-- the key an insert of `v` targets -/
def targetKey (s : Store) (v : Row) : Nat := if v 0 = 0 then s.next else v 0

theorem insertedRow_key {sch : Schema} (hw : sch.WF) (s : Store) (v : Row) :
    insertedRow sch s.next v 0 = targetKey s v := by
  have h0 : sch.kind 0 = .pk := (hw.2 0).2 rfl
  simp [insertedRow, proposed, fillCreate, targetKey, h0]

theorem setAll_apply (fs : List (Nat × Nat)) : ∀ (r : Row) (c : Nat),
    setAll r fs c = (lookupCol fs.reverse c).getD (r c) := by
  induction fs with
  | nil => intro r c; simp [setAll, lookupCol]
  | cons f rest ih =>
    intro r c
    obtain ⟨fc, fv⟩ := f
    simp only [setAll, List.reverse_cons]
    rw [ih]
    have key : ∀ (l : List (Nat × Nat)), lookupCol (l ++ [(fc, fv)]) c =
        (lookupCol l c).or (if fc = c then some fv else none) := by
      intro l
      induction l with
      | nil => simp [lookupCol]
      | cons x xs ihx =>
        obtain ⟨xc, xv⟩ := x
        simp only [List.cons_append, lookupCol]
        by_cases hx : xc = c <;> simp [hx, ihx]
    rw [key]
    cases h : lookupCol rest.reverse c with
    | some v => simp
    | none =>
      by_cases hc : fc = c
      · simp [hc, setCol]
      · have : ¬ c = fc := fun e => hc e.symm
        simp [hc, setCol, this]

theorem insertRow_absent {sch : Schema} (hw : sch.WF) {s : Store} {v : Row} (rule : Option Rule)
    (habs : s.rows (targetKey s v) = none) :
    insertRow sch s rule v =
      { store := { rows := fun j => if j = targetKey s v then some (insertedRow sch s.next v) else s.rows j,
                   next := max s.next (targetKey s v + 1) },
        val := insertedRow sch s.next v, ra := 1, err := .ok } := by
  have hk := insertedRow_key hw s v
  unfold insertedRow at hk
  simp only [insertRow, hk, habs]
  rfl

theorem insertRow_conflict_none {sch : Schema} (hw : sch.WF) {s : Store} {v old : Row}
    (hex : s.rows (targetKey s v) = some old) :
    insertRow sch s none v = { store := s, val := fillCreate sch v, ra := 0, err := .unique } := by
  have hk := insertedRow_key hw s v
  unfold insertedRow at hk
  simp only [insertRow, hk, hex]

theorem insertRow_conflict_rule {sch : Schema} (hw : sch.WF) {s : Store} {v old : Row} (r : Rule)
    (hex : s.rows (targetKey s v) = some old) :
    insertRow sch s (some r) v =
      match resolve sch (fillCreate sch v) r with
      | none => { store := s, val := fillCreate sch v, ra := 0, err := .ok }
      | some asg =>
        { store := s.put (targetKey s v) (applyAsg old (insertedRow sch s.next v) asg),
          val := backfill sch (fillCreate sch v) (applyAsg old (insertedRow sch s.next v) asg), ra := 1, err := .ok } := by
  have hk := insertedRow_key hw s v
  unfold insertedRow at hk
  simp only [insertRow, hk, hex]
  rfl

/-! ### Save, case by case -/

theorem kind0 {sch : Schema} (hw : sch.WF) : sch.kind 0 = .pk := (hw.2 0).2 rfl

theorem touchUpdate_key {sch : Schema} (hw : sch.WF) (v : Row) : touchUpdate sch v 0 = v 0 := by
  simp [touchUpdate, kind0 hw]

theorem wf_next_none {s : Store} (hs : s.WF) : s.rows s.next = none := by
  cases h : s.rows s.next with
  | none => rfl
  | some r => have := (hs.2 _ _ h).2.2; omega

theorem not_visible_any {sch : Schema} {old : Row} (v1 : Row) (h : visible sch old = false) :
    ((List.range sch.ncols).any fun c => (updateAllAsg sch v1 c).isSome) = true := by
  unfold visible at h
  have hex : ∃ c, c ∈ List.range sch.ncols ∧ liveCol sch old c = false := by
    apply Classical.byContradiction
    intro hne
    have hall : (List.range sch.ncols).all (liveCol sch old) = true := by
      rw [List.all_eq_true]
      intro c hc
      cases hb : liveCol sch old c with
      | true => rfl
      | false => exact absurd ⟨c, hc, hb⟩ hne
    rw [hall] at h
    cases h
  obtain ⟨c, hc, hb⟩ := hex
  simp only [List.any_eq_true]
  refine ⟨c, hc, ?_⟩
  unfold liveCol at hb
  cases hk : sch.kind c <;> simp [hk] at hb
  simp [updateAllAsg, inInsert, hk]

theorem visible_col {sch : Schema} {r : Row} (h : visible sch r = true) {c : Nat} (hc : c < sch.ncols)
    (hk : sch.kind c = .softDelete) : r c = 0 := by
  unfold visible at h
  rw [List.all_eq_true] at h
  have := h c (by simp [hc])
  simpa [liveCol, hk] using this

theorem visible_of_cols {sch : Schema} {r : Row}
    (h : ∀ c, c < sch.ncols → sch.kind c = .softDelete → r c = 0) : visible sch r = true := by
  unfold visible
  rw [List.all_eq_true]
  intro c hc
  have hc' : c < sch.ncols := by simpa using hc
  unfold liveCol
  cases hk : sch.kind c <;> simp
  exact h c hc' hk

theorem save_zero {sch : Schema} (hw : sch.WF) {s : Store} (hs : s.WF) {v : Row} (hz : v 0 = 0) :
    save sch s v =
      { store := { rows := fun j => if j = s.next then some (insertedRow sch s.next v) else s.rows j,
                   next := max s.next (s.next + 1) },
        val := insertedRow sch s.next v, ra := 1, err := .ok } := by
  have ht : targetKey s v = s.next := by simp [targetKey, hz]
  have := insertRow_absent hw none (s := s) (v := v) (by rw [ht]; exact wf_next_none hs)
  rw [ht] at this
  simp [save, hz, this]

theorem save_live {sch : Schema} (hw : sch.WF) {s : Store} {v old : Row} (hz : v 0 ≠ 0)
    (hex : s.rows (v 0) = some old) (hv : visible sch old = true) :
    save sch s v =
      { store := s.put (v 0) (mergeNonPk sch old (touchUpdate sch v)), val := touchUpdate sch v, ra := 1, err := .ok } := by
  simp [save, hz, saveUpdate, touchUpdate_key hw, hex, hv]

theorem save_absent {sch : Schema} (hw : sch.WF) {s : Store} {v : Row} (hz : v 0 ≠ 0)
    (habs : s.rows (v 0) = none) :
    save sch s v =
      { store := { rows := fun j => if j = v 0 then some (insertedRow sch s.next (touchUpdate sch v)) else s.rows j,
                   next := max s.next (v 0 + 1) },
        val := insertedRow sch s.next (touchUpdate sch v), ra := 1, err := .ok } := by
  have ht : targetKey s (touchUpdate sch v) = v 0 := by simp [targetKey, touchUpdate_key hw, hz]
  have := insertRow_absent hw (some .updateAll) (s := s) (v := touchUpdate sch v) (by rw [ht]; exact habs)
  rw [ht] at this
  simp [save, hz, saveUpdate, touchUpdate_key hw, habs, this]

theorem save_dead {sch : Schema} (hw : sch.WF) {s : Store} {v old : Row} (hz : v 0 ≠ 0)
    (hex : s.rows (v 0) = some old) (hv : visible sch old = false) :
    save sch s v =
      { store := s.put (v 0) (applyAsg old (insertedRow sch s.next (touchUpdate sch v))
                    (updateAllAsg sch (fillCreate sch (touchUpdate sch v)))),
        val := backfill sch (fillCreate sch (touchUpdate sch v))
                 (applyAsg old (insertedRow sch s.next (touchUpdate sch v))
                    (updateAllAsg sch (fillCreate sch (touchUpdate sch v)))),
        ra := 1, err := .ok } := by
  have ht : targetKey s (touchUpdate sch v) = v 0 := by simp [targetKey, touchUpdate_key hw, hz]
  have := insertRow_conflict_rule hw .updateAll (s := s) (v := touchUpdate sch v) (old := old) (by rw [ht]; exact hex)
  rw [ht] at this
  simp [save, hz, saveUpdate, touchUpdate_key hw, hex, hv, this, resolve, not_visible_any _ hv]

/-! ### well-formedness is preserved -/

theorem put_wf {s : Store} (hs : s.WF) {k : Nat} {old new : Row} (hex : s.rows k = some old) (hn : new 0 = k) :
    (s.put k new).WF := by
  refine ⟨hs.1, ?_⟩
  intro j r hr
  simp only [Store.put] at hr
  by_cases hj : j = k
  · subst hj
    simp at hr
    subst hr
    exact ⟨hn, (hs.2 _ _ hex).2⟩
  · simp [hj] at hr
    exact hs.2 _ _ hr

theorem ins_wf {s : Store} (hs : s.WF) {k : Nat} {row : Row} (hk : 1 ≤ k) (hn : row 0 = k) :
    ({ rows := fun j => if j = k then some row else s.rows j, next := max s.next (k + 1) } : Store).WF := by
  refine ⟨by have := hs.1; simp only; omega, ?_⟩
  intro j r hr
  simp only at hr
  by_cases hj : j = k
  · subst hj
    simp at hr
    subst hr
    exact ⟨hn, hk, by simp only; omega⟩
  · simp [hj] at hr
    have := hs.2 _ _ hr
    exact ⟨this.1, this.2.1, by simp only; omega⟩

theorem targetKey_pos {s : Store} (hs : s.WF) (v : Row) : 1 ≤ targetKey s v := by
  unfold targetKey
  have := hs.1
  split <;> omega

/-- the rule does not assign the primary key -/
def Rule.noPk : Rule → Prop
  | .doUpdates as => lookupAsg as 0 = none
  | _ => True

theorem insertRow_wf {sch : Schema} (hw : sch.WF) {s : Store} (hs : s.WF) (rule : Option Rule)
    (hr : ∀ r, rule = some r → r.noPk) (v : Row) : (insertRow sch s rule v).store.WF := by
  cases hex : s.rows (targetKey s v) with
  | none =>
    rw [insertRow_absent hw rule hex]
    exact ins_wf hs (targetKey_pos hs v) (insertedRow_key hw s v)
  | some old =>
    have hold := (hs.2 _ _ hex).1
    cases rule with
    | none => rw [insertRow_conflict_none hw hex]; exact hs
    | some r =>
      rw [insertRow_conflict_rule hw r hex]
      cases hres : resolve sch (fillCreate sch v) r with
      | none => exact hs
      | some asg =>
        apply put_wf hs hex
        have h0 : asg 0 = none := by
          cases r with
          | doNothing => simp [resolve] at hres
          | doUpdates as =>
            simp only [resolve, Option.some.injEq] at hres
            subst hres
            exact hr _ rfl
          | updateAll =>
            simp only [resolve] at hres
            split at hres
            · simp only [Option.some.injEq] at hres
              subst hres
              simp [updateAllAsg, kind0 hw]
            · cases hres
        simp [applyAsg, h0, hold]

/-- a map that names the primary key gives it a non-zero value (an explicit rowid 0 is outside the key space) -/
def Src.okFor : Src → Row → Prop
  | .struct _ _, _ => True
  | .map keys, v => keys.contains 0 = true → v 0 ≠ 0

theorem listed_key {sch : Schema} (hw : sch.WF) {src : Src} {v : Row} (ho : src.okFor v)
    (hl : src.listed sch v 0 = true) : src.fill sch v 0 ≠ 0 := by
  have h0 := kind0 hw
  cases src with
  | struct sel om =>
    simp only [Src.listed, h0, Bool.and_eq_true, bne_iff_ne] at hl
    simp [Src.fill, Src.listed, h0, fillCreate, hl.2]
  | map keys =>
    simp only [Src.listed] at hl
    simpa [Src.fill] using ho hl

theorem insertFrom_wf {sch : Schema} (hw : sch.WF) {s : Store} (hs : s.WF) (rule : Option Rule)
    (hr : ∀ r, rule = some r → r.noPk) (src : Src) (v : Row) (ho : src.okFor v) :
    (insertFrom sch s rule src v).store.WF := by
  have h0 := kind0 hw
  have hk : 1 ≤ proposedIns sch s.next (src.listed sch v) (src.fill sch v) 0 := by
    simp only [proposedIns, h0]
    split
    · rename_i hl
      have := listed_key hw ho hl
      omega
    · exact hs.1
  simp only [insertFrom]
  split
  · exact ins_wf hs hk rfl
  · rename_i old hex
    have hold := (hs.2 _ _ hex).1
    split
    · exact hs
    · rename_i r
      split
      · exact hs
      · rename_i asg hres
        apply put_wf hs hex
        have ha : asg 0 = none := by
          cases r with
          | doNothing => simp [resolveIns] at hres
          | doUpdates as =>
            simp only [resolveIns, Option.some.injEq] at hres
            subst hres
            exact hr _ rfl
          | updateAll =>
            simp only [resolveIns] at hres
            split at hres
            · simp only [Option.some.injEq] at hres
              subst hres
              simp [updateAllIns, h0]
            · cases hres
        simp [applyAsg, ha, hold]

theorem save_wf {sch : Schema} (hw : sch.WF) {s : Store} (hs : s.WF) (v : Row) : (save sch s v).store.WF := by
  by_cases hz : v 0 = 0
  · rw [save_zero hw hs hz]
    have h := insertedRow_key hw s v
    simp only [targetKey, hz, if_true] at h
    exact ins_wf hs hs.1 h
  · have ht := touchUpdate_key hw v
    cases hex : s.rows (v 0) with
    | none =>
      rw [save_absent hw hz hex]
      have h := insertedRow_key hw s (touchUpdate sch v)
      simp only [targetKey, ht, hz, if_false] at h
      exact ins_wf hs (by omega) h
    | some old =>
      have hold := (hs.2 _ _ hex).1
      cases hv : visible sch old with
      | true =>
        rw [save_live hw hz hex hv]
        exact put_wf hs hex (by simp [mergeNonPk, kind0 hw, hold])
      | false =>
        rw [save_dead hw hz hex hv]
        exact put_wf hs hex (by simp [applyAsg, updateAllAsg, kind0 hw, hold])

theorem firstOrCreate_wf {sch : Schema} (hw : sch.WF) {s : Store} (hs : s.WF) (qcs txcs : List Cond)
    (attrs assigns : Option Init) (ha : ∀ i, assigns = some i → lookupCol i.cols 0 = none) :
    (firstOrCreate sch s qcs txcs attrs assigns).store.WF := by
  unfold firstOrCreate
  split
  · exact insertRow_wf hw hs none (fun _ h => by cases h) _
  · rename_i r _
    split
    · exact hs
    · rename_i i
      split
      · rename_i cur hcur
        split
        · apply put_wf hs hcur
          have := (hs.2 _ _ hcur).1
          simp [mapUpdate, ha i rfl, kind0 hw, this]
        · exact hs
      · exact hs

/-! ### whole programs keep the table well-formed -/

/-- the step does not assign the primary key (through DoUpdates or Assign) -/
def Step.ok : Step → Prop
  | .onConflict r => r.noPk
  | .assign (some i) => lookupCol i.cols 0 = none
  | _ => True

def Stmt.ok (st : Stmt) : Prop :=
  (∀ r, st.oc = some r → r.noPk) ∧ (∀ i, st.assigns = some i → lookupCol i.cols 0 = none)

theorem empty_ok : Stmt.empty.ok := by
  constructor <;> intro _ h <;> simp [Stmt.empty] at h

theorem cloneStmt_ok (cfg : CloneCfg) {st : Stmt} (h : st.ok) : (cloneStmt cfg st).ok := by
  obtain ⟨h1, h2⟩ := h
  constructor
  · intro r hr
    simp only [cloneStmt] at hr
    split at hr
    · exact h1 r hr
    · cases hr
  · intro i hi
    simp only [cloneStmt] at hi
    split at hi
    · exact h2 i hi
    · cases hi

theorem getInstance_ok (cfg : CloneCfg) {h : Handle} (ho : h.stmt.ok) : (getInstance cfg h).stmt.ok := by
  unfold getInstance
  by_cases h0 : h.clone = 0
  · simp [h0, ho]
  · by_cases h1 : h.clone = 1
    · simp [h1, empty_ok]
    · simp [h0, h1, cloneStmt_ok cfg ho]

theorem step_ok (cfg : CloneCfg) {h : Handle} (ho : h.stmt.ok) {st : Step} (hs : st.ok) : (h.step cfg st).stmt.ok := by
  have g := getInstance_ok cfg ho
  cases st with
  | where_ cs => exact ⟨g.1, g.2⟩
  | onConflict r =>
    refine ⟨?_, g.2⟩
    intro r' hr
    simp only [Handle.step, Option.some.injEq] at hr
    subst hr
    exact hs
  | attrs a => exact ⟨g.1, g.2⟩
  | assign a =>
    refine ⟨g.1, ?_⟩
    intro i hi
    simp only [Handle.step] at hi
    subst hi
    exact hs
  | session => exact ho
  | withCtx => exact cloneStmt_ok cfg ho

theorem run_ok (cfg : CloneCfg) (steps : List Step) :
    ∀ h : Handle, h.stmt.ok → (∀ st ∈ steps, st.ok) → (h.run cfg steps).stmt.ok := by
  induction steps with
  | nil => intro h ho _; exact ho
  | cons st rest ih =>
    intro h ho hall
    exact ih _ (step_ok cfg ho (hall st (by simp))) (fun x hx => hall x (by simp [hx]))

/-- the finisher's own argument is admissible -/
def Fin.ok : Fin → Prop
  | .createFrom src v => src.okFor v
  | _ => True

theorem finish_wf {cfg : CloneCfg} {sch : Schema} (hw : sch.WF) {s : Store} (hs : s.WF) {h : Handle}
    (ho : h.stmt.ok) (f : Fin) (hf : f.ok) : (finish cfg sch s h f).store.WF := by
  cases f with
  | save v => exact save_wf hw hs v
  | create v => exact insertRow_wf hw hs _ (getInstance_ok cfg ho).1 v
  | createFrom src v => exact insertFrom_wf hw hs _ (getInstance_ok cfg ho).1 src v hf
  | firstOrInit inl =>
    simp only [finish, firstOrInit]
    split <;> exact hs
  | firstOrCreate inl => exact firstOrCreate_wf hw hs _ _ _ _ ho.2

/-! ### the record built from the conditions -/

mutual
  /-- the equalities a condition contributes to a new record: `Eq` atoms, also inside And-groups;
      raw SQL text contributes nothing -/
  def Cond.eqs : Cond → List (Nat × Nat)
    | .eq c v => [(c, v)]
    | .raw _ _ => []
    | .andG l => eqsAll l
  def eqsAll : List Cond → List (Nat × Nat)
    | [] => []
    | x :: xs => x.eqs ++ eqsAll xs
end

theorem setAll_append (a b : List (Nat × Nat)) : ∀ r : Row, setAll r (a ++ b) = setAll (setAll r a) b := by
  induction a with
  | nil => intro r; rfl
  | cons x xs ih => intro r; simp [setAll, ih]

mutual
  theorem Cond.assign_eq (r : Row) : (c : Cond) → c.assign r = setAll r c.eqs
    | .eq c v => by simp [Cond.assign, Cond.eqs, setAll]
    | .raw _ _ => by simp [Cond.assign, Cond.eqs, setAll]
    | .andG l => by simp [Cond.assign, Cond.eqs, assignAll_eq r l]
  theorem assignAll_eq (r : Row) : (l : List Cond) → assignAll r l = setAll r (eqsAll l)
    | [] => by simp [assignAll, eqsAll, setAll]
    | x :: xs => by
      simp only [assignAll, eqsAll, setAll_append]
      rw [Cond.assign_eq r x, assignAll_eq _ xs]
end

/-! ### the F3 pattern, as the harness decides it -/

/-- finding F3's pattern over a whole chain: some derivation occurs after an Attrs/Assign call with a
    non-empty argument list (`seen` = such a call has already occurred) -/
def f3Pattern : Bool → List Step → Bool
  | _, [] => false
  | seen, st :: rest => (st.isDeriv && seen) || f3Pattern (seen || st.setsInit) rest

theorem f3_seen_no_deriv : ∀ steps : List Step, f3Pattern true steps = false →
    steps.filter (fun st => !st.isDeriv) = steps := by
  intro steps
  induction steps with
  | nil => intro _; rfl
  | cons st rest ih =>
    intro h
    simp only [f3Pattern, Bool.and_true, Bool.true_or, Bool.or_eq_false_iff] at h
    simp [List.filter, h.1, ih h.2]

theorem deriv_stmt {cfg : CloneCfg} (hc : cfg.clauses = true) {h : Handle} (hp : h.stmt.plain) {d : Step}
    (hd : d.isDeriv = true) : (h.step cfg d).stmt = h.stmt := by
  cases d <;> simp_all [Handle.step, Step.isDeriv, cloneStmt_plain hc hp]

theorem deriv_not_setsInit {d : Step} (hd : d.isDeriv = true) : d.setsInit = false := by
  cases d <;> simp_all [Step.isDeriv, Step.setsInit]

theorem finish_run_outside_pattern {cfg : CloneCfg} (hc : cfg.clauses = true) (sch : Schema) (s : Store) (f : Fin) :
    ∀ (steps : List Step) (h1 h2 : Handle), h1.stmt = h2.stmt → h1.stmt.plain → h1.Inv → h2.Inv →
      f3Pattern false steps = false →
      finish cfg sch s (h1.run cfg steps) f = finish cfg sch s (h2.run cfg (steps.filter (fun st => !st.isDeriv))) f := by
  intro steps
  induction steps with
  | nil => intro h1 h2 hs hp hi1 hi2 _; exact finish_agree hc sch s hs hp hi1 hi2 f
  | cons st rest ih =>
    intro h1 h2 hs hp hi1 hi2 hpat
    simp only [f3Pattern, Bool.and_false, Bool.false_or] at hpat
    cases hd : st.isDeriv with
    | true =>
      have hns := deriv_not_setsInit hd
      rw [hns] at hpat
      simp only [List.filter, hd, Bool.not_true]
      show finish cfg sch s ((h1.step cfg st).run cfg rest) f = _
      have hs' : (h1.step cfg st).stmt = h2.stmt := (deriv_stmt hc hp hd).trans hs
      exact ih _ h2 hs' (by rw [deriv_stmt hc hp hd]; exact hp) (step_inv cfg h1 st) hi2 hpat
    | false =>
      simp only [List.filter, hd, Bool.not_false]
      show finish cfg sch s ((h1.step cfg st).run cfg rest) f = finish cfg sch s ((h2.step cfg st).run cfg _) f
      rw [step_agree hc hs hp hi1 hi2 st]
      cases hsi : st.setsInit with
      | true =>
        rw [hsi] at hpat
        rw [f3_seen_no_deriv rest hpat]
      | false =>
        rw [hsi] at hpat
        have hp2 : (h2.step cfg st).stmt.plain := step_plain cfg (hs ▸ hp) hsi
        exact ih _ _ rfl hp2 (step_inv cfg h2 st) (step_inv cfg h2 st) hpat

/-! ### derivation-free chains -/

theorem getInstance_low (cfg : CloneCfg) {h : Handle} (hl : h.clone ≤ 1) (hi : h.Inv) :
    getInstance cfg h = { clone := 0, stmt := h.stmt } := by
  unfold getInstance
  by_cases h0 : h.clone = 0
  · simp [h0]; cases h; simp_all
  · have h1 : h.clone = 1 := by omega
    simp [h1, hi h1]

theorem run_noderiv (cfg : CloneCfg) (steps : List Step) :
    ∀ h : Handle, (∀ st ∈ steps, st.isDeriv = false) → h.clone ≤ 1 → h.Inv →
      (h.run cfg steps).clone ≤ 1 ∧ (h.run cfg steps).Inv ∧ (h.run cfg steps).stmt = steps.foldl stmtStep h.stmt := by
  induction steps with
  | nil => intro h _ hl hi; exact ⟨hl, hi, rfl⟩
  | cons st rest ih =>
    intro h hall hl hi
    have hd := hall st (by simp)
    have g := getInstance_low cfg hl hi
    have hc0 : (h.step cfg st).clone = 0 := by
      cases st <;> simp_all [Handle.step, Step.isDeriv]
    have hst : (h.step cfg st).stmt = stmtStep h.stmt st := by
      cases st <;> simp_all [Handle.step, Step.isDeriv, stmtStep]
    have := ih (h.step cfg st) (fun x hx => hall x (by simp [hx])) (by omega) (step_inv cfg h st)
    refine ⟨this.1, this.2.1, ?_⟩
    show ((h.step cfg st).run cfg rest).stmt = _
    rw [this.2.2, hst]; rfl

theorem finish_low {cfg : CloneCfg} (hc : cfg.clauses = true) (sch : Schema) (s : Store) {h : Handle}
    (hl : h.clone ≤ 1) (hi : h.Inv) (f : Fin) : finish cfg sch s h f = finishS sch s h.stmt f := by
  have g := getInstance_low cfg hl hi
  have g2 : (getInstance cfg (h.step cfg .session)).stmt.conds = h.stmt.conds := by
    simp [Handle.step, getInstance, cloneStmt, hc]
  cases f <;> simp [finish, finishS, g, g2]

theorem foldl_filter_deriv (steps : List Step) : ∀ st : Stmt,
    (steps.filter (fun x => !x.isDeriv)).foldl stmtStep st = steps.foldl stmtStep st := by
  induction steps with
  | nil => intro st; rfl
  | cons x rest ih =>
    intro st
    cases hd : x.isDeriv with
    | true =>
      have : stmtStep st x = st := by cases x <;> simp_all [stmtStep, Step.isDeriv]
      simp [List.filter, hd, ih, this]
    | false => simp [List.filter, hd, ih]


end Gorm.Upsert
