/-
  C16 — helper lemmas about Model.Upsert (handles / derivations part and store part).
-/
import GormModel.Model.Upsert
namespace Gorm.Upsert

/-! ### handles -/

/-- `clone()` carries clauses, attrs and assigns over -/
def CloneCfg.full (cfg : CloneCfg) : Prop := cfg.clauses = true ∧ cfg.attrs = true ∧ cfg.assigns = true

/-- no attrs/assigns on the statement -/
def Stmt.plain (st : Stmt) : Prop := st.attrs = none ∧ st.assigns = none

/-- handles with `clone = 1` (gorm.Open / NewDB sessions) carry an empty statement -/
def Handle.Inv (h : Handle) : Prop := h.clone = 1 → h.stmt = Stmt.empty

theorem cloneStmt_full {cfg : CloneCfg} (hf : cfg.full) (st : Stmt) : cloneStmt cfg st = st := by
  obtain ⟨h1, h2, h3⟩ := hf
  simp [cloneStmt, h1, h2, h3]

theorem cloneStmt_plain {cfg : CloneCfg} (hc : cfg.clauses = true) {st : Stmt} (hp : st.plain) :
    cloneStmt cfg st = st := by
  obtain ⟨h2, h3⟩ := hp
  cases st with
  | mk conds oc attrs assigns =>
    simp only at h2 h3
    subst h2; subst h3
    simp [cloneStmt, hc]

/-- when `clone()` is the identity on the statement, `getInstance` only resets the clone flag -/
theorem getInstance_eq {cfg : CloneCfg} {h : Handle} (hid : cloneStmt cfg h.stmt = h.stmt) (hi : h.Inv) :
    getInstance cfg h = { clone := 0, stmt := h.stmt } := by
  unfold getInstance
  by_cases h0 : h.clone = 0
  · simp [h0]; cases h; simp_all
  · by_cases h1 : h.clone = 1
    · simp [h1, hi h1]
    · simp [h0, h1, hid]

theorem base_inv : Handle.base.Inv := fun _ => rfl

theorem step_inv (cfg : CloneCfg) (h : Handle) (st : Step) : (h.step cfg st).Inv := by
  have g : (getInstance cfg h).clone = 0 := by
    unfold getInstance
    by_cases h0 : h.clone = 0
    · simp [h0]
    · by_cases h1 : h.clone = 1 <;> simp [h0, h1]
  cases st <;> simp [Handle.step, Handle.Inv, g]

theorem run_inv (cfg : CloneCfg) (steps : List Step) : ∀ h : Handle, h.Inv → (h.run cfg steps).Inv := by
  induction steps with
  | nil => intro h hi; exact hi
  | cons st rest ih => intro h _; exact ih _ (step_inv cfg h st)

/-- the effect of a step on the statement when `clone()` loses nothing -/
def stmtStep (st : Stmt) : Step → Stmt
  | .where_ cs => { st with conds := st.conds ++ cs }
  | .onConflict r => { st with oc := some r }
  | .attrs a => { st with attrs := a }
  | .assign a => { st with assigns := a }
  | .session => st
  | .withCtx => st

theorem step_stmt_full {cfg : CloneCfg} (hf : cfg.full) {h : Handle} (hi : h.Inv) (st : Step) :
    (h.step cfg st).stmt = stmtStep h.stmt st := by
  have g := getInstance_eq (cloneStmt_full hf h.stmt) hi
  cases st <;> simp [Handle.step, stmtStep, g, cloneStmt_full hf]

theorem run_stmt_full {cfg : CloneCfg} (hf : cfg.full) (steps : List Step) :
    ∀ h : Handle, h.Inv → (h.run cfg steps).stmt = steps.foldl stmtStep h.stmt := by
  induction steps with
  | nil => intro h _; rfl
  | cons st rest ih =>
    intro h hi
    show ((h.step cfg st).run cfg rest).stmt = _
    rw [ih _ (step_inv cfg h st), step_stmt_full hf hi]
    rfl

theorem foldl_insertAt (st : Stmt) (i : Nat) (d : Step) (hd : d.isDeriv = true) (steps : List Step) :
    (insertAt i d steps).foldl stmtStep st = steps.foldl stmtStep st := by
  have hid : ∀ s : Stmt, stmtStep s d = s := by
    intro s; cases d <;> simp_all [stmtStep, Step.isDeriv]
  unfold insertAt
  rw [List.foldl_append, List.foldl_cons, hid, ← List.foldl_append, List.take_append_drop]

/-- the finisher read off the statement alone -/
def finishS (sch : Schema) (s : Store) (st : Stmt) : Fin → Out
  | .save v => save sch s v
  | .create v => insertRow sch s st.oc v
  | .firstOrInit inl => firstOrInit sch s (st.conds ++ inl) st.attrs st.assigns
  | .firstOrCreate inl => firstOrCreate sch s (st.conds ++ inl) st.conds st.attrs st.assigns

theorem finish_eq_finishS {cfg : CloneCfg} (sch : Schema) (s : Store) {h : Handle}
    (hid : cloneStmt cfg h.stmt = h.stmt) (hi : h.Inv) (f : Fin) :
    finish cfg sch s h f = finishS sch s h.stmt f := by
  have g := getInstance_eq hid hi
  have g2 : getInstance cfg (h.step cfg .session) = { clone := 0, stmt := h.stmt } := by
    simp [Handle.step, getInstance, hid]
  cases f <;> simp [finish, finishS, g, g2]

/-- two handles with the same (attrs/assigns-free) statement behave alike from the next step on -/
theorem step_agree {cfg : CloneCfg} (hc : cfg.clauses = true) {h h' : Handle} (hs : h.stmt = h'.stmt)
    (hp : h.stmt.plain) (hi : h.Inv) (hi' : h'.Inv) (st : Step) : h.step cfg st = h'.step cfg st := by
  have g := getInstance_eq (cloneStmt_plain hc hp) hi
  have g' := getInstance_eq (cloneStmt_plain hc (hs ▸ hp)) hi'
  cases st <;> simp [Handle.step, g, g', hs]

theorem finish_agree {cfg : CloneCfg} (hc : cfg.clauses = true) (sch : Schema) (s : Store) {h h' : Handle}
    (hs : h.stmt = h'.stmt) (hp : h.stmt.plain) (hi : h.Inv) (hi' : h'.Inv) (f : Fin) :
    finish cfg sch s h f = finish cfg sch s h' f := by
  rw [finish_eq_finishS sch s (cloneStmt_plain hc hp) hi, finish_eq_finishS sch s (cloneStmt_plain hc (hs ▸ hp)) hi', hs]

theorem getInstance_plain (cfg : CloneCfg) {h : Handle} (hp : h.stmt.plain) : (getInstance cfg h).stmt.plain := by
  obtain ⟨h2, h3⟩ := hp
  unfold getInstance
  by_cases h0 : h.clone = 0
  · simp [h0, Stmt.plain, h2, h3]
  · by_cases h1 : h.clone = 1
    · simp [h1, Stmt.plain, Stmt.empty]
    · simp [h0, h1, Stmt.plain, cloneStmt, h2, h3]

theorem step_plain (cfg : CloneCfg) {h : Handle} (hp : h.stmt.plain) {st : Step} (hs : st.setsInit = false) :
    (h.step cfg st).stmt.plain := by
  have g := getInstance_plain cfg hp
  obtain ⟨g2, g3⟩ := g
  obtain ⟨h2, h3⟩ := hp
  cases st with
  | where_ cs => simp [Handle.step, Stmt.plain, g2, g3]
  | onConflict r => simp [Handle.step, Stmt.plain, g2, g3]
  | attrs a => cases a <;> simp_all [Handle.step, Stmt.plain, Step.setsInit]
  | assign a => cases a <;> simp_all [Handle.step, Stmt.plain, Step.setsInit]
  | session => simp [Handle.step, Stmt.plain, h2, h3]
  | withCtx => simp [Handle.step, Stmt.plain, cloneStmt, h2, h3]

theorem run_plain (cfg : CloneCfg) (steps : List Step) :
    ∀ h : Handle, h.stmt.plain → (∀ st ∈ steps, st.setsInit = false) → (h.run cfg steps).stmt.plain := by
  induction steps with
  | nil => intro h hp _; exact hp
  | cons st rest ih =>
    intro h hp hall
    exact ih _ (step_plain cfg hp (hall st (by simp))) (fun x hx => hall x (by simp [hx]))

theorem run_append (cfg : CloneCfg) (h : Handle) (a b : List Step) :
    h.run cfg (a ++ b) = (h.run cfg a).run cfg b := by
  simp [Handle.run, List.foldl_append]

/-! ### store -/

/-- well-formed table: the key column holds the key, keys are positive and below `next` -/
def Store.WF (s : Store) : Prop :=
  1 ≤ s.next ∧ ∀ k r, s.rows k = some r → r 0 = k ∧ 1 ≤ k ∧ k < s.next

/-- column 0 is the primary key and the only one -/
def Schema.WF (sch : Schema) : Prop := 1 ≤ sch.ncols ∧ ∀ c, sch.kind c = .pk ↔ c = 0

/-- agreement of two rows outside the tracked timestamps -/
def tsEq (sch : Schema) (a b : Row) : Prop := ∀ c, isTracked sch c = false → a c = b c

def storeTsEq (sch : Schema) (s t : Store) : Prop :=
  s.next = t.next ∧ ∀ k, (s.rows k = none ∧ t.rows k = none) ∨ (∃ a b, s.rows k = some a ∧ t.rows k = some b ∧ tsEq sch a b)

theorem findFrom_some {sch : Schema} {rows : Nat → Option Row} {cs : List Cond} :
    ∀ (fuel k : Nat) {r : Row}, findFrom sch rows cs fuel k = some r →
      ∃ j, k ≤ j ∧ j < k + fuel ∧ rows j = some r ∧ visible sch r = true ∧ holdsAll r cs = true ∧
        ∀ i r', k ≤ i → i < j → rows i = some r' → (visible sch r' && holdsAll r' cs) = false := by
  intro fuel
  induction fuel with
  | zero => intro k r h; simp [findFrom] at h
  | succ f ih =>
    intro k r h
    unfold findFrom at h
    cases hk : rows k with
    | none =>
      rw [hk] at h
      obtain ⟨j, h1, h2, h3, h4, h5, h6⟩ := ih (k + 1) h
      refine ⟨j, by omega, by omega, h3, h4, h5, ?_⟩
      intro i r' hi1 hi2 hr
      by_cases hik : i = k
      · subst hik; rw [hk] at hr; cases hr
      · exact h6 i r' (by omega) hi2 hr
    | some r0 =>
      rw [hk] at h
      by_cases hm : (visible sch r0 && holdsAll r0 cs) = true
      · simp [hm] at h
        subst h
        simp only [Bool.and_eq_true] at hm
        exact ⟨k, by omega, by omega, hk, hm.1, hm.2, fun i r' a b => by omega⟩
      · simp [hm] at h
        obtain ⟨j, h1, h2, h3, h4, h5, h6⟩ := ih (k + 1) h
        refine ⟨j, by omega, by omega, h3, h4, h5, ?_⟩
        intro i r' hi1 hi2 hr
        by_cases hik : i = k
        · subst hik; rw [hk] at hr; cases hr; simpa using hm
        · exact h6 i r' (by omega) hi2 hr

theorem findFrom_none {sch : Schema} {rows : Nat → Option Row} {cs : List Cond} :
    ∀ (fuel k : Nat), findFrom sch rows cs fuel k = none →
      ∀ i r', k ≤ i → i < k + fuel → rows i = some r' → (visible sch r' && holdsAll r' cs) = false := by
  intro fuel
  induction fuel with
  | zero => intro k _ i r' a b; omega
  | succ f ih =>
    intro k h i r' hi1 hi2 hr
    unfold findFrom at h
    cases hk : rows k with
    | none =>
      rw [hk] at h
      by_cases hik : i = k
      · subst hik; rw [hk] at hr; cases hr
      · exact ih (k + 1) h i r' (by omega) (by omega) hr
    | some r0 =>
      rw [hk] at h
      by_cases hm : (visible sch r0 && holdsAll r0 cs) = true
      · simp [hm] at h
      · simp [hm] at h
        by_cases hik : i = k
        · subst hik; rw [hk] at hr; cases hr; simpa using hm
        · exact ih (k + 1) h i r' (by omega) (by omega) hr

end Gorm.Upsert
