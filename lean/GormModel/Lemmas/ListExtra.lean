/- small core-only list lemmas shared by proof files -/
namespace Gorm

theorem snoc_induction {α : Type _} {P : List α → Prop} (nil : P [])
    (snoc : ∀ l a, P l → P (l ++ [a])) : ∀ l, P l := by
  intro l
  have h : ∀ r : List α, P r.reverse := by
    intro r
    induction r with
    | nil => simpa using nil
    | cons a r ih => simpa [List.reverse_cons] using snoc _ a ih
  simpa using h l.reverse

end Gorm
