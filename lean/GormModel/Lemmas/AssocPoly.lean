/-
  Lemmas.AssocPoly — C12 on polymorphic has-one / has-many relations whose target table is shared by owners of
  different types: the link is (owner type, owner id, target), stored in two columns of the target row.
  Specification = set algebra on the ternary link relation; the statement-level model (Model.AssocPoly) refines it
  for every call and every sequence of calls on ANY mix of relations / owners / owner types.
-/
import GormModel.Model.AssocPoly
import GormModel.Lemmas.Assoc
namespace Gorm.AssocPoly
open Gorm.Assoc (OpKind fill zeros nz)

/-- the link relation: owner type → owner id → target → Prop -/
abbrev Links := Nat → Nat → Nat → Prop

/-- "the targets S now belong to (ty, o)": a target row has ONE pair of link columns, so it leaves every other
    (type, owner) -/
def moveTo (ty o : Nat) (S : List Nat) (L : Links) : Links :=
  fun ty' o' t => (t ∈ S ∧ ty' = ty ∧ o' = o) ∨ (t ∉ S ∧ L ty' o' t)

/-- the save loop: owner after owner -/
def specSave (r : PRel) (clear : Bool) : List Arg → Nat → Links → Links
  | [], _, L => L
  | a :: as, n, L =>
    specSave r clear as (n + zeros (fieldAfter r clear a.held a.vals)) (moveTo r.ty a.o (savedKeys r clear a n) L)

/-- the links of (ty, o ∈ os) whose target satisfies P are removed; nothing else changes -/
def dropWhere (ty : Nat) (os : List Nat) (P : Nat → Prop) (L : Links) : Links :=
  fun ty' o' t => L ty' o' t ∧ ¬(ty' = ty ∧ o' ∈ os ∧ P t)

def specReplace (op : POp) (n : Nat) (L : Links) : Links :=
  dropWhere op.rel.ty op.os (fun t => t ∉ keepKeys op.rel true op.args n) (specSave op.rel true op.args n L)

/-- Append adds, Replace sets, Delete removes the named targets, Clear removes all — of the operated (type, owner)s -/
def specStep (op : POp) (n : Nat) (L : Links) : Links :=
  match op.kind with
  | .append => if op.rel.one then specReplace op n L else specSave op.rel false op.args n L
  | .replace => specReplace op n L
  | .clear => dropWhere op.rel.ty op.os (fun _ => True) L
  | .delete => dropWhere op.rel.ty op.os (fun t => t ∈ op.named) L

def nextSave (r : PRel) (clear : Bool) : List Arg → Nat → Nat
  | [], n => n
  | a :: as, n => nextSave r clear as (n + zeros (fieldAfter r clear a.held a.vals))

def nextStep (op : POp) (n : Nat) : Nat :=
  match op.kind with
  | .append => nextSave op.rel (op.rel.one) op.args n
  | .replace => nextSave op.rel true op.args n
  | _ => n

def specRun : List POp → Nat → Links → Links
  | [], _, L => L
  | op :: ops, n, L => specRun ops (nextStep op n) (specStep op n L)

/-- well-formed call: polymorphic relation, saved owners -/
def OpOk (op : POp) : Prop := op.rel.ty ≠ 0 ∧ 0 ∉ op.os

/-- keys of the rows an Append / Replace writes -/
def touched (op : POp) (n : Nat) : List Nat :=
  match op.kind with
  | .append => keepKeys op.rel op.rel.one op.args n
  | .replace => keepKeys op.rel true op.args n
  | _ => []

/-! ### the column lists -/

theorem assignCols_agree (r : PRel) : assignColsHasOne r = assignColsHasMany r := rfl

theorem assignCols_poly (r : PRel) (h : r.ty ≠ 0) : Col.oid ∈ assignCols r ∧ Col.oty ∈ assignCols r := by
  cases hr : r.one <;> simp [assignCols, assignColsHasOne, assignColsHasMany, PRel.refs, h, hr, Ref.fk]

theorem elem_eq (r : PRel) (o id : Nat) (h : r.ty ≠ 0) : elem r o id = ⟨id, o, r.ty⟩ := by
  simp [elem, PRel.refs, h, setRef]

/-! ### one upserted row -/

theorem upsert1_exists (cols : List Col) (rows : List Row) (e : Row) :
    ∃ x ∈ upsert1 cols rows e, x.id = e.id := by
  unfold upsert1
  split
  · rename_i h
    rw [List.any_eq_true] at h
    obtain ⟨x, hx, hxe⟩ := h
    have hid : x.id = e.id := by simpa using hxe
    refine ⟨applyCols cols e x, ?_, ?_⟩
    · exact List.mem_map.mpr ⟨x, hx, by simp [hid]⟩
    · simp [applyCols, hid]
  · exact ⟨e, by simp, rfl⟩

theorem upsert1_pair (cols : List Col) (hc : Col.oid ∈ cols ∧ Col.oty ∈ cols) (rows : List Row) (e : Row) :
    ∀ x ∈ upsert1 cols rows e, x.id = e.id → x.oid = e.oid ∧ x.oty = e.oty := by
  unfold upsert1
  split
  · intro x hx hid
    obtain ⟨y, hy, rfl⟩ := List.mem_map.mp hx
    by_cases hye : y.id = e.id
    · simp [hye, applyCols, hc.1, hc.2]
    · simp [hye] at hid
  · rename_i h
    intro x hx hid
    rcases List.mem_append.mp hx with hx | hx
    · exfalso; apply h; rw [List.any_eq_true]; exact ⟨x, hx, by simpa using hid⟩
    · have : x = e := by simpa using hx
      subst this; exact ⟨rfl, rfl⟩

theorem upsert1_other (cols : List Col) (rows : List Row) (e x : Row) (hne : x.id ≠ e.id) :
    x ∈ upsert1 cols rows e ↔ x ∈ rows := by
  unfold upsert1
  split
  · constructor
    · intro hx
      obtain ⟨y, hy, rfl⟩ := List.mem_map.mp hx
      by_cases hye : y.id = e.id
      · simp [hye, applyCols] at hne
      · simpa [hye] using hy
    · intro hx
      exact List.mem_map.mpr ⟨x, hx, by simp [hne]⟩
  · constructor
    · intro hx
      rcases List.mem_append.mp hx with hx | hx
      · exact hx
      · have : x = e := by simpa using hx
        subst this; exact absurd rfl hne
    · intro hx; exact List.mem_append.mpr (Or.inl hx)

theorem upsert_cons (cols : List Col) (e : Row) (es rows : List Row) :
    upsert cols (e :: es) rows = upsert cols es (upsert1 cols rows e) := rfl

theorem upsert_other (cols : List Col) (es : List Row) (rows : List Row) (x : Row)
    (hne : ∀ e ∈ es, e.id ≠ x.id) : x ∈ upsert cols es rows ↔ x ∈ rows := by
  induction es generalizing rows with
  | nil => exact Iff.rfl
  | cons e es ih =>
    rw [upsert_cons, ih _ (fun e' he' => hne e' (List.mem_cons_of_mem _ he'))]
    exact upsert1_other cols rows e x (fun h => hne e (List.mem_cons_self ..) h.symm)

theorem upsert_pair (cols : List Col) (hc : Col.oid ∈ cols ∧ Col.oty ∈ cols) (o ty : Nat) (es : List Row)
    (rows : List Row) (hes : ∀ e ∈ es, e.oid = o ∧ e.oty = ty) (t : Nat) (ht : ∃ e ∈ es, e.id = t) :
    (∃ x ∈ upsert cols es rows, x.id = t) ∧ ∀ x ∈ upsert cols es rows, x.id = t → x.oid = o ∧ x.oty = ty := by
  induction es generalizing rows with
  | nil => obtain ⟨e, he, _⟩ := ht; cases he
  | cons e es ih =>
    have hes' : ∀ e' ∈ es, e'.oid = o ∧ e'.oty = ty := fun e' he' => hes e' (List.mem_cons_of_mem _ he')
    rw [upsert_cons]
    by_cases h : ∃ e' ∈ es, e'.id = t
    · exact ih _ hes' h
    · have het : e.id = t := by
        obtain ⟨e', he', hid⟩ := ht
        rcases List.mem_cons.mp he' with rfl | he'
        · exact hid
        · exact absurd ⟨e', he', hid⟩ h
      have hoth : ∀ x : Row, x.id = t → (x ∈ upsert cols es (upsert1 cols rows e) ↔ x ∈ upsert1 cols rows e) := by
        intro x hx
        apply upsert_other
        intro e' he' hid
        exact h ⟨e', he', by rw [hid, hx]⟩
      have hee := hes e (List.mem_cons_self ..)
      constructor
      · obtain ⟨x, hx, hxid⟩ := upsert1_exists cols rows e
        exact ⟨x, (hoth x (by rw [hxid, het])).mpr hx, by rw [hxid, het]⟩
      · intro x hx hxt
        have := upsert1_pair cols hc rows e x ((hoth x hxt).mp hx) (by rw [hxt, het])
        rw [hee.1, hee.2] at this
        exact this

/-! ### one owner's save -/

theorem saveOwner_nil (r : PRel) (clear : Bool) (a : Arg) (s : St) (hf : savedKeys r clear a s.next = []) :
    saveOwner r clear a s = s := by
  simp [saveOwner, hf]

theorem saveOwner_rows (r : PRel) (clear : Bool) (a : Arg) (s : St) (hf : savedKeys r clear a s.next ≠ []) :
    (saveOwner r clear a s).rows
      = upsert (assignCols r) ((savedKeys r clear a s.next).map (elem r a.o)) s.rows := by
  simp [saveOwner, hf]

theorem saveOwner_next (r : PRel) (clear : Bool) (a : Arg) (s : St) :
    (saveOwner r clear a s).next = s.next + zeros (fieldAfter r clear a.held a.vals) := by
  by_cases hf : savedKeys r clear a s.next = []
  · rw [saveOwner_nil r clear a s hf]
    have : fieldAfter r clear a.held a.vals = [] := Gorm.Assoc.fill_eq_nil.mp hf
    rw [this]; rfl
  · simp [saveOwner, hf]

theorem elem_id (r : PRel) (o id : Nat) : (elem r o id).id = id := by
  by_cases h : r.ty = 0 <;> simp [elem, PRel.refs, h, setRef]

/-- rows whose key is not among the saved elements are untouched (membership) -/
theorem saveOwner_other (r : PRel) (clear : Bool) (a : Arg) (s : St) (x : Row)
    (hx : x.id ∉ savedKeys r clear a s.next) : x ∈ (saveOwner r clear a s).rows ↔ x ∈ s.rows := by
  by_cases hf : savedKeys r clear a s.next = []
  · rw [saveOwner_nil r clear a s hf]
  · rw [saveOwner_rows r clear a s hf]
    apply upsert_other
    intro e he hid
    obtain ⟨t, ht, rfl⟩ := List.mem_map.mp he
    rw [elem_id] at hid
    exact hx (hid ▸ ht)

/-- after the save of one owner, every saved element is stored and its (owner id, type) pair is the owner's -/
theorem saveOwner_pair (r : PRel) (clear : Bool) (a : Arg) (s : St) (h : r.ty ≠ 0) (t : Nat)
    (ht : t ∈ savedKeys r clear a s.next) :
    (∃ x ∈ (saveOwner r clear a s).rows, x.id = t) ∧
    ∀ x ∈ (saveOwner r clear a s).rows, x.id = t → x.oid = a.o ∧ x.oty = r.ty := by
  have hf : savedKeys r clear a s.next ≠ [] := by intro e; rw [e] at ht; cases ht
  rw [saveOwner_rows r clear a s hf]
  apply upsert_pair (assignCols r) (assignCols_poly r h) a.o r.ty
  · intro e he
    obtain ⟨t', _, rfl⟩ := List.mem_map.mp he
    rw [elem_eq r a.o t' h]; exact ⟨rfl, rfl⟩
  · exact ⟨elem r a.o t, List.mem_map.mpr ⟨t, ht, rfl⟩, elem_id r a.o t⟩

theorem saveOwner_links (r : PRel) (clear : Bool) (a : Arg) (s : St) (h : r.ty ≠ 0) (ho : a.o ≠ 0) :
    Linked (saveOwner r clear a s).rows = moveTo r.ty a.o (savedKeys r clear a s.next) (Linked s.rows) := by
  funext ty' o' t
  apply propext
  unfold Linked moveTo
  by_cases ht : t ∈ savedKeys r clear a s.next
  · obtain ⟨⟨x, hx, hxt⟩, hall⟩ := saveOwner_pair r clear a s h t ht
    constructor
    · rintro ⟨_, y, hy, hyt, hyo, hyty⟩
      obtain ⟨h1, h2⟩ := hall y hy hyt
      exact Or.inl ⟨ht, by rw [← hyty, h2], by rw [← hyo, h1]⟩
    · rintro (⟨_, rfl, rfl⟩ | ⟨hn, _⟩)
      · obtain ⟨h1, h2⟩ := hall x hx hxt
        exact ⟨ho, x, hx, hxt, h1, h2⟩
      · exact absurd ht hn
  · have other : ∀ y : Row, y.id = t → (y ∈ (saveOwner r clear a s).rows ↔ y ∈ s.rows) :=
      fun y hy => saveOwner_other r clear a s y (by rw [hy]; exact ht)
    constructor
    · rintro ⟨ho', y, hy, hyt, hyo, hyty⟩
      exact Or.inr ⟨ht, ho', y, (other y hyt).mp hy, hyt, hyo, hyty⟩
    · rintro (⟨h1, _⟩ | ⟨_, ho', y, hy, hyt, hyo, hyty⟩)
      · exact absurd h1 ht
      · exact ⟨ho', y, (other y hyt).mpr hy, hyt, hyo, hyty⟩

theorem saveAll_links (r : PRel) (clear : Bool) (as : List Arg) (s : St) (h : r.ty ≠ 0) (ho : ∀ a ∈ as, a.o ≠ 0) :
    Linked (saveAll r clear as s).rows = specSave r clear as s.next (Linked s.rows) ∧
    (saveAll r clear as s).next = nextSave r clear as s.next := by
  induction as generalizing s with
  | nil => exact ⟨rfl, rfl⟩
  | cons a as ih =>
    have := ih (saveOwner r clear a s) (fun b hb => ho b (List.mem_cons_of_mem _ hb))
    rw [saveOwner_next, saveOwner_links r clear a s h (ho a (List.mem_cons_self ..))] at this
    exact this

theorem unlink_next (uns : Bool) (c : Row → Bool) (s : St) : (unlink uns c s).next = s.next := by
  cases uns <;> rfl

theorem unlink_links (uns : Bool) (r : PRel) (os : List Nat) (P : Nat → Bool) (s : St) (h : r.ty ≠ 0) :
    Linked (unlink uns (fun x => tyOk r x && decide (x.oid ∈ os) && P x.id) s).rows
      = dropWhere r.ty os (fun t => P t = true) (Linked s.rows) := by
  funext ty' o' t
  apply propext
  have hc : ∀ x : Row, (tyOk r x && decide (x.oid ∈ os) && P x.id) = true
      ↔ (x.oty = r.ty ∧ x.oid ∈ os ∧ P x.id = true) := by
    intro x; simp [tyOk, h, and_assoc]
  cases uns
  · -- scoped: UPDATE … SET owner_id = NULL
    have hrows : (unlink false (fun x => tyOk r x && decide (x.oid ∈ os) && P x.id) s).rows
        = s.rows.map (fun x => if (tyOk r x && decide (x.oid ∈ os) && P x.id) = true
            then { x with oid := 0 } else x) := by
      simp [unlink]
    rw [hrows]
    unfold Linked dropWhere
    constructor
    · rintro ⟨ho', y, hy, hyt, hyo, hyty⟩
      obtain ⟨x, hx, rfl⟩ := List.mem_map.mp hy
      by_cases hcx : (tyOk r x && decide (x.oid ∈ os) && P x.id) = true
      · rw [if_pos hcx] at hyo
        exact absurd hyo.symm ho'
      · rw [if_neg hcx] at hyt hyo hyty
        refine ⟨⟨ho', x, hx, hyt, hyo, hyty⟩, ?_⟩
        rintro ⟨e1, e2, e3⟩
        apply hcx
        rw [hc]
        exact ⟨by rw [hyty, e1], by rw [hyo]; exact e2, by rw [hyt]; exact e3⟩
    · rintro ⟨⟨ho', x, hx, hxt, hxo, hxty⟩, hn⟩
      have hcx : ¬ (tyOk r x && decide (x.oid ∈ os) && P x.id) = true := by
        rw [hc]
        rintro ⟨e1, e2, e3⟩
        exact hn ⟨by rw [← hxty, e1], by rw [← hxo]; exact e2, by rw [← hxt]; exact e3⟩
      refine ⟨ho', x, List.mem_map.mpr ⟨x, hx, by rw [if_neg hcx]⟩, hxt, hxo, hxty⟩
  · -- Unscoped: DELETE
    have hrows : (unlink true (fun x => tyOk r x && decide (x.oid ∈ os) && P x.id) s).rows
        = s.rows.filter (fun x => !(tyOk r x && decide (x.oid ∈ os) && P x.id)) := by
      simp [unlink]
    rw [hrows]
    unfold Linked dropWhere
    constructor
    · rintro ⟨ho', x, hx, hxt, hxo, hxty⟩
      obtain ⟨hx, hcx⟩ := List.mem_filter.mp hx
      refine ⟨⟨ho', x, hx, hxt, hxo, hxty⟩, ?_⟩
      rintro ⟨e1, e2, e3⟩
      have : (tyOk r x && decide (x.oid ∈ os) && P x.id) = true := by
        rw [hc]; exact ⟨by rw [hxty, e1], by rw [hxo]; exact e2, by rw [hxt]; exact e3⟩
      rw [this] at hcx; cases hcx
    · rintro ⟨⟨ho', x, hx, hxt, hxo, hxty⟩, hn⟩
      have hcx : ¬ (tyOk r x && decide (x.oid ∈ os) && P x.id) = true := by
        rw [hc]
        rintro ⟨e1, e2, e3⟩
        exact hn ⟨by rw [← hxty, e1], by rw [← hxo]; exact e2, by rw [← hxt]; exact e3⟩
      refine ⟨ho', x, List.mem_filter.mpr ⟨hx, ?_⟩, hxt, hxo, hxty⟩
      show (!(tyOk r x && decide (x.oid ∈ os) && P x.id)) = true
      rw [Bool.eq_false_iff.mpr hcx]; rfl

/-! ### every call, every sequence -/

theorem zero_not_mem_keepKeys (r : PRel) (clear : Bool) (as : List Arg) (n : Nat) (hn : n ≠ 0) :
    0 ∉ keepKeys r clear as n := by
  induction as generalizing n with
  | nil => simp [keepKeys]
  | cons a as ih =>
    simp only [keepKeys, List.mem_append, not_or]
    exact ⟨Gorm.Assoc.zero_not_mem_fill (Nat.pos_of_ne_zero hn), ih _ (by omega)⟩

theorem nz_of_nozero {l : List Nat} (h : 0 ∉ l) : nz l = l := by
  unfold nz
  rw [List.filter_eq_self]
  intro a ha
  have : a ≠ 0 := by intro e; subst e; exact h ha
  simpa using this

theorem dropWhere_congr (ty : Nat) (os : List Nat) (P Q : Nat → Prop) (L : Links) (h : ∀ t, P t ↔ Q t) :
    dropWhere ty os P L = dropWhere ty os Q L := by
  have : P = Q := funext fun t => propext (h t)
  rw [this]

theorem replace_refines (op : POp) (s : St) (hok : OpOk op) (hn : s.next ≠ 0) :
    Linked (replace op false s).rows = specReplace op s.next (Linked s.rows) ∧
    (replace op false s).next = nextSave op.rel true op.args s.next := by
  have hos : ∀ a ∈ op.args, a.o ≠ 0 := by
    intro a ha e
    exact hok.2 (List.mem_map.mpr ⟨a, ha, e⟩)
  obtain ⟨hl, hnx⟩ := saveAll_links op.rel true op.args s hok.1 hos
  have hK := zero_not_mem_keepKeys op.rel true op.args s.next hn
  have hu : Linked (replace op false s).rows
      = dropWhere op.rel.ty op.os
          (fun t => ((nz (keepKeys op.rel true op.args s.next)).isEmpty
            || decide (t ∉ nz (keepKeys op.rel true op.args s.next))) = true)
          (Linked (saveAll op.rel true op.args s).rows) :=
    unlink_links op.unscoped op.rel op.os
      (fun t => (nz (keepKeys op.rel true op.args s.next)).isEmpty
            || decide (t ∉ nz (keepKeys op.rel true op.args s.next)))
      (saveAll op.rel true op.args s) hok.1
  have hnx' : (replace op false s).next = (saveAll op.rel true op.args s).next := unlink_next _ _ _
  rw [hu, hnx', hl, nz_of_nozero hK]
  refine ⟨?_, hnx⟩
  unfold specReplace
  apply dropWhere_congr
  intro t
  cases hk : keepKeys op.rel true op.args s.next <;> simp

theorem clear_refines (op : POp) (s : St) (hok : OpOk op) :
    Linked (replace op true s).rows = dropWhere op.rel.ty op.os (fun _ => True) (Linked s.rows) ∧
    (replace op true s).next = s.next := by
  have hu : Linked (replace op true s).rows
      = dropWhere op.rel.ty op.os (fun t => (fun _ => true) t = true) (Linked s.rows) :=
    unlink_links op.unscoped op.rel op.os (fun _ => true) s hok.1
  have hnx' : (replace op true s).next = s.next := unlink_next _ _ _
  rw [hu, hnx']
  refine ⟨?_, rfl⟩
  apply dropWhere_congr
  intro t; simp

theorem delete_refines (op : POp) (s : St) (hok : OpOk op) :
    Linked (unlink op.unscoped (namedRow op.rel op.os op.named) s).rows
      = dropWhere op.rel.ty op.os (fun t => t ∈ op.named) (Linked s.rows) := by
  have hu : Linked (unlink op.unscoped (namedRow op.rel op.os op.named) s).rows
      = dropWhere op.rel.ty op.os (fun t => (fun t => decide (t ∈ op.named)) t = true) (Linked s.rows) :=
    unlink_links op.unscoped op.rel op.os (fun t => decide (t ∈ op.named)) s hok.1
  rw [hu]
  apply dropWhere_congr
  intro t; simp

/-- per-call refinement, ANY relation kind (has-one / has-many), ANY owner type value, one owner or a slice,
    scoped or Unscoped, whatever the handle holds in memory -/
theorem step_refines (op : POp) (s : St) (hok : OpOk op) (hn : s.next ≠ 0) :
    Linked (step op s).rows = specStep op s.next (Linked s.rows) ∧ (step op s).next = nextStep op s.next := by
  have hos : ∀ a ∈ op.args, a.o ≠ 0 := by
    intro a ha e
    exact hok.2 (List.mem_map.mpr ⟨a, ha, e⟩)
  unfold step specStep nextStep
  cases hk : op.kind
  · -- append
    cases hone : op.rel.one
    · simpa [hone] using saveAll_links op.rel false op.args s hok.1 hos
    · simpa [hone] using replace_refines op s hok hn
  · exact replace_refines op s hok hn
  · exact ⟨delete_refines op s hok, unlink_next _ _ _⟩
  · exact clear_refines op s hok

theorem nextSave_ge (r : PRel) (clear : Bool) (as : List Arg) (n : Nat) : n ≤ nextSave r clear as n := by
  induction as generalizing n with
  | nil => exact Nat.le_refl _
  | cons a as ih => exact Nat.le_trans (Nat.le_add_right _ _) (ih _)

theorem nextStep_ne_zero (op : POp) (n : Nat) (hn : n ≠ 0) : nextStep op n ≠ 0 := by
  unfold nextStep
  cases op.kind
  · have := nextSave_ge op.rel op.rel.one op.args n; simp only; omega
  · have := nextSave_ge op.rel true op.args n; simp only; omega
  · exact hn
  · exact hn

/-- MAIN: along every sequence of calls on any mix of relations, owners and owner types the stored links
    (owner type, owner id, target) are exactly the specification fold -/
theorem run_refines (ops : List POp) (s : St) (hok : ∀ op ∈ ops, OpOk op) (hn : s.next ≠ 0) :
    Linked (run ops s).rows = specRun ops s.next (Linked s.rows) := by
  induction ops generalizing s with
  | nil => rfl
  | cons op ops ih =>
    obtain ⟨h1, h2⟩ := step_refines op s (hok op (List.mem_cons_self ..)) hn
    have := ih (step op s) (fun o ho => hok o (List.mem_cons_of_mem _ ho))
      (by rw [h2]; exact nextStep_ne_zero op s.next hn)
    rw [h1, h2] at this
    exact this

theorem saveAll_keep (r : PRel) (clear : Bool) (as : List Arg) (s : St) (x : Row) (hx : x ∈ s.rows)
    (hid : x.id ∉ keepKeys r clear as s.next) : x ∈ (saveAll r clear as s).rows := by
  induction as generalizing s with
  | nil => exact hx
  | cons a as ih =>
    simp only [keepKeys, List.mem_append, not_or] at hid
    apply ih (saveOwner r clear a s)
    · exact (saveOwner_other r clear a s x hid.1).mpr hx
    · rw [saveOwner_next]; exact hid.2

theorem unlink_keep (uns : Bool) (c : Row → Bool) (s : St) (x : Row) (hx : x ∈ s.rows) (hc : c x = false) :
    x ∈ (unlink uns c s).rows := by
  cases uns
  · exact List.mem_map.mpr ⟨x, hx, by simp [hc]⟩
  · exact List.mem_filter.mpr ⟨hx, by simp [hc]⟩

/-- rows of ANOTHER owner type that are not among the written elements survive every call unchanged
    (Delete / Clear: `touched = []`, i.e. unconditionally) -/
theorem foreign_rows_untouched (op : POp) (s : St) (x : Row) (hty : op.rel.ty ≠ 0) (hx : x ∈ s.rows)
    (hf : x.oty ≠ op.rel.ty) (hid : x.id ∉ touched op s.next) : x ∈ (step op s).rows := by
  have hty' : tyOk op.rel x = false := by simp [tyOk, hty, hf]
  have hstale : ∀ keep, staleRow op.rel op.os keep x = false := by intro keep; simp [staleRow, hty']
  have hnamed : namedRow op.rel op.os op.named x = false := by simp [namedRow, hty']
  have hrep : x.id ∉ keepKeys op.rel true op.args s.next → x ∈ (replace op false s).rows := by
    intro h
    exact unlink_keep _ _ _ x (saveAll_keep op.rel true op.args s x hx h) (hstale _)
  unfold touched at hid
  unfold step
  cases hk : op.kind <;> rw [hk] at hid
  · cases hone : op.rel.one
    · rw [hone] at hid
      simpa [hone] using saveAll_keep op.rel false op.args s x hx hid
    · rw [hone] at hid
      simpa [hone] using hrep hid
  · exact hrep hid
  · exact unlink_keep _ _ _ x hx hnamed
  · exact unlink_keep _ _ _ x hx (hstale _)

/-- Find / Count report exactly the links of the operated (type, owner)s -/
theorem mem_findIds (r : PRel) (os : List Nat) (rows : List Row) (h : r.ty ≠ 0) (hos : 0 ∉ os) (t : Nat) :
    t ∈ findIds r os rows ↔ ∃ o ∈ os, Linked rows r.ty o t := by
  unfold findIds Linked
  simp only [List.mem_map, List.mem_filter]
  constructor
  · rintro ⟨x, ⟨hx, hc⟩, hxt⟩
    have hc' : x.oty = r.ty ∧ x.oid ∈ os := by simpa [tyOk, h] using hc
    refine ⟨x.oid, hc'.2, ?_, x, hx, hxt, rfl, hc'.1⟩
    intro e; rw [e] at hc'; exact hos hc'.2
  · rintro ⟨o, ho, _, x, hx, hxt, hxo, hxty⟩
    refine ⟨x, ⟨hx, ?_⟩, hxt⟩
    simp [tyOk, h, hxty, hxo, ho]

end Gorm.AssocPoly
