/-
  C06 round 3 — an argument use never writes the argument's statement (lemmas for Props/C06.lean).
  Everything is assembled from the heap lemmas of Lemmas/HeapQuiet (`Same`: no exposed slot written, old arrays
  untouched) and the simulation lemmas of Lemmas/HeapSim (`Tr`: the heap only grows and stays well-formed; rendering
  depends only on the deep values reachable from the statement).
-/
import GormModel.Lemmas.HeapSim
import GormModel.Model.ArgUse
namespace Gorm.ArgUse
open Gorm.Heap

theorem scopesEffect_safe (arg : Handle) : scopesEffect siteSafe arg = arg := by
  simp [scopesEffect, siteSafe]

theorem rewriteEffect_safe (H : Heap) (st : Stmt) : rewriteEffect siteSafe H st = H := by
  simp [rewriteEffect, siteSafe]

/-- a statement that was well-formed renders the same after any transition that only grows the heap -/
theorem render_after_tr {H H' : Heap} (t : Tr H H') (st : Stmt) (wf : StEq H st H st) (fuel fin : Nat) :
    (renderStmt cfgSafe.mg true fuel H' st fin).2 = (renderStmt cfgSafe.mg true fuel H st fin).2 :=
  (renderStmt_rel t.ok' t.ok fuel fin (wf.mono t (Tr.refl t.ok))).2.2

/-! ## Joins("Rel", h) -/

theorem joinsUse_safe (H : Heap) (arg : Handle) : joinsUse siteSafe H arg = (H, arg, arg.st.wher) := by
  simp [joinsUse, scopesEffect_safe, rewriteEffect_safe]

theorem joinOnBuild_same (fuel : Nat) (H : Heap) (on : Option Slice) (qc : Option Nat) :
    Same H (joinOnBuild cfgSafe.mg true fuel H on qc).1 := by
  unfold joinOnBuild
  cases on <;> cases qc <;> simp only [whereBuild_copies_heap]
  · exact Same.refl H
  · exact alloc_same H _ _
  · exact Same.refl H
  · exact Same.trans (alloc_same H _ _) (mergeWhere_same _ _ _)

theorem joinOnBuild_tr (fuel : Nat) {H : Heap} (ok : HeapOK H) (on : Option Slice) (hon : OEq H H on on) (qc : Option Nat) :
    Tr H (joinOnBuild cfgSafe.mg true fuel H on qc).1 := by
  unfold joinOnBuild
  cases on <;> cases qc <;> simp only [whereBuild_copies_heap]
  · exact Tr.refl ok
  · exact (alloc_rel ok ok (LEq.atoms H H [_]) 1 1).t1
  · exact Tr.refl ok
  · rename_i w a
    have c : SOut H (condAtom H a) H (condAtom H a) := alloc_rel ok ok (LEq.atoms H H [a]) 1 1
    have hw : VEq H w H w := by simpa [OEq] using hon
    have m := mergeWhere_rel c.t1.ok' c.t1.ok' (o1 := some (condAtom H a).2) (o2 := some (condAtom H a).2)
      (by simpa [OEq] using c.e) (hw.mono c.t1 c.t1)
    exact c.t1.trans m.t1

/-! ## Where("x IN (?)", h) and every other value position -/

theorem subqueryUse_arg (c : Cfg) (fuel : Nat) (H : Heap) (arg : Handle) : (subqueryUse siteSafe c fuel H arg).arg = arg := by
  simp [subqueryUse, scopesEffect_safe]

theorem subqueryUse_same (fuel : Nat) (H : Heap) (arg : Handle) : Same H (subqueryUse siteSafe cfgSafe fuel H arg).heap := by
  simp only [subqueryUse, scopesEffect_safe, rewriteEffect_safe]
  exact Same.trans (cloneStmt_same cfgSafe.cl H arg.st) (renderStmt_same cfgSafe.mg rfl rfl fuel _ _ 0)

theorem subqueryUse_tr (fuel : Nat) {H : Heap} (ok : HeapOK H) (arg : Handle) (wf : StEq H arg.st H arg.st) :
    Tr H (subqueryUse siteSafe cfgSafe fuel H arg).heap := by
  simp only [subqueryUse, scopesEffect_safe, rewriteEffect_safe]
  have c := cloneStmt_rel ok ok wf
  exact c.t1.trans (renderStmt_rel c.t1.ok' c.t1.ok' fuel 0 c.e).1

/-! ## Where(h) / Or(h) / Not(h) / Having(h) / inline conditions -/

theorem groupUse_arg (c : Cfg) (fuel : Nat) (H : Heap) (arg : Handle) : (groupUse siteSafe c fuel H arg).arg = arg := by
  simp [groupUse, scopesEffect_safe]

theorem groupUse_same (fuel : Nat) (H : Heap) (arg : Handle) : Same H (groupUse siteSafe cfgSafe fuel H arg).heap := by
  simp only [groupUse]
  exact Same.trans (groupArgStmt_same true rfl H arg) (buildCondGroup_same true rfl _ _)

theorem groupUse_tr (fuel : Nat) {H : Heap} (ok : HeapOK H) (arg : Handle) (wf : StEq H arg.st H arg.st) :
    Tr H (groupUse siteSafe cfgSafe fuel H arg).heap := by
  simp only [groupUse]
  have g := groupArgStmt_rel ok ok (a1 := arg) (a2 := arg) ⟨rfl, wf⟩
  exact g.t1.trans (buildCondGroup_rel g.t1.ok' g.t1.ok' g.e).t1

end Gorm.ArgUse
