/-
  Lemmas for Model/ClauseMap.lean and Model/SessionWrites.lean (C06 round 2).
-/
import GormModel.Model.ClauseMap
import GormModel.Model.SessionWrites
import GormModel.Lemmas.Handle
namespace Gorm.ClauseMap

theorem lookup_store (m : CMap) (e : CEntry) (k : String) :
    lookup (store m e) k = if e.key = k then e else lookup m k := by
  induction m with
  | nil => simp [store, lookup]
  | cons x r ih =>
    by_cases hx : x.key = e.key
    · simp only [store, hx, if_true, lookup]
      by_cases hk : e.key = k
      · simp [hk]
      · simp [hk]
    · simp only [store, hx, if_false, lookup, ih]
      by_cases hk : x.key = k
      · have : e.key ≠ k := fun h => hx (hk.trans h.symm)
        simp [hk, this]
      · simp [hk]

theorem lookup_remove_ne (m : CMap) (k k' : String) (h : k ≠ k') :
    lookup (remove m k) k' = lookup m k' := by
  induction m with
  | nil => simp [remove, lookup]
  | cons x r ih =>
    by_cases hx : x.key = k
    · have hk' : x.key ≠ k' := fun h' => h (hx.symm.trans h')
      simp only [remove, hx, if_true, lookup]
      rw [ih]
      have : ¬ k = k' := h
      simp [this]
    · by_cases hk' : x.key = k'
      · have hkk : ¬ k' = k := fun e => h e.symm
        subst hk'
        simp [remove, hkk, lookup]
      · simp only [remove, hx, if_false, lookup, hk', ih]

theorem length_flatten_of_singletons (gens : List (List Nat)) (h : ∀ g ∈ gens, g.length = 1) :
    gens.flatten.length = gens.length := by
  induction gens with
  | nil => rfl
  | cons g r ih =>
    have hg := h g (by simp)
    have hr := ih (fun g' hg' => h g' (by simp [hg']))
    simp [List.flatten, hg, hr]; omega

theorem rtrim_append {α : Type} (a b : List α) : rtrim (a ++ b) b.length = a := by
  unfold rtrim
  by_cases h : b.length ≥ (a ++ b).length
  · have : a.length = 0 := by simp at h; omega
    have : a = [] := List.eq_nil_of_length_eq_zero this
    simp [this]
  · simp only [h, if_false]
    have : (a ++ b).length - b.length = a.length := by simp
    rw [this]; simp

end Gorm.ClauseMap

namespace Gorm

theorem mayPath_congr (fl fl' : SessFlags) (p : List CCond) (h : ∀ f ∈ pathFlags p, fl f = fl' f) :
    mayPath fl p = mayPath fl' p := by
  induction p with
  | nil => rfl
  | cons c cs ih =>
    have hc := CCond.eval_congr fl fl' c (fun f hf => h f (by simp [pathFlags, hf]))
    have hr := ih (fun f hf => h f (by simp [pathFlags, hf]))
    simp only [mayPath, List.all_cons] at hr ⊢
    rw [hc, hr]

theorem WState.exec_congr (fl fl' : SessFlags) (st : WState) (ga : List CCond × WAct)
    (h : ∀ f ∈ pathFlags ga.1, fl f = fl' f) : st.exec fl ga = st.exec fl' ga := by
  unfold WState.exec
  rw [mayPath_congr fl fl' ga.1 h, evalCPath_congr fl fl' ga.1 h]

theorem runW_congr (fl fl' : SessFlags) (prog : List (List CCond × WAct))
    (h : ∀ f ∈ wFlags prog, fl f = fl' f) : runW prog fl = runW prog fl' := by
  unfold runW
  generalize ({} : WState) = st
  induction prog generalizing st with
  | nil => rfl
  | cons ga rest ih =>
    simp only [List.foldl_cons]
    rw [WState.exec_congr fl fl' st ga (fun f hf => h f (by simp [wFlags, hf]))]
    exact ih (fun f hf => h f (by simp [wFlags, hf])) _

/-- a valuation agrees, on the flags of `T`, with the valuation that switches on exactly the flags of `T` that are on -/
theorem ofList_filter_agree (T : List SessFlag) (fl : SessFlags) (f : SessFlag) (hf : f ∈ T) :
    fl f = SessFlags.ofList (T.filter fl) f := by
  by_cases hv : fl f = true
  · have : f ∈ T.filter fl := List.mem_filter.mpr ⟨hf, hv⟩
    simp [SessFlags.ofList, hv, this]
  · have : f ∉ T.filter fl := fun hm => hv (List.mem_filter.mp hm).2
    simp [SessFlags.ofList, this]
    simpa using hv

/-- the run under ANY flag valuation equals the run under the valuation restricted to a list `T` that contains
    every flag the program's guards test -/
theorem runW_restrict (prog : List (List CCond × WAct)) (T : List SessFlag) (hT : ∀ f ∈ wFlags prog, f ∈ T)
    (fl : SessFlags) : runW prog fl = runW prog (SessFlags.ofList (T.filter fl)) :=
  runW_congr _ _ prog (fun f hf => ofList_filter_agree T fl f (hT f hf))

end Gorm
