/-
  C12 — kernel-checked concrete witnesses of the five listed findings (known_findings.d/C12.json), evaluated on the
  executable model that the correspondence suite ties to association.go step by step.
-/
import GormModel.Model.Assoc
import GormModel.Lemmas.Identity
namespace Gorm
open Gorm.Assoc

def c12Empty (targets : List Nat) : St :=
  { links := [], targets := targets, next := 21, mem := fun _ => [], memFk := fun _ => 0 }

/-- F12a: belongs-to, `Append(h15)` then `Unscoped().Replace(h16)`: the fk column says 16, but record 16 (the NEW one)
    was deleted instead of the old record 15: Count() = 0 with one stored link. -/
theorem C12_belongs_to_unscoped_counterexample :
    let s := run ⟨.bt, true⟩ [1] [⟨.append, false, [[15]]⟩, ⟨.replace, true, [[16]]⟩] (c12Empty [15, 16, 20])
    s.links = [(1, 16)] ∧ 16 ∉ s.targets ∧ 15 ∈ s.targets ∧ count ⟨.bt, true⟩ [1] s = 0 := by
  decide

/-- F12a': `Unscoped().Delete(h16)` where the owner is linked to 15 (NOT named): record 15 is deleted, link stays. -/
theorem C12_belongs_to_unscoped_delete_counterexample :
    let s := run ⟨.bt, true⟩ [1] [⟨.append, false, [[15]]⟩, ⟨.delete, true, [[16]]⟩] (c12Empty [15, 16, 20])
    s.links = [(1, 15)] ∧ 15 ∉ s.targets := by
  decide

/-- F12a'': `Unscoped().Clear()` on a linked belongs-to: the call fails (statement aimed at the owner table). -/
theorem C12_belongs_to_unscoped_clear_counterexample :
    (run ⟨.bt, true⟩ [1] [⟨.append, false, [[15]]⟩, ⟨.clear, true, []⟩] (c12Empty [15, 20])).err = true := by
  decide

/-- F12b: belongs-to on a slice of two owners linked to the same record: two links, Count() = 1. -/
theorem C12_belongs_to_shared_count_counterexample :
    let s := run ⟨.bt, true⟩ [1, 2] [⟨.append, false, [[11], [11]]⟩] (c12Empty [11, 20])
    s.links = [(1, 11), (2, 11)] ∧ count ⟨.bt, true⟩ [1, 2] s = 1 := by
  decide

/-- F12c: many2many `Append(t14 /*preset key, not existing*/, new /*no key*/)`: the created record gets key 21 but
    stays unlinked; the keyless element is back-filled with 14. -/
theorem C12_many2many_backfill_counterexample :
    let s := run ⟨.m2m, false⟩ [1] [⟨.append, false, [[14, 0]]⟩] (c12Empty [20])
    21 ∈ s.targets ∧ (1, 21) ∉ s.links ∧ s.mem 1 = [14, 14] ∧ linksOf s 1 = [14] := by
  decide

/-- F12d: many2many Replace on a slice of owners keeps (1,11) because 11 is a new value of owner 2. -/
theorem C12_many2many_slice_replace_counterexample :
    let s := run ⟨.m2m, false⟩ [1, 2] [⟨.append, false, [[11], [12]]⟩, ⟨.replace, false, [[12], [11]]⟩] (c12Empty [11, 12, 20])
    linksOf s 1 = [11, 12] ∧ memKeys s 1 = [12] := by
  decide

/-- F12e: has-many on a slice of owners: target 11 handed to owner 1, then to owner 2: owner 1's in-memory field
    keeps it although its link is gone. -/
theorem C12_moved_target_counterexample :
    let s := run ⟨.fk, false⟩ [1, 2] [⟨.append, false, [[11], []]⟩, ⟨.append, false, [[], [11]]⟩] (c12Empty [11, 20])
    linksOf s 1 = [] ∧ memKeys s 1 = [11] ∧ linksOf s 2 = [11] := by
  decide

/-- F12f: composite keys ("a_b","c") and ("a","b_c") have the same key string: Append upserts only the first
    record, and Delete(first) also drops the second, un-named record from the in-memory field. -/
theorem C12_composite_key_counterexample :
    distinctByKey [["a_b".toList, "c".toList], ["a".toList, "b_c".toList]] [] = [["a_b".toList, "c".toList]] ∧
    keepByKey [["a_b".toList, "c".toList], ["a".toList, "b_c".toList]] [["a_b".toList, "c".toList]] = [] ∧
    keepByTuple [["a_b".toList, "c".toList], ["a".toList, "b_c".toList]] [["a_b".toList, "c".toList]]
      = [["a".toList, "b_c".toList]] := by
  decide

/-- … and exactly that is excluded by `KeySafe`: when no key component contains the separator (all tuples of one
    arity) the string-keyed clean-up of Delete keeps exactly the un-named records … -/
theorem C12_composite_key_cleanup_partial (n : Nat) (field nmd : List (List (List Char)))
    (hf : ∀ e ∈ field, KeySafe e ∧ e.length = n) (hn : ∀ e ∈ nmd, KeySafe e ∧ e.length = n) :
    keepByKey field nmd = keepByTuple field nmd := by
  unfold keepByKey keepByTuple
  apply List.filter_congr
  intro e he
  have ⟨hs, hl⟩ := hf e he
  by_cases h : e ∈ nmd
  · have : joinKey e ∈ nmd.map joinKey := List.mem_map.2 ⟨e, h, rfl⟩
    simp [h, this]
  · have : joinKey e ∉ nmd.map joinKey := by
      intro hm
      obtain ⟨d, hd, hj⟩ := List.mem_map.1 hm
      have ⟨hs', hl'⟩ := hn d hd
      exact h (by rw [← joinKey_injective d e (by omega) hs' hs hj]; exact hd)
    simp [h, this]

/-- … and the upsert of Append creates one record per distinct key tuple. -/
theorem C12_composite_key_distinct_partial (n : Nat) (elems : List (List (List Char))) (seen : List (List (List Char)))
    (he : ∀ e ∈ elems, KeySafe e ∧ e.length = n) (hs : ∀ e ∈ seen, KeySafe e ∧ e.length = n) :
    distinctByKey elems (seen.map joinKey) = distinctByTuple elems seen := by
  induction elems generalizing seen with
  | nil => rfl
  | cons e es ih =>
    have ⟨hse, hle⟩ := he e (by simp)
    have hes : ∀ x ∈ es, KeySafe x ∧ x.length = n := fun x hx => he x (List.mem_cons_of_mem _ hx)
    have hiff : joinKey e ∈ seen.map joinKey ↔ e ∈ seen := by
      constructor
      · intro hm
        obtain ⟨d, hd, hj⟩ := List.mem_map.1 hm
        have ⟨hs', hl'⟩ := hs d hd
        rw [← joinKey_injective d e (by omega) hs' hse hj]; exact hd
      · intro hm; exact List.mem_map.2 ⟨e, hm, rfl⟩
    by_cases h : e ∈ seen
    · simp only [distinctByKey, distinctByTuple, hiff.2 h, h, if_true]
      exact ih seen hes hs
    · have h' : joinKey e ∉ seen.map joinKey := fun hm => h (hiff.1 hm)
      simp only [distinctByKey, distinctByTuple, h', h, if_false]
      congr 1
      have := ih (e :: seen) hes (by
        intro x hx
        rcases List.mem_cons.1 hx with rfl | hx
        · exact ⟨hse, hle⟩
        · exact hs x hx)
      simpa using this

/-- non-vacuity of the composite-key hypotheses -/
example : ∀ e ∈ [["ab".toList, "c".toList], ["a".toList, "bc".toList]], KeySafe e ∧ e.length = 2 := by
  intro e he
  simp at he
  rcases he with rfl | rfl <;> refine ⟨?_, rfl⟩ <;> intro p hp <;> simp at hp <;> rcases hp with rfl | rfl <;> decide

end Gorm
