/-
  Lemmas.TxForms — write forms on the statement pool touch only the working store of the open transaction; hence the
  all-or-nothing / nested-locality theorems of Model.Tx hold for EVERY write form; with a call site on the configured pool
  they do not (counterexample).
-/
import GormModel.Model.TxForms
import GormModel.Lemmas.Tx
namespace Gorm.Tx

/-- FRAME of write forms on the statement pool: whatever finisher forms a function body issues through a transaction
    handle — any number of statements each, multi-row statements, failing statements, any oracle — the committed store,
    the leak ghost and the ROLLBACK-TO-fault ghost are untouched, an open transaction stays open with its save-point stack
    unchanged (only its working store moves), and no transaction appears from nothing. -/
theorem runForms_stmt_frame (sel : Nat → PoolSel) (o : Oracle) (h : Handle) (fs : List FormOp)
    (hsel : ∀ s ∈ sitesOf fs, sel s = .stmt) (db : DB) :
    (runForms sel o h fs db).1.committed = db.committed ∧
    (runForms sel o h fs db).1.leaked = db.leaked ∧
    (runForms sel o h fs db).1.rbFault = db.rbFault ∧
    (runForms sel o h fs db).1.rbFaultable = db.rbFaultable ∧
    (∀ t, db.tx = some t → ∃ cur, (runForms sel o h fs db).1.tx = some { cur := cur, saves := t.saves }) ∧
    (db.tx = none → (runForms sel o h fs db).1.tx = none) := by
  sorry

/-- ALL OR NOTHING for a top-level Transaction block whose function issues ANY write forms, every call site of which names
    the statement pool: no transaction left open; a result other than nil leaves the committed store exactly as it was; nil
    means the function returned nil and the committed store is exactly the working store the forms left. -/
theorem form_block_all_or_nothing (sel : Nat → PoolSel) (c : Cfg) (o : Oracle) (fs : List FormOp) (out : Out) (tag : Nat) (db : DB)
    (hsel : ∀ s ∈ sitesOf fs, sel s = .stmt) (hd : db.tx = none)
    (hs : (formBlock sel c o fs out tag db).1.stale = false) :
    (formBlock sel c o fs out tag db).1.tx = none ∧
    ((formBlock sel c o fs out tag db).2 ≠ .ok → (formBlock sel c o fs out tag db).1.committed = db.committed) ∧
    ((formBlock sel c o fs out tag db).2 = .ok →
        out = .retNil ∧
        ∃ t, (runForms sel o (gormBegin c.beginGuard o c.root db).2 fs (gormBegin c.beginGuard o c.root db).1).1.tx = some t ∧
             (formBlock sel c o fs out tag db).1.committed = t.cur) := by
  sorry

/-- NESTED LOCALITY for write forms: a nested block on a clean transaction handle whose SAVEPOINT is not failed, in an
    environment that never fails ROLLBACK TO, and which does not return nil: the working store is exactly the entry store
    `v`, the stack is the entry stack plus the block's own save point, nothing reached the committed store. -/
theorem form_nested_local (sel : Nat → PoolSel) (o : Oracle) (h : Handle) (he : h.err = []) (db : DB) (v : Store)
    (S : List (SpName × Store)) (ht : db.tx = some { cur := v, saves := S })
    (fs : List FormOp) (out : Out) (tag : Nat) (hsel : ∀ s ∈ sitesOf fs, sel s = .stmt)
    (hsp : o db.calls = false) (hrf : db.rbFaultable = false)
    (hr : (formNested sel o h fs out tag db).2.2 ≠ .ok) :
    (formNested sel o h fs out tag db).1.tx = some { cur := v, saves := (SpName.auto db.calls, v) :: S } ∧
    (formNested sel o h fs out tag db).1.committed = db.committed := by
  sorry

/-- the hypothesis is needed: ONE call site on the configured pool and a block that returns an error leaves its row durable -/
theorem form_cfg_pool_counterexample :
    (formBlock (fun _ => PoolSel.cfg) { prep := false, dis := false, skip := false } (fun _ => false)
        [{ stmts := [.exec [.ins 1] 0], must := true }] .retErr 7 { committed := [] }).2 = .err [.user 7] ∧
    (formBlock (fun _ => PoolSel.cfg) { prep := false, dis := false, skip := false } (fun _ => false)
        [{ stmts := [.exec [.ins 1] 0], must := true }] .retErr 7 { committed := [] }).1.committed = [1] ∧
    (formBlock (fun _ => PoolSel.stmt) { prep := false, dis := false, skip := false } (fun _ => false)
        [{ stmts := [.exec [.ins 1] 0], must := true }] .retErr 7 { committed := [] }).1.committed = [] := by
  sorry

/-- REGENERATED FACT: every statement-sending call site of the tree names the statement pool -/
theorem sites_all_stmt_pool : Gen.c04bCallSites.all (fun s => s.2.2.2 == 0) = true := by
  sorry

theorem siteSel_stmt (i : Nat) (hi : i < Gen.c04bCallSites.length) : siteSel i = .stmt := by
  sorry

/-- … the table is not vacuous: each statement-sending pipeline function has a site in it -/
theorem sites_cover_pipelines :
    ["Create", "Update", "Delete", "Query", "RawExec", "RowQuery"].all
      (fun f => Gen.c04bCallSites.any (fun s => s.2.1 == f)) = true := by
  sorry

/-- … and the configured pool is mentioned nowhere else in the pipelines / finishers, except where the implicit
    per-statement transaction puts the statement back on it -/
theorem cfg_pool_mentions_only_restore :
    Gen.c04bCfgPoolMentions.all
      (fun m => m.1 == "callbacks/transaction.go" && m.2.1 == "CommitOrRollbackTransaction" && m.2.2 == "assign-to-stmt-pool") = true ∧
    Gen.c04bCfgPoolMentions.length ≤ 1 := by
  sorry

/-- expansion of must-forms into Model.Tx programs -/
def expandForms : List FormOp → List Prog
  | [] => []
  | f :: fs => f.stmts.map FStmt.toProg ++ expandForms fs

/-- BRIDGE: single-row must-forms on the statement pool ARE sequences of Model.Tx writes / reads on the transaction handle:
    everything proved about `runBody` (C04_refines, C04_savepoint_stack, …) speaks about them -/
theorem runForms_eq_runBody (sel : Nat → PoolSel) (c : Cfg) (o : Oracle) (h : Handle)
    (hp : h.pool.isCommitter = true) (fs : List FormOp)
    (hsel : ∀ s ∈ sitesOf fs, sel s = .stmt) (hsr : ∀ f ∈ fs, f.must = true ∧ singleRow f.stmts = true) (db : DB) :
    (runForms sel o h fs db).1 = (runBody c o h (expandForms fs) db).1 ∧
    (runForms sel o h fs db).2 = (runBody c o h (expandForms fs) db).2.2 := by
  sorry

end Gorm.Tx
