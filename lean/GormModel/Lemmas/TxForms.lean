/-
  Lemmas.TxForms — write forms on the statement pool touch only the working store of the open transaction; hence the
  all-or-nothing / nested-locality theorems of Model.Tx hold for EVERY write form; with a call site on the configured pool
  they do not (counterexample).
-/
import GormModel.Model.TxForms
import GormModel.Lemmas.Tx
namespace Gorm.Tx

/-! ### the frame of write forms on the statement pool -/

def SFrame (db db' : DB) : Prop :=
  db'.committed = db.committed ∧ db'.leaked = db.leaked ∧ db'.rbFault = db.rbFault ∧
  db'.rbFaultable = db.rbFaultable ∧
  (∀ t, db.tx = some t → ∃ cur, db'.tx = some { cur := cur, saves := t.saves }) ∧
  (db.tx = none → db'.tx = none)

theorem SFrame.refl (db : DB) : SFrame db db :=
  ⟨rfl, rfl, rfl, rfl, fun t ht => ⟨t.cur, by rw [ht]⟩, id⟩

theorem SFrame.trans {a b c : DB} (h1 : SFrame a b) (h2 : SFrame b c) : SFrame a c := by
  obtain ⟨a1, a2, a3, a4, a5, a6⟩ := h1
  obtain ⟨b1, b2, b3, b4, b5, b6⟩ := h2
  refine ⟨b1.trans a1, b2.trans a2, b3.trans a3, b4.trans a4, fun t ht => ?_, fun hn => b6 (a6 hn)⟩
  obtain ⟨cur, hc⟩ := a5 t ht
  obtain ⟨cur2, hc2⟩ := b5 _ hc
  exact ⟨cur2, hc2⟩

theorem markStale_sframe (h : Handle) (db : DB) : SFrame db (markStale h db) := by
  unfold markStale; split
  · exact SFrame.refl db
  · exact ⟨rfl, rfl, rfl, rfl, fun t ht => ⟨t.cur, by simp [ht]⟩, id⟩

theorem drvExecsTx_sframe (o : Oracle) (ws : List Write) (db : DB) : SFrame db (drvExecsTx o ws db).1 := by
  unfold drvExecsTx tick
  split
  · exact SFrame.refl db
  · rename_i t ht
    dsimp only
    split
    · exact ⟨rfl, rfl, rfl, rfl, fun t' ht' => ⟨t.cur, by simp_all⟩, fun hn => by simp_all⟩
    · split
      · exact ⟨rfl, rfl, rfl, rfl, fun t' ht' => ⟨_, by simp_all; rfl⟩, fun hn => by simp_all⟩
      · exact ⟨rfl, rfl, rfl, rfl, fun t' ht' => ⟨t.cur, by simp_all⟩, fun hn => by simp_all⟩

theorem drvQueryTx_sframe (o : Oracle) (cond : List Nat) (db : DB) : SFrame db (drvQueryTx o cond db).1 := by
  unfold drvQueryTx tick
  split
  · exact SFrame.refl db
  · rename_i t ht
    dsimp only
    split <;> exact ⟨rfl, rfl, rfl, rfl, fun t' ht' => ⟨t.cur, by simp_all⟩, fun hn => by simp_all⟩

theorem runFStmt_sframe (sel : Nat → PoolSel) (o : Oracle) (h : Handle) (s : FStmt) (hs : sel s.site = .stmt) (db : DB) :
    SFrame db (runFStmt sel o h s db).1 := by
  cases s with
  | exec ws k =>
    simp only [FStmt.site] at hs
    simp only [runFStmt, hs]
    exact drvExecsTx_sframe o _ db
  | query k =>
    simp only [FStmt.site] at hs
    simp only [runFStmt, hs]
    exact drvQueryTx_sframe o _ db

theorem runForm_sframe (sel : Nat → PoolSel) (o : Oracle) (h : Handle) :
    ∀ (ss : List FStmt), (∀ s ∈ sitesOfForm ss, sel s = .stmt) → ∀ db : DB, SFrame db (runForm sel o h ss db).1
  | [], _, db => by unfold runForm; exact SFrame.refl db
  | s :: ss, hsel, db => by
    have h1 := runFStmt_sframe sel o h s (hsel _ (by simp [sitesOfForm])) db
    unfold runForm
    generalize runFStmt sel o h s db = r at h1
    obtain ⟨db1, e⟩ := r
    dsimp only at h1 ⊢
    split
    · exact h1
    · exact h1.trans (runForm_sframe sel o h ss (fun x hx => hsel x (by simp [sitesOfForm, hx])) db1)

theorem runFormOp_sframe (sel : Nat → PoolSel) (o : Oracle) (h : Handle) (f : FormOp)
    (hsel : ∀ s ∈ sitesOfForm f.stmts, sel s = .stmt) (db : DB) : SFrame db (runFormOp sel o h f db).1 := by
  unfold runFormOp; split
  · exact SFrame.refl db
  · exact runForm_sframe sel o h _ hsel db

theorem runForms_sframe (sel : Nat → PoolSel) (o : Oracle) (h : Handle) :
    ∀ (fs : List FormOp), (∀ s ∈ sitesOf fs, sel s = .stmt) → ∀ db : DB, SFrame db (runForms sel o h fs db).1
  | [], _, db => by unfold runForms; exact SFrame.refl db
  | f :: fs, hsel, db => by
    have h1 := (markStale_sframe h db).trans
      (runFormOp_sframe sel o h f (fun x hx => hsel x (by simp [sitesOf, hx])) (markStale h db))
    unfold runForms
    generalize runFormOp sel o h f (markStale h db) = r at h1
    obtain ⟨db1, e⟩ := r
    dsimp only at h1 ⊢
    split
    · exact h1
    · exact h1.trans (runForms_sframe sel o h fs (fun x hx => hsel x (by simp [sitesOf, hx])) db1)

/-- FRAME of write forms on the statement pool: whatever finisher forms a function body issues through a transaction
    handle — any number of statements each, multi-row statements, failing statements, any oracle — the committed store,
    the leak ghost and the ROLLBACK-TO-fault ghost are untouched, an open transaction stays open with its save-point stack
    unchanged (only its working store moves), and no transaction appears from nothing. -/
theorem runForms_stmt_frame (sel : Nat → PoolSel) (o : Oracle) (h : Handle) (fs : List FormOp)
    (hsel : ∀ s ∈ sitesOf fs, sel s = .stmt) (db : DB) :
    (runForms sel o h fs db).1.committed = db.committed ∧
    (runForms sel o h fs db).1.leaked = db.leaked ∧
    (runForms sel o h fs db).1.rbFault = db.rbFault ∧
    (runForms sel o h fs db).1.rbFaultable = db.rbFaultable ∧
    (∀ t, db.tx = some t → ∃ cur, (runForms sel o h fs db).1.tx = some { cur := cur, saves := t.saves }) ∧
    (db.tx = none → (runForms sel o h fs db).1.tx = none) :=
  runForms_sframe sel o h fs hsel db

theorem formBlock_eq (sel : Nat → PoolSel) (c : Cfg) (o : Oracle) (fs : List FormOp) (out : Out) (tag : Nat) (db : DB) :
    formBlock sel c o fs out tag db =
      if (gormBegin c.beginGuard o c.root db).2.err ≠ [] then
        ((gormBegin c.beginGuard o c.root db).1, .err (gormBegin c.beginGuard o c.root db).2.err)
      else
        ((finishRoot o c.root out tag ((runForms sel o (gormBegin c.beginGuard o c.root db).2 fs (gormBegin c.beginGuard o c.root db).1).1,
            (gormBegin c.beginGuard o c.root db).2,
            (runForms sel o (gormBegin c.beginGuard o c.root db).2 fs (gormBegin c.beginGuard o c.root db).1).2)).1,
         (finishRoot o c.root out tag ((runForms sel o (gormBegin c.beginGuard o c.root db).2 fs (gormBegin c.beginGuard o c.root db).1).1,
            (gormBegin c.beginGuard o c.root db).2,
            (runForms sel o (gormBegin c.beginGuard o c.root db).2 fs (gormBegin c.beginGuard o c.root db).1).2)).2.2) := by
  unfold formBlock
  rfl

/-- ALL OR NOTHING for a top-level Transaction block whose function issues ANY write forms, every call site of which names
    the statement pool: no transaction left open; a result other than nil leaves the committed store exactly as it was; nil
    means the function returned nil and the committed store is exactly the working store the forms left. -/
theorem form_block_all_or_nothing (sel : Nat → PoolSel) (c : Cfg) (o : Oracle) (fs : List FormOp) (out : Out) (tag : Nat) (db : DB)
    (hsel : ∀ s ∈ sitesOf fs, sel s = .stmt) (hd : db.tx = none)
    (hs : (formBlock sel c o fs out tag db).1.stale = false) :
    (formBlock sel c o fs out tag db).1.tx = none ∧
    ((formBlock sel c o fs out tag db).2 ≠ .ok → (formBlock sel c o fs out tag db).1.committed = db.committed) ∧
    ((formBlock sel c o fs out tag db).2 = .ok →
        out = .retNil ∧
        ∃ t, (runForms sel o (gormBegin c.beginGuard o c.root db).2 fs (gormBegin c.beginGuard o c.root db).1).1.tx = some t ∧
             (formBlock sel c o fs out tag db).1.committed = t.cur) := by
  have hroot : c.root.pool.isCommitter = false := by
    unfold Cfg.root; cases c.prep <;> rfl
  have herr : c.root.err = [] := rfl
  have hb := gormBegin_root c.beginGuard o c.root db hroot herr
  rw [formBlock_eq] at hs ⊢
  by_cases hbe : (gormBegin c.beginGuard o c.root db).2.err ≠ []
  · rw [if_pos hbe]
    exact ⟨by rw [hb.2.2 hbe]; exact hd, fun _ => hb.2.1, fun h => by simp at h⟩
  · rw [if_neg hbe] at hs ⊢
    have hfr := runForms_stmt_frame sel o (gormBegin c.beginGuard o c.root db).2 fs hsel (gormBegin c.beginGuard o c.root db).1
    have hdur := finishRoot_durability o c.root out tag _ _ _ hb.1 hs
    have htx := finishRoot_tx o c.root out tag
      ((runForms sel o (gormBegin c.beginGuard o c.root db).2 fs (gormBegin c.beginGuard o c.root db).1).1,
        (gormBegin c.beginGuard o c.root db).2,
        (runForms sel o (gormBegin c.beginGuard o c.root db).2 fs (gormBegin c.beginGuard o c.root db).1).2) hb.1
    refine ⟨htx.1, fun hne => (hdur.1 hne).trans (hfr.1.trans hb.2.1), fun hok => ?_⟩
    obtain ⟨_, h2, t, ht, hc⟩ := hdur.2 hok
    exact ⟨h2, t, ht, hc⟩


theorem fnEnd_rbFaultable (h : Handle) (r : Res) (out : Out) (tag : Nat) (db : DB) :
    (fnEnd h r out tag db).1.rbFaultable = db.rbFaultable := by
  unfold fnEnd markStale; split
  · dsimp only; split
    · split <;> rfl
    · rfl
  · rfl

theorem gormSavePoint_clean_f (o : Oracle) (h : Handle) (he : h.err = []) (name : SpName) (db : DB) (v : Store)
    (S : List (SpName × Store)) (ht : db.tx = some { cur := v, saves := S }) (hsp : o db.calls = false) :
    (gormSavePoint o h name db).1.tx = some { cur := v, saves := (name, v) :: S } ∧
    (gormSavePoint o h name db).1.committed = db.committed ∧
    (gormSavePoint o h name db).1.rbFaultable = db.rbFaultable ∧
    (gormSavePoint o h name db).2.err = [] := by
  unfold gormSavePoint execRawTx drvSavepoint tick
  simp [ht, hsp, he, spErr_nil]

theorem gormRollbackTo_clean_f (o : Oracle) (h : Handle) (he : h.err = []) (name : SpName) (db : DB) (v cur : Store)
    (S : List (SpName × Store)) (ht : db.tx = some { cur := cur, saves := (name, v) :: S }) (hrf : db.rbFaultable = false) :
    (gormRollbackTo o h name db).1.tx = some { cur := v, saves := (name, v) :: S } ∧
    (gormRollbackTo o h name db).1.committed = db.committed := by
  unfold gormRollbackTo execRawTx drvRollbackTo tick
  simp [ht, hrf, he, findSp]

theorem formNested_eq (sel : Nat → PoolSel) (o : Oracle) (h : Handle) (fs : List FormOp) (out : Out) (tag : Nat) (db : DB) :
    formNested sel o h fs out tag db =
      if (gormSavePoint o h (SpName.auto db.calls) db).2.err ≠ [] then
        ((gormSavePoint o h (SpName.auto db.calls) db).1, (gormSavePoint o h (SpName.auto db.calls) db).2,
          .err (gormSavePoint o h (SpName.auto db.calls) db).2.err)
      else
        finishNested o (gormSavePoint o h (SpName.auto db.calls) db).2 (SpName.auto db.calls) out tag
          ((runForms sel o (nestH (gormSavePoint o h (SpName.auto db.calls) db).2) fs (gormSavePoint o h (SpName.auto db.calls) db).1).1,
           nestH (gormSavePoint o h (SpName.auto db.calls) db).2,
           (runForms sel o (nestH (gormSavePoint o h (SpName.auto db.calls) db).2) fs (gormSavePoint o h (SpName.auto db.calls) db).1).2) := by
  unfold formNested
  rfl

/-- NESTED LOCALITY for write forms: a nested block on a clean transaction handle whose SAVEPOINT is not failed, in an
    environment that never fails ROLLBACK TO, and which does not return nil: the working store is exactly the entry store
    `v`, the stack is the entry stack plus the block's own save point, nothing reached the committed store. -/
theorem form_nested_local (sel : Nat → PoolSel) (o : Oracle) (h : Handle) (he : h.err = []) (db : DB) (v : Store)
    (S : List (SpName × Store)) (ht : db.tx = some { cur := v, saves := S })
    (fs : List FormOp) (out : Out) (tag : Nat) (hsel : ∀ s ∈ sitesOf fs, sel s = .stmt)
    (hsp : o db.calls = false) (hrf : db.rbFaultable = false)
    (hr : (formNested sel o h fs out tag db).2.2 ≠ .ok) :
    (formNested sel o h fs out tag db).1.tx = some { cur := v, saves := (SpName.auto db.calls, v) :: S } ∧
    (formNested sel o h fs out tag db).1.committed = db.committed := by
  obtain ⟨s1, s2, s3, s4⟩ := gormSavePoint_clean_f o h he (SpName.auto db.calls) db v S ht hsp
  rw [formNested_eq] at hr ⊢
  rw [if_neg (by simp [s4])] at hr ⊢
  have hfr := runForms_stmt_frame sel o (nestH (gormSavePoint o h (SpName.auto db.calls) db).2) fs hsel
    (gormSavePoint o h (SpName.auto db.calls) db).1
  generalize runForms sel o (nestH (gormSavePoint o h (SpName.auto db.calls) db).2) fs (gormSavePoint o h (SpName.auto db.calls) db).1 = rf at hfr hr ⊢
  obtain ⟨db1, r⟩ := rf
  obtain ⟨f1, _, _, f4, f5, _⟩ := hfr
  obtain ⟨cur, hcur⟩ := f5 _ s1
  dsimp only at f1 f4 hcur hr ⊢
  revert hr
  unfold finishNested
  dsimp only
  have e1 : (fnEnd (nestH (gormSavePoint o h (SpName.auto db.calls) db).2) r out tag db1).1.tx = db1.tx := by simp
  have e2 : (fnEnd (nestH (gormSavePoint o h (SpName.auto db.calls) db).2) r out tag db1).1.committed = db1.committed := by simp
  have e3 := fnEnd_rbFaultable (nestH (gormSavePoint o h (SpName.auto db.calls) db).2) r out tag db1
  generalize fnEnd (nestH (gormSavePoint o h (SpName.auto db.calls) db).2) r out tag db1 = fe at e1 e2 e3
  obtain ⟨db2, r2⟩ := fe
  dsimp only at e1 e2 e3 ⊢
  split
  · intro hr; exact absurd rfl hr
  · intro _
    have hrb := gormRollbackTo_clean_f o (gormSavePoint o h (SpName.auto db.calls) db).2 s4 (SpName.auto db.calls) db2 v cur S
      (by rw [e1]; exact hcur) (by rw [e3, f4, s3]; exact hrf)
    exact ⟨hrb.1, by rw [hrb.2, e2, f1, s2]⟩


/-! ### the counterexample and the regenerated call-site table -/

/-- the hypothesis is needed: ONE call site on the configured pool and a block that returns an error leaves its row durable -/
theorem form_cfg_pool_counterexample :
    (formBlock (fun _ => PoolSel.cfg) { prep := false, dis := false, skip := false } (fun _ => false)
        [{ stmts := [.exec [.ins 1] 0], must := true }] .retErr 7 { committed := [] }).2 = .err [.user 7] ∧
    (formBlock (fun _ => PoolSel.cfg) { prep := false, dis := false, skip := false } (fun _ => false)
        [{ stmts := [.exec [.ins 1] 0], must := true }] .retErr 7 { committed := [] }).1.committed = [1] ∧
    (formBlock (fun _ => PoolSel.stmt) { prep := false, dis := false, skip := false } (fun _ => false)
        [{ stmts := [.exec [.ins 1] 0], must := true }] .retErr 7 { committed := [] }).1.committed = [] := by
  decide +kernel

/-- REGENERATED FACT: every statement-sending call site of the tree names the statement pool -/
theorem sites_all_stmt_pool : Gen.c04bCallSites.all (fun s => s.2.2.2 == 0) = true := by
  decide

/-- … the table is not vacuous: each statement-sending pipeline function has a site in it -/
theorem sites_cover_pipelines :
    ["Create", "Update", "Delete", "Query", "RawExec", "RowQuery"].all
      (fun f => Gen.c04bCallSites.any (fun s => s.2.1 == f)) = true := by
  decide +kernel

/-- … and the configured pool is mentioned nowhere else in the pipelines / finishers, except where the implicit
    per-statement transaction puts the statement back on it -/
theorem cfg_pool_mentions_only_restore :
    Gen.c04bCfgPoolMentions.all
      (fun m => m.1 == "callbacks/transaction.go" && m.2.1 == "CommitOrRollbackTransaction" && m.2.2 == "assign-to-stmt-pool") = true ∧
    Gen.c04bCfgPoolMentions.length ≤ 1 := by
  decide +kernel

theorem siteSel_stmt (i : Nat) (hi : i < Gen.c04bCallSites.length) : siteSel i = .stmt := by
  have h := sites_all_stmt_pool
  rw [List.all_eq_true] at h
  have hm := h _ (List.getElem_mem hi)
  unfold siteSel
  rw [List.getElem?_eq_getElem hi]
  generalize Gen.c04bCallSites[i] = e at hm
  obtain ⟨f, g, m, k⟩ := e
  simp at hm
  subst hm
  rfl

/-! ### bridge to Model.Tx programs -/

/-- expansion of must-forms into Model.Tx programs -/
def expandForms : List FormOp → List Prog
  | [] => []
  | f :: fs => f.stmts.map FStmt.toProg ++ expandForms fs

theorem drvExecsTx_single (o : Oracle) (w : Write) (db : DB) : drvExecsTx o [w] db = drvExecTx o w db := by
  unfold drvExecsTx drvExecTx
  cases db.tx with
  | none => rfl
  | some t =>
    dsimp only
    split
    · rfl
    · simp only [applyAll]
      cases w.apply t.cur <;> rfl

theorem runChild_write_tx (c : Cfg) (o : Oracle) (h : Handle) (hp : h.pool.isCommitter = true) (he : h.err = [])
    (w : Write) (m : Bool) (db : DB) :
    runChild c o h (.write w m) db =
      ((drvExecTx o (effWrite h.effCond w) db).1, h, resOf (drvExecTx o (effWrite h.effCond w) db).2) := by
  unfold runChild gormWrite
  simp [he, hp, markStale]

theorem runChild_read_tx (c : Cfg) (o : Oracle) (h : Handle) (hp : h.pool.isCommitter = true) (he : h.err = [])
    (m : Bool) (db : DB) :
    runChild c o h (.read m) db =
      ((drvQueryTx o h.effCond db).1, h, resOf (drvQueryTx o h.effCond db).2) := by
  unfold runChild gormQuery
  simp [he, hp, markStale]

theorem runChild_toProg (sel : Nat → PoolSel) (c : Cfg) (o : Oracle) (h : Handle) (hp : h.pool.isCommitter = true)
    (he : h.err = []) (s : FStmt) (hs : sel s.site = .stmt) (hsr : singleRow [s] = true) (db : DB) :
    runChild c o h s.toProg db = ((runFStmt sel o h s db).1, h, resOf (runFStmt sel o h s db).2) ∧ s.toProg.must = true := by
  cases s with
  | query k =>
    simp only [FStmt.site] at hs
    simp only [FStmt.toProg, runFStmt, hs, Prog.must]
    exact ⟨runChild_read_tx c o h hp he true db, trivial⟩
  | exec ws k =>
    simp only [FStmt.site] at hs
    match ws, hsr with
    | [w], _ =>
      simp only [FStmt.toProg, runFStmt, hs, Prog.must, List.map, drvExecsTx_single]
      exact ⟨runChild_write_tx c o h hp he w true db, trivial⟩
    | [], hsr => simp [singleRow] at hsr
    | _ :: _ :: _, hsr => simp [singleRow] at hsr

theorem singleRow_cons (s : FStmt) (ss : List FStmt) (h : singleRow (s :: ss) = true) :
    singleRow [s] = true ∧ singleRow ss = true := by
  cases s with
  | query k => simpa [singleRow] using h
  | exec ws k =>
    match ws, h with
    | [w], h => simpa [singleRow] using h
    | [], h => simp [singleRow] at h
    | _ :: _ :: _, h => simp [singleRow] at h

/-- the statements of one single-row form, expanded, in front of any continuation -/
theorem runBody_form (sel : Nat → PoolSel) (c : Cfg) (o : Oracle) (h : Handle) (hp : h.pool.isCommitter = true)
    (he : h.err = []) (rest : List Prog) :
    ∀ (ss : List FStmt), (∀ s ∈ sitesOfForm ss, sel s = .stmt) → singleRow ss = true → ∀ db : DB,
      runBody c o h (ss.map FStmt.toProg ++ rest) db =
        if (runForm sel o h ss db).2 ≠ [] then ((runForm sel o h ss db).1, h, .err (runForm sel o h ss db).2)
        else runBody c o h rest (runForm sel o h ss db).1
  | [], _, _, db => by simp [runForm]
  | s :: ss, hsel, hsr, db => by
    obtain ⟨hs1, hs2⟩ := singleRow_cons s ss hsr
    obtain ⟨hc, hm⟩ := runChild_toProg sel c o h hp he s (hsel _ (by simp [sitesOfForm])) hs1 db
    have ih := runBody_form sel c o h hp he rest ss (fun x hx => hsel x (by simp [sitesOfForm, hx])) hs2
    simp only [List.map_cons, List.cons_append]
    rw [runBody, hc, runForm]
    generalize runFStmt sel o h s db = r
    obtain ⟨db1, e⟩ := r
    dsimp only
    by_cases hne : e = []
    · subst hne
      simp only [resOf, if_true, ne_eq, not_true_eq_false, if_false]
      exact ih db1
    · simp [resOf, hne, hm]

theorem runForms_eq_runBody_aux (sel : Nat → PoolSel) (c : Cfg) (o : Oracle) (h : Handle)
    (hp : h.pool.isCommitter = true) (he : h.err = []) :
    ∀ (fs : List FormOp),
    (∀ s ∈ sitesOf fs, sel s = .stmt) → (∀ f ∈ fs, f.must = true ∧ singleRow f.stmts = true) → ∀ (db : DB),
    (runForms sel o h fs db).1 = (runBody c o h (expandForms fs) db).1 ∧
    (runForms sel o h fs db).2 = (runBody c o h (expandForms fs) db).2.2
  | [], _, _, db => by simp [runForms, expandForms, runBody]
  | f :: fs, hsel, hsr, db => by
    obtain ⟨hm, hs⟩ := hsr f (by simp)
    have ih := runForms_eq_runBody_aux sel c o h hp he fs (fun x hx => hsel x (by simp [sitesOf, hx]))
      (fun g hg => hsr g (by simp [hg]))
    rw [expandForms, runBody_form sel c o h hp he _ f.stmts (fun x hx => hsel x (by simp [sitesOf, hx])) hs db]
    rw [runForms]
    have hms : markStale h db = db := by simp [markStale, he]
    simp only [hms, runFormOp, he, ne_eq, not_true_eq_false, if_false, hm, and_true]
    generalize runForm sel o h f.stmts db = r
    obtain ⟨db1, e⟩ := r
    dsimp only
    by_cases hne : e = []
    · simp only [hne, not_true_eq_false, if_false]
      exact ih db1
    · simp [hne]


/-- BRIDGE: single-row must-forms on the statement pool, issued through a CLEAN transaction handle, ARE sequences of Model.Tx
    writes / reads on that handle: everything proved about `runBody` (C04_refines, C04_savepoint_stack, …) speaks about them.
    (`he`: with an error on the handle an EMPTY form still fails in `runForms` — the finisher returns the copied error — while its
    expansion has no statement at all.) -/
theorem runForms_eq_runBody (sel : Nat → PoolSel) (c : Cfg) (o : Oracle) (h : Handle)
    (hp : h.pool.isCommitter = true) (he : h.err = []) (fs : List FormOp)
    (hsel : ∀ s ∈ sitesOf fs, sel s = .stmt) (hsr : ∀ f ∈ fs, f.must = true ∧ singleRow f.stmts = true) (db : DB) :
    (runForms sel o h fs db).1 = (runBody c o h (expandForms fs) db).1 ∧
    (runForms sel o h fs db).2 = (runBody c o h (expandForms fs) db).2.2 :=
  runForms_eq_runBody_aux sel c o h hp he fs hsel hsr db

end Gorm.Tx
