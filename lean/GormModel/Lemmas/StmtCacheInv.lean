/-
  Invariants of the prepared-statement-cache LTS (Model/StmtCache.lean), each proved for one step and
  lifted to ARBITRARY schedules by induction (`run_inv`).
-/
import GormModel.Model.StmtCache
namespace Gorm.SC

/-! ### projections of the helper updates -/

@[simp] theorem setPc_nT (s : St) (t : Nat) (pc : Pc) : (setPc s t pc).nT = s.nT := rfl
@[simp] theorem setPc_nE (s : St) (t : Nat) (pc : Pc) : (setPc s t pc).nE = s.nE := rfl
@[simp] theorem setPc_nH (s : St) (t : Nat) (pc : Pc) : (setPc s t pc).nH = s.nH := rfl
@[simp] theorem setPc_entries (s : St) (t : Nat) (pc : Pc) : (setPc s t pc).entries = s.entries := rfl
@[simp] theorem setPc_handles (s : St) (t : Nat) (pc : Pc) : (setPc s t pc).handles = s.handles := rfl
@[simp] theorem setPc_maps (s : St) (t : Nat) (pc : Pc) : (setPc s t pc).maps = s.maps := rfl
@[simp] theorem setPc_views (s : St) (t : Nat) (pc : Pc) : (setPc s t pc).views = s.views := rfl
@[simp] theorem setPc_log (s : St) (t : Nat) (pc : Pc) : (setPc s t pc).log = s.log := rfl
@[simp] theorem setPc_pc_same (s : St) (t : Nat) (pc : Pc) : ((setPc s t pc).threads t).pc = pc := by
  simp [setPc]
@[simp] theorem setPc_op (s : St) (t t' : Nat) (pc : Pc) : ((setPc s t pc).threads t').op = (s.threads t').op := by
  simp only [setPc, upd_apply]; split <;> simp_all
theorem setPc_thr_other (s : St) (t t' : Nat) (pc : Pc) (h : t' ≠ t) : (setPc s t pc).threads t' = s.threads t' := by
  simp [setPc, h]

@[simp] theorem finish_nT (s : St) (t : Nat) (r : Res) : (finish s t r).nT = s.nT := by
  unfold finish; split <;> rfl
@[simp] theorem finish_nE (s : St) (t : Nat) (r : Res) : (finish s t r).nE = s.nE := by
  unfold finish; split <;> rfl
@[simp] theorem finish_nH (s : St) (t : Nat) (r : Res) : (finish s t r).nH = s.nH := by
  unfold finish; split <;> rfl
@[simp] theorem finish_entries (s : St) (t : Nat) (r : Res) : (finish s t r).entries = s.entries := by
  unfold finish; split <;> rfl
@[simp] theorem finish_maps (s : St) (t : Nat) (r : Res) : (finish s t r).maps = s.maps := by
  unfold finish; split <;> rfl
@[simp] theorem finish_views (s : St) (t : Nat) (r : Res) : (finish s t r).views = s.views := by
  unfold finish; split <;> rfl
@[simp] theorem finish_log (s : St) (t : Nat) (r : Res) : (finish s t r).log = s.log := by
  unfold finish; split <;> rfl
@[simp] theorem finish_threads (s : St) (t : Nat) (r : Res) : (finish s t r).threads = (setPc s t (.fin r)).threads := by
  unfold finish; split <;> rfl

@[simp] theorem delAt_nT (s : St) (v q o : Nat) : (delAt s v q o).nT = s.nT := by
  unfold delAt; split
  · rfl
  · split <;> rfl
@[simp] theorem delAt_nE (s : St) (v q o : Nat) : (delAt s v q o).nE = s.nE := by
  unfold delAt; split
  · rfl
  · split <;> rfl
@[simp] theorem delAt_nH (s : St) (v q o : Nat) : (delAt s v q o).nH = s.nH := by
  unfold delAt; split
  · rfl
  · split <;> rfl
@[simp] theorem delAt_entries (s : St) (v q o : Nat) : (delAt s v q o).entries = s.entries := by
  unfold delAt; split
  · rfl
  · split <;> rfl
@[simp] theorem delAt_handles (s : St) (v q o : Nat) : (delAt s v q o).handles = s.handles := by
  unfold delAt; split
  · rfl
  · split <;> rfl
@[simp] theorem delAt_threads (s : St) (v q o : Nat) : (delAt s v q o).threads = s.threads := by
  unfold delAt; split
  · rfl
  · split <;> rfl
@[simp] theorem delAt_views (s : St) (v q o : Nat) : (delAt s v q o).views = s.views := by
  unfold delAt; split
  · rfl
  · split <;> rfl

@[simp] theorem markAll_nT (s : St) (m : Nat) : (markAll s m).nT = s.nT := rfl
@[simp] theorem markAll_nE (s : St) (m : Nat) : (markAll s m).nE = s.nE := rfl
@[simp] theorem markAll_nH (s : St) (m : Nat) : (markAll s m).nH = s.nH := rfl
@[simp] theorem markAll_nM (s : St) (m : Nat) : (markAll s m).nM = s.nM := rfl
@[simp] theorem markAll_threads (s : St) (m : Nat) : (markAll s m).threads = s.threads := rfl
@[simp] theorem markAll_handles (s : St) (m : Nat) : (markAll s m).handles = s.handles := rfl
@[simp] theorem markAll_maps (s : St) (m : Nat) : (markAll s m).maps = s.maps := rfl
@[simp] theorem markAll_views (s : St) (m : Nat) : (markAll s m).views = s.views := rfl
@[simp] theorem markAll_log (s : St) (m : Nat) : (markAll s m).log = s.log := rfl
@[simp] theorem markAll_prepared (s : St) (m e : Nat) : ((markAll s m).entries e).prepared = (s.entries e).prepared := by
  simp only [markAll]; split <;> rfl
@[simp] theorem markAll_err (s : St) (m e : Nat) : ((markAll s m).entries e).err = (s.entries e).err := by
  simp only [markAll]; split <;> rfl
@[simp] theorem markAll_handle (s : St) (m e : Nat) : ((markAll s m).entries e).handle = (s.entries e).handle := by
  simp only [markAll]; split <;> rfl
@[simp] theorem markAll_tx (s : St) (m e : Nat) : ((markAll s m).entries e).tx = (s.entries e).tx := by
  simp only [markAll]; split <;> rfl
@[simp] theorem markAll_text (s : St) (m e : Nat) : ((markAll s m).entries e).text = (s.entries e).text := by
  simp only [markAll]; split <;> rfl

@[simp] theorem markView_nT (s : St) (v : Nat) : (markView s v).nT = s.nT := by unfold markView; split <;> rfl
@[simp] theorem markView_nE (s : St) (v : Nat) : (markView s v).nE = s.nE := by unfold markView; split <;> rfl
@[simp] theorem markView_nH (s : St) (v : Nat) : (markView s v).nH = s.nH := by unfold markView; split <;> rfl
@[simp] theorem markView_nM (s : St) (v : Nat) : (markView s v).nM = s.nM := by unfold markView; split <;> rfl
@[simp] theorem markView_threads (s : St) (v : Nat) : (markView s v).threads = s.threads := by unfold markView; split <;> rfl
@[simp] theorem markView_handles (s : St) (v : Nat) : (markView s v).handles = s.handles := by unfold markView; split <;> rfl
@[simp] theorem markView_maps (s : St) (v : Nat) : (markView s v).maps = s.maps := by unfold markView; split <;> rfl
@[simp] theorem markView_views (s : St) (v : Nat) : (markView s v).views = s.views := by unfold markView; split <;> rfl
@[simp] theorem markView_log (s : St) (v : Nat) : (markView s v).log = s.log := by unfold markView; split <;> rfl
@[simp] theorem markView_prepared (s : St) (v e : Nat) : ((markView s v).entries e).prepared = (s.entries e).prepared := by
  unfold markView; split <;> simp
@[simp] theorem markView_err (s : St) (v e : Nat) : ((markView s v).entries e).err = (s.entries e).err := by
  unfold markView; split <;> simp
@[simp] theorem markView_handle (s : St) (v e : Nat) : ((markView s v).entries e).handle = (s.entries e).handle := by
  unfold markView; split <;> simp
@[simp] theorem markView_tx (s : St) (v e : Nat) : ((markView s v).entries e).tx = (s.entries e).tx := by
  unfold markView; split <;> simp
@[simp] theorem markView_text (s : St) (v e : Nat) : ((markView s v).entries e).text = (s.entries e).text := by
  unfold markView; split <;> simp

/-! ### lifting a step invariant to arbitrary schedules -/

theorem run_inv (P : St → Prop) (hstep : ∀ s a s', P s → act s a = some s' → P s')
    (s : St) (sched : List Act) (h0 : P s) : P (run s sched) := by
  induction sched generalizing s with
  | nil => simpa [run] using h0
  | cons a rest ih =>
    simp only [run, List.foldl_cons]
    cases hact : act s a with
    | none => simpa [run] using ih s h0
    | some s' => simpa [run] using ih s' (hstep s a s' h0 hact)

/-! ### I1: every unprepared entry has a running owner (owners never wait) -/

/-- thread at `pc` is the preparer of entry `e` and has not yet closed `e.prepared` -/
def owns (pc : Pc) (e : Nat) : Prop :=
  match pc with
  | .preparing e' => e' = e
  | .storing e' _ => e' = e
  | .failing e' => e' = e
  | .closingOk e' _ => e' = e
  | .closingErr e' => e' = e
  | _ => False

def Own (s : St) : Prop :=
  ∀ e, e < s.nE → (s.entries e).prepared = false → ∃ t, t < s.nT ∧ owns (s.threads t).pc e

theorem own_of_frame (s s' : St) (t : Nat) (h : Own s)
    (hT : s'.nT = s.nT) (ht : t < s.nT)
    (hthr : ∀ t', t' ≠ t → (s'.threads t').pc = (s.threads t').pc)
    (hnew : ∀ e, e < s'.nE → (s'.entries e).prepared = false →
        (e < s.nE ∧ (s.entries e).prepared = false) ∨ owns (s'.threads t).pc e)
    (hkeep : ∀ e, owns (s.threads t).pc e → owns (s'.threads t).pc e ∨ (s'.entries e).prepared = true) :
    Own s' := by
  intro e he hp
  rcases hnew e he hp with ⟨he0, hp0⟩ | hown
  · obtain ⟨t0, ht0, ho⟩ := h e he0 hp0
    by_cases htt : t0 = t
    · subst htt
      rcases hkeep e ho with h1 | h1
      · exact ⟨t0, by omega, h1⟩
      · rw [h1] at hp; cases hp
    · exact ⟨t0, by omega, by rw [hthr t0 htt]; exact ho⟩
  · exact ⟨t, by omega, hown⟩

theorem stepUse_own (s s' : St) (t : Nat) (a : Ans) (v q : Nat) (tx : Bool) (ht : t < s.nT) (h : Own s)
    (hs : stepUse s t a v q tx (s.threads t).pc = some s') : Own s' := by
  cases hpc : (s.threads t).pc <;> rw [hpc] at hs <;> simp only [stepUse] at hs
  all_goals (repeat' split at hs)
  all_goals first
    | (cases hs; done)
    | (simp only [Option.some.injEq] at hs; subst hs
       apply own_of_frame s _ t h
       · simp [publish]
       · exact ht
       · intro t' ht'; simp [setPc_thr_other, ht', publish]
       · intro e he hp
         simp_all [upd_apply, owns, publish]
         all_goals (try split at hp) <;> (try simp_all) <;> (try omega)
       · intro e ho
         simp_all [owns])

theorem stepReset_own (s s' : St) (t v : Nat) (ht : t < s.nT) (h : Own s)
    (hs : stepReset s t v (s.threads t).pc = some s') : Own s' := by
  cases hpc : (s.threads t).pc <;> rw [hpc] at hs <;> simp only [stepReset] at hs
  all_goals first
    | (cases hs; done)
    | (simp only [Option.some.injEq] at hs; subst hs
       apply own_of_frame s _ t h
       · simp
       · exact ht
       · intro t' ht'; simp [setPc_thr_other, ht']
       · intro e he hp; simp_all [owns]
       · intro e ho; simp_all [owns])

theorem stepClose_own (s s' : St) (t v : Nat) (ht : t < s.nT) (h : Own s)
    (hs : stepClose s t v (s.threads t).pc = some s') : Own s' := by
  cases hpc : (s.threads t).pc <;> rw [hpc] at hs <;> simp only [stepClose] at hs
  all_goals first
    | (cases hs; done)
    | (simp only [Option.some.injEq] at hs; subst hs
       apply own_of_frame s _ t h
       · simp
       · exact ht
       · intro t' ht'; simp [setPc_thr_other, ht']
       · intro e he hp; simp_all [owns]
       · intro e ho; simp_all [owns])

theorem act_own (s : St) (a : Act) (s' : St) (h : Own s) (hs : act s a = some s') : Own s' := by
  cases a with
  | thr t an =>
    simp only [act] at hs
    split at hs
    · rename_i ht
      unfold tstep at hs
      split at hs
      · exact stepReset_own s s' t _ ht h hs
      · exact stepClose_own s s' t _ ht h hs
      · exact stepUse_own s s' t an _ _ _ ht h hs
    · cases hs
  | closeE e =>
    simp only [act] at hs
    split at hs
    · split at hs <;>
      · simp only [Option.some.injEq] at hs; subst hs
        intro e' he' hp'
        have : (s.entries e').prepared = false := by
          simp only [upd_apply] at hp'; split at hp' <;> simp_all
        exact h e' he' this
    · cases hs
  | closeH hh =>
    simp only [act] at hs
    split at hs
    · simp only [Option.some.injEq] at hs; subst hs
      exact h
    · cases hs

/-- I1 holds in every state reachable by ANY schedule -/
theorem own_reachable (ops : List Op) (nV : Nat) (sched : List Act) : Own (run (init ops nV) sched) := by
  apply run_inv Own act_own
  intro e he; simp [init] at he

/-! ### Reset/Close threads are either not started or finished -/

def OpPc (s : St) : Prop :=
  ∀ t, (∀ v, (s.threads t).op = .reset v ∨ (s.threads t).op = .close v →
    (s.threads t).pc = .init ∨ isFin s t = true)

theorem threads_frame (s s' : St) (a : Act) (hs : act s a = some s') :
    s'.nT = s.nT ∧ (∀ t, (s'.threads t).op = (s.threads t).op) ∧
    (∀ t, (s'.threads t).pc = (s.threads t).pc ∨
      (∃ an, a = .thr t an) ∧ ((∀ v, (s.threads t).op ≠ .reset v ∧ (s.threads t).op ≠ .close v) ∨ isFin s' t = true)) := by
  cases a with
  | thr t an =>
    simp only [act] at hs
    split at hs
    · unfold tstep at hs
      split at hs
      · rename_i v hop
        cases hpc : (s.threads t).pc <;> rw [hpc] at hs <;> simp only [stepReset] at hs
        all_goals first
          | (cases hs; done)
          | (simp only [Option.some.injEq] at hs; subst hs
             refine ⟨by simp, fun t' => by simp, fun t' => ?_⟩
             by_cases htt : t' = t
             · subst htt; right; exact ⟨⟨an, rfl⟩, Or.inr (by simp [isFin])⟩
             · left; simp [setPc_thr_other, htt])
      · rename_i v hop
        cases hpc : (s.threads t).pc <;> rw [hpc] at hs <;> simp only [stepClose] at hs
        all_goals first
          | (cases hs; done)
          | (simp only [Option.some.injEq] at hs; subst hs
             refine ⟨by simp, fun t' => by simp, fun t' => ?_⟩
             by_cases htt : t' = t
             · subst htt; right; exact ⟨⟨an, rfl⟩, Or.inr (by simp [isFin])⟩
             · left; simp [setPc_thr_other, htt])
      · rename_i v q tx hop
        cases hpc : (s.threads t).pc <;> rw [hpc] at hs <;> simp only [stepUse] at hs
        all_goals (repeat' split at hs)
        all_goals first
          | (cases hs; done)
          | (simp only [Option.some.injEq] at hs; subst hs
             refine ⟨by simp [publish], fun t' => by simp [publish], fun t' => ?_⟩
             by_cases htt : t' = t
             · subst htt; right; exact ⟨⟨_, rfl⟩, Or.inl (by simp [hop])⟩
             · left; simp [setPc_thr_other, htt, publish])
    · cases hs
  | closeE e =>
    simp only [act] at hs
    split at hs
    · split at hs <;>
      · simp only [Option.some.injEq] at hs; subst hs
        exact ⟨rfl, fun _ => rfl, fun _ => Or.inl rfl⟩
    · cases hs
  | closeH hh =>
    simp only [act] at hs
    split at hs
    · simp only [Option.some.injEq] at hs; subst hs
      exact ⟨rfl, fun _ => rfl, fun _ => Or.inl rfl⟩
    · cases hs

theorem act_opPc (s : St) (a : Act) (s' : St) (h : OpPc s) (hs : act s a = some s') : OpPc s' := by
  obtain ⟨_, hop, hpc⟩ := threads_frame s s' a hs
  intro t v hv
  rw [hop t] at hv
  rcases hpc t with h1 | ⟨_, h2 | h2⟩
  · rcases h t v hv with h3 | h3
    · left; rw [h1]; exact h3
    · right; simp only [isFin] at h3 ⊢; rw [h1]; exact h3
  · rcases hv with hv | hv
    · exact absurd hv (h2 v).1
    · exact absurd hv (h2 v).2
  · right; exact h2

theorem opPc_reachable (ops : List Op) (nV : Nat) (sched : List Act) : OpPc (run (init ops nV) sched) := by
  apply run_inv OpPc act_opPc
  intro t v _; left; simp [init]

/-- the enabledness half of deadlock freedom: a thread that is not finished and not enabled is a
    waiter on an unprepared entry -/
theorem blocked_is_waiter (s : St) (t : Nat) (ht : t < s.nT) (hw : OpPc s) (hf : isFin s t = false)
    (hb : ∀ a, act s (.thr t a) = none) :
    ∃ e, (s.threads t).pc = .waiting e ∧ (s.entries e).prepared = false := by
  have hb' := hb .ok
  simp only [act, ht, if_true, tstep] at hb'
  cases hop : (s.threads t).op with
  | reset v =>
    rw [hop] at hb'; simp only at hb'
    rcases hw t v (Or.inl hop) with h1 | h1
    · rw [h1] at hb'; simp [stepReset] at hb'
    · rw [h1] at hf; cases hf
  | close v =>
    rw [hop] at hb'; simp only at hb'
    rcases hw t v (Or.inr hop) with h1 | h1
    · rw [h1] at hb'; simp [stepClose] at hb'
    · rw [h1] at hf; cases hf
  | use v q tx =>
    rw [hop] at hb'; simp only at hb'
    cases hpc : (s.threads t).pc <;> rw [hpc] at hb' <;> simp only [stepUse] at hb'
    all_goals (repeat' split at hb')
    all_goals first
      | (cases hb'; done)
      | (simp [isFin, hpc] at hf; done)
      | simp_all

theorem delAt_maps_some (s : St) (v q o m q' e : Nat) (h : (delAt s v q o).maps m q' = some e) :
    s.maps m q' = some e := by
  unfold delAt at h
  split at h
  · exact h
  · split at h
    · exact h
    · rename_i m0 _ _ _ _
      by_cases hm : m = m0
      · subst hm
        by_cases hq : q' = q
        · subst hq; simp [upd] at h
        · simpa [upd, hq] using h
      · simpa [upd, hm] using h

theorem upd2_some (f : Nat → Nat → Option Nat) (m q x m' q' e : Nat)
    (h : upd f m (upd (f m) q (some x)) m' q' = some e) : f m' q' = some e ∨ e = x := by
  by_cases hm : m' = m
  · subst hm
    by_cases hq : q' = q
    · subst hq; simp [upd] at h; exact Or.inr h.symm
    · left; simpa [upd, hq] using h
  · left; simpa [upd, hm] using h

theorem pc_cases (s : St) (t t' : Nat) (pc : Pc) :
    ((setPc s t pc).threads t').pc = if t' = t then pc else (s.threads t').pc := by
  simp only [setPc, upd_apply]; split <;> rfl

/-- ids reachable through the maps / held by waiters were allocated -/
def Rng (s : St) : Prop :=
  (∀ m q e, s.maps m q = some e → e < s.nE) ∧
  (∀ t e, (s.threads t).pc = .waiting e → e < s.nE)

theorem stepUse_rng (s s' : St) (t : Nat) (a : Ans) (v q : Nat) (tx : Bool) (h : Rng s)
    (hs : stepUse s t a v q tx (s.threads t).pc = some s') : Rng s' := by
  obtain ⟨h1, h2⟩ := h
  cases hpc : (s.threads t).pc <;> rw [hpc] at hs <;> simp only [stepUse] at hs
  all_goals (repeat' split at hs)
  all_goals first
    | (cases hs; done)
    | (simp only [Option.some.injEq] at hs; subst hs
       refine ⟨?_, ?_⟩
       · intro m q' e' hm
         try simp [publish] at hm
         try simp [publish]
         first
           | exact h1 _ _ _ hm
           | exact h1 _ _ _ (delAt_maps_some _ _ _ _ _ _ _ hm)
           | (have hm' := delAt_maps_some _ _ _ _ _ _ _ hm; exact h1 _ _ _ hm')
           | (rcases upd2_some _ _ _ _ _ _ _ hm with hm' | hm'
              · have := h1 _ _ _ hm'; omega
              · omega)
       · intro t' e' hp
         try simp [pc_cases, publish] at hp
         try simp [publish]
         split at hp
         · first
             | (cases hp; done)
             | (simp only [Pc.waiting.injEq] at hp; subst hp; (try simp [publish]); apply h1; assumption)
         · have := h2 _ _ hp; (try simp [publish]); omega)


theorem stepRC_rng (s s' : St) (t v : Nat) (h : Rng s)
    (hs : stepReset s t v (s.threads t).pc = some s' ∨ stepClose s t v (s.threads t).pc = some s') : Rng s' := by
  obtain ⟨h1, h2⟩ := h
  cases hpc : (s.threads t).pc <;> rw [hpc] at hs <;> simp only [stepReset, stepClose] at hs
  all_goals first
    | (rcases hs with hs | hs <;> cases hs; done)
    | (rcases hs with hs | hs <;>
       · simp only [Option.some.injEq] at hs; subst hs
         refine ⟨?_, ?_⟩
         · intro m q' e' hm
           simp at hm; simp; exact h1 _ _ _ hm
         · intro t' e' hp
           simp [pc_cases] at hp
           split at hp
           · cases hp
           · simp; exact h2 _ _ hp)

theorem act_rng (s : St) (a : Act) (s' : St) (h : Rng s) (hs : act s a = some s') : Rng s' := by
  cases a with
  | thr t an =>
    simp only [act] at hs
    split at hs
    · unfold tstep at hs
      split at hs
      · exact stepRC_rng s s' t _ h (Or.inl hs)
      · exact stepRC_rng s s' t _ h (Or.inr hs)
      · exact stepUse_rng s s' t an _ _ _ h hs
    · cases hs
  | closeE e =>
    simp only [act] at hs
    split at hs
    · split at hs <;>
      · simp only [Option.some.injEq] at hs; subst hs
        exact h
    · cases hs
  | closeH hh =>
    simp only [act] at hs
    split at hs
    · simp only [Option.some.injEq] at hs; subst hs
      exact h
    · cases hs

theorem rng_reachable (ops : List Op) (nV : Nat) (sched : List Act) : Rng (run (init ops nV) sched) := by
  apply run_inv Rng act_rng
  constructor
  · intro m q e h; simp [init] at h
  · intro t e h; simp [init] at h

/-- ACCOUNTING: per map object (= cache generation) and text, every PrepareContext call is matched by an entry that
    is still in the map or by exactly one recorded removal -/
def Acct (s : St) : Prop :=
  ∀ m q, prepCount s m q = removedCount s m q + (if (s.maps m q).isSome then 1 else 0)

theorem acct_of_eq (s s' : St) (h : Acct s) (hl : s'.log = s.log) (hm : s'.maps = s.maps) : Acct s' := by
  intro m q
  have := h m q
  simp only [prepCount, removedCount, hl, hm] at this ⊢
  exact this

theorem acct_delAt (s : St) (v q o : Nat) (h : Acct s) : Acct (delAt s v q o) := by
  unfold delAt
  split
  · exact h
  · rename_i m0 _
    split
    · exact h
    · rename_i e' he'
      intro m q'
      have := h m q'
      simp only [prepCount, removedCount, List.countP_cons] at this ⊢
      by_cases hm : m = m0
      · subst hm
        by_cases hq : q' = q
        · subst hq
          simp [upd, he'] at this ⊢
          omega
        · simp [upd, hq, Ne.symm hq] at this ⊢
          omega
      · have hm' : ¬ m0 = m := fun h => hm h.symm
        simp [upd, hm, hm'] at this ⊢
        omega

theorem acct_publish (s : St) (t m q : Nat) (tx : Bool) (h : Acct s) : Acct (publish s t m q tx) := by
  intro m' q'
  have := h m' q'
  simp only [publish, setPc_log, setPc_maps, prepCount, removedCount] at this ⊢
  by_cases hm : m' = m
  · subst hm
    by_cases hq : q' = q
    · subst hq
      cases hmq : s.maps m' q' <;> simp [upd, hmq, List.countP_cons] at this ⊢ <;> omega
    · cases hmq : s.maps m' q <;> simp [upd, hq, Ne.symm hq, hmq, List.countP_cons] at this ⊢ <;> omega
  · have hm' : ¬ m = m' := fun h => hm h.symm
    cases hmq : s.maps m q <;> simp [upd, hm, hm', hmq, List.countP_cons] at this ⊢ <;> omega

theorem acct_setPc (s : St) (t : Nat) (pc : Pc) (h : Acct s) : Acct (setPc s t pc) :=
  acct_of_eq s _ h rfl rfl
theorem acct_finish (s : St) (t : Nat) (r : Res) (h : Acct s) : Acct (finish s t r) :=
  acct_of_eq s _ h (by simp) (by simp)

theorem act_acct (s : St) (a : Act) (s' : St) (h : Acct s) (hs : act s a = some s') : Acct s' := by
  cases a with
  | thr t an =>
    simp only [act] at hs
    split at hs
    · unfold tstep at hs
      split at hs
      · cases hpc : (s.threads t).pc <;> rw [hpc] at hs <;> simp only [stepReset] at hs
        all_goals first
          | (cases hs; done)
          | (simp only [Option.some.injEq] at hs; subst hs; exact acct_of_eq s _ h (by simp) (by simp))
      · cases hpc : (s.threads t).pc <;> rw [hpc] at hs <;> simp only [stepClose] at hs
        all_goals first
          | (cases hs; done)
          | (simp only [Option.some.injEq] at hs; subst hs; exact acct_of_eq s _ h (by simp) (by simp))
      · cases hpc : (s.threads t).pc <;> rw [hpc] at hs <;> simp only [stepUse] at hs
        all_goals (repeat' split at hs)
        all_goals first
          | (cases hs; done)
          | (simp only [Option.some.injEq] at hs; subst hs
             first
               | (refine acct_of_eq s _ h ?_ ?_ <;> (simp; done))
               | exact acct_publish s _ _ _ _ h
               | exact acct_setPc _ _ _ (acct_delAt _ _ _ _ h)
               | exact acct_finish _ _ _ (acct_delAt _ _ _ _ (acct_of_eq s _ h rfl rfl)))
    · cases hs
  | closeE e =>
    simp only [act] at hs
    split at hs
    · split at hs <;>
      · simp only [Option.some.injEq] at hs; subst hs
        exact acct_of_eq s _ h rfl rfl
    · cases hs
  | closeH hh =>
    simp only [act] at hs
    split at hs
    · simp only [Option.some.injEq] at hs; subst hs
      exact acct_of_eq s _ h rfl rfl
    · cases hs

theorem acct_reachable (ops : List Op) (nV : Nat) (sched : List Act) : Acct (run (init ops nV) sched) := by
  apply run_inv Acct act_acct
  intro m q; simp [init, prepCount, removedCount]

end Gorm.SC
