/-
  Invariants of the prepared-statement-cache LTS (Model/StmtCache.lean), each proved for one step and
  lifted to ARBITRARY schedules by induction (`run_inv`).
-/
import GormModel.Model.StmtCache
import GormModel.Lemmas.StmtCacheStep
namespace Gorm.SC

/-! ### projections of the helper updates -/

@[simp] theorem setPc_nT (s : St) (t : Nat) (pc : Pc) : (setPc s t pc).nT = s.nT := rfl
@[simp] theorem setPc_nE (s : St) (t : Nat) (pc : Pc) : (setPc s t pc).nE = s.nE := rfl
@[simp] theorem setPc_nH (s : St) (t : Nat) (pc : Pc) : (setPc s t pc).nH = s.nH := rfl
@[simp] theorem setPc_entries (s : St) (t : Nat) (pc : Pc) : (setPc s t pc).entries = s.entries := rfl
@[simp] theorem setPc_handles (s : St) (t : Nat) (pc : Pc) : (setPc s t pc).handles = s.handles := rfl
@[simp] theorem setPc_maps (s : St) (t : Nat) (pc : Pc) : (setPc s t pc).maps = s.maps := rfl
@[simp] theorem setPc_views (s : St) (t : Nat) (pc : Pc) : (setPc s t pc).views = s.views := rfl
@[simp] theorem setPc_log (s : St) (t : Nat) (pc : Pc) : (setPc s t pc).log = s.log := rfl
@[simp] theorem setPc_pc_same (s : St) (t : Nat) (pc : Pc) : ((setPc s t pc).threads t).pc = pc := by
  simp [setPc]
@[simp] theorem setPc_op (s : St) (t t' : Nat) (pc : Pc) : ((setPc s t pc).threads t').op = (s.threads t').op := by
  simp only [setPc, upd_apply]; split <;> simp_all
theorem setPc_thr_other (s : St) (t t' : Nat) (pc : Pc) (h : t' ≠ t) : (setPc s t pc).threads t' = s.threads t' := by
  simp [setPc, h]

@[simp] theorem setPc_cfg (s : St) (t : Nat) (pc : Pc) : (setPc s t pc).cfg = s.cfg := rfl
@[simp] theorem setPc_nV (s : St) (t : Nat) (pc : Pc) : (setPc s t pc).nV = s.nV := rfl
@[simp] theorem setPc_nM (s : St) (t : Nat) (pc : Pc) : (setPc s t pc).nM = s.nM := rfl
@[simp] theorem setPc_ent (s : St) (t t' : Nat) (pc : Pc) : ((setPc s t pc).threads t').ent = (s.threads t').ent := by
  simp only [setPc, upd_apply]; split <;> simp_all

@[simp] theorem setEnt_nT (s : St) (t e : Nat) : (setEnt s t e).nT = s.nT := rfl
@[simp] theorem setEnt_nE (s : St) (t e : Nat) : (setEnt s t e).nE = s.nE := rfl
@[simp] theorem setEnt_nH (s : St) (t e : Nat) : (setEnt s t e).nH = s.nH := rfl
@[simp] theorem setEnt_nV (s : St) (t e : Nat) : (setEnt s t e).nV = s.nV := rfl
@[simp] theorem setEnt_nM (s : St) (t e : Nat) : (setEnt s t e).nM = s.nM := rfl
@[simp] theorem setEnt_entries (s : St) (t e : Nat) : (setEnt s t e).entries = s.entries := rfl
@[simp] theorem setEnt_handles (s : St) (t e : Nat) : (setEnt s t e).handles = s.handles := rfl
@[simp] theorem setEnt_maps (s : St) (t e : Nat) : (setEnt s t e).maps = s.maps := rfl
@[simp] theorem setEnt_views (s : St) (t e : Nat) : (setEnt s t e).views = s.views := rfl
@[simp] theorem setEnt_log (s : St) (t e : Nat) : (setEnt s t e).log = s.log := rfl
@[simp] theorem setEnt_cfg (s : St) (t e : Nat) : (setEnt s t e).cfg = s.cfg := rfl
@[simp] theorem setEnt_pc (s : St) (t t' e : Nat) : ((setEnt s t e).threads t').pc = (s.threads t').pc := by
  simp only [setEnt, upd_apply]; split <;> simp_all
@[simp] theorem setEnt_op (s : St) (t t' e : Nat) : ((setEnt s t e).threads t').op = (s.threads t').op := by
  simp only [setEnt, upd_apply]; split <;> simp_all
@[simp] theorem setEnt_ent_same (s : St) (t e : Nat) : ((setEnt s t e).threads t).ent = some e := by
  simp [setEnt]
theorem setEnt_thr_other (s : St) (t t' e : Nat) (h : t' ≠ t) : (setEnt s t e).threads t' = s.threads t' := by
  simp [setEnt, h]

@[simp] theorem finish_cfg (s : St) (t : Nat) (r : Res) : (finish s t r).cfg = s.cfg := by
  unfold finish; split <;> rfl
@[simp] theorem finish_nV (s : St) (t : Nat) (r : Res) : (finish s t r).nV = s.nV := by
  unfold finish; split <;> rfl
@[simp] theorem finish_nM (s : St) (t : Nat) (r : Res) : (finish s t r).nM = s.nM := by
  unfold finish; split <;> rfl
@[simp] theorem finish_nT (s : St) (t : Nat) (r : Res) : (finish s t r).nT = s.nT := by
  unfold finish; split <;> rfl
@[simp] theorem finish_nE (s : St) (t : Nat) (r : Res) : (finish s t r).nE = s.nE := by
  unfold finish; split <;> rfl
@[simp] theorem finish_nH (s : St) (t : Nat) (r : Res) : (finish s t r).nH = s.nH := by
  unfold finish; split <;> rfl
@[simp] theorem finish_entries (s : St) (t : Nat) (r : Res) : (finish s t r).entries = s.entries := by
  unfold finish; split <;> rfl
@[simp] theorem finish_maps (s : St) (t : Nat) (r : Res) : (finish s t r).maps = s.maps := by
  unfold finish; split <;> rfl
@[simp] theorem finish_views (s : St) (t : Nat) (r : Res) : (finish s t r).views = s.views := by
  unfold finish; split <;> rfl
@[simp] theorem finish_log (s : St) (t : Nat) (r : Res) : (finish s t r).log = s.log := by
  unfold finish; split <;> rfl
@[simp] theorem finish_threads (s : St) (t : Nat) (r : Res) : (finish s t r).threads = (setPc s t (.fin r)).threads := by
  unfold finish; split <;> rfl

@[simp] theorem delAt_nT (s : St) (v q o : Nat) : (delAt s v q o).nT = s.nT := by
  unfold delAt; split
  · rfl
  · split <;> rfl
@[simp] theorem delAt_nE (s : St) (v q o : Nat) : (delAt s v q o).nE = s.nE := by
  unfold delAt; split
  · rfl
  · split <;> rfl
@[simp] theorem delAt_nH (s : St) (v q o : Nat) : (delAt s v q o).nH = s.nH := by
  unfold delAt; split
  · rfl
  · split <;> rfl
@[simp] theorem delAt_entries (s : St) (v q o : Nat) : (delAt s v q o).entries = s.entries := by
  unfold delAt; split
  · rfl
  · split <;> rfl
@[simp] theorem delAt_handles (s : St) (v q o : Nat) : (delAt s v q o).handles = s.handles := by
  unfold delAt; split
  · rfl
  · split <;> rfl
@[simp] theorem delAt_threads (s : St) (v q o : Nat) : (delAt s v q o).threads = s.threads := by
  unfold delAt; split
  · rfl
  · split <;> rfl
@[simp] theorem delAt_views (s : St) (v q o : Nat) : (delAt s v q o).views = s.views := by
  unfold delAt; split
  · rfl
  · split <;> rfl

@[simp] theorem delAt_cfg (s : St) (v q o : Nat) : (delAt s v q o).cfg = s.cfg := by
  unfold delAt; split
  · rfl
  · split <;> rfl
@[simp] theorem delAt_nV (s : St) (v q o : Nat) : (delAt s v q o).nV = s.nV := by
  unfold delAt; split
  · rfl
  · split <;> rfl
@[simp] theorem delAt_nM (s : St) (v q o : Nat) : (delAt s v q o).nM = s.nM := by
  unfold delAt; split
  · rfl
  · split <;> rfl

@[simp] theorem delFail_nT (s : St) (v q o : Nat) : (delFail s v q o).nT = s.nT := by unfold delFail; split <;> simp
@[simp] theorem delFail_nE (s : St) (v q o : Nat) : (delFail s v q o).nE = s.nE := by unfold delFail; split <;> simp
@[simp] theorem delFail_nH (s : St) (v q o : Nat) : (delFail s v q o).nH = s.nH := by unfold delFail; split <;> simp
@[simp] theorem delFail_nV (s : St) (v q o : Nat) : (delFail s v q o).nV = s.nV := by unfold delFail; split <;> simp
@[simp] theorem delFail_nM (s : St) (v q o : Nat) : (delFail s v q o).nM = s.nM := by unfold delFail; split <;> simp
@[simp] theorem delFail_cfg (s : St) (v q o : Nat) : (delFail s v q o).cfg = s.cfg := by unfold delFail; split <;> simp
@[simp] theorem delFail_entries (s : St) (v q o : Nat) : (delFail s v q o).entries = s.entries := by
  unfold delFail; split <;> simp
@[simp] theorem delFail_handles (s : St) (v q o : Nat) : (delFail s v q o).handles = s.handles := by
  unfold delFail; split <;> simp
@[simp] theorem delFail_threads (s : St) (v q o : Nat) : (delFail s v q o).threads = s.threads := by
  unfold delFail; split <;> simp
@[simp] theorem delFail_views (s : St) (v q o : Nat) : (delFail s v q o).views = s.views := by
  unfold delFail; split <;> simp

@[simp] theorem delEvict_nT (s : St) (v q o h : Nat) : (delEvict s v q o h).nT = s.nT := by unfold delEvict; split <;> simp
@[simp] theorem delEvict_nE (s : St) (v q o h : Nat) : (delEvict s v q o h).nE = s.nE := by unfold delEvict; split <;> simp
@[simp] theorem delEvict_nH (s : St) (v q o h : Nat) : (delEvict s v q o h).nH = s.nH := by unfold delEvict; split <;> simp
@[simp] theorem delEvict_nV (s : St) (v q o h : Nat) : (delEvict s v q o h).nV = s.nV := by unfold delEvict; split <;> simp
@[simp] theorem delEvict_nM (s : St) (v q o h : Nat) : (delEvict s v q o h).nM = s.nM := by unfold delEvict; split <;> simp
@[simp] theorem delEvict_cfg (s : St) (v q o h : Nat) : (delEvict s v q o h).cfg = s.cfg := by unfold delEvict; split <;> simp
@[simp] theorem delEvict_entries (s : St) (v q o h : Nat) : (delEvict s v q o h).entries = s.entries := by
  unfold delEvict; split <;> simp
@[simp] theorem delEvict_handles (s : St) (v q o h : Nat) : (delEvict s v q o h).handles = s.handles := by
  unfold delEvict; split <;> simp
@[simp] theorem delEvict_threads (s : St) (v q o h : Nat) : (delEvict s v q o h).threads = s.threads := by
  unfold delEvict; split <;> simp
@[simp] theorem delEvict_views (s : St) (v q o h : Nat) : (delEvict s v q o h).views = s.views := by
  unfold delEvict; split <;> simp

@[simp] theorem markAll_cfg (s : St) (m : Nat) : (markAll s m).cfg = s.cfg := rfl
@[simp] theorem markAll_nV (s : St) (m : Nat) : (markAll s m).nV = s.nV := rfl
@[simp] theorem markAll_nT (s : St) (m : Nat) : (markAll s m).nT = s.nT := rfl
@[simp] theorem markAll_nE (s : St) (m : Nat) : (markAll s m).nE = s.nE := rfl
@[simp] theorem markAll_nH (s : St) (m : Nat) : (markAll s m).nH = s.nH := rfl
@[simp] theorem markAll_nM (s : St) (m : Nat) : (markAll s m).nM = s.nM := rfl
@[simp] theorem markAll_threads (s : St) (m : Nat) : (markAll s m).threads = s.threads := rfl
@[simp] theorem markAll_handles (s : St) (m : Nat) : (markAll s m).handles = s.handles := rfl
@[simp] theorem markAll_maps (s : St) (m : Nat) : (markAll s m).maps = s.maps := rfl
@[simp] theorem markAll_views (s : St) (m : Nat) : (markAll s m).views = s.views := rfl
@[simp] theorem markAll_log (s : St) (m : Nat) : (markAll s m).log = s.log := rfl
@[simp] theorem markAll_prepared (s : St) (m e : Nat) : ((markAll s m).entries e).prepared = (s.entries e).prepared := by
  simp only [markAll]; split <;> rfl
@[simp] theorem markAll_err (s : St) (m e : Nat) : ((markAll s m).entries e).err = (s.entries e).err := by
  simp only [markAll]; split <;> rfl
@[simp] theorem markAll_handle (s : St) (m e : Nat) : ((markAll s m).entries e).handle = (s.entries e).handle := by
  simp only [markAll]; split <;> rfl
@[simp] theorem markAll_tx (s : St) (m e : Nat) : ((markAll s m).entries e).tx = (s.entries e).tx := by
  simp only [markAll]; split <;> rfl
@[simp] theorem markAll_text (s : St) (m e : Nat) : ((markAll s m).entries e).text = (s.entries e).text := by
  simp only [markAll]; split <;> rfl

@[simp] theorem markView_cfg (s : St) (v : Nat) : (markView s v).cfg = s.cfg := by unfold markView; split <;> rfl
@[simp] theorem markView_nV (s : St) (v : Nat) : (markView s v).nV = s.nV := by unfold markView; split <;> rfl
@[simp] theorem markView_nT (s : St) (v : Nat) : (markView s v).nT = s.nT := by unfold markView; split <;> rfl
@[simp] theorem markView_nE (s : St) (v : Nat) : (markView s v).nE = s.nE := by unfold markView; split <;> rfl
@[simp] theorem markView_nH (s : St) (v : Nat) : (markView s v).nH = s.nH := by unfold markView; split <;> rfl
@[simp] theorem markView_nM (s : St) (v : Nat) : (markView s v).nM = s.nM := by unfold markView; split <;> rfl
@[simp] theorem markView_threads (s : St) (v : Nat) : (markView s v).threads = s.threads := by unfold markView; split <;> rfl
@[simp] theorem markView_handles (s : St) (v : Nat) : (markView s v).handles = s.handles := by unfold markView; split <;> rfl
@[simp] theorem markView_maps (s : St) (v : Nat) : (markView s v).maps = s.maps := by unfold markView; split <;> rfl
@[simp] theorem markView_views (s : St) (v : Nat) : (markView s v).views = s.views := by unfold markView; split <;> rfl
@[simp] theorem markView_log (s : St) (v : Nat) : (markView s v).log = s.log := by unfold markView; split <;> rfl
@[simp] theorem markView_prepared (s : St) (v e : Nat) : ((markView s v).entries e).prepared = (s.entries e).prepared := by
  unfold markView; split <;> simp
@[simp] theorem markView_err (s : St) (v e : Nat) : ((markView s v).entries e).err = (s.entries e).err := by
  unfold markView; split <;> simp
@[simp] theorem markView_handle (s : St) (v e : Nat) : ((markView s v).entries e).handle = (s.entries e).handle := by
  unfold markView; split <;> simp
@[simp] theorem markView_tx (s : St) (v e : Nat) : ((markView s v).entries e).tx = (s.entries e).tx := by
  unfold markView; split <;> simp
@[simp] theorem markView_text (s : St) (v e : Nat) : ((markView s v).entries e).text = (s.entries e).text := by
  unfold markView; split <;> simp


/-! ### more projections -/

theorem pc_cases (s : St) (t t' : Nat) (pc : Pc) :
    ((setPc s t pc).threads t').pc = if t' = t then pc else (s.threads t').pc := by
  simp only [setPc, upd_apply]; split <;> rfl

theorem finish_pc (s : St) (t t' : Nat) (r : Res) :
    ((finish s t r).threads t').pc = if t' = t then .fin r else (s.threads t').pc := by
  simp [pc_cases]
@[simp] theorem finish_op (s : St) (t t' : Nat) (r : Res) : ((finish s t r).threads t').op = (s.threads t').op := by
  simp
@[simp] theorem finish_ent (s : St) (t t' : Nat) (r : Res) : ((finish s t r).threads t').ent = (s.threads t').ent := by
  simp
@[simp] theorem finish_h_tx (s : St) (t h : Nat) (r : Res) : ((finish s t r).handles h).tx = (s.handles h).tx := by
  unfold finish; split <;> (try rfl); simp only []; split <;> rfl
@[simp] theorem finish_h_thr (s : St) (t h : Nat) (r : Res) : ((finish s t r).handles h).thr = (s.handles h).thr := by
  unfold finish; split <;> (try rfl); simp only []; split <;> rfl
@[simp] theorem finish_h_entry (s : St) (t h : Nat) (r : Res) : ((finish s t r).handles h).entry = (s.handles h).entry := by
  unfold finish; split <;> (try rfl); simp only []; split <;> rfl
@[simp] theorem finish_h_closeReq (s : St) (t h : Nat) (r : Res) :
    ((finish s t r).handles h).closeReq = (s.handles h).closeReq := by
  unfold finish; split <;> (try rfl); simp only []; split <;> rfl
theorem finish_h_closed (s : St) (t h : Nat) (r : Res) (hc : (s.handles h).closed = true) :
    ((finish s t r).handles h).closed = true := by
  unfold finish; split <;> (try exact hc); simp only []; split <;> simp_all
theorem finish_h_closed_rev (s : St) (t h : Nat) (r : Res) (hc : ((finish s t r).handles h).closed = false) :
    (s.handles h).closed = false := by
  cases h0 : (s.handles h).closed with
  | false => rfl
  | true => rw [finish_h_closed s t h r h0] at hc; cases hc
theorem finish_h_closed_nontx (s : St) (t h : Nat) (r : Res) (hx : (s.handles h).tx = false) :
    ((finish s t r).handles h).closed = (s.handles h).closed := by
  unfold finish; split <;> (try rfl); simp only []; split <;> simp_all

@[simp] theorem setWait_pc (s : St) (t t' e : Nat) :
    ((setWait s t e).threads t').pc = if t' = t then .waiting e else (s.threads t').pc := by
  simp [setWait, pc_cases]
@[simp] theorem setWait_op (s : St) (t t' e : Nat) : ((setWait s t e).threads t').op = (s.threads t').op := by
  simp [setWait]
theorem setWait_ent (s : St) (t t' e : Nat) :
    ((setWait s t e).threads t').ent = if t' = t then some e else (s.threads t').ent := by
  simp only [setWait, setPc_ent, setEnt, upd_apply]; split <;> simp_all
@[simp] theorem setWait_nT (s : St) (t e : Nat) : (setWait s t e).nT = s.nT := rfl
@[simp] theorem setWait_nE (s : St) (t e : Nat) : (setWait s t e).nE = s.nE := rfl
@[simp] theorem setWait_nH (s : St) (t e : Nat) : (setWait s t e).nH = s.nH := rfl
@[simp] theorem setWait_nV (s : St) (t e : Nat) : (setWait s t e).nV = s.nV := rfl
@[simp] theorem setWait_nM (s : St) (t e : Nat) : (setWait s t e).nM = s.nM := rfl
@[simp] theorem setWait_entries (s : St) (t e : Nat) : (setWait s t e).entries = s.entries := rfl
@[simp] theorem setWait_handles (s : St) (t e : Nat) : (setWait s t e).handles = s.handles := rfl
@[simp] theorem setWait_maps (s : St) (t e : Nat) : (setWait s t e).maps = s.maps := rfl
@[simp] theorem setWait_views (s : St) (t e : Nat) : (setWait s t e).views = s.views := rfl
@[simp] theorem setWait_log (s : St) (t e : Nat) : (setWait s t e).log = s.log := rfl
@[simp] theorem setWait_cfg (s : St) (t e : Nat) : (setWait s t e).cfg = s.cfg := rfl

@[simp] theorem publish_nT (s : St) (t v m q : Nat) (tx : Bool) : (publish s t v m q tx).nT = s.nT := rfl
@[simp] theorem publish_nE (s : St) (t v m q : Nat) (tx : Bool) : (publish s t v m q tx).nE = s.nE + 1 := rfl
@[simp] theorem publish_nH (s : St) (t v m q : Nat) (tx : Bool) : (publish s t v m q tx).nH = s.nH := rfl
@[simp] theorem publish_nV (s : St) (t v m q : Nat) (tx : Bool) : (publish s t v m q tx).nV = s.nV := rfl
@[simp] theorem publish_nM (s : St) (t v m q : Nat) (tx : Bool) : (publish s t v m q tx).nM = s.nM := rfl
@[simp] theorem publish_cfg (s : St) (t v m q : Nat) (tx : Bool) : (publish s t v m q tx).cfg = s.cfg := rfl
@[simp] theorem publish_handles (s : St) (t v m q : Nat) (tx : Bool) : (publish s t v m q tx).handles = s.handles := rfl
@[simp] theorem publish_views (s : St) (t v m q : Nat) (tx : Bool) : (publish s t v m q tx).views = s.views := rfl
@[simp] theorem publish_entries (s : St) (t v m q : Nat) (tx : Bool) :
    (publish s t v m q tx).entries = upd s.entries s.nE { text := q, mapId := m, owner := t, view := v, tx := tx } := rfl
@[simp] theorem publish_maps (s : St) (t v m q : Nat) (tx : Bool) :
    (publish s t v m q tx).maps = upd s.maps m (upd (s.maps m) q (some s.nE)) := rfl
theorem publish_log (s : St) (t v m q : Nat) (tx : Bool) :
    (publish s t v m q tx).log = (match s.maps m q with
                         | some e' => [.prep m q tx s.nE, .removed m q e' .overwrite]
                         | none => [.prep m q tx s.nE]) ++ s.log := rfl
@[simp] theorem publish_pc (s : St) (t t' v m q : Nat) (tx : Bool) :
    ((publish s t v m q tx).threads t').pc = if t' = t then .preparing s.nE else (s.threads t').pc := by
  simp [publish, pc_cases]
@[simp] theorem publish_op (s : St) (t t' v m q : Nat) (tx : Bool) :
    ((publish s t v m q tx).threads t').op = (s.threads t').op := by
  simp [publish]
theorem publish_ent (s : St) (t t' v m q : Nat) (tx : Bool) :
    ((publish s t v m q tx).threads t').ent = if t' = t then some s.nE else (s.threads t').ent := by
  simp only [publish, setPc_ent, setEnt, upd_apply]; split <;> simp_all


/-! ### SHAPE: what a goroutine's program counter says about the entry / handle it mentions; owner uniqueness -/

/-- thread at `pc` is the preparer of entry `e` and has not yet closed `e.prepared` -/
def owns (pc : Pc) (e : Nat) : Prop :=
  match pc with
  | .preparing e' => e' = e
  | .storing e' _ => e' = e
  | .failing e' => e' = e
  | .closingOk e' _ => e' = e
  | .closingErr e' => e' = e
  | _ => False

/-- thread at `pc` holds a copy of the prepared statement `h` of entry `e` -/
def holds (pc : Pc) (e h : Nat) : Prop := pc = .ready e h ∨ pc = .using e h ∨ pc = .evicting e h

def TS (s : St) (t : Nat) : Prop :=
  let pc := (s.threads t).pc
  (∀ e, pc = .waiting e → e < s.nE ∧ (s.threads t).ent = some e) ∧
  (∀ e, owns pc e → e < s.nE ∧ (s.entries e).owner = t ∧ (s.entries e).prepared = false ∧ (s.threads t).ent = some e) ∧
  (∀ e, pc = .preparing e → (s.entries e).err = false ∧ (s.entries e).handle = none) ∧
  (∀ e h, pc = .storing e h → (s.entries e).err = false ∧ (s.entries e).handle = none ∧ h < s.nH ∧
      (s.handles h).entry = e ∧ (s.handles h).thr = t) ∧
  (∀ e, pc = .failing e ∨ pc = .closingErr e → (s.entries e).err = true ∧ (s.entries e).handle = none) ∧
  (∀ e h, pc = .closingOk e h → (s.entries e).err = false ∧ (s.entries e).handle = some h ∧ h < s.nH ∧
      (s.handles h).entry = e) ∧
  (∀ e h, holds pc e h → e < s.nE ∧ (s.entries e).prepared = true ∧ (s.entries e).err = false ∧
      (s.entries e).handle = some h ∧ (s.threads t).ent = some e) ∧
  ((pc = .init ∨ pc = .missed) → (s.threads t).ent = none) ∧
  (∀ r, pc = .fin r → ∀ e, (s.threads t).ent = some e → e < s.nE ∧ (s.entries e).prepared = true ∧
      ((s.entries e).err = true ↔ r = .prepErr))

/-- every unprepared entry has a running owner, and the owner is the goroutine recorded at publication -/
def OwnG (s : St) : Prop :=
  ∀ e, e < s.nE → (s.entries e).prepared = false → (s.entries e).owner < s.nT ∧ owns (s.threads (s.entries e).owner).pc e

def Shape (s : St) : Prop := (∀ t, TS s t) ∧ OwnG s

/-- frame: a step that leaves thread `t'` alone and does not touch the TS-relevant fields of allocated entries/handles -/
theorem TS_frame (s s' : St) (t' : Nat) (h : TS s t')
    (hthr : s'.threads t' = s.threads t') (hnE : s.nE ≤ s'.nE) (hnH : s.nH ≤ s'.nH)
    (hE : ∀ e, e < s.nE → (s'.entries e).owner = (s.entries e).owner ∧ (s'.entries e).prepared = (s.entries e).prepared ∧
        (s'.entries e).err = (s.entries e).err ∧ (s'.entries e).handle = (s.entries e).handle)
    (hH : ∀ x, x < s.nH → (s'.handles x).entry = (s.handles x).entry ∧ (s'.handles x).thr = (s.handles x).thr) :
    TS s' t' := by
  obtain ⟨h1, h2, h3, h4, h5, h6, h7, h8, h9⟩ := h
  unfold TS
  simp only [hthr]
  refine ⟨?_, ?_, ?_, ?_, ?_, ?_, ?_, h8, ?_⟩
  · intro e he; have := h1 e he; exact ⟨by omega, this.2⟩
  · intro e he; have := h2 e he; have hh := hE e this.1
    exact ⟨by omega, by rw [hh.1]; exact this.2.1, by rw [hh.2.1]; exact this.2.2.1, this.2.2.2⟩
  · intro e he; have := h3 e he; have hh := hE e (h2 e (by simp [owns, he])).1
    exact ⟨by rw [hh.2.2.1]; exact this.1, by rw [hh.2.2.2]; exact this.2⟩
  · intro e x he; have := h4 e x he; have hh := hE e (h2 e (by simp [owns, he])).1
    have hx := hH x this.2.2.1
    exact ⟨by rw [hh.2.2.1]; exact this.1, by rw [hh.2.2.2]; exact this.2.1, by omega, by rw [hx.1]; exact this.2.2.2.1,
      by rw [hx.2]; exact this.2.2.2.2⟩
  · intro e he; have := h5 e he
    have hh := hE e (h2 e (by rcases he with he | he <;> simp [owns, he])).1
    exact ⟨by rw [hh.2.2.1]; exact this.1, by rw [hh.2.2.2]; exact this.2⟩
  · intro e x he; have := h6 e x he; have hh := hE e (h2 e (by simp [owns, he])).1
    have hx := hH x this.2.2.1
    exact ⟨by rw [hh.2.2.1]; exact this.1, by rw [hh.2.2.2]; exact this.2.1, by omega, by rw [hx.1]; exact this.2.2.2⟩
  · intro e x he; have := h7 e x he; have hh := hE e this.1
    exact ⟨by omega, by rw [hh.2.1]; exact this.2.1, by rw [hh.2.2.1]; exact this.2.2.1, by rw [hh.2.2.2]; exact this.2.2.2.1,
      this.2.2.2.2⟩
  · intro r hr e he; have := h9 r hr e he; have hh := hE e this.1
    exact ⟨by omega, by rw [hh.2.1]; exact this.2.1, by rw [hh.2.2.1]; exact this.2.2⟩

/-- frame: the owner `t` of entry `e0` rewrites `e0` (keeping its ghost owner); any OTHER thread's shape survives -/
theorem TS_frame_owner (s s' : St) (t t' e0 : Nat) (x : Entry) (h : TS s t') (ht : TS s t) (hne : t' ≠ t)
    (hown : owns (s.threads t).pc e0) (hx : x.owner = (s.entries e0).owner)
    (hthr : s'.threads t' = s.threads t') (hnE : s'.nE = s.nE) (hnH : s'.nH = s.nH)
    (hE : s'.entries = upd s.entries e0 x)
    (hH : ∀ y, (s'.handles y).entry = (s.handles y).entry ∧ (s'.handles y).thr = (s.handles y).thr) : TS s' t' := by
  have ho := ht.2.1 e0 hown
  obtain ⟨h1, h2, h3, h4, h5, h6, h7, h8, h9⟩ := h
  have hoth : ∀ e, owns (s.threads t').pc e → e ≠ e0 := by
    intro e he heq; subst heq; have := (h2 e he).2.1; rw [ho.2.1] at this; exact hne this.symm
  unfold TS
  simp only [hthr, hE, hnE, hnH, fun y => (hH y).1, fun y => (hH y).2]
  refine ⟨h1, ?_, ?_, ?_, ?_, ?_, ?_, h8, ?_⟩
  · intro e he; have := h2 e he; have hn := hoth e he; simpa [upd, hn] using this
  · intro e he; have hn := hoth e (by simp [owns, he]); simpa [upd, hn] using h3 e he
  · intro e y he; have hn := hoth e (by simp [owns, he]); simpa [upd, hn] using h4 e y he
  · intro e he; have hn := hoth e (by rcases he with he | he <;> simp [owns, he]); simpa [upd, hn] using h5 e he
  · intro e y he; have hn := hoth e (by simp [owns, he]); simpa [upd, hn] using h6 e y he
  · intro e y he; have := h7 e y he
    have hn : e ≠ e0 := by intro heq; subst heq; rw [ho.2.2.1] at this; exact absurd this.2.1 (by simp)
    simpa [upd, hn] using this
  · intro r hr e he; have := h9 r hr e he
    have hn : e ≠ e0 := by intro heq; subst heq; rw [ho.2.2.1] at this; exact absurd this.2.1 (by simp)
    simpa [upd, hn] using this


theorem owns_fun (pc : Pc) (e e' : Nat) (h : owns pc e) (h' : owns pc e') : e = e' := by
  cases pc <;> simp_all [owns]

theorem shape_thread_only (s s' : St) (t : Nat) (hS : Shape s) (hnT : s'.nT = s.nT) (hnE : s'.nE = s.nE) (hnH : s'.nH = s.nH)
    (hthr : ∀ t', t' ≠ t → s'.threads t' = s.threads t')
    (hE : ∀ e, (s'.entries e).owner = (s.entries e).owner ∧ (s'.entries e).prepared = (s.entries e).prepared ∧
        (s'.entries e).err = (s.entries e).err ∧ (s'.entries e).handle = (s.entries e).handle)
    (hH : ∀ x, (s'.handles x).entry = (s.handles x).entry ∧ (s'.handles x).thr = (s.handles x).thr)
    (hnew : TS s' t) (hown : ∀ e, owns (s.threads t).pc e → owns (s'.threads t).pc e) : Shape s' := by
  refine ⟨fun t' => ?_, ?_⟩
  · by_cases htt : t' = t
    · subst htt; exact hnew
    · exact TS_frame s s' t' (hS.1 t') (hthr t' htt) (by omega) (by omega) (fun e _ => hE e) (fun x _ => hH x)
  · intro e he hp
    rw [hnE] at he
    rw [(hE e).2.1] at hp
    obtain ⟨h1, h2⟩ := hS.2 e he hp
    rw [(hE e).1, hnT]
    refine ⟨h1, ?_⟩
    by_cases htt : (s.entries e).owner = t
    · rw [htt] at h2 ⊢; exact hown e h2
    · rw [hthr _ htt]; exact h2

theorem shape_owner_step (s s' : St) (t e0 : Nat) (x : Entry) (hS : Shape s)
    (hown : owns (s.threads t).pc e0) (hx : x.owner = (s.entries e0).owner)
    (hnT : s'.nT = s.nT) (hnE : s'.nE = s.nE) (hnH : s'.nH = s.nH)
    (hthr : ∀ t', t' ≠ t → s'.threads t' = s.threads t')
    (hE : s'.entries = upd s.entries e0 x)
    (hH : ∀ y, (s'.handles y).entry = (s.handles y).entry ∧ (s'.handles y).thr = (s.handles y).thr)
    (hnew : TS s' t) (hown' : x.prepared = false → owns (s'.threads t).pc e0) : Shape s' := by
  have ho := (hS.1 t).2.1 e0 hown
  refine ⟨fun t' => ?_, ?_⟩
  · by_cases htt : t' = t
    · subst htt; exact hnew
    · exact TS_frame_owner s s' t t' e0 x (hS.1 t') (hS.1 t) htt hown hx (hthr t' htt) hnE hnH hE hH
  · intro e he hp
    rw [hnE] at he
    rw [hnT, hE]
    by_cases hee : e = e0
    · subst hee
      rw [hE] at hp
      simp only [upd_same] at hp ⊢
      rw [hx, ho.2.1]
      have := hS.2 e he ho.2.2.1
      rw [ho.2.1] at this
      exact ⟨this.1, hown' hp⟩
    · rw [hE] at hp
      simp only [upd, hee, if_false] at hp ⊢
      obtain ⟨h1, h2⟩ := hS.2 e he hp
      refine ⟨h1, ?_⟩
      by_cases htt : (s.entries e).owner = t
      · rw [htt] at h2; exact absurd (owns_fun _ _ _ h2 hown) hee
      · rw [hthr _ htt]; exact h2


theorem markView_owner (s : St) (v e : Nat) : ((markView s v).entries e).owner = (s.entries e).owner := by
  unfold markView; split <;> (try rfl); simp only [markAll]; split <;> rfl

def MapRng (s : St) : Prop := ∀ m q e, s.maps m q = some e → e < s.nE

theorem step_shape (s s' : St) (hS : Shape s) (hR : MapRng s) (hs : Step s s') : Shape s' := by
  cases hs with
  | hit t v q tx m e ht hop hpc hv hm hu =>
    have hT := hS.1 t
    refine shape_thread_only s _ t hS rfl rfl rfl (fun t' h => by simp [setWait, setPc_thr_other, setEnt_thr_other, h])
      (fun e => by simp) (fun x => by simp) ?_ ?_
    · have := hR _ _ _ hm
      unfold TS; simp [setWait_ent, owns, holds]; exact this
    · intro e' ho; rcases hpc with hpc | hpc <;> simp [hpc, owns] at ho
  | miss t v q tx ht hop hpc =>
    have hT := hS.1 t
    refine shape_thread_only s _ t hS rfl rfl rfl (fun t' h => by simp [setPc_thr_other, h])
      (fun e => by simp) (fun x => by simp) ?_ ?_
    · have := hT.2.2.2.2.2.2.2.1 (Or.inl hpc)
      unfold TS; simp [pc_cases, owns, holds]; exact this
    · intro e' ho; simp [hpc, owns] at ho
  | invalid t v q tx ht hop hpc hv =>
    have hT := hS.1 t
    refine shape_thread_only s _ t hS (by simp) (by simp) (by simp) (fun t' h => by simp [setPc_thr_other, h])
      (fun e => by simp) (fun x => by simp) ?_ ?_
    · have := hT.2.2.2.2.2.2.2.1 (Or.inr hpc)
      unfold TS; simp [finish_pc, owns, holds, this]
    · intro e' ho; simp [hpc, owns] at ho
  | pub t v q tx m ht hop hpc hv hm =>
    have hT := hS.1 t
    refine ⟨fun t' => ?_, ?_⟩
    · by_cases htt : t' = t
      · subst htt
        unfold TS; simp [publish_ent, owns, holds, upd]
      · refine TS_frame s _ t' (hS.1 t') (by simp [publish, setPc_thr_other, setEnt_thr_other, htt]) (by simp) (by simp)
          (fun e he => ?_) (fun x _ => by simp)
        have : e ≠ s.nE := by omega
        simp [upd, this]
    · intro e he hp
      by_cases hee : e = s.nE
      · subst hee; simp [upd, owns, ht]
      · have he' : e < s.nE := by simp at he; omega
        simp only [publish_entries, upd, hee, if_false] at hp ⊢
        obtain ⟨h1, h2⟩ := hS.2 e he' hp
        refine ⟨by simpa using h1, ?_⟩
        by_cases hto : (s.entries e).owner = t
        · rw [hto, hpc] at h2; simp [owns] at h2
        · simp [hto]; exact h2
  | waitErr t v q tx e ht hop hpc hp he =>
    have hT := hS.1 t
    refine shape_thread_only s _ t hS (by simp) (by simp) (by simp) (fun t' h => by simp [setPc_thr_other, h])
      (fun e => by simp) (fun x => by simp) ?_ ?_
    · have := hT.1 e hpc
      unfold TS; simp [finish_pc, owns, holds, this, hp, he]
    · intro e' ho; simp [hpc, owns] at ho
  | waitOk t v q tx e h ht hop hpc hp he hh =>
    have hT := hS.1 t
    refine shape_thread_only s _ t hS (by simp) (by simp) (by simp) (fun t' h => by simp [setPc_thr_other, h])
      (fun e => by simp) (fun x => by simp) ?_ ?_
    · have := hT.1 e hpc
      unfold TS; simp [pc_cases, owns, holds, this, hp, he, hh]
    · intro e' ho; simp [hpc, owns] at ho
  | waitNil t v q tx e ht hop hpc hp he hh =>
    have hT := hS.1 t
    refine shape_thread_only s _ t hS (by simp) (by simp) (by simp) (fun t' h => by simp [setPc_thr_other, h])
      (fun e => by simp) (fun x => by simp) ?_ ?_
    · have := hT.1 e hpc
      unfold TS; simp [finish_pc, owns, holds, this, hp, he]
    · intro e' ho; simp [hpc, owns] at ho
  | prepOk t v q tx e ht hop hpc =>
    have hT := hS.1 t
    have ho := hT.2.1 e (by simp [hpc, owns])
    have h3 := hT.2.2.1 e hpc
    refine ⟨fun t' => ?_, ?_⟩
    · by_cases htt : t' = t
      · subst htt
        unfold TS; simp [pc_cases, owns, holds, upd, ho, h3]
      · refine TS_frame s _ t' (hS.1 t') (by simp [setPc_thr_other, htt]) (by simp) (by simp)
          (fun e he => by simp) (fun x hx => ?_)
        have : x ≠ s.nH := by omega
        simp [upd, this]
    · intro e' he' hp
      simp only [setPc_entries, setPc_nE, setPc_nT] at hp he' ⊢
      obtain ⟨h1, h2⟩ := hS.2 e' he' hp
      refine ⟨h1, ?_⟩
      by_cases hto : (s.entries e').owner = t
      · rw [hto, hpc] at h2; simp [owns] at h2; subst h2
        simp [hto, pc_cases, owns]
      · simp [pc_cases, hto]; exact h2
  | prepErr t v q tx e ht hop hpc =>
    have hT := hS.1 t
    have ho := hT.2.1 e (by simp [hpc, owns])
    have h3 := hT.2.2.1 e hpc
    refine shape_owner_step s _ t e { s.entries e with err := true } hS (by simp [hpc, owns]) rfl rfl rfl rfl
      (fun t' h => by simp [setPc_thr_other, h]) rfl (fun y => ⟨rfl, rfl⟩) ?_ ?_
    · unfold TS; simp [pc_cases, owns, holds, upd, ho, h3]
    · intro _; simp [pc_cases, owns]
  | store t v q tx e h ht hop hpc =>
    have hT := hS.1 t
    have ho := hT.2.1 e (by simp [hpc, owns])
    have h3 := hT.2.2.2.1 e h hpc
    refine shape_owner_step s _ t e { s.entries e with handle := some h } hS (by simp [hpc, owns]) rfl rfl rfl rfl
      (fun t' h => by simp [setPc_thr_other, h]) rfl (fun y => ⟨rfl, rfl⟩) ?_ ?_
    · unfold TS; simp [pc_cases, owns, holds, upd, ho, h3]
    · intro _; simp [pc_cases, owns]
  | fail t v q tx e ht hop hpc =>
    have hT := hS.1 t
    have ho := hT.2.1 e (by simp [hpc, owns])
    have h3 := hT.2.2.2.2.1 e (Or.inl hpc)
    refine shape_thread_only s _ t hS (by simp) (by simp) (by simp) (fun t' h => by simp [setPc_thr_other, h])
      (fun e => by simp) (fun x => by simp) ?_ ?_
    · unfold TS; simp [pc_cases, owns, holds, ho, h3]
    · intro e' ho'; simp [hpc, owns] at ho'; simp [pc_cases, owns, ho']
  | closeOk t v q tx e h ht hop hpc =>
    have hT := hS.1 t
    have ho := hT.2.1 e (by simp [hpc, owns])
    have h3 := hT.2.2.2.2.2.1 e h hpc
    refine shape_owner_step s _ t e { s.entries e with prepared := true } hS (by simp [hpc, owns]) rfl rfl rfl rfl
      (fun t' h => by simp [setPc_thr_other, h]) rfl (fun y => ⟨rfl, rfl⟩) ?_ ?_
    · unfold TS; simp [pc_cases, owns, holds, upd, ho, h3]
    · intro hh; simp at hh
  | closeErr t v q tx e ht hop hpc =>
    have hT := hS.1 t
    have ho := hT.2.1 e (by simp [hpc, owns])
    have h3 := hT.2.2.2.2.1 e (Or.inr hpc)
    refine shape_owner_step s _ t e { s.entries e with prepared := true } hS (by simp [hpc, owns]) rfl (by simp) (by simp) (by simp)
      (fun t' h => by simp [setPc_thr_other, h]) (by simp) (fun y => by simp) ?_ ?_
    · unfold TS; simp [finish_pc, owns, holds, upd, ho, h3]
    · intro hh; simp at hh
  | readyClosed t v q e h ht hop hpc hc =>
    have hT := hS.1 t
    have h7 := hT.2.2.2.2.2.2.1 e h (Or.inl hpc)
    refine shape_thread_only s _ t hS (by simp) (by simp) (by simp) (fun t' h => by simp [setPc_thr_other, h])
      (fun e => by simp) (fun x => by simp) ?_ ?_
    · unfold TS; simp [finish_pc, owns, holds, h7]
    · intro e' ho; simp [hpc, owns] at ho
  | readyUse t v q tx e h ht hop hpc =>
    have hT := hS.1 t
    have h7 := hT.2.2.2.2.2.2.1 e h (Or.inl hpc)
    refine shape_thread_only s _ t hS (by simp) (by simp) (by simp) (fun t' h => by simp [setPc_thr_other, h])
      (fun e => by simp) (fun x => by simp) ?_ ?_
    · unfold TS; simp [pc_cases, owns, holds, h7]
    · intro e' ho; simp [hpc, owns] at ho
  | useFin t v q tx e h r ht hop hpc hr =>
    have hT := hS.1 t
    have h7 := hT.2.2.2.2.2.2.1 e h (Or.inr (Or.inl hpc))
    refine shape_thread_only s _ t hS (by simp) (by simp) (by simp) (fun t' h => by simp [setPc_thr_other, h])
      (fun e => by simp) (fun x => by simp) ?_ ?_
    · unfold TS; rcases hr with hr | hr <;> simp [finish_pc, owns, holds, h7, hr]
    · intro e' ho; simp [hpc, owns] at ho
  | useBad t v q tx e h ht hop hpc =>
    have hT := hS.1 t
    have h7 := hT.2.2.2.2.2.2.1 e h (Or.inr (Or.inl hpc))
    refine shape_thread_only s _ t hS (by simp) (by simp) (by simp) (fun t' h => by simp [setPc_thr_other, h])
      (fun e => by simp) (fun x => by simp) ?_ ?_
    · unfold TS; simp [pc_cases, owns, holds, h7]
    · intro e' ho; simp [hpc, owns] at ho
  | evict t v q tx e h ht hop hpc =>
    have hT := hS.1 t
    have h7 := hT.2.2.2.2.2.2.1 e h (Or.inr (Or.inr hpc))
    refine shape_thread_only s _ t hS (by simp) (by simp) (by simp) (fun t' h => by simp [setPc_thr_other, h])
      (fun e => by simp) (fun x => by simp [upd_apply]; split <;> simp_all) ?_ ?_
    · unfold TS; simp [finish_pc, owns, holds, h7]
    · intro e' ho; simp [hpc, owns] at ho
  | reset t v ht hop hpc =>
    have hT := hS.1 t
    have := hT.2.2.2.2.2.2.2.1 (Or.inl hpc)
    refine shape_thread_only s _ t hS (by simp) (by simp) (by simp) (fun t' h => by simp [setPc_thr_other, h])
      (fun e => by simp [markView_owner]) (fun x => by simp) ?_ ?_
    · unfold TS; simp [finish_pc, owns, holds, this]
    · intro e' ho; simp [hpc, owns] at ho
  | close t v ht hop hpc =>
    have hT := hS.1 t
    have := hT.2.2.2.2.2.2.2.1 (Or.inl hpc)
    refine shape_thread_only s _ t hS (by simp) (by simp) (by simp) (fun t' h => by simp [setPc_thr_other, h])
      (fun e => by simp [markView_owner]) (fun x => by simp) ?_ ?_
    · unfold TS; simp [finish_pc, owns, holds, this]
    · intro e' ho; simp [hpc, owns] at ho
  | closeE e he h1 h2 h3 h4 =>
    refine ⟨fun t' => TS_frame s _ t' (hS.1 t') rfl (Nat.le_refl _) (Nat.le_refl _)
      (fun e' _ => by simp only [upd_apply]; split <;> simp_all) (fun x _ => ⟨rfl, rfl⟩), ?_⟩
    intro e' he' hp
    have : (s.entries e').prepared = false := by simp only [upd_apply] at hp; split at hp <;> simp_all
    have := hS.2 e' he' this
    simp only [upd_apply]; split <;> simp_all
  | closeEH e h he h1 h2 h3 h4 =>
    refine ⟨fun t' => TS_frame s _ t' (hS.1 t') rfl (Nat.le_refl _) (Nat.le_refl _)
      (fun e' _ => by simp only [upd_apply]; split <;> simp_all)
      (fun x _ => by simp only [upd_apply]; split <;> simp_all), ?_⟩
    intro e' he' hp
    have : (s.entries e').prepared = false := by simp only [upd_apply] at hp; split at hp <;> simp_all
    have := hS.2 e' he' this
    simp only [upd_apply]; split <;> simp_all
  | closeH h hh h1 h2 =>
    refine ⟨fun t' => TS_frame s _ t' (hS.1 t') rfl (Nat.le_refl _) (Nat.le_refl _)
      (fun e' _ => ⟨rfl, rfl, rfl, rfl⟩)
      (fun x _ => by simp only [upd_apply]; split <;> simp_all), ?_⟩
    exact hS.2


/-! ### MAPS: ids in maps are allocated and carry their ghost coordinates; fresh map objects are empty -/

theorem delAt_maps_some (s : St) (v q o m q' e : Nat) (h : (delAt s v q o).maps m q' = some e) :
    s.maps m q' = some e := by
  unfold delAt at h
  split at h
  · exact h
  · split at h
    · exact h
    · rename_i m0 _ _ _ _
      by_cases hm : m = m0
      · subst hm
        by_cases hq : q' = q
        · subst hq; simp [upd] at h
        · simpa [upd, hq] using h
      · simpa [upd, hm] using h

theorem delFail_maps_some (s : St) (v q o m q' e : Nat) (h : (delFail s v q o).maps m q' = some e) :
    s.maps m q' = some e := by
  unfold delFail at h; split at h
  · exact h
  · exact delAt_maps_some _ _ _ _ _ _ _ h

theorem delEvict_maps_some (s : St) (v q o x m q' e : Nat) (h : (delEvict s v q o x).maps m q' = some e) :
    s.maps m q' = some e := by
  unfold delEvict at h; split at h
  · exact h
  · exact delAt_maps_some _ _ _ _ _ _ _ h

theorem markView_mapId (s : St) (v e : Nat) : ((markView s v).entries e).mapId = (s.entries e).mapId := by
  unfold markView; split <;> (try rfl); simp only [markAll]; split <;> rfl
theorem markView_view (s : St) (v e : Nat) : ((markView s v).entries e).view = (s.entries e).view := by
  unfold markView; split <;> (try rfl); simp only [markAll]; split <;> rfl

def Maps (s : St) : Prop :=
  (∀ m q e, s.maps m q = some e → e < s.nE ∧ (s.entries e).mapId = m ∧ (s.entries e).text = q ∧ m < s.nM) ∧
  (∀ v m, s.views v = some m → m < s.nM) ∧ 0 < s.nM

theorem maps_of_frame (s s' : St) (h : Maps s) (hnE : s'.nE = s.nE) (hnM : s'.nM = s.nM) (hv : s'.views = s.views)
    (hm : ∀ m q e, s'.maps m q = some e → s.maps m q = some e)
    (hE : ∀ e, (s'.entries e).mapId = (s.entries e).mapId ∧ (s'.entries e).text = (s.entries e).text) : Maps s' := by
  refine ⟨fun m q e he => ?_, fun v m hvm => ?_, by rw [hnM]; exact h.2.2⟩
  · have := h.1 m q e (hm m q e he)
    rw [hnE, hnM, (hE e).1, (hE e).2]; exact this
  · rw [hv] at hvm; rw [hnM]; exact h.2.1 v m hvm

theorem step_maps (s s' : St) (h : Maps s) (hs : Step s s') : Maps s' := by
  cases hs with
  | pub t v q tx m ht hop hpc hv hm =>
    have hmM := h.2.1 v m hv
    refine ⟨fun m' q' e he => ?_, fun v' m' hvm => by simpa using h.2.1 v' m' (by simpa using hvm), by simpa using h.2.2⟩
    simp only [publish_maps, publish_nE, publish_entries, publish_nM] at he ⊢
    by_cases hmm : m' = m
    · subst hmm
      by_cases hqq : q' = q
      · subst hqq; simp [upd] at he; subst he; simp [upd, hmM]
      · simp [upd, hqq] at he
        have := h.1 _ _ _ he
        have hne : e ≠ s.nE := by omega
        simp [upd, hne]; exact ⟨by omega, this.2⟩
    · simp [upd, hmm] at he
      have := h.1 _ _ _ he
      have hne : e ≠ s.nE := by omega
      simp [upd, hne]; exact ⟨by omega, this.2⟩
  | fail t v q tx e ht hop hpc =>
    exact maps_of_frame s _ h (by simp) (by simp) (by simp) (fun m q' e' he => delFail_maps_some _ _ _ _ _ _ _ (by simpa using he))
      (fun e => by simp)
  | evict t v q tx e x ht hop hpc =>
    exact maps_of_frame s _ h (by simp) (by simp) (by simp)
      (fun m q' e' he => by have := delEvict_maps_some _ _ _ _ _ _ _ _ (by simpa using he); exact this)
      (fun e => by simp)
  | reset t v ht hop hpc =>
    refine ⟨fun m q e he => ?_, fun v' m' hvm => ?_, by simp⟩
    · have := h.1 m q e (by simpa using he)
      simp [markView_mapId]; exact ⟨this.1, this.2.1, this.2.2.1, by omega⟩
    · simp only [finish_views, upd_apply] at hvm
      simp only [finish_nM, markView_nM]
      split at hvm
      · simp at hvm; omega
      · have := h.2.1 v' m' (by simpa using hvm); omega
  | close t v ht hop hpc =>
    refine ⟨fun m q e he => ?_, fun v' m' hvm => ?_, by simpa using h.2.2⟩
    · have := h.1 m q e (by simpa using he)
      simp [markView_mapId]; exact this
    · simp only [finish_views, upd_apply] at hvm
      split at hvm
      · cases hvm
      · simpa using h.2.1 v' m' (by simpa using hvm)
  | hit | miss | invalid | waitErr | waitOk | waitNil | prepOk | readyClosed | readyUse | useFin | useBad =>
    exact maps_of_frame s _ h (by simp) (by simp) (by simp) (fun m q e he => by simpa using he) (fun e => by simp)
  | prepErr | store | closeOk | closeErr | closeE | closeEH =>
    exact maps_of_frame s _ h (by simp) (by simp) (by simp) (fun m q e he => by simpa using he)
      (fun e => by simp only [setPc_entries, finish_entries, upd_apply]; split <;> simp_all)
  | closeH => exact maps_of_frame s _ h rfl rfl rfl (fun m q e he => he) (fun e => ⟨rfl, rfl⟩)

theorem maps_rng (s : St) (h : Maps s) : MapRng s := fun m q e he => (h.1 m q e he).1


/-! ### ACCOUNTING: per map object (= cache generation) and text, every PrepareContext call is matched by an entry that
    is still in the map or by exactly one recorded removal -/
def Acct (s : St) : Prop :=
  ∀ m q, prepCount s m q = removedCount s m q + (if (s.maps m q).isSome then 1 else 0)

theorem acct_of_eq (s s' : St) (h : Acct s) (hl : s'.log = s.log) (hm : s'.maps = s.maps) : Acct s' := by
  intro m q
  have := h m q
  simp only [prepCount, removedCount, hl, hm] at this ⊢
  exact this

theorem acct_delAt (s : St) (v q o : Nat) (h : Acct s) : Acct (delAt s v q o) := by
  unfold delAt
  split
  · exact h
  · rename_i m0 _
    split
    · exact h
    · rename_i e' he'
      intro m q'
      have := h m q'
      simp only [prepCount, removedCount, List.countP_cons] at this ⊢
      by_cases hm : m = m0
      · subst hm
        by_cases hq : q' = q
        · subst hq
          simp [upd, he'] at this ⊢
          omega
        · simp [upd, hq, Ne.symm hq] at this ⊢
          omega
      · have hm' : ¬ m0 = m := fun h => hm h.symm
        simp [upd, hm, hm'] at this ⊢
        omega

theorem acct_delFail (s : St) (v q o : Nat) (h : Acct s) : Acct (delFail s v q o) := by
  unfold delFail; split
  · exact h
  · exact acct_delAt s v q o h

theorem acct_delEvict (s : St) (v q o x : Nat) (h : Acct s) : Acct (delEvict s v q o x) := by
  unfold delEvict; split
  · exact h
  · exact acct_delAt s v q o h

theorem acct_publish (s : St) (t v m q : Nat) (tx : Bool) (h : Acct s) : Acct (publish s t v m q tx) := by
  intro m' q'
  have := h m' q'
  simp only [publish_log, publish_maps, prepCount, removedCount] at this ⊢
  by_cases hm : m' = m
  · subst hm
    by_cases hq : q' = q
    · subst hq
      cases hmq : s.maps m' q' <;> simp [upd, hmq, List.countP_cons] at this ⊢ <;> omega
    · cases hmq : s.maps m' q <;> simp [upd, hq, Ne.symm hq, hmq, List.countP_cons] at this ⊢ <;> omega
  · have hm' : ¬ m = m' := fun h => hm h.symm
    cases hmq : s.maps m q <;> simp [upd, hm, hm', hmq, List.countP_cons] at this ⊢ <;> omega

theorem step_acct (s s' : St) (h : Acct s) (hs : Step s s') : Acct s' := by
  cases hs with
  | pub t v q tx m ht hop hpc hv hm => exact acct_publish s t v m q tx h
  | fail t v q tx e ht hop hpc => exact acct_of_eq _ _ (acct_delFail s v q e h) (by simp) (by simp)
  | evict t v q tx e x ht hop hpc =>
    exact acct_of_eq _ _ (acct_delEvict _ v q e x
      (acct_of_eq s { s with handles := upd s.handles x { s.handles x with closeReq := true } } h rfl rfl)) (by simp) (by simp)
  | closeE | closeEH | closeH => exact acct_of_eq s _ h rfl rfl
  | _ => exact acct_of_eq s _ h (by simp) (by simp)

/-! ### Reset/Close threads are either not started or finished; blocked threads are waiters -/

def OpPc (s : St) : Prop :=
  ∀ t, (∀ v, (s.threads t).op = .reset v ∨ (s.threads t).op = .close v →
    (s.threads t).pc = .init ∨ isFin s t = true)

/-- every step leaves ops alone and moves at most the stepping thread's pc (to `fin` for Reset/Close) -/
theorem step_threads (s s' : St) (hs : Step s s') :
    s'.nT = s.nT ∧ (∀ t, (s'.threads t).op = (s.threads t).op) ∧
    (∀ t, (s'.threads t).pc = (s.threads t).pc ∨
      ((∀ v, (s.threads t).op ≠ .reset v ∧ (s.threads t).op ≠ .close v) ∨ isFin s' t = true)) := by
  cases hs with
  | reset t v ht hop hpc =>
    refine ⟨by simp, fun t' => by simp, fun t' => ?_⟩
    by_cases htt : t' = t
    · subst htt; right; right; simp [isFin]
    · left; simp [pc_cases, htt]
  | close t v ht hop hpc =>
    refine ⟨by simp, fun t' => by simp, fun t' => ?_⟩
    by_cases htt : t' = t
    · subst htt; right; right; simp [isFin]
    · left; simp [pc_cases, htt]
  | closeE | closeEH | closeH => exact ⟨rfl, fun _ => rfl, fun _ => Or.inl rfl⟩
  | hit t v q tx m e ht hop | miss t v q tx ht hop | invalid t v q tx ht hop | pub t v q tx m ht hop
  | waitErr t v q tx e ht hop | waitOk t v q tx e h ht hop | waitNil t v q tx e ht hop | prepOk t v q tx e ht hop
  | prepErr t v q tx e ht hop | store t v q tx e h ht hop | fail t v q tx e ht hop | closeOk t v q tx e h ht hop
  | closeErr t v q tx e ht hop | readyUse t v q tx e h ht hop
  | useFin t v q tx e h r ht hop | useBad t v q tx e h ht hop | evict t v q tx e h ht hop =>
    refine ⟨by simp, fun t' => by simp, fun t' => ?_⟩
    by_cases htt : t' = t
    · subst htt; right; left; simp [hop]
    · left; simp [finish_pc, pc_cases, htt]
  | readyClosed t v q e h ht hop =>
    refine ⟨by simp, fun t' => by simp, fun t' => ?_⟩
    by_cases htt : t' = t
    · subst htt; right; left; simp [hop]
    · left; simp [finish_pc, pc_cases, htt]

theorem step_opPc (s s' : St) (h : OpPc s) (hs : Step s s') : OpPc s' := by
  obtain ⟨_, hop, hpc⟩ := step_threads s s' hs
  intro t v hv
  rw [hop t] at hv
  rcases hpc t with h1 | h2 | h2
  · rcases h t v hv with h3 | h3
    · left; rw [h1]; exact h3
    · right; simp only [isFin] at h3 ⊢; rw [h1]; exact h3
  · rcases hv with hv | hv
    · exact absurd hv (h2 v).1
    · exact absurd hv (h2 v).2
  · right; exact h2

/-- the enabledness half of deadlock freedom: a thread that is not finished and not enabled is a
    waiter on an unprepared entry -/
theorem blocked_is_waiter (s : St) (t : Nat) (ht : t < s.nT) (hw : OpPc s) (hf : isFin s t = false)
    (hb : ∀ a, act s (.thr t a) = none) :
    ∃ e, (s.threads t).pc = .waiting e ∧ (s.entries e).prepared = false := by
  have hb' := hb .ok
  simp only [act, ht, if_true, tstep] at hb'
  cases hop : (s.threads t).op with
  | reset v =>
    rw [hop] at hb'; simp only at hb'
    rcases hw t v (Or.inl hop) with h1 | h1
    · rw [h1] at hb'; simp [stepReset] at hb'
    · rw [h1] at hf; cases hf
  | close v =>
    rw [hop] at hb'; simp only at hb'
    rcases hw t v (Or.inr hop) with h1 | h1
    · rw [h1] at hb'; simp [stepClose] at hb'
    · rw [h1] at hf; cases hf
  | use v q tx =>
    rw [hop] at hb'; simp only at hb'
    cases hpc : (s.threads t).pc <;> rw [hpc] at hb' <;> simp only [stepUse] at hb'
    all_goals (repeat' split at hb')
    all_goals first
      | (cases hb'; done)
      | (simp [isFin, hpc] at hf; done)
      | simp_all

/-! ### reachable states -/

def Inv1 (s : St) : Prop := Shape s ∧ Maps s ∧ Acct s ∧ OpPc s

theorem step_inv1 (s s' : St) (h : Inv1 s) (hs : Step s s') : Inv1 s' :=
  ⟨step_shape s s' h.1 (maps_rng s h.2.1) hs, step_maps s s' h.2.1 hs, step_acct s s' h.2.2.1 hs, step_opPc s s' h.2.2.2 hs⟩

theorem init_inv1 (ops : List Op) (nV : Nat) (cfg : Cfg) : Inv1 (init ops nV cfg) := by
  refine ⟨⟨fun t => ?_, ?_⟩, ⟨?_, ?_, ?_⟩, ?_, ?_⟩
  · unfold TS; simp [init, owns, holds]
  · intro e he; simp [init] at he
  · intro m q e h; simp [init] at h
  · intro v m h; simp [init] at h ⊢; omega
  · simp [init]
  · intro m q; simp [init, prepCount, removedCount]
  · intro t v _; left; simp [init]

theorem inv1_reachable (ops : List Op) (nV : Nat) (cfg : Cfg) (sched : List Act) :
    Inv1 (run (init ops nV cfg) sched) :=
  run_inv Inv1 step_inv1 _ sched (init_inv1 ops nV cfg)

end Gorm.SC
