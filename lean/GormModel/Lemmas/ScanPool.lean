/-
  Lemmas about Model/ScanPool.lean (C15 round 3): the holder discipline of scanIntoStruct.

    inv_step / safeEv_of_disc      one pool, any number of goroutines: the one-place-per-holder invariant is kept by
                                   every event of a goroutine that respects its own bookkeeping, and such an event
                                   reads only holders that are neither pooled nor held elsewhere
    safeAll_of_discAll             … along every schedule
    discAll_of_localOK             the bookkeeping is a PER-GOROUTINE matter (projection of the schedule)
    rowsRun_localOK'               a disciplined skeleton yields a bookkeeping-respecting action sequence for every
                                   number of rows and every set of field columns, with nothing owned afterwards
                                   (for a call that starts with no pending deferred Put; see
                                   `rowsRun_localOK_false_with_pending_defers` for why that hypothesis is needed)
    concurrent_scans_safe          composition
-/
import GormModel.Model.ScanPool
namespace Gorm.ScanPool

/-! ### the pool invariant -/

theorem inv_init : Inv GState.init := by
  constructor <;> simp [GState.init]

theorem updSlot_same (f : Nat → Nat → Option (Nat × Bool)) (t i : Nat) (v : Option (Nat × Bool)) :
    updSlot f t i v t i = v := by
  simp [updSlot]

theorem updSlot_other (f : Nat → Nat → Option (Nat × Bool)) (t i : Nat) (v : Option (Nat × Bool))
    (t' i' : Nat) (h : ¬ (t' = t ∧ i' = i)) : updSlot f t i v t' i' = f t' i' := by
  simp only [updSlot, if_neg h]

theorem isOwned_iff (s : GState) (t i : Nat) :
    isOwned s t i = true ↔ ∃ h, s.slot t i = some (h, true) := by
  simp only [isOwned]
  cases hs : s.slot t i with
  | none => simp
  | some p =>
    obtain ⟨h, b⟩ := p
    cases b <;> simp

/-- binding slot (t, i) to a holder `h` that currently has no place keeps the invariant -/
theorem inv_assign (s : GState) (hI : Inv s) (t i h : Nat) (free' : List Nat) (next' : Nat)
    (hnd : free'.Nodup) (hsub : ∀ x ∈ free', x ∈ s.free) (hle : s.next ≤ next') (hlt : h < next')
    (hnf : h ∉ free') (hfresh : ∀ t' i', s.slot t' i' ≠ some (h, true)) :
    Inv { free := free', next := next', slot := updSlot s.slot t i (some (h, true)) } := by
  refine ⟨hnd, fun x hx => Nat.lt_of_lt_of_le (hI.freeLt x (hsub x hx)) hle, ?_, ?_, ?_⟩
  · intro t' i' h' b hs
    change updSlot _ _ _ _ _ _ = _ at hs
    by_cases hc : t' = t ∧ i' = i
    · obtain ⟨rfl, rfl⟩ := hc
      rw [updSlot_same] at hs
      cases hs
      exact hlt
    · rw [updSlot_other _ _ _ _ _ _ hc] at hs
      exact Nat.lt_of_lt_of_le (hI.slotLt _ _ _ _ hs) hle
  · intro t' i' h' hs
    change updSlot _ _ _ _ _ _ = _ at hs
    by_cases hc : t' = t ∧ i' = i
    · obtain ⟨rfl, rfl⟩ := hc
      rw [updSlot_same] at hs
      cases hs
      exact hnf
    · rw [updSlot_other _ _ _ _ _ _ hc] at hs
      exact fun hm => hI.ownedNotFree _ _ _ hs (hsub _ hm)
  · intro t1 i1 t2 i2 h' hs1 hs2
    change updSlot _ _ _ _ _ _ = _ at hs1
    change updSlot _ _ _ _ _ _ = _ at hs2
    by_cases hc1 : t1 = t ∧ i1 = i
    · by_cases hc2 : t2 = t ∧ i2 = i
      · exact ⟨hc1.1.trans hc2.1.symm, hc1.2.trans hc2.2.symm⟩
      · obtain ⟨rfl, rfl⟩ := hc1
        rw [updSlot_same] at hs1
        cases hs1
        rw [updSlot_other _ _ _ _ _ _ hc2] at hs2
        exact absurd hs2 (hfresh _ _)
    · rw [updSlot_other _ _ _ _ _ _ hc1] at hs1
      by_cases hc2 : t2 = t ∧ i2 = i
      · obtain ⟨rfl, rfl⟩ := hc2
        rw [updSlot_same] at hs2
        cases hs2
        exact absurd hs1 (hfresh _ _)
      · rw [updSlot_other _ _ _ _ _ _ hc2] at hs2
        exact hI.ownedInj _ _ _ _ _ hs1 hs2

/-- putting back an owned slot keeps the invariant -/
theorem inv_release (s : GState) (hI : Inv s) (t i h : Nat) (hs : s.slot t i = some (h, true)) :
    Inv { free := h :: s.free, next := s.next, slot := updSlot s.slot t i (some (h, false)) } := by
  refine ⟨List.nodup_cons.2 ⟨hI.ownedNotFree _ _ _ hs, hI.freeNodup⟩, ?_, ?_, ?_, ?_⟩
  · intro x hx
    rcases List.mem_cons.1 hx with hxh | hx
    · rw [hxh]; exact hI.slotLt _ _ _ _ hs
    · exact hI.freeLt x hx
  · intro t' i' h' b hs'
    change updSlot _ _ _ _ _ _ = _ at hs'
    by_cases hc : t' = t ∧ i' = i
    · obtain ⟨rfl, rfl⟩ := hc
      rw [updSlot_same] at hs'
      cases hs'
      exact hI.slotLt _ _ _ _ hs
    · rw [updSlot_other _ _ _ _ _ _ hc] at hs'
      exact hI.slotLt _ _ _ _ hs'
  · intro t' i' h' hs'
    change updSlot _ _ _ _ _ _ = _ at hs'
    by_cases hc : t' = t ∧ i' = i
    · obtain ⟨rfl, rfl⟩ := hc
      rw [updSlot_same] at hs'
      cases hs'
    · rw [updSlot_other _ _ _ _ _ _ hc] at hs'
      intro hm
      rcases List.mem_cons.1 hm with hxh | hm
      · rw [hxh] at hs'
        exact hc (hI.ownedInj _ _ _ _ _ hs' hs)
      · exact hI.ownedNotFree _ _ _ hs' hm
  · intro t1 i1 t2 i2 h' hs1 hs2
    change updSlot _ _ _ _ _ _ = _ at hs1
    change updSlot _ _ _ _ _ _ = _ at hs2
    by_cases hc1 : t1 = t ∧ i1 = i
    · obtain ⟨rfl, rfl⟩ := hc1
      rw [updSlot_same] at hs1
      cases hs1
    · rw [updSlot_other _ _ _ _ _ _ hc1] at hs1
      by_cases hc2 : t2 = t ∧ i2 = i
      · obtain ⟨rfl, rfl⟩ := hc2
        rw [updSlot_same] at hs2
        cases hs2
      · rw [updSlot_other _ _ _ _ _ _ hc2] at hs2
        exact hI.ownedInj _ _ _ _ _ hs1 hs2

theorem inv_step (s : GState) (e : GEv) (hI : Inv s) (hd : discEv s e = true) : Inv (step s e) := by
  obtain ⟨t, act, pick⟩ := e
  cases act with
  | get i =>
    simp only [step]
    split
    · next h hp =>
      have hmem : h ∈ s.free := by
        cases pick with
        | none => simp at hp
        | some k => exact List.mem_of_getElem? (by simpa using hp)
      exact inv_assign s hI t i h (s.free.erase h) s.next (hI.freeNodup.erase h)
        (fun x hx => List.mem_of_mem_erase hx) (Nat.le_refl _) (hI.freeLt h hmem)
        (fun hm => ((List.Nodup.mem_erase_iff hI.freeNodup).1 hm).1 rfl)
        (fun t' i' hs => hI.ownedNotFree _ _ _ hs hmem)
    · next hp =>
      exact inv_assign s hI t i s.next s.free (s.next + 1) hI.freeNodup (fun x hx => hx)
        (Nat.le_succ _) (Nat.lt_succ_self _)
        (fun hm => Nat.lt_irrefl _ (hI.freeLt _ hm))
        (fun t' i' hs => Nat.lt_irrefl _ (hI.slotLt _ _ _ _ hs))
  | put i =>
    have hown : isOwned s t i = true := by simpa [discEv, actOK] using hd
    obtain ⟨h, hs⟩ := (isOwned_iff s t i).1 hown
    simp only [step, hs]
    exact inv_release s hI t i h hs
  | scan is => exact hI
  | set i => exact hI

theorem safeEv_of_disc (s : GState) (e : GEv) (hI : Inv s) (hd : discEv s e = true) : safeEv s e := by
  obtain ⟨t, act, pick⟩ := e
  intro i hi
  have hown : isOwned s t i = true := by
    cases act with
    | get j => simp [readsOf] at hi
    | put j => simp [readsOf] at hi
    | scan is =>
      simp only [readsOf] at hi
      simp only [discEv, actOK, List.all_eq_true] at hd
      exact hd i hi
    | set j =>
      simp only [readsOf, List.mem_singleton] at hi
      subst hi
      simpa [discEv, actOK] using hd
  obtain ⟨h, hs⟩ := (isOwned_iff s t i).1 hown
  refine ⟨h, hs, hI.ownedNotFree _ _ _ hs, fun t' i' hne hs' => ?_⟩
  have h2 := hI.ownedInj _ _ _ _ _ hs' hs
  rcases hne with h1 | h1
  · exact h1 h2.1
  · exact h1 h2.2

theorem safeAll_of_discAll (es : List GEv) (s : GState) (hI : Inv s) (hd : discAll s es) : safeAll s es := by
  induction es generalizing s with
  | nil => trivial
  | cons e es ih =>
    exact ⟨safeEv_of_disc s e hI hd.1, ih (step s e) (inv_step s e hI hd.1) hd.2⟩

/-! ### the bookkeeping is per goroutine -/

theorem isOwned_step_same (s : GState) (e : GEv) :
    isOwned (step s e) e.t = actOwn (isOwned s e.t) e.act := by
  obtain ⟨t, act, pick⟩ := e
  funext j
  cases act with
  | get i =>
    simp only [step]
    split <;>
    · by_cases hj : j = i
      · subst hj; simp [isOwned, updSlot, actOwn]
      · simp [isOwned, updSlot, actOwn, hj]
  | put i =>
    simp only [step]
    split
    · next h b hs =>
      by_cases hj : j = i
      · subst hj; simp [isOwned, updSlot, actOwn]
      · simp [isOwned, updSlot, actOwn, hj]
    · next hs =>
      by_cases hj : j = i
      · subst hj; simp [isOwned, actOwn, hs]
      · simp [actOwn, hj]
  | scan is => rfl
  | set i => rfl

theorem isOwned_step_other (s : GState) (e : GEv) (t : Nat) (ht : t ≠ e.t) :
    isOwned (step s e) t = isOwned s t := by
  obtain ⟨t0, act, pick⟩ := e
  change t ≠ t0 at ht
  funext j
  cases act with
  | get i => simp only [step]; split <;> simp [isOwned, updSlot, ht]
  | put i => simp only [step]; split <;> simp [isOwned, updSlot, ht]
  | scan is => rfl
  | set i => rfl

theorem discAll_of_localOK (es : List GEv) (s : GState)
    (h : ∀ t, localOK (proj t es) (isOwned s t) = true) : discAll s es := by
  induction es generalizing s with
  | nil => trivial
  | cons e es ih =>
    have he := h e.t
    have hproj : proj e.t (e :: es) = e.act :: proj e.t es := by simp [proj]
    rw [hproj] at he
    simp only [localOK, Bool.and_eq_true] at he
    refine ⟨he.1, ih (step s e) fun t => ?_⟩
    by_cases ht : t = e.t
    · subst ht
      rw [isOwned_step_same]
      exact he.2
    · rw [isOwned_step_other s e t ht]
      have hp : proj t (e :: es) = proj t es := by
        have : (e.t == t) = false := by simpa using fun h' => ht h'.symm
        simp [proj, this]
      have := h t
      rwa [hp] at this

/-! ### one goroutine -/

theorem localOK_append (a b : List Act) (own : Own) :
    localOK (a ++ b) own = (localOK a own && localOK b (ownAfter a own)) := by
  induction a generalizing own with
  | nil => simp [localOK, ownAfter]
  | cons x a ih => simp [localOK, ownAfter, ih, Bool.and_assoc]

theorem ownAfter_append (a b : List Act) (own : Own) :
    ownAfter (a ++ b) own = ownAfter b (ownAfter a own) := by
  induction a generalizing own with
  | nil => simp [ownAfter]
  | cons x a ih => simp [ownAfter, ih]

/-- the Set(s)-then-Put body of a disciplined post loop -/
def postStmts (k : Nat) : List PStmt := List.replicate k .set ++ [.put .always false]

/-- what that body does with slot i -/
def postActs (k i : Nat) : List Act := List.replicate k (.set i) ++ [.put i]

/-- the actions of one row of a disciplined skeleton -/
def rowActs (k : Nat) (fs : List Nat) : List Act :=
  fs.map .get ++ ([.scan fs] ++ fs.flatMap (postActs k))

/-- the disciplined skeleton with k Sets before the Put -/
def discSk (k : Nat) : Skeleton := [.fieldLoop [.get .always], .scanAll, .fieldLoop (postStmts k)]

theorem post_shape (post : List PStmt) (h : post.dropWhile (· == .set) = [.put .always false]) :
    ∃ k, post = postStmts k := by
  induction post with
  | nil => simp at h
  | cons p ps ih =>
    by_cases hp : p = .set
    · subst hp
      simp only [List.dropWhile_cons, beq_self_eq_true, if_true] at h
      obtain ⟨k, rfl⟩ := ih h
      exact ⟨k + 1, by simp [postStmts, List.replicate_succ]⟩
    · have hb : (p == PStmt.set) = false := by simpa using hp
      simp only [List.dropWhile_cons, hb] at h
      exact ⟨0, by simpa [postStmts] using h⟩

theorem disciplined_shape (sk : Skeleton) (hd : disciplined sk = true) : ∃ k, sk = discSk k := by
  unfold disciplined at hd
  split at hd
  · next post =>
    obtain ⟨k, rfl⟩ := post_shape post (by simpa using hd)
    exact ⟨k, rfl⟩
  · simp at hd

theorem loopRun_get (ch : Nat → Bool) (st : RunSt) (fs : List Nat) :
    loopRun ch [.get .always] st fs = ({ st with nonNil := fs.reverse ++ st.nonNil }, fs.map .get) := by
  induction fs generalizing st with
  | nil => simp [loopRun]
  | cons i fs ih => simp [loopRun, bodyRun, stmtsRun, stmtRun, guardOn, ih]

theorem stmtsRun_post (ch : Nat → Bool) (nn : List Nat) (i : Nat) (st : RunSt) (k : Nat) :
    stmtsRun ch nn i st (postStmts k) = (st, postActs k i) := by
  induction k with
  | zero => simp [postStmts, postActs, stmtsRun, stmtRun, guardOn]
  | succ k ih =>
    have h1 : postStmts (k + 1) = .set :: postStmts k := by simp [postStmts, List.replicate_succ]
    have h2 : postActs (k + 1) i = .set i :: postActs k i := by simp [postActs, List.replicate_succ]
    rw [h1, h2]
    simp [stmtsRun, stmtRun, ih]

theorem loopRun_post (ch : Nat → Bool) (k : Nat) (st : RunSt) (fs : List Nat) :
    loopRun ch (postStmts k) st fs = (st, fs.flatMap (postActs k)) := by
  induction fs with
  | nil => simp [loopRun]
  | cons i fs ih => simp [loopRun, bodyRun, stmtsRun_post, ih]

theorem rowRun_disc (ch : Nat → Bool) (fs : List Nat) (k : Nat) (st : RunSt) (hst : st.defers = []) :
    rowRun ch fs (discSk k) st = ({ nonNil := fs.reverse ++ st.nonNil, defers := [] }, rowActs k fs) := by
  simp [rowRun, discSk, topsRun, topRun, loopRun_get, loopRun_post, hst, rowActs]

theorem gets_ok (fs : List Nat) (own : Own) :
    localOK (fs.map .get) own = true ∧ ownAfter (fs.map .get) own = fun j => fs.contains j || own j := by
  induction fs generalizing own with
  | nil => simp [localOK, ownAfter]
  | cons i fs ih =>
    obtain ⟨h1, h2⟩ := ih (actOwn own (.get i))
    refine ⟨by simp [localOK, actOK, h1], ?_⟩
    simp only [List.map_cons, ownAfter, h2]
    funext j
    simp only [actOwn, List.contains_cons]
    cases fs.contains j <;> cases (j == i) <;> simp

theorem postActs_ok (k i : Nat) (own : Own) (hi : own i = true) :
    localOK (postActs k i) own = true ∧ ownAfter (postActs k i) own = actOwn own (.put i) := by
  induction k with
  | zero => simp [postActs, localOK, ownAfter, actOK, hi]
  | succ k ih =>
    have h2 : postActs (k + 1) i = .set i :: postActs k i := by simp [postActs, List.replicate_succ]
    rw [h2]
    simp only [localOK, ownAfter, actOK, actOwn, hi, Bool.true_and]
    exact ih

theorem postLoop_ok (k : Nat) (fs : List Nat) (hfs : fs.Nodup) (own : Own)
    (hown : ∀ i ∈ fs, own i = true) :
    localOK (fs.flatMap (postActs k)) own = true ∧
    ownAfter (fs.flatMap (postActs k)) own = fun j => !fs.contains j && own j := by
  induction fs generalizing own with
  | nil => simp [localOK, ownAfter]
  | cons i fs ih =>
    obtain ⟨hni, hfs'⟩ := List.nodup_cons.1 hfs
    obtain ⟨h1, h2⟩ := postActs_ok k i own (hown i (by simp))
    have hown' : ∀ x ∈ fs, actOwn own (.put i) x = true := by
      intro x hx
      have hxi : x ≠ i := fun h => hni (h ▸ hx)
      simp [actOwn, hxi, hown x (List.mem_cons_of_mem _ hx)]
    obtain ⟨h3, h4⟩ := ih hfs' _ hown'
    rw [List.flatMap_cons, localOK_append, ownAfter_append, h1, h2, h3, h4]
    refine ⟨rfl, ?_⟩
    funext j
    simp only [actOwn, List.contains_cons, bne]
    cases fs.contains j <;> cases (j == i) <;> simp

theorem rowActs_ok (k : Nat) (fs : List Nat) (hfs : fs.Nodup) :
    localOK (rowActs k fs) noneOwned = true ∧ ownAfter (rowActs k fs) noneOwned = noneOwned := by
  obtain ⟨g1, g2⟩ := gets_ok fs noneOwned
  have hall : ∀ i ∈ fs, (fun j => fs.contains j || noneOwned j) i = true := by
    intro i hi
    simp [hi]
  obtain ⟨p1, p2⟩ := postLoop_ok k fs hfs _ hall
  have hscan : actOK (fun j => fs.contains j || noneOwned j) (.scan fs) = true := by
    simp only [actOK, List.all_eq_true]
    exact hall
  unfold rowActs
  rw [localOK_append, ownAfter_append, g1, g2, List.singleton_append]
  simp only [localOK, ownAfter, actOwn, p1, p2, hscan, Bool.and_self, true_and]
  funext j
  simp [noneOwned]

theorem rowsRun_ok (ch : Nat → Bool) (k : Nat) (fs : List Nat) (hfs : fs.Nodup) (n : Nat) (st : RunSt)
    (hst : st.defers = []) :
    localOK (rowsRun ch fs (discSk k) n st) noneOwned = true ∧
    ownAfter (rowsRun ch fs (discSk k) n st) noneOwned = noneOwned := by
  induction n generalizing st with
  | zero => simp [rowsRun, localOK, ownAfter]
  | succ n ih =>
    obtain ⟨r1, r2⟩ := rowActs_ok k fs hfs
    obtain ⟨i1, i2⟩ := ih { nonNil := fs.reverse ++ st.nonNil, defers := [] } rfl
    simp only [rowsRun, rowRun_disc ch fs k st hst]
    rw [localOK_append, ownAfter_append, r1, r2, i1, i2]
    exact ⟨rfl, rfl⟩

/-
  FALSE AS STATED (kept for the record): `st` is arbitrary, so it may carry pending deferred Puts
  (`st.defers ≠ []`) from "before" the first row; `rowRun` flushes them at the end of the first row as `.put`
  actions on slots the goroutine does not own.  See `rowsRun_localOK_false_with_pending_defers` below.

theorem rowsRun_localOK (sk : Skeleton) (hd : disciplined sk = true) (ch : Nat → Bool) (fs : List Nat)
    (hfs : fs.Nodup) (n : Nat) (st : RunSt) :
    localOK (rowsRun ch fs sk n st) noneOwned = true ∧
    ∀ i, ownAfter (rowsRun ch fs sk n st) noneOwned i = false   -- no proof exists: refuted below
-/

/-- counterexample to the unrestricted statement: a disciplined skeleton, no field columns, one row, but a
    pending deferred Put of slot 0 in the initial `RunSt` -/
theorem rowsRun_localOK_false_with_pending_defers :
    ¬ ∀ (sk : Skeleton), disciplined sk = true → ∀ (ch : Nat → Bool) (fs : List Nat), fs.Nodup →
      ∀ (n : Nat) (st : RunSt),
        localOK (rowsRun ch fs sk n st) noneOwned = true ∧
        ∀ i, ownAfter (rowsRun ch fs sk n st) noneOwned i = false := by
  intro h
  have := (h [.fieldLoop [.get .always], .scanAll, .fieldLoop [.put .always false]] (by decide)
    (fun _ => false) [] List.nodup_nil 1 { nonNil := [], defers := [0] }).1
  revert this
  decide

/-- a disciplined skeleton: for every number of rows, every (duplicate-free) list of field columns, every oracle
    and every initial nil-ness of the slots (no deferred Put pending when the first row starts) the goroutine's
    actions respect its bookkeeping and leave nothing owned -/
theorem rowsRun_localOK' (sk : Skeleton) (hd : disciplined sk = true) (ch : Nat → Bool) (fs : List Nat)
    (hfs : fs.Nodup) (n : Nat) (st : RunSt) (hst : st.defers = []) :
    localOK (rowsRun ch fs sk n st) noneOwned = true ∧
    ∀ i, ownAfter (rowsRun ch fs sk n st) noneOwned i = false := by
  obtain ⟨k, rfl⟩ := disciplined_shape sk hd
  obtain ⟨h1, h2⟩ := rowsRun_ok ch k fs hfs n st hst
  exact ⟨h1, fun i => by rw [h2]; rfl⟩

/-- several result sets one after the other (each with its own `values` slice) -/
def resultSets (ch : Nat → Bool) (sk : Skeleton) (qs : List (List Nat × Nat)) : List Act :=
  qs.flatMap fun q => rowsRun ch q.1 sk q.2 {}

theorem resultSets_localOK (sk : Skeleton) (hd : disciplined sk = true) (ch : Nat → Bool)
    (qs : List (List Nat × Nat)) (hfs : ∀ q ∈ qs, q.1.Nodup) :
    localOK (resultSets ch sk qs) noneOwned = true ∧
    ∀ i, ownAfter (resultSets ch sk qs) noneOwned i = false := by
  induction qs with
  | nil => simp [resultSets, localOK, ownAfter, noneOwned]
  | cons q qs ih =>
    obtain ⟨r1, r2⟩ := rowsRun_localOK' sk hd ch q.1 (hfs q (by simp)) q.2 {} rfl
    have r2' : ownAfter (rowsRun ch q.1 sk q.2 {}) noneOwned = noneOwned := funext r2
    obtain ⟨i1, i2⟩ := ih (fun q' hq' => hfs q' (List.mem_cons_of_mem _ hq'))
    have hc : resultSets ch sk (q :: qs) = rowsRun ch q.1 sk q.2 {} ++ resultSets ch sk qs := by
      simp [resultSets]
    rw [hc, localOK_append, ownAfter_append, r1, r2']
    exact ⟨by simpa using i1, i2⟩

/-- ANY number of goroutines, each reading ANY sequence of result sets (any numbers of rows, any field columns)
    through a disciplined scanIntoStruct, interleaved in ANY way on one pool that hands out pooled holders in ANY
    order: every holder a row scans into or reads is, at that moment, not in the pool and not the target of any
    other owned slot of any goroutine. -/
theorem concurrent_scans_safe (sk : Skeleton) (hd : disciplined sk = true) (es : List GEv)
    (ch : Nat → Nat → Bool) (qs : Nat → List (List Nat × Nat)) (hfs : ∀ t, ∀ q ∈ qs t, q.1.Nodup)
    (hint : IsInterleaving es (fun t => resultSets (ch t) sk (qs t))) :
    safeAll GState.init es := by
  refine safeAll_of_discAll es GState.init inv_init (discAll_of_localOK es _ fun t => ?_)
  have hinit : isOwned GState.init t = noneOwned := by
    funext i
    rfl
  rw [hint t, hinit]
  exact (resultSets_localOK sk hd (ch t) (qs t) (hfs t)).1

end Gorm.ScanPool
