/-
  Lemmas for C20 round 4 (Model/MigrateCols.lean): the column-ownership loop of schema.Parse yields ONE declaration per
  column name; `stmt.Table` of a schema-qualified name is the bare name.
-/
import GormModel.Model.MigrateCols
namespace Gorm.Mig

/-! ### association-list helpers -/

theorem update_keys {β} (k : Str) (g : β → β) (l : List (Str × β)) : (update k g l).map (·.1) = l.map (·.1) := by
  induction l with
  | nil => rfl
  | cons p r ih =>
    rcases p with ⟨k', v⟩
    by_cases hk : k' = k
    · simp [update, hk]
    · simp [update, hk, ih]

theorem lookup_none_iff {β} (k : Str) (l : List (Str × β)) : lookup k l = none ↔ k ∉ l.map (·.1) := by
  induction l with
  | nil => simp [lookup]
  | cons p r ih =>
    rcases p with ⟨k', v⟩
    by_cases hk : k' = k
    · simp [lookup, hk]
    · have hk' : ¬ k = k' := fun e => hk e.symm
      simp [lookup, hk, hk', ih]

theorem mem_update {β} (k : Str) (g : β → β) (l : List (Str × β)) (p : Str × β) (hp : p ∈ update k g l) :
    p ∈ l ∨ ∃ v, (k, v) ∈ l ∧ p = (k, g v) := by
  induction l with
  | nil => simp [update] at hp
  | cons q r ih =>
    rcases q with ⟨k', v⟩
    by_cases hk : k' = k
    · simp only [update, hk, if_true] at hp
      rcases List.mem_cons.mp hp with rfl | h
      · right; exact ⟨v, by simp [hk], rfl⟩
      · left; simp [h]
    · simp only [update, hk, if_false] at hp
      rcases List.mem_cons.mp hp with rfl | h
      · left; simp
      · rcases ih h with h' | ⟨w, hw, e⟩
        · left; simp [h']
        · right; exact ⟨w, by simp [hw], e⟩

/-! ### the ownership loop -/

/-- invariant of `ownStep`: keys are pairwise distinct, non-empty, and every entry is filed under its own column name -/
def OwnInv (s : List (Str × RawField)) : Prop :=
  (s.map (·.1)).Nodup ∧ ∀ p ∈ s, p.2.decl.dbName = p.1 ∧ p.1 ≠ []

theorem ownInv_nil : OwnInv [] := by simp [OwnInv]

theorem ownStep_inv (s : List (Str × RawField)) (f : RawField) (h : OwnInv s) : OwnInv (ownStep s f) := by
  unfold ownStep
  by_cases he : f.decl.dbName = []
  · simp [he, h]
  · simp only [he, if_false]
    cases hl : lookup f.decl.dbName s with
    | none =>
      have hn := (lookup_none_iff _ _).mp hl
      refine ⟨?_, ?_⟩
      · rw [List.map_append, List.nodup_append]
        refine ⟨h.1, by simp, ?_⟩
        intro a ha b hb
        simp at hb
        subst hb
        intro e
        exact hn (e ▸ ha)
      · intro p hp
        rcases List.mem_append.mp hp with hp | hp
        · exact h.2 p hp
        · simp at hp
          subst hp
          exact ⟨rfl, he⟩
    | some v =>
      by_cases hc : (f.perm && decide (f.depth < v.depth)) = true
      · simp only [hc, if_true]
        refine ⟨by rw [update_keys]; exact h.1, ?_⟩
        intro p hp
        rcases mem_update _ _ _ _ hp with hp | ⟨w, hw, e⟩
        · exact h.2 p hp
        · subst e
          exact ⟨rfl, he⟩
      · simp only [hc]
        exact h

theorem foldl_ownStep_inv (raw : List RawField) (s : List (Str × RawField)) (h : OwnInv s) :
    OwnInv (raw.foldl ownStep s) := by
  induction raw generalizing s with
  | nil => exact h
  | cons f r ih => exact ih _ (ownStep_inv s f h)

theorem owners_inv (raw : List RawField) : OwnInv (owners raw) := foldl_ownStep_inv raw [] ownInv_nil

/-- the keys only grow, in place -/
theorem ownStep_keys_mono (s : List (Str × RawField)) (f : RawField) (k : Str) (hk : k ∈ s.map (·.1)) :
    k ∈ (ownStep s f).map (·.1) := by
  unfold ownStep
  by_cases he : f.decl.dbName = []
  · simp [he, hk]
  · simp only [he, if_false]
    cases hl : lookup f.decl.dbName s with
    | none => simp only [List.map_append, List.mem_append]; left; exact hk
    | some v =>
      by_cases hc : (f.perm && decide (f.depth < v.depth)) = true
      · simp only [hc, if_true, update_keys]; exact hk
      · simp only [hc]; exact hk

theorem ownStep_keys_self (s : List (Str × RawField)) (f : RawField) (he : f.decl.dbName ≠ []) :
    f.decl.dbName ∈ (ownStep s f).map (·.1) := by
  unfold ownStep
  simp only [he, if_false]
  cases hl : lookup f.decl.dbName s with
  | none => simp
  | some v =>
    have : f.decl.dbName ∈ s.map (·.1) := by
      apply Classical.byContradiction
      intro hn
      rw [(lookup_none_iff _ _).mpr hn] at hl
      cases hl
    by_cases hc : (f.perm && decide (f.depth < v.depth)) = true
    · simp only [hc, if_true, update_keys]; exact this
    · simp only [hc]; exact this

theorem foldl_ownStep_keys_mono (raw : List RawField) (s : List (Str × RawField)) (k : Str) (hk : k ∈ s.map (·.1)) :
    k ∈ (raw.foldl ownStep s).map (·.1) := by
  induction raw generalizing s with
  | nil => exact hk
  | cons f r ih => exact ih _ (ownStep_keys_mono s f k hk)

theorem foldl_ownStep_complete (raw : List RawField) (s : List (Str × RawField)) (f : RawField) (hf : f ∈ raw)
    (he : f.decl.dbName ≠ []) : f.decl.dbName ∈ (raw.foldl ownStep s).map (·.1) := by
  induction raw generalizing s with
  | nil => cases hf
  | cons g r ih =>
    rcases List.mem_cons.mp hf with rfl | hr
    · exact foldl_ownStep_keys_mono r _ _ (ownStep_keys_self s f he)
    · exact ih _ hr

/-- every entry of the result is a field of the input (or was there before) -/
theorem ownStep_from (s : List (Str × RawField)) (f : RawField) (p : Str × RawField) (hp : p ∈ ownStep s f) :
    p ∈ s ∨ p.2 = f := by
  unfold ownStep at hp
  by_cases he : f.decl.dbName = []
  · simp [he] at hp; left; exact hp
  · simp only [he, if_false] at hp
    cases hl : lookup f.decl.dbName s with
    | none =>
      rw [hl] at hp
      rcases List.mem_append.mp hp with hp | hp
      · left; exact hp
      · simp at hp; right; simp [hp]
    | some v =>
      rw [hl] at hp
      by_cases hc : (f.perm && decide (f.depth < v.depth)) = true
      · simp only [hc, if_true] at hp
        rcases mem_update _ _ _ _ hp with hp | ⟨w, _, e⟩
        · left; exact hp
        · right; simp [e]
      · simp only [hc] at hp
        left; exact hp

theorem foldl_ownStep_from (raw : List RawField) (s : List (Str × RawField)) (p : Str × RawField)
    (hp : p ∈ raw.foldl ownStep s) : p ∈ s ∨ p.2 ∈ raw := by
  induction raw generalizing s with
  | nil => left; exact hp
  | cons f r ih =>
    rcases ih _ hp with h | h
    · rcases ownStep_from s f p h with h | h
      · left; exact h
      · right; simp [h]
    · right; simp [h]

/-! ### what AutoMigrate's column loop inherits -/

/-- `Schema.DBNames` holds every column name once -/
theorem resolveColumns_nodup (raw : List RawField) : ((resolveColumns raw).map (·.dbName)).Nodup := by
  have h := owners_inv raw
  have e : (resolveColumns raw).map (·.dbName) = (owners raw).map (·.1) := by
    unfold resolveColumns
    rw [List.map_map]
    apply List.map_congr_left
    intro p hp
    exact (h.2 p hp).1
  rw [e]
  exact h.1

/-- … and misses none: every struct field that maps to a column finds its column name in the list -/
theorem resolveColumns_complete (raw : List RawField) (f : RawField) (hf : f ∈ raw) (he : f.decl.dbName ≠ []) :
    f.decl.dbName ∈ (resolveColumns raw).map (·.dbName) := by
  have h := owners_inv raw
  have e : (resolveColumns raw).map (·.dbName) = (owners raw).map (·.1) := by
    unfold resolveColumns
    rw [List.map_map]
    apply List.map_congr_left
    intro p hp
    exact (h.2 p hp).1
  rw [e]
  exact foldl_ownStep_complete raw [] f hf he

/-- the owner of a column is one of the struct's fields -/
theorem resolveColumns_from_raw (raw : List RawField) (d : FieldDecl) (hd : d ∈ resolveColumns raw) :
    ∃ f ∈ raw, f.decl = d := by
  unfold resolveColumns at hd
  rcases List.mem_map.mp hd with ⟨p, hp, e⟩
  rcases foldl_ownStep_from raw [] p hp with h | h
  · cases h
  · exact ⟨p.2, h, e⟩

/-- ADD COLUMN is issued at most once per column name when the visited declarations have distinct column names -/
theorem addedNames_columnDDL_subset (t : Str) (cols : List (Str × ColumnInfo)) (fs : List FieldDecl) :
    ∀ n ∈ addedNames (columnDDL t cols fs), n ∈ fs.map (·.dbName) := by
  induction fs with
  | nil => simp [columnDDL, addedNames]
  | cons f r ih =>
    intro n hn
    simp only [columnDDL] at hn
    have split : ∀ (a b : List DDL), addedNames (a ++ b) = addedNames a ++ addedNames b := by
      intro a b
      induction a with
      | nil => rfl
      | cons d ds iha => cases d <;> simp [addedNames, iha]
    rw [split] at hn
    rcases List.mem_append.mp hn with h | h
    · have : n = f.dbName := by
        cases hl : lookup f.dbName cols with
        | none =>
          rw [hl] at h
          by_cases hi : f.ignoreMigration = true
          · simp [hi, addedNames] at h
          · simp [hi, addedNames] at h; exact h
        | some ci =>
          rw [hl] at h
          exfalso
          have : ∀ (as : List ColAct), addedNames (as.map (colDDL t f)) = [] := by
            intro as
            induction as with
            | nil => rfl
            | cons a r iha => cases a <;> simp [colDDL, addedNames, iha]
          simp [this] at h
      simp [this]
    · simp only [List.map_cons, List.mem_cons]; right; exact ih n h

theorem addedNames_append (a b : List DDL) : addedNames (a ++ b) = addedNames a ++ addedNames b := by
  induction a with
  | nil => rfl
  | cons d ds iha => cases d <;> simp [addedNames, iha]

theorem addedNames_colActs (t : Str) (f : FieldDecl) (as : List ColAct) : addedNames (as.map (colDDL t f)) = [] := by
  induction as with
  | nil => rfl
  | cons a r iha => cases a <;> simp [colDDL, addedNames, iha]

theorem addedNames_columnDDL_nodup (t : Str) (cols : List (Str × ColumnInfo)) (fs : List FieldDecl)
    (h : (fs.map (·.dbName)).Nodup) : (addedNames (columnDDL t cols fs)).Nodup := by
  induction fs with
  | nil => simp [columnDDL, addedNames]
  | cons f r ih =>
    simp only [List.map_cons, List.nodup_cons] at h
    simp only [columnDDL, addedNames_append]
    have hr := ih h.2
    cases hl : lookup f.dbName cols with
    | some ci => simp [addedNames_colActs, hr]
    | none =>
      by_cases hi : f.ignoreMigration = true
      · simp [hi, addedNames, hr]
      · have hi' : f.ignoreMigration = false := by cases hf : f.ignoreMigration <;> simp_all
        simp only [hi', addedNames, Bool.false_eq_true, if_false, List.cons_append, List.nil_append, List.nodup_cons]
        refine ⟨?_, hr⟩
        intro hm
        exact h.1 (addedNames_columnDDL_subset t cols r _ hm)

/-! ### table names -/

theorem splitOn_undotted (s : Str) (h : Undotted s) : splitOn '.' s = [s] := by
  induction s with
  | nil => rfl
  | cons c cs ih =>
    have hc : c ≠ '.' := fun e => h (by simp [e])
    have hcs : Undotted cs := fun m => h (by simp [m])
    simp [splitOn, hc, ih hcs]

theorem splitOn_qualified (a b : Str) (ha : Undotted a) (hb : Undotted b) : splitOn '.' (a ++ '.' :: b) = [a, b] := by
  induction a with
  | nil => simp [splitOn, splitOn_undotted b hb]
  | cons c cs ih =>
    have hc : c ≠ '.' := fun e => ha (by simp [e])
    have hcs : Undotted cs := fun m => ha (by simp [m])
    simp [splitOn, hc, ih hcs]

/-- an unqualified table name is its own `stmt.Table` -/
theorem stmtTable_undotted (s : Str) (h : Undotted s) : stmtTable s = s := by
  simp [stmtTable, splitOn_undotted s h]

/-- `schema.table` ⇒ `stmt.Table = table` -/
theorem stmtTable_qualified (a b : Str) (ha : Undotted a) (hb : Undotted b) : stmtTable (a ++ '.' :: b) = b := by
  simp [stmtTable, splitOn_qualified a b ha hb]

end Gorm.Mig
