/-
  Lemmas about the registration builder (Model/CallbackBuilder.lean): when every chain method keeps all the fields it
  does not set, the record a chain registers is the LAST Before, the LAST After and the Match of the chain.
-/
import GormModel.Model.CallbackBuilder
namespace Gorm
namespace BldL
open CbB

/-- the tables a tree must show for the builder to mean what its spelling says: every starter zeroes everything but
    its own field, every chain method / finisher KEEPS every field it does not set (whether it mutates the receiver
    or returns a complete copy does not matter), a method returning a fresh builder leaves its receiver alone -/
def Canon (T : BuilderFacts) : Prop :=
  T.procBefore = starter "before" ∧ T.procAfter = starter "after" ∧ T.procMatch = starter "match" ∧
  T.procPlain = starter "" ∧
  T.cbBefore = { before := .param0 } ∧ T.cbAfter = { after := .param0 } ∧
  T.cbRegister = { name := .param0, handler := .param1 } ∧
  T.cbReplace = { name := .param0, handler := .param1, replace := .tru } ∧
  T.cbRemove = { name := .param0, remove := .tru } ∧
  (T.beforeFresh = true → T.cbBeforeRecv = {}) ∧ (T.afterFresh = true → T.cbAfterRecv = {}) ∧
  T.finishersPlain = true ∧ T.noOtherChainMethods = true ∧
  (T.beforeFresh = false → T.cbBeforeRecv = T.cbBefore) ∧ (T.afterFresh = false → T.cbAfterRecv = T.cbAfter)

instance (T : BuilderFacts) : Decidable (Canon T) := by unfold Canon; infer_instance

theorem canonical_canon : Canon BuilderFacts.canonical := by decide

def stepBefore (acc : String) : Step → String
  | .before x => x
  | .after _ => acc

def stepAfter (acc : String) : Step → String
  | .after x => x
  | .before _ => acc

theorem lastBefore_eq (ch : Chain) :
    ch.lastBefore = ch.steps.foldl stepBefore (match ch.start with | .before x => x | _ => "") := by
  unfold Chain.lastBefore
  congr 1

theorem lastAfter_eq (ch : Chain) :
    ch.lastAfter = ch.steps.foldl stepAfter (match ch.start with | .after x => x | _ => "") := by
  unfold Chain.lastAfter
  congr 1

/-- the chain methods touch `before` / `after` only, and the last call of each kind wins -/
theorem foldl_steps (T : BuilderFacts) (hB : T.cbBefore = { before := .param0 }) (hA : T.cbAfter = { after := .param0 })
    (steps : List Step) (b : Bld) :
    steps.foldl (Step.run T) b =
      { b with before := steps.foldl stepBefore b.before, after := steps.foldl stepAfter b.after } := by
  induction steps generalizing b with
  | nil => rfl
  | cons s rest ih =>
    rw [List.foldl_cons, ih]
    cases s <;>
      simp [Step.run, hB, hA, Shape.apply, Src.str, Src.bool, Src.pred, Src.hnd, stepBefore, stepAfter]

theorem start_run (T : BuilderFacts) (h : Canon T) (s : Start) :
    s.run T = { before := (match s with | .before x => x | _ => ""),
                after := (match s with | .after x => x | _ => ""),
                mtch := (match s with | .mtch p => p | _ => none) } := by
  obtain ⟨h1, h2, h3, h4, _⟩ := h
  cases s <;>
    simp [Start.run, h1, h2, h3, h4, starter, Shape.apply, Src.str, Src.bool, Src.pred, Src.hnd]

/-- the builder handed to the finisher -/
theorem builder_eq (T : BuilderFacts) (h : Canon T) (ch : Chain) :
    ch.builder T = { before := ch.lastBefore, after := ch.lastAfter, mtch := ch.pred } := by
  have hB := h.2.2.2.2.1
  have hA := h.2.2.2.2.2.1
  unfold Chain.builder
  rw [foldl_steps T hB hA, start_run T h, lastBefore_eq, lastAfter_eq]
  cases hs : ch.start <;> simp [Chain.pred, hs]

/-- the record the finisher appends -/
theorem record_eq (T : BuilderFacts) (h : Canon T) (ch : Chain) : ch.record T = ch.request := by
  have hR := h.2.2.2.2.2.2.1
  have hP := h.2.2.2.2.2.2.2.1
  have hM := h.2.2.2.2.2.2.2.2.1
  unfold Chain.record Chain.request
  rw [builder_eq T h]
  cases ch.fin <;>
    simp [Finish.run, hR, hP, hM, Shape.apply, Src.str, Src.bool, Src.pred, Src.hnd]

/-- methods that MUTATE their receiver: throwing their results away changes nothing -/
theorem recordDropped_eq (T : BuilderFacts) (h : Canon T) (hb : T.beforeFresh = false) (ha : T.afterFresh = false)
    (ch : Chain) : ch.recordDropped T = ch.record T := by
  have hB := h.2.2.2.2.2.2.2.2.2.2.2.2.2.1 hb
  have hA := h.2.2.2.2.2.2.2.2.2.2.2.2.2.2 ha
  unfold Chain.recordDropped Chain.record Chain.builder
  have : Step.runRecv T = Step.run T := by
    funext b s
    cases s <;> simp [Step.runRecv, Step.run, hB, hA]
  rw [this]

/-! ## chains as `RegOp`s -/

/-- the `RegOp` of a chain (the history theorems of Props/C17 are stated over `RegOp`s) -/
def toRegOp (ch : Chain) : RegOp :=
  match ch.fin with
  | .register n h => .register n ch.lastBefore ch.lastAfter (ch.pred.getD true) h
  | .replace n h => .replace n ch.lastBefore ch.lastAfter h
  | .remove n => .remove n

/-- chains whose record IS the record of their `RegOp`: every Register chain, Replace chains whose Match (if any)
    is true, Remove chains without request and without a false Match -/
def Expressible (ch : Chain) : Prop :=
  match ch.fin with
  | .register _ _ => True
  | .replace _ _ => ch.pred.getD true = true
  | .remove _ => ch.lastBefore = "" ∧ ch.lastAfter = "" ∧ ch.pred.getD true = true

theorem request_toCb (ch : Chain) (he : Expressible ch) : ch.request.toCb = (toRegOp ch).toCb := by
  unfold Expressible at he
  unfold Chain.request toRegOp
  cases hf : ch.fin <;> simp [hf] at he ⊢ <;> simp [Bld.toCb, RegOp.toCb, he]

theorem runCbsR_map_toCb (r : CbRepairs) (ops : List RegOp) (p : Proc) (acc : List (Option SortErr)) :
    (ops.map RegOp.toCb).foldl (fun (a : Proc × List (Option SortErr)) c =>
        let (p', e) := a.1.applyCbR r c
        (p', a.2 ++ [e])) (p, acc) =
    ops.foldl (fun (a : Proc × List (Option SortErr)) op =>
        let (p', e) := a.1.applyR r op
        (p', a.2 ++ [e])) (p, acc) := by
  rw [List.foldl_map]
  rfl

/-- a Remove record is dropped by the very compile it triggers, whatever request / Match its builder carried:
    only its NAME matters -/
theorem applyCbR_remove_record (r : CbRepairs) (p : Proc) (c : Cb) (hc : c.remove = true) :
    p.applyCbR r c = p.applyCbR r { name := c.name, remove := true } := by
  unfold Proc.applyCbR Proc.compileR
  have hrem : ∀ (d : Cb), d.remove = true → d.name = c.name →
      (let cbs := (p.callbacks ++ [d]).filter (·.matchOk)
       let removed := ((p.callbacks ++ [d]).filter (·.remove)).map (·.name)
       if removed.isEmpty then cbs else removeCallbacks cbs removed) =
      removeCallbacks (p.callbacks.filter (·.matchOk)) (((p.callbacks.filter (·.remove)).map (·.name)) ++ [c.name]) := by
    intro d hd hn
    simp only [List.filter_append, List.map_append]
    have : ([d].filter (·.remove)) = [d] := by simp [hd]
    rw [this]
    simp only [List.map_cons, List.map_nil, hn]
    have hne : ((List.map (fun x => x.name) (List.filter (fun x => x.remove) p.callbacks) ++ [c.name]).isEmpty) = false := by
      cases (List.map (fun x => x.name) (List.filter (fun x => x.remove) p.callbacks)) <;> rfl
    rw [hne]
    simp only [Bool.false_eq_true, if_false]
    unfold removeCallbacks
    rw [List.filter_append]
    have : (List.filter (fun c_1 => !(List.map (fun x => x.name) (List.filter (fun x => x.remove) p.callbacks) ++ [c.name]).contains c_1.name)
        (List.filter (fun x => x.matchOk) [d])) = [] := by
      by_cases hm : d.matchOk = true <;> simp [hm, hn]
    rw [this, List.append_nil]
  have h1 := hrem c hc rfl
  have h2 := hrem { name := c.name, remove := true } rfl rfl
  simp only at h1 h2 ⊢
  rw [h1, h2]

/-! ## pointer identity -/

theorem filterMap_congr' {α β : Type} (f g : α → Option β) (l : List α) (h : ∀ x ∈ l, f x = g x) :
    l.filterMap f = l.filterMap g := by
  induction l with
  | nil => rfl
  | cons x xs ih =>
    have hx := h x (List.mem_cons_self ..)
    have hxs := ih (fun y hy => h y (List.mem_cons_of_mem _ hy))
    simp [List.filterMap_cons, hx, hxs]

theorem view_alloc (t : PtrTable) (b : Bld) (hwf : ∀ i ∈ t.table, i < t.cells.length) :
    (t.alloc b).1.view = t.view := by
  unfold PtrTable.alloc PtrTable.view
  simp only
  apply filterMap_congr'
  intro i hi
  have := hwf i hi
  simp [List.getElem?_append_left this]

/-- VALUE SEMANTICS for builders used once: a finisher through a pointer that is not in the table yet appends one
    record and changes nothing else -/
theorem view_finish_fresh (T : BuilderFacts) (t : PtrTable) (i : Nat) (f : Finish) (b : Bld)
    (hcell : t.cells[i]? = some b) (hfresh : i ∉ t.table) :
    (t.finish T i f).view = t.view ++ [f.run T b] := by
  unfold PtrTable.finish PtrTable.view
  simp only [List.filterMap_append]
  congr 1
  · apply filterMap_congr'
    intro j hj
    have hne : i ≠ j := fun h => hfresh (h ▸ hj)
    simp [List.getElem?_modify, hne]
  · simp [List.getElem?_modify, hcell]

end BldL
end Gorm
