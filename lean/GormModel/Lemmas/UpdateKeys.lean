/-
  C02 round 4 — "the primary key of the model value" is the key the value HAD WHEN THE UPDATE WAS CALLED, also when the
  update assigns a key column (re-keying a row, changing one part of a composite key).
  Model/UpdateKeys.lean transcribes the order of effects in callbacks/update.go ConvertToAssignments; the order itself is
  the regenerated fact `Gen.updateKeyBlockBeforeAssignments`.
-/
import GormModel.Model.UpdateKeys
namespace Gorm

theorem updateKeyFacts : Gen.updateKeyBlockFound = true ∧ Gen.updateAssignCallsFound = true ∧
    Gen.updateKeyBlockBeforeAssignments = true := by decide

/-- THE KEY UNIT IS THE CALLER'S KEY: for every model value, every key shape (single, composite, zero parts) and EVERY
    assignment list — including lists that assign key columns — the WHERE conditions added for the model value are the
    non-zero key fields of the value as it was BEFORE the call -/
theorem C02_update_key_is_callers_key (pks : List String) (m : UpdRec) (sets : List (String × Int)) :
    (updConvertToAssignments Gen.updateKeyBlockBeforeAssignments pks m sets).conds = updKeyConds pks m := by
  simp [updConvertToAssignments, updateKeyFacts.2.2]

/-- … while the SET list is the assignment list and the in-memory value afterwards carries the new values -/
theorem C02_update_set_and_after (kf : Bool) (pks : List String) (m : UpdRec) (sets : List (String × Int)) :
    (updConvertToAssignments kf pks m sets).set = sets ∧ (updConvertToAssignments kf pks m sets).after = updAssignAll m sets := by
  cases kf <;> simp [updConvertToAssignments]

theorem updRowMatches_false_of_ne (conds : List (String × Int)) (r : UpdRec) (c : String) (v : Int)
    (hm : (c, v) ∈ conds) (hne : r.get c ≠ v) : updRowMatches conds r = false := by
  unfold updRowMatches
  rw [List.all_eq_false]
  exact ⟨(c, v), hm, by simpa using hne⟩

theorem mem_updKeyConds (pks : List String) (m : UpdRec) (k : String) (hk : k ∈ pks) (hz : m.get k ≠ 0) :
    (k, m.get k) ∈ updKeyConds pks m := by
  simp only [updKeyConds, List.mem_filter, List.mem_map]
  exact ⟨⟨k, hk, rfl⟩, by simpa using hz⟩

/-- NO OTHER ROW IS TOUCHED: a row that differs from the caller's key in some (non-zero) key column comes out of the
    update unchanged — whatever is assigned, key columns included; in particular the row that already carries the NEW
    key is not overwritten -/
theorem C02_rekey_touches_only_addressed_rows (pks : List String) (m : UpdRec) (sets : List (String × Int))
    (tbl : List UpdRec) (k : String) (hk : k ∈ pks) (hz : m.get k ≠ 0) :
    ∀ p ∈ tbl.zip (updateThroughModel Gen.updateKeyBlockBeforeAssignments pks m sets tbl),
      p.1.get k ≠ m.get k → p.2 = p.1 := by
  intro p hp hne
  simp only [updateThroughModel, C02_update_key_is_callers_key, (C02_update_set_and_after _ pks m sets).1, updApplyUpdate] at hp
  rw [List.zip_map_right] at hp
  simp only [List.mem_map] at hp
  obtain ⟨⟨a, b⟩, hab, rfl⟩ := hp
  have hab' : a = b := by
    have := List.of_mem_zip hab
    induction tbl with
    | nil => simp at hab
    | cons x xs ih =>
      simp only [List.zip_cons_cons, List.mem_cons, Prod.mk.injEq] at hab
      rcases hab with ⟨h1, h2⟩ | h
      · rw [h1, h2]
      · exact ih h (List.of_mem_zip h)
  subst hab'
  simp only [Prod.map_apply, id_eq] at hne ⊢
  rw [updRowMatches_false_of_ne _ a k (m.get k) (mem_updKeyConds pks m k hk hz) hne]
  simp

theorem UpdRec.get_set_ne (m : UpdRec) (c k : String) (v : Int) (h : c ≠ k) : (m.set c v).get k = m.get k := by
  induction m with
  | nil => rfl
  | cons p r ih =>
    by_cases hp : p.1 = c
    · have hpk : ¬ p.1 = k := fun e => h (hp ▸ e)
      have hck : ¬ c = k := h
      simp [UpdRec.set, UpdRec.get, hp, hck]
    · simp only [UpdRec.set, hp, if_false, UpdRec.get, ih]

theorem get_updAssignAll_of_unassigned (m : UpdRec) (sets : List (String × Int)) (k : String)
    (h : ∀ p ∈ sets, p.1 ≠ k) : (updAssignAll m sets).get k = m.get k := by
  induction sets generalizing m with
  | nil => rfl
  | cons s r ih =>
    simp only [updAssignAll, List.foldl_cons]
    have := ih (m.set s.1 s.2) (fun p hp => h p (List.mem_cons_of_mem _ hp))
    simp only [updAssignAll] at this
    rw [this, UpdRec.get_set_ne _ _ _ _ (h s (List.mem_cons_self ..))]

/-- why the order is invisible to every update that assigns no key column (all of gorm's own tests): both orders then
    yield the same conditions -/
theorem C02_rekey_order_irrelevant_without_key_assignment (pks : List String) (m : UpdRec) (sets : List (String × Int))
    (h : ∀ p ∈ sets, p.1 ∉ pks) :
    updConvertToAssignments false pks m sets = updConvertToAssignments true pks m sets := by
  have hk : updKeyConds pks (updAssignAll m sets) = updKeyConds pks m := by
    unfold updKeyConds
    congr 1
    apply List.map_congr_left
    intro k hk
    rw [get_updAssignAll_of_unassigned m sets k (fun p hp hpk => h p hp (hpk ▸ hk))]
  simp [updConvertToAssignments, hk]

/-- the opposite order, kernel-checked: `Model(&{id:2}).Updates({id:3, name:9})` on rows 2 and 3 — with the key block first
    row 2 is re-keyed (the database then reports the collision with row 3, whose contents are untouched); with the
    key block AFTER the assignments the statement addresses `id = 3`: row 2 is missed and row 3 silently overwritten -/
theorem C02_rekey_after_assign_counterexample :
    let m : UpdRec := [("id", 2), ("name", 0)]
    let tbl : List UpdRec := [[("id", 2), ("name", 7)], [("id", 3), ("name", 8)]]
    (updConvertToAssignments true ["id"] m [("id", 3), ("name", 9)]).conds = [("id", 2)] ∧
    (updConvertToAssignments false ["id"] m [("id", 3), ("name", 9)]).conds = [("id", 3)] ∧
    updateThroughModel true ["id"] m [("id", 3), ("name", 9)] tbl = [[("id", 3), ("name", 9)], [("id", 3), ("name", 8)]] ∧
    updateThroughModel false ["id"] m [("id", 3), ("name", 9)] tbl = [[("id", 2), ("name", 7)], [("id", 3), ("name", 9)]] := by
  decide

/-- one part of a composite key changed: `Model(&{hall:1,no:5}).Updates({hall:2})` — the wrong order looks for (2,5) -/
theorem C02_rekey_composite_counterexample :
    let m : UpdRec := [("hall", 1), ("no", 5)]
    (updConvertToAssignments true ["hall", "no"] m [("hall", 2)]).conds = [("hall", 1), ("no", 5)] ∧
    (updConvertToAssignments false ["hall", "no"] m [("hall", 2)]).conds = [("hall", 2), ("no", 5)] := by
  decide

end Gorm
