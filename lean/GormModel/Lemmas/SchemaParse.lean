/-
  Lemmas.SchemaParse — (C08) theorems about Model.SchemaParse, tied to the tree by the regenerated facts
  Gen.SchemaParseFacts (extract/gen_c08.go reads schema/schema.go ParseWithSpecialTableName):

  * a goroutine that gets a schema out of the cache and WAITS for `initialized` always sees the collected
    (soft-delete) clauses, under every interleaving with the parsing goroutine and with any other readers;
    one that does not wait can see none (counterexample schedule);
  * every cache-return site of the tree waits (regenerated), so on this tree no reader ever sees an unfinished schema;
  * nothing but the parse-error exit stands between a field and the four clause-interface probes, and the probe is made on
    the indirect field type: whether a field's clauses are collected does not depend on how the field is declared.
-/
import GormModel.Model.SchemaParse
import GormModel.Gen.SchemaParseFacts
namespace Gorm
open SchemaParse

namespace SchemaParse

/-- inductive invariant of the slot protocol -/
structure Inv (s : State) : Prop where
  /-- the channel is closed only after the clause loop, which runs only after the store -/
  closed_filled : s.closed = true → s.clausesFilled = true ∧ s.stored = true
  filled_stored : s.clausesFilled = true → s.stored = true
  pc_fill : s.parser = .fill → s.stored = true
  pc_close : s.parser = .close → s.clausesFilled = true ∧ s.stored = true
  /-- a waiting reader is past its receive only if the channel is closed, and has only ever seen filled clause lists -/
  rd : ∀ r ∈ s.readers, r.waits = true →
        (r.pc = .observe → s.closed = true) ∧ (∀ b, r.saw = some b → b = true)

theorem inv_init (flags : List Bool) : Inv (init flags) := by
  refine ⟨by simp [init], by simp [init], by simp [init], by simp [init], ?_⟩
  intro r hr _
  simp only [init, List.mem_map] at hr
  obtain ⟨w, _, rfl⟩ := hr
  exact ⟨by simp, by simp⟩

theorem inv_stepParser {s s' : State} (h : Inv s) (hs : stepParser s = some s') : Inv s' := by
  unfold stepParser at hs
  cases hp : s.parser <;> simp only [hp, Option.some.injEq, reduceCtorEq] at hs <;> subst hs
  · -- store
    refine ⟨fun hc => ⟨(h.closed_filled hc).1, rfl⟩, fun _ => rfl, fun _ => rfl, by simp, ?_⟩
    intro r hr hw; exact h.rd r hr hw
  · -- fill
    have hst := h.pc_fill hp
    refine ⟨fun _ => ⟨rfl, hst⟩, fun _ => hst, by simp, fun _ => ⟨rfl, hst⟩, ?_⟩
    intro r hr hw; exact h.rd r hr hw
  · -- close
    have hfc := h.pc_close hp
    refine ⟨fun _ => hfc, h.filled_stored, by simp, by simp, ?_⟩
    intro r hr hw; exact ⟨fun _ => rfl, (h.rd r hr hw).2⟩

theorem inv_stepReader {s : State} {r r' : Reader} (h : Inv s) (hr : r ∈ s.readers)
    (hs : stepReader s r = some r') :
    r'.waits = r.waits ∧
    (r'.waits = true → (r'.pc = .observe → s.closed = true) ∧ (∀ b, r'.saw = some b → b = true)) := by
  unfold stepReader at hs
  cases hp : r.pc <;> simp only [hp] at hs
  · -- load
    split at hs
    · simp only [Option.some.injEq] at hs; subst hs
      refine ⟨rfl, fun hw => ⟨?_, (h.rd r hr hw).2⟩⟩
      simp only at hw
      simp [hw]
    · cases hs
  · -- wait
    split at hs
    · rename_i hc
      simp only [Option.some.injEq] at hs; subst hs
      exact ⟨rfl, fun hw => ⟨fun _ => hc, (h.rd r hr hw).2⟩⟩
    · cases hs
  · -- observe
    simp only [Option.some.injEq] at hs; subst hs
    refine ⟨rfl, fun hw => ⟨by simp, ?_⟩⟩
    intro b hb
    simp only [Option.some.injEq] at hb
    have hc := (h.rd r hr hw).1 hp
    rw [← hb]; exact (h.closed_filled hc).1
  · cases hs

theorem inv_step {s s' : State} {a : Action} (h : Inv s) (hs : step s a = some s') : Inv s' := by
  cases a with
  | parser => exact inv_stepParser h hs
  | reader i =>
    simp only [step] at hs
    cases hg : s.readers[i]? with
    | none => simp [hg] at hs
    | some r =>
      have hr : r ∈ s.readers := List.mem_of_getElem? hg
      cases hr' : stepReader s r with
      | none => simp [hg, hr'] at hs
      | some r' =>
        simp only [hg, hr', Option.some.injEq] at hs
        subst hs
        have hloc := inv_stepReader h hr hr'
        refine ⟨h.closed_filled, h.filled_stored, h.pc_fill, h.pc_close, ?_⟩
        intro q hq hw
        rcases List.mem_or_eq_of_mem_set hq with hq | rfl
        · exact h.rd q hq hw
        · exact hloc.2 hw

theorem inv_run : ∀ (sched : List Action) (s : State), Inv s → Inv (run s sched)
  | [], _, h => h
  | a :: as, s, h => by
    simp only [run]
    refine inv_run as _ ?_
    cases hs : step s a with
    | none => exact h
    | some s' => exact inv_step h hs

/-- the `waits` flags of the readers are configuration: no step changes them -/
theorem allWait_step {s s' : State} {a : Action} (h : ∀ r ∈ s.readers, r.waits = true) (hs : step s a = some s') :
    ∀ r ∈ s'.readers, r.waits = true := by
  cases a with
  | parser =>
    unfold step stepParser at hs
    cases hp : s.parser <;> simp only [hp, Option.some.injEq, reduceCtorEq] at hs <;> subst hs <;> exact h
  | reader i =>
    simp only [step] at hs
    cases hg : s.readers[i]? with
    | none => simp [hg] at hs
    | some r =>
      cases hr' : stepReader s r with
      | none => simp [hg, hr'] at hs
      | some r' =>
        simp only [hg, hr', Option.some.injEq] at hs
        subst hs
        intro q hq
        rcases List.mem_or_eq_of_mem_set hq with hq | rfl
        · exact h q hq
        · have hr : r ∈ s.readers := List.mem_of_getElem? hg
          -- stepReader keeps `waits`
          unfold stepReader at hr'
          cases hp : r.pc <;> simp only [hp] at hr'
          · split at hr'
            · simp only [Option.some.injEq] at hr'; subst hr'; exact h r hr
            · cases hr'
          · split at hr'
            · simp only [Option.some.injEq] at hr'; subst hr'; exact h r hr
            · cases hr'
          · simp only [Option.some.injEq] at hr'; subst hr'; exact h r hr
          · cases hr'

theorem allWait_run : ∀ (sched : List Action) (s : State), (∀ r ∈ s.readers, r.waits = true) →
    ∀ r ∈ (run s sched).readers, r.waits = true
  | [], _, h => h
  | a :: as, s, h => by
    simp only [run]
    refine allWait_run as _ ?_
    cases hs : step s a with
    | none => exact h
    | some s' => exact allWait_step h hs

theorem mem_observations {s : State} {o : Bool × Bool} (h : o ∈ observations s) :
    ∃ r ∈ s.readers, r.waits = o.1 ∧ r.saw = some o.2 := by
  simp only [observations, List.mem_filterMap, Option.map_eq_some_iff] at h
  obtain ⟨r, hr, b, hb, rfl⟩ := h
  exact ⟨r, hr, rfl, hb⟩

end SchemaParse

/-! ## the publication protocol -/

/-- **A reader that waits sees the clauses.**  For every set of readers (waiting or not) and EVERY schedule — any interleaving
    of the parser's statements (LoadOrStore :325, clause loop :339-365, deferred close :193) with the readers' statements —
    every observation `(waits, saw)` made by a reader that executes `<-s.initialized` is `saw = true`: the schema it got from
    the cache carries the collected Query/Update/Delete clauses (`deleted_at IS NULL`, the soft-delete rewrite). -/
theorem C08_schema_wait_sees_clauses (waitFlags : List Bool) (sched : List Action) :
    ∀ o ∈ observations (run (init waitFlags) sched), o.1 = true → o.2 = true := by
  intro o ho hw
  obtain ⟨r, hr, hrw, hsaw⟩ := mem_observations ho
  exact ((inv_run sched _ (inv_init waitFlags)).rd r hr (hrw.trans hw)).2 _ hsaw

/-- … and the theorem is about something: under the plain sequential schedule the waiting reader does observe. -/
example : observations (run (init [true]) [.parser, .reader 0, .parser, .parser, .reader 0, .reader 0]) = [(true, true)] := by
  decide

/-- a waiting reader scheduled before the close simply blocks (its steps are no-ops) and observes nothing yet -/
example : observations (run (init [true]) [.parser, .reader 0, .reader 0, .reader 0]) = [] := by decide

/-- **Without the wait the clauses can be missed.**  parser: LoadOrStore; reader (waits = false): Load hits, reads the clause
    lists — empty; parser: clause loop, close.  The reader's statement is built without the soft-delete clauses. -/
theorem C08_schema_nowait_counterexample :
    observations (run (init [false]) [.parser, .reader 0, .reader 0, .parser, .parser]) = [(false, false)] := by
  decide

/-! ## the tree: every cache-return site waits -/

/-- every place of ParseWithSpecialTableName that returns a schema found in the cache (regenerated list) executes
    `<-s.initialized` on the schema it returns, before returning it -/
theorem C08_schema_cache_returns_wait :
    ∀ r ∈ Gen.schemaCacheReturns, r.waits = true ∧ r.returnsCached = true := by decide

/-- non-vacuity, and why waiting is necessary: the generator found the three sites (both `Load`s and the `LoadOrStore` loser
    branch); the schema is stored in the cache BEFORE the clause loop; `initialized` is closed by a `defer` of the parsing
    activation, i.e. after the loop. -/
theorem C08_schema_cache_returns_found :
    Gen.schemaCacheReturns.length ≥ 3 ∧
    (Gen.schemaCacheReturns.any (·.how == "LoadOrStore")) = true ∧
    (Gen.schemaCacheReturns.any (·.how == "Load")) = true ∧
    Gen.schemaStoreBeforeClauses = true ∧
    Gen.schemaInitializedClosedByDefer = true := by decide

/-- **The current tree.**  Take one reader per cache-return site of the tree, its `waits` flag being the regenerated one, and
    any number of copies of them (`copies` goroutines per site list): under every schedule every observation is `true`. -/
theorem C08_schema_current_tree (copies : Nat) (sched : List Action) :
    ∀ o ∈ observations (run (init ((List.replicate copies (Gen.schemaCacheReturns.map (·.waits))).flatten)) sched),
      o.2 = true := by
  intro o ho
  have hall : ∀ f ∈ (List.replicate copies (Gen.schemaCacheReturns.map (·.waits))).flatten, f = true := by
    intro f hf
    simp only [List.mem_flatten, List.mem_replicate] at hf
    obtain ⟨l, ⟨_, rfl⟩, hfl⟩ := hf
    simp only [List.mem_map] at hfl
    obtain ⟨r, hr, rfl⟩ := hfl
    exact (C08_schema_cache_returns_wait r hr).1
  have hinit : ∀ r ∈ (init ((List.replicate copies (Gen.schemaCacheReturns.map (·.waits))).flatten)).readers,
      r.waits = true := by
    intro r hr
    simp only [init, List.mem_map] at hr
    obtain ⟨w, hw, rfl⟩ := hr
    exact hall w hw
  obtain ⟨r, hr, hrw, _⟩ := mem_observations ho
  have hw : o.1 = true := hrw.symm.trans (allWait_run sched _ hinit r hr)
  exact C08_schema_wait_sees_clauses _ sched o ho hw

/-! ## which fields are probed for the clause interfaces -/

/-- the four probes exist, in the order Create, Query, Update, Delete, each appending to its own clause list of `field.Schema`;
    the only guard in front of any of them is of class "err:" (the `return schema, schema.err` after a failed parseRelation);
    the probed value is `reflect.New(field.IndirectFieldType).Interface()`, so a `*gorm.DeletedAt` field is probed as
    `gorm.DeletedAt`, and a field of a named non-struct type is probed as well. -/
theorem C08_clause_probes_unguarded :
    (∀ p ∈ Gen.schemaClauseProbes,
        p.found = true ∧ (p.guards.all isErrGuard) = true ∧ p.probeExpr = "field.IndirectFieldType") ∧
    Gen.schemaClauseProbes.map (·.iface) = ["Create", "Query", "Update", "Delete"] ∧
    Gen.schemaClauseProbes.map (·.appendsTo) = ["CreateClauses", "QueryClauses", "UpdateClauses", "DeleteClauses"] := by
  decide

/-- the field loop itself is skipped only for the private cache of an embedded struct (`embeddedCacheKey`): the embedding
    model parses those fields again with its own cache -/
theorem C08_clause_loop_guard : Gen.schemaClauseLoopGuards = ["!embedded"] := by decide

/-- **Declaration independence.**  If every guard in front of a probe is of class "err:", then a field whose indirect type
    implements the clause interface gets its clauses collected whatever its declared kind (struct, pointer to struct, named
    int/uint/string/…). -/
theorem C08_declaration_independent (guards : List String) (h : guards.all isErrGuard = true) (k : FieldKind) :
    collectsClauses (kindGuards guards) true k = true := by
  have : kindGuards guards = [] := by
    induction guards with
    | nil => rfl
    | cons g gs ih =>
      simp only [List.all_cons, Bool.and_eq_true] at h
      simp only [kindGuards, List.filterMap_cons, h.1, if_true]
      exact ih h.2
  simp [collectsClauses, probeReached, this]

/-- … which is the situation of the tree, for each of the four probes -/
theorem C08_declaration_independent_current_tree :
    ∀ p ∈ Gen.schemaClauseProbes, ∀ k : FieldKind, collectsClauses (kindGuards p.guards) true k = true :=
  fun p hp k => C08_declaration_independent p.guards (C08_clause_probes_unguarded.1 p hp).2.1 k

/-- what the regenerated guard list excludes: with a kind test in front of the probes
    (`if field.FieldType.Kind() != reflect.Struct { continue }`) a `*gorm.DeletedAt` field and a `type DeletedAt uint` field lose
    their clauses although their indirect type implements the interfaces … -/
example : collectsClauses [structOnly] true .ptrToStruct = false ∧ collectsClauses [structOnly] true .namedUint = false ∧
    collectsClauses [structOnly] true .namedInt = false ∧ collectsClauses [structOnly] true .structK = true := by decide

/-- … and such a guard is what a "skip:" entry is read as -/
example : ∃ k, collectsClauses (kindGuards ["err:schema.err != nil", "skip:field.FieldType.Kind() != reflect.Struct"]) true k = false :=
  ⟨.ptrToStruct, by decide⟩

/-- a field that does not implement the interfaces contributes nothing, guard or no guard -/
example : ∀ k ∈ FieldKind.all, collectsClauses [] false k = false := by decide

end Gorm
