/-
  C02 (round 5) — the key unit of a SLICE model value: the IN list `GetIdentityFieldValuesMap` builds names exactly
  the distinct key tuples of the slice's elements — for string keys of any letter case, with blanks, unicode … —
  as long as the key STRING used for de-duplication is injective on the slice's tuples; and exactness NEEDS that
  injectivity (so a key string that folds letter case, trims blanks, … loses keys).
-/
import GormModel.Model.SliceKeys
import GormModel.Lemmas.Identity
namespace Gorm

/-- the same element (address) always carries the same key — true of any Go slice -/
def SliceAddrFun (rows : List IdRow) : Prop :=
  ∀ r r', r ∈ rows → r' ∈ rows → r.addr = r'.addr → r.key = r'.key

/-- the key-string function separates the key tuples present in the slice (elements without a key do not count) -/
def KeyStrInjOn (ks : List KeyVal → List Char) (rows : List IdRow) : Prop :=
  ∀ r r', r ∈ rows → r' ∈ rows → allZero r.key = false → allZero r'.key = false →
    ks r.vals = ks r'.vals → r.vals = r'.vals


/-! ### helpers: the loop as a fold, its case split and its invariants -/

theorem nodup_of_map_nodup {α β : Type} (f : α → β) (l : List α) (h : (l.map f).Nodup) : l.Nodup := by
  induction l with
  | nil => exact List.nodup_nil
  | cons a as ih =>
    simp only [List.map_cons, List.nodup_cons] at h ⊢
    exact ⟨fun hm => h.1 (List.mem_map.mpr ⟨a, hm, rfl⟩), ih h.2⟩

theorem inj_of_map_nodup {α β : Type} (f : α → β) (l : List α) (h : (l.map f).Nodup)
    (a b : α) (ha : a ∈ l) (hb : b ∈ l) (hab : f a = f b) : a = b := by
  induction l with
  | nil => cases ha
  | cons x xs ih =>
    simp only [List.map_cons, List.nodup_cons] at h
    rcases List.mem_cons.mp ha with ha' | ha' <;> rcases List.mem_cons.mp hb with hb' | hb'
    · rw [ha', hb']
    · rw [← ha'] at h; exact (h.1 (List.mem_map.mpr ⟨b, hb', hab.symm⟩)).elim
    · rw [← hb'] at h; exact (h.1 (List.mem_map.mpr ⟨a, ha', hab⟩)).elim
    · exact ih h.2 ha' hb'

theorem skStep_cases (ks : List KeyVal → List Char) (st : SKState) (r : IdRow) :
    (r.addr ∈ st.loaded ∧ skStep ks st r = st) ∨
    (r.addr ∉ st.loaded ∧ allZero r.key = true ∧ skStep ks st r = { st with loaded := r.addr :: st.loaded }) ∨
    (r.addr ∉ st.loaded ∧ allZero r.key = false ∧ ks r.vals ∈ st.seen ∧
      skStep ks st r = { st with loaded := r.addr :: st.loaded }) ∨
    (r.addr ∉ st.loaded ∧ allZero r.key = false ∧ ks r.vals ∉ st.seen ∧
      skStep ks st r = ⟨r.addr :: st.loaded, st.seen ++ [ks r.vals], st.values ++ [r.vals]⟩) := by
  unfold skStep
  by_cases hl : r.addr ∈ st.loaded
  · left; simp [hl]
  · right
    by_cases hz : allZero r.key = true
    · left; simp [hl, hz]
    · right
      have hz' : allZero r.key = false := by simpa using hz
      by_cases hs : ks r.vals ∈ st.seen
      · left; simp [hl, hz', hs]
      · right; simp [hl, hz', hs]

theorem foldl_skStep_inv (ks : List KeyVal → List Char) (P : SKState → Prop) (all : List IdRow)
    (hstep : ∀ st r, r ∈ all → P st → P (skStep ks st r)) :
    ∀ (rows : List IdRow) (st : SKState), (∀ r ∈ rows, r ∈ all) → P st → P (rows.foldl (skStep ks) st) := by
  intro rows
  induction rows with
  | nil => intro st _ h; exact h
  | cons r rs ih =>
    intro st hsub h
    simp only [List.foldl_cons]
    exact ih _ (fun x hx => hsub x (List.mem_cons_of_mem _ hx)) (hstep st r (hsub r (by simp)) h)

theorem skStep_loaded_mono (ks : List KeyVal → List Char) (st : SKState) (r : IdRow) (a : Nat) (h : a ∈ st.loaded) :
    a ∈ (skStep ks st r).loaded := by
  rcases skStep_cases ks st r with ⟨_, e⟩ | ⟨_, _, e⟩ | ⟨_, _, _, e⟩ | ⟨_, _, _, e⟩ <;> rw [e] <;> simp [h]

theorem skStep_loaded_self (ks : List KeyVal → List Char) (st : SKState) (r : IdRow) :
    r.addr ∈ (skStep ks st r).loaded := by
  rcases skStep_cases ks st r with ⟨h, e⟩ | ⟨_, _, e⟩ | ⟨_, _, _, e⟩ | ⟨_, _, _, e⟩
  · rw [e]; exact h
  · rw [e]; simp
  · rw [e]; simp
  · rw [e]; simp

theorem foldl_sk_loaded_mono (ks : List KeyVal → List Char) (rows : List IdRow) (st : SKState) (a : Nat)
    (h : a ∈ st.loaded) : a ∈ (rows.foldl (skStep ks) st).loaded := by
  induction rows generalizing st with
  | nil => exact h
  | cons r rs ih => simp only [List.foldl_cons]; exact ih _ (skStep_loaded_mono ks st r a h)

theorem foldl_sk_loaded_all (ks : List KeyVal → List Char) (rows : List IdRow) (st : SKState) (r : IdRow)
    (hr : r ∈ rows) : r.addr ∈ (rows.foldl (skStep ks) st).loaded := by
  induction rows generalizing st with
  | nil => cases hr
  | cons x xs ih =>
    simp only [List.foldl_cons]
    rcases List.mem_cons.mp hr with h | h
    · subst h; exact foldl_sk_loaded_mono ks xs _ _ (skStep_loaded_self ks st r)
    · exact ih _ h

/-- (I1)–(I3): `seen` is the key strings of `values`, without repetition; every value is a keyed element's tuple -/
def SKInv (ks : List KeyVal → List Char) (all : List IdRow) (st : SKState) : Prop :=
  st.seen = st.values.map ks ∧ st.seen.Nodup ∧
  ∀ v ∈ st.values, ∃ r ∈ all, r.vals = v ∧ allZero r.key = false

theorem skInv_step (ks : List KeyVal → List Char) (all : List IdRow) (st : SKState) (r : IdRow) (hr : r ∈ all)
    (h : SKInv ks all st) : SKInv ks all (skStep ks st r) := by
  rcases skStep_cases ks st r with ⟨_, e⟩ | ⟨_, _, e⟩ | ⟨_, _, _, e⟩ | ⟨_, hz, hs, e⟩ <;> rw [e]
  · exact h
  · exact h
  · exact h
  · obtain ⟨h1, h2, h3⟩ := h
    refine ⟨?_, ?_, ?_⟩
    · simp [h1]
    · show (st.seen ++ [ks r.vals]).Nodup
      rw [List.nodup_append]
      refine ⟨h2, by simp, ?_⟩
      intro a ha b hb hab
      simp only [List.mem_singleton] at hb
      subst hb; subst hab
      exact hs ha
    · intro v hv
      simp only [List.mem_append, List.mem_singleton] at hv
      rcases hv with hv | hv
      · exact h3 v hv
      · exact ⟨r, hr, hv.symm, hz⟩

theorem skInv_init (ks : List KeyVal → List Char) (all : List IdRow) : SKInv ks all SKState.init := by
  refine ⟨rfl, List.nodup_nil, ?_⟩
  intro v hv; cases hv

theorem skInv_final (ks : List KeyVal → List Char) (rows : List IdRow) :
    SKInv ks rows (rows.foldl (skStep ks) SKState.init) :=
  foldl_skStep_inv ks (SKInv ks rows) rows (fun st r hr h => skInv_step ks rows st r hr h) rows _
    (fun _ h => h) (skInv_init ks rows)

/-- (I4): every loaded element that carries a key has its key string in `seen` -/
def SKGood (ks : List KeyVal → List Char) (all : List IdRow) (st : SKState) : Prop :=
  ∀ r ∈ all, r.addr ∈ st.loaded → allZero r.key = false → ks r.vals ∈ st.seen

theorem skGood_step (ks : List KeyVal → List Char) (all : List IdRow) (hf : SliceAddrFun all)
    (st : SKState) (r0 : IdRow) (hr0 : r0 ∈ all) (h : SKGood ks all st) : SKGood ks all (skStep ks st r0) := by
  rcases skStep_cases ks st r0 with ⟨_, e⟩ | ⟨_, hz, e⟩ | ⟨_, _, hs, e⟩ | ⟨_, _, _, e⟩ <;> rw [e]
  · exact h
  · intro r hr hld hnz
    simp only [List.mem_cons] at hld
    rcases hld with ha | ha
    · have := hf r r0 hr hr0 ha
      rw [this, hz] at hnz; cases hnz
    · exact h r hr ha hnz
  · intro r hr hld hnz
    simp only [List.mem_cons] at hld
    rcases hld with ha | ha
    · have hk := hf r r0 hr hr0 ha
      show ks r.vals ∈ st.seen
      unfold IdRow.vals; rw [hk]; exact hs
    · exact h r hr ha hnz
  · intro r hr hld hnz
    simp only [List.mem_cons] at hld
    show ks r.vals ∈ st.seen ++ [ks r0.vals]
    rw [List.mem_append]
    rcases hld with ha | ha
    · right
      have hk := hf r r0 hr hr0 ha
      unfold IdRow.vals; rw [hk]; simp
    · left; exact h r hr ha hnz

theorem skGood_final (ks : List KeyVal → List Char) (rows : List IdRow) (hf : SliceAddrFun rows) :
    SKGood ks rows (rows.foldl (skStep ks) SKState.init) :=
  foldl_skStep_inv ks (SKGood ks rows) rows (fun st r hr h => skGood_step ks rows hf st r hr h) rows _
    (fun _ h => h) (by intro r _ hl; cases hl)

/-! ### simulation of C11's `idStep` by `skStep toStringKey` -/

def SKSim (st : SKState) (st' : IdState) : Prop :=
  st.loaded = st'.loaded ∧ st.seen = st'.map.groups.map (·.1) ∧ st.values = st'.map.values

theorem hasKey_iff (m : IdMap) (s : List Char) : m.hasKey s = true ↔ s ∈ m.groups.map (·.1) := by
  unfold IdMap.hasKey
  simp [List.any_eq_true, List.mem_map]

theorem skSim_step (st : SKState) (st' : IdState) (r : IdRow) (h : SKSim st st') :
    SKSim (skStep toStringKey st r) (idStep st' r) := by
  obtain ⟨h1, h2, h3⟩ := h
  rcases idStep_cases st' r with ⟨hl, e⟩ | ⟨hl, hz, e⟩ | ⟨hl, hz, e⟩ <;> rw [e] <;> rw [← h1] at hl <;>
    rcases skStep_cases toStringKey st r with ⟨hl', e'⟩ | ⟨hl', hz', e'⟩ | ⟨hl', hz', hs', e'⟩ | ⟨hl', hz', hs', e'⟩ <;>
    rw [e'] <;> first
      | exact absurd hl hl'
      | exact absurd hl' hl
      | (rw [hz] at hz'; cases hz')
      | skip
  · exact ⟨h1, h2, h3⟩
  · exact ⟨by simp [h1], h2, h3⟩
  · have hk : st'.map.hasKey r.keyStr = true := (hasKey_iff _ _).mpr (by rw [← h2]; exact hs')
    refine ⟨by simp [h1], ?_, ?_⟩
    · simp only [IdMap.insert, hk, if_true, List.map_map]
      rw [h2]
      apply List.map_congr_left
      intro x _
      by_cases hx : x.1 = r.keyStr <;> simp [hx]
    · simp only [IdMap.insert, hk, if_true]; exact h3
  · have hk : st'.map.hasKey r.keyStr = false := by
      cases hk : st'.map.hasKey r.keyStr with
      | false => rfl
      | true => exact absurd (by rw [h2]; exact (hasKey_iff _ _).mp hk) hs'
    refine ⟨by simp [h1], ?_, ?_⟩
    · simp only [IdMap.insert, hk]; simp [h2, IdRow.keyStr]
    · simp only [IdMap.insert, hk]; simp [h3]

theorem skSim_foldl (rows : List IdRow) :
    ∀ (st : SKState) (st' : IdState), SKSim st st' → SKSim (rows.foldl (skStep toStringKey) st) (rows.foldl idStep st') := by
  induction rows with
  | nil => intro st st' h; exact h
  | cons r rs ih =>
    intro st st' h
    simp only [List.foldl_cons]
    exact ih _ _ (skSim_step st st' r h)

theorem render_str_inj (l l' : List KeyVal) (hl : ∀ v ∈ l, ∃ s, v = KeyVal.str s) (hl' : ∀ v ∈ l', ∃ s, v = KeyVal.str s)
    (h : l.map KeyVal.render = l'.map KeyVal.render) : l = l' := by
  induction l generalizing l' with
  | nil =>
    cases l' with
    | nil => rfl
    | cons _ _ => simp at h
  | cons a as ih =>
    cases l' with
    | nil => simp at h
    | cons b bs =>
      simp only [List.map_cons, List.cons.injEq] at h
      obtain ⟨s, hs⟩ := hl a (by simp)
      obtain ⟨t, ht⟩ := hl' b (by simp)
      have hab : a = b := by
        rw [hs, ht] at h ⊢
        simp only [KeyVal.render] at h
        rw [h.1]
      rw [hab, ih bs (fun v hv => hl v (List.mem_cons_of_mem _ hv)) (fun v hv => hl' v (List.mem_cons_of_mem _ hv)) h.2]

/-- REUSE: the list is the `results` component of C11's model of `GetIdentityFieldValuesMap` -/
theorem sliceKeyList_eq_identity (rows : List IdRow) : sliceKeyList rows = (identitySlice rows).values := by
  have h := skSim_foldl rows SKState.init ⟨[], IdMap.empty⟩ ⟨rfl, rfl, rfl⟩
  exact h.2.2

/-- NONE FOREIGN: every tuple of the IN list is the key tuple of some element that carries a key -/
theorem C02_slice_keys_none_foreign (ks : List KeyVal → List Char) (rows : List IdRow) :
    ∀ v ∈ sliceKeyListBy ks rows, ∃ r ∈ rows, r.vals = v ∧ allZero r.key = false := by
  exact (skInv_final ks rows).2.2

/-- the IN list never names a tuple twice (duplicates in the slice, the same pointer twice, … collapse) -/
theorem C02_slice_keys_nodup (ks : List KeyVal → List Char) (rows : List IdRow) :
    (sliceKeyListBy ks rows).Nodup := by
  obtain ⟨h1, h2, _⟩ := skInv_final ks rows
  rw [h1] at h2
  exact nodup_of_map_nodup ks _ h2

/-- whatever the key string: every element that carries a key is REPRESENTED by a tuple with the same key string -/
theorem C02_slice_keys_represented (ks : List KeyVal → List Char) (rows : List IdRow) (hf : SliceAddrFun rows)
    (r : IdRow) (hr : r ∈ rows) (hz : allZero r.key = false) :
    ∃ v ∈ sliceKeyListBy ks rows, ks v = ks r.vals := by
  obtain ⟨h1, _, _⟩ := skInv_final ks rows
  have hg := skGood_final ks rows hf r hr (foldl_sk_loaded_all ks rows _ r hr) hz
  rw [h1] at hg
  obtain ⟨v, hv, hkv⟩ := List.mem_map.mp hg
  exact ⟨v, hv, hkv⟩

/-- NONE MISSING: … and by its OWN tuple when the key string separates the slice's tuples -/
theorem C02_slice_keys_none_missing (ks : List KeyVal → List Char) (rows : List IdRow) (hf : SliceAddrFun rows)
    (hinj : KeyStrInjOn ks rows) (r : IdRow) (hr : r ∈ rows) (hz : allZero r.key = false) :
    r.vals ∈ sliceKeyListBy ks rows := by
  obtain ⟨v, hv, hkv⟩ := C02_slice_keys_represented ks rows hf r hr hz
  obtain ⟨r', hr', hv', hz'⟩ := C02_slice_keys_none_foreign ks rows v hv
  have := hinj r' r hr' hr hz' hz (by rw [hv']; exact hkv)
  rw [← this, hv']; exact hv

/-- EXACT: the IN list names exactly the key tuples of the elements that carry a key -/
theorem C02_slice_keys_exact (ks : List KeyVal → List Char) (rows : List IdRow) (hf : SliceAddrFun rows)
    (hinj : KeyStrInjOn ks rows) (k : List KeyVal) :
    k ∈ sliceKeyListBy ks rows ↔ ∃ r ∈ rows, allZero r.key = false ∧ r.vals = k := by
  constructor
  · intro hk
    obtain ⟨r, hr, hv, hz⟩ := C02_slice_keys_none_foreign ks rows k hk
    exact ⟨r, hr, hz, hv⟩
  · rintro ⟨r, hr, hz, hv⟩
    rw [← hv]
    exact C02_slice_keys_none_missing ks rows hf hinj r hr hz

/-- … and exactness NEEDS the injectivity: if every keyed element's tuple is in the list, the key string separates them -/
theorem C02_slice_keys_exact_needs_injective (ks : List KeyVal → List Char) (rows : List IdRow)
    (hall : ∀ r ∈ rows, allZero r.key = false → r.vals ∈ sliceKeyListBy ks rows) : KeyStrInjOn ks rows := by
  intro r r' hr hr' hz hz' hk
  obtain ⟨h1, h2, _⟩ := skInv_final ks rows
  rw [h1] at h2
  exact inj_of_map_nodup ks _ h2 _ _ (hall r hr hz) (hall r' hr' hz') hk

/-- MAIN (the C02 sentence for slice model values): the rows addressed by the key unit are EXACTLY the rows whose key
    tuple equals the key tuple of some element of the slice, for every table -/
theorem C02_slice_addresses_exactly (ks : List KeyVal → List Char) (rows : List IdRow) (hf : SliceAddrFun rows)
    (hinj : KeyStrInjOn ks rows) (table : List SKRow) :
    sliceAddressedBy ks rows table = sliceSpec rows table := by
  unfold sliceAddressedBy sliceSpec
  apply List.filter_congr
  intro t _
  rw [Bool.eq_iff_iff]
  simp only [inSelects, List.contains_iff_mem, List.any_eq_true, Bool.and_eq_true, Bool.not_eq_true', beq_iff_eq]
  exact C02_slice_keys_exact ks rows hf hinj t.key

/-- single string keys: every element's key is one string; the zero flag is "the string is empty" -/
def StringKeyed (rows : List IdRow) : Prop :=
  ∀ r ∈ rows, ∃ s : List Char, r.key = [⟨.str s, s.isEmpty⟩]

/-- gorm's key string separates single string keys of ANY content (letter case, blanks, '_', unicode, "nil", digits) -/
theorem toStringKey_injOn_strings (rows : List IdRow) (hs : StringKeyed rows) : KeyStrInjOn toStringKey rows := by
  intro r r' hr hr' _ _ hk
  obtain ⟨s, h1⟩ := hs r hr
  obtain ⟨s', h1'⟩ := hs r' hr'
  simp only [IdRow.vals, h1, h1', List.map_cons, List.map_nil, toStringKey, joinKey, KeyVal.render] at hk ⊢
  rw [hk]

/-- STRING KEYS OF ANY LETTER CASE: the IN list built from a slice value holds the string `s` iff `s` is the non-empty
    key of some element — no hypothesis on the strings -/
theorem C02_slice_string_keys_exact (rows : List IdRow) (hf : SliceAddrFun rows) (hs : StringKeyed rows) (s : List Char) :
    [KeyVal.str s] ∈ sliceKeyList rows ↔ s ≠ [] ∧ ∃ r ∈ rows, r.vals = [KeyVal.str s] := by
  unfold sliceKeyList
  rw [C02_slice_keys_exact toStringKey rows hf (toStringKey_injOn_strings rows hs)]
  constructor
  · rintro ⟨r, hr, hz, hv⟩
    refine ⟨?_, r, hr, hv⟩
    obtain ⟨s0, hs0⟩ := hs r hr
    simp only [IdRow.vals, hs0, List.map_cons, List.map_nil, List.cons.injEq, KeyVal.str.injEq, and_true] at hv
    subst hv
    intro he
    simp [hs0, allZero, he] at hz
  · rintro ⟨hne, r, hr, hv⟩
    refine ⟨r, hr, ?_, hv⟩
    obtain ⟨s0, hs0⟩ := hs r hr
    simp only [IdRow.vals, hs0, List.map_cons, List.map_nil, List.cons.injEq, KeyVal.str.injEq, and_true] at hv
    subst hv
    simp [hs0, allZero, hne]

theorem C02_slice_string_keys_address_exactly (rows : List IdRow) (hf : SliceAddrFun rows) (hs : StringKeyed rows)
    (table : List SKRow) : sliceAddressed rows table = sliceSpec rows table := by
  exact C02_slice_addresses_exactly toStringKey rows hf (toStringKey_injOn_strings rows hs) table

/-- composite keys all of whose parts are strings without the separator `_`, all of one arity -/
def SafeStringTuples (rows : List IdRow) : Prop :=
  (∀ r ∈ rows, ∀ c ∈ r.key, ∃ s : List Char, c.val = .str s ∧ '_' ∉ s) ∧
  (∀ r r', r ∈ rows → r' ∈ rows → r.key.length = r'.key.length)

theorem toStringKey_injOn_safe_tuples (rows : List IdRow) (hs : SafeStringTuples rows) : KeyStrInjOn toStringKey rows := by
  intro r r' hr hr' _ _ hk
  obtain ⟨hsafe, hlen⟩ := hs
  have hstr : ∀ r ∈ rows, ∀ v ∈ r.vals, ∃ s, v = KeyVal.str s ∧ '_' ∉ s := by
    intro r hr v hv
    obtain ⟨c, hc, hcv⟩ := List.mem_map.mp hv
    obtain ⟨s, hs1, hs2⟩ := hsafe r hr c hc
    exact ⟨s, by rw [← hcv, hs1], hs2⟩
  have hks : ∀ r ∈ rows, KeySafe (r.vals.map KeyVal.render) := by
    intro r hr p hp
    obtain ⟨v, hv, hvp⟩ := List.mem_map.mp hp
    obtain ⟨s, hs1, hs2⟩ := hstr r hr v hv
    rw [← hvp, hs1]; exact hs2
  have hmap := joinKey_injective _ _ (by simp [IdRow.vals, hlen r r' hr hr']) (hks r hr) (hks r' hr') hk
  exact render_str_inj _ _ (fun v hv => (hstr r hr v hv).imp fun _ h => h.1)
    (fun v hv => (hstr r' hr' v hv).imp fun _ h => h.1) hmap

theorem C02_slice_composite_keys_address_exactly (rows : List IdRow) (hf : SliceAddrFun rows) (hs : SafeStringTuples rows)
    (table : List SKRow) : sliceAddressed rows table = sliceSpec rows table := by
  exact C02_slice_addresses_exactly toStringKey rows hf (toStringKey_injOn_safe_tuples rows hs) table

/-- `_partial` of finding F6c-C02 (hypothesis = negation of its pattern: no two distinct key tuples of the slice share a
    key string) -/
theorem C02_slice_keys_partial (rows : List IdRow) (hf : SliceAddrFun rows) (hinj : KeyStrInjOn toStringKey rows)
    (table : List SKRow) : sliceAddressed rows table = sliceSpec rows table := by
  exact C02_slice_addresses_exactly toStringKey rows hf hinj table

/-! ## concrete shapes -/

def skStr (a : Nat) (s : String) : IdRow := ⟨a, [⟨.str s.toList, s.isEmpty⟩]⟩
def skPair (a : Nat) (s t : String) : IdRow := ⟨a, [⟨.str s.toList, s.isEmpty⟩, ⟨.str t.toList, t.isEmpty⟩]⟩

/-- {ab, AB, ab} names ab and AB once each -/
theorem C02_slice_keys_case_example :
    sliceKeyList [skStr 1 "ab", skStr 2 "AB", skStr 3 "ab"] = [[.str "ab".toList], [.str "AB".toList]] := by
  decide

/-- a key string that folds letter case loses AB (the seeded-fault class "case-insensitive collation") -/
theorem C02_slice_keys_casefold_counterexample :
    sliceKeyListBy foldedStringKey [skStr 1 "ab", skStr 2 "AB"] = [[.str "ab".toList]] ∧
    sliceAddressedBy foldedStringKey [skStr 1 "ab", skStr 2 "AB"] [⟨1, [.str "ab".toList]⟩, ⟨2, [.str "AB".toList]⟩]
      ≠ sliceSpec [skStr 1 "ab", skStr 2 "AB"] [⟨1, [.str "ab".toList]⟩, ⟨2, [.str "AB".toList]⟩] := by
  decide

/-- a key string that trims blanks loses " ab" -/
theorem C02_slice_keys_trim_counterexample :
    sliceKeyListBy trimmedStringKey [skStr 1 "ab", skStr 2 " ab"] = [[.str "ab".toList]] := by
  decide

/-- FINDING F6c-C02 (counterexample, kernel-checked): composite string keys ("a_b","c") and ("a","b_c") share the key
    string "a_b_c"; Delete(&[]T{{"a_b","c"},{"a","b_c"}}) addresses only the first row -/
theorem C02_slice_keys_separator_counterexample :
    sliceKeyList [skPair 1 "a_b" "c", skPair 2 "a" "b_c"] = [[.str "a_b".toList, .str "c".toList]] ∧
    sliceAddressed [skPair 1 "a_b" "c", skPair 2 "a" "b_c"]
        [⟨1, [.str "a_b".toList, .str "c".toList]⟩, ⟨2, [.str "a".toList, .str "b_c".toList]⟩]
      ≠ sliceSpec [skPair 1 "a_b" "c", skPair 2 "a" "b_c"]
        [⟨1, [.str "a_b".toList, .str "c".toList]⟩, ⟨2, [.str "a".toList, .str "b_c".toList]⟩] := by
  decide

/-! ## whether the key unit is added at all -/

/-- Delete: the key unit is dropped only when NO element carries a key -/
theorem C02_delete_slice_cond (rows : List IdRow) (hf : SliceAddrFun rows) :
    (deleteSliceKeyCond rows = none ↔ ∀ r ∈ rows, allZero r.key = true) ∧
    (∀ vs, deleteSliceKeyCond rows = some vs → vs = sliceKeyList rows) := by
  refine ⟨?_, ?_⟩
  · unfold deleteSliceKeyCond
    constructor
    · intro h r hr
      cases hz : allZero r.key with
      | true => rfl
      | false =>
        obtain ⟨v, hv, _⟩ := C02_slice_keys_represented toStringKey rows hf r hr hz
        have hv' : v ∈ sliceKeyList rows := hv
        cases hl : sliceKeyList rows with
        | nil => rw [hl] at hv'; cases hv'
        | cons a as => simp [hl] at h
    · intro h
      cases hl : sliceKeyList rows with
      | nil => simp
      | cons a as =>
        obtain ⟨r, hr, _, hz⟩ := C02_slice_keys_none_foreign toStringKey rows a (by
          show a ∈ sliceKeyList rows
          rw [hl]; simp)
        rw [h r hr] at hz; cases hz
  · intro vs h
    unfold deleteSliceKeyCond at h
    cases hl : sliceKeyList rows with
    | nil => simp [hl] at h
    | cons a as => simp [hl] at h; exact h.symm

/-- FINDING F35-C02 (counterexample): Update through Model(&[]T{{ab},{}}) adds NO key unit although `ab` carries a key —
    the last element alone decides -/
theorem C02_update_slice_last_decides_counterexample :
    updateSliceKeyCond [skStr 1 "ab", skStr 2 ""] = none ∧
    updateSliceKeyCond [skStr 2 "", skStr 1 "ab"] = some [[.str "ab".toList]] := by
  decide

/-- `_partial` of F35-C02: when the last element carries a key the unit is the full IN list -/
theorem C02_update_slice_cond_partial (rows : List IdRow) (l : IdRow) (hl : rows.getLast? = some l)
    (hz : allZero l.key = false) : updateSliceKeyCond rows = some (sliceKeyList rows) := by
  unfold updateSliceKeyCond
  simp [hl, hz]

/-- non-vacuity of the hypotheses -/
example : SliceAddrFun [skStr 1 "ab", skStr 2 "AB", skStr 1 "ab"] ∧ StringKeyed [skStr 1 "ab", skStr 2 "AB", skStr 1 "ab"] := by
  constructor
  · intro r r' hr hr' ha
    simp only [List.mem_cons, List.not_mem_nil, or_false] at hr hr'
    rcases hr with rfl | rfl | rfl <;> rcases hr' with rfl | rfl | rfl <;> first | rfl | (exact absurd ha (by decide))
  · intro r hr
    simp only [List.mem_cons, List.not_mem_nil, or_false] at hr
    rcases hr with rfl | rfl | rfl
    · exact ⟨"ab".toList, rfl⟩
    · exact ⟨"AB".toList, rfl⟩
    · exact ⟨"ab".toList, rfl⟩

end Gorm
