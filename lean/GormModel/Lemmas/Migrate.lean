/-
  Lemmas for C20: string helpers, the `Faithful` dialect specification, catalog lemmas.
-/
import GormModel.Model.Migrate
namespace Gorm.Mig

/-! ### strings -/

theorem dropWhile_append_cases {α} (p : α → Bool) (a b : List α) :
    (a ++ b).dropWhile p = if a.all p then b.dropWhile p else a.dropWhile p ++ b := by
  induction a with
  | nil => simp
  | cons x xs ih =>
    by_cases hx : p x
    · simp [hx, ih]
    · simp [hx]

theorem dropWhile_eq_nil_of_all {α} (p : α → Bool) (a : List α) (h : a.all p = true) : a.dropWhile p = [] := by
  induction a with
  | nil => rfl
  | cons x xs ih =>
    simp only [List.all_cons, Bool.and_eq_true] at h
    simp [h.1, ih h.2]

theorem trimRight_prefix_self (x : Str) : trimRight x <+: x := by
  unfold trimRight
  have h : x.reverse.dropWhile isSpace <:+ x.reverse := List.dropWhile_suffix _
  have := List.reverse_prefix.mpr h
  simpa using this

theorem trimRight_prefix_append (x y : Str) : trimRight x <+: trimRight (x ++ y) := by
  unfold trimRight
  rw [List.reverse_append, dropWhile_append_cases]
  split
  · exact List.prefix_refl _
  · rw [List.reverse_append, List.reverse_reverse]
    exact (trimRight_prefix_self x).trans (List.prefix_append _ _)

/-- `TrimSpace(x)` is a prefix of `TrimSpace(x ++ y)` -/
theorem trimSpace_prefix_append (x y : Str) : trimSpace x <+: trimSpace (x ++ y) := by
  unfold trimSpace trimLeft
  rw [dropWhile_append_cases]
  split
  · rename_i h
    rw [dropWhile_eq_nil_of_all _ _ h]
    simp [trimRight]
  · exact trimRight_prefix_append _ _

theorem lower_append (a b : Str) : lower (a ++ b) = lower a ++ lower b := by simp [lower]

/-- the declared type (trimmed, lower-cased) is a prefix of the full lower-cased data type MigrateColumn compares -/
theorem declaredType_prefix_full (f : FieldDecl) : trimSpace (lower f.dataTypeSql) <+: fullLower f := by
  unfold fullLower fullDataTypeOf
  rw [List.append_assoc, lower_append]
  exact trimSpace_prefix_append _ _

theorem equalFold_refl (a : Str) : equalFold a a = true := by simp [equalFold]

/-! ### the dialect specification -/

/-- the size report is acceptable: it is the declared size, or the two are not both positive and the report is either
    flagged not-ok or is the single digit group of the declared type text (`varchar(20)` without a size tag) -/
def LenOk (f : FieldDecl) (l : Int × Bool) : Prop :=
  l.1 = f.size ∨ (¬ (0 < l.1 ∧ 0 < f.size) ∧ (l.2 = false ∨ digitRuns (fullLower f) = [intStr l.1]))

/-- `reflect` describes a dialect that reports what was declared -/
structure Faithful (reflect : FieldDecl → ColumnInfo) : Prop where
  /-- the reported type name is the declared type or a leading part of it (`varchar` for `varchar(20)`) -/
  typ : ∀ f, lower (reflect f).typeName <+: trimSpace (lower f.dataTypeSql)
  len : ∀ f, LenOk f (reflect f).length
  dec : ∀ f, (reflect f).decimal.2 = true → (reflect f).decimal.1 = f.precision
  null : ∀ f, (reflect f).nullable.2 = true → (reflect f).nullable.1 = !f.notNull
  dfltOk : ∀ f, (reflect f).dflt.2 = currentDefaultNotNull f
  dfltVal : ∀ f, currentDefaultNotNull f = true → (reflect f).dflt.1 = f.defaultValue
  comment : ∀ f, (reflect f).comment.2 = true → (reflect f).comment.1 = f.comment
  unique : ∀ f, (reflect f).unique.2 = true → (reflect f).unique.1 = f.unique

/-- the part of `Faithful` the alter decision reads, as a predicate on one (field, report) pair -/
structure Agrees (f : FieldDecl) (ci : ColumnInfo) : Prop where
  typ : lower ci.typeName <+: trimSpace (lower f.dataTypeSql)
  len : LenOk f ci.length
  dec : ci.decimal.2 = true → ci.decimal.1 = f.precision
  null : ci.nullable.2 = true → ci.nullable.1 = !f.notNull
  dfltOk : ci.dflt.2 = currentDefaultNotNull f
  dfltVal : currentDefaultNotNull f = true → ci.dflt.1 = f.defaultValue
  comment : ci.comment.2 = true → ci.comment.1 = f.comment

theorem Faithful.agrees {reflect} (h : Faithful reflect) (f : FieldDecl) : Agrees f (reflect f) :=
  ⟨h.typ f, h.len f, h.dec f, h.null f, h.dfltOk f, h.dfltVal f, h.comment f⟩

theorem typeStep_agrees {f ci} (h : Agrees f ci) : (typeStep f ci).1 = false := by
  have hp : hasPrefix (fullLower f) (lower ci.typeName) = true := by
    unfold hasPrefix
    exact List.isPrefixOf_iff_prefix.mpr (h.typ.trans (declaredType_prefix_full f))
  unfold typeStep
  by_cases hpk : f.primaryKey <;> simp [hpk, hp]

theorem sizeAlter_agrees {f ci} (h : Agrees f ci) : sizeAlter f ci = false := by
  unfold sizeAlter
  rcases hl : ci.length with ⟨length, ok⟩
  have hlen := h.len
  rw [hl] at hlen
  simp only
  by_cases heq : length = f.size
  · simp [heq]
  · rcases hlen with h1 | ⟨hnp, h2⟩
    · exact absurd h1 heq
    · have hne : (length != f.size) = true := by simpa using heq
      simp only [hne, if_true]
      have : (decide (length > 0) && decide (f.size > 0)) = false := by
        simp only [Bool.and_eq_false_iff, decide_eq_false_iff_not]
        by_cases hl0 : length > 0
        · right; intro hs; exact hnp ⟨hl0, hs⟩
        · left; exact hl0
      rw [this]
      simp only [Bool.false_eq_true, if_false]
      rcases h2 with hok | hruns
      · simp only at hok
        subst hok
        cases hr : digitRuns (fullLower f) with
        | nil => simp
        | cons r rs => cases rs <;> simp
      · simp only at hruns
        rw [hruns]
        simp

theorem precAlter_agrees {f ci} (h : Agrees f ci) : precAlter f ci = false := by
  unfold precAlter
  rcases hd : ci.decimal with ⟨p, ok⟩
  have := h.dec
  rw [hd] at this
  simp only at this ⊢
  cases ok with
  | false => simp
  | true => simp [this rfl]

theorem nullAlter_agrees {f ci} (h : Agrees f ci) : nullAlter f ci = false := by
  unfold nullAlter
  rcases hd : ci.nullable with ⟨n, ok⟩
  have := h.null
  rw [hd] at this
  simp only at this ⊢
  cases ok with
  | false => simp
  | true =>
    have hn := this rfl
    subst hn
    cases f.notNull <;> simp

theorem defaultStep_agrees {f ci} (h : Agrees f ci) : defaultStep f ci false = false := by
  unfold defaultStep
  rcases hd : ci.dflt with ⟨dv, nn⟩
  have hok := h.dfltOk
  have hval := h.dfltVal
  rw [hd] at hok hval
  simp only at hok hval ⊢
  by_cases hpk : f.primaryKey
  · simp [hpk]
  · simp only [hpk, Bool.not_false, if_true]
    subst hok
    cases hc : currentDefaultNotNull f with
    | false => simp
    | true =>
      have hv := hval hc
      subst hv
      cases f.gtype <;> simp [equalFold_refl]

theorem commentAlter_agrees {f ci} (h : Agrees f ci) : commentAlter f ci = false := by
  unfold commentAlter
  rcases hd : ci.comment with ⟨c, ok⟩
  have := h.comment
  rw [hd] at this
  simp only at this ⊢
  cases ok with
  | false => simp
  | true => simp [this rfl]

/-- CORE: no `if` block of MigrateColumn fires on a report that agrees with the declaration -/
theorem migrateAlter_agrees {f ci} (h : Agrees f ci) : migrateAlter f ci = false := by
  unfold migrateAlter trace
  have h1 := typeStep_agrees h
  rcases ht : typeStep f ci with ⟨ta, same⟩
  rw [ht] at h1
  simp only at h1
  subst h1
  simp [sizeAlter_agrees h, precAlter_agrees h, nullAlter_agrees h, defaultStep_agrees h, commentAlter_agrees h]

theorem migrateUnique_agrees {f ci} (h : ci.unique.2 = true → ci.unique.1 = f.unique) : migrateUnique f ci = [] := by
  unfold migrateUnique
  rcases hd : ci.unique with ⟨u, ok⟩
  rw [hd] at h
  simp only at h ⊢
  cases ok with
  | false => simp
  | true =>
    have := h rfl
    subst this
    cases f.primaryKey <;> cases f.unique <;> simp

/-- the alter decision does not read the `unique` attribute of either side -/
theorem migrateAlter_unique_irrel (f : FieldDecl) (ci : ColumnInfo) (u : Bool) (cu : Bool × Bool) :
    migrateAlter { f with unique := u } { ci with unique := cu } = migrateAlter f ci := rfl

/-! ### catalog -/

theorem lookup_update_same {β} (k : Str) (g : β → β) (l : List (Str × β)) :
    lookup k (update k g l) = (lookup k l).map g := by
  induction l with
  | nil => rfl
  | cons p r ih =>
    rcases p with ⟨k', v⟩
    by_cases h : k' = k
    · simp [update, lookup, h]
    · simp [update, lookup, h, ih]

theorem lookup_update_other {β} (k k2 : Str) (g : β → β) (l : List (Str × β)) (hne : k2 ≠ k) :
    lookup k2 (update k g l) = lookup k2 l := by
  induction l with
  | nil => rfl
  | cons p r ih =>
    rcases p with ⟨k', v⟩
    by_cases h : k' = k
    · subst h
      simp [update, lookup, Ne.symm hne]
    · by_cases h2 : k' = k2
      · subst h2
        simp [update, lookup, h]
      · simp [update, lookup, h, h2, ih]

theorem missing_nil_of_subset (ns have_ : List Str) (h : ∀ n ∈ ns, n ∈ have_) : missing ns have_ = [] := by
  induction ns with
  | nil => rfl
  | cons n r ih =>
    have hn : n ∈ have_ := h n (by simp)
    simp only [missing, hn, if_true]
    exact ih (fun m hm => h m (by simp [hm]))

end Gorm.Mig
