/-
  Lemmas for the FindInBatches loop (Model/Batches.lean): one-iteration specification under the loop invariant,
  then the whole loop by induction on the fuel (which dominates the number of remaining rows).
-/
import GormModel.Model.Batches
namespace Gorm

/-! ### list facts -/

theorem filter_gt_split (A B : List Nat) (c : Nat) (hs : (A ++ B).Pairwise (· < ·))
    (hl : A.getLast? = some c) :
    (A ++ B).filter (fun k => decide (c < k)) = B := by
  obtain ⟨A', rfl⟩ := List.getLast?_eq_some_iff.mp hl
  rw [List.pairwise_append] at hs
  obtain ⟨hA, _, hAB⟩ := hs
  rw [List.pairwise_append] at hA
  obtain ⟨_, _, hA'c⟩ := hA
  rw [List.filter_append, List.filter_append]
  have h1 : A'.filter (fun k => decide (c < k)) = [] := by
    rw [List.filter_eq_nil_iff]; intro a ha
    have := hA'c a ha c (by simp)
    simp; omega
  have h3 : B.filter (fun k => decide (c < k)) = B := by
    rw [List.filter_eq_self]; intro b hb
    have := hAB c (by simp) b hb
    simpa using this
  simp [h1, h3]

theorem take_add' (l : List Nat) (a b : Nat) : l.take (a + b) = l.take a ++ (l.drop a).take b := by
  induction a generalizing l with
  | zero => simp
  | succ a ih =>
    cases l with
    | nil => simp
    | cons x l =>
      have : a + 1 + b = (a + b) + 1 := by omega
      rw [this]; simp [ih]

/-! ### division facts used by the remainder rule -/

theorem div_step (T bs0 b : Int) (h0 : 0 < bs0) (h1 : (b + 1) * bs0 < T) :
    (T / bs0 = b + 1 → T % bs0 = T - (b + 1) * bs0) ∧
    (T / bs0 ≠ b + 1 → (b + 1) * bs0 + bs0 ≤ T) := by
  have hd := Int.mul_ediv_add_emod T bs0
  have hr0 := Int.emod_nonneg T (by omega : bs0 ≠ 0)
  have hr1 := Int.emod_lt_of_pos T h0
  constructor
  · intro h
    rw [h] at hd
    have : bs0 * (b + 1) = (b + 1) * bs0 := Int.mul_comm _ _
    omega
  · intro h
    -- (b+1) * bs0 < bs0 * d + r < bs0 * (d + 1)
    have hlt : bs0 * (b + 1) < bs0 * (T / bs0 + 1) := by
      have e1 : bs0 * (b + 1) = (b + 1) * bs0 := Int.mul_comm _ _
      have e2 : bs0 * (T / bs0 + 1) = bs0 * (T / bs0) + bs0 := by rw [Int.mul_add, Int.mul_one]
      omega
    have h2 : b + 1 < T / bs0 + 1 := Int.lt_of_mul_lt_mul_left hlt (by omega)
    have h3 : b + 2 ≤ T / bs0 := by omega
    have h4 : bs0 * (b + 2) ≤ bs0 * (T / bs0) := Int.mul_le_mul_of_nonneg_left h3 (by omega)
    have e3 : bs0 * (b + 2) = (b + 1) * bs0 + bs0 := by
      have : b + 2 = (b + 1) + 1 := by omega
      rw [this, Int.mul_add, Int.mul_one, Int.mul_comm]
    omega

/-! ### the loop invariant -/

/-- `R` = the matching rows the loop has not delivered yet; `bs0` = the (clamped) batch size the loop started with -/
structure BatchInv (M : List Nat) (userOff : Option Int) (T bs0 : Int) (st : BatchSt) (R : List Nat) : Prop where
  hbs : 0 < st.batchSize
  hle : st.batchSize ≤ bs0
  hq : ∀ l : Int, findQ M (some l) (if st.first then userOff else none) st.cursor = R.take l.toNat
  hsuf : ∃ pre, M = pre ++ R
  phase : (T ≤ 0 ∧ st.batchSize = bs0) ∨
          (0 < T ∧ st.batchSize = bs0 ∧ st.rowsAffected = st.batch * bs0 ∧ st.rowsAffected + bs0 ≤ T) ∨
          (0 < T ∧ st.batchSize = T - st.rowsAffected)

/-- rows the loop may still deliver -/
def budget (T : Int) (st : BatchSt) (R : List Nat) : Nat :=
  if T ≤ 0 then R.length else (T - st.rowsAffected).toNat

theorem take_budget_of_short (R : List Nat) (n : Nat) (h : R.length ≤ n) : R.take n = R :=
  List.take_of_length_le h

theorem batchStep_spec (M : List Nat) (userOff : Option Int) (T bs0 : Int) (st : BatchSt) (R : List Nat)
    (hs : M.Pairwise (· < ·)) (hp : ∀ k ∈ M, 0 < k) (inv : BatchInv M userOff T bs0 st R) :
    let s := batchStep (fun l o g => findQ M (some l) o g) userOff T st
    s.res = R.take st.batchSize.toNat ∧ s.rowsAffected = st.rowsAffected + s.res.length ∧ s.pkRequired = false
    ∧ ((s.next = none ∧ s.res = R.take (budget T st R)) ∨
       (∃ st', s.next = some st' ∧ BatchInv M userOff T bs0 st' (R.drop st.batchSize.toNat)
          ∧ s.res.length = st.batchSize.toNat ∧ st'.rowsAffected = s.rowsAffected
          ∧ R.take (budget T st R)
              = s.res ++ (R.drop st.batchSize.toNat).take (budget T st' (R.drop st.batchSize.toNat)))) := by
  obtain ⟨hbs, hle, hq, ⟨pre, hM⟩, phase⟩ := inv
  have hres := hq st.batchSize
  have hlen : ((R.take st.batchSize.toNat).length : Int) = min st.batchSize.toNat R.length := by
    simp [List.length_take]
  have hbsn : (st.batchSize.toNat : Int) = st.batchSize := Int.toNat_of_nonneg (by omega)
  simp only [batchStep]
  rw [hres]
  by_cases hn : ((R.take st.batchSize.toNat).length : Int) < st.batchSize
  · -- short batch: break
    rw [if_pos hn]
    refine ⟨rfl, rfl, rfl, Or.inl ⟨rfl, ?_⟩⟩
    have hRl : R.length < st.batchSize.toNat := by
      rw [List.length_take] at hn; omega
    rw [List.take_of_length_le (by omega), List.take_of_length_le]
    unfold budget
    split
    · omega
    · rcases phase with ⟨h, _⟩ | ⟨_, h1, _, h2⟩ | ⟨_, h⟩ <;> omega
  · -- full batch
    rw [if_neg hn]
    have hfull : (R.take st.batchSize.toNat).length = st.batchSize.toNat := by
      rw [List.length_take] at hn ⊢; omega
    have hpos : 0 < st.batchSize.toNat := by omega
    by_cases hT : T > 0 ∧ T ≤ st.rowsAffected + ((R.take st.batchSize.toNat).length : Int)
    · rw [if_pos hT]
      refine ⟨rfl, rfl, rfl, Or.inl ⟨rfl, ?_⟩⟩
      unfold budget
      have : ¬ T ≤ 0 := by omega
      simp only [this, if_false]
      congr 1
      rcases phase with ⟨h, _⟩ | ⟨_, h1, _, h2⟩ | ⟨_, h⟩ <;> omega
    · rw [if_neg hT]
      -- last element exists and is positive
      have hne : R.take st.batchSize.toNat ≠ [] := by
        intro h; rw [h] at hfull; simp at hfull; omega
      obtain ⟨last, hlast⟩ : ∃ last, (R.take st.batchSize.toNat).getLast? = some last := by
        cases h : (R.take st.batchSize.toNat).getLast? with
        | none => exact absurd (List.getLast?_eq_none_iff.mp h) hne
        | some x => exact ⟨x, rfl⟩
      have hmem : last ∈ M := by
        rw [hM]
        have := List.mem_of_getLast? hlast
        exact List.mem_append_right _ (List.mem_of_mem_take this)
      have hlast0 : last ≠ 0 := by have := hp last hmem; omega
      simp only [hlast]
      rw [if_neg hlast0]
      refine ⟨rfl, rfl, rfl, Or.inr ⟨_, rfl, ?_, hfull, rfl, ?_⟩⟩
      · -- invariant for the next state
        have hsplit : M = (pre ++ R.take st.batchSize.toNat) ++ R.drop st.batchSize.toNat := by
          rw [List.append_assoc, List.take_append_drop]; exact hM
        have hgl : (pre ++ R.take st.batchSize.toNat).getLast? = some last := by
          rw [List.getLast?_append, hlast]; rfl
        have hfilt : M.filter (fun k => decide (last < k)) = R.drop st.batchSize.toNat := by
          have hs' := hs
          rw [hsplit] at hs' ⊢
          exact filter_gt_split _ _ _ hs' hgl
        have hq' : ∀ l : Int, findQ M (some l) (if false = true then userOff else none) (some last)
            = (R.drop st.batchSize.toNat).take l.toNat := by
          intro l; simp [findQ, hfilt]
        rcases phase with ⟨hT0, hb⟩ | ⟨hT0, hb, hra, hroom⟩ | ⟨hT0, hb⟩
        · have hc : ¬ (T > 0 ∧ T / st.batchSize = st.batch + 1) := by omega
          rw [if_neg hc]
          exact ⟨hbs, hle, hq', ⟨_, hsplit⟩, Or.inl ⟨hT0, hb⟩⟩
        · subst hb
          have hlt : (st.batch + 1) * st.batchSize < T := by
            rw [Int.add_mul, Int.one_mul]; omega
          have hds := div_step T st.batchSize st.batch hbs hlt
          have hmodlt := Int.emod_lt_of_pos T hbs
          rw [Int.add_mul, Int.one_mul] at hds
          by_cases hd : T / st.batchSize = st.batch + 1
          · have hc : (T > 0 ∧ T / st.batchSize = st.batch + 1) := ⟨hT0, hd⟩
            rw [if_pos hc]
            have hmod := hds.1 hd
            refine ⟨?_, ?_, hq', ⟨_, hsplit⟩, Or.inr (Or.inr ⟨hT0, ?_⟩)⟩
            · show 0 < T % st.batchSize; omega
            · show T % st.batchSize ≤ st.batchSize; omega
            · show T % st.batchSize = T - (st.rowsAffected + ((R.take st.batchSize.toNat).length : Int)); omega
          · have hc : ¬ (T > 0 ∧ T / st.batchSize = st.batch + 1) := by intro h; exact hd h.2
            rw [if_neg hc]
            have hroom' := hds.2 hd
            refine ⟨hbs, hle, hq', ⟨_, hsplit⟩, Or.inr (Or.inl ⟨hT0, rfl, ?_, ?_⟩)⟩
            · show st.rowsAffected + ((R.take st.batchSize.toNat).length : Int) = (st.batch + 1) * st.batchSize
              rw [Int.add_mul, Int.one_mul]; omega
            · show st.rowsAffected + ((R.take st.batchSize.toNat).length : Int) + st.batchSize ≤ T
              omega
        · exfalso; omega
      · -- budget split
        unfold budget
        by_cases hT0 : T ≤ 0
        · simp only [hT0, if_true]
          rw [List.take_of_length_le (Nat.le_refl _), List.take_of_length_le (Nat.le_refl _),
            List.take_append_drop]
        · simp only [hT0, if_false]
          have hge : st.batchSize.toNat ≤ (T - st.rowsAffected).toNat := by
            rcases phase with ⟨h, _⟩ | ⟨_, h1, _, h2⟩ | ⟨_, h⟩ <;> omega
          have hsum : (T - st.rowsAffected).toNat = st.batchSize.toNat +
              (T - (st.rowsAffected + ((R.take st.batchSize.toNat).length : Int))).toNat := by
            omega
          rw [hsum, take_add']

/-! ### the whole loop -/

theorem batchLoopQ_stop (q : Int → Option Int → Option Nat → List Nat) (uo : Option Int) (T : Int)
    (fuel : Nat) (st : BatchSt) (acc : List (List Nat)) (qs : List BatchQuery)
    (h : (batchStep q uo T st).next = none) :
    batchLoopQ q uo T (fuel + 1) st acc qs =
      { batches := (if (batchStep q uo T st).res.length ≠ 0 then (batchStep q uo T st).res :: acc else acc).reverse,
        queries := ((batchStep q uo T st).query :: qs).reverse,
        rowsAffected := (batchStep q uo T st).rowsAffected,
        pkRequired := (batchStep q uo T st).pkRequired } := by
  simp only [batchLoopQ, h]

theorem batchLoopQ_next (q : Int → Option Int → Option Nat → List Nat) (uo : Option Int) (T : Int)
    (fuel : Nat) (st st' : BatchSt) (acc : List (List Nat)) (qs : List BatchQuery)
    (h : (batchStep q uo T st).next = some st') :
    batchLoopQ q uo T (fuel + 1) st acc qs =
      batchLoopQ q uo T fuel st'
        (if (batchStep q uo T st).res.length ≠ 0 then (batchStep q uo T st).res :: acc else acc)
        ((batchStep q uo T st).query :: qs) := by
  simp only [batchLoopQ, h]

theorem batchLoop_spec (M : List Nat) (userOff : Option Int) (T bs0 : Int)
    (hs : M.Pairwise (· < ·)) (hp : ∀ k ∈ M, 0 < k) :
    ∀ (fuel : Nat) (st : BatchSt) (R : List Nat) (acc : List (List Nat)) (qs : List BatchQuery),
      BatchInv M userOff T bs0 st R → R.length + 1 ≤ fuel →
      ∃ bl, (batchLoopQ (fun l o g => findQ M (some l) o g) userOff T fuel st acc qs).batches = acc.reverse ++ bl
        ∧ bl.flatten = R.take (budget T st R)
        ∧ (∀ b ∈ bl, b ≠ [] ∧ (b.length : Int) ≤ bs0)
        ∧ (batchLoopQ (fun l o g => findQ M (some l) o g) userOff T fuel st acc qs).outOfFuel = false
        ∧ (batchLoopQ (fun l o g => findQ M (some l) o g) userOff T fuel st acc qs).pkRequired = false
        ∧ (batchLoopQ (fun l o g => findQ M (some l) o g) userOff T fuel st acc qs).rowsAffected
            = st.rowsAffected + (bl.flatten.length : Int) := by
  intro fuel
  induction fuel with
  | zero => intro st R acc qs _ h; omega
  | succ fuel ih =>
    intro st R acc qs inv hfuel
    have hstep := batchStep_spec M userOff T bs0 st R hs hp inv
    obtain ⟨hres, hra, hpk, hnext⟩ := hstep
    have hbs := inv.hbs
    have hle := inv.hle
    have hbsn : (st.batchSize.toNat : Int) = st.batchSize := Int.toNat_of_nonneg (by omega)
    have hresle : ((batchStep (fun l o g => findQ M (some l) o g) userOff T st).res.length : Int) ≤ bs0 := by
      rw [hres, List.length_take]; omega
    rcases hnext with ⟨hnone, hfin⟩ | ⟨st', hsome, inv', hfull, hra', hsplit⟩
    · -- the loop stops here
      rw [batchLoopQ_stop _ _ _ _ _ _ _ hnone]
      by_cases h0 : (batchStep (fun l o g => findQ M (some l) o g) userOff T st).res.length ≠ 0
      · rw [if_pos h0]
        refine ⟨[(batchStep (fun l o g => findQ M (some l) o g) userOff T st).res], by simp, ?_, ?_, rfl, hpk, ?_⟩
        · simp [hfin.symm]
        · intro b hb
          simp at hb; subst hb
          exact ⟨by intro h; rw [h] at h0; simp at h0, hresle⟩
        · simp [hra]
      · rw [if_neg h0]
        have hnil : (batchStep (fun l o g => findQ M (some l) o g) userOff T st).res = [] := by
          have : (batchStep (fun l o g => findQ M (some l) o g) userOff T st).res.length = 0 := by omega
          exact List.eq_nil_of_length_eq_zero this
        refine ⟨[], by simp, ?_, by simp, rfl, hpk, ?_⟩
        · rw [← hfin, hnil]; rfl
        · simp [hra, hnil]
    · -- one more iteration
      have hpos : 0 < st.batchSize.toNat := by omega
      have h0 : (batchStep (fun l o g => findQ M (some l) o g) userOff T st).res.length ≠ 0 := by omega
      have hR' : (R.drop st.batchSize.toNat).length + 1 ≤ fuel := by
        have hl : st.batchSize.toNat ≤ R.length := by
          rw [hres, List.length_take] at hfull; omega
        rw [List.length_drop]; omega
      obtain ⟨bl, hb1, hb2, hb3, hb4, hb5, hb6⟩ :=
        ih st' (R.drop st.batchSize.toNat)
          ((batchStep (fun l o g => findQ M (some l) o g) userOff T st).res :: acc)
          ((batchStep (fun l o g => findQ M (some l) o g) userOff T st).query :: qs) inv' hR'
      rw [batchLoopQ_next _ _ _ _ _ _ _ _ hsome, if_pos h0]
      refine ⟨(batchStep (fun l o g => findQ M (some l) o g) userOff T st).res :: bl, ?_, ?_, ?_, hb4, hb5, ?_⟩
      · rw [hb1]; simp
      · rw [List.flatten_cons, hb2, hsplit]
      · intro b hb
        rcases List.mem_cons.mp hb with rfl | hb
        · exact ⟨by intro h; rw [h] at h0; simp at h0, hresle⟩
        · exact hb3 b hb
      · rw [hb6, hra', hra, List.flatten_cons, List.length_append]
        simp [Int.add_assoc]

end Gorm

namespace Gorm

/-! ### the preamble + loop = Find's window, for a chain without Or / non-monotone order -/

theorem totalSize_pos_limit (lim : Option Limit) (h : 0 < totalSizeOf lim) :
    effLimitOf lim = some (totalSizeOf lim) := by
  unfold totalSizeOf at *
  cases lim with
  | none => simp at h
  | some l =>
    cases hl : l.limit with
    | none => simp [hl] at h
    | some n =>
      simp [hl] at h ⊢
      simp [effLimitOf, Limit.effLimit, hl]; omega

theorem totalSize_nonpos_limit (lim : Option Limit) (h : totalSizeOf lim ≤ 0) (h0 : effLimitOf lim ≠ some 0) :
    effLimitOf lim = none := by
  unfold totalSizeOf at *
  cases lim with
  | none => rfl
  | some l =>
    cases hl : l.limit with
    | none => simp [effLimitOf, Limit.effLimit, hl]
    | some n =>
      simp [hl] at h
      simp [effLimitOf, Limit.effLimit, hl] at h0 ⊢
      omega

theorem clampBatch_le (lim : Option Limit) (b : Int) : clampBatch lim b ≤ b := by
  unfold clampBatch; split <;> omega

theorem clampBatch_pos (lim : Option Limit) (b : Int) (hb : 0 < b) : 0 < clampBatch lim b := by
  unfold clampBatch; split <;> omega

theorem clampBatch_le_total (lim : Option Limit) (b : Int) (hT : 0 < totalSizeOf lim) :
    clampBatch lim b ≤ totalSizeOf lim := by
  unfold clampBatch
  have : lim.isSome = true := by
    cases lim with
    | none => simp [totalSizeOf] at hT
    | some _ => rfl
  split <;> simp_all <;> omega

/-- rows `Find` would return before LIMIT is applied: the matching rows after the user's OFFSET -/
def afterOffset (M : List Nat) (lim : Option Limit) : List Nat :=
  match effOffsetOf lim with
  | some o => M.drop o.toNat
  | none => M

theorem limitIsZero_iff (lim : Option Limit) : limitIsZero lim = true ↔ effLimitOf lim = some 0 := by
  cases lim with
  | none => simp [limitIsZero, effLimitOf]
  | some l =>
    cases hl : l.limit with
    | none => simp [limitIsZero, effLimitOf, Limit.effLimit, hl]
    | some n =>
      simp only [limitIsZero, effLimitOf, Limit.effLimit, hl, Option.bind_some, beq_iff_eq, Option.some.injEq]
      constructor
      · intro h; subst h; rfl
      · intro h; split at h <;> simp_all

/-- outside a stored LIMIT 0 the early return is not taken: both transcriptions run the loop -/
theorem findInBatchesQ_loop (zr : Bool) (q : Int → Option Int → Option Nat → List Nat) (lim : Option Limit)
    (batch : Int) (fuel : Nat) (h0 : effLimitOf lim ≠ some 0) :
    findInBatchesQ zr q lim batch fuel =
      batchLoopQ q (effOffsetOf lim) (totalSizeOf lim) fuel { batchSize := clampBatch lim batch } [] [] := by
  have hz : limitIsZero lim = false := by
    cases h : limitIsZero lim with
    | false => rfl
    | true => exact absurd ((limitIsZero_iff lim).mp h) h0
  simp [findInBatchesQ, hz]

/-- the tree without the early return always runs the loop -/
theorem findInBatchesQ_false (q : Int → Option Int → Option Nat → List Nat) (lim : Option Limit)
    (batch : Int) (fuel : Nat) :
    findInBatchesQ false q lim batch fuel =
      batchLoopQ q (effOffsetOf lim) (totalSizeOf lim) fuel { batchSize := clampBatch lim batch } [] [] := by
  simp [findInBatchesQ]

/-- with the early return a stored LIMIT 0 issues one `LIMIT 0` query and hands nothing to `fc` -/
theorem findInBatchesQ_zero (q : Int → Option Int → Option Nat → List Nat) (lim : Option Limit)
    (batch : Int) (fuel : Nat) (h0 : effLimitOf lim = some 0) :
    findInBatchesQ true q lim batch fuel = zeroLimitOut lim := by
  simp [findInBatchesQ, (limitIsZero_iff lim).mpr h0]

theorem findInBatches_spec (zr : Bool) (M : List Nat) (lim : Option Limit) (batch : Int) (fuel : Nat)
    (hs : M.Pairwise (· < ·)) (hp : ∀ k ∈ M, 0 < k) (hb : 0 < batch)
    (h0 : effLimitOf lim ≠ some 0) (hf : M.length + 1 ≤ fuel) :
    (findInBatches zr M lim batch fuel).batches.flatten = findAll M lim
    ∧ (∀ b ∈ (findInBatches zr M lim batch fuel).batches, b ≠ [] ∧ (b.length : Int) ≤ batch)
    ∧ (findInBatches zr M lim batch fuel).outOfFuel = false
    ∧ (findInBatches zr M lim batch fuel).pkRequired = false
    ∧ (findInBatches zr M lim batch fuel).rowsAffected = ((findAll M lim).length : Int) := by
  have inv : BatchInv M (effOffsetOf lim) (totalSizeOf lim) (clampBatch lim batch)
      { batchSize := clampBatch lim batch } (afterOffset M lim) := by
    refine ⟨clampBatch_pos _ _ hb, Int.le_refl _, ?_, ?_, ?_⟩
    · intro l
      simp only [findQ, afterOffset, if_true]
      cases effOffsetOf lim <;> rfl
    · unfold afterOffset
      cases effOffsetOf lim with
      | none => exact ⟨[], rfl⟩
      | some o => exact ⟨M.take o.toNat, (List.take_append_drop _ _).symm⟩
    · by_cases hT : totalSizeOf lim ≤ 0
      · exact Or.inl ⟨hT, rfl⟩
      · refine Or.inr (Or.inl ⟨by omega, rfl, by simp, ?_⟩)
        have := clampBatch_le_total lim batch (by omega)
        simpa using this
  have hlen : (afterOffset M lim).length + 1 ≤ fuel := by
    unfold afterOffset
    cases effOffsetOf lim with
    | none => exact hf
    | some o => simp only [List.length_drop]; omega
  obtain ⟨bl, h1, h2, h3, h4, h5, h6⟩ :=
    batchLoop_spec M (effOffsetOf lim) (totalSizeOf lim) (clampBatch lim batch) hs hp fuel
      { batchSize := clampBatch lim batch } (afterOffset M lim) [] [] inv hlen
  have hfind : (afterOffset M lim).take (budget (totalSizeOf lim) { batchSize := clampBatch lim batch }
      (afterOffset M lim)) = findAll M lim := by
    unfold budget findAll
    by_cases hT : totalSizeOf lim ≤ 0
    · rw [if_pos hT, totalSize_nonpos_limit lim hT h0, List.take_of_length_le (Nat.le_refl _)]
      simp only [findQ, afterOffset]
      cases effOffsetOf lim <;> rfl
    · rw [if_neg hT, totalSize_pos_limit lim (by omega)]
      simp only [findQ, afterOffset, Int.sub_zero]
      cases effOffsetOf lim <;> rfl
  have hloop : findInBatches zr M lim batch fuel =
      batchLoopQ (fun l o g => findQ M (some l) o g) (effOffsetOf lim) (totalSizeOf lim) fuel
        { batchSize := clampBatch lim batch } [] [] := findInBatchesQ_loop zr _ lim batch fuel h0
  rw [hloop]
  have hbat : (batchLoopQ (fun l o g => findQ M (some l) o g) (effOffsetOf lim) (totalSizeOf lim) fuel
        { batchSize := clampBatch lim batch } [] []).batches = bl := by
    simpa using h1
  refine ⟨?_, ?_, h4, h5, ?_⟩
  · rw [hbat, h2, hfind]
  · intro b hbm
    rw [hbat] at hbm
    have := h3 b hbm
    exact ⟨this.1, Int.le_trans this.2 (clampBatch_le lim batch)⟩
  · have : (batchLoopQ (fun l o g => findQ M (some l) o g) (effOffsetOf lim) (totalSizeOf lim) fuel
        { batchSize := clampBatch lim batch } [] []).rowsAffected = 0 + (bl.flatten.length : Int) := h6
    rw [this, h2, hfind]; simp

/-- `Find` on a chain with a stored LIMIT 0 returns nothing -/
theorem findAll_zero (M : List Nat) (lim : Option Limit) (h0 : effLimitOf lim = some 0) : findAll M lim = [] := by
  unfold findAll findQ
  rw [h0]
  cases effOffsetOf lim <;> simp

/-- the specification WITHOUT the exclusion of LIMIT 0, for the transcription with the early return -/
theorem findInBatches_spec_zeroRet (M : List Nat) (lim : Option Limit) (batch : Int) (fuel : Nat)
    (hs : M.Pairwise (· < ·)) (hp : ∀ k ∈ M, 0 < k) (hb : 0 < batch) (hf : M.length + 1 ≤ fuel) :
    (findInBatches true M lim batch fuel).batches.flatten = findAll M lim
    ∧ (∀ b ∈ (findInBatches true M lim batch fuel).batches, b ≠ [] ∧ (b.length : Int) ≤ batch)
    ∧ (findInBatches true M lim batch fuel).outOfFuel = false
    ∧ (findInBatches true M lim batch fuel).pkRequired = false
    ∧ (findInBatches true M lim batch fuel).rowsAffected = ((findAll M lim).length : Int) := by
  by_cases h0 : effLimitOf lim = some 0
  · have e : findInBatches true M lim batch fuel = zeroLimitOut lim := findInBatchesQ_zero _ lim batch fuel h0
    rw [e, findAll_zero M lim h0]
    simp [zeroLimitOut]
  · exact findInBatches_spec true M lim batch fuel hs hp hb h0 hf

theorem findAll_sublist (M : List Nat) (lim : Option Limit) : (findAll M lim).Sublist M := by
  unfold findAll findQ
  cases effOffsetOf lim <;> cases effLimitOf lim <;> simp only
  · exact List.Sublist.refl _
  · exact List.take_sublist _ _
  · exact List.drop_sublist _ _
  · exact (List.take_sublist _ _).trans (List.drop_sublist _ _)

/-! ### WHERE runs, ordering: when `queryW` degenerates to `findQ` on the matching rows -/

theorem evalUnitsAux_noOr (k : Nat) (us : List WUnit) (c : WUnit) (hc : c.isOr = false)
    (h : ∀ u ∈ us, u.isOr = false) (cur : Bool) :
    evalUnitsAux k cur (us ++ [c]) = (evalUnitsAux k cur us && c.sat k) := by
  induction us generalizing cur with
  | nil => simp [evalUnitsAux, hc]
  | cons u us ih =>
    have hu : u.isOr = false := h u (by simp)
    simp only [List.cons_append, evalUnitsAux, hu]
    exact ih (fun v hv => h v (by simp [hv])) _

theorem whereSwap_noOr (us : List WUnit) (h : ∀ u ∈ us, u.isOr = false) : whereSwap us = us := by
  cases us with
  | nil => rfl
  | cons u us => simp [whereSwap, h u (by simp)]

/-- without an `Or` member the cursor is a conjunct of the whole WHERE -/
theorem whereSat_cursor_noOr (us : List WUnit) (h : ∀ u ∈ us, u.isOr = false) (g k : Nat) :
    whereSat us (some g) k = (whereSat us none k && decide (g < k)) := by
  unfold whereSat
  have h' : ∀ u ∈ us ++ [cursorUnit g], u.isOr = false := by
    intro u hu
    rcases List.mem_append.mp hu with hu | hu
    · exact h u hu
    · simp at hu; subst hu; rfl
  rw [whereSwap_noOr _ h', whereSwap_noOr _ h]
  cases us with
  | nil => simp [evalUnits, evalUnitsAux, cursorUnit]
  | cons u us =>
    simp only [List.cons_append, evalUnits]
    rw [evalUnitsAux_noOr k us (cursorUnit g) rfl (fun v hv => h v (by simp [hv]))]
    rfl

theorem insertBy_head (le : Nat → Nat → Bool) (x : Nat) (l : List Nat)
    (h : ∀ y, l.head? = some y → le x y = true) : insertBy le x l = x :: l := by
  cases l with
  | nil => rfl
  | cons y l => simp [insertBy, h y rfl]

/-- a list that is already in order is left alone by the sort -/
theorem isort_sorted (le : Nat → Nat → Bool) (l : List Nat) (h : l.Pairwise (fun a b => le a b = true)) :
    isort le l = l := by
  induction l with
  | nil => rfl
  | cons x l ih =>
    rw [List.pairwise_cons] at h
    simp only [isort, ih h.2]
    apply insertBy_head
    intro y hy
    cases l with
    | nil => simp at hy
    | cons z l => simp at hy; subst hy; exact h.1 _ (by simp)

/-- the user's ordering (with the key as last column) agrees with the key order on the table -/
def KeyMonotone (tbl : List Nat) (ord : List OrdCol) : Prop :=
  tbl.Pairwise (fun a b => ordLe (ord ++ [pkAsc]) a b = true)

theorem keyMonotone_nil (tbl : List Nat) (hs : tbl.Pairwise (· < ·)) : KeyMonotone tbl [] := by
  unfold KeyMonotone
  refine hs.imp ?_
  intro a b hab
  simp [ordLe, pkAsc]
  omega

theorem queryW_eq_findQ (tbl : List Nat) (us : List WUnit) (ord : List OrdCol)
    (hOr : ∀ u ∈ us, u.isOr = false) (hOrd : KeyMonotone tbl ord)
    (lim off : Option Int) (gt : Option Nat) :
    queryW tbl us (ord ++ [pkAsc]) lim off gt = findQ (matchingW tbl us) lim off gt := by
  have hfilt : tbl.filter (whereSat us gt) =
      (match gt with | none => matchingW tbl us | some g => (matchingW tbl us).filter (fun k => decide (g < k))) := by
    cases gt with
    | none => rfl
    | some g =>
      simp only [matchingW, List.filter_filter]
      congr 1
      funext k
      rw [whereSat_cursor_noOr us hOr g k, Bool.and_comm]
  have hsub : (tbl.filter (whereSat us gt)).Sublist tbl := List.filter_sublist
  have hsorted : isort (ordLe (ord ++ [pkAsc])) (tbl.filter (whereSat us gt)) = tbl.filter (whereSat us gt) :=
    isort_sorted _ _ (List.Pairwise.sublist hsub hOrd)
  unfold queryW
  rw [hsorted, hfilt]
  unfold findQ window
  cases gt <;> rfl

theorem findInBatchesW_eq (zr : Bool) (tbl : List Nat) (us : List WUnit) (ord : List OrdCol)
    (hOr : ∀ u ∈ us, u.isOr = false) (hOrd : KeyMonotone tbl ord) (lim : Option Limit) (batch : Int) (fuel : Nat) :
    findInBatchesW zr tbl us ord lim batch fuel = findInBatches zr (matchingW tbl us) lim batch fuel := by
  unfold findInBatchesW findInBatches
  congr 1
  funext l o g
  exact queryW_eq_findQ tbl us ord hOr hOrd (some l) o g

theorem findAllW_eq (tbl : List Nat) (us : List WUnit) (ord : List OrdCol)
    (hOr : ∀ u ∈ us, u.isOr = false) (hOrd : KeyMonotone tbl ord) (lim : Option Limit) :
    findAllW tbl us ord lim = findAll (matchingW tbl us) lim :=
  queryW_eq_findQ tbl us ord hOr hOrd _ _ none

end Gorm
