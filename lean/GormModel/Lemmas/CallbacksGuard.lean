import GormModel.Model.Callbacks
import GormModel.Lemmas.Callbacks
import GormModel.Lemmas.CallbacksReach
import GormModel.Lemmas.CallbacksPost
import GormModel.Lemmas.CallbacksTable
import GormModel.Lemmas.CallbacksFuel
import GormModel.Lemmas.CallbacksSortBy
import GormModel.Lemmas.CallbacksRepair
/-!
  The depth guard (repair of F12).  `sortCallback` is monotone in its fuel: a run that does not run out of
  fuel is unchanged by more fuel.  Hence the guarded `sortCallbacks` (fuel = the guard's bound, running out =
  the guard's error) (1) never recurses without bound, (2) returns an error wherever the original recursion
  does not terminate, (3) returns exactly the original result wherever the original recursion stays within
  the bound -- in particular on every table whose requests are acyclic.
-/
namespace Gorm.CbL
open Gorm

/-- when (and on what) the second block of `sortCallback` recurses -/
def afterRec (names : List String) (i : Nat) (st : SortSt) : Option (Nat × SortSt) :=
  let c := st.cs[i]!
  if c.after ≠ "" then
    if c.after = "*" ∧ st.sorted.length > 0 then none
    else match getRIndex st.sorted c.after with
      | some _ => none
      | none =>
        match getRIndex names c.after with
        | some idx => some (idx, if (st.cs[idx]!).before = "" then { st with cs := setBefore st.cs idx c.name } else st)
        | none => none
  else none

/-- the outcome of the second block when it does not recurse -/
def afterPlain (i : Nat) (st : SortSt) : SortRes :=
  let c := st.cs[i]!
  if c.after ≠ "" then
    if c.after = "*" ∧ st.sorted.length > 0 then
      if (getRIndex st.sorted c.name).isNone then
        ({ st with sorted := st.sorted ++ [c.name] }, none)
      else (st, none)
    else match getRIndex st.sorted c.after with
      | some sortedIdx =>
        match getRIndex st.sorted c.name with
        | none => ({ st with sorted := st.sorted ++ [c.name] }, none)
        | some curIdx =>
          if curIdx < sortedIdx then (st, some (SortErr.conflict c.name c.after)) else (st, none)
      | none => (st, none)
  else (st, none)

theorem afterBlock_eq (recur : Nat → SortSt → SortRes) (names : List String) (i : Nat) (st : SortSt) :
    afterBlock recur names i st =
      match afterRec names i st with
      | some (idx, st0) =>
        (match recur idx st0 with
         | (st1, some e) => (st1, some e)
         | (st1, none) => recur i st1)
      | none => afterPlain i st := by
  unfold afterBlock afterRec afterPlain
  simp only
  by_cases h1 : (st.cs[i]!).after ≠ ""
  · simp only [if_pos h1]
    by_cases h2 : (st.cs[i]!).after = "*" ∧ st.sorted.length > 0
    · simp only [if_pos h2]
    · simp only [if_neg h2]
      cases h3 : getRIndex st.sorted (st.cs[i]!).after with
      | some k => rfl
      | none =>
        cases h4 : getRIndex names (st.cs[i]!).after with
        | some idx => rfl
        | none => rfl
  · simp only [if_neg h1]

theorem afterPlain_err (i : Nat) (st : SortSt) : (afterPlain i st).2 ≠ some .fuel := by
  unfold afterPlain
  simp only
  split
  · split
    · split <;> simp
    · split
      · split
        · simp
        · split <;> simp
      · simp
  · simp

theorem sortCallback_succ (names : List String) (f i : Nat) (st : SortSt) :
    sortCallback names (f+1) i st =
      match beforeBlock names i st with
      | (st1, some e) => (st1, some e)
      | (st1, none) =>
        match afterBlock (sortCallback names f) names i st1 with
        | (st2, some e) => (st2, some e)
        | (st2, none) => finalBlock (st.cs[i]!).name st2 := by
  rw [sortCallback]
  rfl

/-- the second block does not depend on how the recursive calls are computed, as long as those it makes do
    not run out of fuel -/
theorem afterBlock_mono (recur recur' : Nat → SortSt → SortRes) (names : List String) (i : Nat) (st : SortSt)
    (hne : (afterBlock recur names i st).2 ≠ some .fuel)
    (h : ∀ j s, (recur j s).2 ≠ some .fuel → recur' j s = recur j s) :
    afterBlock recur' names i st = afterBlock recur names i st := by
  rw [afterBlock_eq] at hne
  rw [afterBlock_eq recur', afterBlock_eq recur]
  cases hr : afterRec names i st with
  | none => rfl
  | some p =>
    obtain ⟨idx, st0⟩ := p
    rw [hr] at hne
    simp only at hne ⊢
    rcases hq : recur idx st0 with ⟨st1, _ | e⟩
    · rw [hq] at hne
      simp only at hne
      have h1 : recur' idx st0 = (st1, none) := by
        rw [h idx st0 (by rw [hq]; simp), hq]
      rw [h1]
      exact h i st1 hne
    · rw [hq] at hne
      simp only at hne
      have h1 : recur' idx st0 = (st1, some e) := by
        rw [h idx st0 (by rw [hq]; exact hne), hq]
      rw [h1]

/-- FUEL MONOTONICITY: a `sortCallback` run that does not run out of fuel is not changed by more fuel --
    its result is "the" result of the Go call (whose stack is not bounded by the model's fuel) -/
theorem sortCallback_mono (names : List String) (f k i : Nat) (st : SortSt)
    (h : (sortCallback names f i st).2 ≠ some .fuel) :
    sortCallback names (f + k) i st = sortCallback names f i st := by
  induction f generalizing i st with
  | zero => exact absurd rfl h
  | succ f ih =>
    rw [show f + 1 + k = (f + k) + 1 by omega, sortCallback_succ, sortCallback_succ]
    rw [sortCallback_succ] at h
    rcases hb : beforeBlock names i st with ⟨st1, _ | e⟩
    · rw [hb] at h
      simp only at h ⊢
      have hne : (afterBlock (sortCallback names f) names i st1).2 ≠ some .fuel := by
        rcases ha : afterBlock (sortCallback names f) names i st1 with ⟨st2, _ | e⟩
        · simp
        · rw [ha] at h; exact h
      rw [afterBlock_mono (sortCallback names f) (sortCallback names (f + k)) names i st1 hne
        (fun j s hs => ih j s hs)]
    · rfl

theorem sortLoop_mono (names : List String) (f k n i : Nat) (st : SortSt)
    (h : (sortLoop names f n i st).2 ≠ some .fuel) :
    sortLoop names (f + k) n i st = sortLoop names f n i st := by
  induction n generalizing i st with
  | zero => rfl
  | succ n ih =>
    unfold sortLoop at h ⊢
    rcases hc : sortCallback names f i st with ⟨st1, _ | e⟩
    · rw [hc] at h
      simp only at h
      rw [sortCallback_mono names f k i st (by rw [hc]; simp), hc]
      exact ih (i+1) st1 h
    · rw [hc] at h
      simp only at h
      rw [sortCallback_mono names f k i st (by rw [hc]; exact h), hc]

/-- more fuel than a run needs: same result (`≤` form) -/
theorem sortLoop_mono_le (names : List String) (f g n i : Nat) (st : SortSt) (hfg : f ≤ g)
    (h : (sortLoop names f n i st).2 ≠ some .fuel) :
    sortLoop names g n i st = sortLoop names f n i st := by
  obtain ⟨k, rfl⟩ : ∃ k, g = f + k := ⟨g - f, by omega⟩
  exact sortLoop_mono names f k n i st h

/-! ### the guarded `sortCallbacks` against the unguarded one -/

/-- the tree `r` with the depth guard switched on / off -/
def withGuard (r : CbRepairs) (b : Bool) : CbRepairs := { r with depthGuard := b }

theorem prepass_withGuard (r : CbRepairs) (b : Bool) (l : List Cb) : prepass (withGuard r b) l = prepass r l := rfl

/-- the main loop of the UNGUARDED `sortCallbacks` on a stack that allows recursion depth `f` -/
def loopF (r : CbRepairs) (cs0 : List Cb) (f : Nat) : SortRes :=
  sortLoop ((prepass r cs0).map (·.name)) f (prepass r cs0).length 0 { cs := (prepass r cs0).toArray, sorted := [] }

/-- the UNGUARDED `sortCallbacks` on a stack that allows recursion depth `f` (`.fuel` = the stack overflows) -/
def sortCallbacksF (r : CbRepairs) (cs0 : List Cb) (f : Nat) : SortOut :=
  let cs := prepass r cs0
  let res := loopF r cs0 f
  let outCs := if r.sortCopies then cs else res.1.cs.toList
  match res.2 with
  | some e => { cs := outCs, fns := [], sorted := res.1.sorted, err := some e }
  | none => { cs := outCs, fns := selectFns (cs.map (·.name)) res.1.cs.toList res.1.sorted,
              sorted := res.1.sorted, err := none }

/-- the unguarded model is the unguarded code on a stack of depth `sortFuel n` -/
theorem sortCallbacksR_noguard (r : CbRepairs) (cs0 : List Cb) :
    sortCallbacksR (withGuard r false) cs0 = sortCallbacksF r cs0 (sortFuel (prepass r cs0).length) := by
  unfold sortCallbacksR sortCallbacksF loopF withGuard
  simp only [Bool.false_eq_true, if_false]
  rfl

/-- the unguarded recursion on this table never gets deeper than the guard's bound `2n+2` -/
def WithinBound (r : CbRepairs) (cs0 : List Cb) : Prop :=
  (loopF r cs0 (depthBound (prepass r cs0).length)).2 ≠ some .fuel

/-- the unguarded recursion on this table does not terminate, however deep the stack -/
def Diverges (r : CbRepairs) (cs0 : List Cb) : Prop := ∀ f, (loopF r cs0 f).2 = some .fuel

theorem loopR_guard (r : CbRepairs) (cs0 : List Cb) :
    loopR (withGuard r true) cs0 = loopF r cs0 (depthBound (prepass r cs0).length) := by
  unfold loopR loopF withGuard
  simp only [if_true]
  rfl

/-- a terminating unguarded run within the bound is THE run, on every stack on which it terminates -/
theorem loopF_eq_of_within (r : CbRepairs) (cs0 : List Cb) (f : Nat)
    (hterm : (loopF r cs0 f).2 ≠ some .fuel) (hb : WithinBound r cs0) :
    loopF r cs0 (depthBound (prepass r cs0).length) = loopF r cs0 f := by
  unfold WithinBound at hb
  unfold loopF at *
  by_cases hle : f ≤ depthBound (prepass r cs0).length
  · exact sortLoop_mono_le _ f _ _ 0 _ hle hterm
  · exact (sortLoop_mono_le _ _ f _ 0 _ (by omega) hb).symm

theorem guarded_of_ne_fuel (e : SortErr) (h : e ≠ .fuel) : e.guarded = e := by
  cases e <;> simp [SortErr.guarded] at h ⊢

/-- (1) TOTAL: the guarded `sortCallbacks` never recurses without bound -- on no table at all -/
theorem guard_total (r : CbRepairs) (cs0 : List Cb) :
    (sortCallbacksR (withGuard r true) cs0).err ≠ some .fuel := by
  rw [sortCallbacksR_err]
  cases (loopR (withGuard r true) cs0).2 with
  | none => simp
  | some e => cases e <;> simp [SortErr.guarded, withGuard]

/-- (3) CONSERVATIVE: if the unguarded recursion stays within the bound and terminates on a stack of depth
    `f`, the guarded `sortCallbacks` returns exactly what the unguarded one returns on that stack: the same
    error or the same order and handlers, and the same table written back to `p.callbacks` -/
theorem guard_conservative (r : CbRepairs) (cs0 : List Cb) (f : Nat)
    (hterm : (loopF r cs0 f).2 ≠ some .fuel) (hb : WithinBound r cs0) :
    sortCallbacksR (withGuard r true) cs0 = sortCallbacksF r cs0 f := by
  have hl : loopR (withGuard r true) cs0 = loopF r cs0 f := by
    rw [loopR_guard]; exact loopF_eq_of_within r cs0 f hterm hb
  have h1 : sortCallbacksR (withGuard r true) cs0 =
      (let cs := prepass r cs0
       let res := loopR (withGuard r true) cs0
       let outCs := if r.sortCopies then cs else res.1.cs.toList
       match res.2 with
       | some e => { cs := outCs, fns := [], sorted := res.1.sorted, err := some e.guarded }
       | none => { cs := outCs, fns := selectFns (cs.map (·.name)) res.1.cs.toList res.1.sorted,
                   sorted := res.1.sorted, err := none }) := by
    unfold sortCallbacksR loopR withGuard
    simp only [if_true]
    rfl
  rw [h1, hl]
  unfold sortCallbacksF
  simp only
  cases he : (loopF r cs0 f).2 with
  | none => rfl
  | some e =>
    simp only
    rw [guarded_of_ne_fuel e (by rw [he] at hterm; simpa using hterm)]

/-- the model of the unguarded tree (stack depth `sortFuel n >= 2n+2`) agrees with the guarded one within the bound -/
theorem guard_conservative_model (r : CbRepairs) (cs0 : List Cb) (hb : WithinBound r cs0) :
    sortCallbacksR (withGuard r true) cs0 = sortCallbacksR (withGuard r false) cs0 := by
  rw [sortCallbacksR_noguard]
  apply guard_conservative r cs0 _ _ hb
  have := loopF_eq_of_within r cs0 (depthBound (prepass r cs0).length) hb hb
  unfold WithinBound at hb
  unfold loopF at *
  rw [sortLoop_mono_le _ _ (sortFuel (prepass r cs0).length) _ 0 _ (by simp [depthBound, sortFuel]; omega) hb]
  exact hb

/-- `sortCallback` itself never produces the guard's error -/
theorem sortCallback_no_cycle (names : List String) (f i : Nat) (st : SortSt) :
    (sortCallback names f i st).2 ≠ some .cycle := by
  induction f generalizing i st with
  | zero => simp [sortCallback]
  | succ f ih =>
    rw [sortCallback_succ]
    rcases hb : beforeBlock names i st with ⟨st1, _ | e⟩
    · simp only
      rw [afterBlock_eq]
      cases hr : afterRec names i st1 with
      | none =>
        simp only
        rcases hp : afterPlain i st1 with ⟨st2, _ | e⟩
        · simp only; rw [finalBlock_ok]; simp
        · simp only
          have : e ≠ .cycle := by
            unfold afterPlain at hp
            simp only at hp
            repeat' split at hp
            all_goals (first | (cases hp; done) | (injection hp with _ h2; injection h2 with h3; subst h3; simp))
          simpa using this
      | some p =>
        obtain ⟨idx, st0⟩ := p
        simp only
        rcases hq : sortCallback names f idx st0 with ⟨st2, _ | e⟩
        · simp only
          rcases hq2 : sortCallback names f i st2 with ⟨st3, _ | e⟩
          · simp only; rw [finalBlock_ok]; simp
          · simp only
            have := ih i st2
            rw [hq2] at this
            exact this
        · simp only
          have := ih idx st0
          rw [hq] at this
          exact this
    · simp only
      have : e ≠ .cycle := by
        unfold beforeBlock at hb
        simp only at hb
        repeat' split at hb
        all_goals (first | (cases hb; done) | (injection hb with _ h2; injection h2 with h3; subst h3; simp))
      simpa using this

theorem sortLoop_no_cycle (names : List String) (f n i : Nat) (st : SortSt) :
    (sortLoop names f n i st).2 ≠ some .cycle := by
  induction n generalizing i st with
  | zero => simp [sortLoop]
  | succ n ih =>
    unfold sortLoop
    rcases hc : sortCallback names f i st with ⟨st1, _ | e⟩
    · simp only; exact ih (i+1) st1
    · simp only
      have := sortCallback_no_cycle names f i st
      rw [hc] at this
      exact this

/-- (2) the guard's error is returned EXACTLY when the unguarded recursion exceeds the bound -/
theorem guard_cycle_iff (r : CbRepairs) (cs0 : List Cb) :
    (sortCallbacksR (withGuard r true) cs0).err = some .cycle ↔ ¬ WithinBound r cs0 := by
  rw [sortCallbacksR_err, loopR_guard]
  unfold WithinBound
  have hnc := sortLoop_no_cycle ((prepass r cs0).map (·.name)) (depthBound (prepass r cs0).length)
    (prepass r cs0).length 0 { cs := (prepass r cs0).toArray, sorted := [] }
  change (loopF r cs0 (depthBound (prepass r cs0).length)).2 ≠ some .cycle at hnc
  cases he : (loopF r cs0 (depthBound (prepass r cs0).length)).2 with
  | none => simp
  | some e =>
    rw [he] at hnc
    cases e with
    | fuel => simp [SortErr.guarded, withGuard]
    | cycle => exact absurd rfl hnc
    | conflict a b => simp [SortErr.guarded, withGuard]

/-- (2') wherever the unguarded recursion does not terminate, the guarded `sortCallbacks` returns an error -/
theorem guard_on_divergence (r : CbRepairs) (cs0 : List Cb) (hd : Diverges r cs0) :
    (sortCallbacksR (withGuard r true) cs0).err = some .cycle := by
  rw [guard_cycle_iff]
  intro hb
  exact hb (hd _)

/-- ACYCLIC TABLES are within the bound: if some rank function respects every request of the table, the
    unguarded recursion is at most n+1 deep -/
theorem within_of_rank (r : CbRepairs) (cs0 : List Cb) (G : String → Prop) (rank : String → Nat)
    (hG : ∀ c ∈ cs0, G c.name) (hr : RKlist G rank cs0) : WithinBound r cs0 := by
  have hG' : ∀ s ∈ (prepass r cs0).map (·.name), G s := by
    intro s hs
    obtain ⟨c, hc, rfl⟩ := List.mem_map.mp hs
    exact hG c ((mem_prepass r cs0 c).mp hc)
  have hr' : RKlist G rank (prepass r cs0) := fun c hc => hr c ((mem_prepass r cs0 c).mp hc)
  exact sortLoop_nofuel ((prepass r cs0).map (·.name)) G rank hG' (depthBound (prepass r cs0).length)
    (prepass r cs0).length 0 { cs := (prepass r cs0).toArray, sorted := [] }
    (by simp [depthBound]; omega) (wf_init _) (rk_init G rank _ hr') (by simp)

/-- ... and the table written back is still respected by the same rank -/
theorem sortCallbacksR_rk (r : CbRepairs) (cs0 : List Cb) (G : String → Prop) (rank : String → Nat)
    (hG : ∀ c ∈ cs0, G c.name) (hr : RKlist G rank cs0) : RKlist G rank (sortCallbacksR r cs0).cs := by
  have hG' : ∀ s ∈ (prepass r cs0).map (·.name), G s := by
    intro s hs
    obtain ⟨c, hc, rfl⟩ := List.mem_map.mp hs
    exact hG c ((mem_prepass r cs0 c).mp hc)
  have hr' : RKlist G rank (prepass r cs0) := fun c hc => hr c ((mem_prepass r cs0 c).mp hc)
  rw [sortCallbacksR_cs]
  split
  · exact hr'
  · exact rk_toList G rank _ (reach_rk hG' (loopR_reach r cs0) (wf_init _) (rk_init G rank _ hr'))

/-- HISTORY LEVEL: on a history whose requests are acyclic the guarded tree and the unguarded tree go through
    exactly the same processor states and return the same errors -/
theorem runR_guard_eq_fold (r : CbRepairs) (G : String → Prop) (rank : String → Nat) (ops : List RegOp)
    (hops : ∀ op ∈ ops, G op.toCb.name ∧ RKlist G rank [op.toCb])
    (p : Proc) (errs : List (Option SortErr))
    (hp : (∀ c ∈ p.callbacks, G c.name) ∧ RKlist G rank p.callbacks) :
    ops.foldl (fun (acc : Proc × List (Option SortErr)) op =>
        let (p', e) := acc.1.applyR (withGuard r true) op
        (p', acc.2 ++ [e])) (p, errs) =
    ops.foldl (fun (acc : Proc × List (Option SortErr)) op =>
        let (p', e) := acc.1.applyR (withGuard r false) op
        (p', acc.2 ++ [e])) (p, errs) := by
  induction ops generalizing p errs with
  | nil => rfl
  | cons op ops ih =>
    simp only [List.foldl_cons]
    have hop := hops op (by simp)
    have hT : (∀ c ∈ compileTable { p with callbacks := p.callbacks ++ [op.toCb] }, G c.name) ∧
        RKlist G rank (compileTable { p with callbacks := p.callbacks ++ [op.toCb] }) := by
      constructor
      · intro c hc
        have := ((mem_compileTable _ c).mp hc).1
        rcases List.mem_append.mp this with h | h
        · exact hp.1 c h
        · simp at h; subst h; exact hop.1
      · intro c hc
        have := ((mem_compileTable _ c).mp hc).1
        rcases List.mem_append.mp this with h | h
        · exact hp.2 c h
        · simp at h; subst h; exact hop.2 _ (by simp)
    have heq : Proc.applyR (withGuard r true) p op = Proc.applyR (withGuard r false) p op := by
      unfold Proc.applyR
      rw [compileR_eq, compileR_eq]
      rw [guard_conservative_model r _ (within_of_rank r _ G rank hT.1 hT.2)]
    rw [heq]
    apply ih (fun o ho => hops o (by simp [ho]))
    unfold Proc.applyR
    rw [compileR_eq]
    simp only
    constructor
    · intro c hc
      obtain ⟨c0, hc0, hid⟩ := sortCallbacksR_cs_sameId _ _ c hc
      rw [hid.1]; exact hT.1 c0 hc0
    · exact sortCallbacksR_rk _ _ G rank hT.1 hT.2

/-- every error a history returns satisfies `P` if every single call's does -/
theorem runR_errs (r : CbRepairs) (P : Option SortErr → Prop) (hP : ∀ p op, P (Proc.applyR r p op).2)
    (ops : List RegOp) (p : Proc) (errs : List (Option SortErr)) (he : ∀ e ∈ errs, P e) :
    ∀ e ∈ (ops.foldl (fun (acc : Proc × List (Option SortErr)) op =>
        let (p', e) := acc.1.applyR r op
        (p', acc.2 ++ [e])) (p, errs)).2, P e := by
  induction ops generalizing p errs with
  | nil => exact he
  | cons op ops ih =>
    simp only [List.foldl_cons]
    apply ih
    intro e hm
    rcases List.mem_append.mp hm with h | h
    · exact he e h
    · simp at h; subst h; exact hP p op

end Gorm.CbL
