import GormModel.Model.Exec
namespace Gorm

theorem atomVal_errNil (st : RunSt) (env : String → Bool) (h : st.err = true) :
    atomVal st env "db.Error == nil" = false := by
  simp [atomVal, h]

/-- the invariant carried through a run: a fault implies the error flag, and everything emitted
    after the fault is harmless -/
def ExecSt.Inv (s : ExecSt) : Prop :=
  (s.faulted = true → s.st.err = true) ∧ s.post.all Ev.harmless = true

abbrev GuardedCalls (cs : List HCall) : Prop :=
  ∀ c ∈ cs, (c.kind = "driver" → "db.Error == nil" ∈ c.guards) ∧
            (c.kind = "tx" → c.what = "Commit" → "db.Error == nil" ∈ c.guards)

theorem execCalls_inv (cb : String) (env : String → Bool) (k : Nat) (cs : List HCall) (s : ExecSt)
    (hg : GuardedCalls cs) (h : s.Inv) : (execCalls cb env k cs s).Inv := by
  induction cs generalizing s with
  | nil => simpa [execCalls] using h
  | cons c cs ih =>
    have hgc := hg c (by simp)
    have hgcs : GuardedCalls cs := fun c' hc' => hg c' (List.mem_cons_of_mem _ hc')
    unfold execCalls
    split
    · rename_i hcond
      obtain ⟨_, hen⟩ := hcond
      apply ih _ hgcs
      constructor
      · -- faulted' → err'
        intro hf
        simp only at hf ⊢
        by_cases hfail : (decide (c.kind = "driver") && decide (s.evs.length = k)) = true
        · simp [hfail]
        · have hfail' : (decide (c.kind = "driver") && decide (s.evs.length = k)) = false := by
            simpa using hfail
          simp only [hfail', Bool.or_false] at hf
          simp [hfail', h.1 hf]
      · -- post' harmless
        simp only
        by_cases hfd : s.faulted = true
        · have herr := h.1 hfd
          have hnd : c.kind ≠ "driver" := by
            intro hd
            have := enabled_false_of_mem c s.st env _ (hgc.1 hd) (atomVal_errNil s.st env herr)
            rw [this] at hen; exact Bool.noConfusion hen
          have hnc : ¬ (c.kind = "tx" ∧ c.what = "Commit") := by
            rintro ⟨ht, hw⟩
            have := enabled_false_of_mem c s.st env _ (hgc.2 ht hw) (atomVal_errNil s.st env herr)
            rw [this] at hen; exact Bool.noConfusion hen
          simp only [hfd, if_true, List.all_append, h.2, Bool.true_and, List.all_cons, List.all_nil, Bool.and_true]
          simp only [Ev.harmless]
          have h1 : decide (c.kind = "driver") = false := by simp [hnd]
          by_cases ht : c.kind = "tx"
          · have : c.what ≠ "Commit" := fun hw => hnc ⟨ht, hw⟩
            simp [h1, this]
          · simp [h1, ht]
        · have : s.faulted = false := by simpa using hfd
          simp [this, h.2]
    · exact ih s hgcs h

theorem execPipeline_inv (hs : List HandlerFact) (env : String → Bool) (k : Nat) (rs : List CbReg) (s : ExecSt)
    (hg : GuardedTable hs) (h : s.Inv) : (execPipeline hs env k rs s).Inv := by
  induction rs generalizing s with
  | nil => simpa [execPipeline] using h
  | cons r rs ih =>
    unfold execPipeline
    split
    · split
      · rename_i hf hh
        have hmem : hf ∈ hs := by
          unfold handlerOf at hh; exact List.mem_of_find?_eq_some hh
        exact ih _ (execCalls_inv r.name env k hf.calls s (hg hf hmem) h)
      · exact ih s h
    · exact ih s h

end Gorm
