/-
  Lemmas about `Model/WriteSet.lean`: what `SelectAndOmitColumns` returns, as a closed formula.
-/
import GormModel.Model.WriteSet
namespace Gorm.WriteSet

/-- permission denial tested by the last loop of `SelectAndOmitColumns` -/
def denies (rc ru : Bool) (f : FieldSpec) : Bool := (rc && !f.creatable) || (ru && !f.updatable)

/-- some field writing the key `c` is denied -/
def deniedKey (s : Schema) (rc ru : Bool) (c : Col) : Bool := s.fields.any fun f => f.key == c && denies rc ru f

/-- the keys named by a Select / Omit list -/
def keysOf (s : Schema) (cols : List Col) : List Col := cols.flatMap (resolve s)

/-- closed form of the `restricted` result -/
def restrictedSpec (selects omits : List Col) : Bool :=
  !selects.isEmpty && !(decide (star ∈ selects) && !decide (star ∈ omits))

theorem lookup_map_append (ks : List Col) (v : Bool) (r : Results) (c : Col) :
    ((ks.map fun k => (k, v)) ++ r).lookup c = if c ∈ ks then some v else r.lookup c := by
  induction ks with
  | nil => simp
  | cons k t ih =>
    simp only [List.map_cons, List.cons_append, List.lookup_cons, List.mem_cons]
    by_cases h : c = k
    · subst h; simp
    · have : (c == k) = false := by simpa using h
      simp [this, ih, h]

theorem fold_process_lookup (s : Schema) (v : Bool) (cols : List Col) (st : Results × Bool) (c : Col) :
    (cols.foldl (fun st col => processColumn s st col v) st).1.lookup c =
      if c ∈ keysOf s cols then some v else st.1.lookup c := by
  induction cols generalizing st with
  | nil => simp [keysOf]
  | cons col t ih =>
    simp only [List.foldl_cons]
    rw [ih]
    simp only [keysOf, List.flatMap_cons, List.mem_append, processColumn, lookup_map_append]
    by_cases h1 : c ∈ List.flatMap (resolve s) t
    · simp [h1]
    · by_cases h2 : c ∈ resolve s col <;> simp [h1, h2]

theorem fold_process_flag (s : Schema) (v : Bool) (cols : List Col) (st : Results × Bool) :
    (cols.foldl (fun st col => processColumn s st col v) st).2 = if star ∈ cols then v else st.2 := by
  induction cols generalizing st with
  | nil => simp
  | cons col t ih =>
    simp only [List.foldl_cons]
    rw [ih]
    simp only [processColumn, List.mem_cons]
    by_cases h1 : star ∈ t
    · simp [h1]
    · by_cases h2 : col = star
      · subst h2; simp [h1]
      · have h3 : ¬ star = col := fun h => h2 h.symm
        simp [h1, h2, h3]

theorem fold_perm_lookup (rc ru : Bool) (fs : List FieldSpec) (r : Results) (c : Col) :
    (fs.foldl (permStep rc ru) r).lookup c =
      if fs.any (fun f => f.key == c && denies rc ru f) then some false else r.lookup c := by
  induction fs generalizing r with
  | nil => simp
  | cons f t ih =>
    simp only [List.foldl_cons, List.any_cons]
    rw [ih]
    by_cases ht : (t.any fun f => f.key == c && denies rc ru f) = true
    · simp [ht]
    · simp only [ht, Bool.or_false]
      by_cases hk : f.key = c
      · subst hk
        cases hrc : rc <;> cases hru : ru <;> cases hc : f.creatable <;> cases hu : f.updatable <;>
          simp [permStep, denies, hc, hu, List.lookup_cons]
      · have hk' : (f.key == c) = false := by simpa using hk
        have hk'' : (c == f.key) = false := by
          simp only [beq_eq_false_iff_ne, ne_eq]; exact fun h => hk h.symm
        cases hrc : rc <;> cases hru : ru <;> cases hc : f.creatable <;> cases hu : f.updatable <;>
          simp [permStep, hk', hk'', hc, hu, List.lookup_cons]

/-- CLOSED FORM of `SelectAndOmitColumns`: a key is `false` when some field writing it lacks the required
    permission, else `false` when omitted, else `true` when selected, else absent. -/
theorem selectAndOmit_lookup (s : Schema) (sel om : List Col) (rc ru : Bool) (c : Col) :
    (selectAndOmit s sel om rc ru).1.lookup c =
      if deniedKey s rc ru c then some false
      else if c ∈ keysOf s om then some false
      else if c ∈ keysOf s sel then some true
      else none := by
  simp only [selectAndOmit, fold_perm_lookup, fold_process_lookup, deniedKey]
  simp

theorem selectAndOmit_restricted (s : Schema) (sel om : List Col) (rc ru : Bool) :
    (selectAndOmit s sel om rc ru).2 = restrictedSpec sel om := by
  simp only [selectAndOmit, fold_process_flag, restrictedSpec]
  by_cases h1 : star ∈ om <;> by_cases h2 : star ∈ sel <;> simp [h1, h2]

/-- closed form of the recurring test `(ok && v) || (!ok && !restricted)` -/
theorem allowed_spec (s : Schema) (sel om : List Col) (rc ru : Bool) (c : Col) :
    allowed (selectAndOmit s sel om rc ru) c =
      (!deniedKey s rc ru c && !decide (c ∈ keysOf s om) &&
        (decide (c ∈ keysOf s sel) || !restrictedSpec sel om)) := by
  unfold allowed
  rw [selectAndOmit_lookup, selectAndOmit_restricted]
  by_cases h1 : deniedKey s rc ru c = true
  · simp [h1]
  · by_cases h2 : c ∈ keysOf s om
    · simp [h1, h2]
    · by_cases h3 : c ∈ keysOf s sel <;> simp [h1, h2, h3]

/-- a denied field's key is always mapped to `false` -/
theorem lookup_denied (s : Schema) (sel om : List Col) (rc ru : Bool) (f : FieldSpec)
    (hf : f ∈ s.fields) (hd : denies rc ru f = true) :
    (selectAndOmit s sel om rc ru).1.lookup f.key = some false := by
  rw [selectAndOmit_lookup]
  have : deniedKey s rc ru f.key = true := by
    simp only [deniedKey, List.any_eq_true]
    exact ⟨f, hf, by simp [hd]⟩
  simp [this]

theorem allowed_ne_false {sel : Results × Bool} {c : Col} (h : allowed sel c = true) :
    sel.1.lookup c ≠ some false := by
  unfold allowed at h
  intro hc
  rw [hc] at h
  exact Bool.false_ne_true h

theorem structWrites_guard {sel : Results × Bool} {dim sh : Bool} {nz : List Col} {f : FieldSpec}
    (h : structWrites sel dim sh nz f = true) :
    sel.1.lookup f.dbName ≠ some false ∧ f.updatable = true ∧ (f.primaryKey = false ∨ dim = false) := by
  unfold structWrites at h
  cases hl : sel.1.lookup f.dbName with
  | none => simp_all
  | some v => cases v <;> simp_all

theorem createWrites_guard {sel : Results × Bool} {f : FieldSpec} (h : createWrites sel f = true) :
    sel.1.lookup f.dbName ≠ some false := by
  unfold createWrites at h
  cases hl : sel.1.lookup f.dbName with
  | none => simp
  | some v => cases v <;> simp_all

theorem createWritesDefault_guard {sel : Results × Bool} {isSlice : Bool} {rows : List (List Col)} {f : FieldSpec}
    (h : createWritesDefault sel isSlice rows f = true) : sel.1.lookup f.dbName ≠ some false := by
  unfold createWritesDefault allowed at h
  cases hl : sel.1.lookup f.dbName with
  | none => simp
  | some v => cases v <;> cases isSlice <;> simp_all

theorem upsertKeeps_guard {sel : Results × Bool} {f : FieldSpec} (h : upsertKeeps sel f = true) :
    sel.1.lookup f.dbName ≠ some false ∧ f.primaryKey = false ∧ f.autoCreateTime = false := by
  unfold upsertKeeps at h
  simp only [Bool.and_eq_true, Bool.not_eq_true'] at h
  exact ⟨allowed_ne_false h.1.1.1, h.1.1.2, h.2⟩

theorem byDBName_some {s : Schema} {n : Col} {f : FieldSpec} (h : s.byDBName n = some f) :
    f ∈ s.fields ∧ f.dbName = n ∧ n ≠ [] := by
  unfold Schema.byDBName at h
  split at h
  · cases h
  · rename_i hn
    have h1 := List.find?_some h
    have h2 := List.mem_of_find?_eq_some h
    exact ⟨h2, by simpa using h1, hn⟩

theorem mem_dbNames {s : Schema} {c : Col} : c ∈ s.dbNames ↔ ∃ g ∈ s.fields, g.dbName ≠ [] ∧ g.dbName = c := by
  simp [Schema.dbNames, and_assoc]

/-- `LookUpField` of a column name of the schema returns a field with that column -/
theorem lookUp_of_mem_dbNames {s : Schema} {c : Col} {f : FieldSpec} (hc : c ∈ s.dbNames)
    (h : s.lookUpField c = some f) : f.dbName = c := by
  rcases mem_dbNames.1 hc with ⟨g, hg, hne, hgc⟩
  unfold Schema.lookUpField at h
  cases hb : s.byDBName c with
  | some f' =>
    rw [hb] at h
    injection h with h; subst h
    exact (byDBName_some hb).2.1
  | none =>
    exfalso
    unfold Schema.byDBName at hb
    have hcne : c ≠ [] := hgc ▸ hne
    simp only [hcne, if_false] at hb
    have := List.find?_eq_none.1 hb g hg
    simp [hgc] at this

/-- schema well-formedness used by the spec equations: distinct fields write distinct keys
    (distinct column names; a column-less field's Go name is not another field's column) -/
def KeysDistinct (s : Schema) : Prop := ∀ f ∈ s.fields, ∀ g ∈ s.fields, f.key = g.key → f = g

theorem key_of_hasCol {f : FieldSpec} (h : f.dbName ≠ []) : f.key = f.dbName := by
  simp [FieldSpec.key, h]

theorem lookUp_self {s : Schema} (hk : KeysDistinct s) {f : FieldSpec} (hf : f ∈ s.fields) (hne : f.dbName ≠ []) :
    s.lookUpField f.dbName = some f := by
  have hmem : f.dbName ∈ s.dbNames := mem_dbNames.2 ⟨f, hf, hne, rfl⟩
  cases hl : s.lookUpField f.dbName with
  | none =>
    exfalso
    unfold Schema.lookUpField Schema.byDBName at hl
    simp only [hne, if_false] at hl
    cases hb : List.find? (fun g => g.dbName == f.dbName) s.fields with
    | none => have := List.find?_eq_none.1 hb f hf; simp at this
    | some g => rw [hb] at hl; cases hl
  | some g =>
    have h1 := lookUp_of_mem_dbNames hmem hl
    have hg : g ∈ s.fields := by
      unfold Schema.lookUpField at hl
      cases hb : s.byDBName f.dbName with
      | some g' => rw [hb] at hl; injection hl with hl; subst hl; exact (byDBName_some hb).1
      | none =>
        rw [hb] at hl
        exact List.mem_of_find?_eq_some hl
    have : g = f := hk g hg f hf (by rw [key_of_hasCol (h1 ▸ hne), key_of_hasCol hne, h1])
    rw [this]

theorem deniedKey_self {s : Schema} (hk : KeysDistinct s) (rc ru : Bool) {f : FieldSpec} (hf : f ∈ s.fields) :
    deniedKey s rc ru f.key = denies rc ru f := by
  unfold deniedKey
  cases hd : denies rc ru f with
  | true =>
    simp only [List.any_eq_true]
    exact ⟨f, hf, by simp [hd]⟩
  | false =>
    rw [List.any_eq_false]
    intro g hg
    by_cases hgk : g.key = f.key
    · have := hk g hg f hf hgk
      subst this; simp [hd]
    · simp [hgk]

/-! ### statements without a schema (`stmt.Schema == nil`) -/

/-- with a schema the `Option` version IS `selectAndOmit` -/
theorem selectAndOmitO_some (s : Schema) (sel om : List Col) (rc ru : Bool) :
    selectAndOmitO (some s) sel om rc ru = selectAndOmit s sel om rc ru := rfl

/-- the keys named by a Select / Omit list, schema known or not -/
def keysOfO (o : Option Schema) (cols : List Col) : List Col := cols.flatMap (resolveO o)

theorem keysOfO_some (s : Schema) (cols : List Col) : keysOfO (some s) cols = keysOf s cols := rfl

theorem keysOfO_none (cols : List Col) : keysOfO none cols = cols := by
  induction cols with
  | nil => rfl
  | cons c t ih =>
    have : keysOfO none (c :: t) = c :: keysOfO none t := by simp [keysOfO, resolveO]
    rw [this, ih]

theorem fold_processO_none_lookup (v : Bool) (cols : List Col) (st : Results × Bool) (c : Col) :
    (cols.foldl (fun st col => processColumnO none st col v) st).1.lookup c =
      if c ∈ cols then some v else st.1.lookup c := by
  induction cols generalizing st with
  | nil => simp
  | cons col t ih =>
    simp only [List.foldl_cons]
    rw [ih]
    simp only [processColumnO, List.lookup_cons, List.mem_cons]
    by_cases h1 : c ∈ t
    · simp [h1]
    · by_cases h2 : c = col
      · subst h2; simp [h1]
      · have : (c == col) = false := by simpa using h2
        simp [h1, h2, this]

theorem fold_processO_none_flag (v : Bool) (cols : List Col) (st : Results × Bool) :
    (cols.foldl (fun st col => processColumnO none st col v) st).2 = st.2 := by
  induction cols generalizing st with
  | nil => rfl
  | cons col t ih => simp only [List.foldl_cons]; rw [ih]; rfl

/-- CLOSED FORM without schema: the names are taken literally; omitted ⇒ `false`, else selected ⇒ `true` -/
theorem selectAndOmitO_none_lookup (sel om : List Col) (rc ru : Bool) (c : Col) :
    (selectAndOmitO none sel om rc ru).1.lookup c =
      if c ∈ om then some false else if c ∈ sel then some true else none := by
  simp only [selectAndOmitO, fold_processO_none_lookup]
  simp

/-- without schema ANY non-empty Select list restricts (there is no `*` arm that could lift the restriction) -/
theorem selectAndOmitO_none_restricted (sel om : List Col) (rc ru : Bool) :
    (selectAndOmitO none sel om rc ru).2 = !sel.isEmpty := by
  simp only [selectAndOmitO, fold_processO_none_flag]
  simp

theorem allowedO_none_spec (sel om : List Col) (rc ru : Bool) (c : Col) :
    allowed (selectAndOmitO none sel om rc ru) c = (!decide (c ∈ om) && (decide (c ∈ sel) || sel.isEmpty)) := by
  unfold allowed
  rw [selectAndOmitO_none_lookup, selectAndOmitO_none_restricted]
  by_cases h1 : c ∈ om
  · simp [h1]
  · by_cases h2 : c ∈ sel <;> simp [h1, h2]

/-- under a restricting Select `allowed` means "explicitly selected" -/
theorem allowed_restricted {sel : Results × Bool} {c : Col} (h : allowed sel c = true) (hr : sel.2 = true) :
    sel.1.lookup c = some true := by
  unfold allowed at h
  cases hl : sel.1.lookup c with
  | none => rw [hl] at h; simp [hr] at h
  | some v => rw [hl] at h; simp only at h; rw [h]

theorem lookUpField_mem {s : Schema} {n : Col} {f : FieldSpec} (h : s.lookUpField n = some f) : f ∈ s.fields := by
  unfold Schema.lookUpField at h
  cases hb : s.byDBName n with
  | some g => rw [hb] at h; injection h with h; subst h; exact (byDBName_some hb).1
  | none => rw [hb] at h; exact List.mem_of_find?_eq_some h

/-- a key mapped to `true` by `SelectAndOmitColumns` is named by the Select list -/
theorem lookup_true_selected {s : Schema} {sel om : List Col} {rc ru : Bool} {c : Col}
    (h : (selectAndOmit s sel om rc ru).1.lookup c = some true) : c ∈ keysOf s sel ∧ c ∉ keysOf s om := by
  rw [selectAndOmit_lookup] at h
  by_cases h1 : deniedKey s rc ru c = true
  · simp [h1] at h
  · by_cases h2 : c ∈ keysOf s om
    · simp [h1, h2] at h
    · by_cases h3 : c ∈ keysOf s sel
      · exact ⟨h3, h2⟩
      · simp [h1, h2, h3] at h

theorem filterMap_if_eq {α β : Type} (l : List α) (p : α → Bool) (h : α → β) :
    l.filterMap (fun a => if p a then some (h a) else none) = (l.filter p).map h := by
  induction l with
  | nil => rfl
  | cons a t ih =>
    by_cases hp : p a = true
    · simp [List.filterMap_cons, hp, ih]
    · simp [List.filterMap_cons, hp, ih]

theorem filterMap_congr_mem {α β : Type} (l : List α) (f g : α → Option β) (h : ∀ a ∈ l, f a = g a) :
    l.filterMap f = l.filterMap g := by
  induction l with
  | nil => rfl
  | cons a t ih =>
    have h1 := h a (List.mem_cons_self ..)
    have h2 := ih (fun b hb => h b (List.mem_cons_of_mem _ hb))
    simp only [List.filterMap_cons, h1, h2]

/-- the documented write rule of the struct branch for one field -/
def structRule (s : Schema) (sel om : List Col) (dim sh : Bool) (nz : List Col) (f : FieldSpec) : Bool :=
  f.updatable && !(f.primaryKey && dim) && !decide (f.dbName ∈ keysOf s om) &&
    (decide (f.dbName ∈ keysOf s sel) || (!sh && f.autoUpdateTime) || (!restrictedSpec sel om && nz.contains f.name))

theorem structWrites_eq_rule {s : Schema} (hk : KeysDistinct s) (sel om : List Col) (dim sh : Bool) (nz : List Col)
    {f : FieldSpec} (hf : f ∈ s.fields) (hne : f.dbName ≠ []) :
    structWrites (selectAndOmit s sel om false true) dim sh nz f = structRule s sel om dim sh nz f := by
  unfold structWrites structRule
  rw [selectAndOmit_lookup, selectAndOmit_restricted]
  have hd : deniedKey s false true f.dbName = !f.updatable := by
    rw [← key_of_hasCol hne, deniedKey_self hk false true hf]; simp [denies]
  rw [hd]
  generalize restrictedSpec sel om = r
  generalize nz.contains f.name = z
  generalize f.updatable = u
  generalize f.primaryKey = pk
  generalize f.autoUpdateTime = aut
  by_cases ho : f.dbName ∈ keysOf s om <;> by_cases hs : f.dbName ∈ keysOf s sel <;>
    cases u <;> cases pk <;> cases dim <;> cases sh <;> cases aut <;> cases r <;> cases z <;> simp [ho, hs]

end Gorm.WriteSet
