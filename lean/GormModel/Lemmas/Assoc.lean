/-
  Lemmas.Assoc — helper lemmas for C12 (association mode): key assignment (`fill`/`inserted`/`backfill`),
  the invariant of the scoped single-owner fragment and one simulation lemma per operation × class.
-/
import GormModel.Model.Assoc
namespace Gorm.Assoc

/-! ### upd -/

@[simp] theorem upd_same {α} (f : Nat → α) (o : Nat) (x : α) : upd f o x o = x := by simp [upd]

theorem upd_other {α} (f : Nat → α) (o : Nat) (x : α) (y : Nat) (h : y ≠ o) : upd f o x y = f y := by
  simp [upd, h]

/-! ### fill / zeros -/

theorem zeros_nil : zeros [] = 0 := rfl

theorem zeros_cons (v : Nat) (vs : List Nat) : zeros (v :: vs) = (if v = 0 then 1 else 0) + zeros vs := by
  unfold zeros
  by_cases h : v = 0 <;> simp [h] <;> omega

theorem zeros_append (a b : List Nat) : zeros (a ++ b) = zeros a + zeros b := by
  simp [zeros, List.filter_append]

theorem zeros_eq_zero {l : List Nat} (h : 0 ∉ l) : zeros l = 0 := by
  induction l with
  | nil => rfl
  | cons v vs ih =>
    have hv : v ≠ 0 := by intro e; subst e; simp at h
    have : 0 ∉ vs := by intro e; exact h (List.mem_cons_of_mem _ e)
    simp [zeros_cons, hv, ih this]

theorem fill_length (vs : List Nat) (n : Nat) : (fill vs n).length = vs.length := by
  induction vs generalizing n with
  | nil => rfl
  | cons v vs ih => by_cases h : v = 0 <;> simp [fill, h, ih]

theorem fill_eq_nil {vs : List Nat} {n : Nat} : fill vs n = [] ↔ vs = [] := by
  cases vs with
  | nil => simp [fill]
  | cons v vs => by_cases h : v = 0 <;> simp [fill, h]

theorem fill_of_nozero {vs : List Nat} (h : 0 ∉ vs) (n : Nat) : fill vs n = vs := by
  induction vs generalizing n with
  | nil => rfl
  | cons v vs ih =>
    have hv : v ≠ 0 := by intro e; subst e; simp at h
    have : 0 ∉ vs := by intro e; exact h (List.mem_cons_of_mem _ e)
    simp [fill, hv, ih this]

/-- membership in `fill`: the preset keys, and one fresh key per keyless element -/
theorem mem_fill {vs : List Nat} {n : Nat} (hlt : ∀ v ∈ vs, v < n) (t : Nat) :
    t ∈ fill vs n ↔ (t ≠ 0 ∧ t ∈ vs) ∨ (n ≤ t ∧ t < n + zeros vs) := by
  induction vs generalizing n with
  | nil => simp [fill, zeros_nil]
  | cons v vs ih =>
    have hv : v < n := hlt v (by simp)
    have hlt' : ∀ x ∈ vs, x < n := fun x hx => hlt x (List.mem_cons_of_mem _ hx)
    by_cases h : v = 0
    · have hlt'' : ∀ x ∈ vs, x < n + 1 := fun x hx => Nat.lt_succ_of_lt (hlt' x hx)
      simp only [fill, h, if_true, List.mem_cons, zeros_cons, ih hlt'']
      constructor
      · rintro (e | ⟨h1, h2⟩ | ⟨h1, h2⟩)
        · right; omega
        · left; exact ⟨h1, Or.inr h2⟩
        · right; omega
      · rintro (⟨h1, h2 | h2⟩ | ⟨h1, h2⟩)
        · exact absurd h2 h1
        · right; left; exact ⟨h1, h2⟩
        · by_cases e : t = n
          · left; exact e
          · right; right; omega
    · simp only [fill, h, if_false, List.mem_cons, zeros_cons, ih hlt']
      constructor
      · rintro (e | ⟨h1, h2⟩ | ⟨h1, h2⟩)
        · left; subst e; exact ⟨h, Or.inl rfl⟩
        · left; exact ⟨h1, Or.inr h2⟩
        · right; omega
      · rintro (⟨h1, h2 | h2⟩ | ⟨h1, h2⟩)
        · left; exact h2
        · right; left; exact ⟨h1, h2⟩
        · right; right; omega

theorem zero_not_mem_fill {vs : List Nat} {n : Nat} (hn : 0 < n) : 0 ∉ fill vs n := by
  induction vs generalizing n with
  | nil => simp [fill]
  | cons v vs ih =>
    by_cases h : v = 0
    · simp only [fill, h, if_true, List.mem_cons, not_or]
      exact ⟨by omega, ih (by omega)⟩
    · simp only [fill, h, if_false, List.mem_cons, not_or]
      exact ⟨fun e => h e.symm, ih hn⟩

theorem fill_lt {vs : List Nat} {n : Nat} (hlt : ∀ v ∈ vs, v < n) : ∀ t ∈ fill vs n, t < n + zeros vs := by
  intro t ht
  rcases (mem_fill hlt t).1 ht with ⟨_, h⟩ | ⟨_, h⟩
  · have := hlt t h; omega
  · exact h

theorem nz_fill {vs : List Nat} {n : Nat} (hn : 0 < n) : nz (fill vs n) = fill vs n := by
  unfold nz
  rw [List.filter_eq_self]
  intro a ha
  have : a ≠ 0 := by intro e; subst e; exact zero_not_mem_fill hn ha
  simpa using this

theorem mem_nz (l : List Nat) (t : Nat) : t ∈ nz l ↔ t ≠ 0 ∧ t ∈ l := by
  simp [nz, List.mem_filter, and_comm]

/-! ### inserted / backfill (many2many) -/

/-- no value with a preset key that does not exist yet is followed by a keyless value -/
def okM2M : List Nat → List Nat → Bool
  | [], _ => true
  | v :: vs, ts => if v = 0 then okM2M vs ts else if v ∈ ts then okM2M vs ts else decide (0 ∉ vs)

theorem okM2M_of_nozero {vs : List Nat} (h : 0 ∉ vs) (ts : List Nat) : okM2M vs ts = true := by
  induction vs with
  | nil => rfl
  | cons v vs ih =>
    have hv : v ≠ 0 := by intro e; subst e; simp at h
    have h' : 0 ∉ vs := by intro e; exact h (List.mem_cons_of_mem _ e)
    by_cases hm : v ∈ ts <;> simp [okM2M, hv, hm, ih h', h']

theorem okM2M_mono {vs ts ts' : List Nat} (hsub : ∀ t ∈ ts, t ∈ ts') (h : okM2M vs ts = true) :
    okM2M vs ts' = true := by
  induction vs with
  | nil => rfl
  | cons v vs ih =>
    by_cases hv : v = 0
    · simp [okM2M, hv] at h ⊢; exact ih h
    · by_cases hm : v ∈ ts
      · have hm' := hsub v hm
        simp [okM2M, hv, hm] at h
        simp [okM2M, hv, hm']; exact ih h
      · simp [okM2M, hv, hm] at h
        by_cases hm' : v ∈ ts'
        · simp [okM2M, hv, hm']; exact okM2M_of_nozero (by simpa using h) _
        · simp [okM2M, hv, hm']; exact h

theorem okM2M_append {m vs ts : List Nat} (hm : ∀ t ∈ m, t ∈ ts ∧ t ≠ 0) (h : okM2M vs ts = true) :
    okM2M (m ++ vs) ts = true := by
  induction m with
  | nil => simpa using h
  | cons a m ih =>
    have ha := hm a (by simp)
    have := ih (fun t ht => hm t (List.mem_cons_of_mem _ ht))
    simp [okM2M, ha.1, ha.2, this]

theorem backfill_nil (es : List Nat) : backfill es [] = es := by
  cases es <;> rfl

theorem backfill_cons_ne {e : Nat} (he : e ≠ 0) (es rs : List Nat) :
    backfill (e :: es) rs = e :: backfill es rs := by
  cases rs with
  | nil => simp [backfill, backfill_nil]
  | cons r rs => simp [backfill, he]

theorem backfill_of_nozero {es : List Nat} (h : 0 ∉ es) (rs : List Nat) : backfill es rs = es := by
  induction es with
  | nil => cases rs <;> rfl
  | cons e es ih =>
    have he : e ≠ 0 := by intro x; subst x; simp at h
    have h' : 0 ∉ es := by intro x; exact h (List.mem_cons_of_mem _ x)
    rw [backfill_cons_ne he, ih h']

/-- under `okM2M` the DO-NOTHING back-fill assigns the keys exactly as the DO-UPDATE one does -/
theorem backfill_inserted {vs ts : List Nat} {n : Nat} (h : okM2M vs ts = true) :
    backfill vs (inserted vs ts n) = fill vs n := by
  induction vs generalizing ts n with
  | nil => rfl
  | cons v vs ih =>
    by_cases hv : v = 0
    · subst hv
      simp [okM2M] at h
      have h' : okM2M vs (n :: ts) = true := okM2M_mono (fun t ht => List.mem_cons_of_mem _ ht) h
      simp [inserted, backfill, fill, ih h']
    · by_cases hm : v ∈ ts
      · simp [okM2M, hv, hm] at h
        simp [inserted, hv, hm, fill, backfill_cons_ne hv, ih h]
      · simp [okM2M, hv, hm] at h
        have h0 : 0 ∉ vs := by simpa using h
        simp [inserted, hv, hm, fill, backfill_cons_ne hv, backfill_of_nozero h0, fill_of_nozero h0]

theorem inserted_lt {vs ts : List Nat} {n : Nat} (hlt : ∀ v ∈ vs, v < n) :
    ∀ t ∈ inserted vs ts n, t < n + zeros vs := by
  induction vs generalizing ts n with
  | nil => simp [inserted]
  | cons v vs ih =>
    have hv : v < n := hlt v (by simp)
    have hlt' : ∀ x ∈ vs, x < n := fun x hx => hlt x (List.mem_cons_of_mem _ hx)
    intro t ht
    by_cases h0 : v = 0
    · have hlt'' : ∀ x ∈ vs, x < n + 1 := fun x hx => Nat.lt_succ_of_lt (hlt' x hx)
      simp only [inserted, h0, if_true, List.mem_cons] at ht
      rw [zeros_cons]
      rcases ht with e | ht
      · simp [h0]; omega
      · have := ih hlt'' t ht; simp [h0]; omega
    · by_cases hm : v ∈ ts
      · simp only [inserted, h0, hm, if_true, if_false] at ht
        have := ih hlt' t ht; rw [zeros_cons]; omega
      · simp only [inserted, h0, hm, if_false, List.mem_cons] at ht
        rw [zeros_cons]
        rcases ht with e | ht
        · omega
        · have := ih hlt' t ht; omega

/-- every element of the saved field exists afterwards -/
theorem fill_sub_inserted {vs ts : List Nat} {n : Nat} :
    ∀ t ∈ fill vs n, t ∈ ts ∨ t ∈ inserted vs ts n := by
  induction vs generalizing ts n with
  | nil => simp [fill]
  | cons v vs ih =>
    intro t ht
    by_cases h0 : v = 0
    · simp only [fill, h0, if_true, List.mem_cons] at ht
      simp only [inserted, h0, if_true, List.mem_cons]
      rcases ht with e | ht
      · right; left; exact e
      · rcases ih (ts := n :: ts) t ht with h | h
        · rcases List.mem_cons.1 h with e | h
          · right; left; exact e
          · left; exact h
        · right; right; exact h
    · simp only [fill, h0, if_false, List.mem_cons] at ht
      by_cases hm : v ∈ ts
      · simp only [inserted, h0, hm, if_true, if_false]
        rcases ht with e | ht
        · left; subst e; exact hm
        · exact ih t ht
      · simp only [inserted, h0, hm, if_false, List.mem_cons]
        rcases ht with e | ht
        · right; left; exact e
        · rcases ih (ts := v :: ts) t ht with h | h
          · rcases List.mem_cons.1 h with e | h
            · right; left; exact e
            · left; exact h
          · right; right; exact h

/-! ### okM2M in words, eraseDups / Nodup -/

/-- `okM2M vs ts`: no non-zero value that is not in `ts` is followed later in the list by a 0 -/
theorem okM2M_iff (vs ts : List Nat) :
    okM2M vs ts = true ↔ ∀ a v b, vs = a ++ v :: b → v ≠ 0 → v ∉ ts → 0 ∉ b := by
  induction vs with
  | nil => simp [okM2M]
  | cons x xs ih =>
    constructor
    · intro h a v b e hv hm
      cases a with
      | nil =>
        simp at e; obtain ⟨e1, e2⟩ := e; subst e1; subst e2
        simpa [okM2M, hv, hm] using h
      | cons a0 a' =>
        simp at e; obtain ⟨e1, e2⟩ := e; subst e1
        by_cases hx : x = 0
        · simp [okM2M, hx] at h; exact ih.1 h a' v b e2 hv hm
        · by_cases hxm : x ∈ ts
          · simp [okM2M, hx, hxm] at h; exact ih.1 h a' v b e2 hv hm
          · simp [okM2M, hx, hxm] at h
            intro hb; apply h; rw [e2]; simp [hb]
    · intro h
      have h' : okM2M xs ts = true := ih.2 (fun a v b e => h (x :: a) v b (by simp [e]))
      by_cases hx : x = 0
      · simpa [okM2M, hx] using h'
      · by_cases hxm : x ∈ ts
        · simpa [okM2M, hx, hxm] using h'
        · simpa [okM2M, hx, hxm] using h [] x xs rfl hx hxm

theorem nodup_eraseDups_aux {α} [BEq α] [LawfulBEq α] :
    ∀ (n : Nat) (l : List α), l.length ≤ n → l.eraseDups.Nodup := by
  intro n
  induction n with
  | zero =>
    intro l hl
    have : l = [] := List.eq_nil_of_length_eq_zero (by omega)
    subst this; simp
  | succ n ih =>
    intro l hl
    cases l with
    | nil => simp
    | cons a as =>
      rw [List.eraseDups_cons, List.nodup_cons]
      refine ⟨by simp [List.mem_filter], ih _ ?_⟩
      have := List.length_filter_le (fun b => !b == a) as
      simp at hl; omega

theorem nodup_eraseDups {α} [BEq α] [LawfulBEq α] (l : List α) : l.eraseDups.Nodup :=
  nodup_eraseDups_aux l.length l (Nat.le_refl _)

theorem nodup_map_filter {α β} (f : α → β) (P : α → Bool) :
    ∀ l : List α, l.Nodup → (∀ a ∈ l, ∀ b ∈ l, P a = true → P b = true → f a = f b → a = b) →
      ((l.filter P).map f).Nodup := by
  intro l
  induction l with
  | nil => simp
  | cons a l ih =>
    intro hn hinj
    rw [List.nodup_cons] at hn
    have ih' := ih hn.2 (fun x hx y hy => hinj x (List.mem_cons_of_mem _ hx) y (List.mem_cons_of_mem _ hy))
    by_cases hP : P a = true
    · simp only [List.filter_cons, hP, if_true, List.map_cons, List.nodup_cons]
      refine ⟨?_, ih'⟩
      intro hm
      obtain ⟨b, hb, hfb⟩ := List.mem_map.1 hm
      obtain ⟨hb1, hb2⟩ := List.mem_filter.1 hb
      have := hinj a (by simp) b (List.mem_cons_of_mem _ hb1) hP hb2 hfb.symm
      subst this
      exact hn.1 hb1
    · simpa [List.filter_cons, hP] using ih'

/-! ### the scoped single-owner fragment -/

/-- the flattened argument values of a call -/
def opVs (op : Op) : List Nat := op.vals.headD []

/-- invariant of the fragment (operated owner `o`) -/
structure Inv (r : Rel) (o : Nat) (s : St) : Prop where
  rel : r.cls = .bt → r.card1 = true
  err : s.err = false
  npos : 0 < s.next
  agree : ∀ t, t ∈ s.mem o ↔ (o, t) ∈ s.links
  dang : ∀ p ∈ s.links, p.2 ∈ s.targets
  fresh : ∀ t ∈ s.targets, t < s.next
  nzl : ∀ p ∈ s.links, p.2 ≠ 0
  one : r.card1 = true → (s.mem o).length ≤ 1
  fkq : r.cls = .bt → s.memFk o = (s.mem o).headD 0
  uniq : r.cls = .fk → ∀ p ∈ s.links, ∀ q ∈ s.links, p.2 = q.2 → p.1 = q.1

/-- well-formed call of the scoped single-owner fragment -/
def OpOk (r : Rel) (s : St) (op : Op) : Prop :=
  op.unscoped = false ∧
  ((op.kind = .append ∨ op.kind = .replace) →
    op.vals = [] ∨ ∃ vs, op.vals = [vs] ∧ vs ≠ [] ∧ (r.card1 = true → vs.length = 1) ∧
      (r.cls = .m2m → okM2M vs s.targets = true) ∧ ∀ v ∈ vs, v < s.next)

theorem stale_single (o : Nat) (keep : List Nat) (p : Nat × Nat) :
    stale [o] keep p = true ↔ p.1 = o ∧ (keep = [] ∨ p.2 ∉ keep) := by
  simp [stale, List.isEmpty_iff]

theorem named_single (o : Nat) (ns : List Nat) (p : Nat × Nat) :
    named [o] ns p = true ↔ p.1 = o ∧ p.2 ∈ ns := by
  simp [named]

theorem appendMem_clear {r : Rel} {vs : List Nat} (h : r.card1 = true → vs.length = 1) (o : Nat) (s : St) :
    appendMem r true o vs s = { s with mem := upd s.mem o vs } := by
  unfold appendMem
  by_cases hc : r.card1 = true
  · have := h hc
    match vs, this with
    | [v], _ => simp [hc]
  · simp [hc]

theorem mem_no_zero {r o s} (h : Inv r o s) : 0 ∉ s.mem o := by
  intro hm; exact h.nzl _ ((h.agree 0).1 hm) rfl

theorem mem_lt {r o s} (h : Inv r o s) : ∀ t ∈ s.mem o, t < s.next :=
  fun t ht => h.fresh t (h.dang _ ((h.agree t).1 ht))

@[simp] theorem upd_upd {α} (f : Nat → α) (o : Nat) (x y : α) : upd (upd f o x) o y = upd f o y := by
  funext z; by_cases h : z = o <;> simp [upd, h]

/-- what one call does, in terms of the links before it -/
structure Sim (r : Rel) (o : Nat) (s s' : St) (n' : Nat) (own : Nat → Prop) (ids : List Nat) : Prop where
  inv : Inv r o s'
  next : s'.next = n'
  own : ∀ t, (o, t) ∈ s'.links ↔ own t
  other : ∀ o', o' ≠ o → ∀ t, (o', t) ∈ s'.links ↔ (o', t) ∈ s.links ∧ (r.cls = .fk → t ∉ ids)
  tsurv : ∀ t ∈ s.targets, t ∈ s'.targets
  tids : ∀ t ∈ ids, t ∈ s'.targets

theorem zeros_mem_append {r o s} (h : Inv r o s) (vs : List Nat) : zeros (s.mem o ++ vs) = zeros vs := by
  rw [zeros_append, zeros_eq_zero (mem_no_zero h)]; omega

macro "sim_finish" : tactic =>
  `(tactic| (refine ⟨⟨?_, ?_, ?_, ?_, ?_, ?_, ?_, ?_, ?_, ?_⟩, ?_, ?_, ?_, ?_, ?_⟩ <;> grind [upd_same, upd_other]))

/-! #### class fk (has-one / has-many / polymorphic) -/

/-- class fk, Append (has-many) -/
theorem sim_fk_add {o : Nat} {s : St} {vs : List Nat} (h : Inv ⟨.fk, false⟩ o s) (hvs : vs ≠ [])
    (hlt : ∀ v ∈ vs, v < s.next) :
    Sim ⟨.fk, false⟩ o s (saveAssociation ⟨.fk, false⟩ false [o] [vs] s) (s.next + zeros vs)
      (fun t => (o, t) ∈ s.links ∨ t ∈ fill vs s.next) (fill vs s.next) := by
  have hz := zeros_mem_append h vs
  have hlt' : ∀ v ∈ s.mem o ++ vs, v < s.next := by
    intro v hv; rcases List.mem_append.1 hv with hv | hv
    · exact mem_lt h v hv
    · exact hlt v hv
  have hf := mem_fill hlt'
  have hg := mem_fill hlt
  have h0 := mem_no_zero h
  rw [hz] at hf
  obtain ⟨h1, h2, h3, h4, h5, h6, h7, h8, h9, h10⟩ := h
  simp [saveAssociation, saveAll, saveOwner, appendMem, saveFk, fill_eq_nil, hvs]
  sim_finish

/-- class fk, Replace with values (and Append for has-one) -/
theorem sim_fk_set {c1 : Bool} {o : Nat} {s : St} {vs : List Nat} (h : Inv ⟨.fk, c1⟩ o s) (hvs : vs ≠ [])
    (hc : c1 = true → vs.length = 1) (hlt : ∀ v ∈ vs, v < s.next) :
    Sim ⟨.fk, c1⟩ o s (replace ⟨.fk, c1⟩ [o] false [vs] s) (s.next + zeros vs)
      (fun t => t ∈ fill vs s.next) (fill vs s.next) := by
  have hg := mem_fill hlt
  have hk := nz_fill (vs := vs) h.npos
  have hl := fill_length vs s.next
  have ha := appendMem_clear (r := ⟨.fk, c1⟩) (vs := vs) hc o s
  obtain ⟨h1, h2, h3, h4, h5, h6, h7, h8, h9, h10⟩ := h
  simp [replace, saveAssociation, saveAll, saveOwner, ha, saveFk, fill_eq_nil, hvs, h2, hk, stale]
  sim_finish

/-- class fk, Clear (and Replace without values) -/
theorem sim_fk_clear {c1 : Bool} {o : Nat} {s : St} (h : Inv ⟨.fk, c1⟩ o s) :
    Sim ⟨.fk, c1⟩ o s (replace ⟨.fk, c1⟩ [o] false [] s) s.next (fun _ => False) [] := by
  obtain ⟨h1, h2, h3, h4, h5, h6, h7, h8, h9, h10⟩ := h
  simp [replace, saveAssociation, clearMem, h2, stale, nz]
  sim_finish

/-- class fk, Delete -/
theorem sim_fk_delete {c1 : Bool} {o : Nat} {s : St} {ns : List Nat} (h : Inv ⟨.fk, c1⟩ o s) :
    Sim ⟨.fk, c1⟩ o s (delete ⟨.fk, c1⟩ [o] false ns s) s.next
      (fun t => (o, t) ∈ s.links ∧ t ∉ ns) [] := by
  obtain ⟨h1, h2, h3, h4, h5, h6, h7, h8, h9, h10⟩ := h
  cases c1
  · simp [delete, cleanMem, named]
    sim_finish
  · cases hm : s.mem o with
    | nil =>
      simp [delete, cleanMem, named, hm]
      sim_finish
    | cons v l =>
      by_cases hv : v ∈ ns
      · simp [delete, cleanMem, named, hm, hv]
        sim_finish
      · simp [delete, cleanMem, named, hm, hv]
        sim_finish

/-! #### class m2m (many2many) -/

/-- class m2m, Append -/
theorem sim_m2m_add {o : Nat} {s : St} {vs : List Nat} (h : Inv ⟨.m2m, false⟩ o s) (hvs : vs ≠ [])
    (hok : okM2M vs s.targets = true) (hlt : ∀ v ∈ vs, v < s.next) :
    Sim ⟨.m2m, false⟩ o s (saveAssociation ⟨.m2m, false⟩ false [o] [vs] s) (s.next + zeros vs)
      (fun t => (o, t) ∈ s.links ∨ t ∈ fill vs s.next) (fill vs s.next) := by
  have hz := zeros_mem_append h vs
  have hlt' : ∀ v ∈ s.mem o ++ vs, v < s.next := by
    intro v hv; rcases List.mem_append.1 hv with hv | hv
    · exact mem_lt h v hv
    · exact hlt v hv
  have hf := mem_fill hlt'
  have hg := mem_fill hlt
  have h0 := mem_no_zero h
  have hb : backfill (s.mem o ++ vs) (inserted (s.mem o ++ vs) s.targets s.next) = fill (s.mem o ++ vs) s.next :=
    backfill_inserted (okM2M_append (fun t ht => ⟨h.dang _ ((h.agree t).1 ht), h.nzl _ ((h.agree t).1 ht)⟩) hok)
  have hi1 := inserted_lt (ts := s.targets) hlt'
  have hi2 := fill_sub_inserted (vs := s.mem o ++ vs) (ts := s.targets) (n := s.next)
  rw [hz] at hf hi1
  obtain ⟨h1, h2, h3, h4, h5, h6, h7, h8, h9, h10⟩ := h
  simp [saveAssociation, saveAll, saveOwner, appendMem, saveM2M, hvs, hb]
  sim_finish

/-- class m2m, Replace with values -/
theorem sim_m2m_set {c1 uns : Bool} {o : Nat} {s : St} {vs : List Nat} (h : Inv ⟨.m2m, c1⟩ o s) (hvs : vs ≠ [])
    (hc : c1 = true → vs.length = 1) (hok : okM2M vs s.targets = true) (hlt : ∀ v ∈ vs, v < s.next) :
    Sim ⟨.m2m, c1⟩ o s (replace ⟨.m2m, c1⟩ [o] uns [vs] s) (s.next + zeros vs)
      (fun t => t ∈ fill vs s.next) (fill vs s.next) := by
  have hg := mem_fill hlt
  have hk := nz_fill (vs := vs) h.npos
  have hl := fill_length vs s.next
  have ha := appendMem_clear (r := ⟨.m2m, c1⟩) (vs := vs) hc o s
  have hb : backfill vs (inserted vs s.targets s.next) = fill vs s.next := backfill_inserted hok
  have hi1 := inserted_lt (ts := s.targets) hlt
  have hi2 := fill_sub_inserted (vs := vs) (ts := s.targets) (n := s.next)
  obtain ⟨h1, h2, h3, h4, h5, h6, h7, h8, h9, h10⟩ := h
  simp [replace, saveAssociation, saveAll, saveOwner, ha, saveM2M, hvs, h2, hb, argIds, hl, hk, stale]
  sim_finish

/-- class m2m, Clear (and Replace without values) -/
theorem sim_m2m_clear {c1 uns : Bool} {o : Nat} {s : St} (h : Inv ⟨.m2m, c1⟩ o s) :
    Sim ⟨.m2m, c1⟩ o s (replace ⟨.m2m, c1⟩ [o] uns [] s) s.next (fun _ => False) [] := by
  obtain ⟨h1, h2, h3, h4, h5, h6, h7, h8, h9, h10⟩ := h
  simp [replace, saveAssociation, clearMem, h2, stale, nz, argIds]
  sim_finish

/-- class m2m, Delete -/
theorem sim_m2m_delete {c1 uns : Bool} {o : Nat} {s : St} {ns : List Nat} (h : Inv ⟨.m2m, c1⟩ o s) :
    Sim ⟨.m2m, c1⟩ o s (delete ⟨.m2m, c1⟩ [o] uns ns s) s.next
      (fun t => (o, t) ∈ s.links ∧ t ∉ ns) [] := by
  obtain ⟨h1, h2, h3, h4, h5, h6, h7, h8, h9, h10⟩ := h
  cases c1
  · simp [delete, cleanMem, named]
    sim_finish
  · cases hm : s.mem o with
    | nil =>
      simp [delete, cleanMem, named, hm]
      sim_finish
    | cons v l =>
      by_cases hv : v ∈ ns
      · simp [delete, cleanMem, named, hm, hv]
        sim_finish
      · simp [delete, cleanMem, named, hm, hv]
        sim_finish

/-! #### class bt (belongs-to) -/

/-- class bt, Replace / Append with a value -/
theorem sim_bt_set {o : Nat} {s : St} {v : Nat} (h : Inv ⟨.bt, true⟩ o s) (hlt : v < s.next) :
    Sim ⟨.bt, true⟩ o s (replace ⟨.bt, true⟩ [o] false [[v]] s) (s.next + zeros [v])
      (fun t => t ∈ fill [v] s.next) (fill [v] s.next) := by
  obtain ⟨h1, h2, h3, h4, h5, h6, h7, h8, h9, h10⟩ := h
  by_cases hv : v = 0
  · simp [replace, saveAssociation, saveAll, saveOwner, appendMem, saveBt, h2, fill, zeros, hv]
    sim_finish
  · simp [replace, saveAssociation, saveAll, saveOwner, appendMem, saveBt, h2, fill, zeros, hv]
    sim_finish

/-- class bt, Clear (and Replace without values) -/
theorem sim_bt_clear {o : Nat} {s : St} (h : Inv ⟨.bt, true⟩ o s) :
    Sim ⟨.bt, true⟩ o s (replace ⟨.bt, true⟩ [o] false [] s) s.next (fun _ => False) [] := by
  obtain ⟨h1, h2, h3, h4, h5, h6, h7, h8, h9, h10⟩ := h
  simp [replace, saveAssociation, clearMem, h2]
  sim_finish

/-- class bt, Delete -/
theorem sim_bt_delete {o : Nat} {s : St} {ns : List Nat} (h : Inv ⟨.bt, true⟩ o s) :
    Sim ⟨.bt, true⟩ o s (delete ⟨.bt, true⟩ [o] false ns s) s.next
      (fun t => (o, t) ∈ s.links ∧ t ∉ ns) [] := by
  obtain ⟨h1, h2, h3, h4, h5, h6, h7, h8, h9, h10⟩ := h
  cases hm : s.mem o with
  | nil =>
    simp [delete, cleanMem, named, hm]
    sim_finish
  | cons v l =>
    by_cases hv : v ∈ ns
    · simp [delete, cleanMem, named, hm, hv]
      sim_finish
    · simp [delete, cleanMem, named, hm, hv]
      sim_finish

/-! #### all classes, all operations -/

/-- links of `o` after the call, by plain set algebra on the links before it -/
def ownSpec (r : Rel) (op : Op) (s : St) (o : Nat) : Nat → Prop := fun t =>
  match op.kind with
  | .append =>
    if op.vals = [] then (o, t) ∈ s.links
    else if r.card1 then t ∈ fill (opVs op) s.next
    else (o, t) ∈ s.links ∨ t ∈ fill (opVs op) s.next
  | .replace => t ∈ fill (opVs op) s.next
  | .clear => False
  | .delete => (o, t) ∈ s.links ∧ t ∉ opVs op

/-- the keys the argument values resolve to -/
def opIds (op : Op) (s : St) : List Nat :=
  match op.kind with
  | .append | .replace => fill (opVs op) s.next
  | _ => []

def opNext (op : Op) (s : St) : Nat :=
  match op.kind with
  | .append | .replace => s.next + zeros (opVs op)
  | _ => s.next

theorem sim_noop {r : Rel} {o : Nat} {s : St} (h : Inv r o s) :
    Sim r o s s s.next (fun t => (o, t) ∈ s.links) [] := by
  refine ⟨h, rfl, fun _ => Iff.rfl, ?_, fun _ ht => ht, ?_⟩ <;> simp

theorem sim_set {r : Rel} {o : Nat} {s : St} {vs : List Nat} (h : Inv r o s) (hvs : vs ≠ [])
    (hc : r.card1 = true → vs.length = 1) (hok : r.cls = .m2m → okM2M vs s.targets = true)
    (hlt : ∀ v ∈ vs, v < s.next) :
    Sim r o s (replace r [o] false [vs] s) (s.next + zeros vs) (fun t => t ∈ fill vs s.next) (fill vs s.next) := by
  obtain ⟨cls, c1⟩ := r
  cases cls
  · have hc1 : c1 = true := h.rel rfl
    subst hc1
    have hl := hc rfl
    match vs, hl with
    | [v], _ => exact sim_bt_set h (hlt v (by simp))
  · exact sim_fk_set h hvs hc hlt
  · exact sim_m2m_set h hvs hc (hok rfl) hlt

theorem sim_clear {r : Rel} {o : Nat} {s : St} (h : Inv r o s) :
    Sim r o s (replace r [o] false [] s) s.next (fun _ => False) [] := by
  obtain ⟨cls, c1⟩ := r
  cases cls
  · have hc1 : c1 = true := h.rel rfl
    subst hc1
    exact sim_bt_clear h
  · exact sim_fk_clear h
  · exact sim_m2m_clear h

theorem sim_delete {r : Rel} {o : Nat} {s : St} {ns : List Nat} (h : Inv r o s) :
    Sim r o s (delete r [o] false ns s) s.next (fun t => (o, t) ∈ s.links ∧ t ∉ ns) [] := by
  obtain ⟨cls, c1⟩ := r
  cases cls
  · have hc1 : c1 = true := h.rel rfl
    subst hc1
    exact sim_bt_delete h
  · exact sim_fk_delete h
  · exact sim_m2m_delete h

theorem sim_add {r : Rel} {o : Nat} {s : St} {vs : List Nat} (h : Inv r o s) (hvs : vs ≠ [])
    (hc : r.card1 = false) (hok : r.cls = .m2m → okM2M vs s.targets = true)
    (hlt : ∀ v ∈ vs, v < s.next) :
    Sim r o s (saveAssociation r false [o] [vs] s) (s.next + zeros vs)
      (fun t => (o, t) ∈ s.links ∨ t ∈ fill vs s.next) (fill vs s.next) := by
  obtain ⟨cls, c1⟩ := r
  simp at hc
  subst hc
  cases cls
  · have := h.rel rfl; simp at this
  · exact sim_fk_add h hvs hlt
  · exact sim_m2m_add h hvs (hok rfl) hlt

/-- the simulation lemma: every scoped single-owner call, every relation kind -/
theorem sim_step {r : Rel} {o : Nat} {s : St} {op : Op} (h : Inv r o s) (hok : OpOk r s op) :
    Sim r o s (step r [o] op s) (opNext op s) (ownSpec r op s o) (opIds op s) := by
  obtain ⟨kind, uns, vals⟩ := op
  obtain ⟨hu, hv⟩ := hok
  simp at hu hv
  subst hu
  have he := h.err
  delta ownSpec
  cases kind
  · -- append
    rcases hv (Or.inl rfl) with hv | ⟨vs, hv, hne, hc, hm, hlt⟩
    · subst hv
      by_cases hc : r.card1 = true
      · simpa [step, he, hc, opNext, opIds, opVs, zeros_nil, fill] using sim_noop h
      · simpa [step, he, hc, opNext, opIds, opVs, zeros_nil, fill, saveAssociation] using sim_noop h
    · subst hv
      by_cases hc1 : r.card1 = true
      · simpa [step, he, hc1, opNext, opIds, opVs] using sim_set h hne hc hm hlt
      · have hc1' : r.card1 = false := by simpa using hc1
        simpa [step, he, hc1', opNext, opIds, opVs] using sim_add h hne hc1' hm hlt
  · -- replace
    rcases hv (Or.inr rfl) with hv | ⟨vs, hv, hne, hc, hm, hlt⟩
    · subst hv
      simpa [step, he, opNext, opIds, opVs, zeros_nil, fill] using sim_clear h
    · subst hv
      simpa [step, he, opNext, opIds, opVs] using sim_set h hne hc hm hlt
  · -- delete
    simpa [step, he, opNext, opIds, opVs] using sim_delete (ns := vals.headD []) h
  · -- clear
    simpa [step, he, opNext, opIds, opVs] using sim_clear h

/-! #### Unscoped (classes fk and m2m) -/

/-- like `Sim`, but target records whose link to `o` the call removed may be deleted (Unscoped, class fk) -/
structure SimU (r : Rel) (o : Nat) (s s' : St) (n' : Nat) (own : Nat → Prop) (ids : List Nat) : Prop where
  inv : Inv r o s'
  next : s'.next = n'
  own : ∀ t, (o, t) ∈ s'.links ↔ own t
  other : ∀ o', o' ≠ o → ∀ t, (o', t) ∈ s'.links ↔ (o', t) ∈ s.links ∧ (r.cls = .fk → t ∉ ids)
  tsurv : ∀ t ∈ s.targets, t ∈ s'.targets ∨ ((o, t) ∈ s.links ∧ (o, t) ∉ s'.links)
  tids : ∀ t ∈ ids, t ∈ s'.targets

theorem Sim.toU {r o s s' n' own ids} (m : Sim r o s s' n' own ids) : SimU r o s s' n' own ids :=
  ⟨m.inv, m.next, m.own, m.other, fun t ht => Or.inl (m.tsurv t ht), m.tids⟩

macro "sim_finish_u" : tactic =>
  `(tactic| (refine ⟨⟨?_, ?_, ?_, ?_, ?_, ?_, ?_, ?_, ?_, ?_⟩, ?_, ?_, ?_, ?_, ?_⟩ <;>
      grind [upd_same, upd_other, named_single, stale_single]))

/-- class fk, Unscoped Clear -/
theorem sim_fk_clear_u {c1 : Bool} {o : Nat} {s : St} (h : Inv ⟨.fk, c1⟩ o s) :
    SimU ⟨.fk, c1⟩ o s (replace ⟨.fk, c1⟩ [o] true [] s) s.next (fun _ => False) [] := by
  obtain ⟨h1, h2, h3, h4, h5, h6, h7, h8, h9, h10⟩ := h
  simp [replace, saveAssociation, clearMem, h2, stale, nz, deleteRows, St.say]
  sim_finish_u

/-- class fk, Unscoped Delete -/
theorem sim_fk_delete_u {c1 : Bool} {o : Nat} {s : St} {ns : List Nat} (h : Inv ⟨.fk, c1⟩ o s) :
    SimU ⟨.fk, c1⟩ o s (delete ⟨.fk, c1⟩ [o] true ns s) s.next
      (fun t => (o, t) ∈ s.links ∧ t ∉ ns) [] := by
  obtain ⟨h1, h2, h3, h4, h5, h6, h7, h8, h9, h10⟩ := h
  cases c1
  · simp [delete, cleanMem, named, deleteRows, St.say]
    sim_finish_u
  · cases hm : s.mem o with
    | nil =>
      simp [delete, cleanMem, named, hm, deleteRows, St.say]
      sim_finish_u
    | cons v l =>
      by_cases hv : v ∈ ns
      · simp [delete, cleanMem, named, hm, hv, deleteRows, St.say]
        sim_finish_u
      · simp [delete, cleanMem, named, hm, hv, deleteRows, St.say]
        sim_finish_u

theorem replace_fk_uns (c1 : Bool) (os : List Nat) (vals : List (List Nat)) (s : St) :
    replace ⟨.fk, c1⟩ os true vals s =
      if (saveAssociation ⟨.fk, c1⟩ true os vals s).err then replace ⟨.fk, c1⟩ os false vals s else
      { replace ⟨.fk, c1⟩ os false vals s with
        targets := (replace ⟨.fk, c1⟩ os false vals s).targets.filter
          (· ∉ (((saveAssociation ⟨.fk, c1⟩ true os vals s).links.filter
            (stale os (nz (os.flatMap (saveAssociation ⟨.fk, c1⟩ true os vals s).mem)))).map (·.2))),
        log := (saveAssociation ⟨.fk, c1⟩ true os vals s).log ++ ["DELETE T"] } := by
  unfold replace
  by_cases h : (saveAssociation ⟨.fk, c1⟩ true os vals s).err = true
  · simp [h]
  · simp [h, deleteRows, St.say]

theorem SimU.of_gone {r o s s' n own ids} (m : Sim r o s s' n own ids) (gone : List Nat) (l : List String)
    (ha : ∀ g ∈ gone, ∀ p ∈ s'.links, p.2 ≠ g) (hb : ∀ g ∈ gone, g ∈ s.targets → (o, g) ∈ s.links)
    (hc : ∀ g ∈ gone, g ∉ ids) :
    SimU r o s { s' with targets := s'.targets.filter (· ∉ gone), log := l } n own ids := by
  obtain ⟨⟨h1, h2, h3, h4, h5, h6, h7, h8, h9, h10⟩, m2, m3, m4, m5, m6⟩ := m
  refine ⟨⟨h1, h2, h3, h4, ?_, ?_, h7, h8, h9, h10⟩, m2, m3, m4, ?_, ?_⟩ <;> simp <;> grind

theorem sim_fk_set_u {c1 : Bool} {o : Nat} {s : St} {vs : List Nat} (h : Inv ⟨.fk, c1⟩ o s) (hvs : vs ≠ [])
    (hc : c1 = true → vs.length = 1) (hlt : ∀ v ∈ vs, v < s.next) :
    SimU ⟨.fk, c1⟩ o s (replace ⟨.fk, c1⟩ [o] true [vs] s) (s.next + zeros vs)
      (fun t => t ∈ fill vs s.next) (fill vs s.next) := by
  have m := sim_fk_set h hvs hc hlt
  have hk := nz_fill (vs := vs) h.npos
  have ha := appendMem_clear (r := ⟨.fk, c1⟩) (vs := vs) hc o s
  have hs1 : saveAssociation ⟨.fk, c1⟩ true [o] [vs] s =
      { s with mem := upd s.mem o (fill vs s.next), next := s.next + zeros vs,
               targets := s.targets ++ fill vs s.next,
               links := s.links.filter (fun p => p.2 ∉ fill vs s.next) ++ (fill vs s.next).map (fun t => (o, t)),
               log := s.log ++ ["INSERT T"] } := by
    simp [saveAssociation, saveAll, saveOwner, ha, saveFk, fill_eq_nil, hvs]
  rw [replace_fk_uns, hs1]
  simp only [h.err, Bool.false_eq_true, if_false]
  have hu := h.uniq rfl
  have hd := h.dang
  have mo := m.own
  have mx := m.other
  apply SimU.of_gone m
  · intro g hg p hp hpg
    simp [hk, stale_single, fill_eq_nil, hvs] at hg
    obtain ⟨p1, p2⟩ := p
    grind
  · intro g hg _
    simp [hk, stale_single, fill_eq_nil, hvs] at hg
    grind
  · intro g hg
    simp [hk, stale_single, fill_eq_nil, hvs] at hg
    grind

/-- well-formed call, Unscoped allowed for the classes fk and m2m -/
def OpOkU (r : Rel) (s : St) (op : Op) : Prop :=
  (op.unscoped = true → r.cls ≠ .bt) ∧
  ((op.kind = .append ∨ op.kind = .replace) →
    op.vals = [] ∨ ∃ vs, op.vals = [vs] ∧ vs ≠ [] ∧ (r.card1 = true → vs.length = 1) ∧
      (r.cls = .m2m → okM2M vs s.targets = true) ∧ ∀ v ∈ vs, v < s.next)

theorem OpOk.toU {r s op} (h : OpOk r s op) : OpOkU r s op :=
  ⟨fun hu => by rw [h.1] at hu; exact absurd hu (by simp), h.2⟩

theorem sim_set_u {r : Rel} {o : Nat} {s : St} {vs : List Nat} {uns : Bool} (h : Inv r o s)
    (hu : uns = true → r.cls ≠ .bt) (hvs : vs ≠ [])
    (hc : r.card1 = true → vs.length = 1) (hok : r.cls = .m2m → okM2M vs s.targets = true)
    (hlt : ∀ v ∈ vs, v < s.next) :
    SimU r o s (replace r [o] uns [vs] s) (s.next + zeros vs) (fun t => t ∈ fill vs s.next) (fill vs s.next) := by
  cases uns
  · exact (sim_set h hvs hc hok hlt).toU
  · obtain ⟨cls, c1⟩ := r
    cases cls
    · exact absurd rfl (hu rfl)
    · exact sim_fk_set_u h hvs hc hlt
    · exact (sim_m2m_set h hvs hc (hok rfl) hlt).toU

theorem sim_clear_u {r : Rel} {o : Nat} {s : St} {uns : Bool} (h : Inv r o s) (hu : uns = true → r.cls ≠ .bt) :
    SimU r o s (replace r [o] uns [] s) s.next (fun _ => False) [] := by
  cases uns
  · exact (sim_clear h).toU
  · obtain ⟨cls, c1⟩ := r
    cases cls
    · exact absurd rfl (hu rfl)
    · exact sim_fk_clear_u h
    · exact (sim_m2m_clear h).toU

theorem sim_delete_u {r : Rel} {o : Nat} {s : St} {ns : List Nat} {uns : Bool} (h : Inv r o s)
    (hu : uns = true → r.cls ≠ .bt) :
    SimU r o s (delete r [o] uns ns s) s.next (fun t => (o, t) ∈ s.links ∧ t ∉ ns) [] := by
  cases uns
  · exact (sim_delete h).toU
  · obtain ⟨cls, c1⟩ := r
    cases cls
    · exact absurd rfl (hu rfl)
    · exact sim_fk_delete_u h
    · exact (sim_m2m_delete h).toU

/-- the simulation lemma with Unscoped (classes fk, m2m) -/
theorem sim_step_u {r : Rel} {o : Nat} {s : St} {op : Op} (h : Inv r o s) (hok : OpOkU r s op) :
    SimU r o s (step r [o] op s) (opNext op s) (ownSpec r op s o) (opIds op s) := by
  obtain ⟨kind, uns, vals⟩ := op
  obtain ⟨hu, hv⟩ := hok
  simp at hu hv
  have he := h.err
  delta ownSpec
  cases kind
  · -- append
    rcases hv (Or.inl rfl) with hv | ⟨vs, hv, hne, hc, hm, hlt⟩
    · subst hv
      by_cases hc : r.card1 = true
      · simpa [step, he, hc, opNext, opIds, opVs, zeros_nil, fill] using (sim_noop h).toU
      · simpa [step, he, hc, opNext, opIds, opVs, zeros_nil, fill, saveAssociation] using (sim_noop h).toU
    · subst hv
      by_cases hc1 : r.card1 = true
      · simpa [step, he, hc1, opNext, opIds, opVs] using sim_set_u (uns := uns) h (by simpa using hu) hne hc hm hlt
      · have hc1' : r.card1 = false := by simpa using hc1
        simpa [step, he, hc1', opNext, opIds, opVs] using (sim_add h hne hc1' hm hlt).toU
  · -- replace
    rcases hv (Or.inr rfl) with hv | ⟨vs, hv, hne, hc, hm, hlt⟩
    · subst hv
      simpa [step, he, opNext, opIds, opVs, zeros_nil, fill] using sim_clear_u (uns := uns) h (by simpa using hu)
    · subst hv
      simpa [step, he, opNext, opIds, opVs] using sim_set_u (uns := uns) h (by simpa using hu) hne hc hm hlt
  · -- delete
    simpa [step, he, opNext, opIds, opVs] using
      sim_delete_u (uns := uns) (ns := vals.headD []) h (by simpa using hu)
  · -- clear
    simpa [step, he, opNext, opIds, opVs] using sim_clear_u (uns := uns) h (by simpa using hu)

/-! ### slices of owners, class m2m -/

/-- the keys owner `o`'s values resolve to when the owners `os` are saved in order from next key `n` -/
def idsOf : List Nat → List (List Nat) → Nat → Nat → List Nat
  | o' :: os, vs :: vss, n, o => if o = o' then fill vs n else idsOf os vss (n + zeros vs) o
  | _, _, _, _ => []

theorem idsOf_nil_vals (os : List Nat) (n o : Nat) : idsOf os [] n o = [] := by
  cases os <;> simp [idsOf]

theorem idsOf_not_mem {os : List Nat} {vss : List (List Nat)} {n o : Nat} (h : o ∉ os) :
    idsOf os vss n o = [] := by
  induction os generalizing vss n with
  | nil => simp [idsOf]
  | cons a os ih =>
    cases vss with
    | nil => simp [idsOf]
    | cons vs vss =>
      simp at h
      simp [idsOf, h.1, ih h.2]

/-- number of keyless values of a whole slice call -/
def zerosAll (vss : List (List Nat)) : Nat := (vss.map zeros).sum

theorem zerosAll_cons (vs : List Nat) (vss : List (List Nat)) : zerosAll (vs :: vss) = zeros vs + zerosAll vss := by
  simp [zerosAll]

/-- every value list of a slice call is well-formed (many2many) -/
def ValsOk (s : St) (vss : List (List Nat)) : Prop :=
  ∀ vs ∈ vss, vs ≠ [] ∧ okM2M vs s.targets = true ∧ ∀ v ∈ vs, v < s.next

theorem ValsOk.mono {s s' : St} {vss : List (List Nat)} (h : ValsOk s vss)
    (ht : ∀ t ∈ s.targets, t ∈ s'.targets) (hn : s.next ≤ s'.next) : ValsOk s' vss := by
  intro vs hvs
  obtain ⟨h1, h2, h3⟩ := h vs hvs
  exact ⟨h1, okM2M_mono ht h2, fun v hv => Nat.lt_of_lt_of_le (h3 v hv) hn⟩

theorem frame_m2m_add {o o' : Nat} {s : St} {vs : List Nat} (h : Inv ⟨.m2m, false⟩ o s)
    (h' : Inv ⟨.m2m, false⟩ o' s) (hne : o' ≠ o) (hvs : vs ≠ [])
    (hok : okM2M vs s.targets = true) (hlt : ∀ v ∈ vs, v < s.next) :
    Inv ⟨.m2m, false⟩ o' (saveAssociation ⟨.m2m, false⟩ false [o] [vs] s) := by
  have hz := zeros_mem_append h vs
  have hlt' : ∀ v ∈ s.mem o ++ vs, v < s.next := by
    intro v hv; rcases List.mem_append.1 hv with hv | hv
    · exact mem_lt h v hv
    · exact hlt v hv
  have hf := mem_fill hlt'
  have h0 := mem_no_zero h
  have hb : backfill (s.mem o ++ vs) (inserted (s.mem o ++ vs) s.targets s.next) = fill (s.mem o ++ vs) s.next :=
    backfill_inserted (okM2M_append (fun t ht => ⟨h.dang _ ((h.agree t).1 ht), h.nzl _ ((h.agree t).1 ht)⟩) hok)
  have hi1 := inserted_lt (ts := s.targets) hlt'
  have hi2 := fill_sub_inserted (vs := s.mem o ++ vs) (ts := s.targets) (n := s.next)
  rw [hz] at hf hi1
  obtain ⟨h1, h2, h3, h4, h5, h6, h7, h8, h9, h10⟩ := h
  obtain ⟨g1, g2, g3, g4, g5, g6, g7, g8, g9, g10⟩ := h'
  simp [saveAssociation, saveAll, saveOwner, appendMem, saveM2M, hvs, hb]
  refine ⟨?_, ?_, ?_, ?_, ?_, ?_, ?_, ?_, ?_, ?_⟩ <;> grind [upd_same, upd_other]

/-- Append on a slice of owners, class m2m: the save loop -/
theorem slice_append_m2m : ∀ (os : List Nat) (vss : List (List Nat)) (s : St),
    os.Nodup → os.length = vss.length → (∀ o ∈ os, Inv ⟨.m2m, false⟩ o s) → ValsOk s vss →
    (∀ o', Inv ⟨.m2m, false⟩ o' s → Inv ⟨.m2m, false⟩ o' (saveAll ⟨.m2m, false⟩ false os vss s)) ∧
    (∀ o t, (o, t) ∈ (saveAll ⟨.m2m, false⟩ false os vss s).links ↔
      (o, t) ∈ s.links ∨ t ∈ idsOf os vss s.next o) ∧
    (saveAll ⟨.m2m, false⟩ false os vss s).next = s.next + zerosAll vss ∧
    (∀ t ∈ s.targets, t ∈ (saveAll ⟨.m2m, false⟩ false os vss s).targets) ∧
    (saveAll ⟨.m2m, false⟩ false os vss s).err = s.err := by
  intro os
  induction os with
  | nil =>
    intro vss s _ hlen _ _
    have : vss = [] := List.eq_nil_of_length_eq_zero (by simpa using hlen.symm)
    subst this; simp [saveAll, idsOf, zerosAll]
  | cons o os ih =>
    intro vss s hnd hlen hinv hok
    cases vss with
    | nil => simp at hlen
    | cons vs vss =>
      have hT : saveAll ⟨.m2m, false⟩ false (o :: os) (vs :: vss) s =
          saveAll ⟨.m2m, false⟩ false os vss (saveAssociation ⟨.m2m, false⟩ false [o] [vs] s) := by
        simp [saveAssociation, saveAll]
      rw [hT]
      rw [List.nodup_cons] at hnd
      obtain ⟨hv1, hv2, hv3⟩ := hok vs (by simp)
      have ho := hinv o (by simp)
      have m := sim_m2m_add ho hv1 hv2 hv3
      have hframe : ∀ o', Inv ⟨.m2m, false⟩ o' s →
          Inv ⟨.m2m, false⟩ o' (saveAssociation ⟨.m2m, false⟩ false [o] [vs] s) := by
        intro o' h'
        by_cases e : o' = o
        · subst e; exact m.inv
        · exact frame_m2m_add ho h' e hv1 hv2 hv3
      have hn1 : s.next ≤ (saveAssociation ⟨.m2m, false⟩ false [o] [vs] s).next := by rw [m.next]; omega
      have hok1 : ValsOk (saveAssociation ⟨.m2m, false⟩ false [o] [vs] s) vss :=
        ValsOk.mono (fun vs' hvs' => hok vs' (List.mem_cons_of_mem _ hvs')) m.tsurv hn1
      obtain ⟨i1, i2, i3, i4, i5⟩ := ih vss _ hnd.2 (by simpa using hlen)
        (fun x hx => hframe x (hinv x (List.mem_cons_of_mem _ hx))) hok1
      refine ⟨fun o' h' => i1 o' (hframe o' h'), ?_, by rw [i3, m.next, zerosAll_cons]; omega,
        fun t ht => i4 t (m.tsurv t ht), ?_⟩
      · intro x t
        rw [i2 x t]
        by_cases e : x = o
        · subst e
          rw [m.own t, idsOf_not_mem hnd.1]
          simp [idsOf]
        · rw [m.other x e t, m.next]
          simp [idsOf, e]
      · rw [i5]; simp [ho.err, m.inv.err]

theorem cleanMem_m2m (ns : List Nat) (os : List Nat) (s : St) :
    cleanMem ⟨.m2m, false⟩ ns os s =
      { s with mem := fun o' => if o' ∈ os then (s.mem o').filter (· ∉ ns) else s.mem o' } := by
  induction os generalizing s with
  | nil => simp [cleanMem]
  | cons o os ih =>
    simp only [cleanMem, Bool.false_eq_true, if_false, ih]
    congr 1
    funext o'
    by_cases e : o' = o
    · subst e; by_cases hm : o' ∈ os <;> simp [hm, upd, List.filter_filter]
    · by_cases hm : o' ∈ os <;> simp [hm, upd, e]

theorem clearMem_m2m (c1 : Bool) (os : List Nat) (s : St) :
    clearMem ⟨.m2m, c1⟩ os s = { s with mem := fun o' => if o' ∈ os then [] else s.mem o' } := by
  induction os generalizing s with
  | nil => simp [clearMem]
  | cons o os ih =>
    simp only [clearMem, ih]
    congr 1
    funext o'
    by_cases e : o' = o
    · subst e; by_cases hm : o' ∈ os <;> simp [hm, upd]
    · by_cases hm : o' ∈ os <;> simp [hm, upd, e]

theorem argIds_nil_vals (os : List Nat) (s : St) : argIds os [] s = [] := by
  cases os <;> simp [argIds]

/-- Delete on a slice of owners, class m2m -/
theorem slice_delete_m2m (os ns : List Nat) (uns : Bool) (s : St) :
    (∀ o', Inv ⟨.m2m, false⟩ o' s → Inv ⟨.m2m, false⟩ o' (delete ⟨.m2m, false⟩ os uns ns s)) ∧
    (∀ o t, (o, t) ∈ (delete ⟨.m2m, false⟩ os uns ns s).links ↔ (o, t) ∈ s.links ∧ ¬(o ∈ os ∧ t ∈ ns)) ∧
    (delete ⟨.m2m, false⟩ os uns ns s).next = s.next ∧
    (delete ⟨.m2m, false⟩ os uns ns s).targets = s.targets := by
  simp only [delete, cleanMem_m2m]
  refine ⟨?_, ?_, ?_, ?_⟩
  · intro o' ⟨h1, h2, h3, h4, h5, h6, h7, h8, h9, h10⟩
    refine ⟨?_, ?_, ?_, ?_, ?_, ?_, ?_, ?_, ?_, ?_⟩ <;> simp [named] <;> grind
  · intro o t; simp [named]; grind
  · simp
  · simp

/-- Clear on a slice of owners, class m2m -/
theorem slice_clear_m2m (os : List Nat) (uns : Bool) (s : St) (he : s.err = false) :
    (∀ o', Inv ⟨.m2m, false⟩ o' s → Inv ⟨.m2m, false⟩ o' (replace ⟨.m2m, false⟩ os uns [] s)) ∧
    (∀ o t, (o, t) ∈ (replace ⟨.m2m, false⟩ os uns [] s).links ↔ (o, t) ∈ s.links ∧ o ∉ os) ∧
    (replace ⟨.m2m, false⟩ os uns [] s).next = s.next ∧
    (replace ⟨.m2m, false⟩ os uns [] s).targets = s.targets := by
  simp [replace, saveAssociation, clearMem_m2m, he, argIds_nil_vals, nz, stale]
  intro o' ⟨h1, h2, h3, h4, h5, h6, h7, h8, h9, h10⟩
  refine ⟨?_, ?_, ?_, ?_, ?_, ?_, ?_, ?_, ?_, ?_⟩ <;> simp <;> grind

/-- the owner-independent part of `Inv` -/
structure Glob (s : St) : Prop where
  err : s.err = false
  npos : 0 < s.next
  dang : ∀ p ∈ s.links, p.2 ∈ s.targets
  fresh : ∀ t ∈ s.targets, t < s.next
  nzl : ∀ p ∈ s.links, p.2 ≠ 0

theorem Inv.glob {r o s} (h : Inv r o s) : Glob s := ⟨h.err, h.npos, h.dang, h.fresh, h.nzl⟩

theorem stale_iff (os keep : List Nat) (p : Nat × Nat) :
    stale os keep p = true ↔ p.1 ∈ os ∧ (keep = [] ∨ p.2 ∉ keep) := by
  simp [stale, List.isEmpty_iff]

theorem stale_eq_false_iff (os keep : List Nat) (p : Nat × Nat) :
    stale os keep p = false ↔ ¬(p.1 ∈ os ∧ (keep = [] ∨ p.2 ∉ keep)) := by
  rw [← stale_iff]; simp

/-- state after saving owner `o` with the new field `vs` (Replace, many2many) -/
def m2mSet (o : Nat) (vs : List Nat) (s : St) : St :=
  { s with mem := upd s.mem o (fill vs s.next), next := s.next + zeros vs,
           targets := s.targets ++ inserted vs s.targets s.next,
           links := s.links ++ (fill vs s.next).map (fun t => (o, t)),
           log := s.log ++ ["INSERT T", "INSERT J"] }

theorem saveOwner_m2m_set {o : Nat} {s : St} {vs : List Nat} (hvs : vs ≠ []) (hok : okM2M vs s.targets = true) :
    saveOwner ⟨.m2m, false⟩ o (appendMem ⟨.m2m, false⟩ true o vs s) = m2mSet o vs s := by
  simp [saveOwner, appendMem, saveM2M, hvs, backfill_inserted hok, m2mSet]

/-- Replace on a slice of owners, class m2m: the save loop (before the clean-up statement) -/
theorem slice_save_m2m : ∀ (os : List Nat) (vss : List (List Nat)) (s : St),
    os.Nodup → os.length = vss.length → Glob s → ValsOk s vss →
    Glob (saveAll ⟨.m2m, false⟩ true os vss s) ∧
    (∀ o t, (o, t) ∈ (saveAll ⟨.m2m, false⟩ true os vss s).links ↔
      (o, t) ∈ s.links ∨ t ∈ idsOf os vss s.next o) ∧
    (∀ o, (saveAll ⟨.m2m, false⟩ true os vss s).mem o = if o ∈ os then idsOf os vss s.next o else s.mem o) ∧
    (∀ t, t ∈ argIds os vss (saveAll ⟨.m2m, false⟩ true os vss s) ↔ ∃ o ∈ os, t ∈ idsOf os vss s.next o) ∧
    (saveAll ⟨.m2m, false⟩ true os vss s).next = s.next + zerosAll vss ∧
    (∀ t ∈ s.targets, t ∈ (saveAll ⟨.m2m, false⟩ true os vss s).targets) ∧
    (saveAll ⟨.m2m, false⟩ true os vss s).memFk = s.memFk := by
  intro os
  induction os with
  | nil =>
    intro vss s _ hlen hG _
    have : vss = [] := List.eq_nil_of_length_eq_zero (by simpa using hlen.symm)
    subst this; simp [saveAll, idsOf, argIds, hG, zerosAll]
  | cons o os ih =>
    intro vss s hnd hlen hG hok
    cases vss with
    | nil => simp at hlen
    | cons vs vss =>
      obtain ⟨hv1, hv2, hv3⟩ := hok vs (by simp)
      rw [List.nodup_cons] at hnd
      simp only [saveAll, saveOwner_m2m_set hv1 hv2]
      have hf := mem_fill hv3
      have hz := zero_not_mem_fill (vs := vs) hG.npos
      have hi1 := inserted_lt (ts := s.targets) hv3
      have hi2 := fill_sub_inserted (vs := vs) (ts := s.targets) (n := s.next)
      have hl := fill_length vs s.next
      obtain ⟨g1, g2, g3, g4, g5⟩ := hG
      have hG1 : Glob (m2mSet o vs s) := by
        refine ⟨?_, ?_, ?_, ?_, ?_⟩ <;> simp [m2mSet] <;> grind
      have hok1 : ValsOk (m2mSet o vs s) vss :=
        ValsOk.mono (s := s) (fun vs' hvs' => hok vs' (List.mem_cons_of_mem _ hvs'))
          (by simp [m2mSet]; intro t ht; exact Or.inl ht) (by simp [m2mSet])
      obtain ⟨i1, i2, i3, i4, i5, i6, i7⟩ := ih vss _ hnd.2 (by simpa using hlen) hG1 hok1
      have e1 : (m2mSet o vs s).next = s.next + zeros vs := rfl
      have e2 : ∀ x t, (x, t) ∈ (m2mSet o vs s).links ↔ (x, t) ∈ s.links ∨ (x = o ∧ t ∈ fill vs s.next) := by
        intro x t; simp [m2mSet]; grind
      have e3 : ∀ x, (m2mSet o vs s).mem x = upd s.mem o (fill vs s.next) x := fun _ => rfl
      have e4 : ∀ t ∈ s.targets, t ∈ (m2mSet o vs s).targets := by intro t ht; simp [m2mSet, ht]
      have e5 : (m2mSet o vs s).memFk = s.memFk := rfl
      rw [e1] at i2 i3 i4 i5
      refine ⟨i1, ?_, ?_, ?_, by rw [i5, zerosAll_cons]; omega, fun t ht => i6 t (e4 t ht), by rw [i7, e5]⟩
      · intro x t
        rw [i2 x t, e2 x t]
        by_cases e : x = o
        · subst e; simp [idsOf, idsOf_not_mem hnd.1]
        · simp [idsOf, e]
      · intro x
        rw [i3 x, e3 x]
        by_cases e : x = o
        · subst e; simp [idsOf, hnd.1]
        · simp [idsOf, e, upd]
      · intro t
        have hmo := i3 o
        rw [e3 o] at hmo
        simp [hnd.1] at hmo
        simp only [argIds, List.mem_append, i4 t, hmo, hl, Nat.sub_self, List.drop_zero]
        constructor
        · rintro (h | ⟨x, hx, h⟩)
          · exact ⟨o, by simp, by simpa [idsOf] using h⟩
          · have e : x ≠ o := fun e => hnd.1 (e ▸ hx)
            exact ⟨x, List.mem_cons_of_mem _ hx, by simpa [idsOf, e] using h⟩
        · rintro ⟨x, hx, h⟩
          by_cases e : x = o
          · subst e; left; simpa [idsOf] using h
          · right
            have hx' : x ∈ os := by simpa [e] using hx
            exact ⟨x, hx', by simpa [idsOf, e] using h⟩

/-- Replace with values on a slice of owners, class m2m, under ¬F12d -/
theorem slice_replace_m2m (os : List Nat) (vss : List (List Nat)) (uns : Bool) (s : St)
    (hnd : os.Nodup) (hlen : os.length = vss.length) (hne : vss ≠ []) (hG : Glob s) (hok : ValsOk s vss)
    (hF : ∀ A ∈ os, ∀ t, (A, t) ∈ s.links → (∃ B ∈ os, t ∈ idsOf os vss s.next B) → t ∈ idsOf os vss s.next A) :
    (∀ o', (o' ∈ os ∨ Inv ⟨.m2m, false⟩ o' s) → Inv ⟨.m2m, false⟩ o' (replace ⟨.m2m, false⟩ os uns vss s)) ∧
    (∀ o t, (o, t) ∈ (replace ⟨.m2m, false⟩ os uns vss s).links ↔
      if o ∈ os then t ∈ idsOf os vss s.next o else (o, t) ∈ s.links) ∧
    (replace ⟨.m2m, false⟩ os uns vss s).next = s.next + zerosAll vss ∧
    (∀ t ∈ s.targets, t ∈ (replace ⟨.m2m, false⟩ os uns vss s).targets) := by
  obtain ⟨⟨g1, g2, g3, g4, g5⟩, i2, i3, i4, i5, i6, i7⟩ := slice_save_m2m os vss s hnd hlen hG hok
  have hlen' : vss.length = os.length := hlen.symm
  have hk := mem_nz (argIds os vss (saveAll ⟨.m2m, false⟩ true os vss s))
  have hlinks : ∀ o t, (o, t) ∈ (replace ⟨.m2m, false⟩ os uns vss s).links ↔
      if o ∈ os then t ∈ idsOf os vss s.next o else (o, t) ∈ s.links := by
    intro o t
    simp [replace, saveAssociation, hne, hlen', g1, List.mem_filter, stale_eq_false_iff]
    have a1 := i2 o t
    have a2 := i4 t
    have a4 := hF o
    have a5 := g5 (o, t)
    have a6 := idsOf_not_mem (os := os) (vss := vss) (n := s.next) (o := o)
    generalize nz (argIds os vss (saveAll ⟨.m2m, false⟩ true os vss s)) = K at *
    generalize argIds os vss (saveAll ⟨.m2m, false⟩ true os vss s) = K' at *
    grind
  refine ⟨?_, hlinks, ?_, ?_⟩
  · intro o' ho'
    have hl := hlinks o'
    have hm := i3 o'
    refine ⟨by simp, ?_, ?_, ?_, ?_, ?_, ?_, by simp, by simp, by simp⟩
    all_goals simp [replace, saveAssociation, hne, hlen', g1]
    · exact g2
    · intro t
      have := hl t
      simp [replace, saveAssociation, hne, hlen', g1] at this
      rw [this, hm]
      by_cases ho : o' ∈ os
      · simp [ho]
      · simp [ho]
        rcases ho' with h | h
        · exact absurd h ho
        · exact h.agree t
    · intro a b hab _; exact g3 _ hab
    · exact g4
    · intro a b hab _; exact g5 _ hab
  · simpa [replace, saveAssociation, hne, hlen', g1] using i5
  · simpa [replace, saveAssociation, hne, hlen', g1] using i6

/-- the value list handed to owner `o` in a slice call -/
def valsOf : List Nat → List (List Nat) → Nat → List Nat
  | o' :: os, vs :: vss, o => if o = o' then vs else valsOf os vss o
  | _, _, _ => []

/-- an already existing key is among the resolved keys of `o` iff it is a (preset) value handed to `o` -/
theorem mem_idsOf_old : ∀ (os : List Nat) (vss : List (List Nat)) (n o t : Nat),
    (∀ vs ∈ vss, ∀ v ∈ vs, v < n) → t < n → (t ∈ idsOf os vss n o ↔ t ≠ 0 ∧ t ∈ valsOf os vss o) := by
  intro os
  induction os with
  | nil => intro vss n o t _ _; simp [idsOf, valsOf]
  | cons a os ih =>
    intro vss n o t hlt ht
    cases vss with
    | nil => simp [idsOf, valsOf]
    | cons vs vss =>
      by_cases e : o = a
      · simp only [idsOf, valsOf, e, if_true]
        rw [mem_fill (hlt vs (by simp))]
        constructor
        · rintro (h | h)
          · exact h
          · omega
        · exact fun h => Or.inl h
      · simp only [idsOf, valsOf, e, if_false]
        exact ih vss _ o t
          (fun vs' hvs' v hv => Nat.lt_of_lt_of_le (hlt vs' (List.mem_cons_of_mem _ hvs') v hv) (Nat.le_add_right _ _))
          (by omega)

/-- ¬F12d: no owner of the slice is linked to a record that the call hands to another owner but not to it -/
def NoF12d (os : List Nat) (vss : List (List Nat)) (s : St) : Prop :=
  ∀ A ∈ os, ∀ t, (A, t) ∈ s.links → (∃ B ∈ os, t ∈ valsOf os vss B) → t ∈ valsOf os vss A

theorem NoF12d.ids {os vss s} (h : NoF12d os vss s) (hG : Glob s) (hok : ValsOk s vss) :
    ∀ A ∈ os, ∀ t, (A, t) ∈ s.links → (∃ B ∈ os, t ∈ idsOf os vss s.next B) → t ∈ idsOf os vss s.next A := by
  intro A hA t hl ⟨B, hB, hm⟩
  have hlt : ∀ vs ∈ vss, ∀ v ∈ vs, v < s.next := fun vs hvs => (hok vs hvs).2.2
  have ht : t < s.next := hG.fresh _ (hG.dang _ hl)
  have h0 : t ≠ 0 := hG.nzl _ hl
  rw [mem_idsOf_old os vss s.next A t hlt ht]
  rw [mem_idsOf_old os vss s.next B t hlt ht] at hm
  exact ⟨h0, h A hA t hl ⟨B, hB, hm.2⟩⟩

/-! ### slices of owners, class bt (belongs-to), scoped -/

theorem replace_bt_single {o v : Nat} {s : St} (he : s.err = false) :
    saveOwner ⟨.bt, true⟩ o (appendMem ⟨.bt, true⟩ true o [v] s) = replace ⟨.bt, true⟩ [o] false [[v]] s := by
  by_cases hv : v = 0 <;> simp [replace, saveAssociation, saveAll, saveOwner, appendMem, saveBt, he, hv]

theorem frame_bt_set {o o' v : Nat} {s : St} (h : Inv ⟨.bt, true⟩ o s) (h' : Inv ⟨.bt, true⟩ o' s)
    (hne : o' ≠ o) (hlt : v < s.next) : Inv ⟨.bt, true⟩ o' (replace ⟨.bt, true⟩ [o] false [[v]] s) := by
  obtain ⟨h1, h2, h3, h4, h5, h6, h7, h8, h9, h10⟩ := h
  obtain ⟨g1, g2, g3, g4, g5, g6, g7, g8, g9, g10⟩ := h'
  by_cases hv : v = 0
  · simp [replace, saveAssociation, saveAll, saveOwner, appendMem, saveBt, h2, hv]
    refine ⟨?_, ?_, ?_, ?_, ?_, ?_, ?_, ?_, ?_, ?_⟩ <;> grind [upd_same, upd_other]
  · simp [replace, saveAssociation, saveAll, saveOwner, appendMem, saveBt, h2, hv]
    refine ⟨?_, ?_, ?_, ?_, ?_, ?_, ?_, ?_, ?_, ?_⟩ <;> grind [upd_same, upd_other]

/-- one value per owner, each with a key below `next` or keyless -/
def ValsOkBt (s : St) (vss : List (List Nat)) : Prop := ∀ vs ∈ vss, ∃ v, vs = [v] ∧ v < s.next

/-- Append / Replace with values on a slice of owners, class bt: the save loop -/
theorem slice_set_bt : ∀ (os : List Nat) (vss : List (List Nat)) (s : St),
    os.Nodup → os.length = vss.length → (∀ o ∈ os, Inv ⟨.bt, true⟩ o s) → ValsOkBt s vss → s.err = false →
    (∀ o', Inv ⟨.bt, true⟩ o' s → Inv ⟨.bt, true⟩ o' (saveAll ⟨.bt, true⟩ true os vss s)) ∧
    (∀ o t, (o, t) ∈ (saveAll ⟨.bt, true⟩ true os vss s).links ↔
      if o ∈ os then t ∈ idsOf os vss s.next o else (o, t) ∈ s.links) ∧
    (saveAll ⟨.bt, true⟩ true os vss s).next = s.next + zerosAll vss ∧
    (∀ t ∈ s.targets, t ∈ (saveAll ⟨.bt, true⟩ true os vss s).targets) ∧
    (saveAll ⟨.bt, true⟩ true os vss s).err = false := by
  intro os
  induction os with
  | nil =>
    intro vss s _ hlen _ _ he
    have : vss = [] := List.eq_nil_of_length_eq_zero (by simpa using hlen.symm)
    subst this; simp [saveAll, zerosAll, he]
  | cons o os ih =>
    intro vss s hnd hlen hinv hok he
    cases vss with
    | nil => simp at hlen
    | cons vs vss =>
      obtain ⟨v, hvs, hv⟩ := hok vs (by simp)
      subst hvs
      rw [List.nodup_cons] at hnd
      simp only [saveAll, replace_bt_single he]
      have ho := hinv o (by simp)
      have m := sim_bt_set ho hv
      have hframe : ∀ o', Inv ⟨.bt, true⟩ o' s → Inv ⟨.bt, true⟩ o' (replace ⟨.bt, true⟩ [o] false [[v]] s) := by
        intro o' h'
        by_cases e : o' = o
        · subst e; exact m.inv
        · exact frame_bt_set ho h' e hv
      have hn1 : s.next ≤ (replace ⟨.bt, true⟩ [o] false [[v]] s).next := by rw [m.next]; omega
      have hok1 : ValsOkBt (replace ⟨.bt, true⟩ [o] false [[v]] s) vss := by
        intro vs' hvs'
        obtain ⟨v', e', hv'⟩ := hok vs' (List.mem_cons_of_mem _ hvs')
        exact ⟨v', e', Nat.lt_of_lt_of_le hv' hn1⟩
      obtain ⟨i1, i2, i3, i4, i5⟩ := ih vss _ hnd.2 (by simpa using hlen)
        (fun x hx => hframe x (hinv x (List.mem_cons_of_mem _ hx))) hok1 m.inv.err
      refine ⟨fun o' h' => i1 o' (hframe o' h'), ?_, by rw [i3, m.next, zerosAll_cons]; omega,
        fun t ht => i4 t (m.tsurv t ht), i5⟩
      intro x t
      rw [i2 x t]
      by_cases e : x = o
      · subst e
        simp [hnd.1, m.own t, idsOf]
      · rw [m.other x e t, m.next]
        simp [idsOf, e]

theorem clearMem_bt (os : List Nat) (s : St) :
    clearMem ⟨.bt, true⟩ os s =
      { s with mem := fun o' => if o' ∈ os then [] else s.mem o',
               memFk := fun o' => if o' ∈ os then 0 else s.memFk o' } := by
  induction os generalizing s with
  | nil => simp [clearMem]
  | cons o os ih =>
    simp only [clearMem, ih, if_true]
    congr 1
    · funext o'
      by_cases e : o' = o
      · subst e; by_cases hm : o' ∈ os <;> simp [hm, upd]
      · by_cases hm : o' ∈ os <;> simp [hm, upd, e]
    · funext o'
      by_cases e : o' = o
      · subst e; by_cases hm : o' ∈ os <;> simp [hm, upd]
      · by_cases hm : o' ∈ os <;> simp [hm, upd, e]

/-- Clear on a slice of owners, class bt -/
theorem slice_clear_bt (os : List Nat) (s : St) (he : s.err = false) :
    (∀ o', Inv ⟨.bt, true⟩ o' s → Inv ⟨.bt, true⟩ o' (replace ⟨.bt, true⟩ os false [] s)) ∧
    (∀ o t, (o, t) ∈ (replace ⟨.bt, true⟩ os false [] s).links ↔ (o, t) ∈ s.links ∧ o ∉ os) ∧
    (replace ⟨.bt, true⟩ os false [] s).next = s.next ∧
    (replace ⟨.bt, true⟩ os false [] s).targets = s.targets := by
  simp [replace, saveAssociation, clearMem_bt, he]
  intro o' ⟨h1, h2, h3, h4, h5, h6, h7, h8, h9, h10⟩
  refine ⟨?_, ?_, ?_, ?_, ?_, ?_, ?_, ?_, ?_, ?_⟩ <;> simp <;> grind

/-- in-memory field / fk after `cleanUpDeletedRelations` (belongs-to) -/
def cmBt (ns l : List Nat) : List Nat := match l with | v :: _ => if v ∈ ns then [] else l | [] => []
def cfBt (ns l : List Nat) (fk : Nat) : Nat := match l with | v :: _ => if v ∈ ns then 0 else fk | [] => fk

theorem cleanMem_bt (ns : List Nat) : ∀ (os : List Nat) (s : St), os.Nodup →
    cleanMem ⟨.bt, true⟩ ns os s =
      { s with mem := fun o' => if o' ∈ os then cmBt ns (s.mem o') else s.mem o',
               memFk := fun o' => if o' ∈ os then cfBt ns (s.mem o') (s.memFk o') else s.memFk o' } := by
  intro os
  induction os with
  | nil => intro s _; simp [cleanMem]
  | cons o os ih =>
    intro s hnd
    rw [List.nodup_cons] at hnd
    simp only [cleanMem, if_true]
    cases hm : s.mem o with
    | nil =>
      simp only [ih _ hnd.2]
      congr 1
      · funext o'
        by_cases e : o' = o
        · subst e; simp [hnd.1, hm, cmBt]
        · simp [e]
      · funext o'
        by_cases e : o' = o
        · subst e; simp [hnd.1, hm, cfBt]
        · simp [e]
    | cons v l =>
      by_cases hv : v ∈ ns
      · simp only [hv, if_true, ih _ hnd.2]
        congr 1
        · funext o'
          by_cases e : o' = o
          · subst e; simp [hnd.1, hm, cmBt, hv, upd]
          · simp [e, upd]
        · funext o'
          by_cases e : o' = o
          · subst e; simp [hnd.1, hm, cfBt, hv, upd]
          · simp [e, upd]
      · simp only [hv, if_false, ih _ hnd.2]
        congr 1
        · funext o'
          by_cases e : o' = o
          · subst e; simp [hnd.1, hm, cmBt, hv]
          · simp [e]
        · funext o'
          by_cases e : o' = o
          · subst e; simp [hnd.1, hm, cfBt, hv]
          · simp [e]

/-- Delete on a slice of owners, class bt -/
theorem slice_delete_bt (os ns : List Nat) (s : St) (hnd : os.Nodup) :
    (∀ o', Inv ⟨.bt, true⟩ o' s → Inv ⟨.bt, true⟩ o' (delete ⟨.bt, true⟩ os false ns s)) ∧
    (∀ o t, (o, t) ∈ (delete ⟨.bt, true⟩ os false ns s).links ↔ (o, t) ∈ s.links ∧ ¬(o ∈ os ∧ t ∈ ns)) ∧
    (delete ⟨.bt, true⟩ os false ns s).next = s.next ∧
    (delete ⟨.bt, true⟩ os false ns s).targets = s.targets := by
  simp [delete, cleanMem_bt ns os _ hnd]
  refine ⟨?_, ?_⟩
  · intro o' ⟨h1, h2, h3, h4, h5, h6, h7, h8, h9, h10⟩
    have hl := h8 rfl
    have hq := h9 rfl
    cases hm : s.mem o' with
    | nil =>
      refine ⟨?_, ?_, ?_, ?_, ?_, ?_, ?_, ?_, ?_, ?_⟩ <;> simp [named, cmBt, cfBt, hm] <;> grind
    | cons v l =>
      have : l = [] := by cases l with | nil => rfl | cons _ _ => simp [hm] at hl
      subst this
      by_cases hv : v ∈ ns
      · refine ⟨?_, ?_, ?_, ?_, ?_, ?_, ?_, ?_, ?_, ?_⟩ <;> simp [named, cmBt, cfBt, hm, hv] <;> grind
      · refine ⟨?_, ?_, ?_, ?_, ?_, ?_, ?_, ?_, ?_, ?_⟩ <;> simp [named, cmBt, cfBt, hm, hv] <;> grind
  · intro o t; simp [named]

/-! ### slices of owners, class fk (has-many), scoped, under ¬F12e -/

/-- ¬F12e: no non-zero value handed to one operated owner is linked to, or handed to, another operated owner -/
def NoF12e (os : List Nat) (vss : List (List Nat)) (s : St) : Prop :=
  ∀ A ∈ os, ∀ B ∈ os, A ≠ B → ∀ t ∈ valsOf os vss A, t ≠ 0 → (B, t) ∉ s.links ∧ t ∉ valsOf os vss B

def ValsOkFk (s : St) (vss : List (List Nat)) : Prop := ∀ vs ∈ vss, vs ≠ [] ∧ ∀ v ∈ vs, v < s.next

theorem valsOf_not_mem {os : List Nat} {vss : List (List Nat)} {o : Nat} (h : o ∉ os) : valsOf os vss o = [] := by
  induction os generalizing vss with
  | nil => simp [valsOf]
  | cons a os ih =>
    cases vss with
    | nil => simp [valsOf]
    | cons vs vss => simp at h; simp [valsOf, h.1, ih h.2]

theorem valsOf_lt {os : List Nat} {vss : List (List Nat)} {o n : Nat} (h : ∀ vs ∈ vss, ∀ v ∈ vs, v < n) :
    ∀ t ∈ valsOf os vss o, t < n := by
  induction os generalizing vss with
  | nil => simp [valsOf]
  | cons a os ih =>
    cases vss with
    | nil => simp [valsOf]
    | cons vs vss =>
      by_cases e : o = a
      · simpa [valsOf, e] using h vs (by simp)
      · simpa [valsOf, e] using ih (fun vs' hvs' => h vs' (List.mem_cons_of_mem _ hvs'))

/-- saving owner `o` leaves the invariant of another owner intact if none of the values is linked to it -/
theorem frame_fk_add {o o' : Nat} {s : St} {vs : List Nat} (h : Inv ⟨.fk, false⟩ o s)
    (h' : Inv ⟨.fk, false⟩ o' s) (hne : o' ≠ o) (hvs : vs ≠ []) (hlt : ∀ v ∈ vs, v < s.next)
    (hD : ∀ t ∈ vs, t ≠ 0 → (o', t) ∉ s.links) :
    Inv ⟨.fk, false⟩ o' (saveAssociation ⟨.fk, false⟩ false [o] [vs] s) ∧
    ∀ t, (o', t) ∈ (saveAssociation ⟨.fk, false⟩ false [o] [vs] s).links ↔ (o', t) ∈ s.links := by
  have hz := zeros_mem_append h vs
  have hlt' : ∀ v ∈ s.mem o ++ vs, v < s.next := by
    intro v hv; rcases List.mem_append.1 hv with hv | hv
    · exact mem_lt h v hv
    · exact hlt v hv
  have hf := mem_fill hlt'
  have h0 := mem_no_zero h
  rw [hz] at hf
  obtain ⟨h1, h2, h3, h4, h5, h6, h7, h8, h9, h10⟩ := h
  obtain ⟨g1, g2, g3, g4, g5, g6, g7, g8, g9, g10⟩ := h'
  simp [saveAssociation, saveAll, saveOwner, appendMem, saveFk, fill_eq_nil, hvs]
  refine ⟨⟨?_, ?_, ?_, ?_, ?_, ?_, ?_, ?_, ?_, ?_⟩, ?_⟩ <;> grind [upd_same, upd_other]

/-- Append on a slice of owners, class fk (has-many), under ¬F12e; `P`: owners already saved by this call -/
theorem slice_append_fk : ∀ (os : List Nat) (vss : List (List Nat)) (s : St) (P : List Nat),
    os.Nodup → os.length = vss.length → (∀ o ∈ os, Inv ⟨.fk, false⟩ o s) →
    (∀ p ∈ P, p ∉ os ∧ Inv ⟨.fk, false⟩ p s) → ValsOkFk s vss → NoF12e os vss s →
    (∀ p ∈ P, ∀ A ∈ os, ∀ t ∈ valsOf os vss A, t ≠ 0 → (p, t) ∉ s.links) →
    (∀ o ∈ os, Inv ⟨.fk, false⟩ o (saveAll ⟨.fk, false⟩ false os vss s)) ∧
    (∀ p ∈ P, Inv ⟨.fk, false⟩ p (saveAll ⟨.fk, false⟩ false os vss s) ∧
      ∀ t, (p, t) ∈ (saveAll ⟨.fk, false⟩ false os vss s).links ↔ (p, t) ∈ s.links) ∧
    (∀ o ∈ os, ∀ t, (o, t) ∈ (saveAll ⟨.fk, false⟩ false os vss s).links ↔
      (o, t) ∈ s.links ∨ t ∈ idsOf os vss s.next o) ∧
    (∀ x t, (x, t) ∈ (saveAll ⟨.fk, false⟩ false os vss s).links →
      (x, t) ∈ s.links ∨ (x ∈ os ∧ t ∈ idsOf os vss s.next x)) ∧
    (saveAll ⟨.fk, false⟩ false os vss s).next = s.next + zerosAll vss ∧
    (∀ t ∈ s.targets, t ∈ (saveAll ⟨.fk, false⟩ false os vss s).targets) := by
  intro os
  induction os with
  | nil =>
    intro vss s P _ hlen _ hP _ _ _
    have : vss = [] := List.eq_nil_of_length_eq_zero (by simpa using hlen.symm)
    subst this
    simp [saveAll, zerosAll]
    exact fun p hp => (hP p hp).2
  | cons o os ih =>
    intro vss s P hnd hlen hinv hPinv hok hF hP
    cases vss with
    | nil => simp at hlen
    | cons vs vss =>
      have hT : saveAll ⟨.fk, false⟩ false (o :: os) (vs :: vss) s =
          saveAll ⟨.fk, false⟩ false os vss (saveAssociation ⟨.fk, false⟩ false [o] [vs] s) := by
        simp [saveAssociation, saveAll]
      rw [hT]
      rw [List.nodup_cons] at hnd
      obtain ⟨hv1, hv3⟩ := hok vs (by simp)
      have ho := hinv o (by simp)
      have m := sim_fk_add ho hv1 hv3
      have hvo : valsOf (o :: os) (vs :: vss) o = vs := by simp [valsOf]
      have hvx : ∀ x, x ≠ o → valsOf (o :: os) (vs :: vss) x = valsOf os vss x := by
        intro x hx; simp [valsOf, hx]
      have hltall : ∀ vs' ∈ vss, ∀ v ∈ vs', v < s.next :=
        fun vs' hvs' => (hok vs' (List.mem_cons_of_mem _ hvs')).2
      -- frame for the remaining operated owners
      have hfr : ∀ x ∈ os, Inv ⟨.fk, false⟩ x (saveAssociation ⟨.fk, false⟩ false [o] [vs] s) ∧
          ∀ t, (x, t) ∈ (saveAssociation ⟨.fk, false⟩ false [o] [vs] s).links ↔ (x, t) ∈ s.links := by
        intro x hx
        have hxo : x ≠ o := fun e => hnd.1 (e ▸ hx)
        refine frame_fk_add ho (hinv x (List.mem_cons_of_mem _ hx)) hxo hv1 hv3 ?_
        intro t ht h0
        exact (hF o (by simp) x (List.mem_cons_of_mem _ hx) (Ne.symm hxo) t (by rw [hvo]; exact ht) h0).1
      -- frame for the owners saved before
      have hfrP : ∀ p ∈ P, Inv ⟨.fk, false⟩ p (saveAssociation ⟨.fk, false⟩ false [o] [vs] s) ∧
          ∀ t, (p, t) ∈ (saveAssociation ⟨.fk, false⟩ false [o] [vs] s).links ↔ (p, t) ∈ s.links := by
        intro p hp
        obtain ⟨hp1, hp2⟩ := hPinv p hp
        have hpo : p ≠ o := fun e => hp1 (by simp [e])
        refine frame_fk_add ho hp2 hpo hv1 hv3 ?_
        intro t ht h0
        exact hP p hp o (by simp) t (by rw [hvo]; exact ht) h0
      have hn1 : (saveAssociation ⟨.fk, false⟩ false [o] [vs] s).next = s.next + zeros vs := m.next
      have hok1 : ValsOkFk (saveAssociation ⟨.fk, false⟩ false [o] [vs] s) vss := by
        intro vs' hvs'
        obtain ⟨a, b⟩ := hok vs' (List.mem_cons_of_mem _ hvs')
        exact ⟨a, fun v hv => by rw [hn1]; have := b v hv; omega⟩
      have hF1 : NoF12e os vss (saveAssociation ⟨.fk, false⟩ false [o] [vs] s) := by
        intro A hA B hB hAB t ht h0
        have hAo : A ≠ o := fun e => hnd.1 (e ▸ hA)
        have hBo : B ≠ o := fun e => hnd.1 (e ▸ hB)
        have := hF A (List.mem_cons_of_mem _ hA) B (List.mem_cons_of_mem _ hB) hAB t (by rw [hvx A hAo]; exact ht) h0
        rw [hvx B hBo] at this
        exact ⟨fun hl => this.1 (((hfr B hB).2 t).1 hl), this.2⟩
      have hP1 : ∀ p ∈ o :: P, ∀ A ∈ os, ∀ t ∈ valsOf os vss A, t ≠ 0 →
          (p, t) ∉ (saveAssociation ⟨.fk, false⟩ false [o] [vs] s).links := by
        intro p hp A hA t ht h0
        have hAo : A ≠ o := fun e => hnd.1 (e ▸ hA)
        rcases List.mem_cons.1 hp with e | hp
        · subst e
          have hh := hF A (List.mem_cons_of_mem _ hA) p (by simp) hAo t (by rw [hvx A hAo]; exact ht) h0
          rw [hvo] at hh
          rw [m.own t]
          rintro (hl | hl)
          · exact hh.1 hl
          · have htlt : t < s.next := valsOf_lt hltall t ht
            rcases (mem_fill hv3 t).1 hl with ⟨_, h⟩ | ⟨h, _⟩
            · exact hh.2 h
            · omega
        · intro hl
          exact hP p hp A (List.mem_cons_of_mem _ hA) t (by rw [hvx A hAo]; exact ht) h0 (((hfrP p hp).2 t).1 hl)
      have hPinv1 : ∀ p ∈ o :: P, p ∉ os ∧ Inv ⟨.fk, false⟩ p (saveAssociation ⟨.fk, false⟩ false [o] [vs] s) := by
        intro p hp
        rcases List.mem_cons.1 hp with e | hp
        · subst e; exact ⟨hnd.1, m.inv⟩
        · exact ⟨fun h => (hPinv p hp).1 (List.mem_cons_of_mem _ h), (hfrP p hp).1⟩
      obtain ⟨i1, i2, i3, i4, i5, i6⟩ := ih vss _ (o :: P) hnd.2 (by simpa using hlen)
        (fun x hx => (hfr x hx).1) hPinv1 hok1 hF1 hP1
      rw [hn1] at i3 i4 i5
      refine ⟨?_, ?_, ?_, ?_, by rw [i5, zerosAll_cons]; omega, fun t ht => i6 t (m.tsurv t ht)⟩
      · intro x hx
        rcases List.mem_cons.1 hx with e | hx
        · subst e; exact (i2 x (by simp)).1
        · exact i1 x hx
      · intro p hp
        have := i2 p (List.mem_cons_of_mem _ hp)
        exact ⟨this.1, fun t => (this.2 t).trans ((hfrP p hp).2 t)⟩
      · intro x hx t
        rcases List.mem_cons.1 hx with e | hx
        · subst e
          rw [(i2 x (by simp)).2 t, m.own t]
          simp [idsOf]
        · have hxo : x ≠ o := fun e => hnd.1 (e ▸ hx)
          rw [i3 x hx t, (hfr x hx).2 t]
          simp [idsOf, hxo]
      · intro x t hl
        rcases i4 x t hl with h | ⟨hx, h⟩
        · by_cases e : x = o
          · subst e
            rcases (m.own t).1 h with h | h
            · exact Or.inl h
            · exact Or.inr ⟨by simp, by simpa [idsOf] using h⟩
          · exact Or.inl ((m.other x e t).1 h).1
        · have hxo : x ≠ o := fun e => hnd.1 (e ▸ hx)
          exact Or.inr ⟨List.mem_cons_of_mem _ hx, by simpa [idsOf, hxo] using h⟩



theorem cleanMem_many (cls : Cls) (ns : List Nat) (os : List Nat) (s : St) :
    cleanMem ⟨cls, false⟩ ns os s =
      { s with mem := fun o' => if o' ∈ os then (s.mem o').filter (· ∉ ns) else s.mem o' } := by
  induction os generalizing s with
  | nil => simp [cleanMem]
  | cons o os ih =>
    simp only [cleanMem, Bool.false_eq_true, if_false, ih]
    congr 1
    funext o'
    by_cases e : o' = o
    · subst e; by_cases hm : o' ∈ os <;> simp [hm, upd, List.filter_filter]
    · by_cases hm : o' ∈ os <;> simp [hm, upd, e]

theorem clearMem_fk (c1 : Bool) (os : List Nat) (s : St) :
    clearMem ⟨.fk, c1⟩ os s = { s with mem := fun o' => if o' ∈ os then [] else s.mem o' } := by
  induction os generalizing s with
  | nil => simp [clearMem]
  | cons o os ih =>
    simp only [clearMem, ih]
    congr 1
    funext o'
    by_cases e : o' = o
    · subst e; by_cases hm : o' ∈ os <;> simp [hm, upd]
    · by_cases hm : o' ∈ os <;> simp [hm, upd, e]

/-- Delete on a slice of owners, class fk (has-many), scoped -/
theorem slice_delete_fk (os ns : List Nat) (s : St) :
    (∀ o', Inv ⟨.fk, false⟩ o' s → Inv ⟨.fk, false⟩ o' (delete ⟨.fk, false⟩ os false ns s)) ∧
    (∀ o t, (o, t) ∈ (delete ⟨.fk, false⟩ os false ns s).links ↔ (o, t) ∈ s.links ∧ ¬(o ∈ os ∧ t ∈ ns)) ∧
    (delete ⟨.fk, false⟩ os false ns s).next = s.next ∧
    (delete ⟨.fk, false⟩ os false ns s).targets = s.targets := by
  simp only [delete, cleanMem_many]
  refine ⟨?_, ?_, ?_, ?_⟩
  · intro o' ⟨h1, h2, h3, h4, h5, h6, h7, h8, h9, h10⟩
    refine ⟨?_, ?_, ?_, ?_, ?_, ?_, ?_, ?_, ?_, ?_⟩ <;> simp [named] <;> grind
  · intro o t; simp [named]; grind
  · simp
  · simp

/-- Clear on a slice of owners, class fk (has-many), scoped -/
theorem slice_clear_fk (os : List Nat) (s : St) (he : s.err = false) :
    (∀ o', Inv ⟨.fk, false⟩ o' s → Inv ⟨.fk, false⟩ o' (replace ⟨.fk, false⟩ os false [] s)) ∧
    (∀ o t, (o, t) ∈ (replace ⟨.fk, false⟩ os false [] s).links ↔ (o, t) ∈ s.links ∧ o ∉ os) ∧
    (replace ⟨.fk, false⟩ os false [] s).next = s.next ∧
    (replace ⟨.fk, false⟩ os false [] s).targets = s.targets := by
  have hk : nz (List.flatMap (fun o' => if o' ∈ os then ([] : List Nat) else s.mem o') os) = [] := by
    have : List.flatMap (fun o' => if o' ∈ os then ([] : List Nat) else s.mem o') os = [] := by
      rw [List.flatMap_eq_nil_iff]; intro x hx; simp [hx]
    rw [this]; rfl
  simp [replace, saveAssociation, clearMem_fk, he, hk, stale]
  intro o' ⟨h1, h2, h3, h4, h5, h6, h7, h8, h9, h10⟩
  refine ⟨?_, ?_, ?_, ?_, ?_, ?_, ?_, ?_, ?_, ?_⟩ <;> simp <;> grind

/-- a resolved key of `o` is one of its preset values or a fresh key -/
theorem mem_idsOf_cases : ∀ (os : List Nat) (vss : List (List Nat)) (n o t : Nat),
    (∀ vs ∈ vss, ∀ v ∈ vs, v < n) → t ∈ idsOf os vss n o → (t ≠ 0 ∧ t ∈ valsOf os vss o) ∨ n ≤ t := by
  intro os
  induction os with
  | nil => intro vss n o t _ h; simp [idsOf] at h
  | cons a os ih =>
    intro vss n o t hlt h
    cases vss with
    | nil => simp [idsOf] at h
    | cons vs vss =>
      by_cases e : o = a
      · simp only [idsOf, valsOf, e, if_true] at h ⊢
        rcases (mem_fill (hlt vs (by simp)) t).1 h with h | h
        · exact Or.inl h
        · exact Or.inr h.1
      · simp only [idsOf, valsOf, e, if_false] at h ⊢
        rcases ih vss _ o t
          (fun vs' hvs' v hv => Nat.lt_of_lt_of_le (hlt vs' (List.mem_cons_of_mem _ hvs') v hv) (Nat.le_add_right _ _)) h
          with h | h
        · exact Or.inl h
        · right; omega

/-- value lists of different owners share no non-zero key -/
def DisjVals (os : List Nat) (vss : List (List Nat)) : Prop :=
  ∀ A ∈ os, ∀ B ∈ os, A ≠ B → ∀ t ∈ valsOf os vss A, t ≠ 0 → t ∉ valsOf os vss B

/-- state after saving owner `o` with the new field `vs` (Replace, class fk) -/
def fkSet (o : Nat) (vs : List Nat) (s : St) : St :=
  { s with mem := upd s.mem o (fill vs s.next), next := s.next + zeros vs,
           targets := s.targets ++ fill vs s.next,
           links := s.links.filter (fun p => p.2 ∉ fill vs s.next) ++ (fill vs s.next).map (fun t => (o, t)),
           log := s.log ++ ["INSERT T"] }

theorem saveOwner_fk_set {o : Nat} {s : St} {vs : List Nat} (hvs : vs ≠ []) :
    saveOwner ⟨.fk, false⟩ o (appendMem ⟨.fk, false⟩ true o vs s) = fkSet o vs s := by
  simp [saveOwner, appendMem, saveFk, hvs, fill_eq_nil, fkSet]

def Uniq (s : St) : Prop := ∀ p ∈ s.links, ∀ q ∈ s.links, p.2 = q.2 → p.1 = q.1

/-- Replace on a slice of owners, class fk: the save loop (before the clean-up statement) -/
theorem slice_save_fk : ∀ (os : List Nat) (vss : List (List Nat)) (s : St),
    os.Nodup → os.length = vss.length → Glob s → Uniq s → ValsOkFk s vss → DisjVals os vss →
    Glob (saveAll ⟨.fk, false⟩ true os vss s) ∧ Uniq (saveAll ⟨.fk, false⟩ true os vss s) ∧
    (∀ x t, (x, t) ∈ (saveAll ⟨.fk, false⟩ true os vss s).links ↔
      ((x, t) ∈ s.links ∧ ∀ o ∈ os, t ∉ idsOf os vss s.next o) ∨ (x ∈ os ∧ t ∈ idsOf os vss s.next x)) ∧
    (∀ o, (saveAll ⟨.fk, false⟩ true os vss s).mem o = if o ∈ os then idsOf os vss s.next o else s.mem o) ∧
    (saveAll ⟨.fk, false⟩ true os vss s).next = s.next + zerosAll vss ∧
    (∀ t ∈ s.targets, t ∈ (saveAll ⟨.fk, false⟩ true os vss s).targets) ∧
    (saveAll ⟨.fk, false⟩ true os vss s).memFk = s.memFk := by
  intro os
  induction os with
  | nil =>
    intro vss s _ hlen hG hU _ _
    have : vss = [] := List.eq_nil_of_length_eq_zero (by simpa using hlen.symm)
    subst this; simp [saveAll, zerosAll, hG, hU]
  | cons o os ih =>
    intro vss s hnd hlen hG hU hok hD
    cases vss with
    | nil => simp at hlen
    | cons vs vss =>
      obtain ⟨hv1, hv3⟩ := hok vs (by simp)
      rw [List.nodup_cons] at hnd
      simp only [saveAll, saveOwner_fk_set hv1]
      have hf := mem_fill hv3
      have hz := zero_not_mem_fill (vs := vs) hG.npos
      have hltall : ∀ vs' ∈ vss, ∀ v ∈ vs', v < s.next + zeros vs :=
        fun vs' hvs' v hv => Nat.lt_of_lt_of_le ((hok vs' (List.mem_cons_of_mem _ hvs')).2 v hv) (Nat.le_add_right _ _)
      have hvo : valsOf (o :: os) (vs :: vss) o = vs := by simp [valsOf]
      have hvx : ∀ x, x ≠ o → valsOf (o :: os) (vs :: vss) x = valsOf os vss x := by
        intro x hx; simp [valsOf, hx]
      obtain ⟨g1, g2, g3, g4, g5⟩ := hG
      have e2 : ∀ x t, (x, t) ∈ (fkSet o vs s).links ↔
          ((x, t) ∈ s.links ∧ t ∉ fill vs s.next) ∨ (x = o ∧ t ∈ fill vs s.next) := by
        clear ih hD hok hltall hvo hvx; intro x t; simp [fkSet]; grind
      have hG1 : Glob (fkSet o vs s) := by
        clear ih hD hok hltall hvo hvx e2; refine ⟨?_, ?_, ?_, ?_, ?_⟩ <;> simp [fkSet] <;> grind
      have hU1 : Uniq (fkSet o vs s) := by
        intro ⟨p1, p2⟩ hp ⟨q1, q2⟩ hq hpq
        rw [e2] at hp hq
        simp at hpq; subst hpq
        rcases hp with ⟨a1, a2⟩ | ⟨a1, a2⟩ <;> rcases hq with ⟨b1, b2⟩ | ⟨b1, b2⟩
        · exact hU _ a1 _ b1 rfl
        · exact absurd b2 a2
        · exact absurd a2 b2
        · simp [a1, b1]
      have hok1 : ValsOkFk (fkSet o vs s) vss := by
        intro vs' hvs'
        obtain ⟨a, b⟩ := hok vs' (List.mem_cons_of_mem _ hvs')
        exact ⟨a, fun v hv => by have := b v hv; simp [fkSet]; omega⟩
      have hD1 : DisjVals os vss := by
        intro A hA B hB hAB t ht h0
        have hAo : A ≠ o := fun e => hnd.1 (e ▸ hA)
        have hBo : B ≠ o := fun e => hnd.1 (e ▸ hB)
        have := hD A (List.mem_cons_of_mem _ hA) B (List.mem_cons_of_mem _ hB) hAB t (by rw [hvx A hAo]; exact ht) h0
        rwa [hvx B hBo] at this
      obtain ⟨i1, iU, i2, i3, i5, i6, i7⟩ := ih vss _ hnd.2 (by simpa using hlen) hG1 hU1 hok1 hD1
      have e1 : (fkSet o vs s).next = s.next + zeros vs := rfl
      have e3 : ∀ x, (fkSet o vs s).mem x = upd s.mem o (fill vs s.next) x := fun _ => rfl
      have e4 : ∀ t ∈ s.targets, t ∈ (fkSet o vs s).targets := by intro t ht; simp [fkSet, ht]
      have e5 : (fkSet o vs s).memFk = s.memFk := rfl
      rw [e1] at i2 i3 i5
      -- the keys of `o` are not among the keys of the later owners
      have hdis : ∀ t, t ∈ fill vs s.next → ∀ x ∈ os, t ∉ idsOf os vss (s.next + zeros vs) x := by
        intro t ht x hx hx'
        have hxo : x ≠ o := fun e => hnd.1 (e ▸ hx)
        rcases mem_idsOf_cases os vss _ x t hltall hx' with ⟨h0, hv⟩ | hge
        · have hlt : t < s.next := valsOf_lt (fun vs' hvs' => (hok vs' (List.mem_cons_of_mem _ hvs')).2) t hv
          rcases (hf t).1 ht with ⟨_, h⟩ | ⟨h, _⟩
          · have := hD o (by simp) x (List.mem_cons_of_mem _ hx) (Ne.symm hxo) t (by rw [hvo]; exact h) h0
            rw [hvx x hxo] at this
            exact this hv
          · omega
        · rcases (hf t).1 ht with ⟨_, h⟩ | ⟨_, h⟩
          · have := hv3 t h; omega
          · omega
      refine ⟨i1, iU, ?_, ?_, by rw [i5, zerosAll_cons]; omega, fun t ht => i6 t (e4 t ht), by rw [i7, e5]⟩
      · intro x t
        rw [i2 x t, e2 x t]
        have hno := hnd.1
        have A2 : idsOf (o :: os) (vs :: vss) s.next o = fill vs s.next := by simp [idsOf]
        have A1 : ∀ a, a ≠ o → idsOf (o :: os) (vs :: vss) s.next a = idsOf os vss (s.next + zeros vs) a := by
          intro a ha; simp [idsOf, ha]
        have A3 : (∀ a ∈ os, t ∉ idsOf (o :: os) (vs :: vss) s.next a) ↔
            (∀ a ∈ os, t ∉ idsOf os vss (s.next + zeros vs) a) := by
          constructor <;> intro h a ha <;> have := h a ha <;>
            have hao : a ≠ o := (fun e => hno (e ▸ ha)) <;> simpa [A1 a hao] using this
        have hd := hdis t
        have A4 : (∀ a ∈ o :: os, t ∉ idsOf (o :: os) (vs :: vss) s.next a) ↔
            (t ∉ fill vs s.next ∧ ∀ a ∈ os, t ∉ idsOf os vss (s.next + zeros vs) a) := by
          rw [List.forall_mem_cons, A2, A3]
        rw [A4]
        simp only [List.mem_cons]
        clear ih i2 i3 hdis hD hok hltall hvo hvx e2 e3 e4 hD1 hok1 hG1 hU1 iU i1 A3 hf
        by_cases e : x = o
        · subst e
          rw [A2]
          generalize (∀ a ∈ os, t ∉ idsOf os vss (s.next + zeros vs) a) = Q at *
          grind
        · rw [A1 x e]
          generalize (∀ a ∈ os, t ∉ idsOf os vss (s.next + zeros vs) a) = Q at *
          grind
      · intro x
        rw [i3 x, e3 x]
        by_cases e : x = o
        · subst e; simp [idsOf, hnd.1]
        · simp [idsOf, e, upd]

/-- Replace with values on a slice of owners, class fk (has-many), scoped, value lists pairwise disjoint -/
theorem slice_replace_fk (os : List Nat) (vss : List (List Nat)) (s : St)
    (hnd : os.Nodup) (hlen : os.length = vss.length) (hne : vss ≠ []) (hG : Glob s) (hU : Uniq s)
    (hok : ValsOkFk s vss) (hD : DisjVals os vss) :
    (∀ o ∈ os, Inv ⟨.fk, false⟩ o (replace ⟨.fk, false⟩ os false vss s)) ∧
    (∀ o t, (o, t) ∈ (replace ⟨.fk, false⟩ os false vss s).links ↔
      if o ∈ os then t ∈ idsOf os vss s.next o
      else ((o, t) ∈ s.links ∧ ∀ a ∈ os, t ∉ idsOf os vss s.next a)) ∧
    (replace ⟨.fk, false⟩ os false vss s).next = s.next + zerosAll vss ∧
    (∀ t ∈ s.targets, t ∈ (replace ⟨.fk, false⟩ os false vss s).targets) := by
  obtain ⟨⟨g1, g2, g3, g4, g5⟩, iU, i2, i3, i5, i6, i7⟩ := slice_save_fk os vss s hnd hlen hG hU hok hD
  have hlen' : vss.length = os.length := hlen.symm
  have hkeep : ∀ t, t ∈ nz (os.flatMap (saveAll ⟨.fk, false⟩ true os vss s).mem) ↔
      t ≠ 0 ∧ ∃ o ∈ os, t ∈ idsOf os vss s.next o := by
    intro t
    rw [mem_nz, List.mem_flatMap]
    constructor
    · rintro ⟨h0, o, ho, h⟩; rw [i3 o] at h; simp [ho] at h; exact ⟨h0, o, ho, h⟩
    · rintro ⟨h0, o, ho, h⟩; refine ⟨h0, o, ho, ?_⟩; rw [i3 o]; simpa [ho] using h
  have hlinks : ∀ o t, (o, t) ∈ (replace ⟨.fk, false⟩ os false vss s).links ↔
      if o ∈ os then t ∈ idsOf os vss s.next o
      else ((o, t) ∈ s.links ∧ ∀ a ∈ os, t ∉ idsOf os vss s.next a) := by
    intro o t
    simp [replace, saveAssociation, hne, hlen', g1, List.mem_filter, stale_eq_false_iff]
    have a1 := i2 o t
    have a2 := hkeep t
    have a5 := g5 (o, t)
    generalize nz (os.flatMap (saveAll ⟨.fk, false⟩ true os vss s).mem) = K at *
    by_cases ho : o ∈ os
    · simp only [ho, if_true]; grind
    · simp only [ho, if_false]; grind
  refine ⟨?_, hlinks, ?_, ?_⟩
  · intro o' ho'
    have hl := hlinks o'
    have hm := i3 o'
    refine ⟨by simp, ?_, ?_, ?_, ?_, ?_, ?_, by simp, by simp, ?_⟩
    all_goals simp [replace, saveAssociation, hne, hlen', g1]
    · exact g2
    · intro t
      have := hl t
      simp [replace, saveAssociation, hne, hlen', g1] at this
      rw [this, hm]
      simp [ho']
    · intro a b hab _; exact g3 _ hab
    · exact g4
    · intro a b hab _; exact g5 _ hab
    · intro a b hab _ a' b' hab' _ e; exact iU _ hab _ hab' e
  · simpa [replace, saveAssociation, hne, hlen', g1] using i5
  · simpa [replace, saveAssociation, hne, hlen', g1] using i6

theorem NoF12e.disj {os vss s} (h : NoF12e os vss s) : DisjVals os vss :=
  fun A hA B hB hAB t ht h0 => (h A hA B hB hAB t ht h0).2

theorem Inv.uniqFk {c1 o s} (h : Inv ⟨.fk, c1⟩ o s) : Uniq s := h.uniq rfl

end Gorm.Assoc
