/-
  C13 (round 3) — theorems about the association-save traversal model `GormModel/Model/HookVisit.lean`.

    1. loadOrStore / checkSaved characterisation
    2. visit_terminates      fuel `size + 1` never runs out
    3. visit_at_most_once    a clean run fires the before-hooks of every record at most once
    4. visit_balanced        after-hooks fire exactly as often as before-hooks
    5. visit_complete        every record reachable through association fields is saved
    6. visit_sound           every saved record is reachable (needs nbefore ≤ nslots)
    +  concrete counterexamples (mixed batch, back-pointer, duplicate) and a positive diamond

  Core Lean only.
-/
import GormModel.Model.HookVisit

namespace Gorm

/-! ## concrete graphs -/

/-- diamond: 0 -m2m-> {1,2}, 1 -m2m-> {2} -/
def visitG1 : VGraph :=
  { size := 3, nbefore := 1, nslots := 3, adj := [[[],[],[1,2]], [[],[],[2]], []], dedupe := [true,true,true] }
/-- mixed batch: 0 -m2m-> {1,2}, 1 -m2m-> {2,3}: {2,3} mixes a registered with an unregistered record -/
def visitG2 : VGraph :=
  { size := 4, nbefore := 1, nslots := 3, adj := [[[],[],[1,2]], [[],[],[2,3]], [], []], dedupe := [true,true,true] }
/-- back-pointer: 0 -has many-> {1}, 1 -belongs to-> 0 -/
def visitG3 : VGraph :=
  { size := 2, nbefore := 1, nslots := 3, adj := [[[],[1],[]], [[0],[],[]]], dedupe := [true,true,true] }
/-- duplicate: 0 -m2m-> {1,1} -/
def visitG4 : VGraph :=
  { size := 2, nbefore := 1, nslots := 3, adj := [[[],[],[1,1]], []], dedupe := [true,true,true] }

theorem visit_diamond_example :
    (visitG1.run [0] []).clean = true ∧ saveCount 2 (visitG1.run [0] []).log = 1 := by decide

theorem visit_mixed_counterexample :
    saveCount 2 (visitG2.run [0] []).log = 2 ∧ (visitG2.run [0] []).clean = false := by decide

theorem visit_backpointer_counterexample :
    saveCount 0 (visitG3.run [0] []).log = 2 ∧ (visitG3.run [0] []).clean = false := by decide

theorem visit_duplicate_counterexample :
    saveCount 1 (visitG4.run [0] []).log = 2 ∧ (visitG4.run [0] []).clean = false := by decide

/-! ## 1. loadOrStore / checkSaved -/

theorem loadOrStore_loaded (V es : List Nat) :
    (loadOrStore V es).1 = es.all (fun e => V.contains e) := by
  induction es generalizing V with
  | nil => simp [loadOrStore]
  | cons e rest ih =>
    simp only [loadOrStore, List.all_cons]
    rw [ih]
    cases h : V.contains e <;> simp

theorem loadOrStore_mem (V es : List Nat) (x : Nat) :
    x ∈ (loadOrStore V es).2 ↔ x ∈ es ∨ x ∈ V := by
  induction es generalizing V with
  | nil => simp [loadOrStore]
  | cons e rest ih =>
    simp only [loadOrStore]
    rw [ih]
    cases h : V.contains e
    · simp only [Bool.false_eq_true, if_false, List.mem_cons]
      constructor
      · rintro (h1 | h1 | h1) <;> simp [h1]
      · rintro ((h1 | h1) | h1) <;> simp [h1]
    · simp only [if_true, List.mem_cons]
      have he : e ∈ V := by simpa using h
      constructor
      · rintro (h1 | h1) <;> simp [h1]
      · rintro ((h1 | h1) | h1)
        · subst h1; exact Or.inr he
        · exact Or.inl h1
        · exact Or.inr h1

theorem checkSaved_loaded (es : List Nat) (v : Option (List Nat)) (hne : es ≠ []) :
    (checkSaved es v).1 = es.all (fun e => (v.getD []).contains e) := by
  cases v with
  | some V => simp [checkSaved, loadOrStore_loaded]
  | none =>
    cases es with
    | nil => exact absurd rfl hne
    | cons e rest => simp [checkSaved]

theorem checkSaved_mem (es : List Nat) (v : Option (List Nat)) (x : Nat) :
    x ∈ (checkSaved es v).2.getD [] ↔ x ∈ es ∨ x ∈ v.getD [] := by
  cases v with
  | some V => simp [checkSaved, loadOrStore_mem]
  | none => simp [checkSaved, loadOrStore_mem]

theorem checkSaved_isSome (es : List Nat) (v : Option (List Nat)) :
    (checkSaved es v).2.isSome = true := by
  cases v <;> simp [checkSaved]

/-! ## generic helpers -/

theorem vfoldl_inv {α β : Type} (P : β → Prop) (f : β → α → β) (l : List α)
    (h : ∀ b a, a ∈ l → P b → P (f b a)) (b : β) (hb : P b) : P (l.foldl f b) := by
  induction l generalizing b with
  | nil => exact hb
  | cons a l ih =>
    simp only [List.foldl_cons]
    exact ih (fun b a' ha' => h b a' (List.mem_cons_of_mem _ ha')) _ (h b a (List.mem_cons_self) hb)

theorem vfoldl_rel {α β : Type} (R : β → β → Prop) (refl : ∀ b, R b b)
    (trans : ∀ a b c, R a b → R b c → R a c) (f : β → α → β) (l : List α)
    (h : ∀ b a, R b (f b a)) (b : β) : R b (l.foldl f b) := by
  induction l generalizing b with
  | nil => exact refl b
  | cons a l ih =>
    simp only [List.foldl_cons]
    exact trans _ _ _ (h b a) (ih _)

theorem vfoldl_back {α β : Type} (Q : β → Prop) (f : β → α → β) (l : List α)
    (h : ∀ b a, Q (f b a) → Q b) (b : β) : Q (l.foldl f b) → Q b := by
  induction l generalizing b with
  | nil => exact id
  | cons a l ih =>
    simp only [List.foldl_cons]
    exact fun hq => h b a (ih _ hq)

/-! ## the pipeline, unfolded once -/

/-- one relation slot of the pipeline run over `batch` -/
def slotStep (g : VGraph) (roots : List Nat) (fuel : Nat) (batch : List Nat) : VSt → Nat → VSt :=
  fun st s => saveAssoc roots (saveBatch g roots fuel) (g.group batch s st.keyed) st

theorem saveBatch_zero (g : VGraph) (roots batch : List Nat) (st : VSt) :
    saveBatch g roots 0 batch st = { st with ok := false } := rfl

theorem saveBatch_succ (g : VGraph) (roots : List Nat) (fuel : Nat) (batch : List Nat) (st : VSt) :
    saveBatch g roots (fuel+1) batch st =
      let st2 := (List.range g.nbefore).foldl (slotStep g roots fuel batch)
        { st with log := st.log ++ batch.map VEv.before }
      let st4 := ((List.range (g.nslots - g.nbefore)).map (· + g.nbefore)).foldl (slotStep g roots fuel batch)
        { st2 with log := st2.log ++ [VEv.stmt batch], keyed := batch ++ st2.keyed }
      { st4 with log := st4.log ++ batch.map VEv.after } := rfl

/-- a state predicate kept by every step of the pipeline up to the after-hooks holds before the after-hooks -/
theorem saveBatch_succ_inv2 (P Q : VSt → Prop) (g : VGraph) (roots : List Nat) (fuel : Nat) (batch : List Nat)
    (st : VSt)
    (hbefore : P { st with log := st.log ++ batch.map VEv.before })
    (hstep : ∀ st' s, (s < g.nbefore ∨ s < g.nslots) → P st' → P (slotStep g roots fuel batch st' s))
    (hstmt : ∀ st' : VSt, P st' → P { st' with log := st'.log ++ [VEv.stmt batch], keyed := batch ++ st'.keyed })
    (hafter : ∀ st' : VSt, P st' → Q { st' with log := st'.log ++ batch.map VEv.after }) :
    Q (saveBatch g roots (fuel+1) batch st) := by
  rw [saveBatch_succ]
  refine hafter _ (vfoldl_inv P _ _ (fun b a ha => hstep b a ?_) _
    (hstmt _ (vfoldl_inv P _ _ (fun b a ha => hstep b a ?_) _ hbefore)))
  · obtain ⟨i, hi, rfl⟩ := List.mem_map.1 ha
    have := List.mem_range.1 hi
    right; omega
  · exact Or.inl (List.mem_range.1 ha)

/-- a state predicate kept by every step of the pipeline is kept by the pipeline -/
theorem saveBatch_succ_inv (P : VSt → Prop) (g : VGraph) (roots : List Nat) (fuel : Nat) (batch : List Nat)
    (st : VSt)
    (hbefore : P { st with log := st.log ++ batch.map VEv.before })
    (hstep : ∀ st' s, (s < g.nbefore ∨ s < g.nslots) → P st' → P (slotStep g roots fuel batch st' s))
    (hstmt : ∀ st' : VSt, P st' → P { st' with log := st'.log ++ [VEv.stmt batch], keyed := batch ++ st'.keyed })
    (hafter : ∀ st' : VSt, P st' → P { st' with log := st'.log ++ batch.map VEv.after }) :
    P (saveBatch g roots (fuel+1) batch st) :=
  saveBatch_succ_inv2 P P g roots fuel batch st hbefore hstep hstmt hafter

/-- the three ways `saveAssoc` can go -/
theorem saveAssoc_cases (roots : List Nat) (rec : List Nat → VSt → VSt) (elems : List Nat) (st : VSt)
    (C : VSt → Prop)
    (h0 : elems = [] → C st)
    (h1 : ∀ v' : Option (List Nat), (∀ x, x ∈ v'.getD [] ↔ x ∈ elems ∨ x ∈ st.visited.getD []) →
      (∀ e, e ∈ elems → e ∈ st.visited.getD []) → C { st with visited := v' })
    (h2 : ∀ v' : Option (List Nat), (∀ x, x ∈ v'.getD [] ↔ x ∈ elems ∨ x ∈ st.visited.getD []) →
      (∃ e, e ∈ elems ∧ e ∉ st.visited.getD []) →
      C (rec elems { st with visited := v', clean := st.clean &&
        (elems.all (fun e => !(st.visited.getD []).contains e && !roots.contains e) && nodupB elems) })) :
    C (saveAssoc roots rec elems st) := by
  unfold saveAssoc
  split
  · rename_i he
    exact h0 (by simpa using he)
  · rename_i he
    have hne : elems ≠ [] := by simpa using he
    have hl := checkSaved_loaded elems st.visited hne
    have hm := checkSaved_mem elems st.visited
    simp only []
    split
    · rename_i hr
      apply h1 _ hm
      rw [hl, List.all_eq_true] at hr
      intro e he'
      simpa using hr e he'
    · rename_i hr
      apply h2 _ hm
      have hr' : (checkSaved elems st.visited).1 = false := by simpa using hr
      rw [hl, List.all_eq_false] at hr'
      obtain ⟨e, he1, he2⟩ := hr'
      exact ⟨e, he1, by simpa using he2⟩

/-! ## groups -/

theorem dedupeKeyed_sub (k : List Nat) (l seen : List Nat) (x : Nat) :
    x ∈ dedupeKeyed k l seen → x ∈ l := by
  induction l generalizing seen with
  | nil => simp [dedupeKeyed]
  | cons e rest ih =>
    simp only [dedupeKeyed]
    split
    · intro h; exact List.mem_cons_of_mem _ (ih _ h)
    · intro h
      rcases List.mem_cons.1 h with h | h
      · simp [h]
      · exact List.mem_cons_of_mem _ (ih _ h)

theorem dedupeKeyed_sup (k : List Nat) (l seen : List Nat) (x : Nat) :
    x ∈ l → x ∈ dedupeKeyed k l seen ∨ x ∈ seen := by
  induction l generalizing seen with
  | nil => simp
  | cons e rest ih =>
    intro hx
    simp only [dedupeKeyed]
    split
    · rename_i hc
      rcases List.mem_cons.1 hx with h | h
      · subst h
        right
        simp only [Bool.and_eq_true, List.contains_iff_mem] at hc
        exact hc.2
      · exact ih _ h
    · rcases List.mem_cons.1 hx with h | h
      · left; simp [h]
      · rcases ih (e :: seen) h with h' | h'
        · left; exact List.mem_cons_of_mem _ h'
        · rcases List.mem_cons.1 h' with h'' | h''
          · left; simp [h'']
          · right; exact h''

theorem group_mem (g : VGraph) (batch : List Nat) (s : Nat) (keyed : List Nat) (x : Nat) :
    x ∈ g.group batch s keyed ↔ ∃ m, m ∈ batch ∧ x ∈ g.targets m s := by
  unfold VGraph.group
  simp only []
  split
  · constructor
    · intro h; exact List.mem_flatMap.1 (dedupeKeyed_sub _ _ _ _ h)
    · intro h
      rcases dedupeKeyed_sup keyed _ [] x (List.mem_flatMap.2 h) with h' | h'
      · exact h'
      · simp at h'
  · exact List.mem_flatMap

theorem targets_lt (g : VGraph) (m s x : Nat) : x ∈ g.targets m s → x < g.size := by
  unfold VGraph.targets
  intro h
  simpa using (List.mem_filter.1 h).2

/-! ## 2. termination -/

/-- the number of records not yet registered in the visit map -/
def unv (g : VGraph) (V : List Nat) : Nat := (List.range g.size).countP (fun i => !V.contains i)

theorem unv_le_size (g : VGraph) (V : List Nat) : unv g V ≤ g.size := by
  unfold unv
  have := List.countP_le_length (p := fun i => !V.contains i) (l := List.range g.size)
  simpa using this

theorem countP_lt_of {p q : Nat → Bool} (l : List Nat) (h : ∀ x, x ∈ l → p x = true → q x = true)
    (e : Nat) (he : e ∈ l) (hq : q e = true) (hp : p e = false) : l.countP p < l.countP q := by
  induction l with
  | nil => simp at he
  | cons a l ih =>
    simp only [List.countP_cons]
    have hmono : l.countP p ≤ l.countP q :=
      List.countP_mono_left (fun x hx => h x (List.mem_cons_of_mem _ hx))
    rcases List.mem_cons.1 he with h' | h'
    · subst h'
      simp [hq, hp]
      omega
    · have := ih (fun x hx => h x (List.mem_cons_of_mem _ hx)) h'
      have ha := h a List.mem_cons_self
      by_cases hpa : p a = true
      · simp [hpa, ha hpa]; omega
      · simp [hpa]; omega

theorem unv_mono (g : VGraph) (V V' : List Nat) (h : ∀ x, x ∈ V → x ∈ V') : unv g V' ≤ unv g V := by
  unfold unv
  apply List.countP_mono_left
  intro x _ hx
  simp only [Bool.not_eq_true', List.contains_eq_mem, decide_eq_false_iff_not] at hx ⊢
  exact fun hv => hx (h x hv)

theorem unv_lt (g : VGraph) (V V' : List Nat) (h : ∀ x, x ∈ V → x ∈ V') (e : Nat) (he : e < g.size)
    (h1 : e ∉ V) (h2 : e ∈ V') : unv g V' < unv g V := by
  unfold unv
  apply countP_lt_of _ _ e (List.mem_range.2 he)
  · simp [h1]
  · simp [h2]
  · intro x _ hx
    simp only [Bool.not_eq_true', List.contains_eq_mem, decide_eq_false_iff_not] at hx ⊢
    exact fun hv => hx (h x hv)

theorem saveBatch_ok (g : VGraph) (roots : List Nat) : ∀ (fuel : Nat) (batch : List Nat) (st : VSt),
    st.ok = true → unv g (st.visited.getD []) < fuel →
    (saveBatch g roots fuel batch st).ok = true ∧
      ∀ x, x ∈ st.visited.getD [] → x ∈ (saveBatch g roots fuel batch st).visited.getD [] := by
  intro fuel
  induction fuel with
  | zero => intro _ _ _ h; exact absurd h (Nat.not_lt_zero _)
  | succ fuel ih =>
    intro batch st hok hm
    apply saveBatch_succ_inv
      (fun st' => st'.ok = true ∧ ∀ x, x ∈ st.visited.getD [] → x ∈ st'.visited.getD [])
    · exact ⟨hok, fun x hx => hx⟩
    · intro st' s _ hP
      obtain ⟨hok', hsub⟩ := hP
      have hm' : unv g (st'.visited.getD []) ≤ fuel := by
        have := unv_mono g _ _ hsub; omega
      unfold slotStep
      refine saveAssoc_cases _ _ _ _
        (fun r => r.ok = true ∧ ∀ x, x ∈ st.visited.getD [] → x ∈ r.visited.getD []) ?_ ?_ ?_
      · intro _; exact ⟨hok', hsub⟩
      · intro v' hv' _
        exact ⟨hok', fun x hx => (hv' x).2 (Or.inr (hsub x hx))⟩
      · intro v' hv' ⟨e, he1, he2⟩
        have hlt : e < g.size := by
          obtain ⟨m, _, hm⟩ := (group_mem g batch s st'.keyed e).1 he1
          exact targets_lt g m s e hm
        have hdrop : unv g (v'.getD []) < unv g (st'.visited.getD []) :=
          unv_lt g _ _ (fun x hx => (hv' x).2 (Or.inr hx)) e hlt he2 ((hv' e).2 (Or.inl he1))
        have := ih (g.group batch s st'.keyed)
          { st' with visited := v', clean := st'.clean &&
            ((g.group batch s st'.keyed).all (fun e => !(st'.visited.getD []).contains e && !roots.contains e)
              && nodupB (g.group batch s st'.keyed)) } hok' (by simp only []; omega)
        exact ⟨this.1, fun x hx => this.2 x ((hv' x).2 (Or.inr (hsub x hx)))⟩
    · exact fun _ h => h
    · exact fun _ h => h

theorem visit_terminates (g : VGraph) (roots existing : List Nat) : (g.run roots existing).ok = true := by
  unfold VGraph.run
  exact (saveBatch_ok g roots (g.size + 1) roots { keyed := existing } rfl
    (Nat.lt_succ_of_le (unv_le_size g _))).1

/-! ## counting events -/

theorem saveCount_append (n : Nat) (l1 l2 : List VEv) :
    saveCount n (l1 ++ l2) = saveCount n l1 + saveCount n l2 := List.count_append

theorem afterCount_append (n : Nat) (l1 l2 : List VEv) :
    afterCount n (l1 ++ l2) = afterCount n l1 + afterCount n l2 := List.count_append

theorem saveCount_before (n : Nat) (batch : List Nat) :
    saveCount n (batch.map VEv.before) = batch.count n := by
  unfold saveCount
  induction batch with
  | nil => rfl
  | cons e rest ih => simp [List.count_cons, ih]

theorem saveCount_after (n : Nat) (batch : List Nat) : saveCount n (batch.map VEv.after) = 0 := by
  unfold saveCount
  induction batch with
  | nil => rfl
  | cons e rest ih => simp [ih]

theorem saveCount_stmt (n : Nat) (b : List Nat) : saveCount n [VEv.stmt b] = 0 := by
  simp [saveCount]

theorem afterCount_after (n : Nat) (batch : List Nat) :
    afterCount n (batch.map VEv.after) = batch.count n := by
  unfold afterCount
  induction batch with
  | nil => rfl
  | cons e rest ih => simp [List.count_cons, ih]

theorem afterCount_before (n : Nat) (batch : List Nat) : afterCount n (batch.map VEv.before) = 0 := by
  unfold afterCount
  induction batch with
  | nil => rfl
  | cons e rest ih => simp [ih]

theorem afterCount_stmt (n : Nat) (b : List Nat) : afterCount n [VEv.stmt b] = 0 := by
  simp [afterCount]

/-! ## 4. balance -/

theorem saveBatch_balanced (g : VGraph) (roots : List Nat) (n : Nat) : ∀ (fuel : Nat) (batch : List Nat) (st : VSt),
    afterCount n (saveBatch g roots fuel batch st).log + saveCount n st.log =
      saveCount n (saveBatch g roots fuel batch st).log + afterCount n st.log := by
  intro fuel
  induction fuel with
  | zero => intro batch st; simp only [saveBatch_zero]; omega
  | succ fuel ih =>
    intro batch st
    refine saveBatch_succ_inv2
      (fun st' => afterCount n st'.log + saveCount n st.log + batch.count n =
        saveCount n st'.log + afterCount n st.log)
      (fun r => afterCount n r.log + saveCount n st.log = saveCount n r.log + afterCount n st.log)
      g roots fuel batch st ?_ ?_ ?_ ?_
    · simp only [saveCount_append, afterCount_append, saveCount_before, afterCount_before]; omega
    · intro st' s _ hP
      unfold slotStep
      refine saveAssoc_cases _ _ _ _
        (fun r => afterCount n r.log + saveCount n st.log + batch.count n =
          saveCount n r.log + afterCount n st.log) ?_ ?_ ?_
      · intro _; exact hP
      · intro _ _ _; exact hP
      · intro v' _ _
        have := ih (g.group batch s st'.keyed)
          { st' with visited := v', clean := st'.clean &&
            ((g.group batch s st'.keyed).all (fun e => !(st'.visited.getD []).contains e && !roots.contains e)
              && nodupB (g.group batch s st'.keyed)) }
        simp only [] at this ⊢
        omega
    · intro st' hP
      simp only [saveCount_append, afterCount_append, saveCount_stmt, afterCount_stmt]; omega
    · intro st' hP
      simp only [saveCount_append, afterCount_append, saveCount_after, afterCount_after]; omega

theorem visit_balanced (g : VGraph) (roots existing : List Nat) (n : Nat) :
    afterCount n (g.run roots existing).log = saveCount n (g.run roots existing).log := by
  have := saveBatch_balanced g roots n (g.size + 1) roots { keyed := existing }
  unfold VGraph.run
  simpa [saveCount, afterCount] using this

/-! ## monotonicity: flags only fall, the visit map and the log only grow -/

def VMono (a b : VSt) : Prop :=
  (b.ok = true → a.ok = true) ∧ (b.clean = true → a.clean = true) ∧
  (∀ x, x ∈ a.visited.getD [] → x ∈ b.visited.getD []) ∧ (∀ n, saveCount n a.log ≤ saveCount n b.log)

theorem VMono.refl (a : VSt) : VMono a a := ⟨id, id, fun _ h => h, fun _ => Nat.le_refl _⟩

theorem VMono.trans {a b c : VSt} (h1 : VMono a b) (h2 : VMono b c) : VMono a c :=
  ⟨fun h => h1.1 (h2.1 h), fun h => h1.2.1 (h2.2.1 h), fun x h => h2.2.2.1 x (h1.2.2.1 x h),
    fun n => Nat.le_trans (h1.2.2.2 n) (h2.2.2.2 n)⟩

theorem VMono.log (a : VSt) (l : List VEv) (k : List Nat) :
    VMono a { a with log := a.log ++ l, keyed := k } :=
  ⟨id, id, fun _ h => h, fun n => by simp only [saveCount_append]; omega⟩

theorem saveAssoc_mono (roots : List Nat) (rec : List Nat → VSt → VSt)
    (hrec : ∀ b st, VMono st (rec b st)) (elems : List Nat) (st : VSt) :
    VMono st (saveAssoc roots rec elems st) := by
  refine saveAssoc_cases _ _ _ _ (fun r => VMono st r) ?_ ?_ ?_
  · intro _; exact VMono.refl st
  · intro v' hv' _
    exact ⟨id, id, fun x hx => (hv' x).2 (Or.inr hx), fun _ => Nat.le_refl _⟩
  · intro v' hv' _
    refine VMono.trans ?_ (hrec _ _)
    refine ⟨id, ?_, fun x hx => (hv' x).2 (Or.inr hx), fun _ => Nat.le_refl _⟩
    intro h
    simp only [Bool.and_eq_true] at h
    exact h.1

theorem saveBatch_mono (g : VGraph) (roots : List Nat) : ∀ (fuel : Nat) (batch : List Nat) (st : VSt),
    VMono st (saveBatch g roots fuel batch st) := by
  intro fuel
  induction fuel with
  | zero =>
    intro batch st
    rw [saveBatch_zero]
    exact ⟨fun h => by simp at h, id, fun _ h => h, fun _ => Nat.le_refl _⟩
  | succ fuel ih =>
    intro batch st
    refine saveBatch_succ_inv (fun st' => VMono st st') g roots fuel batch st ?_ ?_ ?_ ?_
    · exact VMono.log st _ _
    · intro st' s _ hP
      exact VMono.trans hP (saveAssoc_mono roots _ (fun b st => ih b st) _ _)
    · intro st' hP
      exact VMono.trans hP (VMono.log st' _ _)
    · intro st' hP
      exact VMono.trans hP (VMono.log st' _ _)

theorem slotStep_mono (g : VGraph) (roots : List Nat) (fuel : Nat) (batch : List Nat) (st : VSt) (s : Nat) :
    VMono st (slotStep g roots fuel batch st s) :=
  saveAssoc_mono roots _ (fun b st => saveBatch_mono g roots fuel b st) _ _

/-! ## 3. at most once -/

theorem nodupB_count (l : List Nat) (h : nodupB l = true) (n : Nat) : l.count n ≤ 1 := by
  induction l with
  | nil => simp
  | cons e rest ih =>
    simp only [nodupB, Bool.and_eq_true, Bool.not_eq_true', List.contains_eq_mem,
      decide_eq_false_iff_not] at h
    rw [List.count_cons]
    have := ih h.2
    by_cases hen : e = n
    · subst hen
      have : rest.count e = 0 := List.count_eq_zero.2 h.1
      simp [this]
    · simp [hen]; exact this

/-- every record whose before-hooks fired did so once, and is registered in the visit map or a root -/
def VOnce (roots : List Nat) (st : VSt) : Prop :=
  (∀ n, saveCount n st.log ≤ 1) ∧ (∀ n, 1 ≤ saveCount n st.log → n ∈ st.visited.getD [] ∨ n ∈ roots)

theorem saveBatch_once (g : VGraph) (roots : List Nat) : ∀ (fuel : Nat) (batch : List Nat) (st : VSt),
    (∀ n, batch.count n ≤ 1) →
    (∀ n, n ∈ batch → saveCount n st.log = 0 ∧ (n ∈ st.visited.getD [] ∨ n ∈ roots)) →
    VOnce roots st → (saveBatch g roots fuel batch st).clean = true →
    VOnce roots (saveBatch g roots fuel batch st) := by
  intro fuel
  induction fuel with
  | zero => intro batch st _ _ h _; exact h
  | succ fuel ih =>
    intro batch st hnd hpre hinv
    refine saveBatch_succ_inv (fun st' => st'.clean = true → VOnce roots st') g roots fuel batch st ?_ ?_ ?_ ?_
    · intro _
      constructor
      · intro n
        simp only [saveCount_append, saveCount_before]
        by_cases hn : n ∈ batch
        · have := (hpre n hn).1; have := hnd n; omega
        · have : batch.count n = 0 := List.count_eq_zero.2 hn
          have := hinv.1 n; omega
      · intro n
        simp only [saveCount_append, saveCount_before]
        intro h
        by_cases hn : n ∈ batch
        · exact (hpre n hn).2
        · have : batch.count n = 0 := List.count_eq_zero.2 hn
          exact hinv.2 n (by omega)
    · intro st' s _ hP
      unfold slotStep
      intro hclean
      have hmono := slotStep_mono g roots fuel batch st' s
      unfold slotStep at hmono
      have hI := hP (hmono.2.1 hclean)
      revert hclean
      refine saveAssoc_cases _ _ _ _ (fun r => r.clean = true → VOnce roots r) ?_ ?_ ?_
      · intro _ _; exact hI
      · intro v' hv' _ _
        exact ⟨hI.1, fun n hn => (hI.2 n hn).elim (fun h => Or.inl ((hv' n).2 (Or.inr h))) Or.inr⟩
      · intro v' hv' _ hres
        have hc := (saveBatch_mono g roots fuel _ _).2.1 hres
        simp only [Bool.and_eq_true, List.all_eq_true, Bool.not_eq_true', List.contains_eq_mem,
          decide_eq_false_iff_not] at hc
        obtain ⟨_, hall, hnodup⟩ := hc
        refine ih _ _ (nodupB_count _ hnodup) ?_ ?_ hres
        · intro n hn
          refine ⟨?_, Or.inl ((hv' n).2 (Or.inl hn))⟩
          have h1 := hI.2 n
          have h2 := hall n hn
          cases hc : saveCount n st'.log with
          | zero => rfl
          | succ k =>
            exact absurd (h1 (by omega)) (by simp only [not_or]; exact h2)
        · exact ⟨hI.1, fun n hn => (hI.2 n hn).elim (fun h => Or.inl ((hv' n).2 (Or.inr h))) Or.inr⟩
    · intro st' hP hclean
      have := hP hclean
      refine ⟨fun n => ?_, fun n => ?_⟩
      · simp only [saveCount_append, saveCount_stmt]; exact this.1 n
      · simp only [saveCount_append, saveCount_stmt]; exact this.2 n
    · intro st' hP hclean
      have := hP hclean
      refine ⟨fun n => ?_, fun n => ?_⟩
      · simp only [saveCount_append, saveCount_after]; exact this.1 n
      · simp only [saveCount_append, saveCount_after]; exact this.2 n

theorem visit_at_most_once (g : VGraph) (roots existing : List Nat) :
    roots.Nodup → (g.run roots existing).clean = true → ∀ n, saveCount n (g.run roots existing).log ≤ 1 := by
  intro hnd hclean
  unfold VGraph.run at hclean ⊢
  refine (saveBatch_once g roots (g.size + 1) roots { keyed := existing } (List.nodup_iff_count.1 hnd)
    ?_ ?_ hclean).1
  · intro n hn; exact ⟨by simp [saveCount], Or.inr hn⟩
  · exact ⟨fun n => by simp [saveCount], fun n h => by simp [saveCount] at h⟩

/-! ## 5. completeness -/

theorem vfoldl_hit {α β : Type} (R : β → β → Prop) (refl : ∀ b, R b b)
    (trans : ∀ a b c, R a b → R b c → R a c) (f : β → α → β) (hR : ∀ b a, R b (f b a))
    (A : β → Prop) (hA : ∀ a b, A a → R a b → A b) (s : α) (hit : ∀ b, A (f b s))
    (l : List α) (hs : s ∈ l) (b : β) : A (l.foldl f b) := by
  induction l generalizing b with
  | nil => simp at hs
  | cons a l ih =>
    simp only [List.foldl_cons]
    rcases List.mem_cons.1 hs with h | h
    · subst h
      exact hA _ _ (hit b) (vfoldl_rel R refl trans f l hR _)
    · exact ih h _

theorem saveAssoc_registers (roots : List Nat) (rec : List Nat → VSt → VSt)
    (hrec : ∀ b st, VMono st (rec b st)) (elems : List Nat) (st : VSt) (t : Nat) (ht : t ∈ elems) :
    t ∈ (saveAssoc roots rec elems st).visited.getD [] := by
  refine saveAssoc_cases _ _ _ _ (fun r => t ∈ r.visited.getD []) ?_ ?_ ?_
  · intro h; subst h; simp at ht
  · intro v' hv' _; exact (hv' t).2 (Or.inl ht)
  · intro v' hv' _; exact (hrec _ _).2.2.1 t ((hv' t).2 (Or.inl ht))

theorem slotStep_registers (g : VGraph) (roots : List Nat) (fuel : Nat) (batch : List Nat) (st : VSt)
    (s m t : Nat) (hm : m ∈ batch) (ht : t ∈ g.targets m s) :
    t ∈ (slotStep g roots fuel batch st s).visited.getD [] :=
  saveAssoc_registers roots _ (fun b st => saveBatch_mono g roots fuel b st) _ _ t
    ((group_mem g batch s st.keyed t).2 ⟨m, hm, ht⟩)

theorem slotLoop_mono (g : VGraph) (roots : List Nat) (fuel : Nat) (batch : List Nat) (l : List Nat) (st : VSt) :
    VMono st (l.foldl (slotStep g roots fuel batch) st) :=
  vfoldl_rel VMono VMono.refl (fun _ _ _ h1 h2 => VMono.trans h1 h2) _ l
    (fun b a => slotStep_mono g roots fuel batch b a) st

theorem slotLoop_registers (g : VGraph) (roots : List Nat) (fuel : Nat) (batch : List Nat) (l : List Nat)
    (st : VSt) (s m t : Nat) (hs : s ∈ l) (hm : m ∈ batch) (ht : t ∈ g.targets m s) :
    t ∈ (l.foldl (slotStep g roots fuel batch) st).visited.getD [] :=
  vfoldl_hit VMono VMono.refl (fun _ _ _ h1 h2 => VMono.trans h1 h2) _
    (fun b a => slotStep_mono g roots fuel batch b a)
    (fun b => t ∈ b.visited.getD []) (fun _ _ ha hab => hab.2.2.1 t ha) s
    (fun b => slotStep_registers g roots fuel batch b s m t hm ht) l hs st

/-- after the pipeline ran over `batch`, every record held by a relation of a member of `batch` is registered -/
theorem saveBatch_succ_closure (g : VGraph) (roots : List Nat) (fuel : Nat) (batch : List Nat) (st : VSt)
    (m s t : Nat) (hm : m ∈ batch) (hs : s < g.nslots) (ht : t ∈ g.targets m s) :
    t ∈ (saveBatch g roots (fuel+1) batch st).visited.getD [] := by
  rw [saveBatch_succ]
  simp only []
  by_cases hsb : s < g.nbefore
  · apply (slotLoop_mono g roots fuel batch _ _).2.2.1
    exact slotLoop_registers g roots fuel batch _ _ s m t (List.mem_range.2 hsb) hm ht
  · apply slotLoop_registers g roots fuel batch _ _ s m t _ hm ht
    exact List.mem_map.2 ⟨s - g.nbefore, List.mem_range.2 (by omega), by omega⟩

/-- record `x` was saved and everything its relations hold is registered -/
def VDone (g : VGraph) (r : VSt) (x : Nat) : Prop :=
  1 ≤ saveCount x r.log ∧ ∀ s, s < g.nslots → ∀ t, t ∈ g.targets x s → t ∈ r.visited.getD []

theorem VDone.mono {g : VGraph} {a b : VSt} {x : Nat} (h : VMono a b) : VDone g a x → VDone g b x :=
  fun hd => ⟨Nat.le_trans hd.1 (h.2.2.2 x), fun s hs t ht => h.2.2.1 t (hd.2 s hs t ht)⟩

theorem saveBatch_complete (g : VGraph) (roots : List Nat) : ∀ (fuel : Nat) (batch : List Nat) (st : VSt),
    (saveBatch g roots fuel batch st).ok = true →
    (∀ m, m ∈ batch → VDone g (saveBatch g roots fuel batch st) m) ∧
    (∀ x, x ∈ (saveBatch g roots fuel batch st).visited.getD [] → x ∉ st.visited.getD [] →
      VDone g (saveBatch g roots fuel batch st) x) := by
  intro fuel
  induction fuel with
  | zero => intro batch st h; simp [saveBatch_zero] at h
  | succ fuel ih =>
    intro batch st hok
    have hmove : ∀ a b : VSt, VMono a b → (∀ x, x ∈ b.visited.getD [] → x ∈ a.visited.getD []) →
        ((∀ m, m ∈ batch → 1 ≤ saveCount m a.log) ∧
          (∀ x, x ∈ a.visited.getD [] → x ∉ st.visited.getD [] → VDone g a x)) →
        ((∀ m, m ∈ batch → 1 ≤ saveCount m b.log) ∧
          (∀ x, x ∈ b.visited.getD [] → x ∉ st.visited.getD [] → VDone g b x)) := by
      intro a b hab hV hbody
      exact ⟨fun m hm => Nat.le_trans (hbody.1 m hm) (hab.2.2.2 m),
        fun x hx hx' => VDone.mono hab (hbody.2 x (hV x hx) hx')⟩
    have main := saveBatch_succ_inv
      (fun st' => st'.ok = true → (∀ m, m ∈ batch → 1 ≤ saveCount m st'.log) ∧
        (∀ x, x ∈ st'.visited.getD [] → x ∉ st.visited.getD [] → VDone g st' x))
      g roots fuel batch st ?_ ?_ ?_ ?_ hok
    · refine ⟨fun m hm => ⟨main.1 m hm, fun s hs t ht => ?_⟩, main.2⟩
      exact saveBatch_succ_closure g roots fuel batch st m s t hm hs ht
    · intro _
      refine ⟨fun m hm => ?_, fun x hx hx' => absurd hx hx'⟩
      simp only [saveCount_append, saveCount_before]
      have : 1 ≤ batch.count m := List.one_le_count_iff.2 hm
      omega
    · intro st' s _ hP
      have hmono := slotStep_mono g roots fuel batch st' s
      unfold slotStep at hmono ⊢
      intro hok'
      have hP' := hP (hmono.1 hok')
      revert hok'
      refine saveAssoc_cases _ _ _ _
        (fun r => r.ok = true → (∀ m, m ∈ batch → 1 ≤ saveCount m r.log) ∧
          (∀ x, x ∈ r.visited.getD [] → x ∉ st.visited.getD [] → VDone g r x)) ?_ ?_ ?_
      · intro _ _; exact hP'
      · intro v' hv' hall _
        refine hmove st' _ ⟨id, id, fun x hx => (hv' x).2 (Or.inr hx), fun _ => Nat.le_refl _⟩ ?_ hP'
        intro x hx
        exact ((hv' x).1 hx).elim (hall x) id
      · intro v' hv' _ hres
        have hI := ih _ _ hres
        have M2 := saveBatch_mono g roots fuel (g.group batch s st'.keyed)
          { st' with visited := v', clean := st'.clean &&
            ((g.group batch s st'.keyed).all (fun e => !(st'.visited.getD []).contains e && !roots.contains e)
              && nodupB (g.group batch s st'.keyed)) }
        have M1 : ∀ c : Bool, VMono st' { st' with visited := v', clean := st'.clean && c } := fun c =>
          ⟨id, fun h => by simp only [Bool.and_eq_true] at h; exact h.1,
            fun x hx => (hv' x).2 (Or.inr hx), fun _ => Nat.le_refl _⟩
        have M := VMono.trans (M1 _) M2
        refine ⟨fun m hm => Nat.le_trans (hP'.1 m hm) (M.2.2.2 m), fun x hx hx' => ?_⟩
        by_cases hx'' : x ∈ v'.getD []
        · rcases (hv' x).1 hx'' with h | h
          · exact hI.1 x h
          · exact VDone.mono M (hP'.2 x h hx')
        · exact hI.2 x hx hx''
    · intro st' hP hok'
      exact hmove st' _ (VMono.log st' _ _) (fun _ h => h) (hP hok')
    · intro st' hP hok'
      exact hmove st' _ (VMono.log st' _ _) (fun _ h => h) (hP hok')

theorem visit_complete (g : VGraph) (roots existing : List Nat) (n : Nat) :
    VReach g roots n → 1 ≤ saveCount n (g.run roots existing).log := by
  intro hreach
  have hok := visit_terminates g roots existing
  unfold VGraph.run at hok ⊢
  have hc := saveBatch_complete g roots (g.size + 1) roots { keyed := existing } hok
  have hdone : ∀ x, x ∈ roots ∨ x ∈ (saveBatch g roots (g.size + 1) roots { keyed := existing }).visited.getD [] →
      VDone g (saveBatch g roots (g.size + 1) roots { keyed := existing }) x := by
    intro x hx
    rcases hx with h | h
    · exact hc.1 x h
    · exact hc.2 x h (by simp)
  have : n ∈ roots ∨ n ∈ (saveBatch g roots (g.size + 1) roots { keyed := existing }).visited.getD [] := by
    induction hreach with
    | root h => exact Or.inl h
    | step _ hs ht ihm => exact Or.inr ((hdone _ ihm).2 _ hs _ ht)
  exact (hdone n this).1

/-! ## 6. soundness -/

theorem saveBatch_sound (g : VGraph) (roots : List Nat) (hslots : g.nbefore ≤ g.nslots) :
    ∀ (fuel : Nat) (batch : List Nat) (st : VSt),
    (∀ m, m ∈ batch → VReach g roots m) → (∀ n, 1 ≤ saveCount n st.log → VReach g roots n) →
    ∀ n, 1 ≤ saveCount n (saveBatch g roots fuel batch st).log → VReach g roots n := by
  intro fuel
  induction fuel with
  | zero => intro batch st _ h; exact h
  | succ fuel ih =>
    intro batch st hb hst
    refine saveBatch_succ_inv (fun st' => ∀ n, 1 ≤ saveCount n st'.log → VReach g roots n)
      g roots fuel batch st ?_ ?_ ?_ ?_
    · intro n
      simp only [saveCount_append, saveCount_before]
      intro h
      by_cases hn : n ∈ batch
      · exact hb n hn
      · have : batch.count n = 0 := List.count_eq_zero.2 hn
        exact hst n (by omega)
    · intro st' s hs hP
      have hs' : s < g.nslots := by omega
      unfold slotStep
      refine saveAssoc_cases _ _ _ _ (fun r => ∀ n, 1 ≤ saveCount n r.log → VReach g roots n) ?_ ?_ ?_
      · intro _; exact hP
      · intro _ _ _; exact hP
      · intro v' _ _
        refine ih _ _ ?_ hP
        intro e he
        obtain ⟨m, hm, hme⟩ := (group_mem g batch s st'.keyed e).1 he
        exact VReach.step (hb m hm) hs' hme
    · intro st' hP n
      simp only [saveCount_append, saveCount_stmt]; exact hP n
    · intro st' hP n
      simp only [saveCount_append, saveCount_after]; exact hP n

theorem visit_sound (g : VGraph) (roots existing : List Nat) (n : Nat) (hslots : g.nbefore ≤ g.nslots) :
    1 ≤ saveCount n (g.run roots existing).log → VReach g roots n := by
  unfold VGraph.run
  exact saveBatch_sound g roots hslots (g.size + 1) roots { keyed := existing }
    (fun m hm => VReach.root hm) (fun n h => by simp [saveCount] at h) n

/-- without `nbefore ≤ nslots` soundness fails: the belongs-to loop runs slots `≥ nslots` too -/
def visitG5 : VGraph := { size := 2, nbefore := 1, nslots := 0, adj := [[[1]], []], dedupe := [] }

theorem visit_sound_needs_slots :
    saveCount 1 (visitG5.run [0] []).log = 1 ∧ ¬ VReach visitG5 [0] 1 := by
  refine ⟨by decide, ?_⟩
  intro h
  generalize hx : (1 : Nat) = x at h
  cases h with
  | root h => subst hx; simp at h
  | step _ hs _ => exact absurd hs (Nat.not_lt_zero _)

end Gorm
