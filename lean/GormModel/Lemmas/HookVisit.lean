/-
  C13 (round 3) — theorems about the association-save traversal model `GormModel/Model/HookVisit.lean`.

    1. loadOrStore / checkSaved characterisation
    2. visit_terminates      fuel `size + 1` never runs out
    3. visit_at_most_once    a clean run fires the before-hooks of every record at most once
    4. visit_balanced        after-hooks fire exactly as often as before-hooks
    5. visit_complete        every record reachable through association fields is saved
    6. visit_sound           every saved record is reachable (needs nbefore ≤ nslots)
    +  concrete counterexamples (mixed batch, back-pointer, duplicate) and a positive diamond
    7. the repairs (VFix): a repaired guard makes its pattern flag constantly true (F27 filter -> cleanMixed, F28 root
       -> cleanRoot, F27 filter or F29 distinct -> cleanDup); with filter + root every record exactly once
    8. conservativity: on a graph on which the unrepaired traversal is clean every repaired traversal has the SAME log

  Core Lean only.
-/
import GormModel.Model.HookVisit

namespace Gorm

/-! ## concrete graphs -/

/-- diamond: 0 -m2m-> {1,2}, 1 -m2m-> {2} -/
def visitG1 : VGraph :=
  { size := 3, nbefore := 1, nslots := 3, adj := [[[],[],[1,2]], [[],[],[2]], []], dedupe := [true,true,true] }
/-- mixed batch: 0 -m2m-> {1,2}, 1 -m2m-> {2,3}: {2,3} mixes a registered with an unregistered record -/
def visitG2 : VGraph :=
  { size := 4, nbefore := 1, nslots := 3, adj := [[[],[],[1,2]], [[],[],[2,3]], [], []], dedupe := [true,true,true] }
/-- back-pointer: 0 -has many-> {1}, 1 -belongs to-> 0 -/
def visitG3 : VGraph :=
  { size := 2, nbefore := 1, nslots := 3, adj := [[[],[1],[]], [[0],[],[]]], dedupe := [true,true,true] }
/-- duplicate: 0 -m2m-> {1,1} -/
def visitG4 : VGraph :=
  { size := 2, nbefore := 1, nslots := 3, adj := [[[],[],[1,1]], []], dedupe := [true,true,true] }

theorem visit_diamond_example :
    (visitG1.run {} [0] []).clean = true ∧ saveCount 2 (visitG1.run {} [0] []).log = 1 := by decide

theorem visit_mixed_counterexample :
    saveCount 2 (visitG2.run {} [0] []).log = 2 ∧ (visitG2.run {} [0] []).clean = false := by decide

theorem visit_backpointer_counterexample :
    saveCount 0 (visitG3.run {} [0] []).log = 2 ∧ (visitG3.run {} [0] []).clean = false := by decide

theorem visit_duplicate_counterexample :
    saveCount 1 (visitG4.run {} [0] []).log = 2 ∧ (visitG4.run {} [0] []).clean = false := by decide

/-- each witness keeps failing as long as ITS repair is missing, whatever the other two flags are -/
theorem visit_mixed_needs_filter (r d : Bool) :
    saveCount 2 (visitG2.run { filter := false, root := r, distinct := d } [0] []).log = 2 := by
  cases r <;> cases d <;> decide

theorem visit_backpointer_needs_root (f d : Bool) :
    saveCount 0 (visitG3.run { filter := f, root := false, distinct := d } [0] []).log = 2 := by
  cases f <;> cases d <;> decide

theorem visit_duplicate_needs_filter_or_distinct (r : Bool) :
    saveCount 1 (visitG4.run { filter := false, root := r, distinct := false } [0] []).log = 2 := by
  cases r <;> decide

/-- ... and is saved exactly once by the fully repaired traversal -/
theorem visit_witnesses_repaired :
    saveCount 2 (visitG2.run ⟨true, true, true⟩ [0] []).log = 1 ∧ saveCount 0 (visitG3.run ⟨true, true, true⟩ [0] []).log = 1 ∧
    saveCount 1 (visitG4.run ⟨true, true, true⟩ [0] []).log = 1 := by decide

/-! ## 1. loadOrStore / checkSaved -/

theorem loadOrStore_loaded (V es : List Nat) :
    (loadOrStore V es).1 = es.all (fun e => V.contains e) := by
  induction es generalizing V with
  | nil => simp [loadOrStore]
  | cons e rest ih =>
    simp only [loadOrStore, List.all_cons]
    rw [ih]
    cases h : V.contains e <;> simp

theorem loadOrStore_mem (V es : List Nat) (x : Nat) :
    x ∈ (loadOrStore V es).2 ↔ x ∈ es ∨ x ∈ V := by
  induction es generalizing V with
  | nil => simp [loadOrStore]
  | cons e rest ih =>
    simp only [loadOrStore]
    rw [ih]
    cases h : V.contains e
    · simp only [Bool.false_eq_true, if_false, List.mem_cons]
      constructor
      · rintro (h1 | h1 | h1) <;> simp [h1]
      · rintro ((h1 | h1) | h1) <;> simp [h1]
    · simp only [if_true, List.mem_cons]
      have he : e ∈ V := by simpa using h
      constructor
      · rintro (h1 | h1) <;> simp [h1]
      · rintro ((h1 | h1) | h1)
        · subst h1; exact Or.inr he
        · exact Or.inl h1
        · exact Or.inr h1

theorem checkSaved_loaded (es : List Nat) (v : Option (List Nat)) (hne : es ≠ []) :
    (checkSaved es v).1 = es.all (fun e => (v.getD []).contains e) := by
  cases v with
  | some V => simp [checkSaved, loadOrStore_loaded]
  | none =>
    cases es with
    | nil => exact absurd rfl hne
    | cons e rest => simp [checkSaved]

theorem checkSaved_mem (es : List Nat) (v : Option (List Nat)) (x : Nat) :
    x ∈ (checkSaved es v).2.getD [] ↔ x ∈ es ∨ x ∈ v.getD [] := by
  cases v with
  | some V => simp [checkSaved, loadOrStore_mem]
  | none => simp [checkSaved, loadOrStore_mem]

theorem checkSaved_isSome (es : List Nat) (v : Option (List Nat)) :
    (checkSaved es v).2.isSome = true := by
  cases v <;> simp [checkSaved]

/-! ## generic helpers -/

theorem vfoldl_inv {α β : Type} (P : β → Prop) (f : β → α → β) (l : List α)
    (h : ∀ b a, a ∈ l → P b → P (f b a)) (b : β) (hb : P b) : P (l.foldl f b) := by
  induction l generalizing b with
  | nil => exact hb
  | cons a l ih =>
    simp only [List.foldl_cons]
    exact ih (fun b a' ha' => h b a' (List.mem_cons_of_mem _ ha')) _ (h b a (List.mem_cons_self) hb)

theorem vfoldl_rel {α β : Type} (R : β → β → Prop) (refl : ∀ b, R b b)
    (trans : ∀ a b c, R a b → R b c → R a c) (f : β → α → β) (l : List α)
    (h : ∀ b a, R b (f b a)) (b : β) : R b (l.foldl f b) := by
  induction l generalizing b with
  | nil => exact refl b
  | cons a l ih =>
    simp only [List.foldl_cons]
    exact trans _ _ _ (h b a) (ih _)

theorem vfoldl_back {α β : Type} (Q : β → Prop) (f : β → α → β) (l : List α)
    (h : ∀ b a, Q (f b a) → Q b) (b : β) : Q (l.foldl f b) → Q b := by
  induction l generalizing b with
  | nil => exact id
  | cons a l ih =>
    simp only [List.foldl_cons]
    exact fun hq => h b a (ih _ hq)


/-! ## the repaired guard: checkSavedR / filterSaved / distinctPtr -/

theorem mem_visitBase (rf : Bool) (own : List Nat) (v : Option (List Nat)) (x : Nat) :
    x ∈ visitBase rf own v ↔ x ∈ v.getD [] ∨ (v = none ∧ rf = true ∧ x ∈ own) := by
  cases v with
  | some V => simp [visitBase]
  | none => cases rf <;> simp [visitBase]

theorem visited_sub_base (rf : Bool) (own : List Nat) (v : Option (List Nat)) (x : Nat) :
    x ∈ v.getD [] → x ∈ visitBase rf own v := fun h => (mem_visitBase rf own v x).2 (Or.inl h)

theorem all_contains_congr (l A B : List Nat) (h : ∀ x, x ∈ A ↔ x ∈ B) :
    l.all (fun e => A.contains e) = l.all (fun e => B.contains e) := by
  induction l with
  | nil => rfl
  | cons x l ih =>
    simp only [List.all_cons, ih]
    congr 1
    have := h x
    by_cases hx : x ∈ A
    · simp [hx, this.1 hx]
    · have hb : x ∉ B := fun hb => hx (this.2 hb)
      simp [hx, hb]

theorem checkSavedR_loaded (rf : Bool) (own es : List Nat) (v : Option (List Nat)) (hne : es ≠ []) :
    (checkSavedR rf own es v).1 = es.all (fun e => (visitBase rf own v).contains e) := by
  cases v with
  | some V => simp [checkSavedR, visitBase, checkSaved, loadOrStore_loaded]
  | none =>
    cases rf with
    | false => simpa [checkSavedR, visitBase] using checkSaved_loaded es none hne
    | true =>
      simp only [checkSavedR, visitBase, if_true, loadOrStore_loaded]
      exact all_contains_congr es _ _ (fun x => by simp [loadOrStore_mem])

theorem checkSavedR_mem (rf : Bool) (own es : List Nat) (v : Option (List Nat)) (x : Nat) :
    x ∈ (checkSavedR rf own es v).2.getD [] ↔ x ∈ es ∨ x ∈ visitBase rf own v := by
  cases v with
  | some V => simp [checkSavedR, visitBase, checkSaved, loadOrStore_mem]
  | none =>
    cases rf with
    | false => simp [checkSavedR, visitBase, checkSaved, loadOrStore_mem]
    | true => simp [checkSavedR, visitBase, loadOrStore_mem]

theorem checkSavedR_isSome (rf : Bool) (own es : List Nat) (v : Option (List Nat)) :
    (checkSavedR rf own es v).2.isSome = true := by
  cases v with
  | some V => simp [checkSavedR, checkSaved]
  | none => cases rf <;> simp [checkSavedR, checkSaved]

/-- the element-wise loop once a map exists -/
theorem filterSaved_some (rf : Bool) (own : List Nat) (es V : List Nat) :
    ∃ V', (filterSaved rf own es (some V)).2 = some V' ∧ (∀ x, x ∈ V' ↔ x ∈ es ∨ x ∈ V) ∧
      (∀ x, x ∈ (filterSaved rf own es (some V)).1 ↔ x ∈ es ∧ x ∉ V) ∧
      (filterSaved rf own es (some V)).1.Nodup := by
  induction es generalizing V with
  | nil => exact ⟨V, rfl, by simp, by simp [filterSaved], by simp [filterSaved]⟩
  | cons e rest ih =>
    have hstep : checkSavedR rf own [e] (some V) = (V.contains e, some (if V.contains e then V else e :: V)) := by
      simp [checkSavedR, checkSaved, loadOrStore]
    obtain ⟨V', h1, h2, h3, h4⟩ := ih (if V.contains e then V else e :: V)
    simp only [filterSaved, hstep]
    refine ⟨V', h1, ?_, ?_, ?_⟩
    · intro x
      rw [h2]
      by_cases he : e ∈ V
      · simp only [List.contains_eq_mem, he, decide_true, if_true, List.mem_cons]
        constructor
        · rintro (h | h)
          · exact Or.inl (Or.inr h)
          · exact Or.inr h
        · rintro ((h | h) | h)
          · subst h; exact Or.inr he
          · exact Or.inl h
          · exact Or.inr h
      · simp only [List.contains_eq_mem, he, decide_false, Bool.false_eq_true, if_false, List.mem_cons]
        constructor
        · rintro (h | h | h)
          · exact Or.inl (Or.inr h)
          · exact Or.inl (Or.inl h)
          · exact Or.inr h
        · rintro ((h | h) | h)
          · exact Or.inr (Or.inl h)
          · exact Or.inl h
          · exact Or.inr (Or.inr h)
    · intro x
      by_cases he : e ∈ V
      · simp only [List.contains_eq_mem, he, decide_true, if_true] at h3 ⊢
        rw [h3]
        simp only [List.mem_cons]
        constructor
        · rintro ⟨h, h'⟩; exact ⟨Or.inr h, h'⟩
        · rintro ⟨h | h, h'⟩
          · subst h; exact absurd he h'
          · exact ⟨h, h'⟩
      · simp only [List.contains_eq_mem, he, decide_false, Bool.false_eq_true, if_false, List.mem_cons] at h3 ⊢
        rw [h3]
        constructor
        · rintro (h | ⟨h, h'⟩)
          · subst h; exact ⟨Or.inl rfl, he⟩
          · exact ⟨Or.inr h, fun hv => h' (Or.inr hv)⟩
        · rintro ⟨h | h, h'⟩
          · exact Or.inl h
          · by_cases hxe : x = e
            · exact Or.inl hxe
            · exact Or.inr ⟨h, fun hv => hv.elim hxe h'⟩
    · by_cases he : e ∈ V
      · simpa only [List.contains_eq_mem, he, decide_true, if_true] using h4
      · simp only [List.contains_eq_mem, he, decide_false, Bool.false_eq_true, if_false] at h3 h4 ⊢
        refine List.nodup_cons.2 ⟨?_, h4⟩
        intro hmem
        exact ((h3 e).1 hmem).2 (List.mem_cons_self)

/-- the element-wise loop of the repaired guard, map or no map -/
theorem filterSaved_spec (rf : Bool) (own es : List Nat) (v : Option (List Nat)) (hne : es ≠ []) :
    (filterSaved rf own es v).2.isSome = true ∧
    (∀ x, x ∈ (filterSaved rf own es v).2.getD [] ↔ x ∈ es ∨ x ∈ visitBase rf own v) ∧
    (∀ x, x ∈ (filterSaved rf own es v).1 ↔ x ∈ es ∧ x ∉ visitBase rf own v) ∧
    (filterSaved rf own es v).1.Nodup := by
  cases v with
  | some V =>
    obtain ⟨V', h1, h2, h3, h4⟩ := filterSaved_some rf own es V
    refine ⟨by simp [h1], ?_, by simpa [visitBase] using h3, h4⟩
    intro x; simp [h1, h2, visitBase]
  | none =>
    cases es with
    | nil => exact absurd rfl hne
    | cons e rest =>
      -- the first look-up creates the map
      have hsome := checkSavedR_isSome rf own [e] none
      have hmem := fun x => checkSavedR_mem rf own [e] none x
      have hld := checkSavedR_loaded rf own [e] none (by simp)
      cases hc : checkSavedR rf own [e] none with
      | mk ld v1 =>
        rw [hc] at hsome hmem hld
        cases v1 with
        | none => simp at hsome
        | some V1 =>
          obtain ⟨V', h1, h2, h3, h4⟩ := filterSaved_some rf own rest V1
          simp only [filterSaved, hc]
          replace hmem : ∀ x, x ∈ V1 ↔ x = e ∨ x ∈ visitBase rf own none := fun x => by simpa using hmem x
          simp only [List.all_cons, List.all_nil, Bool.and_true, List.contains_eq_mem] at hld
          refine ⟨by simp [h1], ?_, ?_, ?_⟩
          · intro x
            simp only [h1, Option.getD_some, h2, hmem, List.mem_cons]
            constructor
            · rintro (h | h | h)
              · exact Or.inl (Or.inr h)
              · exact Or.inl (Or.inl h)
              · exact Or.inr h
            · rintro ((h | h) | h)
              · exact Or.inr (Or.inl h)
              · exact Or.inl h
              · exact Or.inr (Or.inr h)
          · intro x
            by_cases he : e ∈ visitBase rf own none
            · have : ld = true := by simpa [he] using hld
              subst this
              simp only [if_true, h3, hmem, List.mem_cons]
              constructor
              · rintro ⟨h, h'⟩; exact ⟨Or.inr h, fun hb => h' (Or.inr hb)⟩
              · rintro ⟨h | h, h'⟩
                · subst h; exact absurd he h'
                · refine ⟨h, fun hv => hv.elim (fun hxe => ?_) h'⟩
                  subst hxe; exact h' he
            · have : ld = false := by simpa [he] using hld
              subst this
              simp only [Bool.false_eq_true, if_false, List.mem_cons, h3, hmem]
              constructor
              · rintro (h | ⟨h, h'⟩)
                · subst h; exact ⟨Or.inl rfl, he⟩
                · exact ⟨Or.inr h, fun hb => h' (Or.inr hb)⟩
              · rintro ⟨h | h, h'⟩
                · exact Or.inl h
                · by_cases hxe : x = e
                  · exact Or.inl hxe
                  · exact Or.inr ⟨h, fun hv => hv.elim hxe h'⟩
          · by_cases he : e ∈ visitBase rf own none
            · have : ld = true := by simpa [he] using hld
              subst this
              simpa using h4
            · have : ld = false := by simpa [he] using hld
              subst this
              simp only [Bool.false_eq_true, if_false]
              refine List.nodup_cons.2 ⟨?_, h4⟩
              intro hm
              exact ((h3 e).1 hm).2 ((hmem e).2 (Or.inl rfl))

theorem distinctPtr_mem (l seen : List Nat) (x : Nat) : x ∈ distinctPtr l seen ↔ x ∈ l ∧ x ∉ seen := by
  induction l generalizing seen with
  | nil => simp [distinctPtr]
  | cons e rest ih =>
    simp only [distinctPtr]
    by_cases he : e ∈ seen
    · simp only [List.contains_eq_mem, he, decide_true, if_true, ih, List.mem_cons]
      constructor
      · rintro ⟨h, h'⟩; exact ⟨Or.inr h, h'⟩
      · rintro ⟨h | h, h'⟩
        · subst h; exact absurd he h'
        · exact ⟨h, h'⟩
    · simp only [List.contains_eq_mem, he, decide_false, Bool.false_eq_true, if_false, List.mem_cons, ih]
      constructor
      · rintro (h | ⟨h, h'⟩)
        · subst h; exact ⟨Or.inl rfl, he⟩
        · exact ⟨Or.inr h, fun hs => h' (Or.inr hs)⟩
      · rintro ⟨h | h, h'⟩
        · exact Or.inl h
        · by_cases hxe : x = e
          · exact Or.inl hxe
          · exact Or.inr ⟨h, fun hv => hv.elim hxe h'⟩

theorem distinctPtr_nodup (l seen : List Nat) : (distinctPtr l seen).Nodup := by
  induction l generalizing seen with
  | nil => simp [distinctPtr]
  | cons e rest ih =>
    simp only [distinctPtr]
    split
    · exact ih _
    · refine List.nodup_cons.2 ⟨?_, ih _⟩
      intro hm
      exact ((distinctPtr_mem rest (e :: seen) e).1 hm).2 (List.mem_cons_self)

/-- a list without repetition is what distinctPointers returns for it -/
theorem distinctPtr_of_nodup (l seen : List Nat) (hnd : l.Nodup) (hdis : ∀ x, x ∈ l → x ∉ seen) :
    distinctPtr l seen = l := by
  induction l generalizing seen with
  | nil => rfl
  | cons e rest ih =>
    have he : e ∉ seen := hdis e (List.mem_cons_self)
    have hnd' := List.nodup_cons.1 hnd
    simp only [distinctPtr, List.contains_eq_mem, he, decide_false, Bool.false_eq_true, if_false]
    rw [ih (e :: seen) hnd'.2]
    intro x hx hs
    rcases List.mem_cons.1 hs with h | h
    · subst h; exact hnd'.1 hx
    · exact hdis x (List.mem_cons_of_mem _ hx) h

theorem nodupB_iff (l : List Nat) : nodupB l = true ↔ l.Nodup := by
  induction l with
  | nil => simp [nodupB]
  | cons e rest ih =>
    simp only [nodupB, Bool.and_eq_true, Bool.not_eq_true', List.contains_eq_mem, decide_eq_false_iff_not, ih,
      List.nodup_cons]

/-! ## the pipeline, unfolded once -/

/-- one relation slot of the pipeline run over `batch` -/
def slotStep (fx : VFix) (g : VGraph) (roots : List Nat) (fuel : Nat) (batch : List Nat) : VSt → Nat → VSt :=
  fun st s => saveAssoc fx roots batch (saveBatch fx g roots fuel) (g.group batch s st.keyed) st

theorem saveBatch_zero (fx : VFix) (g : VGraph) (roots batch : List Nat) (st : VSt) :
    saveBatch fx g roots 0 batch st = { st with ok := false } := rfl

theorem saveBatch_succ (fx : VFix) (g : VGraph) (roots : List Nat) (fuel : Nat) (batch : List Nat) (st : VSt) :
    saveBatch fx g roots (fuel+1) batch st =
      let st2 := (List.range g.nbefore).foldl (slotStep fx g roots fuel batch)
        { st with log := st.log ++ batch.map VEv.before }
      let st4 := ((List.range (g.nslots - g.nbefore)).map (· + g.nbefore)).foldl (slotStep fx g roots fuel batch)
        { st2 with log := st2.log ++ [VEv.stmt batch], keyed := batch ++ st2.keyed }
      { st4 with log := st4.log ++ batch.map VEv.after } := rfl

/-- a state predicate kept by every step of the pipeline up to the after-hooks holds before the after-hooks -/
theorem saveBatch_succ_inv2 (P Q : VSt → Prop) (fx : VFix) (g : VGraph) (roots : List Nat) (fuel : Nat)
    (batch : List Nat) (st : VSt)
    (hbefore : P { st with log := st.log ++ batch.map VEv.before })
    (hstep : ∀ st' s, (s < g.nbefore ∨ s < g.nslots) → P st' → P (slotStep fx g roots fuel batch st' s))
    (hstmt : ∀ st' : VSt, P st' → P { st' with log := st'.log ++ [VEv.stmt batch], keyed := batch ++ st'.keyed })
    (hafter : ∀ st' : VSt, P st' → Q { st' with log := st'.log ++ batch.map VEv.after }) :
    Q (saveBatch fx g roots (fuel+1) batch st) := by
  rw [saveBatch_succ]
  refine hafter _ (vfoldl_inv P _ _ (fun b a ha => hstep b a ?_) _
    (hstmt _ (vfoldl_inv P _ _ (fun b a ha => hstep b a ?_) _ hbefore)))
  · obtain ⟨i, hi, rfl⟩ := List.mem_map.1 ha
    have := List.mem_range.1 hi
    right; omega
  · exact Or.inl (List.mem_range.1 ha)

/-- a state predicate kept by every step of the pipeline is kept by the pipeline -/
theorem saveBatch_succ_inv (P : VSt → Prop) (fx : VFix) (g : VGraph) (roots : List Nat) (fuel : Nat)
    (batch : List Nat) (st : VSt)
    (hbefore : P { st with log := st.log ++ batch.map VEv.before })
    (hstep : ∀ st' s, (s < g.nbefore ∨ s < g.nslots) → P st' → P (slotStep fx g roots fuel batch st' s))
    (hstmt : ∀ st' : VSt, P st' → P { st' with log := st'.log ++ [VEv.stmt batch], keyed := batch ++ st'.keyed })
    (hafter : ∀ st' : VSt, P st' → P { st' with log := st'.log ++ batch.map VEv.after }) :
    P (saveBatch fx g roots (fuel+1) batch st) :=
  saveBatch_succ_inv2 P P fx g roots fuel batch st hbefore hstep hstmt hafter

/-- what the guard of saveAssociations guarantees, whichever repairs it carries: `B` = the records registered when
    the guard ran.  Either everything was registered (skip), or a list `values ⊆ elems` is created that covers every
    unregistered record of `elems`, holds at least one of them, and afterwards all of `elems` are registered. -/
theorem saveGuard_spec (fx : VFix) (own elems : List Nat) (v : Option (List Nat)) (hne : elems ≠ []) :
    let r := saveGuard fx own elems v
    let B := visitBase fx.root own v
    r.2.2.isSome = true ∧ (∀ x, x ∈ r.2.2.getD [] ↔ x ∈ elems ∨ x ∈ B) ∧
    (r.2.1 = true → ∀ e, e ∈ elems → e ∈ B) ∧
    (r.2.1 = false → (∀ x, x ∈ r.1 → x ∈ elems) ∧ (∀ x, x ∈ elems → x ∈ r.1 ∨ x ∈ B) ∧ (∃ e, e ∈ r.1 ∧ e ∉ B)) ∧
    (fx.filter = true → (∀ x, x ∈ r.1 → x ∉ B) ∧ r.1.Nodup) ∧
    (fx.filter = false → r.1 = elems) := by
  unfold saveGuard
  cases hf : fx.filter with
  | true =>
    obtain ⟨h1, h2, h3, h4⟩ := filterSaved_spec fx.root own elems v hne
    simp only [if_true]
    refine ⟨h1, h2, ?_, ?_, fun _ => ⟨fun x hx => ((h3 x).1 hx).2, h4⟩, fun h => by simp at h⟩
    · intro hemp e he
      have hnil : (filterSaved fx.root own elems v).1 = [] := by simpa using hemp
      by_cases hb : e ∈ visitBase fx.root own v
      · exact hb
      · have := (h3 e).2 ⟨he, hb⟩
        rw [hnil] at this; simp at this
    · intro hemp
      refine ⟨fun x hx => ((h3 x).1 hx).1, fun x hx => ?_, ?_⟩
      · by_cases hb : x ∈ visitBase fx.root own v
        · exact Or.inr hb
        · exact Or.inl ((h3 x).2 ⟨hx, hb⟩)
      · cases hq : (filterSaved fx.root own elems v).1 with
        | nil => simp [hq] at hemp
        | cons e rest =>
          exact ⟨e, List.mem_cons_self, ((h3 e).1 (by rw [hq]; exact List.mem_cons_self)).2⟩
  | false =>
    have hl := checkSavedR_loaded fx.root own elems v hne
    have hm := checkSavedR_mem fx.root own elems v
    simp only [Bool.false_eq_true, if_false]
    refine ⟨checkSavedR_isSome _ _ _ _, hm, ?_, ?_, fun h => by simp at h, fun _ => trivial⟩
    · intro hr e he
      rw [hl, List.all_eq_true] at hr
      simpa using hr e he
    · intro hr
      rw [hl, List.all_eq_false] at hr
      obtain ⟨e, he1, he2⟩ := hr
      exact ⟨fun _ h => h, fun x hx => Or.inl hx, e, he1, by simpa using he2⟩

/-- the three ways `saveAssoc` can go -/
theorem saveAssoc_cases (fx : VFix) (roots own : List Nat) (rec : List Nat → VSt → VSt) (elems : List Nat) (st : VSt)
    (C : VSt → Prop)
    (h0 : elems = [] → C st)
    (h1 : ∀ v' : Option (List Nat), v'.isSome = true →
      (∀ x, x ∈ v'.getD [] ↔ x ∈ elems ∨ x ∈ visitBase fx.root own st.visited) →
      (∀ e, e ∈ elems → e ∈ visitBase fx.root own st.visited) → C { st with visited := v' })
    (h2 : ∀ (v' : Option (List Nat)) (values : List Nat), v'.isSome = true →
      (∀ x, x ∈ v'.getD [] ↔ x ∈ elems ∨ x ∈ visitBase fx.root own st.visited) →
      (∀ x, x ∈ values → x ∈ elems) →
      (∀ x, x ∈ elems → x ∈ values ∨ x ∈ visitBase fx.root own st.visited) →
      (∃ e, e ∈ values ∧ e ∉ visitBase fx.root own st.visited) →
      (fx.filter = true → ∀ x, x ∈ values → x ∉ visitBase fx.root own st.visited) →
      (fx.filter = true ∨ fx.distinct = true → values.Nodup) →
      (fx.filter = false → fx.distinct = false → values = elems) →
      C (rec values (st.enter roots (visitBase fx.root own st.visited) values v'))) :
    C (saveAssoc fx roots own rec elems st) := by
  unfold saveAssoc
  split
  · rename_i he
    exact h0 (by simpa using he)
  · rename_i he
    have hne : elems ≠ [] := by simpa using he
    obtain ⟨g1, g2, g3, g4, g5, g6⟩ := saveGuard_spec fx own elems st.visited hne
    simp only []
    split
    · rename_i hr
      exact h1 _ g1 g2 (g3 hr)
    · rename_i hr
      have hr' : (saveGuard fx own elems st.visited).2.1 = false := by simpa using hr
      obtain ⟨k1, k2, k3⟩ := g4 hr'
      cases hd : fx.distinct with
      | false =>
        simp only [Bool.false_eq_true, if_false]
        refine h2 _ _ g1 g2 k1 k2 k3 (fun hf => (g5 hf).1) (fun h => ?_) (fun hf _ => g6 hf)
        rcases h with h | h
        · exact (g5 h).2
        · exact absurd h (by simp [hd])
      | true =>
        simp only [if_true]
        have hmem : ∀ x, x ∈ distinctPtr (saveGuard fx own elems st.visited).1 [] ↔
            x ∈ (saveGuard fx own elems st.visited).1 := fun x => by simp [distinctPtr_mem]
        refine h2 _ _ g1 g2 (fun x hx => k1 x ((hmem x).1 hx))
          (fun x hx => (k2 x hx).elim (fun h => Or.inl ((hmem x).2 h)) Or.inr) ?_
          (fun hf x hx => (g5 hf).1 x ((hmem x).1 hx)) (fun _ => distinctPtr_nodup _ _) (fun _ h => absurd h (by simp [hd]))
        obtain ⟨e, he1, he2⟩ := k3
        exact ⟨e, (hmem e).2 he1, he2⟩

/-! ## groups -/

theorem dedupeKeyed_sub (k : List Nat) (l seen : List Nat) (x : Nat) :
    x ∈ dedupeKeyed k l seen → x ∈ l := by
  induction l generalizing seen with
  | nil => simp [dedupeKeyed]
  | cons e rest ih =>
    simp only [dedupeKeyed]
    split
    · intro h; exact List.mem_cons_of_mem _ (ih _ h)
    · intro h
      rcases List.mem_cons.1 h with h | h
      · simp [h]
      · exact List.mem_cons_of_mem _ (ih _ h)

theorem dedupeKeyed_sup (k : List Nat) (l seen : List Nat) (x : Nat) :
    x ∈ l → x ∈ dedupeKeyed k l seen ∨ x ∈ seen := by
  induction l generalizing seen with
  | nil => simp
  | cons e rest ih =>
    intro hx
    simp only [dedupeKeyed]
    split
    · rename_i hc
      rcases List.mem_cons.1 hx with h | h
      · subst h
        right
        simp only [Bool.and_eq_true, List.contains_iff_mem] at hc
        exact hc.2
      · exact ih _ h
    · rcases List.mem_cons.1 hx with h | h
      · left; simp [h]
      · rcases ih (e :: seen) h with h' | h'
        · left; exact List.mem_cons_of_mem _ h'
        · rcases List.mem_cons.1 h' with h'' | h''
          · left; simp [h'']
          · right; exact h''

theorem group_mem (g : VGraph) (batch : List Nat) (s : Nat) (keyed : List Nat) (x : Nat) :
    x ∈ g.group batch s keyed ↔ ∃ m, m ∈ batch ∧ x ∈ g.targets m s := by
  unfold VGraph.group
  simp only []
  split
  · constructor
    · intro h; exact List.mem_flatMap.1 (dedupeKeyed_sub _ _ _ _ h)
    · intro h
      rcases dedupeKeyed_sup keyed _ [] x (List.mem_flatMap.2 h) with h' | h'
      · exact h'
      · simp at h'
  · exact List.mem_flatMap

theorem targets_lt (g : VGraph) (m s x : Nat) : x ∈ g.targets m s → x < g.size := by
  unfold VGraph.targets
  intro h
  simpa using (List.mem_filter.1 h).2

/-! ## 2. termination -/

/-- the number of records not yet registered in the visit map -/
def unv (g : VGraph) (V : List Nat) : Nat := (List.range g.size).countP (fun i => !V.contains i)

theorem unv_le_size (g : VGraph) (V : List Nat) : unv g V ≤ g.size := by
  unfold unv
  have := List.countP_le_length (p := fun i => !V.contains i) (l := List.range g.size)
  simpa using this

theorem countP_lt_of {p q : Nat → Bool} (l : List Nat) (h : ∀ x, x ∈ l → p x = true → q x = true)
    (e : Nat) (he : e ∈ l) (hq : q e = true) (hp : p e = false) : l.countP p < l.countP q := by
  induction l with
  | nil => simp at he
  | cons a l ih =>
    simp only [List.countP_cons]
    have hmono : l.countP p ≤ l.countP q :=
      List.countP_mono_left (fun x hx => h x (List.mem_cons_of_mem _ hx))
    rcases List.mem_cons.1 he with h' | h'
    · subst h'
      simp [hq, hp]
      omega
    · have := ih (fun x hx => h x (List.mem_cons_of_mem _ hx)) h'
      have ha := h a List.mem_cons_self
      by_cases hpa : p a = true
      · simp [hpa, ha hpa]; omega
      · simp [hpa]; omega

theorem unv_mono (g : VGraph) (V V' : List Nat) (h : ∀ x, x ∈ V → x ∈ V') : unv g V' ≤ unv g V := by
  unfold unv
  apply List.countP_mono_left
  intro x _ hx
  simp only [Bool.not_eq_true', List.contains_eq_mem, decide_eq_false_iff_not] at hx ⊢
  exact fun hv => hx (h x hv)

theorem unv_lt (g : VGraph) (V V' : List Nat) (h : ∀ x, x ∈ V → x ∈ V') (e : Nat) (he : e < g.size)
    (h1 : e ∉ V) (h2 : e ∈ V') : unv g V' < unv g V := by
  unfold unv
  apply countP_lt_of _ _ e (List.mem_range.2 he)
  · simp [h1]
  · simp [h2]
  · intro x _ hx
    simp only [Bool.not_eq_true', List.contains_eq_mem, decide_eq_false_iff_not] at hx ⊢
    exact fun hv => hx (h x hv)

theorem enter_ok (st : VSt) (roots B values : List Nat) (v' : Option (List Nat)) :
    (st.enter roots B values v').ok = st.ok := rfl
theorem enter_visited (st : VSt) (roots B values : List Nat) (v' : Option (List Nat)) :
    (st.enter roots B values v').visited = v' := rfl
theorem enter_log (st : VSt) (roots B values : List Nat) (v' : Option (List Nat)) :
    (st.enter roots B values v').log = st.log := rfl
theorem enter_keyed (st : VSt) (roots B values : List Nat) (v' : Option (List Nat)) :
    (st.enter roots B values v').keyed = st.keyed := rfl

theorem saveBatch_ok (fx : VFix) (g : VGraph) (roots : List Nat) : ∀ (fuel : Nat) (batch : List Nat) (st : VSt),
    st.ok = true → unv g (st.visited.getD []) < fuel →
    (saveBatch fx g roots fuel batch st).ok = true ∧
      ∀ x, x ∈ st.visited.getD [] → x ∈ (saveBatch fx g roots fuel batch st).visited.getD [] := by
  intro fuel
  induction fuel with
  | zero => intro _ _ _ h; exact absurd h (Nat.not_lt_zero _)
  | succ fuel ih =>
    intro batch st hok hm
    apply saveBatch_succ_inv
      (fun st' => st'.ok = true ∧ ∀ x, x ∈ st.visited.getD [] → x ∈ st'.visited.getD [])
    · exact ⟨hok, fun x hx => hx⟩
    · intro st' s _ hP
      obtain ⟨hok', hsub⟩ := hP
      have hm' : unv g (st'.visited.getD []) ≤ fuel := by
        have := unv_mono g _ _ hsub; omega
      unfold slotStep
      refine saveAssoc_cases _ _ _ _ _ _
        (fun r => r.ok = true ∧ ∀ x, x ∈ st.visited.getD [] → x ∈ r.visited.getD []) ?_ ?_ ?_
      · intro _; exact ⟨hok', hsub⟩
      · intro v' _ hv' _
        exact ⟨hok', fun x hx => (hv' x).2 (Or.inr (visited_sub_base _ _ _ _ (hsub x hx)))⟩
      · intro v' values _ hv' hsubv _ ⟨e, he1, he2⟩ _ _ _
        have hlt : e < g.size := by
          obtain ⟨m, _, hm⟩ := (group_mem g batch s st'.keyed e).1 (hsubv e he1)
          exact targets_lt g m s e hm
        have he3 : e ∉ st'.visited.getD [] := fun h => he2 (visited_sub_base _ _ _ _ h)
        have hdrop : unv g (v'.getD []) < unv g (st'.visited.getD []) :=
          unv_lt g _ _ (fun x hx => (hv' x).2 (Or.inr (visited_sub_base _ _ _ _ hx))) e hlt he3
            ((hv' e).2 (Or.inl (hsubv e he1)))
        have := ih values (st'.enter roots (visitBase fx.root batch st'.visited) values v') hok'
          (by rw [enter_visited]; omega)
        rw [enter_visited] at this
        exact ⟨this.1, fun x hx => this.2 x ((hv' x).2 (Or.inr (visited_sub_base _ _ _ _ (hsub x hx))))⟩
    · exact fun _ h => h
    · exact fun _ h => h

theorem visit_terminates (fx : VFix) (g : VGraph) (roots existing : List Nat) :
    (g.run fx roots existing).ok = true := by
  unfold VGraph.run
  exact (saveBatch_ok fx g roots (g.size + 1) roots { keyed := existing } rfl
    (Nat.lt_succ_of_le (unv_le_size g _))).1

/-! ## counting events -/

theorem saveCount_append (n : Nat) (l1 l2 : List VEv) :
    saveCount n (l1 ++ l2) = saveCount n l1 + saveCount n l2 := List.count_append

theorem afterCount_append (n : Nat) (l1 l2 : List VEv) :
    afterCount n (l1 ++ l2) = afterCount n l1 + afterCount n l2 := List.count_append

theorem saveCount_before (n : Nat) (batch : List Nat) :
    saveCount n (batch.map VEv.before) = batch.count n := by
  unfold saveCount
  induction batch with
  | nil => rfl
  | cons e rest ih => simp [List.count_cons, ih]

theorem saveCount_after (n : Nat) (batch : List Nat) : saveCount n (batch.map VEv.after) = 0 := by
  unfold saveCount
  induction batch with
  | nil => rfl
  | cons e rest ih => simp [ih]

theorem saveCount_stmt (n : Nat) (b : List Nat) : saveCount n [VEv.stmt b] = 0 := by
  simp [saveCount]

theorem afterCount_after (n : Nat) (batch : List Nat) :
    afterCount n (batch.map VEv.after) = batch.count n := by
  unfold afterCount
  induction batch with
  | nil => rfl
  | cons e rest ih => simp [List.count_cons, ih]

theorem afterCount_before (n : Nat) (batch : List Nat) : afterCount n (batch.map VEv.before) = 0 := by
  unfold afterCount
  induction batch with
  | nil => rfl
  | cons e rest ih => simp [ih]

theorem afterCount_stmt (n : Nat) (b : List Nat) : afterCount n [VEv.stmt b] = 0 := by
  simp [afterCount]

/-! ## 4. balance -/

theorem saveBatch_balanced (fx : VFix) (g : VGraph) (roots : List Nat) (n : Nat) :
    ∀ (fuel : Nat) (batch : List Nat) (st : VSt),
    afterCount n (saveBatch fx g roots fuel batch st).log + saveCount n st.log =
      saveCount n (saveBatch fx g roots fuel batch st).log + afterCount n st.log := by
  intro fuel
  induction fuel with
  | zero => intro batch st; simp only [saveBatch_zero]; omega
  | succ fuel ih =>
    intro batch st
    refine saveBatch_succ_inv2
      (fun st' => afterCount n st'.log + saveCount n st.log + batch.count n =
        saveCount n st'.log + afterCount n st.log)
      (fun r => afterCount n r.log + saveCount n st.log = saveCount n r.log + afterCount n st.log)
      fx g roots fuel batch st ?_ ?_ ?_ ?_
    · simp only [saveCount_append, afterCount_append, saveCount_before, afterCount_before]; omega
    · intro st' s _ hP
      unfold slotStep
      refine saveAssoc_cases _ _ _ _ _ _
        (fun r => afterCount n r.log + saveCount n st.log + batch.count n =
          saveCount n r.log + afterCount n st.log) ?_ ?_ ?_
      · intro _; exact hP
      · intro _ _ _ _; exact hP
      · intro v' values _ _ _ _ _ _ _ _
        have := ih values (st'.enter roots (visitBase fx.root batch st'.visited) values v')
        rw [enter_log] at this
        omega
    · intro st' hP
      simp only [saveCount_append, afterCount_append, saveCount_stmt, afterCount_stmt]; omega
    · intro st' hP
      simp only [saveCount_append, afterCount_append, saveCount_after, afterCount_after]; omega

theorem visit_balanced (fx : VFix) (g : VGraph) (roots existing : List Nat) (n : Nat) :
    afterCount n (g.run fx roots existing).log = saveCount n (g.run fx roots existing).log := by
  have := saveBatch_balanced fx g roots n (g.size + 1) roots { keyed := existing }
  unfold VGraph.run
  simpa [saveCount, afterCount] using this

/-! ## monotonicity: flags only fall, the visit map and the log only grow -/

def VMono (a b : VSt) : Prop :=
  (b.ok = true → a.ok = true) ∧
  ((b.cleanMixed = true → a.cleanMixed = true) ∧ (b.cleanRoot = true → a.cleanRoot = true) ∧
    (b.cleanDup = true → a.cleanDup = true)) ∧
  (∀ x, x ∈ a.visited.getD [] → x ∈ b.visited.getD []) ∧ (∀ n, saveCount n a.log ≤ saveCount n b.log) ∧
  (a.visited.isSome = true → b.visited.isSome = true)

theorem VMono.refl (a : VSt) : VMono a a := ⟨id, ⟨id, id, id⟩, fun _ h => h, fun _ => Nat.le_refl _, id⟩

theorem VMono.trans {a b c : VSt} (h1 : VMono a b) (h2 : VMono b c) : VMono a c :=
  ⟨fun h => h1.1 (h2.1 h),
    ⟨fun h => h1.2.1.1 (h2.2.1.1 h), fun h => h1.2.1.2.1 (h2.2.1.2.1 h), fun h => h1.2.1.2.2 (h2.2.1.2.2 h)⟩,
    fun x h => h2.2.2.1 x (h1.2.2.1 x h),
    fun n => Nat.le_trans (h1.2.2.2.1 n) (h2.2.2.2.1 n), fun h => h2.2.2.2.2 (h1.2.2.2.2 h)⟩

theorem VMono.clean {a b : VSt} (h : VMono a b) : b.clean = true → a.clean = true := by
  unfold VSt.clean
  simp only [Bool.and_eq_true]
  rintro ⟨⟨h1, h2⟩, h3⟩
  exact ⟨⟨h.2.1.1 h1, h.2.1.2.1 h2⟩, h.2.1.2.2 h3⟩

theorem VMono.log (a : VSt) (l : List VEv) (k : List Nat) :
    VMono a { a with log := a.log ++ l, keyed := k } :=
  ⟨id, ⟨id, id, id⟩, fun _ h => h, fun n => by simp only [saveCount_append]; omega, id⟩

theorem VMono.enter (st : VSt) (roots B values : List Nat) (v' : Option (List Nat))
    (hv : ∀ x, x ∈ st.visited.getD [] → x ∈ v'.getD []) (hs : v'.isSome = true) :
    VMono st (st.enter roots B values v') := by
  refine ⟨id, ⟨?_, ?_, ?_⟩, hv, fun _ => Nat.le_refl _, fun _ => hs⟩ <;>
  · intro h
    simp only [VSt.enter, Bool.and_eq_true] at h
    exact h.1

theorem saveAssoc_mono (fx : VFix) (roots own : List Nat) (rec : List Nat → VSt → VSt)
    (hrec : ∀ b st, VMono st (rec b st)) (elems : List Nat) (st : VSt) :
    VMono st (saveAssoc fx roots own rec elems st) := by
  refine saveAssoc_cases _ _ _ _ _ _ (fun r => VMono st r) ?_ ?_ ?_
  · intro _; exact VMono.refl st
  · intro v' hs hv' _
    exact ⟨id, ⟨id, id, id⟩, fun x hx => (hv' x).2 (Or.inr (visited_sub_base _ _ _ _ hx)), fun _ => Nat.le_refl _,
      fun _ => hs⟩
  · intro v' values hs hv' _ _ _ _ _ _
    exact VMono.trans (VMono.enter st _ _ _ _ (fun x hx => (hv' x).2 (Or.inr (visited_sub_base _ _ _ _ hx))) hs)
      (hrec _ _)

theorem saveBatch_mono (fx : VFix) (g : VGraph) (roots : List Nat) : ∀ (fuel : Nat) (batch : List Nat) (st : VSt),
    VMono st (saveBatch fx g roots fuel batch st) := by
  intro fuel
  induction fuel with
  | zero =>
    intro batch st
    rw [saveBatch_zero]
    exact ⟨fun h => by simp at h, ⟨id, id, id⟩, fun _ h => h, fun _ => Nat.le_refl _, id⟩
  | succ fuel ih =>
    intro batch st
    refine saveBatch_succ_inv (fun st' => VMono st st') fx g roots fuel batch st ?_ ?_ ?_ ?_
    · exact VMono.log st _ _
    · intro st' s _ hP
      exact VMono.trans hP (saveAssoc_mono fx roots _ _ (fun b st => ih b st) _ _)
    · intro st' hP
      exact VMono.trans hP (VMono.log st' _ _)
    · intro st' hP
      exact VMono.trans hP (VMono.log st' _ _)

theorem slotStep_mono (fx : VFix) (g : VGraph) (roots : List Nat) (fuel : Nat) (batch : List Nat) (st : VSt)
    (s : Nat) : VMono st (slotStep fx g roots fuel batch st s) :=
  saveAssoc_mono fx roots _ _ (fun b st => saveBatch_mono fx g roots fuel b st) _ _

/-! ## 3. at most once -/

theorem nodup_count {l : List Nat} (h : l.Nodup) (n : Nat) : l.count n ≤ 1 := List.nodup_iff_count.1 h n

/-- every record whose before-hooks fired did so once, and is registered in the visit map or a root -/
def VOnce (roots : List Nat) (st : VSt) : Prop :=
  (∀ n, saveCount n st.log ≤ 1) ∧ (∀ n, 1 ≤ saveCount n st.log → n ∈ st.visited.getD [] ∨ n ∈ roots)

/-- what the three pattern flags say about the list a nested Create started with -/
theorem enter_clean (st : VSt) (roots B values : List Nat) (v' : Option (List Nat))
    (h : (st.enter roots B values v').clean = true) :
    st.clean = true ∧ (∀ e, e ∈ values → e ∉ B ∧ e ∉ roots) ∧ values.Nodup := by
  simp only [VSt.clean, VSt.enter, Bool.and_eq_true, List.all_eq_true, Bool.not_eq_true', List.contains_eq_mem,
    decide_eq_false_iff_not, Bool.and_eq_false_iff, Bool.not_eq_false', decide_eq_true_eq, nodupB_iff] at h
  obtain ⟨⟨⟨h1, h2⟩, ⟨h3, h4⟩⟩, ⟨h5, h6⟩⟩ := h
  refine ⟨by simp [VSt.clean, h1, h3, h5], fun e he => ⟨h2 e he, fun hr => ?_⟩, h6⟩
  rcases h4 e he with h | h
  · exact h hr
  · exact h2 e he h

theorem saveBatch_once (fx : VFix) (g : VGraph) (roots : List Nat) : ∀ (fuel : Nat) (batch : List Nat) (st : VSt),
    (∀ n, batch.count n ≤ 1) →
    (∀ n, n ∈ batch → saveCount n st.log = 0 ∧ (n ∈ st.visited.getD [] ∨ n ∈ roots)) →
    VOnce roots st → (saveBatch fx g roots fuel batch st).clean = true →
    VOnce roots (saveBatch fx g roots fuel batch st) := by
  intro fuel
  induction fuel with
  | zero => intro batch st _ _ h _; exact h
  | succ fuel ih =>
    intro batch st hnd hpre hinv
    refine saveBatch_succ_inv (fun st' => st'.clean = true → VOnce roots st') fx g roots fuel batch st ?_ ?_ ?_ ?_
    · intro _
      constructor
      · intro n
        simp only [saveCount_append, saveCount_before]
        by_cases hn : n ∈ batch
        · have := (hpre n hn).1; have := hnd n; omega
        · have : batch.count n = 0 := List.count_eq_zero.2 hn
          have := hinv.1 n; omega
      · intro n
        simp only [saveCount_append, saveCount_before]
        intro h
        by_cases hn : n ∈ batch
        · exact (hpre n hn).2
        · have : batch.count n = 0 := List.count_eq_zero.2 hn
          exact hinv.2 n (by omega)
    · intro st' s _ hP
      unfold slotStep
      intro hclean
      have hmono := slotStep_mono fx g roots fuel batch st' s
      unfold slotStep at hmono
      have hI := hP (hmono.clean hclean)
      revert hclean
      refine saveAssoc_cases _ _ _ _ _ _ (fun r => r.clean = true → VOnce roots r) ?_ ?_ ?_
      · intro _ _; exact hI
      · intro v' _ hv' _ _
        exact ⟨hI.1, fun n hn => (hI.2 n hn).elim
          (fun h => Or.inl ((hv' n).2 (Or.inr (visited_sub_base _ _ _ _ h)))) Or.inr⟩
      · intro v' values _ hv' hsubv _ _ _ _ _ hres
        have hc := (saveBatch_mono fx g roots fuel _ _).clean hres
        obtain ⟨_, hall, hnodup⟩ := enter_clean _ _ _ _ _ hc
        refine ih _ _ (nodup_count hnodup) ?_ ?_ hres
        · intro n hn
          rw [enter_log, enter_visited]
          refine ⟨?_, Or.inl ((hv' n).2 (Or.inl (hsubv n hn)))⟩
          have h1 := hI.2 n
          have h2 := hall n hn
          cases hc : saveCount n st'.log with
          | zero => rfl
          | succ k =>
            rcases h1 (by omega) with h | h
            · exact absurd (visited_sub_base _ _ _ _ h) h2.1
            · exact absurd h h2.2
        · exact ⟨hI.1, fun n hn => (hI.2 n hn).elim
            (fun h => Or.inl ((hv' n).2 (Or.inr (visited_sub_base _ _ _ _ h)))) Or.inr⟩
    · intro st' hP hclean
      have := hP hclean
      refine ⟨fun n => ?_, fun n => ?_⟩
      · simp only [saveCount_append, saveCount_stmt]; exact this.1 n
      · simp only [saveCount_append, saveCount_stmt]; exact this.2 n
    · intro st' hP hclean
      have := hP hclean
      refine ⟨fun n => ?_, fun n => ?_⟩
      · simp only [saveCount_append, saveCount_after]; exact this.1 n
      · simp only [saveCount_append, saveCount_after]; exact this.2 n

theorem visit_at_most_once (fx : VFix) (g : VGraph) (roots existing : List Nat) :
    roots.Nodup → (g.run fx roots existing).clean = true → ∀ n, saveCount n (g.run fx roots existing).log ≤ 1 := by
  intro hnd hclean
  unfold VGraph.run at hclean ⊢
  refine (saveBatch_once fx g roots (g.size + 1) roots { keyed := existing } (List.nodup_iff_count.1 hnd)
    ?_ ?_ hclean).1
  · intro n hn; exact ⟨by simp [saveCount], Or.inr hn⟩
  · exact ⟨fun n => by simp [saveCount], fun n h => by simp [saveCount] at h⟩

/-! ## 5. completeness -/

theorem vfoldl_hit {α β : Type} (R : β → β → Prop) (refl : ∀ b, R b b)
    (trans : ∀ a b c, R a b → R b c → R a c) (f : β → α → β) (hR : ∀ b a, R b (f b a))
    (A : β → Prop) (hA : ∀ a b, A a → R a b → A b) (s : α) (hit : ∀ b, A (f b s))
    (l : List α) (hs : s ∈ l) (b : β) : A (l.foldl f b) := by
  induction l generalizing b with
  | nil => simp at hs
  | cons a l ih =>
    simp only [List.foldl_cons]
    rcases List.mem_cons.1 hs with h | h
    · subst h
      exact hA _ _ (hit b) (vfoldl_rel R refl trans f l hR _)
    · exact ih h _

theorem saveAssoc_registers (fx : VFix) (roots own : List Nat) (rec : List Nat → VSt → VSt)
    (hrec : ∀ b st, VMono st (rec b st)) (elems : List Nat) (st : VSt) (t : Nat) (ht : t ∈ elems) :
    t ∈ (saveAssoc fx roots own rec elems st).visited.getD [] := by
  refine saveAssoc_cases _ _ _ _ _ _ (fun r => t ∈ r.visited.getD []) ?_ ?_ ?_
  · intro h; subst h; simp at ht
  · intro v' _ hv' _; exact (hv' t).2 (Or.inl ht)
  · intro v' values _ hv' _ _ _ _ _ _
    exact (hrec _ _).2.2.1 t (by rw [enter_visited]; exact (hv' t).2 (Or.inl ht))

theorem slotStep_registers (fx : VFix) (g : VGraph) (roots : List Nat) (fuel : Nat) (batch : List Nat) (st : VSt)
    (s m t : Nat) (hm : m ∈ batch) (ht : t ∈ g.targets m s) :
    t ∈ (slotStep fx g roots fuel batch st s).visited.getD [] :=
  saveAssoc_registers fx roots _ _ (fun b st => saveBatch_mono fx g roots fuel b st) _ _ t
    ((group_mem g batch s st.keyed t).2 ⟨m, hm, ht⟩)

theorem slotLoop_mono (fx : VFix) (g : VGraph) (roots : List Nat) (fuel : Nat) (batch : List Nat) (l : List Nat)
    (st : VSt) : VMono st (l.foldl (slotStep fx g roots fuel batch) st) :=
  vfoldl_rel VMono VMono.refl (fun _ _ _ h1 h2 => VMono.trans h1 h2) _ l
    (fun b a => slotStep_mono fx g roots fuel batch b a) st

theorem slotLoop_registers (fx : VFix) (g : VGraph) (roots : List Nat) (fuel : Nat) (batch : List Nat)
    (l : List Nat) (st : VSt) (s m t : Nat) (hs : s ∈ l) (hm : m ∈ batch) (ht : t ∈ g.targets m s) :
    t ∈ (l.foldl (slotStep fx g roots fuel batch) st).visited.getD [] :=
  vfoldl_hit VMono VMono.refl (fun _ _ _ h1 h2 => VMono.trans h1 h2) _
    (fun b a => slotStep_mono fx g roots fuel batch b a)
    (fun b => t ∈ b.visited.getD []) (fun _ _ ha hab => hab.2.2.1 t ha) s
    (fun b => slotStep_registers fx g roots fuel batch b s m t hm ht) l hs st

/-- after the pipeline ran over `batch`, every record held by a relation of a member of `batch` is registered -/
theorem saveBatch_succ_closure (fx : VFix) (g : VGraph) (roots : List Nat) (fuel : Nat) (batch : List Nat)
    (st : VSt) (m s t : Nat) (hm : m ∈ batch) (hs : s < g.nslots) (ht : t ∈ g.targets m s) :
    t ∈ (saveBatch fx g roots (fuel+1) batch st).visited.getD [] := by
  rw [saveBatch_succ]
  simp only []
  by_cases hsb : s < g.nbefore
  · apply (slotLoop_mono fx g roots fuel batch _ _).2.2.1
    exact slotLoop_registers fx g roots fuel batch _ _ s m t (List.mem_range.2 hsb) hm ht
  · apply slotLoop_registers fx g roots fuel batch _ _ s m t _ hm ht
    exact List.mem_map.2 ⟨s - g.nbefore, List.mem_range.2 (by omega), by omega⟩

/-- record `x` was saved and everything its relations hold is registered -/
def VDone (g : VGraph) (r : VSt) (x : Nat) : Prop :=
  1 ≤ saveCount x r.log ∧ ∀ s, s < g.nslots → ∀ t, t ∈ g.targets x s → t ∈ r.visited.getD []

theorem VDone.mono {g : VGraph} {a b : VSt} {x : Nat} (h : VMono a b) : VDone g a x → VDone g b x :=
  fun hd => ⟨Nat.le_trans hd.1 (h.2.2.2.1 x), fun s hs t ht => h.2.2.1 t (hd.2 s hs t ht)⟩

/-- the members of the batch are done at the end; every record that got registered during the run (with the F28
    repair that includes the batch itself, registered when the map is created) is done at the end -/
theorem saveBatch_complete (fx : VFix) (g : VGraph) (roots : List Nat) : ∀ (fuel : Nat) (batch : List Nat) (st : VSt),
    (saveBatch fx g roots fuel batch st).ok = true →
    (∀ m, m ∈ batch → VDone g (saveBatch fx g roots fuel batch st) m) ∧
    (∀ x, x ∈ (saveBatch fx g roots fuel batch st).visited.getD [] → x ∉ st.visited.getD [] →
      VDone g (saveBatch fx g roots fuel batch st) x) := by
  intro fuel
  induction fuel with
  | zero => intro batch st h; simp [saveBatch_zero] at h
  | succ fuel ih =>
    intro batch st hok
    have hmove : ∀ a b : VSt, VMono a b → (∀ x, x ∈ b.visited.getD [] → x ∈ a.visited.getD []) →
        ((∀ m, m ∈ batch → 1 ≤ saveCount m a.log) ∧
          (∀ x, x ∈ a.visited.getD [] → x ∉ st.visited.getD [] → x ∈ batch ∨ VDone g a x)) →
        ((∀ m, m ∈ batch → 1 ≤ saveCount m b.log) ∧
          (∀ x, x ∈ b.visited.getD [] → x ∉ st.visited.getD [] → x ∈ batch ∨ VDone g b x)) := by
      intro a b hab hV hbody
      exact ⟨fun m hm => Nat.le_trans (hbody.1 m hm) (hab.2.2.2.1 m),
        fun x hx hx' => (hbody.2 x (hV x hx) hx').elim Or.inl (fun h => Or.inr (VDone.mono hab h))⟩
    have main := saveBatch_succ_inv
      (fun st' => st'.ok = true → (∀ m, m ∈ batch → 1 ≤ saveCount m st'.log) ∧
        (∀ x, x ∈ st'.visited.getD [] → x ∉ st.visited.getD [] → x ∈ batch ∨ VDone g st' x))
      fx g roots fuel batch st ?_ ?_ ?_ ?_ hok
    · have hbatch : ∀ m, m ∈ batch → VDone g (saveBatch fx g roots (fuel+1) batch st) m :=
        fun m hm => ⟨main.1 m hm, fun s hs t ht => saveBatch_succ_closure fx g roots fuel batch st m s t hm hs ht⟩
      exact ⟨hbatch, fun x hx hx' => (main.2 x hx hx').elim (hbatch x) id⟩
    · intro _
      refine ⟨fun m hm => ?_, fun x hx hx' => absurd hx hx'⟩
      simp only [saveCount_append, saveCount_before]
      have : 1 ≤ batch.count m := List.one_le_count_iff.2 hm
      omega
    · intro st' s _ hP
      have hmono := slotStep_mono fx g roots fuel batch st' s
      unfold slotStep at hmono ⊢
      intro hok'
      have hP' := hP (hmono.1 hok')
      -- a record of the base is registered already, or a member of the batch (F28: the new map starts with them)
      have hbase : ∀ x, x ∈ visitBase fx.root batch st'.visited → x ∈ st'.visited.getD [] ∨ x ∈ batch := by
        intro x hx
        rcases (mem_visitBase _ _ _ _).1 hx with h | ⟨_, _, h⟩
        · exact Or.inl h
        · exact Or.inr h
      revert hok'
      refine saveAssoc_cases _ _ _ _ _ _
        (fun r => r.ok = true → (∀ m, m ∈ batch → 1 ≤ saveCount m r.log) ∧
          (∀ x, x ∈ r.visited.getD [] → x ∉ st.visited.getD [] → x ∈ batch ∨ VDone g r x)) ?_ ?_ ?_
      · intro _ _; exact hP'
      · intro v' hsome hv' hall _
        refine ⟨hP'.1, fun x hx hx' => ?_⟩
        have hxb : x ∈ visitBase fx.root batch st'.visited := ((hv' x).1 hx).elim (hall x) id
        have M : VMono st' { st' with visited := v' } :=
          ⟨id, ⟨id, id, id⟩, fun y hy => (hv' y).2 (Or.inr (visited_sub_base _ _ _ _ hy)), fun _ => Nat.le_refl _,
            fun _ => hsome⟩
        rcases hbase x hxb with h | h
        · exact (hP'.2 x h hx').elim Or.inl (fun h => Or.inr (VDone.mono M h))
        · exact Or.inl h
      · intro v' values hs hv' hsubv hcover _ _ _ _ hres
        have hI := ih _ _ hres
        have M := VMono.trans
          (VMono.enter st' roots (visitBase fx.root batch st'.visited) values v'
            (fun x hx => (hv' x).2 (Or.inr (visited_sub_base _ _ _ _ hx))) hs)
          (saveBatch_mono fx g roots fuel values _)
        refine ⟨fun m hm => Nat.le_trans (hP'.1 m hm) (M.2.2.2.1 m), fun x hx hx' => ?_⟩
        by_cases hx'' : x ∈ v'.getD []
        · have hold : x ∈ visitBase fx.root batch st'.visited → x ∈ batch ∨ VDone g (saveBatch fx g roots fuel values
              (st'.enter roots (visitBase fx.root batch st'.visited) values v')) x := by
            intro hb
            rcases hbase x hb with h | h
            · exact (hP'.2 x h hx').elim Or.inl (fun h => Or.inr (VDone.mono M h))
            · exact Or.inl h
          rcases (hv' x).1 hx'' with h | h
          · rcases hcover x h with h' | h'
            · exact Or.inr (hI.1 x h')
            · exact hold h'
          · exact hold h
        · exact Or.inr (hI.2 x hx (by rw [enter_visited]; exact hx''))
    · intro st' hP hok'
      exact hmove st' _ (VMono.log st' _ _) (fun _ h => h) (hP hok')
    · intro st' hP hok'
      exact hmove st' _ (VMono.log st' _ _) (fun _ h => h) (hP hok')

theorem visit_complete (fx : VFix) (g : VGraph) (roots existing : List Nat) (n : Nat) :
    VReach g roots n → 1 ≤ saveCount n (g.run fx roots existing).log := by
  intro hreach
  have hok := visit_terminates fx g roots existing
  unfold VGraph.run at hok ⊢
  have hc := saveBatch_complete fx g roots (g.size + 1) roots { keyed := existing } hok
  have hdone : ∀ x, x ∈ roots ∨ x ∈ (saveBatch fx g roots (g.size + 1) roots { keyed := existing }).visited.getD [] →
      VDone g (saveBatch fx g roots (g.size + 1) roots { keyed := existing }) x := by
    intro x hx
    rcases hx with h | h
    · exact hc.1 x h
    · exact hc.2 x h (by simp)
  have : n ∈ roots ∨ n ∈ (saveBatch fx g roots (g.size + 1) roots { keyed := existing }).visited.getD [] := by
    induction hreach with
    | root h => exact Or.inl h
    | step _ hs ht ihm => exact Or.inr ((hdone _ ihm).2 _ hs _ ht)
  exact (hdone n this).1

/-! ## 6. soundness -/

theorem saveBatch_sound (fx : VFix) (g : VGraph) (roots : List Nat) (hslots : g.nbefore ≤ g.nslots) :
    ∀ (fuel : Nat) (batch : List Nat) (st : VSt),
    (∀ m, m ∈ batch → VReach g roots m) → (∀ n, 1 ≤ saveCount n st.log → VReach g roots n) →
    ∀ n, 1 ≤ saveCount n (saveBatch fx g roots fuel batch st).log → VReach g roots n := by
  intro fuel
  induction fuel with
  | zero => intro batch st _ h; exact h
  | succ fuel ih =>
    intro batch st hb hst
    refine saveBatch_succ_inv (fun st' => ∀ n, 1 ≤ saveCount n st'.log → VReach g roots n)
      fx g roots fuel batch st ?_ ?_ ?_ ?_
    · intro n
      simp only [saveCount_append, saveCount_before]
      intro h
      by_cases hn : n ∈ batch
      · exact hb n hn
      · have : batch.count n = 0 := List.count_eq_zero.2 hn
        exact hst n (by omega)
    · intro st' s hs hP
      have hs' : s < g.nslots := by omega
      unfold slotStep
      refine saveAssoc_cases _ _ _ _ _ _ (fun r => ∀ n, 1 ≤ saveCount n r.log → VReach g roots n) ?_ ?_ ?_
      · intro _; exact hP
      · intro _ _ _ _; exact hP
      · intro v' values _ _ hsubv _ _ _ _ _
        refine ih _ _ ?_ hP
        intro e he
        obtain ⟨m, hm, hme⟩ := (group_mem g batch s st'.keyed e).1 (hsubv e he)
        exact VReach.step (hb m hm) hs' hme
    · intro st' hP n
      simp only [saveCount_append, saveCount_stmt]; exact hP n
    · intro st' hP n
      simp only [saveCount_append, saveCount_after]; exact hP n

theorem visit_sound (fx : VFix) (g : VGraph) (roots existing : List Nat) (n : Nat) (hslots : g.nbefore ≤ g.nslots) :
    1 ≤ saveCount n (g.run fx roots existing).log → VReach g roots n := by
  unfold VGraph.run
  exact saveBatch_sound fx g roots hslots (g.size + 1) roots { keyed := existing }
    (fun m hm => VReach.root hm) (fun n h => by simp [saveCount] at h) n

/-- without `nbefore ≤ nslots` soundness fails: the belongs-to loop runs slots `≥ nslots` too -/
def visitG5 : VGraph := { size := 2, nbefore := 1, nslots := 0, adj := [[[1]], []], dedupe := [] }

theorem visit_sound_needs_slots :
    saveCount 1 (visitG5.run {} [0] []).log = 1 ∧ ¬ VReach visitG5 [0] 1 := by
  refine ⟨by decide, ?_⟩
  intro h
  generalize hx : (1 : Nat) = x at h
  cases h with
  | root h => subst hx; simp at h
  | step _ hs _ => exact absurd hs (Nat.not_lt_zero _)

/-! ## 7. the repairs: a repaired guard keeps its pattern flag true -/

/-- F27 repaired (element-wise guard): no nested Create ever receives a record that is registered already -/
theorem saveBatch_cleanMixed (fx : VFix) (hf : fx.filter = true) (g : VGraph) (roots : List Nat) :
    ∀ (fuel : Nat) (batch : List Nat) (st : VSt), st.cleanMixed = true →
    (saveBatch fx g roots fuel batch st).cleanMixed = true := by
  intro fuel
  induction fuel with
  | zero => intro _ st h; exact h
  | succ fuel ih =>
    intro batch st h
    refine saveBatch_succ_inv (fun st' => st'.cleanMixed = true) fx g roots fuel batch st h ?_ (fun _ h => h)
      (fun _ h => h)
    intro st' s _ hP
    unfold slotStep
    refine saveAssoc_cases _ _ _ _ _ _ (fun r => r.cleanMixed = true) (fun _ => hP) (fun _ _ _ _ => hP) ?_
    intro v' values _ _ _ _ _ hfresh _ _
    apply ih
    simp only [VSt.enter, Bool.and_eq_true, List.all_eq_true, Bool.not_eq_true', List.contains_eq_mem,
      decide_eq_false_iff_not]
    exact ⟨hP, hfresh hf⟩

/-- F27 or F29 repaired: no nested Create ever receives a record twice -/
theorem saveBatch_cleanDup (fx : VFix) (hf : fx.filter = true ∨ fx.distinct = true) (g : VGraph) (roots : List Nat) :
    ∀ (fuel : Nat) (batch : List Nat) (st : VSt), st.cleanDup = true →
    (saveBatch fx g roots fuel batch st).cleanDup = true := by
  intro fuel
  induction fuel with
  | zero => intro _ st h; exact h
  | succ fuel ih =>
    intro batch st h
    refine saveBatch_succ_inv (fun st' => st'.cleanDup = true) fx g roots fuel batch st h ?_ (fun _ h => h)
      (fun _ h => h)
    intro st' s _ hP
    unfold slotStep
    refine saveAssoc_cases _ _ _ _ _ _ (fun r => r.cleanDup = true) (fun _ => hP) (fun _ _ _ _ => hP) ?_
    intro v' values _ _ _ _ _ _ hnd _
    apply ih
    simp only [VSt.enter, Bool.and_eq_true, nodupB_iff]
    exact ⟨hP, hnd hf⟩

/-- the operation's own value is registered in every visit map that exists -/
def RootsIn (roots : List Nat) (st : VSt) : Prop := ∀ V, st.visited = some V → ∀ r, r ∈ roots → r ∈ V

/-- F28 repaired (the map is created with the statement's own value registered; the first statement that saves an
    association is the operation's own): no nested Create ever receives an unregistered record of the operation's value -/
theorem saveBatch_cleanRoot (fx : VFix) (hr : fx.root = true) (g : VGraph) (roots : List Nat) :
    ∀ (fuel : Nat) (batch : List Nat) (st : VSt), st.cleanRoot = true → RootsIn roots st →
    (st.visited = none → batch = roots) →
    (saveBatch fx g roots fuel batch st).cleanRoot = true ∧ RootsIn roots (saveBatch fx g roots fuel batch st) := by
  intro fuel
  induction fuel with
  | zero => intro _ st h h' _; exact ⟨h, h'⟩
  | succ fuel ih =>
    intro batch st h hin htop
    have main := saveBatch_succ_inv
      (fun st' => st'.cleanRoot = true ∧ RootsIn roots st' ∧ (st'.visited = none → batch = roots))
      fx g roots fuel batch st ⟨h, hin, htop⟩ ?_ (fun _ h => h) (fun _ h => h)
    · exact ⟨main.1, main.2.1⟩
    intro st' s _ ⟨hc, hri, ht⟩
    have hbase : ∀ r, r ∈ roots → r ∈ visitBase fx.root batch st'.visited := by
      intro r hrr
      apply (mem_visitBase _ _ _ _).2
      cases hv : st'.visited with
      | none => exact Or.inr ⟨rfl, hr, by rw [ht hv]; exact hrr⟩
      | some V => exact Or.inl (by simpa using hri V hv r hrr)
    have hnew : ∀ v' : Option (List Nat), v'.isSome = true →
        (∀ x, x ∈ v'.getD [] ↔ x ∈ g.group batch s st'.keyed ∨ x ∈ visitBase fx.root batch st'.visited) →
        ∀ V, v' = some V → ∀ r, r ∈ roots → r ∈ V := by
      intro v' _ hv' V hV r hrr
      have := (hv' r).2 (Or.inr (hbase r hrr))
      simpa [hV] using this
    unfold slotStep
    refine saveAssoc_cases _ _ _ _ _ _
      (fun r => r.cleanRoot = true ∧ RootsIn roots r ∧ (r.visited = none → batch = roots)) ?_ ?_ ?_
    · intro _; exact ⟨hc, hri, ht⟩
    · intro v' hs hv' _
      exact ⟨hc, hnew v' hs hv', fun hn => by have hn' : v' = none := hn; subst hn'; simp at hs⟩
    · intro v' values hs hv' _ _ _ _ _ _
      have hres := ih values (st'.enter roots (visitBase fx.root batch st'.visited) values v') ?_ (hnew v' hs hv')
        (fun hn => by have hn' : v' = none := hn; subst hn'; simp at hs)
      · refine ⟨hres.1, hres.2, fun hn => ?_⟩
        have := (saveBatch_mono fx g roots fuel values
          (st'.enter roots (visitBase fx.root batch st'.visited) values v')).2.2.2.2 (by rw [enter_visited]; exact hs)
        simp [hn] at this
      · simp only [VSt.enter, Bool.and_eq_true, List.all_eq_true, Bool.not_eq_true', Bool.and_eq_false_iff,
          List.contains_eq_mem, decide_eq_false_iff_not, Bool.not_eq_false', decide_eq_true_eq]
        refine ⟨hc, fun e _ => ?_⟩
        by_cases her : e ∈ roots
        · exact Or.inr (hbase e her)
        · exact Or.inl her

theorem visit_cleanMixed (fx : VFix) (hf : fx.filter = true) (g : VGraph) (roots existing : List Nat) :
    (g.run fx roots existing).cleanMixed = true :=
  saveBatch_cleanMixed fx hf g roots _ _ _ rfl

theorem visit_cleanDup (fx : VFix) (hf : fx.filter = true ∨ fx.distinct = true) (g : VGraph)
    (roots existing : List Nat) : (g.run fx roots existing).cleanDup = true :=
  saveBatch_cleanDup fx hf g roots _ _ _ rfl

theorem visit_cleanRoot (fx : VFix) (hr : fx.root = true) (g : VGraph) (roots existing : List Nat) :
    (g.run fx roots existing).cleanRoot = true :=
  (saveBatch_cleanRoot fx hr g roots _ _ _ rfl (fun V h => by simp at h) (fun _ => rfl)).1

/-- each repair discharges the hypothesis about its own pattern -/
theorem visit_clean_of_fix (fx : VFix) (g : VGraph) (roots existing : List Nat)
    (h1 : fx.filter = false → (g.run fx roots existing).cleanMixed = true)
    (h2 : fx.root = false → (g.run fx roots existing).cleanRoot = true)
    (h3 : fx.filter = false → fx.distinct = false → (g.run fx roots existing).cleanDup = true) :
    (g.run fx roots existing).clean = true := by
  have a : (g.run fx roots existing).cleanMixed = true := by
    cases hf : fx.filter with
    | false => exact h1 hf
    | true => exact visit_cleanMixed fx hf g roots existing
  have b : (g.run fx roots existing).cleanRoot = true := by
    cases hr : fx.root with
    | false => exact h2 hr
    | true => exact visit_cleanRoot fx hr g roots existing
  have c : (g.run fx roots existing).cleanDup = true := by
    cases hf : fx.filter with
    | true => exact visit_cleanDup fx (Or.inl hf) g roots existing
    | false =>
      cases hd : fx.distinct with
      | true => exact visit_cleanDup fx (Or.inr hd) g roots existing
      | false => exact h3 hf hd
  simp [VSt.clean, a, b, c]

/-! ## 8. conservativity: where the unrepaired traversal is clean, every repaired traversal does exactly the same -/

theorem filterSaved_fresh_some (rf : Bool) (own : List Nat) (es V : List Nat) (hnd : es.Nodup)
    (hfresh : ∀ e, e ∈ es → e ∉ V) : (filterSaved rf own es (some V)).1 = es := by
  induction es generalizing V with
  | nil => rfl
  | cons e rest ih =>
    have he : e ∉ V := hfresh e List.mem_cons_self
    have hnd' := List.nodup_cons.1 hnd
    have hstep : checkSavedR rf own [e] (some V) = (false, some (e :: V)) := by
      simp [checkSavedR, checkSaved, loadOrStore, he]
    simp only [filterSaved, hstep, Bool.false_eq_true, if_false]
    rw [ih (e :: V) hnd'.2]
    intro x hx hv
    rcases List.mem_cons.1 hv with h | h
    · subst h; exact hnd'.1 hx
    · exact hfresh x (List.mem_cons_of_mem _ hx) h

theorem filterSaved_fresh (rf : Bool) (own es : List Nat) (v : Option (List Nat)) (hnd : es.Nodup)
    (hfresh : ∀ e, e ∈ es → e ∉ visitBase rf own v) : (filterSaved rf own es v).1 = es := by
  cases v with
  | some V => exact filterSaved_fresh_some rf own es V hnd (by simpa [visitBase] using hfresh)
  | none =>
    cases es with
    | nil => rfl
    | cons e rest =>
      have he : e ∉ visitBase rf own none := hfresh e List.mem_cons_self
      have hnd' := List.nodup_cons.1 hnd
      have hsome := checkSavedR_isSome rf own [e] none
      have hmem := fun x => checkSavedR_mem rf own [e] none x
      have hld := checkSavedR_loaded rf own [e] none (by simp)
      cases hc : checkSavedR rf own [e] none with
      | mk ld v1 =>
        rw [hc] at hsome hmem hld
        cases v1 with
        | none => simp at hsome
        | some V1 =>
          replace hmem : ∀ x, x ∈ V1 ↔ x = e ∨ x ∈ visitBase rf own none := fun x => by simpa using hmem x
          have hl : ld = false := by simpa [he] using hld
          subst hl
          simp only [filterSaved, hc, Bool.false_eq_true, if_false]
          rw [filterSaved_fresh_some rf own rest V1 hnd'.2]
          intro x hx hv
          rcases (hmem x).1 hv with h | h
          · subst h; exact hnd'.1 hx
          · exact hfresh x (List.mem_cons_of_mem _ hx) h

theorem saveGuard_fresh (fx : VFix) (own elems : List Nat) (v : Option (List Nat)) (hnd : elems.Nodup)
    (hfresh : ∀ e, e ∈ elems → e ∉ visitBase fx.root own v) : (saveGuard fx own elems v).1 = elems := by
  unfold saveGuard
  cases fx.filter with
  | true => simpa using filterSaved_fresh fx.root own elems v hnd hfresh
  | false => simp

/-- every record registered: the (repaired or unrepaired) guard skips the list -/
theorem saveAssoc_skip_eq (fx : VFix) (roots own : List Nat) (rec : List Nat → VSt → VSt) (elems : List Nat)
    (st : VSt) (hne : elems ≠ []) (hall : ∀ e, e ∈ elems → e ∈ visitBase fx.root own st.visited) :
    ∃ v' : Option (List Nat), saveAssoc fx roots own rec elems st = { st with visited := v' } ∧ v'.isSome = true ∧
      ∀ x, x ∈ v'.getD [] ↔ x ∈ elems ∨ x ∈ visitBase fx.root own st.visited := by
  obtain ⟨g1, g2, _, g4, _, _⟩ := saveGuard_spec fx own elems st.visited hne
  have hr : (saveGuard fx own elems st.visited).2.1 = true := by
    cases h : (saveGuard fx own elems st.visited).2.1 with
    | true => rfl
    | false =>
      obtain ⟨k1, _, e, he1, he2⟩ := g4 h
      exact absurd (hall e (k1 e he1)) he2
  refine ⟨(saveGuard fx own elems st.visited).2.2, ?_, g1, g2⟩
  unfold saveAssoc
  have : elems.isEmpty = false := by cases elems with | nil => exact absurd rfl hne | cons _ _ => rfl
  simp [this, hr]

/-- a repetition-free list of unregistered records: the (repaired or unrepaired) guard hands exactly that list to the
    nested Create -/
theorem saveAssoc_fresh_eq (fx : VFix) (roots own : List Nat) (rec : List Nat → VSt → VSt) (elems : List Nat)
    (st : VSt) (hne : elems ≠ []) (hnd : elems.Nodup)
    (hfresh : ∀ e, e ∈ elems → e ∉ visitBase fx.root own st.visited) :
    ∃ v' : Option (List Nat), saveAssoc fx roots own rec elems st =
        rec elems (st.enter roots (visitBase fx.root own st.visited) elems v') ∧ v'.isSome = true ∧
      ∀ x, x ∈ v'.getD [] ↔ x ∈ elems ∨ x ∈ visitBase fx.root own st.visited := by
  obtain ⟨g1, g2, g3, _, _, _⟩ := saveGuard_spec fx own elems st.visited hne
  have hr : (saveGuard fx own elems st.visited).2.1 = false := by
    cases h : (saveGuard fx own elems st.visited).2.1 with
    | false => rfl
    | true =>
      cases elems with
      | nil => exact absurd rfl hne
      | cons e rest => exact absurd (g3 h e List.mem_cons_self) (hfresh e List.mem_cons_self)
  have hv := saveGuard_fresh fx own elems st.visited hnd hfresh
  have hd : (if fx.distinct then distinctPtr elems [] else elems) = elems := by
    cases fx.distinct with
    | true => simpa using distinctPtr_of_nodup elems [] hnd (by simp)
    | false => rfl
  refine ⟨(saveGuard fx own elems st.visited).2.2, ?_, g1, g2⟩
  unfold saveAssoc
  have : elems.isEmpty = false := by cases elems with | nil => exact absurd rfl hne | cons _ _ => rfl
  simp only [this, Bool.false_eq_true, if_false, hr, hv, hd]

/-- two folds in lockstep; `good` (a property of the LEFT run) is known at the end and flows backwards -/
theorem vfoldl_sim {α σ τ : Type} (R : σ → τ → Prop) (good : σ → Prop) (f : σ → α → σ) (f' : τ → α → τ)
    (l : List α) (hback : ∀ s a, good (f s a) → good s)
    (hstep : ∀ s t a, a ∈ l → R s t → good (f s a) → R (f s a) (f' t a)) :
    ∀ s t, R s t → good (l.foldl f s) → R (l.foldl f s) (l.foldl f' t) := by
  induction l with
  | nil => intro s t h _; exact h
  | cons a l ih =>
    intro s t h hg
    simp only [List.foldl_cons] at hg ⊢
    have hga : good (f s a) := vfoldl_back good f l hback _ hg
    exact ih (fun s t b hb => hstep s t b (List.mem_cons_of_mem _ hb)) _ _
      (hstep s t a List.mem_cons_self h hga) hg

/-- the two visit maps hold the same records, apart from the operation's own value, which the F28 repair registers
    when the map is created -/
def VisSim (fx : VFix) (roots : List Nat) (vo vn : Option (List Nat)) : Prop :=
  (vo = none ∧ vn = none) ∨
  (∃ Vo Vn, vo = some Vo ∧ vn = some Vn ∧ ∀ x, x ∈ Vn ↔ x ∈ Vo ∨ (fx.root = true ∧ x ∈ roots))

/-- unrepaired run `so`, repaired run `sn`: same events, same keys, same fuel state, corresponding visit maps -/
def VSim (fx : VFix) (roots : List Nat) (so sn : VSt) : Prop :=
  so.log = sn.log ∧ so.keyed = sn.keyed ∧ so.ok = sn.ok ∧ VisSim fx roots so.visited sn.visited

theorem VisSim.of_mem (fx : VFix) (roots : List Nat) (vo vn : Option (List Nat)) (ho : vo.isSome = true)
    (hn : vn.isSome = true) (h : ∀ x, x ∈ vn.getD [] ↔ x ∈ vo.getD [] ∨ (fx.root = true ∧ x ∈ roots)) :
    VisSim fx roots vo vn := by
  cases vo with
  | none => simp at ho
  | some Vo =>
    cases vn with
    | none => simp at hn
    | some Vn => exact Or.inr ⟨Vo, Vn, rfl, rfl, by simpa using h⟩

/-- the bases of the two guards correspond -/
theorem VisSim.base (fx : VFix) (roots batch : List Nat) (vo vn : Option (List Nat)) (h : VisSim fx roots vo vn)
    (htop : vo = none → batch = roots) (x : Nat) :
    x ∈ visitBase fx.root batch vn ↔ x ∈ visitBase false batch vo ∨ (fx.root = true ∧ x ∈ roots) := by
  rcases h with ⟨h1, h2⟩ | ⟨Vo, Vn, h1, h2, h3⟩
  · subst h1; subst h2
    rw [htop rfl]
    cases fx.root <;> simp [visitBase]
  · subst h1; subst h2
    simpa [visitBase] using h3 x

theorem saveAssoc_sim (fx : VFix) (roots batch : List Nat) (recO recN : List Nat → VSt → VSt) (elems : List Nat)
    (so sn : VSt) (hsim : VSim fx roots so sn) (htop : so.visited = none → batch = roots)
    (hmonoO : ∀ b st, VMono st (recO b st))
    (hrec : ∀ values so' sn', VSim fx roots so' sn' → so'.visited.isSome = true → (recO values so').clean = true →
      VSim fx roots (recO values so') (recN values sn'))
    (hclean : (saveAssoc {} roots batch recO elems so).clean = true) :
    VSim fx roots (saveAssoc {} roots batch recO elems so) (saveAssoc fx roots batch recN elems sn) := by
  obtain ⟨hlog, hkey, hok, hvis⟩ := hsim
  have hbase := VisSim.base fx roots batch so.visited sn.visited hvis htop
  by_cases hE : elems = []
  · subst hE
    simp only [saveAssoc, List.isEmpty_nil, if_true]
    exact ⟨hlog, hkey, hok, hvis⟩
  revert hclean
  refine saveAssoc_cases _ _ _ _ _ _
    (fun r => r.clean = true → VSim fx roots r (saveAssoc fx roots batch recN elems sn)) ?_ ?_ ?_
  · intro h; exact absurd h hE
  · -- the unrepaired guard skipped: everything was registered, so it is for the repaired guard
    intro v' hs hv' hall _
    obtain ⟨w, hw1, hw2, hw3⟩ := saveAssoc_skip_eq fx roots batch recN elems sn hE
      (fun e he => (hbase e).2 (Or.inl (hall e he)))
    rw [hw1]
    refine ⟨hlog, hkey, hok, VisSim.of_mem fx roots v' w hs hw2 (fun x => ?_)⟩
    rw [hw3, hv', hbase]
    constructor
    · rintro (h | h | h)
      · exact Or.inl (Or.inl h)
      · exact Or.inl (Or.inr h)
      · exact Or.inr h
    · rintro ((h | h) | h)
      · exact Or.inl h
      · exact Or.inr (Or.inl h)
      · exact Or.inr (Or.inr h)
  · -- the unrepaired guard created the whole list; the run stays clean, so the list was fresh and repetition-free
    intro v' values hs hv' _ _ _ _ _ hval hres
    have hval' : values = elems := hval rfl rfl
    subst hval'
    have hc := (hmonoO _ _).clean hres
    obtain ⟨_, hall, hnd⟩ := enter_clean _ _ _ _ _ hc
    have hfresh : ∀ e, e ∈ values → e ∉ visitBase fx.root batch sn.visited := by
      intro e he hb
      rcases (hbase e).1 hb with h | ⟨_, h⟩
      · exact (hall e he).1 h
      · exact (hall e he).2 h
    obtain ⟨w, hw1, hw2, hw3⟩ := saveAssoc_fresh_eq fx roots batch recN values sn hE hnd hfresh
    rw [hw1]
    refine hrec values _ _ ⟨hlog, hkey, hok, VisSim.of_mem fx roots v' w hs hw2 (fun x => ?_)⟩ hs hres
    rw [hw3, hv', hbase]
    constructor
    · rintro (h | h | h)
      · exact Or.inl (Or.inl h)
      · exact Or.inl (Or.inr h)
      · exact Or.inr h
    · rintro ((h | h) | h)
      · exact Or.inl h
      · exact Or.inr (Or.inl h)
      · exact Or.inr (Or.inr h)

theorem saveBatch_sim (fx : VFix) (g : VGraph) (roots : List Nat) : ∀ (fuel : Nat) (batch : List Nat) (so sn : VSt),
    VSim fx roots so sn → (so.visited = none → batch = roots) →
    (saveBatch {} g roots fuel batch so).clean = true →
    VSim fx roots (saveBatch {} g roots fuel batch so) (saveBatch fx g roots fuel batch sn) := by
  intro fuel
  induction fuel with
  | zero =>
    intro batch so sn h _ _
    exact ⟨h.1, h.2.1, rfl, h.2.2.2⟩
  | succ fuel ih =>
    intro batch so sn hsim htop hclean
    -- the relation carried through the two slot loops
    let R : VSt → VSt → Prop := fun a b => VSim fx roots a b ∧ (a.visited = none → batch = roots)
    have hback : ∀ (a : VSt) (s : Nat), (slotStep {} g roots fuel batch a s).clean = true → a.clean = true :=
      fun a s h => (slotStep_mono {} g roots fuel batch a s).clean h
    have hstep : ∀ (a b : VSt) (s : Nat), R a b → (slotStep {} g roots fuel batch a s).clean = true →
        R (slotStep {} g roots fuel batch a s) (slotStep fx g roots fuel batch b s) := by
      intro a b s ⟨hab, hta⟩ hc
      refine ⟨?_, fun hn => ?_⟩
      · unfold slotStep at hc ⊢
        rw [← hab.2.1]
        exact saveAssoc_sim fx roots batch _ _ _ a b hab hta (fun b st => saveBatch_mono {} g roots fuel b st)
          (fun values so' sn' h hs hc' => ih values so' sn' h (fun hn => by simp [hn] at hs) hc') hc
      · apply hta
        have hm := (slotStep_mono {} g roots fuel batch a s).2.2.2.2
        cases hv : a.visited with
        | none => rfl
        | some V => simp [hv, hn] at hm
    rw [saveBatch_succ] at hclean
    rw [saveBatch_succ, saveBatch_succ]
    simp only [] at hclean ⊢
    -- the clean flag known at the end flows back through the second loop to the end of the first
    have hc4 := hclean
    have hc3 := (slotLoop_mono {} g roots fuel batch _ _).clean hc4
    have h1 : R { so with log := so.log ++ batch.map VEv.before } { sn with log := sn.log ++ batch.map VEv.before } :=
      ⟨⟨by simp [hsim.1], hsim.2.1, hsim.2.2.1, hsim.2.2.2⟩, htop⟩
    have h2 := vfoldl_sim R (fun a => a.clean = true) _ _ (List.range g.nbefore) hback
      (fun a b s _ h hc => hstep a b s h hc) _ _ h1 hc3
    have h3 : R { ((List.range g.nbefore).foldl (slotStep {} g roots fuel batch)
          { so with log := so.log ++ batch.map VEv.before }) with
          log := ((List.range g.nbefore).foldl (slotStep {} g roots fuel batch)
            { so with log := so.log ++ batch.map VEv.before }).log ++ [VEv.stmt batch],
          keyed := batch ++ ((List.range g.nbefore).foldl (slotStep {} g roots fuel batch)
            { so with log := so.log ++ batch.map VEv.before }).keyed }
        { ((List.range g.nbefore).foldl (slotStep fx g roots fuel batch)
          { sn with log := sn.log ++ batch.map VEv.before }) with
          log := ((List.range g.nbefore).foldl (slotStep fx g roots fuel batch)
            { sn with log := sn.log ++ batch.map VEv.before }).log ++ [VEv.stmt batch],
          keyed := batch ++ ((List.range g.nbefore).foldl (slotStep fx g roots fuel batch)
            { sn with log := sn.log ++ batch.map VEv.before }).keyed } :=
      ⟨⟨by simp [h2.1.1], by simp [h2.1.2.1], h2.1.2.2.1, h2.1.2.2.2⟩, h2.2⟩
    have h4 := vfoldl_sim R (fun a => a.clean = true) _ _ ((List.range (g.nslots - g.nbefore)).map (· + g.nbefore))
      hback (fun a b s _ h hc => hstep a b s h hc) _ _ h3 hc4
    exact ⟨by simp [h4.1.1], h4.1.2.1, h4.1.2.2.1, h4.1.2.2.2⟩

/-- on every graph on which the unrepaired traversal shows none of the three patterns, every repaired traversal
    produces the SAME event log: the same nested Creates over the same record lists in the same order (hence the same
    statements and the same table contents), the same hooks -/
theorem visit_fix_conservative (fx : VFix) (g : VGraph) (roots existing : List Nat)
    (hclean : (g.run {} roots existing).clean = true) :
    (g.run fx roots existing).log = (g.run {} roots existing).log := by
  unfold VGraph.run at hclean ⊢
  exact (saveBatch_sim fx g roots (g.size + 1) roots { keyed := existing } { keyed := existing }
    ⟨rfl, rfl, rfl, Or.inl ⟨rfl, rfl⟩⟩ (fun _ => rfl) hclean).1.symm

end Gorm
