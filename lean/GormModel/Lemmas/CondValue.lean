/-
  C02 round 4 — the TYPE of a condition value decides "scalar or list", never its KIND alone.
  Model/CondValue.lean: `mapArm` / `colArm` (statement.go BuildCondition), `cvEqText` / `cvNeqText` / `cvAddVarText`
  (clause/expression.go Eq.Build, Neq.Build; statement.go AddVar); guards = regenerated `Gen.mapSliceArmGuards`.
-/
import GormModel.Lemmas.Where
import GormModel.Model.CondValue
namespace Gorm

/-- today's source has both Valuer guards in the slice/array arm of the map branch (regenerated facts) -/
theorem genMapSliceGuards_full : genMapSliceGuards = { driverValuer := true, gormValuer := true } := by decide

theorem mapSliceArm_shape : Gen.mapSliceArmFound = true ∧ Gen.mapSliceArmInOnlyInElse = true := by decide

/-- A VALUER IS A SCALAR WHATEVER ITS KIND: a map value whose type implements `driver.Valuer` or gorm's `Valuer` becomes ONE
    `Eq` comparison — for every kind (struct, slice, array: uuid-style `[16]byte`, `type Tags []string`), every length,
    behind a pointer or not -/
theorem C02_valuer_map_value_is_scalar (v : GoVal) (h : v.dv = true ∨ v.gv = true) :
    mapArm genMapSliceGuards v = .eq := by
  rw [genMapSliceGuards_full]
  unfold mapArm
  rcases h with h | h <;> cases hk : v.kind.isList <;> cases hd : v.dv <;> simp_all

/-- "slice values mean IN" applies to PLAIN lists: kind slice/array and no Valuer ⇒ ONE `IN` over all `len` elements
    (whichever guards the source has) -/
theorem C02_plain_list_map_value_is_in (g : MapSliceGuards) (v : GoVal) (hk : v.kind.isList = true)
    (hd : v.dv = false) (hg : v.gv = false) : mapArm g v = .inList v.len := by
  simp [mapArm, hk, hd, hg]

/-- the dispatch of the map branch is EXACTLY (kind, implements Valuer) -/
theorem C02_map_arm_in_iff (v : GoVal) (n : Nat) :
    mapArm genMapSliceGuards v = .inList n ↔ (v.kind.isList = true ∧ v.dv = false ∧ v.gv = false ∧ n = v.len) := by
  rw [genMapSliceGuards_full]
  unfold mapArm
  cases hk : v.kind.isList <;> cases hd : v.dv <;> cases hg : v.gv <;> simp [eq_comm]

/-- every other kind (basic, struct, nil, nil pointer) is ONE `Eq` -/
theorem C02_map_arm_non_list (g : MapSliceGuards) (v : GoVal) (hk : v.kind.isList = false) : mapArm g v = .eq := by
  simp [mapArm, hk]

/-- `Where("col", v)` is ONE `Eq` for every value -/
theorem C02_col_value_is_one_eq (v : GoVal) : colArm v = .eq := rfl

/-- a Valuer reaches the database as ONE bound parameter -/
theorem addVarText_valuer (v : GoVal) (h : v.dv = true ∨ v.gv = true) : cvAddVarText v = "?" := by
  unfold cvAddVarText
  rcases h with h | h <;> cases hg : v.gv <;> simp_all

/-- … so the unit reads `col = ?` (`col IS NULL` when the Valuer yields nil), its negation `col <> ?` / `IS NOT NULL`:
    never an IN list, never more than one placeholder -/
theorem C02_valuer_text (col : String) (v : GoVal) (h : v.dv = true ∨ v.gv = true) (hw : v.wellTyped = true) :
    cvEqText col v = col ++ (if v.isNil then " IS NULL" else " = ?") ∧
    cvNeqText col v = col ++ (if v.isNil then " IS NOT NULL" else " <> ?") := by
  have hl : v.eqListed = false := by
    cases hl : v.eqListed
    · rfl
    · simp [GoVal.wellTyped, hl] at hw
      rcases h with h | h <;> simp_all
  simp [cvEqText, cvNeqText, hl, addVarText_valuer v h]

/-- the model's two renderings agree: `cvEqText` is the text of the WHERE model's `Eq` atom with `valShape`, whenever the value
    is bound as one parameter (or is a listed slice with at least two … any number of elements) -/
theorem cvEqText_eq_atom_text (col : String) (id : Nat) (v : GoVal) (h1 : v.oneVar = true) :
    cvEqText col v = ({ col := col, kind := .eq, val := v.valShape, id := id } : Atom).text := by
  have h1' : cvAddVarText v = "?" := by simpa [GoVal.oneVar] using h1
  unfold cvEqText GoVal.valShape Atom.text
  cases hl : v.eqListed
  · cases hn : v.isNil <;> simp [h1']
  · cases hlen : v.len with
    | zero => simp
    | succ n => simp

/-- the comparison built for a Valuer map value, as an atom of the WHERE model: `col = ?` / `col IS NULL` -/
theorem C02_valuer_map_atom (col : String) (id : Nat) (v : GoVal) (h : v.dv = true ∨ v.gv = true) (hw : v.wellTyped = true) :
    (mapAtom genMapSliceGuards col id v).text = col ++ (if v.isNil then " IS NULL" else " = ?") ∧
    (mapAtom genMapSliceGuards col id v).negate.text = col ++ (if v.isNil then " IS NOT NULL" else " <> ?") := by
  have hl : v.eqListed = false := by
    cases hl : v.eqListed
    · rfl
    · simp [GoVal.wellTyped, hl] at hw
      rcases h with h | h <;> simp_all
  simp only [mapAtom, C02_valuer_map_value_is_scalar v h, GoVal.valShape, hl]
  cases v.isNil <;> simp [Atom.text, Atom.negate, AtomKind.negate]

/-- THE UNIT: `Where(map{col: valuer})` selects exactly the rows for which its ONE base predicate (`col = Value()`) is TRUE,
    `Not(map{col: valuer})` exactly those for which it is FALSE — for every environment -/
theorem C02_valuer_map_unit (env : Nat → V3) (col : String) (id : Nat) (v : GoVal) (h : v.dv = true ∨ v.gv = true) :
    unitVal env (.atom (mapAtom genMapSliceGuards col id v)) = env id ∧
    unitVal env (.atom (mapAtom genMapSliceGuards col id v).negate) = (env id).not := by
  simp only [mapAtom, C02_valuer_map_value_is_scalar v h]
  constructor
  · rw [unitVal_cmp]; rfl
  · rw [unitVal_cmp, cmpVal_negate]; rfl

/-- a plain list of n elements is ONE `IN` atom over n elements (round 3's `mapEntryAtom … (.slice es)`) -/
theorem C02_plain_list_map_atom (g : MapSliceGuards) (col : String) (id : Nat) (v : GoVal) (hk : v.kind.isList = true)
    (hd : v.dv = false) (hg : v.gv = false) :
    mapAtom g col id v = mapEntryAtom col id (.slice (List.replicate v.len Elem.val)) := by
  simp [mapAtom, C02_plain_list_map_value_is_in g v hk hd hg, mapEntryAtom]

/-- what dropping the guards would do (kernel-checked witness): a uuid-style `[16]byte` Valuer and a two-element
    `type Tags []string` Valuer are exploded into IN lists of their elements -/
theorem C02_map_guards_dropped_counterexample :
    let uuid : GoVal := { kind := .array, len := 16, direct := true, dv := true, gv := false, eqListed := false, isNil := false, elemByte := true }
    let tags : GoVal := { kind := .slice, len := 2, direct := true, dv := true, gv := false, eqListed := false, isNil := false, elemByte := false }
    let none : MapSliceGuards := { driverValuer := false, gormValuer := false }
    mapArm genMapSliceGuards uuid = .eq ∧ mapArm none uuid = .inList 16 ∧
    (mapAtom genMapSliceGuards "tags" 0 tags).text = "tags = ?" ∧ (mapAtom none "tags" 0 tags).text = "tags IN (?,?)" := by
  decide

/-- dropping only ONE of the two guards is visible too: a gorm Valuer (GormValue) of slice kind -/
theorem C02_map_gorm_guard_dropped_counterexample :
    let g : GoVal := { kind := .slice, len := 3, direct := true, dv := false, gv := true, eqListed := false, isNil := false, elemByte := false }
    mapArm genMapSliceGuards g = .eq ∧ mapArm { driverValuer := true, gormValuer := false } g = .inList 3 := by
  decide

/-- non-vacuity: a well-typed Valuer of slice kind behind a pointer, and a listed plain slice -/
example :
    (({ kind := .slice, len := 2, direct := false, dv := true, gv := false, eqListed := false, isNil := false, elemByte := false } : GoVal).wellTyped = true) ∧
    (({ kind := .slice, len := 2, direct := true, dv := false, gv := false, eqListed := true, isNil := false, elemByte := false } : GoVal).wellTyped = true) := by
  decide

end Gorm
