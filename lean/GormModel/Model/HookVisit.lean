/-
  C13 (round 3) — the association-save traversal of ONE operation over an in-memory association GRAPH
  (records = pointers, possibly shared: diamonds, back-pointers, cycles, the same record under two relations).

  Transcribes
    callbacks/helper.go       loadOrStoreVisitMap           -> Gorm.loadOrStore
    callbacks/associations.go checkAssociationsSaved        -> Gorm.checkSaved
    callbacks/associations.go saveAssociations              -> Gorm.saveAssoc  (the "stop save association loop" guard
                                                               + the nested Create that inherits Statement.Settings,
                                                               i.e. the SAME visit map)
    callbacks/associations.go SaveBeforeAssociations / SaveAfterAssociations (which records of which relation are
                              collected over the statement's value(s), the identityMap de-duplication by primary key)
                                                            -> Gorm.VGraph.group
    callbacks/callbacks.go    create / update pipeline order: before-hooks, save_before_associations (belongs-to),
                              the statement, save_after_associations (has-one, has-many, many2many), after-hooks
                                                            -> Gorm.saveBatch

  The three repairs of this code (F27 element-wise guard, F28 the statement's own value registered when the visit map
  is created, F29 pointer de-duplication before the nested Create) are PARAMETERS of the model (`VFix`); which of them
  the tree under check carries is a regenerated fact (Gen/VisitFix.lean -> `Gorm.genVisitFix`).
  Core Lean + Gen.VisitFix only.
-/
import GormModel.Gen.VisitFix
namespace Gorm

/-- which repairs the association-save code carries.
    `filter`   (F27) saveAssociations: `for i … { if !checkAssociationsSaved(db, rValues.Index(i)) { unsaved = append(unsaved, …) } }`
               -- the records are tested one by one and only the ones not saved yet are created;
    `root`     (F28) checkAssociationsSaved, no map yet: `loadOrStoreVisitMap(&vistMap, db.Statement.ReflectValue)` before
               the look-up, and the look-up's answer is returned (not the constant false);
    `distinct` (F29) saveAssociations: `values = distinctPointers(rValues).Interface()`.
    All false = the code of the pinned commit. -/
structure VFix where
  filter : Bool := false
  root : Bool := false
  distinct : Bool := false
deriving Repr, DecidableEq

/-- the repairs present in the tree the facts were regenerated from -/
def genVisitFix : VFix := { filter := Gen.visitFilter, root := Gen.visitRoot, distinct := Gen.visitDistinct }

/-- the in-memory association graph of one operation.  A node is an in-memory record (identity = address, what
    `visitMap` keys on).  `adj[n][s]` = the records held by relation slot `s` of record `n`, in field / slice order.
    Slots `[0, nbefore)` are the belongs-to relations (saved BEFORE the owner's statement), `[nbefore, nslots)` the
    has-one / has-many / many2many relations (saved AFTER it), both in `Schema.Relationships` order. -/
structure VGraph where
  size : Nat
  nbefore : Nat
  nslots : Nat
  adj : List (List (List Nat))
  /-- slot → the call site filters the collected records through `identityMap` (equal non-zero primary key = same
      record): belongs-to over a slice, has-many, many2many; NOT has-one -/
  dedupe : List Bool
deriving Repr

/-- events of the traversal: the before-hooks of a record (BeforeSave, BeforeCreate|BeforeUpdate), the statement of a
    batch, the after-hooks of a record (AfterCreate|AfterUpdate, AfterSave) -/
inductive VEv where
  | before (n : Nat)
  | stmt (batch : List Nat)
  | after (n : Nat)
deriving Repr, DecidableEq

/-- `loadOrStoreVisitMap(visitMap, v)` for a slice `v` of records: `loaded` starts true, every element is looked up AND
    stored (no short circuit), `loaded` becomes false as soon as one element was not in the map before. -/
def loadOrStore : List Nat → List Nat → Bool × List Nat
  | V, [] => (true, V)
  | V, e :: rest =>
    let r := loadOrStore (if V.contains e then V else e :: V) rest
    (V.contains e && r.1, r.2)

/-- `checkAssociationsSaved(db, values)`: `none` = no visit map in Statement.Settings yet: a map is created, the values
    are registered in it, and the answer is "not saved"; otherwise the answer is loadOrStoreVisitMap's. -/
def checkSaved (elems : List Nat) : Option (List Nat) → Bool × Option (List Nat)
  | some V => let r := loadOrStore V elems; (r.1, some r.2)
  | none => (false, some (loadOrStore [] elems).2)

/-- `checkAssociationsSaved` with the F28 repair as a parameter: when there is no visit map yet and `rootFix`, the map
    is created with the statement's own value(s) `own` (db.Statement.ReflectValue) registered and the look-up of
    `elems` in THAT map is the answer. -/
def checkSavedR (rootFix : Bool) (own elems : List Nat) : Option (List Nat) → Bool × Option (List Nat)
  | none =>
    if rootFix then
      let r := loadOrStore (loadOrStore [] own).2 elems
      (r.1, some r.2)
    else checkSaved elems none
  | some V => checkSaved elems (some V)

/-- the loop of the F27 repair: `checkAssociationsSaved(db, rValues.Index(i))` for every element in order; the elements
    answered "not saved" are kept (each look-up also registers, so a pointer that occurs twice is kept once) -/
def filterSaved (rootFix : Bool) (own : List Nat) : List Nat → Option (List Nat) → List Nat × Option (List Nat)
  | [], v => ([], v)
  | e :: rest, v =>
    let r := checkSavedR rootFix own [e] v
    let q := filterSaved rootFix own rest r.2
    (if r.1 then q.1 else e :: q.1, q.2)

/-- `distinctPointers` (F29 repair): the first occurrence of every pointer -/
def distinctPtr : List Nat → List Nat → List Nat
  | [], _ => []
  | e :: rest, seen => if seen.contains e then distinctPtr rest seen else e :: distinctPtr rest (e :: seen)

structure VSt where
  /-- the visit map shared (through Statement.Settings) by all nested saves of the operation -/
  visited : Option (List Nat) := none
  /-- records whose primary key is non-zero (set by the application, or by the INSERT of their batch) -/
  keyed : List Nat := []
  log : List VEv := []
  /-- the recursion fuel never ran out -/
  ok : Bool := true
  /-- F27 pattern never occurred: no executed association batch held a record that was registered in the visit map -/
  cleanMixed : Bool := true
  /-- F28 pattern never occurred: no executed association batch held an UNREGISTERED record of the operation's own value -/
  cleanRoot : Bool := true
  /-- F29 pattern never occurred: no executed association batch held a record twice -/
  cleanDup : Bool := true
deriving Repr

/-- none of the three listed patterns occurred -/
def VSt.clean (st : VSt) : Bool := st.cleanMixed && st.cleanRoot && st.cleanDup

def VGraph.targets (g : VGraph) (n s : Nat) : List Nat :=
  ((g.adj.getD n []).getD s []).filter (fun t => decide (t < g.size))

/-- the `identityMap` filter: a record whose primary key is non-zero is kept only the first time -/
def dedupeKeyed (keyed : List Nat) : List Nat → List Nat → List Nat
  | [], _ => []
  | e :: rest, seen =>
    if keyed.contains e && seen.contains e then dedupeKeyed keyed rest seen
    else e :: dedupeKeyed keyed rest (e :: seen)

/-- the records relation slot `s` collects over all values of the statement (`batch`) -/
def VGraph.group (g : VGraph) (batch : List Nat) (s : Nat) (keyed : List Nat) : List Nat :=
  let all := batch.flatMap (fun n => g.targets n s)
  if g.dedupe.getD s true then dedupeKeyed keyed all [] else all

def nodupB : List Nat → Bool
  | [] => true
  | e :: rest => !rest.contains e && nodupB rest

/-- the records registered in the visit map as `checkAssociationsSaved` sees them: the map's content, or -- no map yet,
    F28 repair present -- the statement's own value(s) the new map starts with -/
def visitBase (rootFix : Bool) (own : List Nat) : Option (List Nat) → List Nat
  | some V => V
  | none => if rootFix then own else []

/-- the state in which the nested Create of `values` starts: the visit map after the guard, and the three pattern
    flags (`B` = the records that were registered when the guard ran) -/
def VSt.enter (st : VSt) (roots B values : List Nat) (v' : Option (List Nat)) : VSt :=
  { st with
    visited := v',
    cleanMixed := st.cleanMixed && values.all (fun e => !B.contains e),
    cleanRoot := st.cleanRoot && values.all (fun e => !(roots.contains e && !B.contains e)),
    cleanDup := st.cleanDup && nodupB values }

/-- the guard of saveAssociations: (records to create, "nothing to save", visit map afterwards) -/
def saveGuard (fx : VFix) (own elems : List Nat) (v : Option (List Nat)) : List Nat × Bool × Option (List Nat) :=
  if fx.filter then
    let q := filterSaved fx.root own elems v
    (q.1, q.1.isEmpty, q.2)
  else
    let q := checkSavedR fx.root own elems v
    (elems, q.1, q.2)

/-- `if elems.Len() > 0 { saveAssociations(db, rel, elems, …) }`.
    Unrepaired: skipped when every record is registered already, otherwise ALL of `elems` are created by one nested
    Create (`rec`) sharing the visit map.  With `fx.filter` only the records not registered yet are created (skipped when
    none is left); with `fx.distinct` the list handed to the nested Create is de-duplicated.  `own` = the values of the
    statement that runs this callback (db.Statement.ReflectValue). -/
def saveAssoc (fx : VFix) (roots own : List Nat) (rec : List Nat → VSt → VSt) (elems : List Nat) (st : VSt) : VSt :=
  if elems.isEmpty then st
  else
    let r := saveGuard fx own elems st.visited
    if r.2.1 then { st with visited := r.2.2 }
    else
      rec (if fx.distinct then distinctPtr r.1 [] else r.1)
        (st.enter roots (visitBase fx.root own st.visited) (if fx.distinct then distinctPtr r.1 [] else r.1) r.2.2)

/-- one Create/Update pipeline run over the values `batch` -/
def saveBatch (fx : VFix) (g : VGraph) (roots : List Nat) : Nat → List Nat → VSt → VSt
  | 0, _, st => { st with ok := false }
  | fuel+1, batch, st =>
    let st1 := { st with log := st.log ++ batch.map VEv.before }
    let st2 := (List.range g.nbefore).foldl
      (fun st s => saveAssoc fx roots batch (saveBatch fx g roots fuel) (g.group batch s st.keyed) st) st1
    let st3 := { st2 with log := st2.log ++ [VEv.stmt batch], keyed := batch ++ st2.keyed }
    let st4 := ((List.range (g.nslots - g.nbefore)).map (· + g.nbefore)).foldl
      (fun st s => saveAssoc fx roots batch (saveBatch fx g roots fuel) (g.group batch s st.keyed) st) st3
    { st4 with log := st4.log ++ batch.map VEv.after }

/-- the whole operation: `roots` = the record(s) the finisher was called with, `existing` = records whose primary key
    is already set.  Fuel `size + 1` suffices (C13_visit_terminates). -/
def VGraph.run (g : VGraph) (fx : VFix) (roots existing : List Nat) : VSt :=
  saveBatch fx g roots (g.size + 1) roots { keyed := existing }

/-- how often the before-hooks of record `n` fired -/
def saveCount (n : Nat) (log : List VEv) : Nat := log.count (VEv.before n)

/-- how often the after-hooks of record `n` fired -/
def afterCount (n : Nat) (log : List VEv) : Nat := log.count (VEv.after n)

/-- reachability through association fields -/
inductive VReach (g : VGraph) (roots : List Nat) : Nat → Prop where
  | root {n} : n ∈ roots → VReach g roots n
  | step {m t s} : VReach g roots m → s < g.nslots → t ∈ g.targets m s → VReach g roots t

end Gorm
