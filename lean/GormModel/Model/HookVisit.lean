/-
  C13 (round 3) — the association-save traversal of ONE operation over an in-memory association GRAPH
  (records = pointers, possibly shared: diamonds, back-pointers, cycles, the same record under two relations).

  Transcribes
    callbacks/helper.go       loadOrStoreVisitMap           -> Gorm.loadOrStore
    callbacks/associations.go checkAssociationsSaved        -> Gorm.checkSaved
    callbacks/associations.go saveAssociations              -> Gorm.saveAssoc  (the "stop save association loop" guard
                                                               + the nested Create that inherits Statement.Settings,
                                                               i.e. the SAME visit map)
    callbacks/associations.go SaveBeforeAssociations / SaveAfterAssociations (which records of which relation are
                              collected over the statement's value(s), the identityMap de-duplication by primary key)
                                                            -> Gorm.VGraph.group
    callbacks/callbacks.go    create / update pipeline order: before-hooks, save_before_associations (belongs-to),
                              the statement, save_after_associations (has-one, has-many, many2many), after-hooks
                                                            -> Gorm.saveBatch
  Core Lean only.
-/
namespace Gorm

/-- the in-memory association graph of one operation.  A node is an in-memory record (identity = address, what
    `visitMap` keys on).  `adj[n][s]` = the records held by relation slot `s` of record `n`, in field / slice order.
    Slots `[0, nbefore)` are the belongs-to relations (saved BEFORE the owner's statement), `[nbefore, nslots)` the
    has-one / has-many / many2many relations (saved AFTER it), both in `Schema.Relationships` order. -/
structure VGraph where
  size : Nat
  nbefore : Nat
  nslots : Nat
  adj : List (List (List Nat))
  /-- slot → the call site filters the collected records through `identityMap` (equal non-zero primary key = same
      record): belongs-to over a slice, has-many, many2many; NOT has-one -/
  dedupe : List Bool
deriving Repr

/-- events of the traversal: the before-hooks of a record (BeforeSave, BeforeCreate|BeforeUpdate), the statement of a
    batch, the after-hooks of a record (AfterCreate|AfterUpdate, AfterSave) -/
inductive VEv where
  | before (n : Nat)
  | stmt (batch : List Nat)
  | after (n : Nat)
deriving Repr, DecidableEq

/-- `loadOrStoreVisitMap(visitMap, v)` for a slice `v` of records: `loaded` starts true, every element is looked up AND
    stored (no short circuit), `loaded` becomes false as soon as one element was not in the map before. -/
def loadOrStore : List Nat → List Nat → Bool × List Nat
  | V, [] => (true, V)
  | V, e :: rest =>
    let r := loadOrStore (if V.contains e then V else e :: V) rest
    (V.contains e && r.1, r.2)

/-- `checkAssociationsSaved(db, values)`: `none` = no visit map in Statement.Settings yet: a map is created, the values
    are registered in it, and the answer is "not saved"; otherwise the answer is loadOrStoreVisitMap's. -/
def checkSaved (elems : List Nat) : Option (List Nat) → Bool × Option (List Nat)
  | some V => let r := loadOrStore V elems; (r.1, some r.2)
  | none => (false, some (loadOrStore [] elems).2)

structure VSt where
  /-- the visit map shared (through Statement.Settings) by all nested saves of the operation -/
  visited : Option (List Nat) := none
  /-- records whose primary key is non-zero (set by the application, or by the INSERT of their batch) -/
  keyed : List Nat := []
  log : List VEv := []
  /-- the recursion fuel never ran out -/
  ok : Bool := true
  /-- no executed association batch mixed registered with unregistered records, held a record twice, or held a
      record of the operation's own (root) value -/
  clean : Bool := true
deriving Repr

def VGraph.targets (g : VGraph) (n s : Nat) : List Nat :=
  ((g.adj.getD n []).getD s []).filter (fun t => decide (t < g.size))

/-- the `identityMap` filter: a record whose primary key is non-zero is kept only the first time -/
def dedupeKeyed (keyed : List Nat) : List Nat → List Nat → List Nat
  | [], _ => []
  | e :: rest, seen =>
    if keyed.contains e && seen.contains e then dedupeKeyed keyed rest seen
    else e :: dedupeKeyed keyed rest (e :: seen)

/-- the records relation slot `s` collects over all values of the statement (`batch`) -/
def VGraph.group (g : VGraph) (batch : List Nat) (s : Nat) (keyed : List Nat) : List Nat :=
  let all := batch.flatMap (fun n => g.targets n s)
  if g.dedupe.getD s true then dedupeKeyed keyed all [] else all

def nodupB : List Nat → Bool
  | [] => true
  | e :: rest => !rest.contains e && nodupB rest

/-- `if elems.Len() > 0 { saveAssociations(db, rel, elems, …) }`: skipped when every record is registered already,
    otherwise ALL of `elems` are created by one nested Create (`rec`) sharing the visit map. -/
def saveAssoc (roots : List Nat) (rec : List Nat → VSt → VSt) (elems : List Nat) (st : VSt) : VSt :=
  if elems.isEmpty then st
  else
    let r := checkSaved elems st.visited
    if r.1 then { st with visited := r.2 }
    else
      let V := st.visited.getD []
      let cleanNow := elems.all (fun e => !V.contains e && !roots.contains e) && nodupB elems
      rec elems { st with visited := r.2, clean := st.clean && cleanNow }

/-- one Create/Update pipeline run over the values `batch` -/
def saveBatch (g : VGraph) (roots : List Nat) : Nat → List Nat → VSt → VSt
  | 0, _, st => { st with ok := false }
  | fuel+1, batch, st =>
    let st1 := { st with log := st.log ++ batch.map VEv.before }
    let st2 := (List.range g.nbefore).foldl
      (fun st s => saveAssoc roots (saveBatch g roots fuel) (g.group batch s st.keyed) st) st1
    let st3 := { st2 with log := st2.log ++ [VEv.stmt batch], keyed := batch ++ st2.keyed }
    let st4 := ((List.range (g.nslots - g.nbefore)).map (· + g.nbefore)).foldl
      (fun st s => saveAssoc roots (saveBatch g roots fuel) (g.group batch s st.keyed) st) st3
    { st4 with log := st4.log ++ batch.map VEv.after }

/-- the whole operation: `roots` = the record(s) the finisher was called with, `existing` = records whose primary key
    is already set.  Fuel `size + 1` suffices (C13_visit_terminates). -/
def VGraph.run (g : VGraph) (roots existing : List Nat) : VSt :=
  saveBatch g roots (g.size + 1) roots { keyed := existing }

/-- how often the before-hooks of record `n` fired -/
def saveCount (n : Nat) (log : List VEv) : Nat := log.count (VEv.before n)

/-- how often the after-hooks of record `n` fired -/
def afterCount (n : Nat) (log : List VEv) : Nat := log.count (VEv.after n)

/-- reachability through association fields -/
inductive VReach (g : VGraph) (roots : List Nat) : Nat → Prop where
  | root {n} : n ∈ roots → VReach g roots n
  | step {m t s} : VReach g roots m → s < g.nslots → t ∈ g.targets m s → VReach g roots t

end Gorm
