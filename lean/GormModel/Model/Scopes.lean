/-
  C09 (round 4) — conditions supplied ONLY through `db.Scopes(f₁, f₂, …)`.

  chainable_api.go `(*DB).executeScopes` (called first thing by callbacks.go `(*processor).Execute`, in a loop while scopes
  are pending):

      scopes := db.Statement.scopes
      db.Statement.scopes = nil
      for _, scope := range scopes { db = scope(db) }
      return db

  A scope either works IN PLACE (inside Execute the handle has clone = 0, so `d.Where(..)` mutates `d.Statement` and returns
  `d`) or returns a DERIVED handle (`d.WithContext(ctx).Where(..)`, `d.Session(&gorm.Session{}).Where(..)`,
  `d.Debug().Where(..)`: gorm.go `getInstance` CLONES the statement on the first chain call).  What the guard
  (`checkMissingWhereConditions`) later sees is the WHERE entry of the statement of the handle executeScopes RETURNS.

  `execScopes threaded` transcribes both loop shapes: `threaded = true` is the code above (regenerated fact
  `Gen.scopesThreaded`, extract/gen_c09_scopes.go); `threaded = false` is the shape `tx = db; for … { tx = scope(db) };
  return tx` (every scope receives the ORIGINAL handle, only the last result is kept).
-/
import GormModel.Model.Where
import GormModel.Gen.ScopeFacts
namespace Gorm

/-- one scope function, as far as the statement's WHERE entry is concerned -/
structure Scope where
  conds : List Nat   -- ids of the conditions it adds (Where/Not/Or with a non-empty form), in call order
  derive : Bool      -- it returns a DERIVED handle (cloned statement) instead of the handle it was given
deriving DecidableEq, Repr

/-- the handles in play while executeScopes runs -/
structure ScopeRun where
  orig : List Nat      -- WHERE of the statement of the handle executeScopes was called on
  ret : List Nat       -- WHERE of the statement of the handle returned so far
  retIsOrig : Bool     -- … and whether that handle still shares the original Statement
deriving DecidableEq, Repr

/-- `db = scope(db)`: the scope receives the handle returned so far -/
def scopeStepThreaded (r : ScopeRun) (s : Scope) : ScopeRun :=
  if s.derive then { orig := r.orig, ret := r.ret ++ s.conds, retIsOrig := false }
  else if r.retIsOrig then { orig := r.orig ++ s.conds, ret := r.ret ++ s.conds, retIsOrig := true }
  else { r with ret := r.ret ++ s.conds }

/-- `tx = scope(db)`: every scope receives the ORIGINAL handle; only the last result is kept -/
def scopeStepUnthreaded (r : ScopeRun) (s : Scope) : ScopeRun :=
  if s.derive then { orig := r.orig, ret := r.orig ++ s.conds, retIsOrig := false }
  else { orig := r.orig ++ s.conds, ret := r.orig ++ s.conds, retIsOrig := true }

def execScopes (threaded : Bool) (scopes : List Scope) (init : List Nat) : ScopeRun :=
  scopes.foldl (if threaded then scopeStepThreaded else scopeStepUnthreaded) { orig := init, ret := init, retIsOrig := true }

/-- the WHERE entry of the statement the finisher (and the guard) continues with -/
def scopesWhere (threaded : Bool) (scopes : List Scope) (init : List Nat) : List Nat := (execScopes threaded scopes init).ret

/-- the guard's view of that statement on a plain model: no entry at all when nothing was added -/
def scopesGuardState (mk : Nat → Ex) (l : List Nat) : WhereState :=
  { exprs := if l.isEmpty then none else some (l.map mk), softEnabled := false }

end Gorm
