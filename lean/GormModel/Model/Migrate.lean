/-
  Model of migrator/migrator.go `MigrateColumn`, `MigrateColumnUnique`, `FullDataTypeOf`, `AutoMigrate`,
  `ReorderModels` and schema/index.go `ParseIndexes`.

  Strings are `List Char` (ASCII case folding only: the harness generates ASCII).  The database is an abstract
  catalog; what a dialect reports for a column it created from a field declaration is a function
  `reflect : FieldDecl → ColumnInfo` (for SQLite: gorm.io/driver/sqlite's DDL parser, outside /repo, trusted).
-/
namespace Gorm.Mig

abbrev Str := List Char

/-! ### string helpers (strings.ToLower / TrimSpace / HasPrefix / TrimSuffix / EqualFold, regexp shapes) -/

def lowerC (c : Char) : Char := if 'A' ≤ c ∧ c ≤ 'Z' then Char.ofNat (c.toNat + 32) else c
def lower (s : Str) : Str := s.map lowerC
def isSpace (c : Char) : Bool := c = ' ' || c = '\t' || c = '\n' || c = '\r' || c = Char.ofNat 11 || c = Char.ofNat 12
def trimLeft (s : Str) : Str := s.dropWhile isSpace
def trimRight (s : Str) : Str := (s.reverse.dropWhile isSpace).reverse
/-- strings.TrimSpace -/
def trimSpace (s : Str) : Str := trimRight (trimLeft s)
/-- strings.HasPrefix s p -/
def hasPrefix (s p : Str) : Bool := p.isPrefixOf s
/-- strings.TrimSuffix -/
def trimSuffix (s suf : Str) : Str := if suf.isSuffixOf s then s.take (s.length - suf.length) else s
/-- strings.EqualFold (ASCII) -/
def equalFold (a b : Str) : Bool := lower a == lower b
def isDigit (c : Char) : Bool := '0' ≤ c && c ≤ '9'

/-- maximal digit runs of a string.  `regFullDataType = \D*(\d+)\D?`, `FindAllStringSubmatch(s, -1)`: one match per
    maximal digit run, submatch 1 = the run. -/
def digitRunsAux : Str → Str → List Str
  | [], cur => if cur.isEmpty then [] else [cur.reverse]
  | c :: cs, cur =>
    if isDigit c then digitRunsAux cs (c :: cur)
    else if cur.isEmpty then digitRunsAux cs [] else cur.reverse :: digitRunsAux cs []
def digitRuns (s : Str) : List Str := digitRunsAux s []

/-- `regexp.MustCompile("[^0-9]" + pat + "[^0-9]").MatchString(s)` for a literal `pat` -/
def containsDelimited : Str → Str → Bool
  | [], _ => false
  | c :: cs, pat =>
    (!isDigit c && hasPrefix cs pat && (match cs.drop pat.length with | d :: _ => !isDigit d | [] => false))
      || containsDelimited cs pat

/-- strconv.ParseBool value (false on error) -/
def parseBool (s : Str) : Bool :=
  s = "1".toList || s = "t".toList || s = "T".toList || s = "TRUE".toList || s = "true".toList || s = "True".toList

def intStr (n : Int) : Str := (toString n).toList

/-! ### field declaration and column report -/

/-- the cases of `switch field.GORMDataType` in MigrateColumn's default comparison -/
inductive GType where | time | bool | other
deriving Repr, DecidableEq

/-- the attributes of `*schema.Field` that MigrateColumn / FullDataTypeOf / AddColumn read -/
structure FieldDecl where
  dbName : Str
  ignoreMigration : Bool
  primaryKey : Bool
  dataTypeSql : Str          -- m.DataTypeOf(field) (dialector)
  size : Int
  precision : Int
  notNull : Bool
  hasDefault : Bool
  defaultIface : Bool        -- field.DefaultValueInterface != nil
  defaultValue : Str
  defaultExplained : Str     -- Dialector.Explain(bindvar, DefaultValueInterface): only enters the DDL text
  gtype : GType
  comment : Str
  unique : Bool
deriving Repr, DecidableEq

/-- what `gorm.ColumnType` reports (value, ok) per accessor; `aliases` = `GetTypeAliases(lower typeName)` -/
structure ColumnInfo where
  typeName : Str
  aliases : List Str
  length : Int × Bool
  decimal : Int × Bool
  nullable : Bool × Bool
  dflt : Str × Bool
  comment : Str × Bool
  unique : Bool × Bool
deriving Repr, DecidableEq

/-- migrator.go `FullDataTypeOf` (lines 88-107) -/
def fullDataTypeOf (f : FieldDecl) : Str :=
  f.dataTypeSql
    ++ (if f.notNull then " NOT NULL".toList else [])
    ++ (if f.hasDefault && (f.defaultIface || f.defaultValue != []) then
          if f.defaultIface then " DEFAULT ".toList ++ f.defaultExplained
          else if f.defaultValue != "(-)".toList then " DEFAULT ".toList ++ f.defaultValue else []
        else [])

/-- `fullDataType := strings.TrimSpace(strings.ToLower(FullDataTypeOf(field).SQL))` -/
def fullLower (f : FieldDecl) : Str := trimSpace (lower (fullDataTypeOf f))

/-- `currentDefaultNotNull` (line 537) -/
def currentDefaultNotNull (f : FieldDecl) : Bool :=
  f.hasDefault && (f.defaultIface || !equalFold f.defaultValue "NULL".toList)

/-- intermediate decisions of MigrateColumn (lines 474-569), one field per `if` block -/
structure Trace where
  typeAlter : Bool      -- "check type": no prefix, no alias
  sameType : Bool       -- isSameType after the alias loop
  sizeAlter : Bool      -- "check size"
  precAlter : Bool      -- "check precision"
  nullAlter : Bool      -- "check nullable"
  beforeDefault : Bool  -- alterColumn when the default block is entered
  afterDefault : Bool   -- alterColumn after the default block (the Bool/default arms OVERWRITE it)
  commentAlter : Bool
deriving Repr, DecidableEq

/-- "check type" block (lines 484-499): returns (alterColumn, isSameType) -/
def typeStep (f : FieldDecl) (ci : ColumnInfo) : Bool × Bool :=
  let full := fullLower f
  let real := lower ci.typeName
  let same0 := full == real
  if !f.primaryKey then
    if !hasPrefix full real then
      let same := same0 || ci.aliases.any (fun a => hasPrefix full a)
      (!same, same)
    else (false, same0)
  else (false, same0)

/-- "check size" block (lines 503-516) -/
def sizeAlter (f : FieldDecl) (ci : ColumnInfo) : Bool :=
  let (length, ok) := ci.length
  if length != f.size then
    if length > 0 && f.size > 0 then true
    else
      let runs := digitRuns (fullLower f)
      !f.primaryKey && (match runs with | [r] => r != intStr length && ok | _ => false)
  else false

/-- "check precision" block (lines 519-523) -/
def precAlter (f : FieldDecl) (ci : ColumnInfo) : Bool :=
  let (p, ok) := ci.decimal
  ok && f.precision != p && containsDelimited f.dataTypeSql (intStr f.precision)

/-- "check nullable" block (lines 527-532) -/
def nullAlter (f : FieldDecl) (ci : ColumnInfo) : Bool :=
  let (nullable, ok) := ci.nullable
  ok && nullable == f.notNull && (!f.primaryKey && !nullable)

/-- "check default value" block (lines 535-559): new value of alterColumn given the old one -/
def defaultStep (f : FieldDecl) (ci : ColumnInfo) (alter : Bool) : Bool :=
  if !f.primaryKey then
    let cur := currentDefaultNotNull f
    let (dv, dvNotNull) := ci.dflt
    if dvNotNull && !cur then true
    else if !dvNotNull && cur then true
    else if cur || dvNotNull then
      match f.gtype with
      | .time => if !equalFold (trimSuffix dv "()".toList) (trimSuffix f.defaultValue "()".toList) then true else alter
      | .bool => parseBool dv != parseBool f.defaultValue
      | .other => dv != f.defaultValue
    else alter
  else alter

/-- "check comment" block (lines 562-567) -/
def commentAlter (f : FieldDecl) (ci : ColumnInfo) : Bool :=
  let (c, ok) := ci.comment
  ok && c != f.comment && !f.primaryKey

def trace (f : FieldDecl) (ci : ColumnInfo) : Trace :=
  let (ta, same) := typeStep f ci
  let sa := !same && sizeAlter f ci
  let pa := !same && precAlter f ci
  let na := nullAlter f ci
  let before := ta || sa || pa || na
  { typeAlter := ta, sameType := same, sizeAlter := sa, precAlter := pa, nullAlter := na,
    beforeDefault := before, afterDefault := defaultStep f ci before, commentAlter := commentAlter f ci }

/-- the value of `alterColumn` when MigrateColumn reaches `if alterColumn {` -/
def migrateAlter (f : FieldDecl) (ci : ColumnInfo) : Bool :=
  let t := trace f ci
  t.afterDefault || t.commentAlter

inductive ColAct where | alter | dropUnique | createUnique
deriving Repr, DecidableEq

/-- `MigrateColumnUnique` (lines 582-599) -/
def migrateUnique (f : FieldDecl) (ci : ColumnInfo) : List ColAct :=
  let (unique, ok) := ci.unique
  if !ok || f.primaryKey then []
  else if unique && !f.unique then [.dropUnique]
  else if !unique && f.unique then [.createUnique]
  else []

/-- `MigrateColumn`: the migrator calls it makes, in order -/
def migrateColumn (f : FieldDecl) (ci : ColumnInfo) : List ColAct :=
  if f.ignoreMigration then []
  else (if migrateAlter f ci then [.alter] else []) ++ migrateUnique f ci

/-! ### AutoMigrate over an abstract catalog -/

structure ModelDecl where
  table : Str
  fields : List FieldDecl       -- in `Schema.DBNames` order
  fks : List Str                -- names of relation constraints with `constraint.Schema == stmt.Schema`
  checks : List Str             -- ParseCheckConstraints names
  indexes : List Str            -- ParseIndexes names
deriving Repr, DecidableEq

structure TableState where
  cols : List (Str × ColumnInfo)
  constraints : List Str
  indexes : List Str
deriving Repr, DecidableEq

abbrev Catalog := List (Str × TableState)

inductive DDL where
  | createTable (m : ModelDecl)
  | addColumn (t : Str) (f : FieldDecl)
  | alterColumn (t : Str) (f : FieldDecl)
  | createUnique (t : Str) (f : FieldDecl)
  | dropUnique (t : Str) (f : FieldDecl)
  | createConstraint (t : Str) (name : Str)
  | createIndex (t : Str) (name : Str)
deriving Repr, DecidableEq

def lookup {β} (k : Str) : List (Str × β) → Option β
  | [] => none
  | (k', v) :: r => if k' = k then some v else lookup k r

def update {β} (k : Str) (g : β → β) : List (Str × β) → List (Str × β)
  | [] => []
  | (k', v) :: r => if k' = k then (k', g v) :: r else (k', v) :: update k g r

/-- names for which `!Has…(name)` holds at the time they are reached (the check is live: a name created earlier in the
    same loop is found) -/
def missing : List Str → List Str → List Str
  | [], _ => []
  | n :: ns, have_ => if n ∈ have_ then missing ns have_ else n :: missing ns (n :: have_)

def colDDL (t : Str) (f : FieldDecl) : ColAct → DDL
  | .alter => .alterColumn t f
  | .dropUnique => .dropUnique t f
  | .createUnique => .createUnique t f

/-- the per-column loop of AutoMigrate (lines 143-166); `columnTypes` is the snapshot fetched before the loop -/
def columnDDL (t : Str) (cols : List (Str × ColumnInfo)) : List FieldDecl → List DDL
  | [] => []
  | f :: fs =>
    (match lookup f.dbName cols with
     | none => if f.ignoreMigration then [] else [.addColumn t f]   -- AddColumn does nothing for ignored fields
     | some ci => (migrateColumn f ci).map (colDDL t f)) ++ columnDDL t cols fs

/-- one iteration of AutoMigrate's loop (lines 123-202) for one model against the current catalog -/
def autoMigrateOne (m : ModelDecl) (c : Catalog) : List DDL :=
  match lookup m.table c with
  | none => [.createTable m]
  | some ts =>
    columnDDL m.table ts.cols m.fields
      ++ (missing (m.fks ++ m.checks) ts.constraints).map (DDL.createConstraint m.table)
      ++ (missing m.indexes ts.indexes).map (DDL.createIndex m.table)

section
variable (reflect : FieldDecl → ColumnInfo)

/-- column state after `ALTER TABLE ADD col <FullDataTypeOf>`: the text carries no UNIQUE, so no unique constraint -/
def addedInfo (f : FieldDecl) : ColumnInfo := { reflect f with unique := (false, (reflect f).unique.2) }

def createdCols : List FieldDecl → List (Str × ColumnInfo)
  | [] => []
  | f :: fs => if f.ignoreMigration then createdCols fs else (f.dbName, reflect f) :: createdCols fs

def setUnique (b : Bool) (ci : ColumnInfo) : ColumnInfo := { ci with unique := (b, ci.unique.2) }

/-- effect of one statement on the catalog -/
def applyDDL (d : DDL) (c : Catalog) : Catalog :=
  match d with
  | .createTable m =>
    c ++ [(m.table, { cols := createdCols reflect m.fields, constraints := m.fks ++ m.checks, indexes := m.indexes })]
  | .addColumn t f => update t (fun ts => { ts with cols := ts.cols ++ [(f.dbName, addedInfo reflect f)] }) c
  | .alterColumn t f =>
    update t (fun ts => { ts with cols := update f.dbName (fun old => { reflect f with unique := old.unique }) ts.cols }) c
  | .createUnique t f => update t (fun ts => { ts with cols := update f.dbName (setUnique true) ts.cols }) c
  | .dropUnique t f => update t (fun ts => { ts with cols := update f.dbName (setUnique false) ts.cols }) c
  | .createConstraint t n => update t (fun ts => { ts with constraints := n :: ts.constraints }) c
  | .createIndex t n => update t (fun ts => { ts with indexes := n :: ts.indexes }) c

def applyAll (ds : List DDL) (c : Catalog) : Catalog := ds.foldl (fun c d => applyDDL reflect d c) c

/-- AutoMigrate over the (already reordered) model list: statements issued and final catalog -/
def autoMigrate : List ModelDecl → Catalog → List DDL × Catalog
  | [], c => ([], c)
  | m :: ms, c =>
    let d := autoMigrateOne m c
    let r := autoMigrate ms (applyAll reflect d c)
    (d ++ r.1, r.2)
end

/-! ### data: rows of a table as association lists column ↦ value -/

abbrev Row := List (Str × Int)
abbrev Data := List (Str × List Row)

/-- effect of one statement on stored rows: only `addColumn` touches rows (appends a cell), `createTable` adds an empty
    table; constraint / index creation keeps every row (the SQLite dialector copies all rows into the re-created table) -/
def applyData (dflt : FieldDecl → Int) (d : DDL) (db : Data) : Data :=
  match d with
  | .createTable m => db ++ [(m.table, [])]
  | .addColumn t f => update t (fun rows => rows.map (fun r => r ++ [(f.dbName, dflt f)])) db
  | _ => db

def DDL.additive : DDL → Bool
  | .createTable _ | .addColumn _ _ | .createUnique _ _ | .createConstraint _ _ | .createIndex _ _ => true
  | .alterColumn _ _ | .dropUnique _ _ => false

/-! ### ReorderModels (lines 858-952) -/

/-- what `parseDependence` extracts from one model: table, `Depends` (reference schemas of the constraints it owns,
    self references excluded), and per many2many relation (in `defer` execution order) the join table and, when the
    field schema is also a has-one/has-many target (`beDependedOn`), the field schema to parse first -/
structure ModelDeps where
  table : Str
  depends : List Str
  joins : List (Option Str × Str)
deriving Repr, DecidableEq

structure RState where
  parsed : List Str            -- parsedSchemas
  values : List Str            -- keys of valuesMap
  names : List Str             -- modelNames
  ordered : List Str           -- orderedModelNames
  orderedSet : List Str        -- orderedModelNamesMap
deriving Repr, DecidableEq

def findDeps (g : List ModelDeps) (t : Str) : Option ModelDeps := g.find? (·.table = t)

/-- `parseDependence(value, addToList)`; `fuel` bounds the recursion through join tables -/
def parseDependence (g : List ModelDeps) (autoAdd : Bool) : Nat → Str → Bool → RState → RState
  | 0, _, _, s => s
  | fuel + 1, t, addToList, s =>
    if t ∈ s.parsed then s else
    match findDeps g t with
    | none => s
    | some d =>
      let s := { s with parsed := t :: s.parsed, values := if t ∈ s.values then s.values else t :: s.values,
                        names := if addToList then s.names ++ [t] else s.names }
      d.joins.foldl (fun s (j : Option Str × Str) =>
        let s := match j.1 with
          | some fs => parseDependence g autoAdd fuel fs autoAdd s
          | none => s
        parseDependence g autoAdd fuel j.2 autoAdd s) s

/-- `insertIntoOrderedList(name)` -/
def insertOrdered (g : List ModelDeps) (autoAdd : Bool) : Nat → Str → RState → RState
  | 0, _, s => s
  | fuel + 1, name, s =>
    if name ∈ s.orderedSet then s else
    let s := { s with orderedSet := name :: s.orderedSet }
    let s :=
      if autoAdd then
        match findDeps g name with
        | none => s
        | some d =>
          if name ∈ s.values then
            d.depends.foldl (fun s dep =>
              let s := if dep ∈ s.values then s else parseDependence g autoAdd (g.length + 1) dep autoAdd s
              insertOrdered g autoAdd fuel dep s) s
          else s
      else s
    { s with ordered := s.ordered ++ [name] }

/-- `ReorderModels(values, autoAdd)` for struct values (string values are passed through in front by the real code) -/
def reorderModels (g : List ModelDeps) (values : List Str) (autoAdd : Bool) : List Str :=
  let s0 : RState := { parsed := [], values := [], names := [], ordered := [], orderedSet := [] }
  let s1 := values.foldl (fun s v => parseDependence g autoAdd (g.length + 1) v true s) s0
  let s2 := s1.names.foldl (fun s n => insertOrdered g autoAdd (g.length + 1) n s) s1
  s2.ordered

/-! ### ParseIndexes (schema/index.go lines 31-79) -/

/-- one element of `parseFieldIndexes(field)`, in the order the outer loops visit them -/
structure IdxEntry where
  name : Str
  cls : Str
  typ : Str
  whr : Str
  comment : Str
  option : Str
  field : Str
  priority : Int
deriving Repr, DecidableEq

structure Index where
  name : Str
  cls : Str
  typ : Str
  whr : Str
  comment : Str
  option : Str
  fields : List (Str × Int)
deriving Repr, DecidableEq

/-- `append` + `sort.Slice(by Priority)` on an already sorted slice: the new element lands behind the elements with a
    priority ≤ its own (sort.Slice uses insertion sort below 12 elements, which is stable) -/
def insertByPriority (x : Str × Int) : List (Str × Int) → List (Str × Int)
  | [] => [x]
  | y :: ys => if x.2 < y.2 then x :: y :: ys else y :: insertByPriority x ys

def mergeEntry (e : IdxEntry) (i : Index) : Index :=
  { name := e.name,
    cls := if i.cls = [] then e.cls else i.cls,
    typ := if i.typ = [] then e.typ else i.typ,
    whr := if i.whr = [] then e.whr else i.whr,
    comment := if i.comment = [] then e.comment else i.comment,
    option := if i.option = [] then e.option else i.option,
    fields := insertByPriority (e.field, e.priority) i.fields }

def emptyIndex (n : Str) : Index := { name := n, cls := [], typ := [], whr := [], comment := [], option := [], fields := [] }

def addEntry (e : IdxEntry) : List Index → List Index
  | [] => [mergeEntry e (emptyIndex e.name)]
  | i :: is => if i.name = e.name then mergeEntry e i :: is else i :: addEntry e is

def parseIndexes (es : List IdxEntry) : List Index := es.foldl (fun acc e => addEntry e acc) []

/-! ### Relationship.ParseConstraint (schema/relationship.go lines 651-717) -/

inductive RelType where | belongsTo | hasOne | hasMany | many2many
deriving Repr, DecidableEq

/-- a `*schema.Field` as ParseConstraint reads it: pointer identity `id`, and the identity of `field.Schema` -/
structure FieldId where
  id : Str
  schema : Str
deriving Repr, DecidableEq

/-- `schema.Reference` -/
structure Ref where
  primaryKey : Option FieldId     -- nil for the type value of a polymorphic relation
  primaryValue : Str
  foreignKey : FieldId
  ownPrimaryKey : Bool
deriving Repr, DecidableEq

/-- `schema.Relationship`: `key` stands for the pointer identity (`r != rel`), schemas are identities of `*schema.Schema` -/
structure Rel where
  key : Str
  typ : RelType
  schema : Str
  fieldSchema : Str
  refs : List Ref
  hasJoinTable : Bool             -- rel.JoinTable != nil
  tag : Str                       -- rel.Field.TagSettings["CONSTRAINT"]
  defaultName : Str               -- rel.Schema.namer.RelationshipFKName(*rel)
deriving Repr, DecidableEq

structure Constraint where
  name : Str
  schema : Str
  refSchema : Str
  fks : List FieldId
  refs : List FieldId
  onDelete : Str
  onUpdate : Str
deriving Repr, DecidableEq

def upperC (c : Char) : Char := if 'a' ≤ c ∧ c ≤ 'z' then Char.ofNat (c.toNat - 32) else c
def upper (s : Str) : Str := s.map upperC

/-- strings.Split(s, c) for a one-character separator -/
def splitOn (c : Char) : Str → List Str
  | [] => [[]]
  | x :: xs =>
    if x = c then [] :: splitOn c xs
    else match splitOn c xs with
      | [] => [[x]]
      | h :: t => (x :: h) :: t

def joinWith (c : Char) : List Str → Str
  | [] => []
  | [a] => a
  | a :: b :: r => a ++ c :: joinWith c (b :: r)

/-- `ParseTagSetting(str, ",")[key]` ("" when absent) for tag text without a backslash (schema/utils.go lines 16-45) -/
def tagSetting (str key : Str) : Str :=
  (splitOn ',' str).foldl (fun acc part =>
    match splitOn ':' part with
    | [] => acc
    | [k0] => let k := trimSpace (upper k0); if k = key && k != [] then k else acc
    | k0 :: rest => if trimSpace (upper k0) = key then joinWith ':' rest else acc) []

def indexOf (c : Char) : Str → Option Nat
  | [] => none
  | x :: xs => if x = c then some 0 else (indexOf c xs).map (· + 1)

def isWordC (c : Char) : Bool := ('a' ≤ c && c ≤ 'z') || ('A' ≤ c && c ≤ 'Z') || isDigit c || c = '_' || c = '-'
/-- `regEnLetterAndMidline = ^[\w-]+$` -/
def isWordMid (s : Str) : Bool := s != [] && s.all isWordC

/-- the constraint name (lines 683-687): the text before the first comma when it is a word, else the namer's name -/
def constraintName (rel : Rel) : Str :=
  match indexOf ',' rel.tag with
  | some i => if isWordMid (rel.tag.take i) then rel.tag.take i else rel.defaultName
  | none => rel.defaultName

/-- what the belongs-to fold compares per reference (line 663-664) -/
def Ref.core (r : Ref) : Option FieldId × FieldId × Str := (r.primaryKey, r.foreignKey, r.primaryValue)

/-- the `for idx, ref := range r.References` loop (second argument) against `rel.References[idx]` (first argument);
    the caller has checked that both have the same length -/
def refsMatch : List Ref → List Ref → Bool
  | a :: as, b :: bs => (a.core == b.core) && refsMatch as bs
  | _, [] => true
  | [], _ :: _ => false

/-- lines 657-674: a belongs-to is folded into a relation of the referenced schema that points back with the same references -/
def folded (rel : Rel) (parentRels : List Rel) : Bool :=
  rel.typ == .belongsTo &&
    parentRels.any (fun r => r.key != rel.key && r.fieldSchema == rel.schema && rel.refs.length == r.refs.length && refsMatch rel.refs r.refs)

/-- one iteration of the loop at lines 697-711 -/
def constraintStep (rel : Rel) (c : Constraint) (ref : Ref) : Constraint :=
  match ref.primaryKey with
  | some pk =>
    if !rel.hasJoinTable || ref.ownPrimaryKey then
      if ref.ownPrimaryKey then
        { c with fks := c.fks ++ [ref.foreignKey], refs := c.refs ++ [pk], schema := ref.foreignKey.schema, refSchema := rel.schema }
      else
        { c with fks := c.fks ++ [ref.foreignKey], refs := c.refs ++ [pk], schema := rel.schema, refSchema := pk.schema }
    else c
  | none => c

/-- lines 689-712 -/
def buildConstraint (rel : Rel) : Constraint :=
  rel.refs.foldl (constraintStep rel)
    { name := constraintName rel, schema := [], refSchema := [], fks := [], refs := [],
      onDelete := tagSetting rel.tag "ONDELETE".toList, onUpdate := tagSetting rel.tag "ONUPDATE".toList }

/-- `(*Relationship).ParseConstraint`; `parentRels` = `rel.FieldSchema.Relationships.Relations` (any order) -/
def parseConstraint (rel : Rel) (parentRels : List Rel) : Option Constraint :=
  if rel.tag = ['-'] then none
  else if folded rel parentRels then none
  else some (buildConstraint rel)

/-- the statement text of `Migrator.AddColumn` (lines 387-392): `ALTER TABLE ? ADD ? ?` with the FULL data type -/
def addColumnSQL (t : Str) (f : FieldDecl) : Str :=
  "ALTER TABLE `".toList ++ t ++ "` ADD `".toList ++ f.dbName ++ "` ".toList ++ fullDataTypeOf f

end Gorm.Mig
