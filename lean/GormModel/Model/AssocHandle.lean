/-
  Model.AssocHandle — the Association HANDLE (association.go `type Association struct { DB; Relationship; Unscope; Error }`)
  as a value held in program variables.

  A program is a list of instructions over handle variables:
    v := db.Model(&x).Association(rel)          `assoc v rel`
    w := v.Unscoped()   /  _ = v.Unscoped()     `unscoped (some w) v`  /  `unscoped none v`
    v.Append/Replace/Delete/Clear(vals…)        `call v kind vals bad`   (bad: an argument of the wrong type - the call fails)
    v.Count() / v.Find(&out)                    `read v`
  The machine keeps the structs in a store (variables hold POINTERS, as in Go).  How `Unscoped` treats its receiver is a
  parameter of the machine, fixed by regenerated facts (`unscopedFresh`): the current tree returns a NEW struct literal
  `&Association{DB, Relationship, Error, Unscope: true}` and assigns to no field of the receiver.

  `*gorm.DB` identity: `db.Model(&x)` is one instance (clone = 0) per `assoc`; `Unscoped()` copies the pointer.  Replace / Delete /
  Count / Find (and Append on has-one / belongs-to) build their statement ON that instance (listed finding F12h): it is `used`
  afterwards, and a later call through the same instance is not predicted by the model (`Ev.polluted`).
-/
import GormModel.Model.Assoc
import GormModel.Gen.AssocHandle
namespace Gorm.Assoc

structure Handle where
  rel : Nat            -- Relationship
  db : Nat             -- identity of the *gorm.DB instance
  unscope : Bool
  err : Bool           -- Error ≠ nil
deriving DecidableEq, Repr

inductive Instr
  | assoc (v rel : Nat)
  | unscoped (dst : Option Nat) (src : Nat)
  | call (v : Nat) (kind : OpKind) (vals : List (List Nat)) (bad : Bool)
  | read (v : Nat)
deriving DecidableEq, Repr

/-- what a call does -/
inductive Ev
  | op (rel : Nat) (o : Op) (declared : Bool)   -- runs with `o.unscoped`; `declared` = how the VARIABLE was obtained (ghost)
  | refused (rel : Nat)                          -- association.Error ≠ nil: nothing runs, the error is returned
  | failed (rel : Nat)                           -- ill-typed argument: association.Error is set, nothing is written
  | polluted (rel : Nat)                         -- through a *gorm.DB an earlier statement-building call has used (F12h)
  | read (rel : Nat) (uns : Bool)
  | nohandle
deriving DecidableEq, Repr

structure Heap where
  var : Nat → Option Nat := fun _ => none      -- variable ↦ address
  cell : Nat → Handle := fun _ => ⟨0, 0, false, false⟩
  next : Nat := 0                              -- next free address (= next *gorm.DB identity)
  used : List Nat := []                        -- *gorm.DB instances whose statement carries clauses of an earlier call
  declared : Nat → Bool := fun _ => false      -- GHOST: variable was bound to the result of Unscoped()

/-- does the call leave clauses on association.DB?  has-many / many2many Append goes through `association.DB.Session(&Session{})` -/
def pollutes (card1 : Nat → Bool) (rel : Nat) (k : OpKind) : Bool :=
  !(k = .append && !card1 rel)

/-- one instruction.  `fresh` = Unscoped() builds a new struct (true) / sets the flag on its receiver and returns it (false) -/
def exec (fresh : Bool) (card1 : Nat → Bool) (h : Heap) : Instr → Heap × List Ev
  | .assoc v rel =>
    ({ h with var := upd h.var v (some h.next), cell := upd h.cell h.next ⟨rel, h.next, false, false⟩, next := h.next + 1,
              declared := upd h.declared v false }, [])
  | .unscoped dst src =>
    match h.var src with
    | none => (h, [.nohandle])
    | some a =>
      if fresh then
        let b := h.next
        let h' := { h with cell := upd h.cell b { h.cell a with unscope := true }, next := h.next + 1 }
        match dst with
        | none => (h', [])
        | some w => ({ h' with var := upd h'.var w (some b), declared := upd h'.declared w true }, [])
      else
        let h' := { h with cell := upd h.cell a { h.cell a with unscope := true } }
        match dst with
        | none => (h', [])
        | some w => ({ h' with var := upd h'.var w (some a), declared := upd h'.declared w true }, [])
  | .call v kind vals bad =>
    match h.var v with
    | none => (h, [.nohandle])
    | some a =>
      let c := h.cell a
      if c.err then (h, [.refused c.rel])
      else if c.db ∈ h.used then (h, [.polluted c.rel])
      else if bad then ({ h with cell := upd h.cell a { c with err := true } }, [.failed c.rel])
      else
        ({ h with used := if pollutes card1 c.rel kind then c.db :: h.used else h.used },
         [.op c.rel ⟨kind, c.unscope, vals⟩ (h.declared v)])
  | .read v =>
    match h.var v with
    | none => (h, [.nohandle])
    | some a =>
      let c := h.cell a
      if c.err then (h, [.refused c.rel]) else ({ h with used := c.db :: h.used }, [.read c.rel c.unscope])

def execAll (fresh : Bool) (card1 : Nat → Bool) : Heap → List Instr → List Ev
  | _, [] => []
  | h, i :: is => let r := exec fresh card1 h i; r.2 ++ execAll fresh card1 r.1 is

/-! ### the regenerated facts that fix `fresh` -/

/-- Association.Unscoped's only return is a `&Association{…}` literal that copies DB, Relationship and Error and sets Unscope,
    and NO function of association.go assigns to an `Unscope` field -/
def unscopedFresh : Bool :=
  Gen.assocUnscopedLiteral == [("DB", "association.DB"), ("Relationship", "association.Relationship"),
                               ("Error", "association.Error"), ("Unscope", "true")]
  && Gen.assocFieldWrites.all (fun w => !(w.2 == "association.Unscope") && !(w.2 == "association.DB") && !(w.1 == "Association.Unscoped"))
  && Gen.assocLiterals.all (fun l => l.1 == "Association.Unscoped" || !(l.2.any (fun kv => kv.1 == "Unscope")))

/-- every exported operation starts with `if association.Error == nil` (a handle that failed refuses further work) -/
def errorSticky : Bool :=
  Gen.assocErrorGuards.length == 5 && Gen.assocErrorGuards.all (fun g => g.2 == "association.Error == nil")

/-! ### running the operations of one relation on the link store of that relation -/

/-- the operations the program performs on relation `rel`, in order; `none` when the model does not predict one of them -/
def opsOf (rel : Nat) : List Ev → Option (List Op)
  | [] => some []
  | .op r o _ :: es => if r = rel then (opsOf rel es).map (o :: ·) else opsOf rel es
  | .polluted r :: es => if r = rel then none else opsOf rel es
  | _ :: es => opsOf rel es

/-- the same, with the Unscope flag the VARIABLES were declared with (value semantics of handles) -/
def declaredOpsOf (rel : Nat) : List Ev → Option (List Op)
  | [] => some []
  | .op r o d :: es => if r = rel then (declaredOpsOf rel es).map ({ o with unscoped := d } :: ·) else declaredOpsOf rel es
  | .polluted r :: es => if r = rel then none else declaredOpsOf rel es
  | _ :: es => declaredOpsOf rel es

end Gorm.Assoc
