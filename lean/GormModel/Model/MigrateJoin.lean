/-
  Model of the join-table column derivation of schema/relationship.go `buildMany2ManyRelation` (the two loops over
  ownForeignFields / refForeignFields): the struct tag of a join-table field is

      removeSettingFromTag(appendSettingFromTag(src.StructField.Tag, "primaryKey"),
                           "column", "autoincrement", "index", "unique", "uniqueindex")

  with schema/utils.go `appendSettingFromTag`, `removeSettingFromTag` (a regexp replacement on the raw tag text) and
  `ParseTagSetting`, and of what schema/field.go / schema/index.go / schema/constraint.go read off the resulting tag:
  Field.Unique (-> ParseUniqueConstraints -> `CONSTRAINT uni_<join>_<col> UNIQUE`), the INDEX/UNIQUEINDEX gate of
  ParseIndexes, Field.PrimaryKey, Field.AutoIncrement.

  Text is `List Char`, ASCII, WITHOUT newline and backslash (`.` of the regexp does not match a newline; ParseTagSetting
  and reflect.StructTag treat a backslash as an escape): the harness generates such tags only.
-/
import GormModel.Model.Migrate
namespace Gorm.Mig

/-- `(?i)` literal at the head of `s`; the literal is given in lower case -/
def ciPrefix : Str → Str → Bool
  | [], _ => true
  | _ :: _, [] => false
  | n :: ns, c :: cs => lowerC c == n && ciPrefix ns cs

/-- `.*?(;|("))`: text behind the first `;` or `"`, and whether it was the quote (group 5) -/
def findTerm : Str → Option (Str × Bool)
  | [] => none
  | c :: cs => if c = ';' then some (cs, false) else if c = '"' then some (cs, true) else findTerm cs

/-- `(:.*?)?(;|("))` right behind the name.  The optional group is tried first; when the next character is `:` and no
    terminator follows, the alternative without the group fails as well (`:` is no terminator). -/
def afterName : Str → Option (Str × Bool)
  | [] => none
  | c :: r => if c = ':' then findTerm r else if c = ';' then some (r, false) else if c = '"' then some (r, true) else none

/-- the lazy `.*?` in front of the name: the FIRST position where `name(:.*?)?(;|("))` matches.
    Result: (text kept in front of the name, text behind the terminator, terminator was the quote). -/
def scanName (name : Str) : Str → Option (Str × Str × Bool)
  | [] => none
  | c :: cs =>
    match (if ciPrefix name (c :: cs) then afterName ((c :: cs).drop name.length) else none) with
    | some (rest, q) => some ([], rest, q)
    | none => (scanName name cs).map fun r => (c :: r.1, r.2.1, r.2.2)

def gormLit : Str := "gorm:".toList

/-- `regexp.MustCompile("(?i)(gorm:.*?)(" + name + "(:.*?)?)(;|(\"))").ReplaceAllString(tag, "${1}${5}")`:
    leftmost `gorm:`, the match found by `scanName`, replaced by group 1 (+ the quote when it terminated the match); the
    search goes on BEHIND the match (so a second match needs a second `gorm:`).  When the scan from the first `gorm:`
    fails no later start can match either (the scan visited every later position). -/
def removeSettingAux (name : Str) : Nat → Str → Str
  | 0, s => s
  | _ + 1, [] => []
  | fuel + 1, c :: cs =>
    if ciPrefix gormLit (c :: cs) then
      match scanName name ((c :: cs).drop 5) with
      | some (kept, rest, q) =>
        (c :: cs).take 5 ++ kept ++ (if q then ['"'] else []) ++ removeSettingAux name fuel rest
      | none => c :: cs
    else c :: removeSettingAux name fuel cs

/-- schema/utils.go removeSettingFromTag for ONE name -/
def removeSetting (name : Str) (s : Str) : Str := removeSettingAux name s.length s

/-- schema/utils.go removeSettingFromTag(tag, names...) : one replacement pass per name, in order -/
def removeSettings (names : List Str) (tag : Str) : Str := names.foldl (fun t n => removeSetting n t) tag

/-- strings.Contains -/
def containsStr : Str → Str → Bool
  | [], sub => sub.isEmpty
  | c :: cs, sub => sub.isPrefixOf (c :: cs) || containsStr cs sub

/-- schema/utils.go appendSettingFromTag(tag, value); `body` = tag.Get("gorm") -/
def appendSetting (tag body value : Str) : Str :=
  if containsStr body value then tag else "gorm:\"".toList ++ value ++ ';' :: body ++ ['"']

/-- reflect.StructTag.Get(key) for values without backslash escapes (conventional `key:"value"` pairs) -/
def tagGetAux (key : Str) : Nat → Str → Str
  | 0, _ => []
  | fuel + 1, s =>
    let s := s.dropWhile (· = ' ')
    let name := s.takeWhile (fun c => ' ' < c && c != ':' && c != '"' && c != Char.ofNat 127)
    if name.isEmpty then [] else
    match s.drop name.length with
    | ':' :: '"' :: r =>
      let v := r.takeWhile (· != '"')
      match r.drop v.length with
      | '"' :: r' => if name = key then v else tagGetAux key fuel r'
      | _ => []
    | _ => []
def tagGet (key tag : Str) : Str := tagGetAux key tag.length tag

/-- the literal lists of the two `removeSettingFromTag(appendSettingFromTag(…, "primaryKey"), …)` calls of
    buildMany2ManyRelation (tied to the source by Gen/MigrateJoinFacts.lean + `C20_join_strip_lists`) -/
def joinStrip : List Str := ["column", "autoincrement", "index", "unique", "uniqueindex"].map String.toList
def joinAppend : Str := "primaryKey".toList

/-- the tag of the join-table field copied from a field with tag `tag` (gorm part `body`) -/
def joinFieldTag (strip : List Str) (tag body : Str) : Str := removeSettings strip (appendSetting tag body joinAppend)

/-- schema/utils.go ParseTagSetting(body, ";") as an association list in order of assignment (a later entry overrides) -/
def parseTagSettings (body : Str) : List (Str × Str) :=
  (splitOn ';' body).filterMap fun part =>
    match splitOn ':' part with
    | [] => none
    | [k0] => let k := trimSpace (upper k0); if k.isEmpty then none else some (k, k)
    | k0 :: rest => some (trimSpace (upper k0), joinWith ':' rest)

/-- map lookup ("" when absent): the LAST assignment wins -/
def settingOf (key : Str) (kv : List (Str × Str)) : Str :=
  kv.foldl (fun acc p => if p.1 = key then p.2 else acc) []

/-- utils.CheckTruth for one value -/
def checkTruth (v : Str) : Bool := !v.isEmpty && !equalFold v "false".toList

/-- what the schema parser reads off a field's gorm tag body -/
structure JoinCol where
  tag : Str
  body : Str
  settings : List (Str × Str)
  unique : Bool       -- Field.Unique  => ParseUniqueConstraints emits `uni_<table>_<col>`
  indexed : Bool      -- the gate of ParseIndexes: TagSettings["INDEX"] != "" || TagSettings["UNIQUEINDEX"] != ""
  primaryKey : Bool
  autoIncrement : Bool
deriving Repr, DecidableEq

def colOfTag (tag : Str) : JoinCol :=
  let body := tagGet "gorm".toList tag
  let kv := parseTagSettings body
  { tag := tag, body := body, settings := kv,
    unique := checkTruth (settingOf "UNIQUE".toList kv),
    indexed := !(settingOf "INDEX".toList kv).isEmpty || !(settingOf "UNIQUEINDEX".toList kv).isEmpty,
    primaryKey := checkTruth (settingOf "PRIMARYKEY".toList kv) || checkTruth (settingOf "PRIMARY_KEY".toList kv),
    autoIncrement := checkTruth (settingOf "AUTOINCREMENT".toList kv) }

/-- the join-table column derived from a source field whose struct tag is `tag` -/
def joinCol (strip : List Str) (tag : Str) : JoinCol := colOfTag (joinFieldTag strip tag (tagGet "gorm".toList tag))

/-- the tag `gorm:"<body>"` -/
def gormTag (body : Str) : Str := "gorm:\"".toList ++ body ++ ['"']

end Gorm.Mig
