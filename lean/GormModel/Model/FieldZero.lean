/-
  Model of "is this field of the record ZERO?" as the write path sees it (C10, round 5).

  Transcribes, statement by statement,
    * schema/field.go `(*Field).setupValuerAndSetter` — the two `field.ValueOf` closures (single index / index path with
      negative entries for pointer-embedded structs) and the wrapper installed for SERIALIZER-backed fields, and
    * the Go standard library's `reflect.Value.IsZero` on the value shapes gorm models are made of (trusted: Go).

  The zero flag of `field.ValueOf` is what `ConvertToAssignments` (struct branch), `ConvertToCreateValues`
  (default-DB-value columns) and `Save`'s routing look at; `nzOf` turns a record into the list of its non-zero field
  names, which is the `nz` argument of `WriteSet.assignmentsOfStruct` / `createColumns` / `saveAssignments`.

  Tied to /repo on every run by harness/c10_kinds.go: suite `zero` (Lean `valueOfZero` vs the real
  `field.ValueOf(ctx, reflect.ValueOf(record))` on generated records of every field kind) and suite `stmt-kinds`
  (`structSetOfRecord` … vs the SET / INSERT lists of the real DryRun statements).
-/
import GormModel.Model.WriteSet
namespace Gorm.FieldZero
open Gorm.WriteSet

/-- A Go value as far as `reflect.Value.IsZero` distinguishes: scalars, nil-able kinds with their nil flag,
    arrays and structs with their elements. -/
inductive GoVal where
  | int (i : Int)              -- Int, Int8 … Int64 (also named integer types, time.Duration)
  | uint (n : Nat)             -- Uint …
  | str (s : List Char)        -- String (also named string types)
  | bool (b : Bool)
  | float (bits : Nat)         -- Float32/64 by their IEEE-754 binary64 bits: IsZero ⇔ `v.Float() == 0` ⇔ +0.0 or -0.0
  | nilPtr                     -- Ptr, nil
  | ptr (v : GoVal)            -- Ptr, non-nil: never zero, whatever it points to
  | nilSlice                   -- Slice, nil
  | slice (len : Nat)          -- Slice, non-nil: never zero, even when empty
  | nilMap
  | map (len : Nat)
  | nilIface                   -- Interface / Func / Chan, nil
  | iface                      -- … non-nil
  | array (xs : List GoVal)    -- Array: zero ⇔ every element zero
  | struct (fs : List GoVal)   -- Struct: zero ⇔ every field zero (time.Time, sql.Null*, Valuer structs, embedded structs)
  deriving Inhabited

mutual
/-- `reflect.Value.IsZero` (Go standard library, reflect/value.go) -/
def GoVal.isZero : GoVal → Bool
  | .int i => i == 0
  | .uint n => n == 0
  | .str s => s.isEmpty
  | .bool b => !b
  | .float bits => bits % 9223372036854775808 == 0
  | .nilPtr => true
  | .ptr _ => false
  | .nilSlice => true
  | .slice _ => false
  | .nilMap => true
  | .map _ => false
  | .nilIface => true
  | .iface => false
  | .array xs => allZero xs
  | .struct fs => allZero fs
/-- the element / field loop of `IsZero` for Array and Struct -/
def allZero : List GoVal → Bool
  | [] => true
  | x :: xs => x.isZero && allZero xs
end

/-- `reflect.Indirect(v)`: one pointer level is followed; a nil pointer yields the invalid Value (modelled as the empty struct:
    the write path never hands a nil record to `ValueOf`) -/
def indirect : GoVal → GoVal
  | .ptr v => v
  | .nilPtr => .struct []
  | v => v

/-- `v.Field(i)` -/
def fieldAt (v : GoVal) (i : Nat) : GoVal :=
  match v with
  | .struct fs => fs.getD i (.struct [])
  | _ => .struct []

/-- one entry of `field.StructField.Index`: `fieldIdx >= 0` = plain field, `fieldIdx < 0` = field `-fieldIdx-1` holds a
    POINTER to an embedded struct -/
inductive Step where
  | field (i : Nat)
  | ptrField (i : Nat)
  deriving Repr, BEq, DecidableEq

/-- the loop of the general `ValueOf` closure:
    `for _, fieldIdx := range field.StructField.Index { if fieldIdx >= 0 { v = v.Field(fieldIdx) } else { v = v.Field(-fieldIdx - 1);`
    `  if !v.IsNil() { v = v.Elem() } else { return nil, true } } }`  — `none` = the early `return nil, true` -/
def walk : List Step → GoVal → Option GoVal
  | [], v => some v
  | .field i :: rest, v => walk rest (fieldAt v i)
  | .ptrField i :: rest, v =>
    match fieldAt v i with
    | .ptr e => walk rest e
    | _ => none

/-- how the parsed schema reaches a field: its index path and whether `field.Serializer != nil` -/
structure Access where
  name : Col
  path : List Step
  serializer : Bool
  deriving Repr

/-- the zero flag of the PLAIN closures (`switch { case len(Index) == 1 && fieldIndex > 0: … default: … }`): both compute
    `reflect.Indirect(value)`, walk the index path and answer `fv.IsZero()`; a nil embedded pointer answers `true`. -/
def rawZero (path : List Step) (record : GoVal) : Bool :=
  match walk path (indirect record) with
  | some v => v.isZero
  | none => true

/-- the zero flag of the wrapper `if field.Serializer != nil { oldValuerOf := field.ValueOf; field.ValueOf = func(…) {`
    `value, zero := oldValuerOf(ctx, v); … return &serializer{…}, zero } }`.  `wrap` says what the wrapper does with the
    flag of the wrapped closure; the code hands it on unchanged. -/
def serializerWrap (zero : Bool) : Bool := zero

/-- zero flag of `field.ValueOf(ctx, reflect.ValueOf(record))` -/
def valueOfZero (a : Access) (record : GoVal) : Bool :=
  if a.serializer then serializerWrap (rawZero a.path record) else rawZero a.path record

/-- Go names of the fields `ValueOf` reports non-zero: the `nz` argument of the WriteSet functions -/
def nzOf (accs : List Access) (record : GoVal) : List Col :=
  (accs.filter fun a => !valueOfZero a record).map (·.name)

/-- `ConvertToAssignments`, struct branch, on a concrete record: SET columns and key conditions -/
def structSetOfRecord (s upd : Schema) (selects omits : List Col) (destIsModel skipHooks : Bool)
    (accs : List Access) (record : GoVal) (modelNz : List Col) : List Col × List Col :=
  assignmentsOfStruct s upd selects omits destIsModel skipHooks (nzOf accs record) modelNz

/-- `ConvertToCreateValues` on concrete records (INSERT column list) -/
def createColumnsOfRecords (s : Schema) (selects omits : List Col) (isSlice : Bool) (accs : List Access)
    (records : List GoVal) : List Col :=
  createColumns s selects omits isSlice (records.map (nzOf accs))

/-- `Save` on a concrete record: routing and the SET / WHERE lists of its update route -/
def saveOfRecord (s : Schema) (selects omits : List Col) (accs : List Access) (record : GoVal) :
    SaveRoute × List Col × List Col :=
  (saveRoute s (nzOf accs record), saveAssignments s selects omits (nzOf accs record))

end Gorm.FieldZero
