/-
  C13 (round 6) — the SkipHooks flag of the NESTED operations that the association-saving callbacks issue
  (callbacks/associations.go): `db.Session(&gorm.Session{NewDB: true})…Session(&gorm.Session{SkipHooks: e, …}).Create(x)`.

  gorm.go getInstance (NewDB / clone 1): the fresh Statement inherits `SkipHooks: db.Statement.SkipHooks` (gorm.go:421);
  gorm.go Session: `if config.SkipHooks { tx.Statement.SkipHooks = true }` (gorm.go:291) — a Session literal can only
  switch hooks OFF.  The value expression `e` of a literal's SkipHooks field is interpreted symbolically: the regenerated
  fact `Gen.assocNestedOps` delivers its source text.
-/
namespace Gorm

/-- value of one `SkipHooks:` field expression given the enclosing statement's flag; `none` = an expression this model
    does not interpret -/
def skipExprVal (stmtSkip : Bool) (e : String) : Option Bool :=
  if e = "db.Statement.SkipHooks" then some stmtSkip
  else if e = "true" then some true
  else if e = "false" then some false
  else none

/-- gorm.go Session applied for each literal of the chain in source order, starting from the inherited flag -/
def nestedSkipHooks (stmtSkip : Bool) : List (String × String) → Option Bool
  | [] => some stmtSkip
  | (k, e) :: rest =>
    match nestedSkipHooks stmtSkip rest with
    | none => none
    | some later =>
      if k = "SkipHooks" then
        match skipExprVal stmtSkip e with
        | none => none
        | some v => some (v || later)
      else some later

/-- a chain is FAITHFUL when the nested operation runs hooks exactly when the enclosing operation does -/
def nestedFaithful (fields : List (String × String)) : Bool :=
  nestedSkipHooks false fields == some false && nestedSkipHooks true fields == some true

/-- every SkipHooks field of the chain passes the statement's own flag (or the constant false) -/
def skipFieldsPassFlag (fields : List (String × String)) : Bool :=
  fields.all fun (k, e) => k != "SkipHooks" || e == "db.Statement.SkipHooks" || e == "false"

end Gorm
