/-
  Model of how a handle's context travels through derivations (gorm.go `getInstance`,
  `Session`, `WithContext`; statement.go `clone`).  The copy discipline is NOT written down
  here: it is read from the regenerated facts `Gen.cloneLiteral`, `Gen.getInstanceLiteral`,
  and -- for the bodies of `Session()` and `getInstance()` -- from the regenerated guarded
  statement lists `Gen.sessionBody` / `Gen.getInstanceBody` (every statement with the condition
  under which it executes), so the theorems are re-checked against what the code says now.
-/
import GormModel.Core.Facts
import GormModel.Gen.CloneFacts
import GormModel.Gen.Sessions
import GormModel.Gen.SessionBody
namespace Gorm

/-- does `Statement.clone()` carry `Context` over? -/
def cloneKeepsContext : Bool := Gen.cloneLiteral.contains ("Context", "stmt.Context")
/-- does the fresh statement of `getInstance` (clone == 1) carry `Context` over? -/
def getInstanceKeepsContext : Bool := Gen.getInstanceLiteral.contains ("Context", "db.Statement.Context")
def cloneKeepsConnPool : Bool := Gen.cloneLiteral.contains ("ConnPool", "stmt.ConnPool")
def getInstanceKeepsConnPool : Bool := Gen.getInstanceLiteral.contains ("ConnPool", "db.Statement.ConnPool")

/-! ## symbolic execution of the regenerated bodies -/

/-- where the context found on a statement came from -/
inductive CtxSym where
  | parent    -- the context the receiver's statement carried when the function was entered
  | config    -- `config.Context` of the Session literal
  | lost      -- anything else (a field the copy dropped, a fresh zero value, …)
deriving Repr, DecidableEq

/-- three-valued evaluation of a source condition; `none` = the model cannot tell -/
def SrcCond.eval (atomVal : String → Option Bool) : SrcCond → Option Bool
  | .atom s => atomVal s
  | .opaque _ => none
  | .not c => (c.eval atomVal).map (!·)
  | .and a b =>
    match a.eval atomVal, b.eval atomVal with
    | some false, _ => some false
    | _, some false => some false
    | some true, some true => some true
    | _, _ => none
  | .or a b =>
    match a.eval atomVal, b.eval atomVal with
    | some true, _ => some true
    | _, some true => some true
    | some false, some false => some false
    | _, _ => none

def evalPath (atomVal : String → Option Bool) : List SrcCond → Option Bool
  | [] => some true
  | c :: cs =>
    match c.eval atomVal, evalPath atomVal cs with
    | some false, _ => some false
    | _, some false => some false
    | some true, some true => some true
    | _, _ => none

/-! ### gorm.go `getInstance()` from its body -/

/-- what a statement of `getInstance` does to the statement / context of the returned handle -/
inductive GiAct where
  | newTx                  -- `tx := &DB{Config: db.Config, Error: db.Error}` (no statement yet)
  | fresh (keeps : Bool)   -- `tx.Statement = &Statement{…}`; keeps = the literal has `Context: db.Statement.Context`
  | viaClone               -- `tx.Statement = db.Statement.clone()`
  | retTx                  -- `return tx`
  | retDb                  -- `return db`
  | unknown (src : String)
deriving Repr, DecidableEq

/-- an assignment the context flow depends on: the handle, its statement, its clone mode, any
    `Context` field, the receiver or the config literal -/
def relevantWrite (w : List String) : Bool :=
  w == ["tx"] || w == ["tx", "Statement"] || w == ["tx", "clone"] || w.getLast? == some "Context" ||
  w == ["db"] || w == ["db", "Statement"] || w == ["db", "clone"] || w.head? == some "config"

def classifyGi (s : GStmt) : Option GiAct :=
  if s.kind == "assign" && s.lhs == [["tx"]] && s.rhs == ["&DB{}"] && !(s.lit.any (·.1 == "Statement")) then some .newTx
  else if s.kind == "assign" && s.lhs == [["tx", "Statement"]] && s.rhs == ["&Statement{}"] then
    some (.fresh (s.lit.contains ("Context", "db.Statement.Context")))
  else if s.kind == "assign" && s.lhs == [["tx", "Statement"]] && s.rhs == ["db.Statement.clone()"] then some .viaClone
  else if s.kind == "return" then
    (if s.rhs == ["tx"] then some .retTx else if s.rhs == ["db"] then some .retDb else some (.unknown s.src))
  else if s.writes.any relevantWrite then some (.unknown s.src)
  else none

structure GiState where
  ctx : Option CtxSym := none      -- context on tx.Statement (none: tx has no statement yet)
  result : Option CtxSym := none   -- context on the returned handle's statement
  returned : Bool := false
  bad : List String := []
deriving Repr, DecidableEq

def GiState.exec (st : GiState) (g : Option Bool) (a : GiAct) : GiState :=
  if st.returned then st else
  match g with
  | some false => st
  | none => { st with bad := st.bad ++ ["statement under a condition the model cannot evaluate"] }
  | some true =>
    match a with
    | .newTx => { st with ctx := none }
    | .fresh keeps => { st with ctx := some (if keeps then .parent else .lost) }
    | .viaClone => { st with ctx := some (if cloneKeepsContext then .parent else .lost) }
    | .retTx => { st with returned := true, result := some (st.ctx.getD .lost) }
    | .retDb => { st with returned := true, result := some .parent }
    | .unknown s => { st with bad := st.bad ++ [s] }

/-- atoms of `getInstance`'s conditions in terms of `db.clone` -/
def giAtom (pos one : Bool) : String → Option Bool
  | "db.clone > 0" => some pos
  | "db.clone == 1" => some one
  | _ => none

def giRunB (pos one : Bool) : GiState :=
  Gen.getInstanceBody.foldl
    (fun st s => match classifyGi s with
      | none => st
      | some a => st.exec (evalPath (giAtom pos one) s.path) a) {}

/-- context (symbolically) on the statement of `db.getInstance()` for a receiver with this `clone` -/
def giCtx (clone : Nat) : CtxSym :=
  let r := giRunB (decide (clone > 0)) (clone == 1)
  if r.bad.isEmpty && r.returned then r.result.getD .lost else .lost

/-! ### gorm.go `Session()` from its body -/

inductive SessFlag where
  | dryRun | prepareStmt | newDB | initialized | skipHooks | skipDefaultTransaction
  | disableNestedTransaction | allowGlobalUpdate | fullSaveAssociations | propagateUnscoped
  | queryFields | hasContext | hasLogger | hasNowFunc | batchSizePos
deriving Repr, DecidableEq

/-- the run-time value of a `Session{…}` literal, as far as `Session()` tests it: one Boolean per
    field (`hasContext` = `Context != nil`, `hasLogger` = `Logger != nil`, `hasNowFunc` =
    `NowFunc != nil`, `batchSizePos` = `CreateBatchSize > 0`) -/
abbrev SessFlags := SessFlag → Bool

def SessFlags.get (f : SessFlags) (x : SessFlag) : Bool := f x

/-- the flag valuation in which exactly the listed flags are set -/
def SessFlags.ofList (l : List SessFlag) : SessFlags := fun f => l.contains f

def SessFlags.withCtx (fl : SessFlags) (b : Bool) : SessFlags := fun f => if f = .hasContext then b else fl f

def allFlags : List SessFlag :=
  [.dryRun, .prepareStmt, .newDB, .initialized, .skipHooks, .skipDefaultTransaction, .disableNestedTransaction,
   .allowGlobalUpdate, .fullSaveAssociations, .propagateUnscoped, .queryFields, .hasContext, .hasLogger,
   .hasNowFunc, .batchSizePos]

/-- the fields of `type Session struct` this model knows (compared with the regenerated
    `Gen.sessionFieldTypes` by `C18_session_fields`) -/
def knownSessionFields : List (String × String) :=
  [("DryRun", "bool"), ("PrepareStmt", "bool"), ("NewDB", "bool"), ("Initialized", "bool"), ("SkipHooks", "bool"),
   ("SkipDefaultTransaction", "bool"), ("DisableNestedTransaction", "bool"), ("AllowGlobalUpdate", "bool"),
   ("FullSaveAssociations", "bool"), ("PropagateUnscoped", "bool"), ("QueryFields", "bool"),
   ("Context", "context.Context"), ("Logger", "logger.Interface"), ("NowFunc", "func() time.Time"),
   ("CreateBatchSize", "int")]

/-- which flag a source atom of `Session()` tests -/
def sessAtom : String → Option SessFlag
  | "config.DryRun" => some .dryRun
  | "config.PrepareStmt" => some .prepareStmt
  | "config.NewDB" => some .newDB
  | "config.Initialized" => some .initialized
  | "config.SkipHooks" => some .skipHooks
  | "config.SkipDefaultTransaction" => some .skipDefaultTransaction
  | "config.DisableNestedTransaction" => some .disableNestedTransaction
  | "config.AllowGlobalUpdate" => some .allowGlobalUpdate
  | "config.FullSaveAssociations" => some .fullSaveAssociations
  | "config.PropagateUnscoped" => some .propagateUnscoped
  | "config.QueryFields" => some .queryFields
  | "config.Context != nil" => some .hasContext
  | "config.Logger != nil" => some .hasLogger
  | "config.NowFunc != nil" => some .hasNowFunc
  | "config.CreateBatchSize > 0" => some .batchSizePos
  | _ => none

/-- condition with the atoms resolved once (so that evaluating it for all flag values is cheap) -/
inductive CCond where
  | flag (f : SessFlag)
  | unknown
  | not (c : CCond)
  | and (a b : CCond)
  | or (a b : CCond)
deriving Repr, DecidableEq

def SrcCond.compile : SrcCond → CCond
  | .atom s => match sessAtom s with | some f => .flag f | none => .unknown
  | .opaque _ => .unknown
  | .not c => .not c.compile
  | .and a b => .and a.compile b.compile
  | .or a b => .or a.compile b.compile

def CCond.eval (fl : SessFlags) : CCond → Option Bool
  | .flag f => some (fl.get f)
  | .unknown => none
  | .not c => (c.eval fl).map (!·)
  | .and a b =>
    match a.eval fl, b.eval fl with
    | some false, _ => some false
    | _, some false => some false
    | some true, some true => some true
    | _, _ => none
  | .or a b =>
    match a.eval fl, b.eval fl with
    | some true, _ => some true
    | _, some true => some true
    | some false, some false => some false
    | _, _ => none

def evalCPath (fl : SessFlags) : List CCond → Option Bool
  | [] => some true
  | c :: cs =>
    match c.eval fl, evalCPath fl cs with
    | some false, _ => some false
    | _, some false => some false
    | some true, some true => some true
    | _, _ => none

/-- what a statement of `Session()` does to the new handle's statement / context -/
inductive SAct where
  | init         -- `tx = &DB{…, Statement: db.Statement, …, clone: 1}`: the statement is SHARED with the receiver
  | cloneStmt    -- `tx.Statement = tx.Statement.clone()`: private copy
  | setCtx       -- `tx.Statement.Context = config.Context`
  | setClone2    -- `tx.clone = 2`
  | getInst      -- `tx = tx.getInstance()`
  | ret          -- `return tx`
  | unknown (src : String)   -- writes the handle / statement / a context in a way the model does not know
deriving Repr, DecidableEq

def classifySess (s : GStmt) : Option SAct :=
  if s.kind == "assign" && s.lhs == [["tx"]] && s.rhs == ["&DB{}"] &&
      s.lit.contains ("Statement", "db.Statement") && s.lit.contains ("clone", "1") then some .init
  else if s.kind == "assign" && s.lhs == [["tx", "Statement"]] && s.rhs == ["tx.Statement.clone()"] then some .cloneStmt
  else if s.kind == "assign" && s.lhs == [["tx", "Statement", "Context"]] && s.rhs == ["config.Context"] then some .setCtx
  else if s.kind == "assign" && s.lhs == [["tx", "clone"]] && s.rhs == ["2"] then some .setClone2
  else if s.kind == "assign" && s.lhs == [["tx"]] && s.rhs == ["tx.getInstance()"] then some .getInst
  else if s.kind == "return" then (if s.rhs == ["tx"] then some .ret else some (.unknown s.src))
  else if s.writes.any relevantWrite then some (.unknown s.src)
  else none

/-- `Session()` reduced to the statements that matter for the context, guards resolved -/
def sessionProg : List (List CCond × SAct) :=
  Gen.sessionBody.filterMap (fun s => (classifySess s).map (fun a => (s.path.map SrcCond.compile, a)))

structure SessState where
  stmt : CtxSym := .lost          -- context on tx.Statement
  parentStmt : CtxSym := .parent  -- context on the RECEIVER's statement (must stay `.parent`)
  shared : Bool := false          -- tx.Statement is still the receiver's statement object
  clone : Nat := 0
  inited : Bool := false
  returned : Bool := false
  bad : List String := []
deriving Repr, DecidableEq

/-- `getInstance()` applied to the handle under construction -/
def SessState.getInst (st : SessState) : SessState :=
  if st.clone = 0 then st
  else { st with stmt := (match giCtx st.clone with | .parent => st.stmt | _ => .lost), shared := false, clone := 0 }

def SessState.exec (st : SessState) (g : Option Bool) (a : SAct) : SessState :=
  if st.returned then st else
  match g with
  | some false => st
  | none => { st with bad := st.bad ++ ["statement under a condition the model cannot evaluate"] }
  | some true =>
    match a with
    | .init => { st with stmt := .parent, shared := true, clone := 1, inited := true }
    | .cloneStmt => if st.inited then { st with stmt := if cloneKeepsContext then st.stmt else .lost, shared := false }
                    else { st with bad := st.bad ++ ["clone before init"] }
    | .setCtx => if st.inited then { st with stmt := .config, parentStmt := if st.shared then .config else st.parentStmt }
                 else { st with bad := st.bad ++ ["set before init"] }
    | .setClone2 => { st with clone := 2 }
    | .getInst => if st.inited then st.getInst else { st with bad := st.bad ++ ["getInstance before init"] }
    | .ret => { st with returned := true }
    | .unknown s => { st with bad := st.bad ++ [s] }

def runSess (prog : List (List CCond × SAct)) (fl : SessFlags) : SessState :=
  prog.foldl (fun st ga => st.exec (evalCPath fl ga.1) ga.2) {}

/-- summary of one `Session(&Session{…})` call with these flag values -/
def sessionRun (fl : SessFlags) : SessState := runSess sessionProg fl

def SessState.ok (st : SessState) : Bool := st.bad.isEmpty && st.returned && st.inited

/-- the context the NEXT `getInstance()` on the returned handle puts on the statement it works with -/
def SessState.next (st : SessState) : CtxSym := if st.ok then st.getInst.stmt else .lost

/-! ### the finitely many flag valuations that matter -/

def CCond.flags : CCond → List SessFlag
  | .flag f => [f]
  | .unknown => []
  | .not c => c.flags
  | .and a b => a.flags ++ b.flags
  | .or a b => a.flags ++ b.flags

def pathFlags : List CCond → List SessFlag
  | [] => []
  | c :: cs => c.flags ++ pathFlags cs

/-- every flag some guard of the program tests (plus `hasContext`) -/
def progFlags : List (List CCond × SAct) → List SessFlag
  | [] => [.hasContext]
  | ga :: rest => pathFlags ga.1 ++ progFlags rest

/-- all sub-lists: every way of switching the flags of `l` on or off -/
def flagSubsets : List SessFlag → List (List SessFlag)
  | [] => [[]]
  | f :: fs => flagSubsets fs ++ (flagSubsets fs).map (f :: ·)

/-! ## handles and derivation paths -/

/-- abstract handle: the context bound to its statement (0 = context.Background / lost) and `clone` -/
structure Handle where
  ctx : Nat
  clone : Nat
deriving Repr, DecidableEq

def SessionUse.ctxField (u : SessionUse) : Option String :=
  (u.fields.find? (fun f => f.1 = "Context")).map (·.2)

def SessionUse.newDB (u : SessionUse) : Bool :=
  u.fields.any (fun f => f.1 = "NewDB" && f.2 = "true")

/-- the receiver's own context, spelled as in the source -/
def ownContextExprs : List String := ["db.Statement.Context", "tx.Statement.Context"]

inductive Deriv where
  | getInstance                                  -- any chain method / finisher entry
  | session (u : SessionUse) (fl : SessFlags)    -- an internal `X.Session(&Session{…})` call site; `fl` = whatever its flag expressions evaluate to
  | userSession (fl : SessFlags) (c : Nat)       -- the CALLER's `Session(&Session{…})` / `WithContext(c)`; `c` is used iff `fl .hasContext`

def CtxSym.concrete (parent cfg : Nat) : CtxSym → Nat
  | .parent => parent
  | .config => cfg
  | .lost => 0

/-- handle returned by `h.Session(cfg)` according to the regenerated body -/
def Handle.afterSession (h : Handle) (fl : SessFlags) (cfgCtx : Nat) : Handle :=
  let r := sessionRun fl
  if r.ok then { ctx := r.stmt.concrete h.ctx cfgCtx, clone := r.clone } else { ctx := 0, clone := r.clone }

/-- one derivation step. -/
def Handle.step (h : Handle) : Deriv → Handle
  | .getInstance =>
    if h.clone = 0 then h else { ctx := (giCtx h.clone).concrete h.ctx 0, clone := 0 }
  | .session u fl =>
    match u.ctxField with
    | none => h.afterSession (fl.withCtx false) 0
    | some e => h.afterSession (fl.withCtx true) (if ownContextExprs.contains e then h.ctx else 0)
  | .userSession fl c => h.afterSession fl (if fl .hasContext then c else 0)

/-- a Session call that clones the statement without a Context field (SkipHooks / PrepareStmt):
    context is what `clone()` copies -/
def Handle.sessionClone (h : Handle) : Handle :=
  { h with ctx := if cloneKeepsContext then h.ctx else 0 }

def Handle.derive (h : Handle) (ds : List Deriv) : Handle := ds.foldl Handle.step h

end Gorm
