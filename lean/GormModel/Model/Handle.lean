/-
  Model of how a handle's context travels through derivations (gorm.go `getInstance`,
  `Session`, `WithContext`; statement.go `clone`).  The copy discipline is NOT written down
  here: it is read from the regenerated facts `Gen.cloneLiteral`, `Gen.getInstanceLiteral`,
  `Gen.sessionSetsContext`, so the theorems are re-checked against what the code says now.
-/
import GormModel.Core.Facts
import GormModel.Gen.CloneFacts
import GormModel.Gen.Sessions
namespace Gorm

/-- does `Statement.clone()` carry `Context` over? -/
def cloneKeepsContext : Bool := Gen.cloneLiteral.contains ("Context", "stmt.Context")
/-- does the fresh statement of `getInstance` (clone == 1) carry `Context` over? -/
def getInstanceKeepsContext : Bool := Gen.getInstanceLiteral.contains ("Context", "db.Statement.Context")
def cloneKeepsConnPool : Bool := Gen.cloneLiteral.contains ("ConnPool", "stmt.ConnPool")
def getInstanceKeepsConnPool : Bool := Gen.getInstanceLiteral.contains ("ConnPool", "db.Statement.ConnPool")

/-- abstract handle: the context bound to its statement (0 = context.Background / lost) and `clone` -/
structure Handle where
  ctx : Nat
  clone : Nat
deriving Repr, DecidableEq

def SessionUse.ctxField (u : SessionUse) : Option String :=
  (u.fields.find? (fun f => f.1 = "Context")).map (·.2)

def SessionUse.newDB (u : SessionUse) : Bool :=
  u.fields.any (fun f => f.1 = "NewDB" && f.2 = "true")

/-- the receiver's own context, spelled as in the source -/
def ownContextExprs : List String := ["db.Statement.Context", "tx.Statement.Context"]

inductive Deriv where
  | getInstance                      -- any chain method / finisher entry
  | session (u : SessionUse)         -- an internal `X.Session(&Session{…})` call site
deriving Repr

/-- one derivation step.  `Session` shares or clones the statement; with a `Context:` field it
    assigns that expression (the receiver's own context for internal sites, see C18_sessions);
    without one the statement's context is whatever `clone()` copies. -/
def Handle.step (h : Handle) : Deriv → Handle
  | .getInstance =>
    if h.clone = 0 then h
    else if h.clone = 1 then { ctx := if getInstanceKeepsContext then h.ctx else 0, clone := 0 }
    else { ctx := if cloneKeepsContext then h.ctx else 0, clone := 0 }
  | .session u =>
    let cl := if u.newDB then 1 else 2
    match u.ctxField with
    | none => { ctx := h.ctx, clone := cl }   -- statement shared (or cloned for SkipHooks/PrepareStmt: see below)
    | some e =>
      if ownContextExprs.contains e then
        -- `config.Context != nil` ⇒ statement cloned, then `tx.Statement.Context = config.Context`
        { ctx := if Gen.sessionSetsContext then h.ctx else (if cloneKeepsContext then h.ctx else 0), clone := cl }
      else { ctx := 0, clone := cl }

/-- a Session call that clones the statement without a Context field (SkipHooks / PrepareStmt):
    context is what `clone()` copies -/
def Handle.sessionClone (h : Handle) : Handle :=
  { h with ctx := if cloneKeepsContext then h.ctx else 0 }

def Handle.derive (h : Handle) (ds : List Deriv) : Handle := ds.foldl Handle.step h

end Gorm
