/-
  Abstract execution of the callback pipelines, instantiated from the REGENERATED facts
  `Gen.pipelines` / `Gen.handlers` (callbacks/callbacks.go and the handler bodies).

  A handler body is abstracted to its list of "interesting calls", each with the
  conditions that dominate it in the source (extracted syntactically).  A call can be
  issued only in a state in which all its dominating conditions hold.  Conditions the
  model understands are interpreted over `RunSt`; all others are left to an arbitrary
  environment `env : String → Bool`, over which the theorems quantify.
-/
import GormModel.Core.Facts
namespace Gorm

structure RunSt where
  dryRun : Bool
  skipDefaultTx : Bool   -- Config.SkipDefaultTransaction
  err : Bool             -- db.Error != nil
  skipHooks : Bool       -- Statement.SkipHooks
  hasSchema : Bool       -- Statement.Schema != nil
deriving Repr, DecidableEq

/-- truth value of one extracted condition atom -/
def atomVal (st : RunSt) (env : String → Bool) (a : String) : Bool :=
  if a = "!db.DryRun" then !st.dryRun
  else if a = "db.DryRun" then st.dryRun
  else if a = "db.Error == nil" then !st.err
  else if a = "db.Error != nil" then st.err
  else if a = "!db.Config.SkipDefaultTransaction" then !st.skipDefaultTx
  else if a = "!db.Statement.SkipHooks" then !st.skipHooks
  else if a = "db.Statement.Schema != nil" then st.hasSchema
  else env a

/-- may this call be issued in state `st` (under environment `env` for the other conditions)? -/
def HCall.enabled (c : HCall) (st : RunSt) (env : String → Bool) : Bool :=
  c.guards.all (atomVal st env)

/-- is a registered callback part of the compiled pipeline?  (`Match(enableTransaction)`,
    with `enableTransaction := func(db) bool { return !db.SkipDefaultTransaction }`) -/
def CbReg.active (r : CbReg) (st : RunSt) : Bool :=
  if r.matchGuard = "" then true
  else if r.matchGuard = "enableTransaction" then !st.skipDefaultTx
  else true  -- unknown guard: conservatively active

def handlerOf (hs : List HandlerFact) (name : String) : Option HandlerFact :=
  hs.find? (fun h => h.name = name)

/-- all calls of the given kinds that the pipeline `regs` can issue in state `st` -/
def possibleCalls (hs : List HandlerFact) (regs : List CbReg) (st : RunSt) (env : String → Bool)
    (kinds : List String) : List (String × HCall) :=
  regs.flatMap fun r =>
    if r.active st then
      match handlerOf hs r.handler with
      | some h => (h.calls.filter (fun c => kinds.contains c.kind && c.enabled st env)).map (fun c => (r.name, c))
      | none => []
    else []

theorem atomVal_notDryRun (st : RunSt) (env : String → Bool) (h : st.dryRun = true) :
    atomVal st env "!db.DryRun" = false := by
  simp [atomVal, h]

theorem enabled_false_of_mem (c : HCall) (st : RunSt) (env : String → Bool) (a : String)
    (ha : a ∈ c.guards) (hv : atomVal st env a = false) : c.enabled st env = false := by
  unfold HCall.enabled
  apply Bool.eq_false_iff.mpr
  intro hall
  rw [List.all_eq_true] at hall
  have := hall a ha
  rw [hv] at this
  exact Bool.noConfusion this

end Gorm
